import GramModel.Lemmas.CheckComplete
import GramModel.Lemmas.Canonical

/-!
# Coherence of evaluation, normalisation and the conversion checks (C06 / C12)

* `step_conv` / `steps_conv` : a step of the call-by-value evaluator is a conversion, in **every**
  definitions context (the evaluator never looks at the context; its `let` rule is literally the
  `letStep` head reduction, its congruence rule for the first definition of a group is the group
  congruence of `Conv`, whose premises live under opaque group variables).
* `Step_wellScoped` : evaluation keeps terms well scoped.
* `whnfX_whnf` : a result of the independent normalizer is a weak head normal form (`Whnf` of the
  erasure).
* `whnf_conv_lit` … : a weak head normal form convertible with a literal / boolean IS that literal.
* `convX_complete` : on hole-free terms with joinable erasures `convX` never answers `false`.
-/

namespace ConvCoherence

open CCSubst CCPar WhnfLemmas UnifyAgree TypingSound

/-! ## evaluation steps are conversions -/

theorem step_conv {t t' : Tm} (h : Step t t') : ∀ (Δ : DCtxX), Conv Δ t t' := by
  induction h with
  | appL _ ih => intro Δ; exact .app (ih Δ) (.refl _ _)
  | appR _ _ ih => intro Δ; exact .app (.refl _ _) (ih Δ)
  | @beta x im d b a _ => intro Δ; exact .red (.beta x im d b a)
  | negC _ ih => intro Δ; exact .neg (ih Δ)
  | @negL n => intro Δ; exact .red (.neg n)
  | binL _ ih => intro Δ; exact .bin _ (ih Δ) (.refl _ _)
  | binR _ _ ih => intro Δ; exact .bin _ (.refl _ _) (ih Δ)
  | @delta op x y r h => intro Δ; exact .red (.arith op x y r h)
  | iteC _ ih => intro Δ; exact .ite (ih Δ) (.refl _ _) (.refl _ _)
  | @iteT a b => intro Δ; exact .red (.iteTrue a b)
  | @iteF a b => intro Δ; exact .red (.iteFalse a b)
  | @letNil b => intro Δ; exact .red (.letNil b)
  | @letD x ann d d' rest b _ ih =>
    intro Δ
    refine .letg (.cons x x (.refl _ _) (ih _) ?_) (.refl _ _)
    exact convDefs_refl _ rest
  | @letU x ann d rest b _ => intro Δ; exact .red (.letStep x ann d rest b)
where
  convDefs_refl : ∀ (Δ : DCtxX) (ds : Defs), ConvDefs Δ ds ds
    | Δ, .nil => .nil Δ
    | Δ, .cons x _ _ r => .cons x x (.refl _ _) (.refl _ _) (convDefs_refl Δ r)

theorem steps_conv {t t' : Tm} (h : Steps t t') (Δ : DCtxX) : Conv Δ t t' := by
  induction h with
  | refl => exact .refl _ _
  | head h _ ih => exact .trans (step_conv h Δ) ih

/-! ## evaluation keeps terms hole-free and well scoped -/

theorem Steps_holeFree {t t' : Tm} (h : Steps t t') (hf : t.holeFree = true) : t'.holeFree = true := by
  induction h with
  | refl => exact hf
  | head h _ ih => exact ih (Canonical.Step_holeFree h hf)

theorem Step_wellScoped {t t' : Tm} (h : Step t t') :
    ∀ (n : Nat), wellScoped n t = true → wellScoped n t' = true := by
  induction h with
  | appL _ ih =>
    intro n hs; simp only [wellScoped, Bool.and_eq_true] at hs ⊢; exact ⟨ih n hs.1, hs.2⟩
  | appR _ _ ih =>
    intro n hs; simp only [wellScoped, Bool.and_eq_true] at hs ⊢; exact ⟨hs.1, ih n hs.2⟩
  | @beta x im d b a _ =>
    intro n hs
    simp only [wellScoped, Bool.and_eq_true] at hs
    exact ws_openT b (n+1) n 0 a n 0 hs.1.2 (Nat.le_refl _) (Nat.zero_le _) hs.2 (by omega)
  | negC _ ih => intro n hs; simp only [wellScoped] at hs ⊢; exact ih n hs
  | negL => intro n _; rfl
  | binL _ ih =>
    intro n hs; simp only [wellScoped, Bool.and_eq_true] at hs ⊢; exact ⟨ih n hs.1, hs.2⟩
  | binR _ _ ih =>
    intro n hs; simp only [wellScoped, Bool.and_eq_true] at hs ⊢; exact ⟨hs.1, ih n hs.2⟩
  | delta h => intro n _; exact delta_scoped h n
  | iteC _ ih =>
    intro n hs; simp only [wellScoped, Bool.and_eq_true] at hs ⊢; exact ⟨⟨ih n hs.1.1, hs.1.2⟩, hs.2⟩
  | iteT => intro n hs; simp only [wellScoped, Bool.and_eq_true] at hs; exact hs.1.2
  | iteF => intro n hs; simp only [wellScoped, Bool.and_eq_true] at hs; exact hs.2
  | letNil =>
    intro n hs
    simp only [wellScoped, Bool.and_eq_true, Defs.len_nil, Nat.add_zero] at hs
    exact hs.2
  | letD _ ih =>
    intro n hs
    simp only [wellScoped, wellScopedDefs, Bool.and_eq_true, Defs.len_cons] at hs ⊢
    exact ⟨⟨⟨hs.1.1.1, ih _ hs.1.1.2⟩, hs.1.2⟩, hs.2⟩
  | @letU x ann d rest b _ =>
    intro n hs
    simp only [wellScoped, wellScopedDefs, Bool.and_eq_true, Defs.len_cons] at hs
    have e : n + (rest.len + 1) = (n + rest.len) + 1 := by omega
    rw [e] at hs
    have hu := ws_unfoldDef x ann d rest.len (n + rest.len) hs.1.1.1 hs.1.1.2 (by omega)
    simp only [wellScoped, Bool.and_eq_true, openDefs_len]
    exact ⟨wsDefs_openDefs rest _ (n + rest.len) rest.len _ (n + rest.len) 0 hs.1.2 (Nat.le_refl _)
        (by omega) hu (by omega),
      ws_openT b _ (n + rest.len) rest.len _ (n + rest.len) 0 hs.2 (Nat.le_refl _) (by omega) hu
        (by omega)⟩

theorem Steps_wellScoped {t t' : Tm} (h : Steps t t') (n : Nat) (hs : wellScoped n t = true) :
    wellScoped n t' = true := by
  induction h with
  | refl => exact hs
  | head h _ ih => exact ih (Step_wellScoped h n hs)

/-! ## the independent normalizer returns weak head normal forms -/

theorem whnfX_whnf : ∀ (f : Nat) (Δ : DCtxX) (t r : Tm), whnfX f Δ t = some r → DHF Δ →
    t.holeFree = true → Whnf (erD Δ) 0 (er r) := by
  intro f
  induction f with
  | zero => intro Δ t r h; simp [whnfX] at h
  | succ f ih =>
    intro Δ t r h hD hf
    unfold whnfX at h
    cases t <;> simp only at h
    case hole => cases hf
    case type => cases h; exact .type
    case int => cases h; exact .int
    case bool => cases h; exact .bool
    case tt => cases h; exact .tt
    case ff => cases h; exact .ff
    case lit n => cases h; exact .lit n
    case lam x im d b => cases h; exact .lam _ _ _ _
    case pi x im d b => cases h; exact .pi _ _ _ _
    case var x i =>
      split at h
      · cases h
      · rename_i heq
        cases h
        refine .var 0 i (fun d off _ e => ?_)
        rw [Nat.sub_zero, erD_get, heq] at e
        cases e
      · rename_i d off heq
        split at h
        · cases h
        · refine ih _ _ _ h hD ?_
          rw [ushift_holeFree]; exact hD _ (List.mem_of_getElem? heq) d off rfl
    case app g a =>
      simp only [Tm.holeFree, Bool.and_eq_true] at hf
      revert h
      cases hg : whnfX f Δ g with
      | none => intro h; cases h
      | some g' =>
        have wg := ih _ _ _ hg hD hf.1
        have hg' := whnfX_holeFree hg hD hf.1
        cases g' with
        | lam x im d body =>
          simp only
          intro h
          simp only [Tm.holeFree, Bool.and_eq_true] at hg'
          exact ih _ _ _ h hD (openT_holeFree _ _ _ _ hg'.2 hf.2)
        | _ =>
          simp only
          intro h
          cases h
          simp only [er]
          exact .app wg (fun x im d b e => by cases e)
    case letg ds b =>
      simp only [Tm.holeFree, Bool.and_eq_true] at hf
      revert h
      cases hg : letAllX (f+1) ds b with
      | none => intro h; cases h
      | some b' =>
        simp only
        intro h
        exact ih _ _ _ h hD (letAllX_holeFree _ _ _ _ hg hf.1 hf.2)
    case neg a =>
      simp only [Tm.holeFree] at hf
      revert h
      cases hg : whnfX f Δ a with
      | none => intro h; cases h
      | some a' =>
        have wa := ih _ _ _ hg hD hf
        have ha' := whnfX_holeFree hg hD hf
        cases a' with
        | lit n => simp only; intro h; cases h; exact .lit _
        | _ =>
          simp only
          intro h
          cases h
          simp only [er]
          exact .neg wa (fun k e => by cases e)
    case bin op a b =>
      simp only [Tm.holeFree, Bool.and_eq_true] at hf
      revert h
      cases ha : whnfX f Δ a with
      | none => simp
      | some a' =>
        cases hb : whnfX f Δ b with
        | none => simp
        | some b' =>
          have wa := ih _ _ _ ha hD hf.1
          have wb := ih _ _ _ hb hD hf.2
          have ha' := whnfX_holeFree ha hD hf.1
          have hb' := whnfX_holeFree hb hD hf.2
          intro h
          split at h
          · rename_i x y e1 e2
            cases e1; cases e2
            split at h
            · rename_i rr hdl
              cases h
              exact delta_whnf hdl
            · rename_i hdl
              cases h
              simp only [er]
              refine .bin (.lit _) (.lit _) (fun x' y' e1 e2 => ?_)
              cases e1; cases e2
              exact hdl
          · rename_i hn e1 e2
            cases e1; cases e2; cases h
            simp only [er]
            refine .bin wa wb (fun x' y' e1 e2 => ?_)
            exact (hn x' y' (er_lit_inv ha' e1) (er_lit_inv hb' e2)).elim
          · rename_i hn
            exact (hn _ _ rfl rfl).elim
    case ite c a b =>
      simp only [Tm.holeFree, Bool.and_eq_true] at hf
      revert h
      cases hg : whnfX f Δ c with
      | none => intro h; cases h
      | some c' =>
        have wc := ih _ _ _ hg hD hf.1.1
        have hc' := whnfX_holeFree hg hD hf.1.1
        cases c' with
        | tt => simp only; intro h; exact ih _ _ _ h hD hf.1.2
        | ff => simp only; intro h; exact ih _ _ _ h hD hf.2
        | _ =>
          simp only
          intro h
          cases h
          simp only [er]
          exact .ite wc (fun e => by cases e) (fun e => by cases e)

/-! ## a weak head normal form joinable with a literal is that literal -/

theorem whnf_join_lit {Δ : DCtxX} {n : Nat} {w : Tm} {k : Int} (hw : Whnf Δ n w)
    (hj : Join Δ n w (.lit k)) : w = .lit k := by
  obtain ⟨c, p1, p2⟩ := Join.heads hw (.lit k) hj
  cases p2
  cases p1
  rfl

theorem whnf_join_tt {Δ : DCtxX} {n : Nat} {w : Tm} (hw : Whnf Δ n w)
    (hj : Join Δ n w .tt) : w = .tt := by
  obtain ⟨c, p1, p2⟩ := Join.heads hw .tt hj
  cases p2
  cases p1
  rfl

theorem whnf_join_ff {Δ : DCtxX} {n : Nat} {w : Tm} (hw : Whnf Δ n w)
    (hj : Join Δ n w .ff) : w = .ff := by
  obtain ⟨c, p1, p2⟩ := Join.heads hw .ff hj
  cases p2
  cases p1
  rfl

theorem er_tt_inv {t : Tm} (hf : t.holeFree = true) (e : er t = .tt) : t = .tt :=
  Classical.byContradiction (fun h => er_ne_tt hf h e)

theorem er_ff_inv {t : Tm} (hf : t.holeFree = true) (e : er t = .ff) : t = .ff :=
  Classical.byContradiction (fun h => er_ne_ff hf h e)

/-- ground values: integer literals and the two booleans -/
def Ground (v : Tm) : Prop := (∃ k, v = .lit k) ∨ v = .tt ∨ v = .ff

theorem Ground.er {v : Tm} (h : Ground v) : er v = v := by
  rcases h with ⟨k, rfl⟩ | rfl | rfl <;> rfl

/-- **Consistency, ground form**: a hole-free term whose erasure is a weak head normal form and which is
convertible with a ground value is that value. -/
theorem whnf_conv_ground {Δ : DCtxX} (hW : DWF Δ) {w v : Tm} (hf : w.holeFree = true)
    (hw : Whnf (erD Δ) 0 (er w)) (hv : Ground v) (hc : Conv Δ w v) : w = v := by
  have j := Conv.join hc hW
  rw [hv.er] at j
  rcases hv with ⟨k, rfl⟩ | rfl | rfl
  · exact er_lit_inv hf (whnf_join_lit hw j)
  · exact er_tt_inv hf (whnf_join_tt hw j)
  · exact er_ff_inv hf (whnf_join_ff hw j)

/-- the independent normalizer finds the ground value the evaluator finds -/
theorem whnfX_steps_ground {f : Nat} {Δ : DCtxX} (hD : DHF Δ) (hW : DWF Δ) {t v w : Tm}
    (hf : t.holeFree = true) (hs : Steps t v) (hv : Ground v) (hw : whnfX f Δ t = some w) : w = v :=
  whnf_conv_ground hW (whnfX_holeFree hw hD hf) (whnfX_whnf f Δ t w hw hD hf) hv
    (.trans (.symm (whnfX_conv hw)) (steps_conv hs Δ))

/-- the model of gram's own normalizer finds the ground value the evaluator finds (and leaves the
state alone) -/
theorem whnfS_steps_ground {f : Nat} {s s' : St} (hD : DHF s.dctx) (hW : DWF s.dctx) {t v w : Tm}
    (hf : t.holeFree = true) (hs : Steps t v) (hv : Ground v) (hw : whnfS f t s = .ok w s') :
    s' = s ∧ w = v := by
  obtain ⟨e, hwf, _, c, wx, _⟩ := whnfS_ok_all hf hD hw
  exact ⟨e, whnf_conv_ground hW hwf wx hv (.trans (.symm c) (steps_conv hs _))⟩

/-! ## completeness of `convX` up to fuel -/

theorem seq_ne_false {x y : Option Bool} : x ≠ some false → y ≠ some false →
    (match x with | some true => y | r => r) ≠ some false := by
  intro hx hy
  cases x with
  | none => simp
  | some b => cases b <;> simp_all

/-- the statement proved by induction on the fuel -/
def ConvIH (f : Nat) : Prop := ∀ (Δ : DCtxX) (a b : Tm), a.holeFree = true → b.holeFree = true →
  DHF Δ → DWF Δ → Join (erD Δ) 0 (er a) (er b) → convX f Δ a b ≠ some false

theorem convHead_complete (f : Nat) (ih : ConvIH f) (Δ : DCtxX) (w1 w2 : Tm)
    (h1 : w1.holeFree = true) (h2 : w2.holeFree = true) (hD : DHF Δ) (hW : DWF Δ)
    (hw1 : Whnf (erD Δ) 0 (er w1)) (hw2 : Whnf (erD Δ) 0 (er w2))
    (hj : Join (erD Δ) 0 (er w1) (er w2)) : convHead f Δ w1 w2 ≠ some false := by
  obtain ⟨c, p1, p2⟩ := Join.heads hw1 hw2 hj
  clear hw1 hw2 hj
  cases w1 <;> cases w2
  all_goals first
    | (exfalso; cases h1; done)
    | (exfalso; cases h2; done)
    | skip
  all_goals simp only [er] at p1 p2
  all_goals first
    | (exfalso; cases p1 <;> cases p2; done)
    | skip
  all_goals simp only [convHead]
  all_goals try (intro e; cases e; done)
  case lit.lit n m =>
    cases p1; cases p2
    simp
  case var.var x i y j =>
    cases p1; cases p2
    simp
  case lam.lam x1 i1 d1 b1 x2 i2 d2 b2 =>
    simp only [Tm.holeFree, Bool.and_eq_true] at h1 h2
    cases p1 with
    | lam _ _ q1 q2 =>
    cases p2 with
    | lam _ _ r1 r2 =>
    rw [if_pos (by simp)]
    exact ih (none :: Δ) b1 b2 h1.2 h2.2 (DHF.push hD) hW.push (Join.pop1 ⟨_, q2, r2⟩)
  case pi.pi x1 i1 d1 c1 x2 i2 d2 c2 =>
    simp only [Tm.holeFree, Bool.and_eq_true] at h1 h2
    cases p1 with
    | pi _ _ q1 q2 =>
    cases p2 with
    | pi _ _ r1 r2 =>
    rw [if_pos (by simp)]
    exact seq_ne_false (ih Δ d1 d2 h1.1 h2.1 hD hW ⟨_, q1, r1⟩)
      (ih (none :: Δ) c1 c2 h1.2 h2.2 (DHF.push hD) hW.push (Join.pop1 ⟨_, q2, r2⟩))
  case app.app f1 a1 f2 a2 =>
    simp only [Tm.holeFree, Bool.and_eq_true] at h1 h2
    cases p1 with
    | app q1 q2 =>
    cases p2 with
    | app r1 r2 =>
    exact seq_ne_false (ih Δ f1 f2 h1.1 h2.1 hD hW ⟨_, q1, r1⟩) (ih Δ a1 a2 h1.2 h2.2 hD hW ⟨_, q2, r2⟩)
  case neg.neg a1 a2 =>
    simp only [Tm.holeFree] at h1 h2
    cases p1 with
    | neg q1 =>
    cases p2 with
    | neg r1 =>
    exact ih Δ a1 a2 h1 h2 hD hW ⟨_, q1, r1⟩
  case bin.bin o1 a1 b1 o2 a2 b2 =>
    simp only [Tm.holeFree, Bool.and_eq_true] at h1 h2
    cases p1 with
    | bin _ q1 q2 =>
    cases p2 with
    | bin _ r1 r2 =>
    rw [if_pos (by simp)]
    exact seq_ne_false (ih Δ a1 a2 h1.1 h2.1 hD hW ⟨_, q1, r1⟩) (ih Δ b1 b2 h1.2 h2.2 hD hW ⟨_, q2, r2⟩)
  case ite.ite c1 a1 b1 c2 a2 b2 =>
    simp only [Tm.holeFree, Bool.and_eq_true] at h1 h2
    cases p1 with
    | ite q0 q1 q2 =>
    cases p2 with
    | ite r0 r1 r2 =>
    exact seq_ne_false (ih Δ c1 c2 h1.1.1 h2.1.1 hD hW ⟨_, q0, r0⟩)
      (seq_ne_false (ih Δ a1 a2 h1.1.2 h2.1.2 hD hW ⟨_, q1, r1⟩) (ih Δ b1 b2 h1.2 h2.2 hD hW ⟨_, q2, r2⟩))

/-- **Completeness of `convX` up to fuel**: on hole-free terms whose erasures are joinable, the
independent conversion check never answers `false`. -/
theorem convX_complete : ∀ (f : Nat), ConvIH f := by
  intro f
  induction f with
  | zero => intro Δ a b _ _ _ _ _; simp [convX]
  | succ f ih =>
    intro Δ a b ha hb hD hW hj
    rw [convX_succ]
    cases hs : sameX a b
    · simp only [Bool.false_eq_true, if_false]
      cases e1 : whnfX f Δ a with
      | none => simp
      | some wa =>
        cases e2 : whnfX f Δ b with
        | none => simp
        | some wb =>
          simp only
          have j1 := Conv.join (whnfX_conv e1) hW
          have j2 := Conv.join (whnfX_conv e2) hW
          exact convHead_complete f ih Δ wa wb (whnfX_holeFree e1 hD ha) (whnfX_holeFree e2 hD hb) hD hW
            (whnfX_whnf f Δ a wa e1 hD ha) (whnfX_whnf f Δ b wb e2 hD hb)
            (Join.trans (DWF_erD hW) (DHF_erD _) (Join.trans (DWF_erD hW) (DHF_erD _) j1.symm hj) j2)
    · simp

/-- convertible hole-free terms are never judged different -/
theorem convX_of_conv {f : Nat} {Δ : DCtxX} {a b : Tm} (ha : a.holeFree = true) (hb : b.holeFree = true)
    (hD : DHF Δ) (hW : DWF Δ) (hc : Conv Δ a b) : convX f Δ a b ≠ some false :=
  convX_complete f Δ a b ha hb hD hW (Conv.join hc hW)

/-- whenever the check answers on hole-free terms, its answer is the truth about `Conv` -/
theorem convX_decides {f : Nat} {Δ : DCtxX} {a b : Tm} {r : Bool} (ha : a.holeFree = true)
    (hb : b.holeFree = true) (hD : DHF Δ) (hW : DWF Δ) (h : convX f Δ a b = some r) :
    r = true ↔ Conv Δ a b := by
  constructor
  · intro e; subst e; exact convX_sound f Δ a b ha hb hD h
  · intro hc
    cases r with
    | true => rfl
    | false => exact (convX_of_conv ha hb hD hW hc h).elim

/-- on closed hole-free terms convertibility is joinability of the erasures -/
theorem conv_iff_join_closed {a b : Tm} (ha : a.holeFree = true) (hb : b.holeFree = true) :
    Conv [] a b ↔ Join [] 0 (er a) (er b) :=
  ⟨fun h => Conv.join h Canonical.DWF_nil, CheckComplete.join_er_conv ha hb⟩

/-! ## a value the normalizer calls a literal is that literal -/

theorem value_whnf {Δ : DCtxX} {n : Nat} {v : Tm} (hv : isValue v = true) (hf : v.holeFree = true) :
    Whnf Δ n (er v) := by
  cases v <;> simp only [isValue] at hv <;> first | (cases hv; done) | (cases hf; done) | skip
  all_goals simp only [er]
  all_goals constructor

/-- if the evaluator ends in a *value* and the normalizer answers a ground value, they coincide -/
theorem steps_value_whnfX_ground {f : Nat} {Δ : DCtxX} (hW : DWF Δ) {t v w : Tm}
    (hf : t.holeFree = true) (hs : Steps t v) (hv : isValue v = true) (hg : Ground w)
    (hw : whnfX f Δ t = some w) : v = w :=
  whnf_conv_ground hW (Steps_holeFree hs hf) (value_whnf hv (Steps_holeFree hs hf)) hg
    (.trans (.symm (steps_conv hs Δ)) (whnfX_conv hw))

/-! ## gram's own `unify` on a term and one of its reducts -/

theorem DSc.dwf {Δ : DCtxX} (h : DSc Δ) : DWF Δ := fun p d off e => (h p d off e).1

theorem DSc_nil : DSc [] := by intro i d off h; simp at h

/-- unifying a hole-free term with one of its reducts: a run that answers, answers `true` and leaves
the whole state alone -/
theorem unifyS_steps {f : Nat} {t t' : Tm} {s s' : St} {r : Bool} (ht : t.holeFree = true)
    (hD : DHF s.dctx) (hW : DWF s.dctx) (hs : Steps t t') (h : unifyS f t t' s = .ok r s') :
    s' = s ∧ r = true :=
  unifyS_ok_true ht (Steps_holeFree hs ht) hD hW (Conv.join (steps_conv hs _) hW) h

/-- … and it does not panic if the term is well scoped in a well-scoped context -/
theorem unifyS_steps_no_panic (f : Nat) {t t' : Tm} (s : St) (ht : t.holeFree = true)
    (hD : DHF s.dctx) (hS : DSc s.dctx) (hsc : wellScoped s.dctx.length t = true) (hs : Steps t t') :
    ∀ site, unifyS f t t' s ≠ .panic site :=
  unify_no_panic f t t' s ht (Steps_holeFree hs ht) hD hsc (Steps_wellScoped hs _ hsc) hS

end ConvCoherence
