import GramModel.Lemmas.PreservationTyping

/-!
# Subject reduction, part 5: the theorem

`StepOK Γ Δ t t'` is the call-by-value step relation `Step` with the contexts of the redex threaded
through, in which unfolding the first definition of a group (`letU`) carries the side condition that
the recursive unfolding `let x = d; x` it substitutes (`selfLet`) is well typed in the context of the
remaining group.  `preservation`: a `StepOK` step preserves (hole-free) types.
-/

namespace Pres

open WhnfLemmas CCSubst OracleLemmas CCPar TypingSound RewriteTyping

/-! ## evaluation steps are conversions -/

theorem cv_comps_refl {D : Ctx} (ds : Defs) (hds : ds.holeFree = true) (i : Nat) (t1 t2 : Tm)
    (e1 : (comps ds)[i]? = some t1) (e2 : (comps ds)[i]? = some t2) : Cv D t1 t2 := by
  rw [e1] at e2; cases e2
  exact .refl (comps_holeFree ds hds t1 (List.mem_of_getElem? e1))

/-- evaluation keeps terms hole-free -/
theorem step_holeFree {t t' : Tm} (h : Step t t') : t.holeFree = true → t'.holeFree = true := by
  induction h with
  | appL _ ih => intro hf; simp only [Tm.holeFree, Bool.and_eq_true] at hf ⊢; exact ⟨ih hf.1, hf.2⟩
  | appR _ _ ih => intro hf; simp only [Tm.holeFree, Bool.and_eq_true] at hf ⊢; exact ⟨hf.1, ih hf.2⟩
  | beta _ => intro hf; simp only [Tm.holeFree, Bool.and_eq_true] at hf; exact openT_holeFree _ _ _ _ hf.1.2 hf.2
  | negC _ ih => intro hf; simp only [Tm.holeFree] at hf ⊢; exact ih hf
  | negL => intro _; rfl
  | binL _ ih => intro hf; simp only [Tm.holeFree, Bool.and_eq_true] at hf ⊢; exact ⟨ih hf.1, hf.2⟩
  | binR _ _ ih => intro hf; simp only [Tm.holeFree, Bool.and_eq_true] at hf ⊢; exact ⟨hf.1, ih hf.2⟩
  | delta h => intro _; exact delta_holeFree h
  | iteC _ ih => intro hf; simp only [Tm.holeFree, Bool.and_eq_true] at hf ⊢; exact ⟨⟨ih hf.1.1, hf.1.2⟩, hf.2⟩
  | iteT => intro hf; simp only [Tm.holeFree, Bool.and_eq_true] at hf; exact hf.1.2
  | iteF => intro hf; simp only [Tm.holeFree, Bool.and_eq_true] at hf; exact hf.2
  | letNil => intro hf; simp only [Tm.holeFree, Bool.and_eq_true] at hf; exact hf.2
  | letD _ ih =>
    intro hf
    simp only [Tm.holeFree, Defs.holeFree, Bool.and_eq_true] at hf ⊢
    exact ⟨⟨⟨hf.1.1.1, ih hf.1.1.2⟩, hf.1.2⟩, hf.2⟩
  | @letU x ann d rest b _ =>
    intro hf
    simp only [Tm.holeFree, Defs.holeFree, Bool.and_eq_true] at hf ⊢
    have hu := unfoldDef_holeFree x ann d rest.len hf.1.1.1 hf.1.1.2
    exact ⟨openDefs_holeFree _ _ _ _ hf.1.2 hu, openT_holeFree _ _ _ _ hf.2 hu⟩

theorem step_cv {t t' : Tm} (h : Step t t') : t.holeFree = true → ∀ (D : Ctx), Cv D t t' := by
  induction h with
  | appL _ ih =>
    intro hf D; simp only [Tm.holeFree, Bool.and_eq_true] at hf
    exact .app (ih hf.1 D) (.refl hf.2)
  | appR _ _ ih =>
    intro hf D; simp only [Tm.holeFree, Bool.and_eq_true] at hf
    exact .app (.refl hf.1) (ih hf.2 D)
  | @beta x im d b a _ =>
    intro hf D; simp only [Tm.holeFree, Bool.and_eq_true] at hf
    exact .beta x im d b a hf.1.1 hf.1.2 hf.2
  | negC _ ih => intro hf D; simp only [Tm.holeFree] at hf; exact .neg (ih hf D)
  | negL => intro _ D; exact .negLit _
  | binL _ ih =>
    intro hf D; simp only [Tm.holeFree, Bool.and_eq_true] at hf
    exact .bin _ (ih hf.1 D) (.refl hf.2)
  | binR _ _ ih =>
    intro hf D; simp only [Tm.holeFree, Bool.and_eq_true] at hf
    exact .bin _ (.refl hf.1) (ih hf.2 D)
  | delta h => intro _ D; exact .arith _ _ _ _ h
  | iteC _ ih =>
    intro hf D; simp only [Tm.holeFree, Bool.and_eq_true] at hf
    exact .ite (ih hf.1.1 D) (.refl hf.1.2) (.refl hf.2)
  | iteT => intro hf D; simp only [Tm.holeFree, Bool.and_eq_true] at hf; exact .iteT _ _ hf.1.2 hf.2
  | iteF => intro hf D; simp only [Tm.holeFree, Bool.and_eq_true] at hf; exact .iteF _ _ hf.1.2 hf.2
  | letNil => intro hf D; simp only [Tm.holeFree, Bool.and_eq_true] at hf; exact .letNil _ hf.2
  | @letD x ann d d' rest b hs ih =>
    intro hf D
    simp only [Tm.holeFree, Defs.holeFree, Bool.and_eq_true] at hf
    have hd' := step_holeFree hs hf.1.1.2
    refine .letg rfl (by simp [Defs.holeFree, hf.1.1.1, hf.1.1.2, hf.1.2])
      (by simp [Defs.holeFree, hf.1.1.1, hd', hf.1.2]) ?_ (.refl hf.2)
    intro i t1 t2 e1 e2
    simp only [comps] at e1 e2
    match i with
    | 0 =>
      simp only [List.getElem?_cons_zero, Option.some.injEq] at e1 e2
      subst e1 e2; exact .refl hf.1.1.1
    | 1 =>
      simp only [List.getElem?_cons_succ, List.getElem?_cons_zero, Option.some.injEq] at e1 e2
      subst e1 e2; exact ih hf.1.1.2 _
    | i+2 =>
      simp only [List.getElem?_cons_succ] at e1 e2
      exact cv_comps_refl rest hf.1.2 i t1 t2 e1 e2
  | @letU x ann d rest b _ =>
    intro hf D
    simp only [Tm.holeFree, Defs.holeFree, Bool.and_eq_true] at hf
    exact .letStep x ann d rest b hf.1.1.1 hf.1.1.2 hf.1.2 hf.2

/-! ## the recursive unfolding `let x = d; x` -/

/-- the self-contained recursive unfolding of a definition that `unfoldDef` substitutes -/
def selfLet (x : Name) (ann d : Tm) (idx : Nat) : Tm :=
  .letg (.cons x (openT (ushift 0 1 ann) (idx + 1) (.var x 0) 0)
                 (openT (ushift 0 1 d) (idx + 1) (.var x 0) 0) .nil) (.var x 0)

theorem unfoldDef_selfLet (x : Name) (ann d : Tm) (idx : Nat) :
    unfoldDef x ann d idx = openT d idx (selfLet x ann d idx) 0 := rfl

theorem selfLet_hf {x : Name} {ann d : Tm} (idx : Nat) (ha : ann.holeFree = true) (hd : d.holeFree = true) :
    (selfLet x ann d idx).holeFree = true := by
  have h1 := openT_holeFree (ushift 0 1 ann) (idx + 1) (.var x 0) 0 (by rw [ushift_holeFree]; exact ha) rfl
  have h2 := openT_holeFree (ushift 0 1 d) (idx + 1) (.var x 0) 0 (by rw [ushift_holeFree]; exact hd) rfl
  simp [selfLet, Tm.holeFree, Defs.holeFree, h1, h2]

mutual
theorem open_self_ref' (y : Name) (L : Tm) (v : Nat) : ∀ (t : Tm) (k : Nat),
    openT (openT (ushift k 1 t) (v + 1 + k) (Tm.var y 0) k) k L k = openT t (v + k) L k
  | .var x j, k => by
      simp only [ushift]
      by_cases h : j ≥ k
      · rw [if_pos h]
        by_cases h2 : j = v + k
        · subst h2
          simp only [openT]
          rw [if_pos (by omega)]
          simp only [ushift]
          rw [if_pos (Nat.zero_le _), Nat.zero_add]
          simp only [openT, if_true]
        · by_cases h3 : j > v + k
          · simp only [openT]
            rw [if_neg (by omega), if_pos (by omega)]
            simp only [openT]
            rw [if_neg (by omega), if_pos (by omega), if_neg h2, if_pos h3]
            rfl
          · simp only [openT]
            rw [if_neg (by omega), if_neg (by omega)]
            simp only [openT]
            rw [if_neg (by omega), if_pos (by omega), if_neg h2, if_neg h3]
            rfl
      · rw [if_neg h]
        simp only [openT]
        rw [if_neg (by omega), if_neg (by omega)]
        simp only [openT]
        rw [if_neg (by omega), if_neg (by omega), if_neg (by omega), if_neg (by omega)]
  | .hole id s, k => by
      simp only [ushift]
      by_cases h : s ≥ k
      · rw [if_pos h]
        by_cases h3 : s > v + k
        · simp only [openT]
          rw [if_pos (by omega)]
          simp only [openT]
          rw [if_pos (by omega), if_pos h3]
          rfl
        · simp only [openT]
          rw [if_neg (by omega)]
          simp only [openT]
          rw [if_pos (by omega), if_neg h3]
          rfl
      · rw [if_neg h]
        simp only [openT]
        rw [if_neg (by omega)]
        simp only [openT]
        rw [if_neg (by omega), if_neg (by omega)]
  | .lam x im d b, k => by
      simp only [ushift, openT, open_self_ref' y L v d k]
      have := open_self_ref' y L v b (k+1)
      rw [show v + 1 + (k + 1) = v + 1 + k + 1 by omega, show v + (k + 1) = v + k + 1 by omega] at this
      rw [this]
  | .pi x im d b, k => by
      simp only [ushift, openT, open_self_ref' y L v d k]
      have := open_self_ref' y L v b (k+1)
      rw [show v + 1 + (k + 1) = v + 1 + k + 1 by omega, show v + (k + 1) = v + k + 1 by omega] at this
      rw [this]
  | .app f g, k => by simp only [ushift, openT, open_self_ref' y L v f k, open_self_ref' y L v g k]
  | .letg ds b, k => by
      simp only [ushift, openT, ushiftDefs_len, openDefs_len]
      have h1 := open_self_ref' y L v b (k + ds.len)
      have h2 := openDefs_self_ref' y L v ds (k + ds.len)
      rw [show v + 1 + (k + ds.len) = v + 1 + k + ds.len by omega,
        show v + (k + ds.len) = v + k + ds.len by omega] at h1 h2
      rw [h1, h2]
  | .neg a, k => by simp only [ushift, openT, open_self_ref' y L v a k]
  | .bin op a b, k => by simp only [ushift, openT, open_self_ref' y L v a k, open_self_ref' y L v b k]
  | .ite c a b, k => by
      simp only [ushift, openT, open_self_ref' y L v c k, open_self_ref' y L v a k, open_self_ref' y L v b k]
  | .type, _ | .int, _ | .bool, _ | .tt, _ | .ff, _ | .lit _, _ => by simp only [ushift, openT]
theorem openDefs_self_ref' (y : Name) (L : Tm) (v : Nat) : ∀ (ds : Defs) (k : Nat),
    openDefs (openDefs (ushiftDefs k 1 ds) (v + 1 + k) (Tm.var y 0) k) k L k = openDefs ds (v + k) L k
  | .nil, _ => by simp only [ushiftDefs, openDefs]
  | .cons x a d r, k => by
      simp only [ushiftDefs, openDefs, open_self_ref' y L v a k, open_self_ref' y L v d k,
        openDefs_self_ref' y L v r k]
end

/-- replacing the old self reference by the new binder and then the new binder by `L` is replacing
the old self reference by `L` -/
theorem open_self (y : Name) (L t : Tm) (v : Nat) :
    openT (openT (ushift 0 1 t) (v + 1) (Tm.var y 0) 0) 0 L 0 = openT t v L 0 := by
  have := open_self_ref' y L v t 0
  simpa using this

mutual
theorem eraseX_er : ∀ (t : Tm), t.holeFree = true → eraseX t = er t
  | .hole _ _, h => by cases h
  | .lam _ _ d b, h => by
      simp only [Tm.holeFree, Bool.and_eq_true] at h; simp [eraseX, er, eraseX_er b h.2]
  | .pi _ _ d b, h => by
      simp only [Tm.holeFree, Bool.and_eq_true] at h; simp [eraseX, er, eraseX_er d h.1, eraseX_er b h.2]
  | .app f a, h => by
      simp only [Tm.holeFree, Bool.and_eq_true] at h; simp [eraseX, er, eraseX_er f h.1, eraseX_er a h.2]
  | .letg ds b, h => by
      simp only [Tm.holeFree, Bool.and_eq_true] at h; simp [eraseX, er, eraseDefsX_er ds h.1, eraseX_er b h.2]
  | .neg a, h => by simp only [Tm.holeFree] at h; simp [eraseX, er, eraseX_er a h]
  | .bin _ a b, h => by
      simp only [Tm.holeFree, Bool.and_eq_true] at h; simp [eraseX, er, eraseX_er a h.1, eraseX_er b h.2]
  | .ite c t e, h => by
      simp only [Tm.holeFree, Bool.and_eq_true] at h
      simp [eraseX, er, eraseX_er c h.1.1, eraseX_er t h.1.2, eraseX_er e h.2]
  | .var _ _, _ | .type, _ | .int, _ | .bool, _ | .tt, _ | .ff, _ | .lit _, _ => by simp [eraseX, er]
theorem eraseDefsX_er : ∀ (ds : Defs), ds.holeFree = true → eraseDefsX ds = erDefs ds
  | .nil, _ => rfl
  | .cons _ a d r, h => by
      simp only [Defs.holeFree, Bool.and_eq_true] at h
      simp [eraseDefsX, erDefs, eraseX_er d h.1.2, eraseDefsX_er r h.2]
end

/-- re-binding the self reference twice is (up to names) re-binding it once -/
theorem sameX_swap (y : Name) (t : Tm) (ht : t.holeFree = true) :
    sameX (openT (ushift 0 1 t) 1 (Tm.var y 0) 0) t = true := by
  rw [sameX_iff, eraseX_openT, eraseX_ushift, eraseX_er t ht]
  have := swap_id t 0
  simpa [eraseX] using this

/-- a self-referential singleton group reduces to its unfolded definition -/
theorem selfLet_cv_inner (x : Name) (annS dS : Tm) (hAS : annS.holeFree = true) (hDS : dS.holeFree = true)
    (D : Ctx) : Cv D (.letg (.cons x annS dS .nil) (.var x 0)) (unfoldDef x annS dS 0) := by
  have s1 : Cv D (.letg (.cons x annS dS .nil) (.var x 0)) (.letg .nil (unfoldDef x annS dS 0)) := by
    have := Cv.letStep (D := D) x annS dS .nil (.var x 0) hAS hDS rfl rfl
    simpa [openDefs, openT, ushift_zero] using this
  have hU2 : (unfoldDef x annS dS 0).holeFree = true := unfoldDef_holeFree x annS dS 0 hAS hDS
  exact .trans s1 (.letNil _ hU2)

/-- the unfolding of the re-bound definition is, up to names, the unfolding of the definition -/
theorem unfold_rebound_same (x : Name) (ann d : Tm) (idx : Nat) (hd : d.holeFree = true) (annS : Tm) :
    sameX (unfoldDef x annS (openT (ushift 0 1 d) (idx + 1) (Tm.var x 0) 0) 0) (unfoldDef x ann d idx) = true := by
  have hDS : (openT (ushift 0 1 d) (idx + 1) (Tm.var x 0) 0).holeFree = true :=
    openT_holeFree _ _ _ _ (by rw [ushift_holeFree]; exact hd) rfl
  rw [unfoldDef_selfLet x annS _ 0, unfoldDef_selfLet x ann d idx, open_self]
  refine sameX_openT idx 0 (sameX_refl d) ?_
  simp only [selfLet, sameX, sameDefsX, Bool.and_true]
  simp only [BEq.rfl, Bool.and_true]
  exact sameX_swap x _ hDS

/-- `let x = d; x` is convertible with the unfolded definition, in every context -/
theorem selfLet_cv (x : Name) (ann d : Tm) (idx : Nat) (ha : ann.holeFree = true) (hd : d.holeFree = true)
    (D : Ctx) : Cv D (selfLet x ann d idx) (unfoldDef x ann d idx) := by
  have hU : (unfoldDef x ann d idx).holeFree = true := unfoldDef_holeFree x ann d idx ha hd
  have hAS : (openT (ushift 0 1 ann) (idx + 1) (Tm.var x 0) 0).holeFree = true :=
    openT_holeFree _ _ _ _ (by rw [ushift_holeFree]; exact ha) rfl
  have hDS : (openT (ushift 0 1 d) (idx + 1) (Tm.var x 0) 0).holeFree = true :=
    openT_holeFree _ _ _ _ (by rw [ushift_holeFree]; exact hd) rfl
  have s := selfLet_cv_inner x _ _ hAS hDS D
  exact .trans s (.same (unfold_rebound_same x ann d idx hd _) (unfoldDef_holeFree x _ _ 0 hAS hDS) hU)

/-! ## substituting into the context of a group -/

theorem ext_zero (F : Nat → Option Tm) (G : Ctx) : ext 0 F G = G := by
  funext i
  simp only [ext, Nat.not_lt_zero, if_false, Nat.sub_zero]
  cases G i <;> simp [ushift_zero]

/-- removing the outermost of `n + 1` pushed variables by substitution -/
theorem SbC.top (n : Nat) (v : Tm) (F F' : Nat → Option Tm) (G : Ctx)
    (hF : ∀ i, i < n → F' i = (F i).map (fun t => openT t n v 0)) :
    SbC n v (ext (n + 1) F G) (ext n F' G) := by
  intro i hin
  by_cases hi : i < n
  · rw [if_pos hi, ext_lt hi, ext_lt (by omega)]; exact hF i hi
  · rw [if_neg hi, ext_ge (by omega), ext_ge (by omega), show i - 1 - n = i - (n + 1) by omega]
    cases G (i - (n + 1)) with
    | none => rfl
    | some t => simp only [Option.map_some]; rw [open_ushift_past t n n v 0 (Nat.le_refl _)]

theorem WkC.refl0 (D : Ctx) : WkC 0 0 D D := by
  intro i
  rw [if_neg (by omega), Nat.add_zero]
  cases D i <;> simp [ushift_zero]

/-- the contexts of a group instantiated with two convertible terms are convertible -/
theorem group_ctxCv (rest : Defs) (hr : rest.holeFree = true) (v v' : Tm) (hvv : ∀ X : Ctx, Cv X v v')
    (D : Ctx) (hD : CHF D) :
    CtxCv (ext rest.len (defF (openDefs rest rest.len v 0)) D)
      (ext rest.len (defF (openDefs rest rest.len v' 0)) D) := by
  have hv := (hvv D).hf
  intro i d x e
  by_cases hi : i < rest.len
  · rw [ext_lt hi] at e
    simp only [defF, defAt_openDefs] at e
    cases e0 : defAt rest i with
    | none => rw [e0] at e; cases e
    | some d0 =>
      rw [e0] at e
      simp only [Option.map_some, Option.some.injEq] at e
      subst e
      have hd0 := defAt_holeFree rest i d0 hr e0
      refine .trans (.delta x i (openT d0 rest.len v' 0) ?_ (openT_holeFree _ _ _ _ hd0 hv.2)) ?_
      · rw [ext_lt hi]; simp only [defF, defAt_openDefs, e0, Option.map_some]
      · exact .symm (cv_arg (hvv _) d0 rest.len 0 _ hd0 (WkC.refl0 _))
  · have hi' := Nat.not_lt.1 hi
    have e' := e
    rw [ext_ge hi'] at e
    refine .delta x i d ?_ ?_
    · rw [ext_ge hi']; exact e
    · exact CHF_ext (fun j t hj h => by
        simp only [defF, defAt_openDefs] at h
        cases e0 : defAt rest j with
        | none => rw [e0] at h; cases h
        | some d0 =>
          rw [e0] at h
          simp only [Option.map_some, Option.some.injEq] at h
          subst h
          exact openT_holeFree _ _ _ _ (defAt_holeFree rest j d0 hr e0) hv.1) hD i d e'

theorem group_tyCv (rest : Defs) (hr : rest.holeFree = true) (v v' : Tm) (hvv : ∀ X : Ctx, Cv X v v')
    (G D' : Ctx) (hG : CHF G) :
    TyCv D' (ext rest.len (annF (openDefs rest rest.len v 0)) G)
      (ext rest.len (annF (openDefs rest rest.len v' 0)) G) := by
  have hv := (hvv D').hf
  intro i A e
  by_cases hi : i < rest.len
  · rw [ext_lt hi] at e
    simp only [annF, annAt_openDefs] at e
    cases e0 : annAt rest i with
    | none => rw [e0] at e; cases e
    | some a0 =>
      rw [e0] at e
      simp only [Option.map_some, Option.some.injEq] at e
      subst e
      have ha0 := annAt_holeFree rest i a0 hr e0
      refine ⟨openT a0 rest.len v' 0, ?_, openT_holeFree _ _ _ _ ha0 hv.2, ?_⟩
      · rw [ext_lt hi]; simp only [annF, annAt_openDefs, e0, Option.map_some]
      · exact .symm (cv_arg (hvv _) a0 rest.len 0 _ ha0 (WkC.refl0 _))
  · have hi' := Nat.not_lt.1 hi
    have e' := e
    rw [ext_ge hi'] at e
    have hA : A.holeFree = true := by
      cases e0 : G (i - rest.len) with
      | none => rw [e0] at e; cases e
      | some t =>
        rw [e0] at e
        simp only [Option.map_some, Option.some.injEq] at e
        subst e
        rw [ushift_holeFree]; exact hG _ _ e0
    exact ⟨A, by rw [ext_ge hi']; exact e, hA, .refl hA⟩

/-! ## the step relation with the side condition -/

/-- `Step`, with the contexts of the redex, where unfolding the first definition of a group requires
its recursive unfolding `let x = d; x` to be well typed in the context of the remaining group. -/
inductive StepOK : TCtxX → DCtxX → Tm → Tm → Prop
  | appL {Γ Δ f f' a} : StepOK Γ Δ f f' → StepOK Γ Δ (.app f a) (.app f' a)
  | appR {Γ Δ f a a'} : isValue f = true → StepOK Γ Δ a a' → StepOK Γ Δ (.app f a) (.app f a')
  | beta {Γ Δ x im d b a} : isValue a = true → StepOK Γ Δ (.app (.lam x im d b) a) (openT b 0 a 0)
  | negC {Γ Δ a a'} : StepOK Γ Δ a a' → StepOK Γ Δ (.neg a) (.neg a')
  | negL {Γ Δ n} : StepOK Γ Δ (.neg (.lit n)) (.lit (-n))
  | binL {Γ Δ op a a' b} : StepOK Γ Δ a a' → StepOK Γ Δ (.bin op a b) (.bin op a' b)
  | binR {Γ Δ op a b b'} : isValue a = true → StepOK Γ Δ b b' → StepOK Γ Δ (.bin op a b) (.bin op a b')
  | delta {Γ Δ op x y r} : delta op x y = some r → StepOK Γ Δ (.bin op (.lit x) (.lit y)) r
  | iteC {Γ Δ c c' t e} : StepOK Γ Δ c c' → StepOK Γ Δ (.ite c t e) (.ite c' t e)
  | iteT {Γ Δ t e} : StepOK Γ Δ (.ite .tt t e) t
  | iteF {Γ Δ t e} : StepOK Γ Δ (.ite .ff t e) e
  | letNil {Γ Δ b} : StepOK Γ Δ (.letg .nil b) b
  | letD {Γ Δ x ann d d' rest b} :
      StepOK (pushGroupX (.cons x ann d rest) 0 (Γ, Δ)).1 (pushGroupX (.cons x ann d rest) 0 (Γ, Δ)).2 d d' →
      StepOK Γ Δ (.letg (.cons x ann d rest) b) (.letg (.cons x ann d' rest) b)
  | letU {Γ Δ x ann d rest b} : isValue d = true →
      (∃ T, HasType
        (pushGroupX (openDefs rest rest.len (unfoldDef x ann d rest.len) 0) 0 (Γ, Δ)).1
        (pushGroupX (openDefs rest rest.len (unfoldDef x ann d rest.len) 0) 0 (Γ, Δ)).2
        (selfLet x ann d rest.len) T) →
      StepOK Γ Δ (.letg (.cons x ann d rest) b)
        (.letg (openDefs rest rest.len (unfoldDef x ann d rest.len) 0)
               (openT b rest.len (unfoldDef x ann d rest.len) 0))

theorem StepOK.step {Γ : TCtxX} {Δ : DCtxX} {t t' : Tm} (h : StepOK Γ Δ t t') : Step t t' := by
  induction h with
  | appL _ ih => exact .appL ih
  | appR hv _ ih => exact .appR hv ih
  | beta hv => exact .beta hv
  | negC _ ih => exact .negC ih
  | negL => exact .negL
  | binL _ ih => exact .binL ih
  | binR hv _ ih => exact .binR hv ih
  | delta h => exact .delta h
  | iteC _ ih => exact .iteC ih
  | iteT => exact .iteT
  | iteF => exact .iteF
  | letNil => exact .letNil
  | letD _ ih => exact .letD ih
  | letU hv _ => exact .letU hv

/-- on group-free terms the side condition is vacuous -/
theorem stepOK_of_noLet {t t' : Tm} (h : Step t t') : CheckSound.noLet t = true →
    ∀ (Γ : TCtxX) (Δ : DCtxX), StepOK Γ Δ t t' := by
  induction h with
  | appL _ ih =>
    intro hn Γ Δ; simp only [CheckSound.noLet, Bool.and_eq_true] at hn; exact .appL (ih hn.1 Γ Δ)
  | appR hv _ ih =>
    intro hn Γ Δ; simp only [CheckSound.noLet, Bool.and_eq_true] at hn; exact .appR hv (ih hn.2 Γ Δ)
  | beta hv => intro _ Γ Δ; exact .beta hv
  | negC _ ih => intro hn Γ Δ; simp only [CheckSound.noLet] at hn; exact .negC (ih hn Γ Δ)
  | negL => intro _ Γ Δ; exact .negL
  | binL _ ih =>
    intro hn Γ Δ; simp only [CheckSound.noLet, Bool.and_eq_true] at hn; exact .binL (ih hn.1 Γ Δ)
  | binR hv _ ih =>
    intro hn Γ Δ; simp only [CheckSound.noLet, Bool.and_eq_true] at hn; exact .binR hv (ih hn.2 Γ Δ)
  | delta h => intro _ Γ Δ; exact .delta h
  | iteC _ ih =>
    intro hn Γ Δ; simp only [CheckSound.noLet, Bool.and_eq_true] at hn; exact .iteC (ih hn.1.1 Γ Δ)
  | iteT => intro _ Γ Δ; exact .iteT
  | iteF => intro _ Γ Δ; exact .iteF
  | letNil => intro hn; simp [CheckSound.noLet] at hn
  | letD _ _ => intro hn; simp [CheckSound.noLet] at hn
  | letU _ => intro hn; simp [CheckSound.noLet] at hn

/-! ## the theorem -/

theorem SbC.beta (v : Tm) (F : Nat → Option Tm) (G : Ctx) : SbC 0 v (ext 1 F G) G := by
  have := SbC.top 0 v F noneF G (fun i hi => by omega)
  rwa [ext_zero] at this

theorem delta_typed {op : BinOp} {x y : Int} {r : Tm} (h : delta op x y = some r) (G D : Ctx) :
    HT G D r (binResult op) := by
  cases op <;> simp only [delta] at h
  case quot =>
    split at h
    · cases h
    · cases h; exact .lit _ _ _
  all_goals
    cases h
    first
      | exact .lit _ _ _
      | (split <;> first | exact .tt _ _ | exact .ff _ _)

theorem ctxCv_pointwise {D D' : Ctx} (hD' : CHF D')
    (h : ∀ i d, D i = some d → D' i = some d ∨ ∃ d', D' i = some d' ∧ Cv D' d' d) : CtxCv D D' := by
  intro i d x e
  rcases h i d e with e' | ⟨d', e', c⟩
  · exact .delta x i d e' (hD' i d e')
  · exact .trans (.delta x i d' e' (hD' i d' e')) c

theorem HT.letg_len {G D : Ctx} {ds : Defs} {body bty : Tm} {n : Nat} (hn : ds.len = n)
    (hds : ds.holeFree = true)
    (ha : ∀ x a d, (x, a, d) ∈ ds.toList → HT (ext n (annF ds) G) (ext n (defF ds) D) a .type)
    (hd : ∀ x a d, (x, a, d) ∈ ds.toList → HT (ext n (annF ds) G) (ext n (defF ds) D) d a)
    (hb : HT (ext n (annF ds) G) (ext n (defF ds) D) body bty) : HT G D (.letg ds body) (.letg ds bty) := by
  subst hn
  exact .letg hds ha hd hb

theorem CHF_group {ds : Defs} (hds : ds.holeFree = true) {G D : Ctx} (hG : CHF G) (hD : CHF D) :
    CHF (ext ds.len (annF ds) G) ∧ CHF (ext ds.len (defF ds) D) :=
  ⟨CHF_ext (fun i t hi h => annF_hf hds i t hi h) hG, CHF_ext (fun i t hi h => defF_hf hds i t hi h) hD⟩

/-- **Subject reduction** for `StepOK`, on the hole-free judgement. -/
theorem preservation_ht {Γ : TCtxX} {Δ : DCtxX} {t t' : Tm} (h : StepOK Γ Δ t t') :
    OffsT Γ → DWF Δ → THF Γ → DHF Δ → ∀ T, HT (lkT Γ) (lkD Δ) t T → HT (lkT Γ) (lkD Δ) t' T := by
  induction h with
  | appL _ ih =>
    intro hO hW hT hD T ht
    obtain ⟨x, im, dom, cod, hg, ha, c⟩ := ht.inv_app
    exact .conv (.app x im (ih hO hW hT hD _ hg) ha) c
  | @appR Γ Δ f a a' _ hs ih =>
    intro hO hW hT hD T ht
    obtain ⟨x, im, dom, cod, hg, ha, c⟩ := ht.inv_app
    have ha' := ih hO hW hT hD _ ha
    have hc := hg.hf.2
    simp only [Tm.holeFree, Bool.and_eq_true] at hc
    have cv : Cv (lkD Δ) a a' := step_cv hs.step ha.hf.1 _
    have c2 := cv_arg cv cod 0 0 _ hc.2 (WkC.refl0 _)
    exact .conv (.app x im hg ha') (.trans (.symm c2) c)
  | @beta Γ Δ x im d b a _ =>
    intro hO hW hT hD T ht
    obtain ⟨x', im', dom, cod, hg, ha, c⟩ := ht.inv_app
    obtain ⟨cod0, _, hb, cp⟩ := hg.inv_lam
    obtain ⟨_, c1, c2⟩ := cv_pi_inj hW hD cp
    have ha' : HT (lkT Γ) (lkD Δ) a d := .conv ha (.symm c1)
    have hav := ha.hf.1
    have hdn : ∀ d0, ext 1 noneF (lkD Δ) 0 = some d0 → Cv (lkD Δ) a (openT d0 0 a 0) := by
      intro d0 e; rw [ext_lt (by omega)] at e; cases e
    have hs := hb.subst 0 a (lkT Γ) (lkD Δ) hav (SbC.beta _ _ _) (SbC.beta _ _ _)
      (by
        intro A e
        rw [ext_lt (by omega)] at e
        cases e
        rw [open_ushift_cancel]
        exact ha') hdn
    have c3 := c2.subst 0 a (lkD Δ) hav (SbC.beta _ _ _) hdn
    exact .conv hs (.trans c3 c)
  | negC _ ih =>
    intro hO hW hT hD T ht
    obtain ⟨ha, c⟩ := ht.inv_neg
    exact .conv (.neg (ih hO hW hT hD _ ha)) c
  | negL =>
    intro hO hW hT hD T ht
    obtain ⟨_, c⟩ := ht.inv_neg
    exact .conv (.lit _ _ _) c
  | binL _ ih =>
    intro hO hW hT hD T ht
    obtain ⟨ha, hb, c⟩ := ht.inv_bin
    exact .conv (.bin _ (ih hO hW hT hD _ ha) hb) c
  | binR _ _ ih =>
    intro hO hW hT hD T ht
    obtain ⟨ha, hb, c⟩ := ht.inv_bin
    exact .conv (.bin _ ha (ih hO hW hT hD _ hb)) c
  | delta hr =>
    intro hO hW hT hD T ht
    obtain ⟨_, _, c⟩ := ht.inv_bin
    exact .conv (delta_typed hr _ _) c
  | iteC _ ih =>
    intro hO hW hT hD T ht
    obtain ⟨T0, h0, h1, h2, c⟩ := ht.inv_ite
    exact .conv (.ite (ih hO hW hT hD _ h0) h1 h2) c
  | iteT =>
    intro hO hW hT hD T ht
    obtain ⟨T0, _, h1, _, c⟩ := ht.inv_ite
    exact .conv h1 c
  | iteF =>
    intro hO hW hT hD T ht
    obtain ⟨T0, _, _, h2, c⟩ := ht.inv_ite
    exact .conv h2 c
  | letNil =>
    intro hO hW hT hD T ht
    obtain ⟨bty, _, _, _, hb, c⟩ := ht.inv_letg
    rw [Defs.len_nil, ext_zero, ext_zero] at hb
    exact .conv hb (.trans (.symm (.letNil bty hb.hf.2)) c)
  | @letD Γ Δ x ann d d' rest b hs ih =>
    intro hO hW hT hD T ht
    obtain ⟨bty, hds, ha, hdd, hb, c⟩ := ht.inv_letg
    have hds0 := hds
    simp only [Defs.holeFree, Bool.and_eq_true] at hds0
    obtain ⟨⟨hann, hdf⟩, hrest⟩ := hds0
    have e := CheckSound.pushGroupX_eq (.cons x ann d rest) Γ Δ
    rw [e] at ih
    have ih' := ih (OffsT_pushed hO _) (DWF_pushed hW _) (THF_pushed hT _ hds) (DHF_pushed hD _ hds)
    simp only [lkT_pushed hO, lkD_pushed hW] at ih'
    have hd2 := ih' ann (hdd x ann d (by simp [Defs.toList]))
    have hd'f : d'.holeFree = true := hd2.hf.1
    have hds' : (Defs.cons x ann d' rest).holeFree = true := by
      simp [Defs.holeFree, hann, hd'f, hrest]
    have cdd : ∀ X : Ctx, Cv X d d' := fun X => step_cv hs.step hdf X
    have hCG := CHF_group hds (CHF_lkT hT) (CHF_lkD hD)
    have hCG' := CHF_group hds' (CHF_lkT hT) (CHF_lkD hD)
    have HD : CtxCv (ext (Defs.cons x ann d rest).len (defF (.cons x ann d rest)) (lkD Δ))
        (ext (Defs.cons x ann d' rest).len (defF (.cons x ann d' rest)) (lkD Δ)) := by
      refine ctxCv_pointwise hCG'.2 ?_
      intro i d0 e0
      by_cases hi : i < rest.len + 1
      · rw [ext_lt (by simpa using hi)] at e0
        simp only [defF, defAt] at e0
        by_cases hir : i = rest.len
        · rw [if_pos hir] at e0
          cases e0
          refine Or.inr ⟨d', ?_, .symm (cdd _)⟩
          rw [ext_lt (by simpa using hi)]
          simp only [defF, defAt, if_pos hir]
        · rw [if_neg hir] at e0
          refine Or.inl ?_
          rw [ext_lt (by simpa using hi)]
          simp only [defF, defAt, if_neg hir]
          exact e0
      · have hi' : rest.len + 1 ≤ i := Nat.not_lt.1 hi
        rw [ext_ge (by simpa using hi')] at e0
        refine Or.inl ?_
        rw [ext_ge (by simpa using hi')]
        exact e0
    have HG : TyCv (ext (Defs.cons x ann d' rest).len (defF (.cons x ann d' rest)) (lkD Δ))
        (ext (Defs.cons x ann d rest).len (annF (.cons x ann d rest)) (lkT Γ))
        (ext (Defs.cons x ann d' rest).len (annF (.cons x ann d' rest)) (lkT Γ)) :=
      TyCv.rfl' hCG.1
    refine .conv (.letg hds' ?_ ?_ (hb.ctx _ _ HD HG)) ?_
    · intro y a e0 hm
      simp only [Defs.toList, List.mem_cons, Prod.mk.injEq] at hm
      rcases hm with ⟨rfl, rfl, rfl⟩ | hm
      · exact (ha y a d (by simp [Defs.toList])).ctx _ _ HD HG
      · exact (ha y a e0 (by simp [Defs.toList, hm])).ctx _ _ HD HG
    · intro y a e0 hm
      simp only [Defs.toList, List.mem_cons, Prod.mk.injEq] at hm
      rcases hm with ⟨rfl, rfl, rfl⟩ | hm
      · exact hd2.ctx _ _ HD HG
      · exact (hdd y a e0 (by simp [Defs.toList, hm])).ctx _ _ HD HG
    · refine .trans (.letg (show (Defs.cons x ann d' rest).len = (Defs.cons x ann d rest).len from rfl) hds' hds ?_ (.refl hb.hf.2)) c
      intro i t1 t2 e1 e2
      simp only [comps] at e1 e2
      match i with
      | 0 =>
        simp only [List.getElem?_cons_zero, Option.some.injEq] at e1 e2
        subst e1 e2; exact .refl hann
      | 1 =>
        simp only [List.getElem?_cons_succ, List.getElem?_cons_zero, Option.some.injEq] at e1 e2
        subst e1 e2; exact .symm (cdd _)
      | i+2 =>
        simp only [List.getElem?_cons_succ] at e1 e2
        exact cv_comps_refl rest hrest i t1 t2 e1 e2
  | @letU Γ Δ x ann d rest b _ hL =>
    intro hO hW hT hD T ht
    obtain ⟨bty, hds, ha, hdd, hb, c⟩ := ht.inv_letg
    have hds0 := hds
    simp only [Defs.holeFree, Bool.and_eq_true] at hds0
    obtain ⟨⟨hann, hdf⟩, hrest⟩ := hds0
    have hGf := CHF_lkT hT
    have hDf := CHF_lkD hD
    -- the two terms involved
    obtain ⟨U, hU⟩ : ∃ U, U = unfoldDef x ann d rest.len := ⟨_, rfl⟩
    obtain ⟨L, hLe⟩ : ∃ L, L = selfLet x ann d rest.len := ⟨_, rfl⟩
    rw [← hU, ← hLe] at hL
    rw [← hU]
    have hUf : U.holeFree = true := by rw [hU]; exact unfoldDef_holeFree x ann d rest.len hann hdf
    have hLf : L.holeFree = true := by rw [hLe]; exact selfLet_hf rest.len hann hdf
    have cLU : ∀ X : Ctx, Cv X L U := fun X => by rw [hU, hLe]; exact selfLet_cv x ann d rest.len hann hdf X
    have cUL : ∀ X : Ctx, Cv X U L := fun X => .symm (cLU X)
    have eU : U = openT d rest.len L 0 := by rw [hU, hLe]; rfl
    have hrU : (openDefs rest rest.len U 0).holeFree = true := openDefs_holeFree _ _ _ _ hrest hUf
    have hlenU := openDefs_len rest rest.len U 0
    have hlenL := openDefs_len rest rest.len L 0
    -- (a) `L` is well typed in the context of the remaining group
    obtain ⟨TL, hTL⟩ := hL
    rw [CheckSound.pushGroupX_eq] at hTL
    have a1 := hasType_ht hTL (OffsT_pushed hO _) (DWF_pushed hW _)
    rw [dhC_id (CHF_lkT (THF_pushed hT _ hrU)), dhC_id (CHF_lkD (DHF_pushed hD _ hrU)), dh_id L hLf,
      lkT_pushed hO, lkD_pushed hW, hlenU] at a1
    -- (b) ... at the instantiated annotation
    have hAS : (openT (ushift 0 1 ann) (rest.len + 1) (Tm.var x 0) 0).holeFree = true :=
      openT_holeFree _ _ _ _ (by rw [ushift_holeFree]; exact hann) rfl
    have hDS : (openT (ushift 0 1 d) (rest.len + 1) (Tm.var x 0) 0).holeFree = true :=
      openT_holeFree _ _ _ _ (by rw [ushift_holeFree]; exact hdf) rfl
    have b1 : HT (ext rest.len (annF (openDefs rest rest.len U 0)) (lkT Γ))
        (ext rest.len (defF (openDefs rest rest.len U 0)) (lkD Δ)) L (openT ann rest.len L 0) := by
      subst hLe
      simp only [selfLet] at a1 ⊢
      have hopen : ∀ W, openT (openT (ushift 0 1 ann) (rest.len + 1) (Tm.var x 0) 0) 0 W 0 =
          openT ann rest.len W 0 := fun W => open_self x W ann rest.len
      generalize openT (ushift 0 1 ann) (rest.len + 1) (Tm.var x 0) 0 = annS at a1 hAS hopen ⊢
      generalize openT (ushift 0 1 d) (rest.len + 1) (Tm.var x 0) 0 = dS at a1 hDS ⊢
      obtain ⟨btyL, hdsL, haL, hdL, _, _⟩ := a1.inv_letg
      have hv : HT (ext (Defs.cons x annS dS .nil).len (annF (.cons x annS dS .nil))
            (ext rest.len (annF (openDefs rest rest.len U 0)) (lkT Γ)))
          (ext (Defs.cons x annS dS .nil).len (defF (.cons x annS dS .nil))
            (ext rest.len (defF (openDefs rest rest.len U 0)) (lkD Δ))) (Tm.var x 0) annS :=
        .var _ x 0 _ (by rw [ext_lt (by simp)]; simp [annF, annAt]) hAS
      have t1 := HT.letg hdsL haL hdL hv
      have hU2f := unfoldDef_holeFree x annS dS 0 hAS hDS
      have s1 := Cv.letStep (D := ext rest.len (defF (openDefs rest rest.len U 0)) (lkD Δ)) x annS dS .nil
        annS hAS hDS rfl hAS
      simp only [openDefs, Defs.len_nil] at s1
      rw [hopen] at s1
      have s2 := Cv.letNil (D := ext rest.len (defF (openDefs rest rest.len U 0)) (lkD Δ)) _
        (openT_holeFree ann rest.len _ 0 hann hU2f)
      have s3 : Cv (ext rest.len (defF (openDefs rest rest.len U 0)) (lkD Δ)) (unfoldDef x annS dS 0)
          (.letg (.cons x annS dS .nil) (.var x 0)) := .symm (selfLet_cv_inner x annS dS hAS hDS _)
      have s4 := cv_arg s3 ann rest.len 0 _ hann (WkC.refl0 _)
      exact .conv t1 (.trans s1 (.trans s2 s4))
    -- (c) the same in the context instantiated with `L`
    have c1 : HT (ext rest.len (annF (openDefs rest rest.len L 0)) (lkT Γ))
        (ext rest.len (defF (openDefs rest rest.len L 0)) (lkD Δ)) L (openT ann rest.len L 0) :=
      b1.ctx _ _ (group_ctxCv rest hrest U L cUL _ hDf) (group_tyCv rest hrest U L cUL _ _ hGf)
    -- (d) the unfolded definition is well typed
    have hmem : (x, ann, d) ∈ (Defs.cons x ann d rest).toList := by simp [Defs.toList]
    have SbGL : SbC rest.len L (ext (Defs.cons x ann d rest).len (annF (.cons x ann d rest)) (lkT Γ))
        (ext rest.len (annF (openDefs rest rest.len L 0)) (lkT Γ)) :=
      SbC.top rest.len L _ _ _ (fun i hi => by
        simp only [annF, annAt_openDefs, annAt]; rw [if_neg (by omega)])
    have SbDL : SbC rest.len L (ext (Defs.cons x ann d rest).len (defF (.cons x ann d rest)) (lkD Δ))
        (ext rest.len (defF (openDefs rest rest.len L 0)) (lkD Δ)) :=
      SbC.top rest.len L _ _ _ (fun i hi => by
        simp only [defF, defAt_openDefs, defAt]; rw [if_neg (by omega)])
    have d1 := (hdd x ann d hmem).subst rest.len L _ _ hLf SbGL SbDL
      (by
        intro A e
        rw [ext_lt (by simp)] at e
        simp only [annF, annAt, if_true, Option.some.injEq] at e
        subst e; exact c1)
      (by
        intro d0 e
        rw [ext_lt (by simp)] at e
        simp only [defF, defAt, if_true, Option.some.injEq] at e
        subst e; rw [← eU]; exact cLU _)
    rw [← eU] at d1
    -- (e) ... in the context of the remaining group, at the annotation instantiated with itself
    have e1 := d1.ctx _ _ (group_ctxCv rest hrest L U cLU _ hDf) (group_tyCv rest hrest L U cLU _ _ hGf)
    have e2 : HT (ext rest.len (annF (openDefs rest rest.len U 0)) (lkT Γ))
        (ext rest.len (defF (openDefs rest rest.len U 0)) (lkD Δ)) U (openT ann rest.len U 0) :=
      .conv e1 (cv_arg (cLU _) ann rest.len 0 _ hann (WkC.refl0 _))
    -- (f) substitute it into the rest of the group and the body
    have SbGU : SbC rest.len U (ext (Defs.cons x ann d rest).len (annF (.cons x ann d rest)) (lkT Γ))
        (ext rest.len (annF (openDefs rest rest.len U 0)) (lkT Γ)) :=
      SbC.top rest.len U _ _ _ (fun i hi => by
        simp only [annF, annAt_openDefs, annAt]; rw [if_neg (by omega)])
    have SbDU : SbC rest.len U (ext (Defs.cons x ann d rest).len (defF (.cons x ann d rest)) (lkD Δ))
        (ext rest.len (defF (openDefs rest rest.len U 0)) (lkD Δ)) :=
      SbC.top rest.len U _ _ _ (fun i hi => by
        simp only [defF, defAt_openDefs, defAt]; rw [if_neg (by omega)])
    have htU : ∀ A, ext (Defs.cons x ann d rest).len (annF (.cons x ann d rest)) (lkT Γ) rest.len = some A →
        HT (ext rest.len (annF (openDefs rest rest.len U 0)) (lkT Γ))
          (ext rest.len (defF (openDefs rest rest.len U 0)) (lkD Δ)) U (openT A rest.len U 0) := by
      intro A e
      rw [ext_lt (by simp)] at e
      simp only [annF, annAt, if_true, Option.some.injEq] at e
      subst e; exact e2
    have hdU : ∀ d0, ext (Defs.cons x ann d rest).len (defF (.cons x ann d rest)) (lkD Δ) rest.len = some d0 →
        Cv (ext rest.len (defF (openDefs rest rest.len U 0)) (lkD Δ)) U (openT d0 rest.len U 0) := by
      intro d0 e
      rw [ext_lt (by simp)] at e
      simp only [defF, defAt, if_true, Option.some.injEq] at e
      subst e
      have := cv_arg (cLU (ext rest.len (defF (openDefs rest rest.len U 0)) (lkD Δ))) d rest.len 0 _ hdf
        (WkC.refl0 _)
      rwa [← eU] at this
    have f1 : HT (lkT Γ) (lkD Δ) (.letg (openDefs rest rest.len U 0) (openT b rest.len U 0))
        (.letg (openDefs rest rest.len U 0) (openT bty rest.len U 0)) := by
      refine HT.letg_len hlenU hrU ?_ ?_ (hb.subst rest.len U _ _ hUf SbGU SbDU htU hdU)
      · intro y a e0 hm
        rw [toList_openDefs] at hm
        obtain ⟨a0, d0, hm0, rfl, rfl⟩ := mem_map_triple (f := fun t => openT t rest.len U 0) hm
        exact (ha y a0 d0 (by simp [Defs.toList, hm0])).subst rest.len U _ _ hUf SbGU SbDU htU hdU
      · intro y a e0 hm
        rw [toList_openDefs] at hm
        obtain ⟨a0, d0, hm0, rfl, rfl⟩ := mem_map_triple (f := fun t => openT t rest.len U 0) hm
        exact (hdd y a0 d0 (by simp [Defs.toList, hm0])).subst rest.len U _ _ hUf SbGU SbDU htU hdU
    -- (g) the type is the old one, one reduction step later
    have g1 := Cv.letStep (D := lkD Δ) x ann d rest bty hann hdf hrest hb.hf.2
    rw [← hU] at g1
    exact .conv f1 (.trans (.symm g1) c)

/-- **Subject reduction** for the declarative rules: a `StepOK` step of a hole-free term in hole-free
contexts whose offsets are in range preserves every type, up to hole removal in the type. -/
theorem preservation_dh {Γ : TCtxX} {Δ : DCtxX} {t t' T : Tm} (ht : t.holeFree = true)
    (hT : THF Γ) (hD : DHF Δ) (hO : OffsT Γ) (hW : DWF Δ) (h : HasType Γ Δ t T)
    (hs : StepOK Γ Δ t t') : HasType Γ Δ t' (dh T) := by
  have h1 := hasType_ht h hO hW
  rw [dhC_id (CHF_lkT hT), dhC_id (CHF_lkD hD), dh_id t ht] at h1
  exact ht_hasType (preservation_ht hs hO hW hT hD _ h1) Γ Δ hO hW rfl rfl

/-- **Subject reduction** at hole-free types. -/
theorem preservation {Γ : TCtxX} {Δ : DCtxX} {t t' T : Tm} (ht : t.holeFree = true)
    (hTy : T.holeFree = true) (hT : THF Γ) (hD : DHF Δ) (hO : OffsT Γ) (hW : DWF Δ)
    (h : HasType Γ Δ t T) (hs : StepOK Γ Δ t t') : HasType Γ Δ t' T := by
  have := preservation_dh ht hT hD hO hW h hs
  rwa [dh_id T hTy] at this

end Pres
