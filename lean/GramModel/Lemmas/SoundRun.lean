import GramModel.Lemmas.Canonical
import GramModel.Lemmas.PreservationMain

/-!
# Type soundness along evaluation on the group-free fragment (C01 / C04)

`Canonical.evalFuel_typed` / `Canonical.checker_sound_run` take subject reduction for *all* closed terms as
a hypothesis, which is false (`C04_preservation_refuted`).  Here the same statements are proved outright
for `CheckSound.noLet` terms: `noLet` and hole-freeness are preserved by `Step`, subject reduction holds
on the fragment (`Pres.preservation` with `Pres.stepOK_of_noLet`), and a closed well typed group-free
term is never stuck at a variable (the evaluation context of a group-free term crosses no binder, and the
empty context types no variable).
-/

namespace SoundRun
open CheckSound

/-! ## `noLet` along evaluation -/

theorem ushift_noLet : ∀ (t : Tm) (c a : Nat), noLet t = true → noLet (ushift c a t) = true
  | .var x i, c, a, _ => by unfold ushift; split <;> rfl
  | .hole id s, c, a, _ => by unfold ushift; split <;> rfl
  | .lam x im d b, c, a, h => by
      simp only [noLet, Bool.and_eq_true] at h
      simp only [ushift, noLet, Bool.and_eq_true]
      exact ⟨ushift_noLet d _ _ h.1, ushift_noLet b _ _ h.2⟩
  | .pi x im d b, c, a, h => by
      simp only [noLet, Bool.and_eq_true] at h
      simp only [ushift, noLet, Bool.and_eq_true]
      exact ⟨ushift_noLet d _ _ h.1, ushift_noLet b _ _ h.2⟩
  | .app f g, c, a, h => by
      simp only [noLet, Bool.and_eq_true] at h
      simp only [ushift, noLet, Bool.and_eq_true]
      exact ⟨ushift_noLet f _ _ h.1, ushift_noLet g _ _ h.2⟩
  | .letg ds b, c, a, h => by simp [noLet] at h
  | .neg t, c, a, h => by
      simp only [noLet] at h
      simp only [ushift, noLet]
      exact ushift_noLet t _ _ h
  | .bin op t v, c, a, h => by
      simp only [noLet, Bool.and_eq_true] at h
      simp only [ushift, noLet, Bool.and_eq_true]
      exact ⟨ushift_noLet t _ _ h.1, ushift_noLet v _ _ h.2⟩
  | .ite t v w, c, a, h => by
      simp only [noLet, Bool.and_eq_true] at h
      simp only [ushift, noLet, Bool.and_eq_true]
      exact ⟨⟨ushift_noLet t _ _ h.1.1, ushift_noLet v _ _ h.1.2⟩, ushift_noLet w _ _ h.2⟩
  | .type, _, _, _ | .int, _, _, _ | .bool, _, _, _ | .tt, _, _, _ | .ff, _, _, _ | .lit _, _, _, _ => by
      simp [ushift, noLet]

theorem openT_noLet : ∀ (t : Tm) (i : Nat) (u : Tm) (s : Nat), noLet t = true → noLet u = true →
    noLet (openT t i u s) = true
  | .var x j, i, u, s, _, hu => by
      unfold openT
      split
      · exact ushift_noLet u _ _ hu
      · split <;> rfl
  | .hole id k, i, u, s, _, _ => by unfold openT; split <;> rfl
  | .lam x im d b, i, u, s, h, hu => by
      simp only [noLet, Bool.and_eq_true] at h
      simp only [openT, noLet, Bool.and_eq_true]
      exact ⟨openT_noLet d _ _ _ h.1 hu, openT_noLet b _ _ _ h.2 hu⟩
  | .pi x im d b, i, u, s, h, hu => by
      simp only [noLet, Bool.and_eq_true] at h
      simp only [openT, noLet, Bool.and_eq_true]
      exact ⟨openT_noLet d _ _ _ h.1 hu, openT_noLet b _ _ _ h.2 hu⟩
  | .app f g, i, u, s, h, hu => by
      simp only [noLet, Bool.and_eq_true] at h
      simp only [openT, noLet, Bool.and_eq_true]
      exact ⟨openT_noLet f _ _ _ h.1 hu, openT_noLet g _ _ _ h.2 hu⟩
  | .letg ds b, i, u, s, h, _ => by simp [noLet] at h
  | .neg t, i, u, s, h, hu => by
      simp only [noLet] at h
      simp only [openT, noLet]
      exact openT_noLet t _ _ _ h hu
  | .bin op t v, i, u, s, h, hu => by
      simp only [noLet, Bool.and_eq_true] at h
      simp only [openT, noLet, Bool.and_eq_true]
      exact ⟨openT_noLet t _ _ _ h.1 hu, openT_noLet v _ _ _ h.2 hu⟩
  | .ite t v w, i, u, s, h, hu => by
      simp only [noLet, Bool.and_eq_true] at h
      simp only [openT, noLet, Bool.and_eq_true]
      exact ⟨⟨openT_noLet t _ _ _ h.1.1 hu, openT_noLet v _ _ _ h.1.2 hu⟩, openT_noLet w _ _ _ h.2 hu⟩
  | .type, _, _, _, _, _ | .int, _, _, _, _, _ | .bool, _, _, _, _, _ | .tt, _, _, _, _, _
  | .ff, _, _, _, _, _ | .lit _, _, _, _, _, _ => by simp [openT, noLet]

theorem delta_noLet {op : BinOp} {x y : Int} {r : Tm} (h : delta op x y = some r) : noLet r = true := by
  cases op <;> simp only [delta] at h
  case quot => split at h <;> simp at h; subst h; rfl
  all_goals (simp at h; subst h; first | rfl | (split <;> rfl))

/-- evaluation keeps terms group-free -/
theorem Step_noLet {t t' : Tm} (h : Step t t') : noLet t = true → noLet t' = true := by
  induction h with
  | appL _ ih => intro hn; simp only [noLet, Bool.and_eq_true] at hn ⊢; exact ⟨ih hn.1, hn.2⟩
  | appR _ _ ih => intro hn; simp only [noLet, Bool.and_eq_true] at hn ⊢; exact ⟨hn.1, ih hn.2⟩
  | beta _ => intro hn; simp only [noLet, Bool.and_eq_true] at hn; exact openT_noLet _ _ _ _ hn.1.2 hn.2
  | negC _ ih => intro hn; simp only [noLet] at hn ⊢; exact ih hn
  | negL => intro _; rfl
  | binL _ ih => intro hn; simp only [noLet, Bool.and_eq_true] at hn ⊢; exact ⟨ih hn.1, hn.2⟩
  | binR _ _ ih => intro hn; simp only [noLet, Bool.and_eq_true] at hn ⊢; exact ⟨hn.1, ih hn.2⟩
  | delta h => intro _; exact delta_noLet h
  | iteC _ ih => intro hn; simp only [noLet, Bool.and_eq_true] at hn ⊢; exact ⟨⟨ih hn.1.1, hn.1.2⟩, hn.2⟩
  | iteT => intro hn; simp only [noLet, Bool.and_eq_true] at hn; exact hn.1.2
  | iteF => intro hn; simp only [noLet, Bool.and_eq_true] at hn; exact hn.2
  | letNil => intro hn; simp [noLet] at hn
  | letD _ _ => intro hn; simp [noLet] at hn
  | letU _ => intro hn; simp [noLet] at hn

/-! ## closed well typed group-free terms are not stuck at a variable -/

/-- the empty typing context types no variable -/
theorem no_var_nil : ∀ {Γ : TCtxX} {Δ : DCtxX} {t T : Tm}, HasType Γ Δ t T → Γ = [] →
    ∀ (x : Name) (i : Nat), t = .var x i → False
  | _, _, _, _, .var _ _ _ _ _ h _, e, _, _, _ => by subst e; simp at h
  | _, _, _, _, .conv h _, e, x, i, et => no_var_nil h e x i et
  | _, _, _, _, .type _ _, _, _, _, et => by cases et
  | _, _, _, _, .int _ _, _, _, _, et => by cases et
  | _, _, _, _, .bool _ _, _, _, _, et => by cases et
  | _, _, _, _, .lit _ _ _, _, _, _, et => by cases et
  | _, _, _, _, .tt _ _, _, _, _, et => by cases et
  | _, _, _, _, .ff _ _, _, _, _, et => by cases et
  | _, _, _, _, .lam _ _ _ _, _, _, _, et => by cases et
  | _, _, _, _, .pi _ _ _ _, _, _, _, et => by cases et
  | _, _, _, _, .app _ _ _ _, _, _, _, et => by cases et
  | _, _, _, _, .letg _ _, _, _, _, et => by cases et
  | _, _, _, _, .neg _, _, _, _, et => by cases et
  | _, _, _, _, .bin _ _ _, _, _, _, et => by cases et
  | _, _, _, _, .ite _ _ _, _, _, _, et => by cases et

open OracleLemmas Canonical CCPar in
/-- **One-step progress on the closed group-free fragment**: a closed well typed group-free term that is
stuck is stuck at a division by zero. -/
theorem stuck_only_div : ∀ (t : Tm) (r : StuckReason), stuckReason t = some r →
    noLet t = true → ∀ (Δ : DCtxX) (T : Tm), DWF Δ → HasType [] Δ t T → r = .divZero := by
  intro t
  fun_induction stuckReason t <;> intro r hs hn Δ T hW h
  all_goals try (cases hs; done)
  all_goals try (simp [noLet] at hn; done)
  all_goals obtain ⟨T0, c0, g⟩ := gen h
  all_goals simp only [Gen] at g
  all_goals simp only [noLet, Bool.and_eq_true] at hn
  case case2 => exact (no_var_nil h rfl _ _ rfl).elim
  case case4 ih =>
    obtain ⟨x, im, dom, cod, hg, ha⟩ := g
    exact ih r hs hn.1 Δ _ hW hg
  case case6 ih =>
    obtain ⟨x, im, dom, cod, hg, ha⟩ := g
    exact ih r hs hn.2 Δ _ hW ha
  case case8 hvf _ _ hnl =>
    obtain ⟨x, im, dom, cod, hg, ha⟩ := g
    obtain ⟨y, jm, d, b, e⟩ := canonical_pi hW (not_not_value hvf) hg (.refl _ _)
    exact (hnl y jm d b e).elim
  case case14 ih => exact ih r hs hn Δ _ hW g
  case case16 _ hva hnl =>
    obtain ⟨n, e⟩ := canonical_int hW (not_not_value hva) g (.refl _ _)
    exact (hnl n e).elim
  case case18 ih => exact ih r hs hn.1 Δ _ hW g.1
  case case20 ih => exact ih r hs hn.2 Δ _ hW g.2
  case case21 => cases hs; rfl
  case case23 _ hva _ hvb hnl =>
    obtain ⟨n, e1⟩ := canonical_int hW (not_not_value hva) g.1 (.refl _ _)
    obtain ⟨m, e2⟩ := canonical_int hW (not_not_value hvb) g.2 (.refl _ _)
    exact (hnl n m e1 e2).elim
  case case25 ih => exact ih r hs hn.1.1 Δ _ hW g
  case case28 _ hvc hnt hnf =>
    rcases canonical_bool hW (not_not_value hvc) g (.refl _ _) with e | e
    · exact (hnt e).elim
    · exact (hnf e).elim

/-- progress on the closed group-free fragment -/
theorem progress_nolet {t T : Tm} (hn : noLet t = true) (h : HasType [] [] t T) :
    isValue t = true ∨ (∃ t', Step t t') ∨ stuckReason t = some .divZero := by
  cases hv : isValue t with
  | true => exact Or.inl rfl
  | false =>
    cases hs : step t with
    | some t' => exact Or.inr (Or.inl ⟨t', step_sound t t' hs⟩)
    | none =>
      obtain ⟨r, hr⟩ := stuckReason_complete t hs hv
      have e := stuck_only_div t r hr hn [] T Canonical.DWF_nil h
      exact Or.inr (Or.inr (e ▸ hr))

/-! ## along evaluation -/

/-- subject reduction for closed group-free terms -/
theorem pres_nolet {t t' T : Tm} (ht : t.holeFree = true) (hTy : T.holeFree = true)
    (hn : noLet t = true) (h : HasType [] [] t T) (hs : Step t t') : HasType [] [] t' T :=
  Pres.preservation ht hTy (fun _ he => by cases he) (fun _ he => by cases he)
    (fun _ _ _ e => by simp at e) Canonical.DWF_nil h (Pres.stepOK_of_noLet hs hn [] [])

/-- a closed well typed hole-free group-free term stays so along evaluation -/
theorem evalFuel_typed_nolet : ∀ (n : Nat) (t T : Tm), t.holeFree = true → T.holeFree = true →
    noLet t = true → HasType [] [] t T →
    (evalFuel n t).holeFree = true ∧ noLet (evalFuel n t) = true ∧ HasType [] [] (evalFuel n t) T
  | 0, t, T, hf, _, hn, h => ⟨hf, hn, h⟩
  | n+1, t, T, hf, hTy, hn, h => by
      unfold evalFuel
      cases hs : step t with
      | none => exact ⟨hf, hn, h⟩
      | some t' =>
        have st := step_sound t t' hs
        exact evalFuel_typed_nolet n t' T (Canonical.Step_holeFree st hf) hTy (Step_noLet st hn)
          (pres_nolet hf hTy hn h st)

/-- what the checker model establishes for an accepted closed hole-free group-free program: the reported
type is hole-free (hence its own zonked form, at every fuel) and the program has it -/
theorem accepted_typed {fuel : Nat} {t e ty : Tm} {s : St} (ht : t.holeFree = true)
    (hnl : noLet t = true) (h : inferS fuel t {} = .ok (e, ty) s) (hn : s.nerrs = 0) :
    e = t ∧ ty.holeFree = true ∧ HasType [] [] t ty := by
  obtain ⟨he, hty, j⟩ := CheckSound.checker_sound_generic CheckSound.rules_HasTypeNL ht h hn
  exact ⟨he, hty, j hnl⟩

/-- **type soundness of the checker model on hole-free group-free programs** -/
theorem checker_sound_run_nolet (fuel n : Nat) (t e ty : Tm) (s : St) (ht : t.holeFree = true)
    (hnl : noLet t = true) (h : inferS fuel t {} = .ok (e, ty) s) (hn : s.nerrs = 0) :
    isValue (evalFuel n t) = true ∨ (∃ r', Step (evalFuel n t) r') ∨
      stuckReason (evalFuel n t) = some .divZero := by
  obtain ⟨_, hty, j⟩ := accepted_typed ht hnl h hn
  obtain ⟨_, hn', j'⟩ := evalFuel_typed_nolet n t ty ht hty hnl j
  exact progress_nolet hn' j'

/-- **the value reached has the reported (zonked) type**, with the two canonical-forms corollaries -/
theorem value_inhabits_type_nolet (fuel n : Nat) (t e ty zty : Tm) (s : St) (ht : t.holeFree = true)
    (hnl : noLet t = true) (h : inferS fuel t {} = .ok (e, ty) s) (hn : s.nerrs = 0)
    (hz : zonk fuel s.store ty = some zty) (hv : isValue (evalFuel n t) = true) :
    HasType [] [] (evalFuel n t) zty ∧
    (Conv [] zty .int → ∃ k, evalFuel n t = .lit k) ∧
    (Conv [] zty .bool → evalFuel n t = .tt ∨ evalFuel n t = .ff) := by
  obtain ⟨_, hty, j⟩ := accepted_typed ht hnl h hn
  obtain ⟨_, _, j'⟩ := evalFuel_typed_nolet n t ty ht hty hnl j
  rw [CheckSound.zonk_holeFree hty hz]
  exact ⟨j', fun hc => Canonical.canonical_int Canonical.DWF_nil hv j' hc,
    fun hc => Canonical.canonical_bool Canonical.DWF_nil hv j' hc⟩

end SoundRun

/-! ## the hypotheses are satisfiable: a decidable check on concrete programs -/

namespace SoundRun
open CheckSound

/-- all hypotheses of `checker_sound_run_nolet` / `value_inhabits_type_nolet` for the program `t`, checker fuel
`fuel`, `n` evaluation steps, expected zonked type `zty` and expected value `v` — as a Boolean -/
def demoOK (fuel n : Nat) (t zty v : Tm) : Bool :=
  t.holeFree && wellScoped 0 t && noLet t &&
  (match inferS fuel t {} with
   | .ok (_, ty) s => s.nerrs == 0 && decide (zonk fuel s.store ty = some zty)
   | _ => false) &&
  isValue (evalFuel n t) && decide (evalFuel n t = v)

theorem demoOK_spec {fuel n : Nat} {t zty v : Tm} (h : demoOK fuel n t zty v = true) :
    ∃ (e ty : Tm) (s : St), t.holeFree = true ∧ wellScoped 0 t = true ∧ noLet t = true ∧
      inferS fuel t {} = .ok (e, ty) s ∧ s.nerrs = 0 ∧ zonk fuel s.store ty = some zty ∧
      isValue (evalFuel n t) = true ∧ evalFuel n t = v := by
  unfold demoOK at h
  simp only [Bool.and_eq_true, decide_eq_true_eq] at h
  obtain ⟨⟨⟨⟨⟨h1, h2⟩, h3⟩, h4⟩, h5⟩, h6⟩ := h
  split at h4
  · rename_i e ty s heq
    simp only [Bool.and_eq_true, beq_iff_eq, decide_eq_true_eq] at h4
    exact ⟨_, ty, s, h1, h2, h3, heq, h4.1, h4.2, h5, h6⟩
  · cases h4

/-- `((a : type) => (x : a) => x) int 3`: the polymorphic identity, instantiated and applied -/
def idProg : Tm :=
  .app (.app (.lam 1 false .type (.lam 2 false (.var 1 0) (.var 2 0))) .int) (.lit 3)

/-- `((f : int -> int) => (b : bool) => if b then f (2 * 3) else 0 - 1) ((y : int) => y + 1) (1 < 2)` -/
def iteProg : Tm :=
  .app (.app
    (.lam 1 false (.pi 0 false .int .int) (.lam 2 false .bool
      (.ite (.var 2 0) (.app (.var 1 1) (.bin .prod (.lit 2) (.lit 3))) (.bin .diff (.lit 0) (.lit 1)))))
    (.lam 3 false .int (.bin .sum (.var 3 0) (.lit 1))))
    (.bin .lt (.lit 1) (.lit 2))

theorem idProg_ok : demoOK 40 5 idProg .int (.lit 3) = true := by decide
theorem iteProg_ok : demoOK 40 10 iteProg .int (.lit 7) = true := by decide +kernel

end SoundRun
