import GramModel.Lemmas.ParserSpan
import GramModel.Lemmas.PrintDerives

/-! # Completeness of the parser model on printed terms, part 1: the packrat functions, bottom-up

`RetN toks nt s r`: with enough fuel the cache-free function `parse_nt(tokens, s)` returns `r`
(from any state, leaving it unchanged).  For every nonterminal there is one lemma per way the
function is used on printed input: the alternative that succeeds, given that the alternatives
tried before it fail (`FailsN`: return a `ParseError` term). -/

namespace PModel

/-! ## Total correctness combinators -/

/-- `m` returns `r` from every state, and leaves the state unchanged. -/
def Ret (m : ParseM PResult) (r : PResult) : Prop := ∀ st, m st = some (r, st)

/-- `m` returns a `ParseError` term. -/
def Fails (m : ParseM PResult) : Prop := ∃ r, Ret m r ∧ r.term.isParseError = true

theorem Ret.pure (r : PResult) : Ret (Pure.pure r) r := fun _ => rfl

theorem Ret.bind {m : ParseM PResult} {f : PResult → ParseM PResult} {a b : PResult}
    (h1 : Ret m a) (h2 : Ret (f a) b) : Ret (m >>= f) b := by
  intro st
  rw [ParseM_bind_eq, h1 st]
  exact h2 st

theorem Ret.tryReturn_ok {p k : ParseM PResult} {r : PResult} (h : Ret p r)
    (hr : r.term.isParseError = false) : Ret (tryReturn p k) r := by
  unfold tryReturn
  refine Ret.bind h ?_
  simp only [hr]
  exact Ret.pure r

theorem Ret.tryReturn_skip {p k : ParseM PResult} {r : PResult} (h : Fails p) (hk : Ret k r) :
    Ret (tryReturn p k) r := by
  obtain ⟨r0, h0, hpe⟩ := h
  unfold tryReturn
  refine Ret.bind h0 ?_
  simp only [hpe]
  exact hk

theorem Ret.tryEval_ok {p : ParseM PResult} {k : Src → Nat → Bool → ParseM PResult} {a r : PResult}
    (h : Ret p a) (ha : a.term.isParseError = false) (hk : Ret (k a.term a.next a.confident) r) :
    Ret (tryEval p k) r := by
  unfold tryEval
  refine Ret.bind h ?_
  simp only [ha]
  exact hk

theorem Ret.tryEval_fail {p : ParseM PResult} {k : Src → Nat → Bool → ParseM PResult} {a : PResult}
    (h : Ret p a) (ha : a.term.isParseError = true) : Ret (tryEval p k) a := by
  unfold tryEval
  refine Ret.bind h ?_
  simp only [ha]
  exact Ret.pure a

theorem consume0_ok {toks : Array PTok} {n : Nat} {kind : PKind} {k : Nat → ParseM PResult}
    (h : KAt toks n kind) : consume0 toks n kind k = k (n + 1) := by
  obtain ⟨h1, h2⟩ := h
  simp [consume0, h1, h2]

theorem consume0_fail {toks : Array PTok} {n : Nat} {kind : PKind} {k : Nat → ParseM PResult}
    (h : ¬KAt toks n kind) : consume0 toks n kind k = Pure.pure (failAt toks n) := by
  unfold consume0
  split
  · split
    · exact absurd ⟨‹_›, ‹_›⟩ h
    · rfl
  · rfl

theorem consumeIdent_ok {toks : Array PTok} {n : Nat} {x : Name} {k : Name → Nat → ParseM PResult}
    (h : KAt toks n (.identifier x)) : consumeIdent toks n k = k x (n + 1) := by
  obtain ⟨h1, h2⟩ := h
  simp [consumeIdent, h1, h2]

theorem consumeIdent_fail {toks : Array PTok} {n : Nat} {k : Name → Nat → ParseM PResult}
    (h : ∀ x, ¬KAt toks n (.identifier x)) : consumeIdent toks n k = Pure.pure (failAt toks n) := by
  unfold consumeIdent
  split
  · split
    · exact absurd ⟨‹_›, ‹_›⟩ (h _)
    · rfl
  · rfl

theorem consumeLiteral_ok {toks : Array PTok} {n m : Nat} {k : Nat → Nat → ParseM PResult}
    (h : KAt toks n (.integerLiteral m)) : consumeLiteral toks n k = k m (n + 1) := by
  obtain ⟨h1, h2⟩ := h
  simp [consumeLiteral, h1, h2]

theorem consumeLiteral_fail {toks : Array PTok} {n : Nat} {k : Nat → Nat → ParseM PResult}
    (h : ∀ m, ¬KAt toks n (.integerLiteral m)) :
    consumeLiteral toks n k = Pure.pure (failAt toks n) := by
  unfold consumeLiteral
  split
  · split
    · exact absurd ⟨‹_›, ‹_›⟩ (h _)
    · rfl
  · rfl

theorem failAt_pe (toks : Array PTok) (n : Nat) : (failAt toks n).term.isParseError = true := rfl

theorem KAt.unique {toks : Array PTok} {a : Nat} {k k' : PKind} (h : KAt toks a k)
    (h' : KAt toks a k') : k = k' := by
  obtain ⟨_, e⟩ := h
  obtain ⟨_, e'⟩ := h'
  exact e.symm.trans e'

/-- the expected token is where the scan starts: no error, found, one token consumed -/
theorem expectToken_here {toks : Array PTok} {n : Nat} {target : PKind → Bool} {k : PKind}
    (h : KAt toks n k) (ht : target k = true) (c : Bool) :
    expectToken toks n target c = ([], true, n + 1) := by
  obtain ⟨h1, h2⟩ := h
  have hsz : toks.size - n = (toks.size - n - 1) + 1 := by omega
  unfold expectToken
  rw [hsz]
  simp [scanLoop, h1, h2, ht]

/-! ## Fuel -/

/-- with enough fuel, `parse_nt(tokens, s)` returns `r` -/
def RetN (toks : Array PTok) (nt : NT) (s : Nat) (r : PResult) : Prop :=
  ∃ F, ∀ fuel, F ≤ fuel → Ret (parsePure toks fuel nt s) r

/-- with enough fuel, `parse_nt(tokens, s)` returns a `ParseError` term -/
def FailsN (toks : Array PTok) (nt : NT) (s : Nat) : Prop :=
  ∃ r, RetN toks nt s r ∧ r.term.isParseError = true

abbrev Fact := NT × Nat × PResult

def HoldsN (toks : Array PTok) (fs : List Fact) : Prop := ∀ x ∈ fs, RetN toks x.1 x.2.1 x.2.2

def Holds (rec : NT → Nat → ParseM PResult) (fs : List Fact) : Prop :=
  ∀ x ∈ fs, Ret (rec x.1 x.2.1) x.2.2

theorem holdsN_common {toks : Array PTok} {fs : List Fact} (h : HoldsN toks fs) :
    ∃ F, ∀ fuel, F ≤ fuel → Holds (parsePure toks fuel) fs := by
  induction fs with
  | nil => exact ⟨0, fun _ _ x hx => by cases hx⟩
  | cons x fs ih =>
    obtain ⟨F1, h1⟩ := h x (by simp)
    obtain ⟨F2, h2⟩ := ih (fun y hy => h y (by simp [hy]))
    refine ⟨F1 + F2, fun fuel hf y hy => ?_⟩
    rcases List.mem_cons.mp hy with rfl | hy
    · exact h1 fuel (by omega)
    · exact h2 fuel (by omega) y hy

theorem RetN.lift {toks : Array PTok} {nt : NT} {s : Nat} {r : PResult} (fs : List Fact)
    (h : HoldsN toks fs)
    (hb : ∀ rec, Holds rec fs → Ret (parseBody toks rec nt s) r) : RetN toks nt s r := by
  obtain ⟨F, hF⟩ := holdsN_common h
  refine ⟨F + 1, fun fuel hf => ?_⟩
  obtain ⟨f, rfl⟩ : ∃ f, fuel = f + 1 := ⟨fuel - 1, by omega⟩
  rw [parsePure]
  exact hb _ (hF f (by omega))

theorem HoldsN.nil {toks : Array PTok} : HoldsN toks [] := fun _ hx => by cases hx

theorem HoldsN.cons {toks : Array PTok} {nt : NT} {s : Nat} {r : PResult} {fs : List Fact}
    (h : RetN toks nt s r) (hs : HoldsN toks fs) : HoldsN toks ((nt, s, r) :: fs) := by
  intro x hx
  rcases List.mem_cons.mp hx with rfl | hx
  · exact h
  · exact hs x hx

theorem Holds.head {rec : NT → Nat → ParseM PResult} {nt : NT} {s : Nat} {r : PResult}
    {fs : List Fact} (h : Holds rec ((nt, s, r) :: fs)) : Ret (rec nt s) r := h (nt, s, r) (by simp)

theorem Holds.tail {rec : NT → Nat → ParseM PResult} {x : Fact} {fs : List Fact}
    (h : Holds rec (x :: fs)) : Holds rec fs := fun y hy => h y (by simp [hy])

/-! ## Leaves -/

section Leaves
variable {toks : Array PTok}

theorem parseLeaf_ok {kind : PKind} {v : SrcV} {s : Nat}
    (h : KAt toks s kind) :
    Ret (parseLeaf toks kind v s) ⟨.mk (tokenRange toks s) false v [], s + 1, true⟩ := by
  unfold parseLeaf
  rw [consume0_ok h]
  exact Ret.pure _

theorem parseLeaf_fail {kind : PKind} {v : SrcV} {s : Nat} (h : ¬KAt toks s kind) :
    Ret (parseLeaf toks kind v s) (failAt toks s) := by
  unfold parseLeaf
  rw [consume0_fail h]
  exact Ret.pure _

/-- the keyword nonterminals and their token -/
def leafKind : NT → Option PKind
  | .type => some .type_ | .integer => some .integer | .boolean => some .boolean
  | .true_ => some .true_ | .false_ => some .false_ | _ => none

theorem leaf_ok {nt : NT} {k : PKind} {s : Nat} (hk : leafKind nt = some k) (h : KAt toks s k) :
    RetN toks nt s ⟨.mk (tokenRange toks s) false (leafV nt) [], s + 1, true⟩ := by
  refine RetN.lift [] HoldsN.nil (fun rec _ => ?_)
  cases nt <;> simp only [leafKind, Option.some.injEq, reduceCtorEq] at hk <;> subst hk
  all_goals exact parseLeaf_ok h

theorem leaf_fail {nt : NT} {k : PKind} {s : Nat} (hk : leafKind nt = some k) (h : ¬KAt toks s k) :
    FailsN toks nt s := by
  refine ⟨failAt toks s, RetN.lift [] HoldsN.nil (fun rec _ => ?_), rfl⟩
  cases nt <;> simp only [leafKind, Option.some.injEq, reduceCtorEq] at hk <;> subst hk
  all_goals exact parseLeaf_fail h

theorem variable_ok {x : Name} {s : Nat} (h : KAt toks s (.identifier x)) :
    RetN toks .variable s ⟨.mk (tokenRange toks s) false (.var x) [], s + 1, true⟩ := by
  refine RetN.lift [] HoldsN.nil (fun rec _ => ?_)
  show Ret (parseVariable toks s) _
  unfold parseVariable
  simp only [consumeIdent_ok h]
  exact Ret.pure _

theorem variable_fail {s : Nat} (h : ∀ x, ¬KAt toks s (.identifier x)) :
    FailsN toks .variable s := by
  refine ⟨failAt toks s, RetN.lift [] HoldsN.nil (fun rec _ => ?_), rfl⟩
  show Ret (parseVariable toks s) _
  unfold parseVariable
  simp only [consumeIdent_fail h]
  exact Ret.pure _

theorem literal_ok {n : Nat} {s : Nat} (h : KAt toks s (.integerLiteral n)) :
    RetN toks .integerLiteral s ⟨.mk (tokenRange toks s) false (.lit (Int.ofNat n)) [], s + 1, true⟩ := by
  refine RetN.lift [] HoldsN.nil (fun rec _ => ?_)
  show Ret (parseIntegerLiteral toks s) _
  unfold parseIntegerLiteral
  simp only [consumeLiteral_ok h]
  exact Ret.pure _

theorem literal_fail {s : Nat} (h : ∀ n, ¬KAt toks s (.integerLiteral n)) :
    FailsN toks .integerLiteral s := by
  refine ⟨failAt toks s, RetN.lift [] HoldsN.nil (fun rec _ => ?_), rfl⟩
  show Ret (parseIntegerLiteral toks s) _
  unfold parseIntegerLiteral
  simp only [consumeLiteral_fail h]
  exact Ret.pure _

theorem group_fail {s : Nat} (h : ¬KAt toks s .leftParen) : FailsN toks .group s := by
  refine ⟨failAt toks s, RetN.lift [] HoldsN.nil (fun rec _ => ?_), rfl⟩
  show Ret (parseGroup toks rec s) _
  unfold parseGroup
  rw [consume0_fail h]
  exact Ret.pure _

end Leaves

/-! ## Ordered choice -/

/-- the alternatives of the choice functions, in the order they are tried -/
def altsOf : NT → List NT
  | .term => [.let_, .jumboTerm]
  | .atom => [.type, .variable, .integer, .integerLiteral, .boolean, .true_, .false_, .group]
  | .smallTerm => [.application, .atom]
  | .mediumTerm => [.product, .quotient, .smallTerm]
  | .largeTerm => [.negation, .mediumTerm]
  | .hugeTerm => [.sum, .difference, .largeTerm]
  | .giantTerm => [.lessThan, .lessThanOrEqualTo, .equalTo, .greaterThan, .greaterThanOrEqualTo,
      .hugeTerm]
  | .jumboTerm => [.lambda, .lambdaImplicit, .annotatedLambda, .annotatedLambdaImplicit, .pi,
      .piImplicit, .nonDependentPi, .if_, .giantTerm]
  | _ => []

def chain (toks : Array PTok) (rec : NT → Nat → ParseM PResult) (s : Nat) : List NT → ParseM PResult
  | [] => noParse toks s
  | B :: l => tryReturn (rec B s) (chain toks rec s l)

theorem parseBody_chain (toks : Array PTok) (rec : NT → Nat → ParseM PResult) (A : NT) (s : Nat)
    (h : altsOf A ≠ []) : parseBody toks rec A s = chain toks rec s (altsOf A) := by
  cases A <;> first | rfl | exact absurd rfl h

theorem chain_ok {toks : Array PTok} {rec : NT → Nat → ParseM PResult} {s : Nat} {r : PResult}
    {B : NT} {post : List NT} : ∀ (pre : List NT), (∀ X ∈ pre, Fails (rec X s)) →
    Ret (rec B s) r → r.term.isParseError = false → Ret (chain toks rec s (pre ++ B :: post)) r
  | [], _, hB, hr => Ret.tryReturn_ok hB hr
  | X :: pre, hpre, hB, hr =>
    Ret.tryReturn_skip (hpre X (by simp))
      (chain_ok pre (fun Y hY => hpre Y (by simp [hY])) hB hr)

theorem chain_fail {toks : Array PTok} {rec : NT → Nat → ParseM PResult} {s : Nat} :
    ∀ (l : List NT), (∀ X ∈ l, Fails (rec X s)) → Ret (chain toks rec s l) (failAt toks s)
  | [], _ => Ret.pure _
  | X :: l, h =>
    Ret.tryReturn_skip (h X (by simp)) (chain_fail l (fun Y hY => h Y (by simp [hY])))

theorem failsN_common {toks : Array PTok} {s : Nat} : ∀ (l : List NT),
    (∀ X ∈ l, FailsN toks X s) → ∃ F, ∀ fuel, F ≤ fuel → ∀ X ∈ l, Fails (parsePure toks fuel X s)
  | [], _ => ⟨0, fun _ _ X hX => by cases hX⟩
  | Y :: l, h => by
    obtain ⟨r, ⟨F1, h1⟩, hpe⟩ := h Y (by simp)
    obtain ⟨F2, h2⟩ := failsN_common l (fun X hX => h X (by simp [hX]))
    refine ⟨F1 + F2, fun fuel hf X hX => ?_⟩
    rcases List.mem_cons.mp hX with rfl | hX
    · exact ⟨r, h1 fuel (by omega), hpe⟩
    · exact h2 fuel (by omega) X hX

/-- **Ordered choice, success**: the alternatives before `B` fail, `B` succeeds. -/
theorem choice_ok {toks : Array PTok} {A B : NT} {s : Nat} {r : PResult} (pre post : List NT)
    (hA : altsOf A = pre ++ B :: post) (hpre : ∀ X ∈ pre, FailsN toks X s)
    (hB : RetN toks B s r) (hr : r.term.isParseError = false) : RetN toks A s r := by
  obtain ⟨F1, h1⟩ := failsN_common pre hpre
  obtain ⟨F2, h2⟩ := hB
  refine ⟨F1 + F2 + 1, fun fuel hf => ?_⟩
  obtain ⟨f, rfl⟩ : ∃ f, fuel = f + 1 := ⟨fuel - 1, by omega⟩
  rw [parsePure, parseBody_chain _ _ _ _ (by rw [hA]; simp), hA]
  exact chain_ok pre (h1 f (by omega)) (h2 f (by omega)) hr

/-- **Ordered choice, failure**: every alternative fails. -/
theorem choice_fail {toks : Array PTok} {A : NT} {s : Nat} (hA : altsOf A ≠ [])
    (hall : ∀ X ∈ altsOf A, FailsN toks X s) : FailsN toks A s := by
  obtain ⟨F1, h1⟩ := failsN_common _ hall
  refine ⟨failAt toks s, ⟨F1 + 1, fun fuel hf => ?_⟩, rfl⟩
  obtain ⟨f, rfl⟩ : ∃ f, fuel = f + 1 := ⟨fuel - 1, by omega⟩
  rw [parsePure, parseBody_chain _ _ _ _ hA]
  exact chain_fail _ (h1 f (by omega))

/-! ## The composite functions -/

section Composite
variable {toks : Array PTok}

theorem application_ok {a : Nat} {r1 r2 : PResult} (h1 : RetN toks .atom a r1)
    (hr1 : r1.term.isParseError = false) (h2 : RetN toks .smallTerm r1.next r2)
    (hr2 : r2.term.isParseError = false) :
    RetN toks .application a
      ⟨.mk (span r1.term.range r2.term.range) false (.app r1.term r2.term) [], r2.next,
        r2.confident⟩ := by
  refine RetN.lift [(.atom, a, r1), (.smallTerm, r1.next, r2)] (.cons h1 (.cons h2 .nil))
    (fun rec hh => ?_)
  show Ret (parseApplication rec a) _
  unfold parseApplication
  exact Ret.tryEval_ok hh.head hr1 (Ret.tryEval_ok hh.tail.head hr2 (Ret.pure _))

theorem application_fail_arg {a : Nat} {r1 : PResult} (h1 : RetN toks .atom a r1)
    (hr1 : r1.term.isParseError = false) (h2 : FailsN toks .smallTerm r1.next) :
    FailsN toks .application a := by
  obtain ⟨r2, h2, hr2⟩ := h2
  refine ⟨r2, RetN.lift [(.atom, a, r1), (.smallTerm, r1.next, r2)] (.cons h1 (.cons h2 .nil))
    (fun rec hh => ?_), hr2⟩
  show Ret (parseApplication rec a) _
  unfold parseApplication
  exact Ret.tryEval_ok hh.head hr1 (Ret.tryEval_fail hh.tail.head hr2)

theorem application_fail_head {a : Nat} (h1 : FailsN toks .atom a) : FailsN toks .application a := by
  obtain ⟨r1, h1, hr1⟩ := h1
  refine ⟨r1, RetN.lift [(.atom, a, r1)] (.cons h1 .nil) (fun rec hh => ?_), hr1⟩
  show Ret (parseApplication rec a) _
  unfold parseApplication
  exact Ret.tryEval_fail hh.head hr1

theorem ndpi_ok {a : Nat} {r1 r2 : PResult} (h1 : RetN toks .smallTerm a r1)
    (hr1 : r1.term.isParseError = false) (hk : KAt toks r1.next .thinArrow)
    (h2 : RetN toks .term (r1.next + 1) r2) :
    RetN toks .nonDependentPi a
      ⟨.mk (span r1.term.range r2.term.range) false
        (.pi ⟨emptyRange toks a, placeholder⟩ false r1.term r2.term) [], r2.next, r2.confident⟩ := by
  refine RetN.lift [(.smallTerm, a, r1), (.term, r1.next + 1, r2)] (.cons h1 (.cons h2 .nil))
    (fun rec hh => ?_)
  show Ret (parseNonDependentPi toks rec a) _
  unfold parseNonDependentPi
  refine Ret.tryEval_ok hh.head hr1 ?_
  rw [consume0_ok hk]
  exact Ret.bind hh.tail.head (Ret.pure _)

theorem ndpi_fail_arrow {a : Nat} {r1 : PResult} (h1 : RetN toks .smallTerm a r1)
    (hr1 : r1.term.isParseError = false) (hk : ¬KAt toks r1.next .thinArrow) :
    FailsN toks .nonDependentPi a := by
  refine ⟨failAt toks r1.next, RetN.lift [(.smallTerm, a, r1)] (.cons h1 .nil) (fun rec hh => ?_),
    rfl⟩
  show Ret (parseNonDependentPi toks rec a) _
  unfold parseNonDependentPi
  refine Ret.tryEval_ok hh.head hr1 ?_
  rw [consume0_fail hk]
  exact Ret.pure _

theorem ndpi_fail_small {a : Nat} (h1 : FailsN toks .smallTerm a) :
    FailsN toks .nonDependentPi a := by
  obtain ⟨r1, h1, hr1⟩ := h1
  refine ⟨r1, RetN.lift [(.smallTerm, a, r1)] (.cons h1 .nil) (fun rec hh => ?_), hr1⟩
  show Ret (parseNonDependentPi toks rec a) _
  unfold parseNonDependentPi
  exact Ret.tryEval_fail hh.head hr1

theorem parseBody_bin {A L R : NT} {op : PKind} (hm : (A, L, op, R) ∈ binProds)
    (rec : NT → Nat → ParseM PResult) (a : Nat) :
    parseBody toks rec A a = parseBinary toks rec L op R (binOpOf A) a := by
  simp only [binProds, List.mem_cons, Prod.mk.injEq, List.mem_nil_iff, or_false] at hm
  rcases hm with h | h | h | h | h | h | h | h | h <;> obtain ⟨rfl, rfl, rfl, rfl⟩ := h <;> rfl

theorem binary_ok {A L R : NT} {op : PKind} (hm : (A, L, op, R) ∈ binProds) {a : Nat}
    {r1 r2 : PResult} (h1 : RetN toks L a r1) (hr1 : r1.term.isParseError = false)
    (hk : KAt toks r1.next op) (h2 : RetN toks R (r1.next + 1) r2) :
    RetN toks A a
      ⟨.mk (span r1.term.range r2.term.range) false (.bin (binOpOf A) r1.term r2.term) [], r2.next,
        r2.confident⟩ := by
  refine RetN.lift [(L, a, r1), (R, r1.next + 1, r2)] (.cons h1 (.cons h2 .nil)) (fun rec hh => ?_)
  rw [parseBody_bin hm]
  unfold parseBinary
  refine Ret.tryEval_ok hh.head hr1 ?_
  rw [consume0_ok hk]
  exact Ret.bind hh.tail.head (Ret.pure _)

theorem binary_fail_op {A L R : NT} {op : PKind} (hm : (A, L, op, R) ∈ binProds) {a : Nat}
    {r1 : PResult} (h1 : RetN toks L a r1) (hr1 : r1.term.isParseError = false)
    (hk : ¬KAt toks r1.next op) : FailsN toks A a := by
  refine ⟨failAt toks r1.next, RetN.lift [(L, a, r1)] (.cons h1 .nil) (fun rec hh => ?_), rfl⟩
  rw [parseBody_bin hm]
  unfold parseBinary
  refine Ret.tryEval_ok hh.head hr1 ?_
  rw [consume0_fail hk]
  exact Ret.pure _

theorem negation_ok {a : Nat} {r : PResult} (hk : KAt toks a .minus)
    (h : RetN toks .largeTerm (a + 1) r) :
    RetN toks .negation a
      ⟨.mk (span (tokenRange toks a) r.term.range) false (.neg r.term) [], r.next, r.confident⟩ := by
  refine RetN.lift [(.largeTerm, a + 1, r)] (.cons h .nil) (fun rec hh => ?_)
  show Ret (parseNegation toks rec a) _
  unfold parseNegation
  rw [consume0_ok hk]
  exact Ret.bind hh.head (Ret.pure _)

theorem negation_fail {a : Nat} (hk : ¬KAt toks a .minus) : FailsN toks .negation a := by
  refine ⟨failAt toks a, RetN.lift [] .nil (fun rec _ => ?_), rfl⟩
  show Ret (parseNegation toks rec a) _
  unfold parseNegation
  rw [consume0_fail hk]
  exact Ret.pure _

theorem group_ok {a : Nat} {r : PResult} (hk : KAt toks a .leftParen)
    (h : RetN toks .term (a + 1) r) (hr : r.term.isParseError = false)
    (hc : KAt toks r.next .rightParen) :
    RetN toks .group a
      ⟨.mk (span (tokenRange toks a) (tokenRange toks (r.next + 1 - 1))) true r.term.variant
        r.term.errors, r.next + 1, true⟩ := by
  refine RetN.lift [(.term, a + 1, r)] (.cons h .nil) (fun rec hh => ?_)
  show Ret (parseGroup toks rec a) _
  unfold parseGroup
  rw [consume0_ok hk]
  refine Ret.tryEval_ok hh.head hr ?_
  rw [expectToken_here hc (by simp)]
  simp only [Bool.not_true, Bool.false_eq_true, if_false, if_true, List.append_nil]
  exact Ret.pure _

theorem parseBody_binder {A : NT} {o c ar : PKind} (hm : (A, o, c, ar) ∈ binderProds)
    (rec : NT → Nat → ParseM PResult) (a : Nat) :
    parseBody toks rec A a = parseBinder toks rec o c ar (binderV A) a := by
  simp only [binderProds, List.mem_cons, Prod.mk.injEq, List.mem_nil_iff, or_false] at hm
  rcases hm with h | h | h | h <;> obtain ⟨rfl, rfl, rfl, rfl⟩ := h <;> rfl

theorem binder_ok {A : NT} {o c ar : PKind} (hm : (A, o, c, ar) ∈ binderProds) {a : Nat} {x : Name}
    {r1 r2 : PResult} (h0 : KAt toks a o) (hx : KAt toks (a + 1) (.identifier x))
    (hc : KAt toks (a + 1 + 1) .colon) (h1 : RetN toks .jumboTerm (a + 1 + 1 + 1) r1)
    (hr1 : r1.term.isParseError = false) (hcl : KAt toks r1.next c)
    (har : KAt toks (r1.next + 1) ar) (h2 : RetN toks .term (r1.next + 1 + 1) r2) :
    RetN toks A a
      ⟨.mk (span (tokenRange toks a) r2.term.range) false
        (binderV A ⟨tokenRange toks (a + 1), x⟩ r1.term r2.term) [], r2.next, r2.confident⟩ := by
  refine RetN.lift [(.jumboTerm, a + 1 + 1 + 1, r1), (.term, r1.next + 1 + 1, r2)]
    (.cons h1 (.cons h2 .nil)) (fun rec hh => ?_)
  rw [parseBody_binder hm]
  unfold parseBinder
  rw [consume0_ok h0]
  simp only [consumeIdent_ok hx]
  rw [consume0_ok hc]
  refine Ret.tryEval_ok hh.head hr1 ?_
  rw [consume0_ok hcl, consume0_ok har]
  exact Ret.bind hh.tail.head (Ret.pure _)

/-- a binder function fails when the tokens do not start `OPEN IDENTIFIER COLON` -/
theorem binder_fail_start {A : NT} {o c ar : PKind} (hm : (A, o, c, ar) ∈ binderProds) {a : Nat}
    (h : ¬KAt toks a o ∨ (∀ x, ¬KAt toks (a + 1) (.identifier x)) ∨ ¬KAt toks (a + 1 + 1) .colon) :
    FailsN toks A a := by
  by_cases h0 : KAt toks a o
  · by_cases hx : ∃ x, KAt toks (a + 1) (.identifier x)
    · obtain ⟨x, hx⟩ := hx
      have hc : ¬KAt toks (a + 1 + 1) .colon := by
        rcases h with h | h | h
        · exact absurd h0 h
        · exact absurd hx (h x)
        · exact h
      refine ⟨failAt toks (a + 1 + 1), RetN.lift [] .nil (fun rec _ => ?_), rfl⟩
      rw [parseBody_binder hm]
      unfold parseBinder
      rw [consume0_ok h0]
      simp only [consumeIdent_ok hx]
      rw [consume0_fail hc]
      exact Ret.pure _
    · refine ⟨failAt toks (a + 1), RetN.lift [] .nil (fun rec _ => ?_), rfl⟩
      rw [parseBody_binder hm]
      unfold parseBinder
      rw [consume0_ok h0]
      simp only [consumeIdent_fail (fun x hx' => hx ⟨x, hx'⟩)]
      exact Ret.pure _
  · refine ⟨failAt toks a, RetN.lift [] .nil (fun rec _ => ?_), rfl⟩
    rw [parseBody_binder hm]
    unfold parseBinder
    rw [consume0_fail h0]
    exact Ret.pure _

/-- a binder function fails when the annotation is not followed by `CLOSE ARROW` -/
theorem binder_fail_close {A : NT} {o c ar : PKind} (hm : (A, o, c, ar) ∈ binderProds) {a : Nat}
    {r1 : PResult} (h1 : RetN toks .jumboTerm (a + 1 + 1 + 1) r1)
    (hr1 : r1.term.isParseError = false)
    (h : ¬KAt toks r1.next c ∨ ¬KAt toks (r1.next + 1) ar) : FailsN toks A a := by
  by_cases h0 : KAt toks a o ∧ (∃ x, KAt toks (a + 1) (.identifier x)) ∧ KAt toks (a + 1 + 1) .colon
  · obtain ⟨h0, ⟨x, hx⟩, hc⟩ := h0
    by_cases hcl : KAt toks r1.next c
    · have har : ¬KAt toks (r1.next + 1) ar := by
        rcases h with h | h
        · exact absurd hcl h
        · exact h
      refine ⟨failAt toks (r1.next + 1), RetN.lift [(.jumboTerm, a + 1 + 1 + 1, r1)] (.cons h1 .nil)
        (fun rec hh => ?_), rfl⟩
      rw [parseBody_binder hm]
      unfold parseBinder
      rw [consume0_ok h0]
      simp only [consumeIdent_ok hx]
      rw [consume0_ok hc]
      refine Ret.tryEval_ok hh.head hr1 ?_
      rw [consume0_ok hcl, consume0_fail har]
      exact Ret.pure _
    · refine ⟨failAt toks r1.next, RetN.lift [(.jumboTerm, a + 1 + 1 + 1, r1)] (.cons h1 .nil)
        (fun rec hh => ?_), rfl⟩
      rw [parseBody_binder hm]
      unfold parseBinder
      rw [consume0_ok h0]
      simp only [consumeIdent_ok hx]
      rw [consume0_ok hc]
      refine Ret.tryEval_ok hh.head hr1 ?_
      rw [consume0_fail hcl]
      exact Ret.pure _
  · refine binder_fail_start hm ?_
    by_cases h0' : KAt toks a o
    · by_cases hx : ∃ x, KAt toks (a + 1) (.identifier x)
      · exact Or.inr (Or.inr (fun hc => h0 ⟨h0', hx, hc⟩))
      · exact Or.inr (Or.inl (fun x hx' => hx ⟨x, hx'⟩))
    · exact Or.inl h0'

theorem lambda_fail {a : Nat}
    (h : (∀ x, ¬KAt toks a (.identifier x)) ∨ ¬KAt toks (a + 1) .thickArrow) :
    FailsN toks .lambda a := by
  by_cases hx : ∃ x, KAt toks a (.identifier x)
  · obtain ⟨x, hx⟩ := hx
    have har : ¬KAt toks (a + 1) .thickArrow := by
      rcases h with h | h
      · exact absurd hx (h x)
      · exact h
    refine ⟨failAt toks (a + 1), RetN.lift [] .nil (fun rec _ => ?_), rfl⟩
    show Ret (parseLambda toks rec a) _
    unfold parseLambda
    simp only [consumeIdent_ok hx]
    rw [consume0_fail har]
    exact Ret.pure _
  · refine ⟨failAt toks a, RetN.lift [] .nil (fun rec _ => ?_), rfl⟩
    show Ret (parseLambda toks rec a) _
    unfold parseLambda
    simp only [consumeIdent_fail (fun x hx' => hx ⟨x, hx'⟩)]
    exact Ret.pure _

theorem lambdaImplicit_fail {a : Nat}
    (h : ¬KAt toks a .leftCurly ∨ ¬KAt toks (a + 1 + 1) .rightCurly) :
    FailsN toks .lambdaImplicit a := by
  by_cases h0 : KAt toks a .leftCurly
  · have hc : ¬KAt toks (a + 1 + 1) .rightCurly := by
      rcases h with h | h
      · exact absurd h0 h
      · exact h
    by_cases hx : ∃ x, KAt toks (a + 1) (.identifier x)
    · obtain ⟨x, hx⟩ := hx
      refine ⟨failAt toks (a + 1 + 1), RetN.lift [] .nil (fun rec _ => ?_), rfl⟩
      show Ret (parseLambdaImplicit toks rec a) _
      unfold parseLambdaImplicit
      rw [consume0_ok h0]
      simp only [consumeIdent_ok hx]
      rw [consume0_fail hc]
      exact Ret.pure _
    · refine ⟨failAt toks (a + 1), RetN.lift [] .nil (fun rec _ => ?_), rfl⟩
      show Ret (parseLambdaImplicit toks rec a) _
      unfold parseLambdaImplicit
      rw [consume0_ok h0]
      simp only [consumeIdent_fail (fun x hx' => hx ⟨x, hx'⟩)]
      exact Ret.pure _
  · refine ⟨failAt toks a, RetN.lift [] .nil (fun rec _ => ?_), rfl⟩
    show Ret (parseLambdaImplicit toks rec a) _
    unfold parseLambdaImplicit
    rw [consume0_fail h0]
    exact Ret.pure _

theorem if_ok {a : Nat} {r1 r2 r3 : PResult} (h0 : KAt toks a .if_)
    (h1 : RetN toks .term (a + 1) r1) (hk1 : KAt toks r1.next .then_)
    (h2 : RetN toks .term (r1.next + 1) r2) (hk2 : KAt toks r2.next .else_)
    (h3 : RetN toks .term (r2.next + 1) r3) :
    RetN toks .if_ a
      ⟨.mk (span (tokenRange toks a) r3.term.range) false (.ite r1.term r2.term r3.term) [],
        r3.next, r3.confident⟩ := by
  obtain ⟨t1, n1, c1⟩ := r1
  obtain ⟨t2, n2, c2⟩ := r2
  obtain ⟨t3, n3, c3⟩ := r3
  dsimp only at *
  refine RetN.lift [(.term, a + 1, ⟨t1, n1, c1⟩), (.term, n1 + 1, ⟨t2, n2, c2⟩), (.term, n2 + 1, ⟨t3, n3, c3⟩)]
    (.cons h1 (.cons h2 (.cons h3 .nil))) (fun rec hh => ?_)
  show Ret (parseIf toks rec a) _
  unfold parseIf
  rw [consume0_ok h0]
  refine Ret.bind hh.head ?_
  dsimp only
  rw [expectToken_here hk1 (by simp)]
  dsimp only
  simp only [if_true]
  refine Ret.bind hh.tail.head ?_
  dsimp only
  rw [expectToken_here hk2 (by simp)]
  dsimp only
  simp only [if_true]
  exact Ret.bind hh.tail.tail.head (Ret.pure _)

theorem if_fail {a : Nat} (h0 : ¬KAt toks a .if_) : FailsN toks .if_ a := by
  refine ⟨failAt toks a, RetN.lift [] .nil (fun rec _ => ?_), rfl⟩
  show Ret (parseIf toks rec a) _
  unfold parseIf
  rw [consume0_fail h0]
  exact Ret.pure _

theorem let_ok {a : Nat} {x : Name} {t : TerminatorType} {r1 r2 r3 : PResult}
    (hx : KAt toks a (.identifier x)) (hc : KAt toks (a + 1) .colon)
    (h1 : RetN toks .smallTerm (a + 1 + 1) r1) (hr1 : r1.term.isParseError = false)
    (he : KAt toks r1.next .equals) (h2 : RetN toks .term (r1.next + 1) r2)
    (ht : KAt toks r2.next (.terminator t)) (h3 : RetN toks .term (r2.next + 1) r3) :
    RetN toks .let_ a
      ⟨.mk (span (tokenRange toks a) r3.term.range) false
        (.let_ ⟨tokenRange toks a, x⟩ (.some r1.term) r2.term r3.term) [], r3.next,
        r3.confident⟩ := by
  obtain ⟨t1, n1, c1⟩ := r1
  obtain ⟨t2, n2, c2⟩ := r2
  obtain ⟨t3, n3, c3⟩ := r3
  dsimp only at *
  refine RetN.lift [(.smallTerm, a + 1 + 1, ⟨t1, n1, c1⟩), (.term, n1 + 1, ⟨t2, n2, c2⟩), (.term, n2 + 1, ⟨t3, n3, c3⟩)]
    (.cons h1 (.cons h2 (.cons h3 .nil))) (fun rec hh => ?_)
  show Ret (parseLet toks rec a) _
  rw [parseLet_eq]
  simp only [consumeIdent_ok hx]
  obtain ⟨hlt, hkc⟩ := hc
  simp only [hlt, hkc, dite_true, if_true]
  rw [consume0_ok ⟨hlt, hkc⟩]
  refine Ret.tryEval_ok hh.head hr1 ?_
  dsimp only
  rw [expectToken_here he (by simp)]
  unfold parseLetRest
  dsimp only
  simp only [if_true]
  refine Ret.bind hh.tail.head ?_
  dsimp only
  rw [expectToken_here ht (by simp [PKind.isTerminator])]
  dsimp only
  simp only [if_true, List.append_nil]
  exact Ret.bind hh.tail.tail.head (Ret.pure _)

theorem let_fail {a : Nat}
    (h : (∀ x, ¬KAt toks a (.identifier x)) ∨ (¬KAt toks (a + 1) .colon ∧ ¬KAt toks (a + 1) .equals)) :
    FailsN toks .let_ a := by
  by_cases hx : ∃ x, KAt toks a (.identifier x)
  · obtain ⟨x, hx⟩ := hx
    have h2 : ¬KAt toks (a + 1) .colon ∧ ¬KAt toks (a + 1) .equals := by
      rcases h with h | h
      · exact absurd hx (h x)
      · exact h
    refine ⟨failAt toks (a + 1), RetN.lift [] .nil (fun rec _ => ?_), rfl⟩
    show Ret (parseLet toks rec a) _
    rw [parseLet_eq]
    simp only [consumeIdent_ok hx]
    split
    · split
      · exact absurd ⟨‹_›, ‹_›⟩ h2.1
      · rw [consume0_fail h2.2]; exact Ret.pure _
    · rw [consume0_fail h2.2]; exact Ret.pure _
  · refine ⟨failAt toks a, RetN.lift [] .nil (fun rec _ => ?_), rfl⟩
    show Ret (parseLet toks rec a) _
    rw [parseLet_eq]
    simp only [consumeIdent_fail (fun x hx' => hx ⟨x, hx'⟩)]
    exact Ret.pure _

end Composite

end PModel
