import GramModel.Lemmas.PreservationBase

/-!
# Subject reduction, part 2: structural lemmas for conversion (`Cv`)

Weakening, substitution (for a parameter, and for a defined variable given that the substituted term
is convertible with the instantiated definition), congruence in the substituted term, and change of
the definitions context.
-/

namespace Pres

open WhnfLemmas CCSubst OracleLemmas

/-! ## small list facts -/

theorem getElem?_map_some {α β} {f : α → β} {l : List α} {i : Nat} {y : β}
    (h : (l.map f)[i]? = some y) : ∃ x, l[i]? = some x ∧ y = f x := by
  rw [List.getElem?_map] at h
  cases e : l[i]? with
  | none => rw [e] at h; cases h
  | some x => rw [e] at h; simp only [Option.map_some, Option.some.injEq] at h; exact ⟨x, rfl, h.symm⟩

/-! ## weakening -/

/-- `D'` is `D` with `m` new variables inserted at position `k` (their entries are irrelevant) -/
def WkC (k m : Nat) (D D' : Ctx) : Prop :=
  ∀ i, D' (if i < k then i else i + m) = (D i).map (ushift k m)

theorem WkC.under {k m : Nat} {D D' : Ctx} (h : WkC k m D D') (n : Nat) (F F' : Nat → Option Tm)
    (hF : ∀ i, i < n → F' i = (F i).map (ushift (k + n) m)) :
    WkC (k + n) m (ext n F D) (ext n F' D') := by
  intro i
  by_cases hi : i < n
  · rw [if_pos (by omega), ext_lt hi, ext_lt hi]; exact hF i hi
  · have hi' : n ≤ i := Nat.not_lt.1 hi
    rw [ext_ge hi']
    by_cases hk : i < k + n
    · rw [if_pos hk, ext_ge hi']
      have := h (i - n)
      rw [if_pos (by omega)] at this
      rw [this]
      cases D (i - n) with
      | none => rfl
      | some t =>
        simp only [Option.map_some]
        rw [ushift_comm t 0 k n m (Nat.zero_le _)]
    · rw [if_neg hk, ext_ge (by omega)]
      have := h (i - n)
      rw [if_neg (by omega)] at this
      rw [show i + m - n = i - n + m by omega, this]
      cases D (i - n) with
      | none => rfl
      | some t =>
        simp only [Option.map_some]
        rw [ushift_comm t 0 k n m (Nat.zero_le _)]

theorem WkC.underN {k m : Nat} {D D' : Ctx} (h : WkC k m D D') (n : Nat) :
    WkC (k + n) m (ext n noneF D) (ext n noneF D') :=
  h.under n noneF noneF (fun _ _ => rfl)

/-- pushing `n` variables is a weakening at `0` -/
theorem WkC.push (n : Nat) (F : Nat → Option Tm) (D : Ctx) : WkC 0 n D (ext n F D) := by
  intro i
  rw [if_neg (by omega), ext_ge (by omega), Nat.add_sub_cancel]

theorem WkC.more {s : Nat} {D D1 : Ctx} (h : WkC 0 s D D1) (n : Nat) (F : Nat → Option Tm) :
    WkC 0 (s + n) D (ext n F D1) := by
  intro i
  have := h i
  rw [if_neg (by omega)] at this ⊢
  rw [ext_ge (by omega), show i + (s + n) - n = i + s by omega, this]
  cases D i with
  | none => rfl
  | some t => simp only [Option.map_some]; rw [ushift_ushift, Nat.add_comm]

theorem Cv.wk {D : Ctx} {a b : Tm} (h : Cv D a b) : ∀ (k m : Nat) (D' : Ctx), WkC k m D D' →
    Cv D' (ushift k m a) (ushift k m b) := by
  induction h with
  | refl h => intro k m D' _; exact .refl (by rw [ushift_holeFree]; exact h)
  | symm _ ih => intro k m D' H; exact .symm (ih k m D' H)
  | trans _ _ ih1 ih2 => intro k m D' H; exact .trans (ih1 k m D' H) (ih2 k m D' H)
  | beta x im d body a hd hb ha =>
    intro k m D' _
    rw [open_ushift_high body a 0 k m 0 hb (Nat.zero_le _)]
    simp only [ushift, Nat.sub_zero]
    exact .beta x im _ _ _ (by rw [ushift_holeFree]; exact hd) (by rw [ushift_holeFree]; exact hb)
      (by rw [ushift_holeFree]; exact ha)
  | delta x i d hi hd =>
    intro k m D' H
    have := H i
    rw [hi] at this
    simp only [ushift]
    by_cases hk : i ≥ k
    · rw [if_pos hk]
      rw [if_neg (by omega)] at this
      exact .delta x _ _ this (by rw [ushift_holeFree]; exact hd)
    · rw [if_neg hk]
      rw [if_pos (by omega)] at this
      exact .delta x _ _ this (by rw [ushift_holeFree]; exact hd)
  | letStep x a d rest body ha hd hr hb =>
    intro k m D' _
    simp only [ushift, ushiftDefs, Defs.len_cons, openDefs_len]
    rw [open_ushift_high body _ rest.len (k + rest.len) m 0 hb (by omega),
      openDefs_ushiftDefs_high rest _ rest.len (k + rest.len) m 0 hr (by omega), Nat.sub_zero,
      CheckSound.unfoldDef_ushift x a d rest.len (k + rest.len) m ha hd (by omega)]
    have := Cv.letStep (D := D') x (ushift (k + rest.len + 1) m a) (ushift (k + rest.len + 1) m d)
      (ushiftDefs (k + rest.len + 1) m rest) (ushift (k + rest.len + 1) m body)
      (by rw [ushift_holeFree]; exact ha) (by rw [ushift_holeFree]; exact hd)
      (by rw [ushiftDefs_holeFree]; exact hr) (by rw [ushift_holeFree]; exact hb)
    rw [ushiftDefs_len] at this
    rw [show k + (rest.len + 1) = k + rest.len + 1 by omega]
    exact this
  | letNil body hb =>
    intro k m D' _
    simp only [ushift, ushiftDefs, Defs.len_nil, Nat.add_zero]
    exact .letNil _ (by rw [ushift_holeFree]; exact hb)
  | negLit n => intro k m D' _; exact .negLit n
  | arith op x y r hr =>
    intro k m D' _
    rw [RewriteTyping.delta_ushift hr]
    exact .arith op x y r hr
  | iteT a b ha hb =>
    intro k m D' _
    exact .iteT _ _ (by rw [ushift_holeFree]; exact ha) (by rw [ushift_holeFree]; exact hb)
  | iteF a b ha hb =>
    intro k m D' _
    exact .iteF _ _ (by rw [ushift_holeFree]; exact ha) (by rw [ushift_holeFree]; exact hb)
  | same hs ha hb =>
    intro k m D' _
    exact .same (RewriteTyping.sameX_ushift k m hs) (by rw [ushift_holeFree]; exact ha)
      (by rw [ushift_holeFree]; exact hb)
  | lam x y im d1 d2 h1 h2 _ ih =>
    intro k m D' H
    simp only [ushift]
    exact .lam x y im _ _ (by rw [ushift_holeFree]; exact h1) (by rw [ushift_holeFree]; exact h2)
      (ih (k + 1) m _ (H.underN 1))
  | pi x y im _ _ ih1 ih2 =>
    intro k m D' H
    simp only [ushift]
    exact .pi x y im (ih1 k m D' H) (ih2 (k + 1) m _ (H.underN 1))
  | app _ _ ih1 ih2 => intro k m D' H; exact .app (ih1 k m D' H) (ih2 k m D' H)
  | neg _ ih => intro k m D' H; exact .neg (ih k m D' H)
  | bin op _ _ ih1 ih2 => intro k m D' H; exact .bin op (ih1 k m D' H) (ih2 k m D' H)
  | ite _ _ _ ih0 ih1 ih2 => intro k m D' H; exact .ite (ih0 k m D' H) (ih1 k m D' H) (ih2 k m D' H)
  | @letg D ds1 ds2 b1 b2 hl h1 h2 _ _ ihc ihb =>
    intro k m D' H
    simp only [ushift]
    have H' := H.underN ds1.len
    refine .letg (by rw [ushiftDefs_len, ushiftDefs_len]; exact hl) (by rw [ushiftDefs_holeFree]; exact h1)
      (by rw [ushiftDefs_holeFree]; exact h2) ?_ ?_
    · intro i t1 t2 e1 e2
      rw [comps_ushiftDefs] at e1 e2
      obtain ⟨u1, f1, rfl⟩ := getElem?_map_some e1
      obtain ⟨u2, f2, rfl⟩ := getElem?_map_some e2
      rw [ushiftDefs_len, ← hl]
      exact ihc i u1 u2 f1 f2 _ m _ H'
    · rw [ushiftDefs_len, ← hl]
      exact ihb _ m _ H'

/-- conversion is stable under pushing variables -/
theorem Cv.push {D : Ctx} {a b : Tm} (h : Cv D a b) (n : Nat) (F : Nat → Option Tm) :
    Cv (ext n F D) (ushift 0 n a) (ushift 0 n b) :=
  h.wk 0 n _ (WkC.push n F D)

/-! ## substitution -/

/-- `D'` is `D` with variable `k` removed and `v` (a term of the new scope) substituted for it -/
def SbC (k : Nat) (v : Tm) (D D' : Ctx) : Prop :=
  ∀ i, i ≠ k → D' (if i < k then i else i - 1) = (D i).map (fun t => openT t k v 0)

theorem open_push (t v : Tm) (k n : Nat) :
    ushift 0 n (openT t k v 0) = openT (ushift 0 n t) (k + n) (ushift 0 n v) 0 := by
  rw [open_ushift_low t v k 0 n 0 (Nat.zero_le _) (Nat.zero_le _), Nat.zero_add, open_arg0]

theorem SbC.under {k : Nat} {v : Tm} {D D' : Ctx} (h : SbC k v D D') (n : Nat) (F F' : Nat → Option Tm)
    (hF : ∀ i, i < n → F' i = (F i).map (fun t => openT t (k + n) (ushift 0 n v) 0)) :
    SbC (k + n) (ushift 0 n v) (ext n F D) (ext n F' D') := by
  intro i hik
  by_cases hi : i < n
  · rw [if_pos (by omega), ext_lt hi, ext_lt hi]; exact hF i hi
  · have hi' : n ≤ i := Nat.not_lt.1 hi
    rw [ext_ge hi']
    have := h (i - n) (by omega)
    by_cases hk : i < k + n
    · rw [if_pos hk, ext_ge hi']
      rw [if_pos (by omega)] at this
      rw [this]
      cases D (i - n) with
      | none => rfl
      | some t => simp only [Option.map_some]; rw [open_push]
    · rw [if_neg hk, ext_ge (by omega)]
      rw [if_neg (by omega)] at this
      rw [show i - 1 - n = i - n - 1 by omega, this]
      cases D (i - n) with
      | none => rfl
      | some t => simp only [Option.map_some]; rw [open_push]

theorem SbC.underN {k : Nat} {v : Tm} {D D' : Ctx} (h : SbC k v D D') (n : Nat) :
    SbC (k + n) (ushift 0 n v) (ext n noneF D) (ext n noneF D') :=
  h.under n noneF noneF (fun _ _ => rfl)

/-- the side condition of substitution for a *defined* variable, pushed under `n` binders -/
theorem defCond_push {k : Nat} {v : Tm} {D D' : Ctx}
    (hd : ∀ d, D k = some d → Cv D' v (openT d k v 0)) (n : Nat) (F F' : Nat → Option Tm) :
    ∀ d, ext n F D (k + n) = some d → Cv (ext n F' D') (ushift 0 n v) (openT d (k + n) (ushift 0 n v) 0) := by
  intro d e
  rw [ext_ge (by omega), Nat.add_sub_cancel] at e
  cases e0 : D k with
  | none => rw [e0] at e; cases e
  | some d0 =>
    rw [e0] at e
    simp only [Option.map_some, Option.some.injEq] at e
    subst e
    have := (hd d0 e0).push n F'
    rw [open_push] at this
    exact this

theorem Cv.subst {D : Ctx} {a b : Tm} (h : Cv D a b) : ∀ (k : Nat) (v : Tm) (D' : Ctx),
    v.holeFree = true → SbC k v D D' → (∀ d, D k = some d → Cv D' v (openT d k v 0)) →
    Cv D' (openT a k v 0) (openT b k v 0) := by
  induction h with
  | refl h => intro k v D' hv _ _; exact .refl (openT_holeFree _ _ _ _ h hv)
  | symm _ ih => intro k v D' hv H hd; exact .symm (ih k v D' hv H hd)
  | trans _ _ ih1 ih2 => intro k v D' hv H hd; exact .trans (ih1 k v D' hv H hd) (ih2 k v D' hv H hd)
  | beta x im d body a hd hb ha =>
    intro k v D' hv _ _
    rw [open_open_sh body a v 0 k 0 (Nat.zero_le _) (Nat.zero_le _)]
    simp only [openT]
    exact .beta x im _ _ _ (openT_holeFree _ _ _ _ hd hv) (openT_holeFree _ _ _ _ hb hv)
      (openT_holeFree _ _ _ _ ha hv)
  | delta x i d hi hd =>
    intro k v D' hv H hdef
    simp only [openT]
    by_cases hik : i = k
    · subst hik
      rw [if_pos rfl, ushift_zero]
      exact hdef d hi
    · rw [if_neg hik]
      have := H i hik
      rw [hi] at this
      by_cases hgt : i > k
      · rw [if_pos hgt]
        rw [if_neg (by omega)] at this
        exact .delta x _ _ this (openT_holeFree _ _ _ _ hd hv)
      · rw [if_neg hgt]
        rw [if_pos (by omega)] at this
        exact .delta x _ _ this (openT_holeFree _ _ _ _ hd hv)
  | letStep x a d rest body ha hd hr hb =>
    intro k v D' hv _ _
    simp only [openT, openDefs, Defs.len_cons, openDefs_len, Nat.zero_add]
    rw [open_open_sh body _ v rest.len (k + rest.len) rest.len (by omega) (Nat.le_refl _),
      openDefs_open_sh rest _ v rest.len (k + rest.len) rest.len (by omega) (Nat.le_refl _),
      unfoldDef_open x a d rest.len (k + rest.len) rest.len v (by omega) (Nat.le_refl _)]
    have := Cv.letStep (D := D') x (openT a (k + rest.len + 1) v (rest.len + 1))
      (openT d (k + rest.len + 1) v (rest.len + 1)) (openDefs rest (k + rest.len + 1) v (rest.len + 1))
      (openT body (k + rest.len + 1) v (rest.len + 1))
      (openT_holeFree _ _ _ _ ha hv) (openT_holeFree _ _ _ _ hd hv) (openDefs_holeFree _ _ _ _ hr hv)
      (openT_holeFree _ _ _ _ hb hv)
    rw [openDefs_len] at this
    rw [show k + (rest.len + 1) = k + rest.len + 1 by omega]
    exact this
  | letNil body hb =>
    intro k v D' hv _ _
    simp only [openT, openDefs, Defs.len_nil, Nat.add_zero]
    exact .letNil _ (openT_holeFree _ _ _ _ hb hv)
  | negLit n => intro k v D' _ _ _; exact .negLit n
  | arith op x y r hr =>
    intro k v D' _ _ _
    have : openT r k v 0 = r := by
      have := CCPar.applyOps_delta hr [(k, v)] 0
      simpa [CheckSound.applyOps] using this
    simp only [openT]
    rw [this]
    exact .arith op x y r hr
  | iteT a b ha hb =>
    intro k v D' hv _ _
    exact .iteT _ _ (openT_holeFree _ _ _ _ ha hv) (openT_holeFree _ _ _ _ hb hv)
  | iteF a b ha hb =>
    intro k v D' hv _ _
    exact .iteF _ _ (openT_holeFree _ _ _ _ ha hv) (openT_holeFree _ _ _ _ hb hv)
  | same hs ha hb =>
    intro k v D' hv _ _
    exact .same (sameX_openT k 0 hs (sameX_refl v)) (openT_holeFree _ _ _ _ ha hv)
      (openT_holeFree _ _ _ _ hb hv)
  | lam x y im d1 d2 h1 h2 _ ih =>
    intro k v D' hv H hd
    simp only [openT, Nat.zero_add]
    rw [open_arg0 _ (k + 1) v 1, open_arg0 _ (k + 1) v 1]
    exact .lam x y im _ _ (openT_holeFree _ _ _ _ h1 hv) (openT_holeFree _ _ _ _ h2 hv)
      (ih (k + 1) _ _ (by rw [ushift_holeFree]; exact hv) (H.underN 1) (defCond_push hd 1 noneF noneF))
  | pi x y im _ _ ih1 ih2 =>
    intro k v D' hv H hd
    simp only [openT, Nat.zero_add]
    rw [open_arg0 _ (k + 1) v 1, open_arg0 _ (k + 1) v 1]
    exact .pi x y im (ih1 k v D' hv H hd)
      (ih2 (k + 1) _ _ (by rw [ushift_holeFree]; exact hv) (H.underN 1) (defCond_push hd 1 noneF noneF))
  | app _ _ ih1 ih2 => intro k v D' hv H hd; exact .app (ih1 k v D' hv H hd) (ih2 k v D' hv H hd)
  | neg _ ih => intro k v D' hv H hd; exact .neg (ih k v D' hv H hd)
  | bin op _ _ ih1 ih2 => intro k v D' hv H hd; exact .bin op (ih1 k v D' hv H hd) (ih2 k v D' hv H hd)
  | ite _ _ _ ih0 ih1 ih2 =>
    intro k v D' hv H hd; exact .ite (ih0 k v D' hv H hd) (ih1 k v D' hv H hd) (ih2 k v D' hv H hd)
  | @letg D ds1 ds2 b1 b2 hl h1 h2 _ _ ihc ihb =>
    intro k v D' hv H hd
    simp only [openT, Nat.zero_add]
    have hv' : (ushift 0 ds1.len v).holeFree = true := by rw [ushift_holeFree]; exact hv
    refine .letg (by rw [openDefs_len, openDefs_len]; exact hl) (openDefs_holeFree _ _ _ _ h1 hv)
      (openDefs_holeFree _ _ _ _ h2 hv) ?_ ?_
    · intro i t1 t2 e1 e2
      rw [comps_openDefs] at e1 e2
      obtain ⟨u1, f1, rfl⟩ := getElem?_map_some e1
      obtain ⟨u2, f2, rfl⟩ := getElem?_map_some e2
      rw [openDefs_len, ← hl]
      have := ihc i u1 u2 f1 f2 (k + ds1.len) _ _ hv' (H.underN ds1.len) (defCond_push hd ds1.len noneF noneF)
      rw [← open_arg0, ← open_arg0] at this
      exact this
    · rw [openDefs_len, ← hl]
      have := ihb (k + ds1.len) _ _ hv' (H.underN ds1.len) (defCond_push hd ds1.len noneF noneF)
      rw [← open_arg0, ← open_arg0] at this
      exact this

/-! ## congruence in the substituted term -/

mutual
theorem cv_arg {D : Ctx} {v v' : Tm} (hvv : Cv D v v') : ∀ (t : Tm) (i s : Nat) (D1 : Ctx),
    t.holeFree = true → WkC 0 s D D1 → Cv D1 (openT t i v s) (openT t i v' s)
  | .var x j, i, s, D1, _, H => by
      simp only [openT]
      by_cases h : j = i
      · rw [if_pos h, if_pos h]; exact hvv.wk 0 s D1 H
      · rw [if_neg h, if_neg h]; split <;> exact .refl rfl
  | .hole _ _, _, _, _, hf, _ => by cases hf
  | .lam x im d b, i, s, D1, hf, H => by
      simp only [Tm.holeFree, Bool.and_eq_true] at hf
      simp only [openT]
      exact .lam x x im _ _ (openT_holeFree _ _ _ _ hf.1 hvv.hf.1) (openT_holeFree _ _ _ _ hf.1 hvv.hf.2)
        (cv_arg hvv b (i+1) (s+1) _ hf.2 (H.more 1 noneF))
  | .pi x im d b, i, s, D1, hf, H => by
      simp only [Tm.holeFree, Bool.and_eq_true] at hf
      simp only [openT]
      exact .pi x x im (cv_arg hvv d i s D1 hf.1 H) (cv_arg hvv b (i+1) (s+1) _ hf.2 (H.more 1 noneF))
  | .app f a, i, s, D1, hf, H => by
      simp only [Tm.holeFree, Bool.and_eq_true] at hf
      simp only [openT]
      exact .app (cv_arg hvv f i s D1 hf.1 H) (cv_arg hvv a i s D1 hf.2 H)
  | .letg ds b, i, s, D1, hf, H => by
      simp only [Tm.holeFree, Bool.and_eq_true] at hf
      simp only [openT]
      refine .letg (by rw [openDefs_len, openDefs_len]) (openDefs_holeFree _ _ _ _ hf.1 hvv.hf.1)
        (openDefs_holeFree _ _ _ _ hf.1 hvv.hf.2) ?_ ?_
      · intro j t1 t2 e1 e2
        rw [openDefs_len]
        exact cv_argDefs hvv ds (i + ds.len) (s + ds.len) _ hf.1 (H.more ds.len noneF) j t1 t2 e1 e2
      · rw [openDefs_len]
        exact cv_arg hvv b (i + ds.len) (s + ds.len) _ hf.2 (H.more ds.len noneF)
  | .neg a, i, s, D1, hf, H => by
      simp only [Tm.holeFree] at hf
      simp only [openT]
      exact .neg (cv_arg hvv a i s D1 hf H)
  | .bin op a b, i, s, D1, hf, H => by
      simp only [Tm.holeFree, Bool.and_eq_true] at hf
      simp only [openT]
      exact .bin op (cv_arg hvv a i s D1 hf.1 H) (cv_arg hvv b i s D1 hf.2 H)
  | .ite c a b, i, s, D1, hf, H => by
      simp only [Tm.holeFree, Bool.and_eq_true] at hf
      simp only [openT]
      exact .ite (cv_arg hvv c i s D1 hf.1.1 H) (cv_arg hvv a i s D1 hf.1.2 H) (cv_arg hvv b i s D1 hf.2 H)
  | .type, _, _, _, _, _ | .int, _, _, _, _, _ | .bool, _, _, _, _, _ | .tt, _, _, _, _, _
  | .ff, _, _, _, _, _ | .lit _, _, _, _, _, _ => by simp only [openT]; exact .refl rfl
theorem cv_argDefs {D : Ctx} {v v' : Tm} (hvv : Cv D v v') : ∀ (ds : Defs) (i s : Nat) (D1 : Ctx),
    ds.holeFree = true → WkC 0 s D D1 →
    ∀ (j : Nat) (t1 t2 : Tm), (comps (openDefs ds i v s))[j]? = some t1 →
      (comps (openDefs ds i v' s))[j]? = some t2 → Cv D1 t1 t2
  | .nil, _, _, _, _, _, j, t1, t2, e1, _ => by simp [openDefs, comps] at e1
  | .cons x a d r, i, s, D1, hf, H, j, t1, t2, e1, e2 => by
      simp only [Defs.holeFree, Bool.and_eq_true] at hf
      simp only [openDefs, comps] at e1 e2
      match j with
      | 0 =>
        simp only [List.getElem?_cons_zero, Option.some.injEq] at e1 e2
        subst e1 e2
        exact cv_arg hvv a i s D1 hf.1.1 H
      | 1 =>
        simp only [List.getElem?_cons_succ, List.getElem?_cons_zero, Option.some.injEq] at e1 e2
        subst e1 e2
        exact cv_arg hvv d i s D1 hf.1.2 H
      | j+2 =>
        simp only [List.getElem?_cons_succ] at e1 e2
        exact cv_argDefs hvv r i s D1 hf.2 H j t1 t2 e1 e2
end

/-! ## change of the definitions context -/

/-- every definition of `D` is, in `D'`, convertible with its variable -/
def CtxCv (D D' : Ctx) : Prop := ∀ i d (x : Name), D i = some d → Cv D' (.var x i) d

theorem CtxCv.underN {D D' : Ctx} (h : CtxCv D D') (n : Nat) : CtxCv (ext n noneF D) (ext n noneF D') := by
  intro i d x e
  by_cases hi : i < n
  · rw [ext_lt hi] at e; cases e
  · rw [ext_ge (Nat.not_lt.1 hi)] at e
    cases e0 : D (i - n) with
    | none => rw [e0] at e; cases e
    | some d0 =>
      rw [e0] at e
      simp only [Option.map_some, Option.some.injEq] at e
      subst e
      have := (h (i - n) d0 x e0).push n noneF (D := D')
      simp only [ushift] at this
      rw [if_pos (Nat.zero_le _), show i - n + n = i by omega] at this
      exact this

theorem Cv.ctx {D : Ctx} {a b : Tm} (h : Cv D a b) : ∀ (D' : Ctx), CtxCv D D' → Cv D' a b := by
  induction h with
  | refl h => intro D' _; exact .refl h
  | symm _ ih => intro D' H; exact .symm (ih D' H)
  | trans _ _ ih1 ih2 => intro D' H; exact .trans (ih1 D' H) (ih2 D' H)
  | beta x im d body a hd hb ha => intro D' _; exact .beta x im d body a hd hb ha
  | delta x i d hi hd => intro D' H; exact H i d x hi
  | letStep x a d rest body ha hd hr hb => intro D' _; exact .letStep x a d rest body ha hd hr hb
  | letNil body hb => intro D' _; exact .letNil body hb
  | negLit n => intro D' _; exact .negLit n
  | arith op x y r hr => intro D' _; exact .arith op x y r hr
  | iteT a b ha hb => intro D' _; exact .iteT a b ha hb
  | iteF a b ha hb => intro D' _; exact .iteF a b ha hb
  | same hs ha hb => intro D' _; exact .same hs ha hb
  | lam x y im d1 d2 h1 h2 _ ih => intro D' H; exact .lam x y im d1 d2 h1 h2 (ih _ (H.underN 1))
  | pi x y im _ _ ih1 ih2 => intro D' H; exact .pi x y im (ih1 D' H) (ih2 _ (H.underN 1))
  | app _ _ ih1 ih2 => intro D' H; exact .app (ih1 D' H) (ih2 D' H)
  | neg _ ih => intro D' H; exact .neg (ih D' H)
  | bin op _ _ ih1 ih2 => intro D' H; exact .bin op (ih1 D' H) (ih2 D' H)
  | ite _ _ _ ih0 ih1 ih2 => intro D' H; exact .ite (ih0 D' H) (ih1 D' H) (ih2 D' H)
  | letg hl h1 h2 _ _ ihc ihb =>
    intro D' H
    exact .letg hl h1 h2 (fun i t1 t2 e1 e2 => ihc i t1 t2 e1 e2 _ (H.underN _)) (ihb _ (H.underN _))

/-- pointwise equal contexts are interchangeable -/
theorem Cv.congr {D D' : Ctx} {a b : Tm} (h : Cv D a b) (e : ∀ i, D i = D' i) : Cv D' a b := by
  have : D = D' := funext e
  rw [← this]; exact h

end Pres
