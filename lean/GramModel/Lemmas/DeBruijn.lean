import GramModel.DeBruijn

/-! Helper lemmas about `sshift`, `ushift`, `openT`, `freeAt` (structural, mutual over `Tm`/`Defs`). -/

theorem ushiftDefs_len : ∀ (ds : Defs) c a, (ushiftDefs c a ds).len = ds.len
  | .nil, _, _ => by simp [ushiftDefs]
  | .cons _ _ _ r, c, a => by simp [ushiftDefs, ushiftDefs_len r c a]

theorem openDefs_len : ∀ (ds : Defs) i u s, (openDefs ds i u s).len = ds.len
  | .nil, _, _, _ => by simp [openDefs]
  | .cons _ _ _ r, i, u, s => by simp [openDefs, openDefs_len r i u s]

theorem sshiftDefs_len : ∀ (ds ds' : Defs) c amt, sshiftDefs c amt ds = some ds' → ds'.len = ds.len
  | .nil, ds', c, amt, h => by simp [sshiftDefs] at h; subst h; rfl
  | .cons x a d r, ds', c, amt, h => by
    simp only [sshiftDefs] at h
    split at h <;> try contradiction
    split at h <;> try contradiction
    split at h <;> try contradiction
    rename_i r' hr
    injection h with h; subst h
    simp [sshiftDefs_len r r' c amt hr]

mutual
theorem ushift_zero : ∀ (t : Tm) (c : Nat), ushift c 0 t = t
  | .var x i, c => by simp [ushift]
  | .hole id s, c => by simp [ushift]
  | .lam x im d b, c => by simp [ushift, ushift_zero d c, ushift_zero b (c+1)]
  | .pi x im d b, c => by simp [ushift, ushift_zero d c, ushift_zero b (c+1)]
  | .app f a, c => by simp [ushift, ushift_zero f c, ushift_zero a c]
  | .letg ds b, c => by simp [ushift, ushiftDefs_zero ds (c + ds.len), ushift_zero b (c + ds.len)]
  | .neg a, c => by simp [ushift, ushift_zero a c]
  | .bin op a b, c => by simp [ushift, ushift_zero a c, ushift_zero b c]
  | .ite a b d, c => by simp [ushift, ushift_zero a c, ushift_zero b c, ushift_zero d c]
  | .type, c | .int, c | .bool, c | .tt, c | .ff, c | .lit _, c => by simp [ushift]
theorem ushiftDefs_zero : ∀ (ds : Defs) (c : Nat), ushiftDefs c 0 ds = ds
  | .nil, c => by simp [ushiftDefs]
  | .cons x a d r, c => by simp [ushiftDefs, ushift_zero a c, ushift_zero d c, ushiftDefs_zero r c]
end

mutual
theorem sshift_ushift : ∀ (t : Tm) (c a : Nat), sshift c (a : Int) t = some (ushift c a t)
  | .var x i, c, a => by
      simp only [sshift, ushift]; split
      · have : ((i : Int) + (a : Int)) ≥ (c : Int) := by omega
        simp [this]; omega
      · rfl
  | .hole id s, c, a => by
      simp only [sshift, ushift]; split
      · have : ((s : Int) + (a : Int)) ≥ (c : Int) := by omega
        simp [this]; omega
      · rfl
  | .lam x im d b, c, a => by simp [sshift, ushift, sshift_ushift d c a, sshift_ushift b (c+1) a]
  | .pi x im d b, c, a => by simp [sshift, ushift, sshift_ushift d c a, sshift_ushift b (c+1) a]
  | .app f g, c, a => by simp [sshift, ushift, sshift_ushift f c a, sshift_ushift g c a]
  | .letg ds b, c, a => by
      simp [sshift, ushift, sshiftDefs_ushift ds (c + ds.len) a, sshift_ushift b (c + ds.len) a]
  | .neg t, c, a => by simp [sshift, ushift, sshift_ushift t c a]
  | .bin op t u, c, a => by simp [sshift, ushift, sshift_ushift t c a, sshift_ushift u c a]
  | .ite t u v, c, a => by
      simp [sshift, ushift, sshift_ushift t c a, sshift_ushift u c a, sshift_ushift v c a]
  | .type, c, a | .int, c, a | .bool, c, a | .tt, c, a | .ff, c, a | .lit _, c, a => by
      simp [sshift, ushift]
theorem sshiftDefs_ushift : ∀ (ds : Defs) (c a : Nat),
    sshiftDefs c (a : Int) ds = some (ushiftDefs c a ds)
  | .nil, c, a => by simp [sshiftDefs, ushiftDefs]
  | .cons x t u r, c, a => by
      simp [sshiftDefs, ushiftDefs, sshift_ushift t c a, sshift_ushift u c a, sshiftDefs_ushift r c a]
end

mutual
theorem ushift_ushift : ∀ (t : Tm) (c a b : Nat), ushift c a (ushift c b t) = ushift c (a + b) t
  | .var x i, c, a, b => by
      simp only [ushift]; split
      · simp only [ushift]; split <;> first | (congr 1; omega) | omega
      · simp only [ushift]; split <;> first | omega | rfl
  | .hole id s, c, a, b => by
      simp only [ushift]; split
      · simp only [ushift]; split <;> first | (congr 1; omega) | omega
      · simp only [ushift]; split <;> first | omega | rfl
  | .lam x im d e, c, a, b => by simp [ushift, ushift_ushift d c a b, ushift_ushift e (c+1) a b]
  | .pi x im d e, c, a, b => by simp [ushift, ushift_ushift d c a b, ushift_ushift e (c+1) a b]
  | .app f g, c, a, b => by simp [ushift, ushift_ushift f c a b, ushift_ushift g c a b]
  | .letg ds e, c, a, b => by
      simp [ushift, ushiftDefs_len, ushiftDefs_ushiftDefs ds (c + ds.len) a b,
        ushift_ushift e (c + ds.len) a b]
  | .neg t, c, a, b => by simp [ushift, ushift_ushift t c a b]
  | .bin op t u, c, a, b => by simp [ushift, ushift_ushift t c a b, ushift_ushift u c a b]
  | .ite t u v, c, a, b => by
      simp [ushift, ushift_ushift t c a b, ushift_ushift u c a b, ushift_ushift v c a b]
  | .type, c, a, b | .int, c, a, b | .bool, c, a, b | .tt, c, a, b | .ff, c, a, b
  | .lit _, c, a, b => by simp [ushift]
theorem ushiftDefs_ushiftDefs : ∀ (ds : Defs) (c a b : Nat),
    ushiftDefs c a (ushiftDefs c b ds) = ushiftDefs c (a + b) ds
  | .nil, c, a, b => by simp [ushiftDefs]
  | .cons x t u r, c, a, b => by
      simp [ushiftDefs, ushift_ushift t c a b, ushift_ushift u c a b, ushiftDefs_ushiftDefs r c a b]
end

-- a downward shift undoes an upward one
mutual
theorem sshift_neg_ushift : ∀ (t : Tm) (c a : Nat), sshift c (-(a : Int)) (ushift c a t) = some t
  | .var x i, c, a => by
      simp only [ushift]; split
      · rename_i h
        have h1 : i + a ≥ c := by omega
        have h2 : ((i + a : Nat) : Int) + -(a : Int) ≥ (c : Int) := by omega
        simp only [sshift, h1, h2, if_true]
        congr 2; omega
      · rename_i h; simp [sshift, h]
  | .hole id s, c, a => by
      simp only [ushift]; split
      · rename_i h
        have h1 : s + a ≥ c := by omega
        have h2 : ((s + a : Nat) : Int) + -(a : Int) ≥ (c : Int) := by omega
        simp only [sshift, h1, h2, if_true]
        congr 2; omega
      · rename_i h; simp [sshift, h]
  | .lam x im d b, c, a => by
      simp [ushift, sshift, sshift_neg_ushift d c a, sshift_neg_ushift b (c+1) a]
  | .pi x im d b, c, a => by
      simp [ushift, sshift, sshift_neg_ushift d c a, sshift_neg_ushift b (c+1) a]
  | .app f g, c, a => by simp [ushift, sshift, sshift_neg_ushift f c a, sshift_neg_ushift g c a]
  | .letg ds b, c, a => by
      simp [ushift, sshift, ushiftDefs_len, sshiftDefs_neg_ushiftDefs ds (c + ds.len) a,
        sshift_neg_ushift b (c + ds.len) a]
  | .neg t, c, a => by simp [ushift, sshift, sshift_neg_ushift t c a]
  | .bin op t u, c, a => by simp [ushift, sshift, sshift_neg_ushift t c a, sshift_neg_ushift u c a]
  | .ite t u v, c, a => by
      simp [ushift, sshift, sshift_neg_ushift t c a, sshift_neg_ushift u c a,
        sshift_neg_ushift v c a]
  | .type, c, a | .int, c, a | .bool, c, a | .tt, c, a | .ff, c, a | .lit _, c, a => by
      simp [sshift, ushift]
theorem sshiftDefs_neg_ushiftDefs : ∀ (ds : Defs) (c a : Nat),
    sshiftDefs c (-(a : Int)) (ushiftDefs c a ds) = some ds
  | .nil, c, a => by simp [sshiftDefs, ushiftDefs]
  | .cons x t u r, c, a => by
      simp [sshiftDefs, ushiftDefs, sshift_neg_ushift t c a, sshift_neg_ushift u c a,
        sshiftDefs_neg_ushiftDefs r c a]
end

-- a downward shift fails exactly when an occurrence would become unbound
mutual
theorem sshift_down_isSome : ∀ (t : Tm) (c k : Nat),
    (sshift c (-(k : Int)) t).isSome = !lowFree t c k
  | .var x i, c, k => by
      simp only [sshift, lowFree]
      by_cases h : i ≥ c
      · by_cases h2 : (i : Int) + -(k : Int) ≥ (c : Int)
        · simp [h, h2]; omega
        · simp [h, h2]; omega
      · simp [h]
  | .hole id s, c, k => by
      simp only [sshift, lowFree]
      by_cases h : s ≥ c
      · by_cases h2 : (s : Int) + -(k : Int) ≥ (c : Int)
        · simp [h, h2]; omega
        · simp [h, h2]; omega
      · simp [h]
  | .lam x im d b, c, k => by
      have h1 := sshift_down_isSome d c k
      have h2 := sshift_down_isSome b (c+1) k
      simp only [sshift, lowFree]
      cases hd : sshift c (-(k:Int)) d <;> cases hb : sshift (c+1) (-(k:Int)) b <;>
        simp_all
  | .pi x im d b, c, k => by
      have h1 := sshift_down_isSome d c k
      have h2 := sshift_down_isSome b (c+1) k
      simp only [sshift, lowFree]
      cases hd : sshift c (-(k:Int)) d <;> cases hb : sshift (c+1) (-(k:Int)) b <;>
        simp_all
  | .app f a, c, k => by
      have h1 := sshift_down_isSome f c k
      have h2 := sshift_down_isSome a c k
      simp only [sshift, lowFree]
      cases hd : sshift c (-(k:Int)) f <;> cases hb : sshift c (-(k:Int)) a <;> simp_all
  | .letg ds b, c, k => by
      have h1 := sshiftDefs_down_isSome ds (c + ds.len) k
      have h2 := sshift_down_isSome b (c + ds.len) k
      simp only [sshift, lowFree]
      cases hd : sshiftDefs (c + ds.len) (-(k:Int)) ds <;>
        cases hb : sshift (c + ds.len) (-(k:Int)) b <;> simp_all
  | .neg a, c, k => by
      have h1 := sshift_down_isSome a c k
      simp only [sshift, lowFree]
      cases hd : sshift c (-(k:Int)) a <;> simp_all
  | .bin op a b, c, k => by
      have h1 := sshift_down_isSome a c k
      have h2 := sshift_down_isSome b c k
      simp only [sshift, lowFree]
      cases hd : sshift c (-(k:Int)) a <;> cases hb : sshift c (-(k:Int)) b <;> simp_all
  | .ite a b d, c, k => by
      have h1 := sshift_down_isSome a c k
      have h2 := sshift_down_isSome b c k
      have h3 := sshift_down_isSome d c k
      simp only [sshift, lowFree]
      cases ha : sshift c (-(k:Int)) a <;> cases hb : sshift c (-(k:Int)) b <;>
        cases hd : sshift c (-(k:Int)) d <;> simp_all
  | .type, c, k | .int, c, k | .bool, c, k | .tt, c, k | .ff, c, k | .lit _, c, k => by
      simp [sshift, lowFree]
theorem sshiftDefs_down_isSome : ∀ (ds : Defs) (c k : Nat),
    (sshiftDefs c (-(k : Int)) ds).isSome = !lowFreeDefs ds c k
  | .nil, c, k => by simp [sshiftDefs, lowFreeDefs]
  | .cons x a d r, c, k => by
      have h1 := sshift_down_isSome a c k
      have h2 := sshift_down_isSome d c k
      have h3 := sshiftDefs_down_isSome r c k
      simp only [sshiftDefs, lowFreeDefs]
      cases ha : sshift c (-(k:Int)) a <;> cases hb : sshift c (-(k:Int)) d <;>
        cases hd : sshiftDefs c (-(k:Int)) r <;> simp_all
end

-- on hole-free terms `lowFree` is "some variable in the range is free"
mutual
theorem lowFree_iff_freeAt : ∀ (t : Tm) (c k : Nat), t.holeFree = true →
    (lowFree t c k = true ↔ ∃ j, c ≤ j ∧ j < c + k ∧ freeAt t j = true)
  | .var x i, c, k, _ => by
      simp only [lowFree, freeAt, decide_eq_true_eq, beq_iff_eq]
      constructor
      · intro h; exact ⟨i, h.1, h.2, rfl⟩
      · rintro ⟨j, h1, h2, rfl⟩; exact ⟨h1, h2⟩
  | .hole id s, c, k, h => by simp [Tm.holeFree] at h
  | .lam x im d b, c, k, h => by
      simp only [Tm.holeFree, Bool.and_eq_true] at h
      have h1 := lowFree_iff_freeAt d c k h.1
      have h2 := lowFree_iff_freeAt b (c+1) k h.2
      simp only [lowFree, freeAt, Bool.or_eq_true, h1, h2]
      constructor
      · rintro (⟨j, a, b', e⟩ | ⟨j, a, b', e⟩)
        · exact ⟨j, a, b', Or.inl e⟩
        · exact ⟨j - 1, by omega, by omega, Or.inr (by rw [show j - 1 + 1 = j by omega]; exact e)⟩
      · rintro ⟨j, a, b', e | e⟩
        · exact Or.inl ⟨j, a, b', e⟩
        · exact Or.inr ⟨j + 1, by omega, by omega, e⟩
  | .pi x im d b, c, k, h => by
      simp only [Tm.holeFree, Bool.and_eq_true] at h
      have h1 := lowFree_iff_freeAt d c k h.1
      have h2 := lowFree_iff_freeAt b (c+1) k h.2
      simp only [lowFree, freeAt, Bool.or_eq_true, h1, h2]
      constructor
      · rintro (⟨j, a, b', e⟩ | ⟨j, a, b', e⟩)
        · exact ⟨j, a, b', Or.inl e⟩
        · exact ⟨j - 1, by omega, by omega, Or.inr (by rw [show j - 1 + 1 = j by omega]; exact e)⟩
      · rintro ⟨j, a, b', e | e⟩
        · exact Or.inl ⟨j, a, b', e⟩
        · exact Or.inr ⟨j + 1, by omega, by omega, e⟩
  | .app f a, c, k, h => by
      simp only [Tm.holeFree, Bool.and_eq_true] at h
      have h1 := lowFree_iff_freeAt f c k h.1
      have h2 := lowFree_iff_freeAt a c k h.2
      simp only [lowFree, freeAt, Bool.or_eq_true, h1, h2]
      constructor
      · rintro (⟨j, a, b', e⟩ | ⟨j, a, b', e⟩)
        · exact ⟨j, a, b', Or.inl e⟩
        · exact ⟨j, a, b', Or.inr e⟩
      · rintro ⟨j, a, b', e | e⟩
        · exact Or.inl ⟨j, a, b', e⟩
        · exact Or.inr ⟨j, a, b', e⟩
  | .letg ds b, c, k, h => by
      simp only [Tm.holeFree, Bool.and_eq_true] at h
      have h1 := lowFreeDefs_iff_freeAtDefs ds (c + ds.len) k h.1
      have h2 := lowFree_iff_freeAt b (c + ds.len) k h.2
      simp only [lowFree, freeAt, Bool.or_eq_true, h1, h2]
      constructor
      · rintro (⟨j, a, b', e⟩ | ⟨j, a, b', e⟩)
        · exact ⟨j - ds.len, by omega, by omega,
            Or.inl (by rw [show j - ds.len + ds.len = j by omega]; exact e)⟩
        · exact ⟨j - ds.len, by omega, by omega,
            Or.inr (by rw [show j - ds.len + ds.len = j by omega]; exact e)⟩
      · rintro ⟨j, a, b', e | e⟩
        · exact Or.inl ⟨j + ds.len, by omega, by omega, e⟩
        · exact Or.inr ⟨j + ds.len, by omega, by omega, e⟩
  | .neg a, c, k, h => by
      simp only [Tm.holeFree] at h
      simpa [lowFree, freeAt] using lowFree_iff_freeAt a c k h
  | .bin op a b, c, k, h => by
      simp only [Tm.holeFree, Bool.and_eq_true] at h
      have h1 := lowFree_iff_freeAt a c k h.1
      have h2 := lowFree_iff_freeAt b c k h.2
      simp only [lowFree, freeAt, Bool.or_eq_true, h1, h2]
      constructor
      · rintro (⟨j, a, b', e⟩ | ⟨j, a, b', e⟩)
        · exact ⟨j, a, b', Or.inl e⟩
        · exact ⟨j, a, b', Or.inr e⟩
      · rintro ⟨j, a, b', e | e⟩
        · exact Or.inl ⟨j, a, b', e⟩
        · exact Or.inr ⟨j, a, b', e⟩
  | .ite a b d, c, k, h => by
      simp only [Tm.holeFree, Bool.and_eq_true] at h
      have h1 := lowFree_iff_freeAt a c k h.1.1
      have h2 := lowFree_iff_freeAt b c k h.1.2
      have h3 := lowFree_iff_freeAt d c k h.2
      simp only [lowFree, freeAt, Bool.or_eq_true, h1, h2, h3]
      constructor
      · rintro ((⟨j, a, b', e⟩ | ⟨j, a, b', e⟩) | ⟨j, a, b', e⟩)
        · exact ⟨j, a, b', Or.inl (Or.inl e)⟩
        · exact ⟨j, a, b', Or.inl (Or.inr e)⟩
        · exact ⟨j, a, b', Or.inr e⟩
      · rintro ⟨j, a, b', (e | e) | e⟩
        · exact Or.inl (Or.inl ⟨j, a, b', e⟩)
        · exact Or.inl (Or.inr ⟨j, a, b', e⟩)
        · exact Or.inr ⟨j, a, b', e⟩
  | .type, c, k, _ | .int, c, k, _ | .bool, c, k, _ | .tt, c, k, _ | .ff, c, k, _
  | .lit _, c, k, _ => by simp [lowFree, freeAt]
theorem lowFreeDefs_iff_freeAtDefs : ∀ (ds : Defs) (c k : Nat), ds.holeFree = true →
    (lowFreeDefs ds c k = true ↔ ∃ j, c ≤ j ∧ j < c + k ∧ freeAtDefs ds j = true)
  | .nil, c, k, _ => by simp [lowFreeDefs, freeAtDefs]
  | .cons x a d r, c, k, h => by
      simp only [Defs.holeFree, Bool.and_eq_true] at h
      have h1 := lowFree_iff_freeAt a c k h.1.1
      have h2 := lowFree_iff_freeAt d c k h.1.2
      have h3 := lowFreeDefs_iff_freeAtDefs r c k h.2
      simp only [lowFreeDefs, freeAtDefs, Bool.or_eq_true, h1, h2, h3]
      constructor
      · rintro ((⟨j, a, b', e⟩ | ⟨j, a, b', e⟩) | ⟨j, a, b', e⟩)
        · exact ⟨j, a, b', Or.inl (Or.inl e)⟩
        · exact ⟨j, a, b', Or.inl (Or.inr e)⟩
        · exact ⟨j, a, b', Or.inr e⟩
      · rintro ⟨j, a, b', (e | e) | e⟩
        · exact Or.inl (Or.inl ⟨j, a, b', e⟩)
        · exact Or.inl (Or.inr ⟨j, a, b', e⟩)
        · exact Or.inr ⟨j, a, b', e⟩
end

-- opening a term in which the variable does not occur merely lowers the indices above it
mutual
theorem open_not_free : ∀ (t : Tm) (i : Nat) (u : Tm) (s : Nat), lowFree t i 1 = false →
    sshift i (-1) t = some (openT t i u s)
  | .var x j, i, u, s, h => by
      simp only [lowFree, decide_eq_false_iff_not] at h
      simp only [sshift, openT]
      by_cases h1 : j ≥ i
      · have hj : j ≠ i := by omega
        have h2 : (j : Int) + -1 ≥ (i : Int) := by omega
        have h3 : j > i := by omega
        simp only [h1, h2, hj, h3, if_true, if_false]
        congr 2; omega
      · have hj : j ≠ i := by omega
        have h3 : ¬ j > i := by omega
        simp [h1, hj, h3]
  | .hole id k, i, u, s, h => by
      simp only [lowFree, decide_eq_false_iff_not] at h
      simp only [sshift, openT]
      by_cases h1 : k ≥ i
      · have h2 : (k : Int) + -1 ≥ (i : Int) := by omega
        have h3 : k > i := by omega
        simp only [h1, h2, h3, if_true]
        congr 2; omega
      · have h3 : ¬ k > i := by omega
        simp [h1, h3]
  | .lam x im d b, i, u, s, h => by
      simp only [lowFree, Bool.or_eq_false_iff] at h
      simp [sshift, openT, open_not_free d i u s h.1, open_not_free b (i+1) u (s+1) h.2]
  | .pi x im d b, i, u, s, h => by
      simp only [lowFree, Bool.or_eq_false_iff] at h
      simp [sshift, openT, open_not_free d i u s h.1, open_not_free b (i+1) u (s+1) h.2]
  | .app f a, i, u, s, h => by
      simp only [lowFree, Bool.or_eq_false_iff] at h
      simp [sshift, openT, open_not_free f i u s h.1, open_not_free a i u s h.2]
  | .letg ds b, i, u, s, h => by
      simp only [lowFree, Bool.or_eq_false_iff] at h
      simp [sshift, openT, openDefs_not_free ds (i + ds.len) u (s + ds.len) h.1,
        open_not_free b (i + ds.len) u (s + ds.len) h.2]
  | .neg a, i, u, s, h => by
      simp only [lowFree] at h
      simp [sshift, openT, open_not_free a i u s h]
  | .bin op a b, i, u, s, h => by
      simp only [lowFree, Bool.or_eq_false_iff] at h
      simp [sshift, openT, open_not_free a i u s h.1, open_not_free b i u s h.2]
  | .ite a b d, i, u, s, h => by
      simp only [lowFree, Bool.or_eq_false_iff] at h
      simp [sshift, openT, open_not_free a i u s h.1.1, open_not_free b i u s h.1.2,
        open_not_free d i u s h.2]
  | .type, i, u, s, _ | .int, i, u, s, _ | .bool, i, u, s, _ | .tt, i, u, s, _
  | .ff, i, u, s, _ | .lit _, i, u, s, _ => by simp [sshift, openT]
theorem openDefs_not_free : ∀ (ds : Defs) (i : Nat) (u : Tm) (s : Nat),
    lowFreeDefs ds i 1 = false → sshiftDefs i (-1) ds = some (openDefs ds i u s)
  | .nil, i, u, s, _ => by simp [sshiftDefs, openDefs]
  | .cons x a d r, i, u, s, h => by
      simp only [lowFreeDefs, Bool.or_eq_false_iff] at h
      simp [sshiftDefs, openDefs, open_not_free a i u s h.1.1, open_not_free d i u s h.1.2,
        openDefs_not_free r i u s h.2]
end

-- free variables of a shifted term
mutual
theorem freeAt_ushift : ∀ (t : Tm) (c a j : Nat),
    freeAt (ushift c a t) j =
      if j < c then freeAt t j else if j < c + a then false else freeAt t (j - a)
  | .var x i, c, a, j => by
      simp only [ushift]
      by_cases h : i ≥ c <;> by_cases h1 : j < c <;> by_cases h2 : j < c + a <;>
        simp only [h, h1, h2, if_true, if_false, freeAt] <;>
        (first
          | (rw [Bool.eq_iff_iff]; simp only [beq_iff_eq]; omega)
          | (simp only [beq_eq_false_iff_ne, ne_eq]; omega))
  | .hole id s, c, a, j => by
      simp only [ushift]; split <;> simp [freeAt]
  | .lam x im d b, c, a, j => by
      simp only [ushift, freeAt, freeAt_ushift d c a j, freeAt_ushift b (c+1) a (j+1)]
      by_cases h1 : j < c
      · have : j + 1 < c + 1 := by omega
        simp [h1, this]
      · by_cases h2 : j < c + a
        · have h3 : ¬ (j + 1 < c + 1) := by omega
          have h4 : j + 1 < c + 1 + a := by omega
          simp [h1, h2, h3, h4]
        · have h3 : ¬ (j + 1 < c + 1) := by omega
          have h4 : ¬ (j + 1 < c + 1 + a) := by omega
          have h5 : j + 1 - a = j - a + 1 := by omega
          simp [h1, h2, h3, h4, h5]
  | .pi x im d b, c, a, j => by
      simp only [ushift, freeAt, freeAt_ushift d c a j, freeAt_ushift b (c+1) a (j+1)]
      by_cases h1 : j < c
      · have : j + 1 < c + 1 := by omega
        simp [h1, this]
      · by_cases h2 : j < c + a
        · have h3 : ¬ (j + 1 < c + 1) := by omega
          have h4 : j + 1 < c + 1 + a := by omega
          simp [h1, h2, h3, h4]
        · have h3 : ¬ (j + 1 < c + 1) := by omega
          have h4 : ¬ (j + 1 < c + 1 + a) := by omega
          have h5 : j + 1 - a = j - a + 1 := by omega
          simp [h1, h2, h3, h4, h5]
  | .app f g, c, a, j => by
      simp only [ushift, freeAt, freeAt_ushift f c a j, freeAt_ushift g c a j]
      by_cases h1 : j < c <;> by_cases h2 : j < c + a <;> simp [h1, h2]
  | .letg ds b, c, a, j => by
      simp only [ushift, freeAt, ushiftDefs_len,
        freeAtDefs_ushiftDefs ds (c + ds.len) a (j + ds.len),
        freeAt_ushift b (c + ds.len) a (j + ds.len)]
      by_cases h1 : j < c
      · have : j + ds.len < c + ds.len := by omega
        simp [h1, this]
      · by_cases h2 : j < c + a
        · have h3 : ¬ (j + ds.len < c + ds.len) := by omega
          have h4 : j + ds.len < c + ds.len + a := by omega
          simp [h1, h2, h3, h4]
        · have h3 : ¬ (j + ds.len < c + ds.len) := by omega
          have h4 : ¬ (j + ds.len < c + ds.len + a) := by omega
          have h5 : j + ds.len - a = j - a + ds.len := by omega
          simp [h1, h2, h3, h4, h5]
  | .neg t, c, a, j => by simp only [ushift, freeAt, freeAt_ushift t c a j]
  | .bin op t u, c, a, j => by
      simp only [ushift, freeAt, freeAt_ushift t c a j, freeAt_ushift u c a j]
      by_cases h1 : j < c <;> by_cases h2 : j < c + a <;> simp [h1, h2]
  | .ite t u v, c, a, j => by
      simp only [ushift, freeAt, freeAt_ushift t c a j, freeAt_ushift u c a j,
        freeAt_ushift v c a j]
      by_cases h1 : j < c <;> by_cases h2 : j < c + a <;> simp [h1, h2]
  | .type, c, a, j | .int, c, a, j | .bool, c, a, j | .tt, c, a, j | .ff, c, a, j
  | .lit _, c, a, j => by simp [ushift, freeAt]
theorem freeAtDefs_ushiftDefs : ∀ (ds : Defs) (c a j : Nat),
    freeAtDefs (ushiftDefs c a ds) j =
      if j < c then freeAtDefs ds j else if j < c + a then false else freeAtDefs ds (j - a)
  | .nil, c, a, j => by simp [ushiftDefs, freeAtDefs]
  | .cons x t u r, c, a, j => by
      simp only [ushiftDefs, freeAtDefs, freeAt_ushift t c a j, freeAt_ushift u c a j,
        freeAtDefs_ushiftDefs r c a j]
      by_cases h1 : j < c <;> by_cases h2 : j < c + a <;> simp [h1, h2]
end

-- free variables of an opened term
mutual
theorem freeAt_openT : ∀ (t : Tm) (i : Nat) (u : Tm) (s j : Nat),
    freeAt (openT t i u s) j =
      ((decide (j < i) && freeAt t j) || (decide (i ≤ j) && freeAt t (j+1))
        || (freeAt t i && decide (s ≤ j) && freeAt u (j - s)))
  | .var x k, i, u, s, j => by
      simp only [openT]
      by_cases h : k = i
      · subst h
        simp only [if_true, freeAt_ushift, freeAt, beq_self_eq_true, Bool.true_and]
        have e1 : (decide (j < k) && (k == j)) = false := by
          by_cases h3 : j < k <;> simp [h3]; omega
        have e2 : (decide (k ≤ j) && (k == j + 1)) = false := by
          by_cases h3 : k ≤ j <;> simp [h3]; omega
        rw [e1, e2]
        by_cases h1 : j < s
        · have h2 : ¬ (s ≤ j) := by omega
          simp [h1, h2]
        · have h2 : s ≤ j := by omega
          simp [h1, h2]
      · have hki : (k == i) = false := by simp [h]
        by_cases h1 : k > i
        · simp only [h, h1, if_true, if_false, freeAt, hki, Bool.false_and, Bool.or_false]
          by_cases h3 : j < i
          · have h4 : ¬ (i ≤ j) := by omega
            have h5 : (k - 1 == j) = false := by simp; omega
            have h6 : (k == j) = false := by simp; omega
            simp [h3, h4, h5, h6]
          · have h4 : i ≤ j := by omega
            have h5 : (k - 1 == j) = (k == j + 1) := by
              rw [Bool.eq_iff_iff]; simp only [beq_iff_eq]; omega
            simp [h3, h4, h5]
        · simp only [h, h1, if_false, freeAt, hki, Bool.false_and, Bool.or_false]
          by_cases h3 : j < i
          · have h4 : ¬ (i ≤ j) := by omega
            simp [h3, h4]
          · have h4 : i ≤ j := by omega
            have h5 : (k == j) = false := by simp; omega
            have h6 : (k == j + 1) = false := by simp; omega
            simp [h3, h4, h5, h6]
  | .hole id k, i, u, s, j => by
      simp only [openT]; split <;> simp [freeAt]
  | .lam x im d b, i, u, s, j => by
      simp only [openT, freeAt, freeAt_openT d i u s j, freeAt_openT b (i+1) u (s+1) (j+1)]
      have e1 : decide (j + 1 < i + 1) = decide (j < i) := by simp
      have e2 : decide (i + 1 ≤ j + 1) = decide (i ≤ j) := by simp
      have e3 : decide (s + 1 ≤ j + 1) = decide (s ≤ j) := by simp
      have e4 : j + 1 - (s + 1) = j - s := by omega
      rw [e1, e2, e3, e4]
      simp only [Bool.and_or_distrib_left, Bool.and_or_distrib_right]
      ac_rfl
  | .pi x im d b, i, u, s, j => by
      simp only [openT, freeAt, freeAt_openT d i u s j, freeAt_openT b (i+1) u (s+1) (j+1)]
      have e1 : decide (j + 1 < i + 1) = decide (j < i) := by simp
      have e2 : decide (i + 1 ≤ j + 1) = decide (i ≤ j) := by simp
      have e3 : decide (s + 1 ≤ j + 1) = decide (s ≤ j) := by simp
      have e4 : j + 1 - (s + 1) = j - s := by omega
      rw [e1, e2, e3, e4]
      simp only [Bool.and_or_distrib_left, Bool.and_or_distrib_right]
      ac_rfl
  | .app f a, i, u, s, j => by
      simp only [openT, freeAt, freeAt_openT f i u s j, freeAt_openT a i u s j]
      simp only [Bool.and_or_distrib_left, Bool.and_or_distrib_right]
      ac_rfl
  | .letg ds b, i, u, s, j => by
      simp only [openT, freeAt, openDefs_len,
        freeAtDefs_openDefs ds (i + ds.len) u (s + ds.len) (j + ds.len),
        freeAt_openT b (i + ds.len) u (s + ds.len) (j + ds.len)]
      have e1 : decide (j + ds.len < i + ds.len) = decide (j < i) := by simp
      have e2 : decide (i + ds.len ≤ j + ds.len) = decide (i ≤ j) := by simp
      have e3 : decide (s + ds.len ≤ j + ds.len) = decide (s ≤ j) := by simp
      have e4 : j + ds.len - (s + ds.len) = j - s := by omega
      have e5 : j + ds.len + 1 = j + 1 + ds.len := by omega
      rw [e1, e2, e3, e4, e5]
      simp only [Bool.and_or_distrib_left, Bool.and_or_distrib_right]
      ac_rfl
  | .neg a, i, u, s, j => by simp only [openT, freeAt, freeAt_openT a i u s j]
  | .bin op a b, i, u, s, j => by
      simp only [openT, freeAt, freeAt_openT a i u s j, freeAt_openT b i u s j]
      simp only [Bool.and_or_distrib_left, Bool.and_or_distrib_right]
      ac_rfl
  | .ite a b d, i, u, s, j => by
      simp only [openT, freeAt, freeAt_openT a i u s j, freeAt_openT b i u s j,
        freeAt_openT d i u s j]
      simp only [Bool.and_or_distrib_left, Bool.and_or_distrib_right]
      ac_rfl
  | .type, i, u, s, j | .int, i, u, s, j | .bool, i, u, s, j | .tt, i, u, s, j
  | .ff, i, u, s, j | .lit _, i, u, s, j => by simp [openT, freeAt]
theorem freeAtDefs_openDefs : ∀ (ds : Defs) (i : Nat) (u : Tm) (s j : Nat),
    freeAtDefs (openDefs ds i u s) j =
      ((decide (j < i) && freeAtDefs ds j) || (decide (i ≤ j) && freeAtDefs ds (j+1))
        || (freeAtDefs ds i && decide (s ≤ j) && freeAt u (j - s)))
  | .nil, i, u, s, j => by simp [openDefs, freeAtDefs]
  | .cons x a d r, i, u, s, j => by
      simp only [openDefs, freeAtDefs, freeAt_openT a i u s j, freeAt_openT d i u s j,
        freeAtDefs_openDefs r i u s j]
      simp only [Bool.and_or_distrib_left, Bool.and_or_distrib_right]
      ac_rfl
end

-- opening right after lifting at the same index is the identity
mutual
theorem open_ushift_cancel : ∀ (t : Tm) (i : Nat) (u : Tm) (s : Nat),
    openT (ushift i 1 t) i u s = t
  | .var x k, i, u, s => by
      simp only [ushift]
      by_cases h : k ≥ i
      · have h1 : k + 1 ≠ i := by omega
        have h2 : k + 1 > i := by omega
        simp [h, openT, h1, h2]
      · have h1 : k ≠ i := by omega
        have h2 : ¬ k > i := by omega
        simp [h, openT, h1, h2]
  | .hole id k, i, u, s => by
      simp only [ushift]
      by_cases h : k ≥ i
      · have h2 : k + 1 > i := by omega
        simp [h, openT, h2]
      · have h2 : ¬ k > i := by omega
        simp [h, openT, h2]
  | .lam x im d b, i, u, s => by
      simp [ushift, openT, open_ushift_cancel d i u s, open_ushift_cancel b (i+1) u (s+1)]
  | .pi x im d b, i, u, s => by
      simp [ushift, openT, open_ushift_cancel d i u s, open_ushift_cancel b (i+1) u (s+1)]
  | .app f a, i, u, s => by
      simp [ushift, openT, open_ushift_cancel f i u s, open_ushift_cancel a i u s]
  | .letg ds b, i, u, s => by
      simp [ushift, openT, ushiftDefs_len, openDefs_ushiftDefs_cancel ds (i + ds.len) u (s + ds.len),
        open_ushift_cancel b (i + ds.len) u (s + ds.len)]
  | .neg a, i, u, s => by simp [ushift, openT, open_ushift_cancel a i u s]
  | .bin op a b, i, u, s => by
      simp [ushift, openT, open_ushift_cancel a i u s, open_ushift_cancel b i u s]
  | .ite a b d, i, u, s => by
      simp [ushift, openT, open_ushift_cancel a i u s, open_ushift_cancel b i u s,
        open_ushift_cancel d i u s]
  | .type, i, u, s | .int, i, u, s | .bool, i, u, s | .tt, i, u, s | .ff, i, u, s
  | .lit _, i, u, s => by simp [ushift, openT]
theorem openDefs_ushiftDefs_cancel : ∀ (ds : Defs) (i : Nat) (u : Tm) (s : Nat),
    openDefs (ushiftDefs i 1 ds) i u s = ds
  | .nil, i, u, s => by simp [ushiftDefs, openDefs]
  | .cons x a d r, i, u, s => by
      simp [ushiftDefs, openDefs, open_ushift_cancel a i u s, open_ushift_cancel d i u s,
        openDefs_ushiftDefs_cancel r i u s]
end

-- the list the driver reports (`freeVars`) and the predicate the theorems use (`freeAt`) agree
mutual
theorem mem_freeVars : ∀ (t : Tm) (c j : Nat), j ∈ freeVars t c ↔ freeAt t (j + c) = true
  | .var x i, c, j => by
      simp only [freeVars, freeAt, beq_iff_eq]
      by_cases h : i ≥ c
      · simp only [h, if_true, List.mem_singleton]; omega
      · simp only [h, if_false, List.not_mem_nil, false_iff]; omega
  | .hole id s, c, j => by simp [freeVars, freeAt]
  | .lam x im d b, c, j => by
      simp only [freeVars, freeAt, List.mem_append, Bool.or_eq_true, mem_freeVars d c j,
        mem_freeVars b (c+1) j]
      rw [show j + (c + 1) = j + c + 1 by omega]
  | .pi x im d b, c, j => by
      simp only [freeVars, freeAt, List.mem_append, Bool.or_eq_true, mem_freeVars d c j,
        mem_freeVars b (c+1) j]
      rw [show j + (c + 1) = j + c + 1 by omega]
  | .app f a, c, j => by
      simp only [freeVars, freeAt, List.mem_append, Bool.or_eq_true, mem_freeVars f c j,
        mem_freeVars a c j]
  | .letg ds b, c, j => by
      simp only [freeVars, freeAt, List.mem_append, Bool.or_eq_true,
        mem_freeVarsDefs ds (c + ds.len) j, mem_freeVars b (c + ds.len) j]
      rw [show j + (c + ds.len) = j + c + ds.len by omega]
  | .neg a, c, j => by simp only [freeVars, freeAt, mem_freeVars a c j]
  | .bin op a b, c, j => by
      simp only [freeVars, freeAt, List.mem_append, Bool.or_eq_true, mem_freeVars a c j,
        mem_freeVars b c j]
  | .ite a b d, c, j => by
      simp only [freeVars, freeAt, List.mem_append, Bool.or_eq_true, mem_freeVars a c j,
        mem_freeVars b c j, mem_freeVars d c j]
  | .type, c, j | .int, c, j | .bool, c, j | .tt, c, j | .ff, c, j | .lit _, c, j => by
      simp [freeVars, freeAt]
theorem mem_freeVarsDefs : ∀ (ds : Defs) (c j : Nat),
    j ∈ freeVarsDefs ds c ↔ freeAtDefs ds (j + c) = true
  | .nil, c, j => by simp [freeVarsDefs, freeAtDefs]
  | .cons x a d r, c, j => by
      simp only [freeVarsDefs, freeAtDefs, List.mem_append, Bool.or_eq_true, mem_freeVars a c j,
        mem_freeVars d c j, mem_freeVarsDefs r c j]
end
-- lifting commutes with lifting at a lower cutoff
mutual
theorem ushift_comm : ∀ (t : Tm) (c d a b : Nat), c ≤ d →
    ushift c a (ushift d b t) = ushift (d + a) b (ushift c a t)
  | .var x i, c, d, a, b, h => by
      simp only [ushift]
      by_cases h1 : i ≥ d
      · have h2 : i ≥ c := by omega
        have h3 : i + b ≥ c := by omega
        have h4 : i + a ≥ d + a := by omega
        simp only [h1, h2, if_true, ushift, h3, h4]
        congr 1; omega
      · by_cases h2 : i ≥ c
        · have h4 : ¬ (i + a ≥ d + a) := by omega
          simp only [h1, h2, if_true, if_false, ushift, h4]
        · have h4 : ¬ (i ≥ d + a) := by omega
          simp only [h1, h2, if_false, ushift, h4]
  | .hole id i, c, d, a, b, h => by
      simp only [ushift]
      by_cases h1 : i ≥ d
      · have h2 : i ≥ c := by omega
        have h3 : i + b ≥ c := by omega
        have h4 : i + a ≥ d + a := by omega
        simp only [h1, h2, if_true, ushift, h3, h4]
        congr 1; omega
      · by_cases h2 : i ≥ c
        · have h4 : ¬ (i + a ≥ d + a) := by omega
          simp only [h1, h2, if_true, if_false, ushift, h4]
        · have h4 : ¬ (i ≥ d + a) := by omega
          simp only [h1, h2, if_false, ushift, h4]
  | .lam x im t e, c, d, a, b, h => by
      have e1 : d + a + 1 = d + 1 + a := by omega
      simp only [ushift, ushift_comm t c d a b h, ushift_comm e (c+1) (d+1) a b (by omega), e1]
  | .pi x im t e, c, d, a, b, h => by
      have e1 : d + a + 1 = d + 1 + a := by omega
      simp only [ushift, ushift_comm t c d a b h, ushift_comm e (c+1) (d+1) a b (by omega), e1]
  | .app f g, c, d, a, b, h => by
      simp only [ushift, ushift_comm f c d a b h, ushift_comm g c d a b h]
  | .letg ds e, c, d, a, b, h => by
      have e1 : d + a + ds.len = d + ds.len + a := by omega
      simp only [ushift, ushiftDefs_len,
        ushiftDefs_comm ds (c + ds.len) (d + ds.len) a b (by omega),
        ushift_comm e (c + ds.len) (d + ds.len) a b (by omega), e1]
  | .neg t, c, d, a, b, h => by simp only [ushift, ushift_comm t c d a b h]
  | .bin op t u, c, d, a, b, h => by
      simp only [ushift, ushift_comm t c d a b h, ushift_comm u c d a b h]
  | .ite t u v, c, d, a, b, h => by
      simp only [ushift, ushift_comm t c d a b h, ushift_comm u c d a b h, ushift_comm v c d a b h]
  | .type, _, _, _, _, _ | .int, _, _, _, _, _ | .bool, _, _, _, _, _ | .tt, _, _, _, _, _
  | .ff, _, _, _, _, _ | .lit _, _, _, _, _, _ => by simp only [ushift]
theorem ushiftDefs_comm : ∀ (ds : Defs) (c d a b : Nat), c ≤ d →
    ushiftDefs c a (ushiftDefs d b ds) = ushiftDefs (d + a) b (ushiftDefs c a ds)
  | .nil, _, _, _, _, _ => by simp only [ushiftDefs]
  | .cons x t u r, c, d, a, b, h => by
      simp only [ushiftDefs, ushift_comm t c d a b h, ushift_comm u c d a b h,
        ushiftDefs_comm r c d a b h]
end

-- two lifts whose ranges touch merge
mutual
theorem ushift_ushift_mid : ∀ (t : Tm) (c d a b : Nat), d ≤ c → c ≤ d + b →
    ushift c a (ushift d b t) = ushift d (a + b) t
  | .var x i, c, d, a, b, h, h' => by
      simp only [ushift]
      by_cases h1 : i ≥ d
      · have h3 : i + b ≥ c := by omega
        simp only [h1, if_true, ushift, h3]
        congr 1; omega
      · have h3 : ¬ (i ≥ c) := by omega
        simp only [h1, if_false, ushift, h3]
  | .hole id i, c, d, a, b, h, h' => by
      simp only [ushift]
      by_cases h1 : i ≥ d
      · have h3 : i + b ≥ c := by omega
        simp only [h1, if_true, ushift, h3]
        congr 1; omega
      · have h3 : ¬ (i ≥ c) := by omega
        simp only [h1, if_false, ushift, h3]
  | .lam x im t e, c, d, a, b, h, h' => by
      simp only [ushift, ushift_ushift_mid t c d a b h h',
        ushift_ushift_mid e (c+1) (d+1) a b (by omega) (by omega)]
  | .pi x im t e, c, d, a, b, h, h' => by
      simp only [ushift, ushift_ushift_mid t c d a b h h',
        ushift_ushift_mid e (c+1) (d+1) a b (by omega) (by omega)]
  | .app f g, c, d, a, b, h, h' => by
      simp only [ushift, ushift_ushift_mid f c d a b h h', ushift_ushift_mid g c d a b h h']
  | .letg ds e, c, d, a, b, h, h' => by
      simp only [ushift, ushiftDefs_len,
        ushiftDefs_ushiftDefs_mid ds (c + ds.len) (d + ds.len) a b (by omega) (by omega),
        ushift_ushift_mid e (c + ds.len) (d + ds.len) a b (by omega) (by omega)]
  | .neg t, c, d, a, b, h, h' => by simp only [ushift, ushift_ushift_mid t c d a b h h']
  | .bin op t u, c, d, a, b, h, h' => by
      simp only [ushift, ushift_ushift_mid t c d a b h h', ushift_ushift_mid u c d a b h h']
  | .ite t u v, c, d, a, b, h, h' => by
      simp only [ushift, ushift_ushift_mid t c d a b h h', ushift_ushift_mid u c d a b h h',
        ushift_ushift_mid v c d a b h h']
  | .type, _, _, _, _, _, _ | .int, _, _, _, _, _, _ | .bool, _, _, _, _, _, _
  | .tt, _, _, _, _, _, _ | .ff, _, _, _, _, _, _ | .lit _, _, _, _, _, _, _ => by
      simp only [ushift]
theorem ushiftDefs_ushiftDefs_mid : ∀ (ds : Defs) (c d a b : Nat), d ≤ c → c ≤ d + b →
    ushiftDefs c a (ushiftDefs d b ds) = ushiftDefs d (a + b) ds
  | .nil, _, _, _, _, _, _ => by simp only [ushiftDefs]
  | .cons x t u r, c, d, a, b, h, h' => by
      simp only [ushiftDefs, ushift_ushift_mid t c d a b h h', ushift_ushift_mid u c d a b h h',
        ushiftDefs_ushiftDefs_mid r c d a b h h']
end
-- lifting below the opened index commutes with opening
mutual
theorem open_ushift_low : ∀ (t : Tm) (u : Tm) (i c a s : Nat), c ≤ i → c ≤ s →
    ushift c a (openT t i u s) = openT (ushift c a t) (i + a) u (s + a)
  | .var x k, u, i, c, a, s, h, h' => by
      simp only [openT, ushift]
      by_cases h1 : k = i
      · subst h1
        have h2 : k ≥ c := h
        simp only [if_true, h2, openT]
        rw [ushift_ushift_mid u c 0 a s (by omega) (by omega), Nat.add_comm a s]
      · by_cases h2 : k > i
        · have h3 : k ≥ c := by omega
          have h4 : k + a ≠ i + a := by omega
          have h5 : k + a > i + a := by omega
          have h6 : k - 1 ≥ c := by omega
          simp only [h1, h2, h3, h4, h5, h6, if_true, if_false, openT, ushift]
          congr 1; omega
        · by_cases h3 : k ≥ c
          · have h4 : k + a ≠ i + a := by omega
            have h5 : ¬ (k + a > i + a) := by omega
            simp only [h1, h2, h3, h4, h5, if_true, if_false, openT, ushift]
          · have h4 : k ≠ i + a := by omega
            have h5 : ¬ (k > i + a) := by omega
            simp only [h1, h2, h3, h4, h5, if_false, openT, ushift]
  | .hole id k, u, i, c, a, s, h, h' => by
      simp only [openT, ushift]
      by_cases h2 : k > i
      · have h3 : k ≥ c := by omega
        have h5 : k + a > i + a := by omega
        have h6 : k - 1 ≥ c := by omega
        simp only [h2, h3, h5, h6, if_true, openT, ushift]
        congr 1; omega
      · by_cases h3 : k ≥ c
        · have h5 : ¬ (k + a > i + a) := by omega
          simp only [h2, h3, h5, if_true, if_false, openT, ushift]
        · have h5 : ¬ (k > i + a) := by omega
          simp only [h2, h3, h5, if_false, openT, ushift]
  | .lam x im d b, u, i, c, a, s, h, h' => by
      have e1 : i + a + 1 = i + 1 + a := by omega
      have e2 : s + a + 1 = s + 1 + a := by omega
      simp only [openT, ushift, open_ushift_low d u i c a s h h',
        open_ushift_low b u (i+1) (c+1) a (s+1) (by omega) (by omega), e1, e2]
  | .pi x im d b, u, i, c, a, s, h, h' => by
      have e1 : i + a + 1 = i + 1 + a := by omega
      have e2 : s + a + 1 = s + 1 + a := by omega
      simp only [openT, ushift, open_ushift_low d u i c a s h h',
        open_ushift_low b u (i+1) (c+1) a (s+1) (by omega) (by omega), e1, e2]
  | .app f g, u, i, c, a, s, h, h' => by
      simp only [openT, ushift, open_ushift_low f u i c a s h h', open_ushift_low g u i c a s h h']
  | .letg ds b, u, i, c, a, s, h, h' => by
      have e1 : i + a + ds.len = i + ds.len + a := by omega
      have e2 : s + a + ds.len = s + ds.len + a := by omega
      simp only [openT, ushift, openDefs_len, ushiftDefs_len,
        openDefs_ushiftDefs_low ds u (i + ds.len) (c + ds.len) a (s + ds.len) (by omega) (by omega),
        open_ushift_low b u (i + ds.len) (c + ds.len) a (s + ds.len) (by omega) (by omega), e1, e2]
  | .neg t, u, i, c, a, s, h, h' => by simp only [openT, ushift, open_ushift_low t u i c a s h h']
  | .bin op t v, u, i, c, a, s, h, h' => by
      simp only [openT, ushift, open_ushift_low t u i c a s h h', open_ushift_low v u i c a s h h']
  | .ite t v w, u, i, c, a, s, h, h' => by
      simp only [openT, ushift, open_ushift_low t u i c a s h h', open_ushift_low v u i c a s h h',
        open_ushift_low w u i c a s h h']
  | .type, _, _, _, _, _, _, _ | .int, _, _, _, _, _, _, _ | .bool, _, _, _, _, _, _, _
  | .tt, _, _, _, _, _, _, _ | .ff, _, _, _, _, _, _, _ | .lit _, _, _, _, _, _, _, _ => by
      simp only [openT, ushift]
theorem openDefs_ushiftDefs_low : ∀ (ds : Defs) (u : Tm) (i c a s : Nat), c ≤ i → c ≤ s →
    ushiftDefs c a (openDefs ds i u s) = openDefs (ushiftDefs c a ds) (i + a) u (s + a)
  | .nil, _, _, _, _, _, _, _ => by simp only [openDefs, ushiftDefs]
  | .cons x t v r, u, i, c, a, s, h, h' => by
      simp only [openDefs, ushiftDefs, open_ushift_low t u i c a s h h',
        open_ushift_low v u i c a s h h', openDefs_ushiftDefs_low r u i c a s h h']
end

-- lifting above the opened index commutes with opening (hole-free `t`)
mutual
theorem open_ushift_high : ∀ (t : Tm) (u : Tm) (i c a s : Nat), t.holeFree = true → i ≤ c →
    ushift c a (openT t i u s) = openT (ushift (c + 1) a t) i (ushift (c - s) a u) s
  | .var x k, u, i, c, a, s, _, h => by
      simp only [openT, ushift]
      by_cases h1 : k = i
      · subst h1
        have h2 : ¬ (k ≥ c + 1) := by omega
        simp only [if_true, h2, if_false, openT]
        by_cases hs : s ≤ c
        · have := ushift_comm u 0 (c - s) s a (by omega)
          rw [this, show c - s + s = c by omega]
        · rw [show c - s = 0 by omega, ushift_ushift, ushift_ushift_mid u c 0 a s (by omega) (by omega),
            Nat.add_comm]
      · by_cases h2 : k > i
        · by_cases h3 : k ≥ c + 1
          · have h4 : k + a ≠ i := by omega
            have h5 : k + a > i := by omega
            have h6 : k - 1 ≥ c := by omega
            simp only [h1, h2, h3, h4, h5, h6, if_true, if_false, openT, ushift]
            congr 1; omega
          · have h6 : ¬ (k - 1 ≥ c) := by omega
            simp only [h1, h2, h3, h6, if_true, if_false, openT, ushift]
        · have h3 : ¬ (k ≥ c + 1) := by omega
          have h6 : ¬ (k ≥ c) := by omega
          simp only [h1, h2, h3, h6, if_false, openT, ushift]
  | .hole id k, u, i, c, a, s, hf, h => by simp [Tm.holeFree] at hf
  | .lam x im d b, u, i, c, a, s, hf, h => by
      simp only [Tm.holeFree, Bool.and_eq_true] at hf
      have e1 : c + 1 - (s + 1) = c - s := by omega
      simp only [openT, ushift, open_ushift_high d u i c a s hf.1 h,
        open_ushift_high b u (i+1) (c+1) a (s+1) hf.2 (by omega), e1]
  | .pi x im d b, u, i, c, a, s, hf, h => by
      simp only [Tm.holeFree, Bool.and_eq_true] at hf
      have e1 : c + 1 - (s + 1) = c - s := by omega
      simp only [openT, ushift, open_ushift_high d u i c a s hf.1 h,
        open_ushift_high b u (i+1) (c+1) a (s+1) hf.2 (by omega), e1]
  | .app f g, u, i, c, a, s, hf, h => by
      simp only [Tm.holeFree, Bool.and_eq_true] at hf
      simp only [openT, ushift, open_ushift_high f u i c a s hf.1 h,
        open_ushift_high g u i c a s hf.2 h]
  | .letg ds b, u, i, c, a, s, hf, h => by
      simp only [Tm.holeFree, Bool.and_eq_true] at hf
      have e1 : c + ds.len - (s + ds.len) = c - s := by omega
      have e2 : c + 1 + ds.len = c + ds.len + 1 := by omega
      simp only [openT, ushift, openDefs_len, ushiftDefs_len, e2,
        openDefs_ushiftDefs_high ds u (i + ds.len) (c + ds.len) a (s + ds.len) hf.1 (by omega),
        open_ushift_high b u (i + ds.len) (c + ds.len) a (s + ds.len) hf.2 (by omega), e1]
  | .neg t, u, i, c, a, s, hf, h => by
      simp only [Tm.holeFree] at hf
      simp only [openT, ushift, open_ushift_high t u i c a s hf h]
  | .bin op t v, u, i, c, a, s, hf, h => by
      simp only [Tm.holeFree, Bool.and_eq_true] at hf
      simp only [openT, ushift, open_ushift_high t u i c a s hf.1 h,
        open_ushift_high v u i c a s hf.2 h]
  | .ite t v w, u, i, c, a, s, hf, h => by
      simp only [Tm.holeFree, Bool.and_eq_true] at hf
      simp only [openT, ushift, open_ushift_high t u i c a s hf.1.1 h,
        open_ushift_high v u i c a s hf.1.2 h, open_ushift_high w u i c a s hf.2 h]
  | .type, _, _, _, _, _, _, _ | .int, _, _, _, _, _, _, _ | .bool, _, _, _, _, _, _, _
  | .tt, _, _, _, _, _, _, _ | .ff, _, _, _, _, _, _, _ | .lit _, _, _, _, _, _, _, _ => by
      simp only [openT, ushift]
theorem openDefs_ushiftDefs_high : ∀ (ds : Defs) (u : Tm) (i c a s : Nat), ds.holeFree = true →
    i ≤ c →
    ushiftDefs c a (openDefs ds i u s) = openDefs (ushiftDefs (c + 1) a ds) i (ushift (c - s) a u) s
  | .nil, _, _, _, _, _, _, _ => by simp only [openDefs, ushiftDefs]
  | .cons x t v r, u, i, c, a, s, hf, h => by
      simp only [Defs.holeFree, Bool.and_eq_true] at hf
      simp only [openDefs, ushiftDefs, open_ushift_high t u i c a s hf.1.1 h,
        open_ushift_high v u i c a s hf.1.2 h, openDefs_ushiftDefs_high r u i c a s hf.2 h]
end
-- the substitution lemma, generalised over the binder depth `n`
mutual
theorem open_open_gen : ∀ (t u v : Tm) (i j n : Nat), i ≤ j →
    openT (openT t (i + n) u n) (j + n) v n =
      openT (openT t (j + n + 1) (ushift i 1 v) n) (i + n) (openT u j v 0) n
  | .var x k, u, v, i, j, n, h => by
      by_cases h1 : k = i + n
      · subst h1
        have h2 : i + n ≠ j + n + 1 := by omega
        have h3 : ¬ (i + n > j + n + 1) := by omega
        simp only [openT, if_true, h2, h3, if_false]
        have := open_ushift_low u v j 0 n 0 (Nat.zero_le _) (Nat.zero_le _)
        rw [Nat.zero_add] at this
        exact this.symm
      · by_cases h2 : k = j + n + 1
        · subst h2
          have h3 : j + n + 1 > i + n := by omega
          have h4 : j + n + 1 - 1 = j + n := by omega
          simp only [openT, h1, h3, h4, if_true, if_false]
          rw [ushift_comm v 0 i n 1 (Nat.zero_le _), open_ushift_cancel]
        · by_cases h3 : k > j + n + 1
          · have h4 : k > i + n := by omega
            have h5 : k - 1 ≠ j + n := by omega
            have h6 : k - 1 > j + n := by omega
            have h7 : k - 1 ≠ i + n := by omega
            have h8 : k - 1 > i + n := by omega
            simp only [openT, h1, h2, h3, h4, h5, h6, h7, h8, if_true, if_false]
          · by_cases h4 : k > i + n
            · have h5 : k - 1 ≠ j + n := by omega
              have h6 : ¬ (k - 1 > j + n) := by omega
              simp only [openT, h1, h2, h3, h4, h5, h6, if_true, if_false]
            · have h5 : k ≠ j + n := by omega
              have h6 : ¬ (k > j + n) := by omega
              simp only [openT, h1, h2, h3, h4, h5, h6, if_false]
  | .hole id k, u, v, i, j, n, h => by
      by_cases h3 : k > j + n + 1
      · have h4 : k > i + n := by omega
        have h6 : k - 1 > j + n := by omega
        have h8 : k - 1 > i + n := by omega
        simp only [openT, h3, h4, h6, h8, if_true]
      · by_cases h4 : k > i + n
        · have h6 : ¬ (k - 1 > j + n) := by omega
          simp only [openT, h3, h4, h6, if_true, if_false]
        · have h6 : ¬ (k > j + n) := by omega
          simp only [openT, h3, h4, h6, if_false]
  | .lam x im d b, u, v, i, j, n, h => by
      have e1 : i + n + 1 = i + (n + 1) := by omega
      have e2 : j + n + 1 = j + (n + 1) := by omega
      simp only [openT, open_open_gen d u v i j n h]
      rw [e1, e2, open_open_gen b u v i j (n+1) h]
  | .pi x im d b, u, v, i, j, n, h => by
      have e1 : i + n + 1 = i + (n + 1) := by omega
      have e2 : j + n + 1 = j + (n + 1) := by omega
      simp only [openT, open_open_gen d u v i j n h]
      rw [e1, e2, open_open_gen b u v i j (n+1) h]
  | .app f g, u, v, i, j, n, h => by
      simp only [openT, open_open_gen f u v i j n h, open_open_gen g u v i j n h]
  | .letg ds b, u, v, i, j, n, h => by
      have e1 : i + n + ds.len = i + (n + ds.len) := by omega
      have e2 : j + n + ds.len = j + (n + ds.len) := by omega
      have e3 : j + n + 1 + ds.len = j + (n + ds.len) + 1 := by omega
      simp only [openT, openDefs_len]
      rw [e1, e2, e3, openDefs_openDefs_gen ds u v i j (n + ds.len) h,
        open_open_gen b u v i j (n + ds.len) h]
  | .neg t, u, v, i, j, n, h => by simp only [openT, open_open_gen t u v i j n h]
  | .bin op t w, u, v, i, j, n, h => by
      simp only [openT, open_open_gen t u v i j n h, open_open_gen w u v i j n h]
  | .ite t w z, u, v, i, j, n, h => by
      simp only [openT, open_open_gen t u v i j n h, open_open_gen w u v i j n h,
        open_open_gen z u v i j n h]
  | .type, _, _, _, _, _, _ | .int, _, _, _, _, _, _ | .bool, _, _, _, _, _, _
  | .tt, _, _, _, _, _, _ | .ff, _, _, _, _, _, _ | .lit _, _, _, _, _, _, _ => by
      simp only [openT]
theorem openDefs_openDefs_gen : ∀ (ds : Defs) (u v : Tm) (i j n : Nat), i ≤ j →
    openDefs (openDefs ds (i + n) u n) (j + n) v n =
      openDefs (openDefs ds (j + n + 1) (ushift i 1 v) n) (i + n) (openT u j v 0) n
  | .nil, _, _, _, _, _, _ => by simp only [openDefs]
  | .cons x t w r, u, v, i, j, n, h => by
      simp only [openDefs, open_open_gen t u v i j n h, open_open_gen w u v i j n h,
        openDefs_openDefs_gen r u v i j n h]
end

theorem open_open (t u v : Tm) (i j : Nat) (h : i ≤ j) :
    openT (openT t i u 0) j v 0 = openT (openT t (j + 1) (ushift i 1 v) 0) i (openT u j v 0) 0 :=
  open_open_gen t u v i j 0 h
