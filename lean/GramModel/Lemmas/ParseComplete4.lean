import GramModel.Lemmas.ParseComplete3

/-! # General completeness, stages 2 and 3: binders, arrows, conditionals, definitions -/

namespace PModel
open Unamb

section Packrat
variable {toks : Array PTok}

theorem lambda_ok {a : Nat} {x : Name} {r : PResult} (h0 : KAt toks a (.identifier x))
    (h1 : KAt toks (a + 1) .thickArrow) (h : RetN toks .term (a + 1 + 1) r) :
    RetN toks .lambda a
      ⟨.mk (span (tokenRange toks a) r.term.range) false
        (.lam ⟨tokenRange toks a, x⟩ false .none r.term) [], r.next, r.confident⟩ := by
  refine RetN.lift [(.term, a + 1 + 1, r)] (.cons h .nil) (fun rec hh => ?_)
  show Ret (parseLambda toks rec a) _
  unfold parseLambda
  simp only [consumeIdent_ok h0]
  rw [consume0_ok h1]
  exact Ret.bind hh.head (Ret.pure _)

theorem lambdaImplicit_ok {a : Nat} {x : Name} {r : PResult} (h0 : KAt toks a .leftCurly)
    (h1 : KAt toks (a + 1) (.identifier x)) (h2 : KAt toks (a + 1 + 1) .rightCurly)
    (h3 : KAt toks (a + 1 + 1 + 1) .thickArrow) (h : RetN toks .term (a + 1 + 1 + 1 + 1) r) :
    RetN toks .lambdaImplicit a
      ⟨.mk (span (tokenRange toks a) r.term.range) false
        (.lam ⟨tokenRange toks (a + 1), x⟩ true .none r.term) [], r.next, r.confident⟩ := by
  refine RetN.lift [(.term, a + 1 + 1 + 1 + 1, r)] (.cons h .nil) (fun rec hh => ?_)
  show Ret (parseLambdaImplicit toks rec a) _
  unfold parseLambdaImplicit
  rw [consume0_ok h0]
  simp only [consumeIdent_ok h1]
  rw [consume0_ok h2, consume0_ok h3]
  exact Ret.bind hh.head (Ret.pure _)

theorem let_plain_ok {a : Nat} {x : Name} {t : TerminatorType} {r2 r3 : PResult}
    (hx : KAt toks a (.identifier x)) (he : KAt toks (a + 1) .equals)
    (h2 : RetN toks .term (a + 1 + 1) r2)
    (ht : KAt toks r2.next (.terminator t)) (h3 : RetN toks .term (r2.next + 1) r3) :
    RetN toks .let_ a
      ⟨.mk (span (tokenRange toks a) r3.term.range) false
        (.let_ ⟨tokenRange toks a, x⟩ .none r2.term r3.term) [], r3.next, r3.confident⟩ := by
  obtain ⟨t2, n2, c2⟩ := r2
  obtain ⟨t3, n3, c3⟩ := r3
  dsimp only at *
  refine RetN.lift [(.term, a + 1 + 1, ⟨t2, n2, c2⟩), (.term, n2 + 1, ⟨t3, n3, c3⟩)]
    (.cons h2 (.cons h3 .nil)) (fun rec hh => ?_)
  show Ret (parseLet toks rec a) _
  rw [parseLet_eq]
  simp only [consumeIdent_ok hx]
  obtain ⟨hlt, hke⟩ := he
  have hnc : ¬ toks[a + 1].kind = PKind.colon := by rw [hke]; simp
  simp only [hlt, dite_true, hnc, if_false]
  rw [consume0_ok ⟨hlt, hke⟩]
  unfold parseLetRest
  dsimp only
  simp only [if_true]
  refine Ret.bind hh.head ?_
  dsimp only
  rw [expectToken_here ht (by simp [PKind.isTerminator])]
  dsimp only
  simp only [if_true, List.append_nil]
  exact Ret.bind hh.tail.head (Ret.pure _)

end Packrat

section General
variable {toks : Array PTok}

/-- a `giant_term` segment not followed by an operator, an atom or an arrow is what `parse_jumbo_term`
returns (in particular before `=`, where a `jumbo_term` of that shape cannot be extended) -/
def CompGJ (toks : Array PTok) (n : Nat) : Prop :=
  ∀ a b t, b - a ≤ n → SegT toks .giantTerm a b t → NoExt toks b extGJ →
    RetN toks .jumboTerm a ⟨t, b, true⟩

/-- both binder functions with `(` fail where an atom starts -/
def NBAtoms (toks : Array PTok) (n : Nat) : Prop :=
  ∀ a m f, m - a ≤ n → SegT toks .atom a m f → NB toks a

theorem nb_atoms {n : Nat} (hgj : CompGJ toks n) : NBAtoms toks (n + 1) := by
  intro a m f hl h
  rcases inv_atom h with ⟨k, k1, lk, _, _⟩ | ⟨m', inner, p1, i1, q1, rfl, _⟩
  · exact NB.of_start (Or.inl (k1.ne (by intro e; subst e; simp [isLeafK] at lk)))
  · by_cases hx : ∃ x, KAt toks (a + 1) (.identifier x)
    · obtain ⟨x, hx⟩ := hx
      by_cases hc : KAt toks (a + 1 + 1) .colon
      · have li := SegT.lt i1
        rcases inv_term i1 with j | l
        · have := jumbo_ident_next (P.all m') (mainLe_tower (by simp [tower]) (m' + 1)) j (by omega)
            hx hc rfl
          subst this
          exact absurd (KAt.unique hc q1) (by decide)
        · rcases inv_let l with ⟨x', tm, m2, defn, body, k1, k2, d1, k3, b1, _⟩ |
            ⟨x', tm, p, m2, ann, defn, body, k1, k2, s1, k3, d1, k4, b1, _⟩
          · exact absurd (KAt.unique hc k2) (by decide)
          · have l1 := SegT.lt s1
            have l2 := SegT.lt d1
            have l3 := SegT.lt b1
            have hj := hgj _ _ _ (by omega) (small_giant s1) (NoExt.of_kat k3 rfl)
            exact NB.of_close hj (segT_facts s1).2 (k3.ne (by decide))
      · exact NB.of_start (Or.inr (Or.inr hc))
    · exact NB.of_start (Or.inr (Or.inl (fun x hx' => hx ⟨x, hx'⟩)))

theorem comp_gj {n : Nat} (hG : Comp2 toks .giantTerm (n + 1)) (hNB : NBAtoms toks (n + 1)) :
    CompGJ toks (n + 1) := by
  intro a b t hl g hf
  have lg := SegT.lt g
  obtain ⟨r, r0, hr0, hi0⟩ := hG _ _ _ hl g (hf.mono (fun k hk => by
    simp only [extGJ, Bool.or_eq_true]; exact Or.inl hk))
  obtain ⟨k, k0, hk⟩ := first_giant g
  refine jumbo_of [.lambda, .lambdaImplicit, .annotatedLambda, .annotatedLambdaImplicit, .pi,
    .piImplicit, .nonDependentPi, .if_] [] rfl ?_ r (segT_facts g).2
  have hnb : NB toks a := by
    by_cases hp : KAt toks a .leftParen
    · obtain ⟨m, f, hm, hat⟩ := lead_atom g hp rfl
      exact hNB a m f (by omega) hat
    · exact NB.of_start (Or.inl hp)
  intro X hX
  simp only [List.mem_cons, List.mem_nil_iff, or_false] at hX
  rcases hX with rfl | rfl | rfl | rfl | rfl | rfl | rfl | rfl
  · refine lambda_fail ?_
    by_cases hx : ∃ x, KAt toks a (.identifier x)
    · obtain ⟨x, k1⟩ := hx
      right
      intro k2
      rcases (mainLe_tower (A := .giantTerm) (by simp [tower]) (b - a + 1)).tri
        (small_giant (Unamb.up_small (var_atom k1))) g (by omega) (by omega) with
        ⟨h1, _⟩ | ⟨_, k', k3, e⟩ | ⟨h1, _⟩
      · exact hf.not (k := .thickArrow) rfl (h1 ▸ k2)
      · rw [← KAt.inj k2 k3] at e; exact absurd e (by decide)
      · omega
    · exact Or.inl (fun x hx' => hx ⟨x, hx'⟩)
  · exact lambdaImplicit_fail (Or.inl (k0.ne (by intro e; subst e; simp [isFM, isF] at hk)))
  · exact hnb.1
  · exact binder_fail_start bp_ali (Or.inl (k0.ne (by intro e; subst e; simp [isFM, isF] at hk)))
  · exact hnb.2
  · exact binder_fail_start bp_pii (Or.inl (k0.ne (by intro e; subst e; simp [isFM, isF] at hk)))
  · rcases hi0 with h | h | ⟨k', k1', hop⟩
    · exact ndpi_fail_small ⟨r0, hr0, h⟩
    · by_cases hpe : r0.term.isParseError = true
      · exact ndpi_fail_small ⟨r0, hr0, hpe⟩
      · exact ndpi_fail_arrow hr0 (by simpa using hpe) (h ▸ hf.not rfl)
    · by_cases hpe : r0.term.isParseError = true
      · exact ndpi_fail_small ⟨r0, hr0, hpe⟩
      · exact ndpi_fail_arrow hr0 (by simpa using hpe)
          (k1'.ne (by intro e; subst e; simp [isOp, isMul, isAdd, isCmp] at hop))
  · exact if_fail (k0.ne (by intro e; subst e; simp [isFM, isF] at hk))

end General

end PModel
