import GramModel.Generated.EventTraces

/-!
# The order of the checker's steps, arm by arm

`Generated/EventTraces.lean` is rewritten from `type_checker.rs` / `unifier.rs` on every run: for every non-operator arm of
`type_check_rec` and for the binder arms of `unify`, the calls that matter in textual order (pattern fields written by
position).  `expectedEventTraces` is the same table as read when the store-layer model `inferS` / `unifyS` (`Check.lean`) was
written: the model performs these steps in this order (checked per input by the `infer` / `unify` correspondence ops, which
compare contexts, stores and error counts after every call).  `contextsBalanced` is a law, not a pin: in every arm the two
contexts are pushed and popped in LIFO order and every push has its pop.
-/

/-- every `push T|D` has its `pop T|D`, innermost first -/
def balancedFrom : List String → List String → Bool
  | [], stack => stack.isEmpty
  | e :: rest, stack =>
    if e == "push T" then balancedFrom rest ("T" :: stack)
    else if e == "push D" then balancedFrom rest ("D" :: stack)
    else if e == "pop T" then (match stack with | "T" :: s => balancedFrom rest s | _ => false)
    else if e == "pop D" then (match stack with | "D" :: s => balancedFrom rest s | _ => false)
    else balancedFrom rest stack

def contextsBalanced (tbl : List (String × String × List String)) : Bool :=
  tbl.all (fun r => balancedFrom r.2.2 [])

def expectedEventTraces : List (String × String × List String) := [
  ("type_check_rec", "Unifier", []),
  ("type_check_rec", "Type", []),
  ("type_check_rec", "Integer", []),
  ("type_check_rec", "Boolean", []),
  ("type_check_rec", "Variable", ["unsigned_shift variable_type 0 $1+1-offset"]),
  ("type_check_rec", "Lambda", ["infer $2", "unify $2_type type_term", "push T", "push D", "infer $3", "pop D", "pop T"]),
  ("type_check_rec", "Pi", ["infer $2", "unify $2_type type_term", "push T", "push D", "infer $3", "unify $3_type type_term", "pop D", "pop T"]),
  ("type_check_rec", "Application", ["infer $0", "fresh-hole", "fresh-hole", "unify pi_type $0_type", "infer $1", "unify domain $1_type", "open codomain 0 $1 0"]),
  ("type_check_rec", "Let", ["guard", "infer annotation", "unify annotation_type type_term", "infer definition", "unify definition_type annotation", "infer $1", "open acc 0 Term{source_range:None,variant:Let($0.iter().map(|(variable,annotation,definition)|{(*variable,Rc::new(unsigned_shift(annotation,$0.len(),definitions_len_minus_one_minus_i,)),Rc::new(unsigned_shift(definition,$0.len(),definitions_len_minus_one_minus_i,)),)}).collect(),Rc::new(Term{source_range:None,variant:Variable($0[definitions_len_minus_one_minus_i].0,i,),}),),} 0", "unsigned_shift annotation $0.len() definitions_len_minus_one_minus_i", "unsigned_shift definition $0.len() definitions_len_minus_one_minus_i"]),
  ("type_check_rec", "IntegerLiteral", []),
  ("type_check_rec", "Negation", ["infer $0", "unify $0_type integer_term"]),
  ("type_check_rec", "If", ["infer $0", "unify $0_type boolean_term", "infer $1", "infer $2", "unify $1_type $2_type"]),
  ("type_check_rec", "True", []),
  ("type_check_rec", "False", []),
  ("unify", "Lambda", ["push D", "unify $body1 $body2", "pop D"]),
  ("unify", "Pi", ["unify $domain1 $domain2", "push D", "unify $codomain1 $codomain2", "pop D"])
]


