import GramModel.Oracle
import GramModel.Typing
import GramModel.Lemmas.Fuel
import GramModel.Lemmas.Oracle
import GramModel.Lemmas.UnifyAgree
import GramModel.Lemmas.CheckSound
import GramModel.Lemmas.RewriteTyping
import GramModel.Lemmas.ConvCoherence

/-!
# Checking under a whole context = checking the closed program (C18, whole-context form)

A context is a list of *layers*, outermost first: a parameter `x : A` (entries `(A, 0)` / `none`) or a
definition group `ds` (entries pushed by `pushGroupX`).  `closeCtx ls t` binds the layers around `t`
(`λ` for a parameter, `letg` for a group), `closeTy ls B` does the same for the type (`Π` / `letg`).

* `lam_step`, `letg_step`: the one-layer equations of `inferX` (result-level, errors included).
* `InfersX Γ Δ t r`: the fuel-free judgement "`inferX` answers `r`, and `r` is not *out of fuel*";
  it is a partial function (`InfersX.det`).
* `ctx_wrap`: for an accepted context, `InfersX (ctx) t r ↔ InfersX base (closeCtx ls t) (r.map (closeTy ls))` —
  the same verdict, the same error, the type closed by the same layers.
* `closed_ok_iff`: acceptance of the closed program = the context is accepted and the body is accepted.
* conversion under parameters: `convX_lam`, `convX_pi`, and their iterations over a parameter context.
-/

namespace CtxWrap
open FuelLemmas

/-! ## small facts about `Except.map` -/

theorem map_id' {ε α} (r : Except ε α) : r.map (fun x => x) = r := by cases r <;> rfl

theorem map_map' {ε α β γ} (g : β → γ) (h : α → β) (r : Except ε α) :
    (r.map h).map g = r.map (fun x => g (h x)) := by cases r <;> rfl

theorem map_inj {ε α β} {g : α → β} (hg : ∀ a b, g a = g b → a = b) {r s : Except ε α}
    (h : r.map g = s.map g) : r = s := by
  cases r <;> cases s <;> simp only [Except.map] at h
  · injection h with h; rw [h]
  · cases h
  · cases h
  · injection h with h; rw [hg _ _ h]

theorem map_ne_fuel {α β} {g : α → β} {r : Except XErr α} :
    r.map g ≠ .error .fuel ↔ r ≠ .error .fuel := by
  cases r with
  | error e => simp [Except.map]
  | ok v => simp [Except.map]

theorem map_eq_ok {ε α β} {g : α → β} {r : Except ε α} {T : β} :
    r.map g = .ok T ↔ ∃ B, r = .ok B ∧ T = g B := by
  cases r with
  | error e => simp [Except.map]
  | ok v => simp [Except.map, eq_comm]

theorem map_eq_error {ε α β} {g : α → β} {r : Except ε α} {e : ε} :
    r.map g = .error e ↔ r = .error e := by
  cases r with
  | error e' => simp [Except.map]
  | ok v => simp [Except.map]

/-! ## fuel monotonicity, `≤` forms -/

theorem isTypeX_le {f g : Nat} (hfg : f ≤ g) {Δ : DCtxX} {K : Tm} {r : Except XErr Unit}
    (h : isTypeX f Δ K = r) (hr : r ≠ .error .fuel) : isTypeX g Δ K = r := by
  induction hfg with
  | refl => exact h
  | step _ ih => rw [isTypeX_mono _ _ _ (by rw [ih]; exact hr)]; exact ih

theorem expectX_le {f g : Nat} (hfg : f ≤ g) {Δ : DCtxX} {a b : Tm} {e : XErr} {r : Except XErr Unit}
    (h : expectX f Δ a b e = r) (hr : r ≠ .error .fuel) : expectX g Δ a b e = r := by
  induction hfg with
  | refl => exact h
  | step _ ih => rw [expectX_mono _ _ _ _ _ (by rw [ih]; exact hr)]; exact ih

theorem inferDefsX_le {f g : Nat} (hfg : f ≤ g) {Γ : TCtxX} {Δ : DCtxX} {ds : Defs}
    {r : Except XErr Unit} (h : inferDefsX f Γ Δ ds = r) (hr : r ≠ .error .fuel) :
    inferDefsX g Γ Δ ds = r := by
  induction hfg with
  | refl => exact h
  | step _ ih => rw [(inferX_mono_aux _).2 _ _ _ (by rw [ih]; exact hr)]; exact ih

theorem ok_ne_fuel {α} {v : α} : (Except.ok v : Except XErr α) ≠ .error .fuel := by
  intro c; cases c

/-- **The answer never depends on the fuel**: two runs that both answer (neither is "out of fuel")
give the same answer. -/
theorem inferX_det {f g : Nat} {Γ : TCtxX} {Δ : DCtxX} {t : Tm} {r₁ r₂ : Except XErr Tm}
    (h1 : inferX f Γ Δ t = r₁) (h2 : inferX g Γ Δ t = r₂)
    (n1 : r₁ ≠ .error .fuel) (n2 : r₂ ≠ .error .fuel) : r₁ = r₂ := by
  have a := inferX_mono_le (Nat.le_max_left f g) h1 n1
  have b := inferX_mono_le (Nat.le_max_right f g) h2 n2
  rw [← a, ← b]

/-! ## the fuel-free judgements -/

/-- the independent checker answers `r` (a type, or a genuine type error) at some fuel -/
def InfersX (Γ : TCtxX) (Δ : DCtxX) (t : Tm) (r : Except XErr Tm) : Prop :=
  r ≠ .error .fuel ∧ ∃ f, inferX f Γ Δ t = r

theorem InfersX.det {Γ : TCtxX} {Δ : DCtxX} {t : Tm} {r₁ r₂ : Except XErr Tm}
    (h1 : InfersX Γ Δ t r₁) (h2 : InfersX Γ Δ t r₂) : r₁ = r₂ := by
  obtain ⟨n1, f, h1⟩ := h1
  obtain ⟨n2, g, h2⟩ := h2
  exact inferX_det h1 h2 n1 n2

/-- `A` is accepted as a type: it checks, and its type is convertible with `type` -/
def IsTypeAcc (Γ : TCtxX) (Δ : DCtxX) (A : Tm) : Prop :=
  ∃ f K, inferX f Γ Δ A = .ok K ∧ isTypeX f Δ K = .ok ()

/-- every definition of the group is accepted: the annotation is a type and the definition has it -/
def DefsAcc (Γ : TCtxX) (Δ : DCtxX) : Defs → Prop
  | .nil => True
  | .cons _ a d r =>
      IsTypeAcc Γ Δ a ∧
      (∃ f D, inferX f Γ Δ d = .ok D ∧ expectX f Δ D a .defMismatch = .ok ()) ∧
      DefsAcc Γ Δ r

theorem inferDefsX_nil (f : Nat) (Γ : TCtxX) (Δ : DCtxX) : inferDefsX (f+1) Γ Δ .nil = .ok () := by
  unfold inferDefsX; rfl

theorem inferDefsX_cons_ok (f : Nat) (Γ : TCtxX) (Δ : DCtxX) (x : Name) (a d : Tm) (r : Defs) :
    inferDefsX (f+1) Γ Δ (.cons x a d r) = .ok () ↔
    (∃ K, inferX f Γ Δ a = .ok K ∧ isTypeX f Δ K = .ok ()) ∧
    (∃ D, inferX f Γ Δ d = .ok D ∧ expectX f Δ D a .defMismatch = .ok ()) ∧
    inferDefsX f Γ Δ r = .ok () := by
  conv => lhs; unfold inferDefsX
  simp only
  cases h1 : inferX f Γ Δ a with
  | error e => simp [*]
  | ok K =>
    cases h2 : isTypeX f Δ K with
    | error e => simp [*]
    | ok u =>
      cases h3 : inferX f Γ Δ d with
      | error e => simp [*]
      | ok D =>
        cases h4 : expectX f Δ D a .defMismatch with
        | error e => simp [*]
        | ok u' => simp [*]

/-- **The definitions of a group are accepted iff `inferDefsX` accepts them at some fuel.** -/
theorem defsAcc_iff (Γ : TCtxX) (Δ : DCtxX) : ∀ (ds : Defs),
    DefsAcc Γ Δ ds ↔ ∃ f, inferDefsX f Γ Δ ds = .ok ()
  | .nil => by
      simp only [DefsAcc, true_iff]
      exact ⟨1, inferDefsX_nil 0 Γ Δ⟩
  | .cons x a d r => by
      simp only [DefsAcc, defsAcc_iff Γ Δ r]
      constructor
      · rintro ⟨⟨f1, K, h1, h2⟩, ⟨f2, D, h3, h4⟩, f3, h5⟩
        refine ⟨max f1 (max f2 f3) + 1, (inferDefsX_cons_ok _ _ _ _ _ _ _).2 ⟨⟨K, ?_, ?_⟩, ⟨D, ?_, ?_⟩, ?_⟩⟩
        · exact inferX_mono_le (by omega) h1 ok_ne_fuel
        · exact isTypeX_le (by omega) h2 ok_ne_fuel
        · exact inferX_mono_le (by omega) h3 ok_ne_fuel
        · exact expectX_le (by omega) h4 ok_ne_fuel
        · exact inferDefsX_le (by omega) h5 ok_ne_fuel
      · rintro ⟨f, h⟩
        cases f with
        | zero => unfold inferDefsX at h; cases h
        | succ f =>
          obtain ⟨⟨K, h1, h2⟩, ⟨D, h3, h4⟩, h5⟩ := (inferDefsX_cons_ok _ _ _ _ _ _ _).1 h
          exact ⟨⟨f, K, h1, h2⟩, ⟨f, D, h3, h4⟩, f, h5⟩

/-! ## one layer: a parameter -/

/-- what `inferX` does with a λ, as one equation on results (errors included) -/
theorem lam_step (f : Nat) (Γ : TCtxX) (Δ : DCtxX) (x : Name) (im : Bool) (A t : Tm) :
    inferX (f+1) Γ Δ (.lam x im A t) =
      match inferX f Γ Δ A with
      | .error e => .error e
      | .ok K =>
        match isTypeX f Δ K with
        | .error e => .error e
        | .ok _ => (inferX f ((A, 0) :: Γ) (none :: Δ) t).map (.pi x im A) := by
  conv => lhs; unfold inferX
  simp only
  cases inferX f Γ Δ A with
  | error e => rfl
  | ok K =>
    simp only
    cases isTypeX f Δ K with
    | error e => rfl
    | ok u =>
      simp only
      cases inferX f ((A, 0) :: Γ) (none :: Δ) t <;> rfl

/-- **Lambda wrap for the independent checker** (success side, at a fixed fuel). -/
theorem lam_wrap_X (f : Nat) (Γ : TCtxX) (Δ : DCtxX) (x : Name) (im : Bool) (A t T : Tm) :
    inferX (f+1) Γ Δ (.lam x im A t) = .ok T ↔
    (∃ K, inferX f Γ Δ A = .ok K ∧ isTypeX f Δ K = .ok ()) ∧
    ∃ B, T = .pi x im A B ∧ inferX f ((A, 0) :: Γ) (none :: Δ) t = .ok B := by
  rw [lam_step]
  cases h1 : inferX f Γ Δ A with
  | error e => simp
  | ok K =>
    cases h2 : isTypeX f Δ K with
    | error e => simp [h2]
    | ok u =>
      simp only [map_eq_ok, h2]
      constructor
      · rintro ⟨B, hB, rfl⟩; exact ⟨⟨K, rfl, h2⟩, B, rfl, hB⟩
      · rintro ⟨_, B, rfl, hB⟩; exact ⟨B, hB, rfl⟩

theorem lam_step_ok {f : Nat} {Γ : TCtxX} {Δ : DCtxX} {A K : Tm} (x : Name) (im : Bool) (t : Tm)
    (h1 : inferX f Γ Δ A = .ok K) (h2 : isTypeX f Δ K = .ok ()) :
    inferX (f+1) Γ Δ (.lam x im A t) = (inferX f ((A, 0) :: Γ) (none :: Δ) t).map (.pi x im A) := by
  rw [lam_step, h1]; simp only [h2]

theorem pi_inj (x : Name) (im : Bool) (A : Tm) : ∀ a b : Tm, Tm.pi x im A a = Tm.pi x im A b → a = b := by
  intro a b h; injection h

theorem letg_inj (ds : Defs) : ∀ a b : Tm, Tm.letg ds a = Tm.letg ds b → a = b := by
  intro a b h; injection h

/-- **One parameter, fuel-free, every verdict**: if the domain is accepted as a type, the λ gets the answer
of its body under the extended context (same error; the type under the Π). -/
theorem lam_infers {Γ : TCtxX} {Δ : DCtxX} {A : Tm} (x : Name) (im : Bool) (t : Tm)
    (hA : IsTypeAcc Γ Δ A) (r : Except XErr Tm) :
    InfersX ((A, 0) :: Γ) (none :: Δ) t r ↔ InfersX Γ Δ (.lam x im A t) (r.map (.pi x im A)) := by
  obtain ⟨g, K, h1, h2⟩ := hA
  constructor
  · rintro ⟨hr, f, hf⟩
    refine ⟨map_ne_fuel.2 hr, max f g + 1, ?_⟩
    rw [lam_step_ok x im t (inferX_mono_le (Nat.le_max_right f g) h1 ok_ne_fuel)
      (isTypeX_le (Nat.le_max_right f g) h2 ok_ne_fuel),
      inferX_mono_le (Nat.le_max_left f g) hf hr]
  · rintro ⟨hr, f, hf⟩
    refine ⟨map_ne_fuel.1 hr, max f g, ?_⟩
    have h := inferX_mono_le (show f ≤ max f g + 1 by omega) hf hr
    rw [lam_step_ok x im t (inferX_mono_le (Nat.le_max_right f g) h1 ok_ne_fuel)
      (isTypeX_le (Nat.le_max_right f g) h2 ok_ne_fuel)] at h
    exact map_inj (pi_inj x im A) h

/-! ## one layer: a definition group -/

/-- what `inferX` does with a group, as one equation on results -/
theorem letg_step (f : Nat) (Γ : TCtxX) (Δ : DCtxX) (ds : Defs) (b : Tm) :
    inferX (f+1) Γ Δ (.letg ds b) =
      match inferDefsX f (pushGroupX ds 0 (Γ, Δ)).1 (pushGroupX ds 0 (Γ, Δ)).2 ds with
      | .error e => .error e
      | .ok _ => (inferX f (pushGroupX ds 0 (Γ, Δ)).1 (pushGroupX ds 0 (Γ, Δ)).2 b).map (.letg ds) := by
  conv => lhs; unfold inferX
  simp only
  cases inferDefsX f (pushGroupX ds 0 (Γ, Δ)).1 (pushGroupX ds 0 (Γ, Δ)).2 ds with
  | error e => rfl
  | ok u =>
    simp only
    cases inferX f (pushGroupX ds 0 (Γ, Δ)).1 (pushGroupX ds 0 (Γ, Δ)).2 b <;> rfl

/-- **Group wrap** (success side, fixed fuel, any number of definitions). -/
theorem group_wrap_X (f : Nat) (Γ : TCtxX) (Δ : DCtxX) (ds : Defs) (b T : Tm) :
    inferX (f+1) Γ Δ (.letg ds b) = .ok T ↔
    inferDefsX f (pushGroupX ds 0 (Γ, Δ)).1 (pushGroupX ds 0 (Γ, Δ)).2 ds = .ok () ∧
    ∃ B, T = .letg ds B ∧ inferX f (pushGroupX ds 0 (Γ, Δ)).1 (pushGroupX ds 0 (Γ, Δ)).2 b = .ok B := by
  rw [letg_step]
  cases h1 : inferDefsX f (pushGroupX ds 0 (Γ, Δ)).1 (pushGroupX ds 0 (Γ, Δ)).2 ds with
  | error e => simp
  | ok u =>
    simp only [map_eq_ok, true_and]
    constructor
    · rintro ⟨B, hB, rfl⟩; exact ⟨B, rfl, hB⟩
    · rintro ⟨B, rfl, hB⟩; exact ⟨B, hB, rfl⟩

theorem letg_step_ok {f : Nat} {Γ : TCtxX} {Δ : DCtxX} {ds : Defs} (b : Tm)
    (h1 : inferDefsX f (pushGroupX ds 0 (Γ, Δ)).1 (pushGroupX ds 0 (Γ, Δ)).2 ds = .ok ()) :
    inferX (f+1) Γ Δ (.letg ds b) =
      (inferX f (pushGroupX ds 0 (Γ, Δ)).1 (pushGroupX ds 0 (Γ, Δ)).2 b).map (.letg ds) := by
  rw [letg_step, h1]

/-- **One group, fuel-free, every verdict.** -/
theorem letg_infers {Γ : TCtxX} {Δ : DCtxX} {ds : Defs} (b : Tm)
    (hds : DefsAcc (pushGroupX ds 0 (Γ, Δ)).1 (pushGroupX ds 0 (Γ, Δ)).2 ds) (r : Except XErr Tm) :
    InfersX (pushGroupX ds 0 (Γ, Δ)).1 (pushGroupX ds 0 (Γ, Δ)).2 b r ↔
    InfersX Γ Δ (.letg ds b) (r.map (.letg ds)) := by
  obtain ⟨g, h1⟩ := (defsAcc_iff _ _ _).1 hds
  constructor
  · rintro ⟨hr, f, hf⟩
    refine ⟨map_ne_fuel.2 hr, max f g + 1, ?_⟩
    rw [letg_step_ok b (inferDefsX_le (Nat.le_max_right f g) h1 ok_ne_fuel),
      inferX_mono_le (Nat.le_max_left f g) hf hr]
  · rintro ⟨hr, f, hf⟩
    refine ⟨map_ne_fuel.1 hr, max f g, ?_⟩
    have h := inferX_mono_le (show f ≤ max f g + 1 by omega) hf hr
    rw [letg_step_ok b (inferDefsX_le (Nat.le_max_right f g) h1 ok_ne_fuel)] at h
    exact map_inj (letg_inj ds) h

/-! ## whole contexts -/

/-- one layer of a context -/
inductive Layer
  | param (x : Name) (im : Bool) (A : Tm)
  | group (ds : Defs)

/-- the entries the layer pushes on the two contexts -/
def Layer.push : Layer → TCtxX × DCtxX → TCtxX × DCtxX
  | .param _ _ A, c => ((A, 0) :: c.1, none :: c.2)
  | .group ds, c => pushGroupX ds 0 (c.1, c.2)

/-- bind the layer around a term -/
def Layer.close : Layer → Tm → Tm
  | .param x im A, t => .lam x im A t
  | .group ds, t => .letg ds t

/-- bind the layer around a type -/
def Layer.closeTy : Layer → Tm → Tm
  | .param x im A, B => .pi x im A B
  | .group ds, B => .letg ds B

/-- the layer is accepted under `(Γ, Δ)`: a parameter's domain is a type; a group's definitions check
(under the group itself) -/
def Layer.OK : Layer → TCtxX × DCtxX → Prop
  | .param _ _ A, c => IsTypeAcc c.1 c.2 A
  | .group ds, c => DefsAcc (pushGroupX ds 0 (c.1, c.2)).1 (pushGroupX ds 0 (c.1, c.2)).2 ds

/-- push a whole context (outermost layer first) -/
def pushCtxs : List Layer → TCtxX × DCtxX → TCtxX × DCtxX
  | [], c => c
  | l :: ls, c => pushCtxs ls (l.push c)

/-- bind a whole context around a term (outermost layer first) -/
def closeCtx : List Layer → Tm → Tm
  | [], t => t
  | l :: ls, t => l.close (closeCtx ls t)

/-- bind a whole context around a type -/
def closeTy : List Layer → Tm → Tm
  | [], B => B
  | l :: ls, B => l.closeTy (closeTy ls B)

/-- every layer is accepted in the context of the layers outside it -/
def CtxOK : List Layer → TCtxX × DCtxX → Prop
  | [], _ => True
  | l :: ls, c => l.OK c ∧ CtxOK ls (l.push c)

theorem Layer.closeTy_inj (l : Layer) : ∀ a b : Tm, l.closeTy a = l.closeTy b → a = b := by
  cases l with
  | param x im A => exact pi_inj x im A
  | group ds => exact letg_inj ds

theorem closeTy_inj : ∀ (ls : List Layer) (a b : Tm), closeTy ls a = closeTy ls b → a = b
  | [], _, _, h => h
  | l :: ls, a, b, h => closeTy_inj ls a b (l.closeTy_inj _ _ h)

theorem layer_infers (l : Layer) (c : TCtxX × DCtxX) (t : Tm) (h : l.OK c) (r : Except XErr Tm) :
    InfersX (l.push c).1 (l.push c).2 t r ↔ InfersX c.1 c.2 (l.close t) (r.map l.closeTy) := by
  cases l with
  | param x im A => exact lam_infers x im t h r
  | group ds => exact letg_infers t h r

/-- **Whole-context wrap.**  For an accepted context, checking the open term under the context and checking
the closed program under the base context give the same answer: the same error, or types related by closing. -/
theorem ctx_wrap : ∀ (ls : List Layer) (c : TCtxX × DCtxX) (t : Tm), CtxOK ls c → ∀ (r : Except XErr Tm),
    (InfersX (pushCtxs ls c).1 (pushCtxs ls c).2 t r ↔
     InfersX c.1 c.2 (closeCtx ls t) (r.map (closeTy ls)))
  | [], c, t, _, r => by
      simp only [pushCtxs, closeCtx]
      rw [show r.map (closeTy []) = r from map_id' r]
  | l :: ls, c, t, h, r => by
      simp only [pushCtxs, closeCtx]
      rw [ctx_wrap ls (l.push c) t h.2 r, layer_infers l c _ h.1, map_map']
      rfl

/-- a closed program that is accepted has an accepted context, and its type is a closed type -/
theorem closed_ok_inv : ∀ (ls : List Layer) (c : TCtxX × DCtxX) (t T : Tm) (f : Nat),
    inferX f c.1 c.2 (closeCtx ls t) = .ok T →
    CtxOK ls c ∧ ∃ B, T = closeTy ls B
  | [], _, _, T, _, _ => ⟨trivial, T, rfl⟩
  | l :: ls, c, t, T, 0, h => by unfold inferX at h; cases h
  | .param x im A :: ls, c, t, T, f+1, h => by
      obtain ⟨⟨K, h1, h2⟩, B, rfl, hB⟩ := (lam_wrap_X f c.1 c.2 x im A _ T).1 h
      obtain ⟨ok, B', rfl⟩ := closed_ok_inv ls (((A, 0) :: c.1, none :: c.2)) t B f hB
      exact ⟨⟨⟨f, K, h1, h2⟩, ok⟩, B', rfl⟩
  | .group ds :: ls, c, t, T, f+1, h => by
      obtain ⟨h1, B, rfl, hB⟩ := (group_wrap_X f c.1 c.2 ds _ T).1 h
      obtain ⟨ok, B', rfl⟩ := closed_ok_inv ls (pushGroupX ds 0 (c.1, c.2)) t B f hB
      exact ⟨⟨(defsAcc_iff _ _ _).2 ⟨f, h1⟩, ok⟩, B', rfl⟩

/-- **Acceptance of the closed program, characterised**: the context is accepted, and the open term is
accepted under it; the type is the open term's type closed by the same layers. -/
theorem closed_ok_iff (ls : List Layer) (c : TCtxX × DCtxX) (t T : Tm) :
    (∃ f, inferX f c.1 c.2 (closeCtx ls t) = .ok T) ↔
    CtxOK ls c ∧ ∃ B, T = closeTy ls B ∧ ∃ f, inferX f (pushCtxs ls c).1 (pushCtxs ls c).2 t = .ok B := by
  constructor
  · rintro ⟨f, h⟩
    obtain ⟨ok, B, rfl⟩ := closed_ok_inv ls c t T f h
    refine ⟨ok, B, rfl, ?_⟩
    exact ((ctx_wrap ls c t ok (.ok B)).2 ⟨ok_ne_fuel, f, h⟩).2
  · rintro ⟨ok, B, rfl, f, h⟩
    exact ((ctx_wrap ls c t ok (.ok B)).1 ⟨ok_ne_fuel, f, h⟩).2

/-- acceptance side of `ctx_wrap` -/
theorem ctx_accept (ls : List Layer) (c : TCtxX × DCtxX) (t B : Tm) (h : CtxOK ls c) :
    (∃ f, inferX f (pushCtxs ls c).1 (pushCtxs ls c).2 t = .ok B) ↔
    (∃ f, inferX f c.1 c.2 (closeCtx ls t) = .ok (closeTy ls B)) := by
  have := ctx_wrap ls c t h (.ok B)
  simp only [InfersX, Except.map] at this
  exact ⟨fun hx => (this.1 ⟨ok_ne_fuel, hx⟩).2, fun hx => (this.2 ⟨ok_ne_fuel, hx⟩).2⟩

/-- rejection side of `ctx_wrap`: a genuine type error of the open term under the context is the same
error of the closed program, and conversely -/
theorem ctx_reject (ls : List Layer) (c : TCtxX × DCtxX) (t : Tm) (h : CtxOK ls c) (e : XErr)
    (he : e ≠ .fuel) :
    (∃ f, inferX f (pushCtxs ls c).1 (pushCtxs ls c).2 t = .error e) ↔
    (∃ f, inferX f c.1 c.2 (closeCtx ls t) = .error e) := by
  have := ctx_wrap ls c t h (.error e)
  simp only [InfersX, Except.map] at this
  have ne : (Except.error e : Except XErr Tm) ≠ .error .fuel := fun c => he (by injection c)
  exact ⟨fun hx => (this.1 ⟨ne, hx⟩).2, fun hx => (this.2 ⟨ne, hx⟩).2⟩

/-- **Same verdict**: a genuine rejection on one side excludes acceptance on the other, at every fuel. -/
theorem ctx_verdict (ls : List Layer) (c : TCtxX × DCtxX) (t : Tm) (h : CtxOK ls c) :
    ((∃ f e, e ≠ .fuel ∧ inferX f (pushCtxs ls c).1 (pushCtxs ls c).2 t = .error e) →
      ∀ g T, inferX g c.1 c.2 (closeCtx ls t) ≠ .ok T) ∧
    ((∃ f e, e ≠ .fuel ∧ inferX f c.1 c.2 (closeCtx ls t) = .error e) →
      ∀ g B, inferX g (pushCtxs ls c).1 (pushCtxs ls c).2 t ≠ .ok B) := by
  constructor
  · rintro ⟨f, e, he, hf⟩ g T hg
    obtain ⟨f', hf'⟩ := (ctx_reject ls c t h e he).1 ⟨f, hf⟩
    have := inferX_det hf' hg (fun c => he (by injection c)) ok_ne_fuel
    cases this
  · rintro ⟨f, e, he, hf⟩ g B hg
    obtain ⟨f', hf'⟩ := (ctx_reject ls c t h e he).2 ⟨f, hf⟩
    have := inferX_det hf' hg (fun c => he (by injection c)) ok_ne_fuel
    cases this

/-! ### parameter contexts -/

/-- a parameter context, outermost parameter first: `(name, implicit, domain)` -/
abbrev Params := List (Name × Bool × Tm)

def paramLayers (ps : Params) : List Layer := ps.map fun p => .param p.1 p.2.1 p.2.2

/-- `(x₁ : A₁) => … => (xₙ : Aₙ) => t` (outermost parameter first) -/
def closeParams (ps : Params) (t : Tm) : Tm := closeCtx (paramLayers ps) t
/-- `(x₁ : A₁) -> … -> (xₙ : Aₙ) -> B` -/
def closePi (ps : Params) (B : Tm) : Tm := closeTy (paramLayers ps) B
/-- the contexts after pushing the parameters: `(Aₙ, 0) :: … :: (A₁, 0) :: Γ` and `none :: … :: none :: Δ` -/
def pushParams (ps : Params) (c : TCtxX × DCtxX) : TCtxX × DCtxX := pushCtxs (paramLayers ps) c
/-- every domain is accepted as a type under the parameters before it -/
def ParamsOK (ps : Params) (c : TCtxX × DCtxX) : Prop := CtxOK (paramLayers ps) c

@[simp] theorem closeParams_nil (t : Tm) : closeParams [] t = t := rfl
@[simp] theorem closeParams_cons (x : Name) (im : Bool) (A : Tm) (ps : Params) (t : Tm) :
    closeParams ((x, im, A) :: ps) t = .lam x im A (closeParams ps t) := rfl
@[simp] theorem closePi_nil (t : Tm) : closePi [] t = t := rfl
@[simp] theorem closePi_cons (x : Name) (im : Bool) (A : Tm) (ps : Params) (t : Tm) :
    closePi ((x, im, A) :: ps) t = .pi x im A (closePi ps t) := rfl
@[simp] theorem pushParams_nil (c : TCtxX × DCtxX) : pushParams [] c = c := rfl
@[simp] theorem pushParams_cons (x : Name) (im : Bool) (A : Tm) (ps : Params) (c : TCtxX × DCtxX) :
    pushParams ((x, im, A) :: ps) c = pushParams ps ((A, 0) :: c.1, none :: c.2) := rfl
@[simp] theorem ParamsOK_nil (c : TCtxX × DCtxX) : ParamsOK [] c = True := rfl
@[simp] theorem ParamsOK_cons (x : Name) (im : Bool) (A : Tm) (ps : Params) (c : TCtxX × DCtxX) :
    ParamsOK ((x, im, A) :: ps) c =
      (IsTypeAcc c.1 c.2 A ∧ ParamsOK ps ((A, 0) :: c.1, none :: c.2)) := rfl

/-- the shape of a parameter context: the domains innermost first, each with offset 0; all `none` -/
theorem pushParams_eq : ∀ (ps : Params) (c : TCtxX × DCtxX),
    pushParams ps c = ((ps.reverse.map fun p => (p.2.2, 0)) ++ c.1, List.replicate ps.length none ++ c.2)
  | [], c => rfl
  | (x, im, A) :: ps, c => by
      rw [pushParams_cons, pushParams_eq ps]
      simp [List.replicate_succ']

/-! ### the shape of a pushed group -/

theorem pushed_get (x : Name) (a d : Tm) : ∀ (ds : Defs) (k : Nat) (Γ : TCtxX) (Δ : DCtxX) (i : Nat),
    ds.toList[i]? = some (x, a, d) →
    (pushedT ds k Γ)[ds.len - 1 - i]? = some (a, k - i) ∧
    (pushedD ds k Δ)[ds.len - 1 - i]? = some (some (d, k - i))
  | .nil, k, Γ, Δ, i, h => by simp [Defs.toList] at h
  | .cons y b e r, k, Γ, Δ, 0, h => by
      have hT := pushedT_drop r (k - 1) ((b, k) :: Γ)
      have hD := pushedD_drop r (k - 1) (some (e, k) :: Δ)
      simp only [Defs.toList, List.getElem?_cons_zero, Option.some.injEq, Prod.mk.injEq] at h
      obtain ⟨rfl, rfl, rfl⟩ := h
      simp only [pushedT, pushedD, Defs.len, Nat.add_sub_cancel, Nat.sub_zero]
      constructor
      · have := congrArg (fun l => l[0]?) hT
        simpa [List.getElem?_drop] using this
      · have := congrArg (fun l => l[0]?) hD
        simpa [List.getElem?_drop] using this
  | .cons y b e r, k, Γ, Δ, i+1, h => by
      simp only [Defs.toList, List.getElem?_cons_succ] at h
      have := pushed_get x a d r (k - 1) ((b, k) :: Γ) (some (e, k) :: Δ) i h
      simp only [pushedT, pushedD, Defs.len]
      rw [show r.len + 1 - 1 - (i + 1) = r.len - 1 - i by omega, show k - (i + 1) = k - 1 - i by omega]
      exact this

/-- a pushed group of `n` definitions: definition `i` (0-based, in source order) sits at position `n - 1 - i`
with offset `n - i`, so that every stored annotation / definition is read in the scope of the whole group -/
theorem pushGroupX_get (ds : Defs) (Γ : TCtxX) (Δ : DCtxX) (i : Nat) (x : Name) (a d : Tm)
    (h : ds.toList[i]? = some (x, a, d)) :
    (pushGroupX ds 0 (Γ, Δ)).1[ds.len - 1 - i]? = some (a, ds.len - i) ∧
    (pushGroupX ds 0 (Γ, Δ)).2[ds.len - 1 - i]? = some (some (d, ds.len - i)) := by
  rw [CheckSound.pushGroupX_eq]
  exact pushed_get x a d ds ds.len Γ Δ i h

/-! ## conversion and normalisation under parameters -/

/-- a parameter is inert: it is its own weak head normal form -/
theorem whnfX_param (f : Nat) (Δ : DCtxX) (x : Name) : whnfX (f+1) (none :: Δ) (.var x 0) = some (.var x 0) := by
  unfold whnfX; rfl

/-- a λ (a Π) is its own weak head normal form: normalisation does not go under the binder -/
theorem whnfX_lam (f : Nat) (Δ : DCtxX) (x : Name) (im : Bool) (A t : Tm) :
    whnfX (f+1) Δ (.lam x im A t) = some (.lam x im A t) := by
  unfold whnfX; rfl
theorem whnfX_pi (f : Nat) (Δ : DCtxX) (x : Name) (im : Bool) (A t : Tm) :
    whnfX (f+1) Δ (.pi x im A t) = some (.pi x im A t) := by
  unfold whnfX; rfl

theorem convX_same {f : Nat} {Δ : DCtxX} {a b : Tm} (h : sameX a b = true) : convX (f+1) Δ a b = some true := by
  unfold convX; simp [h]

/-- **Comparing two functions is comparing their bodies under one more parameter** (names and domains
are irrelevant, the implicitness flags must agree). -/
theorem convX_lam (f : Nat) (Δ : DCtxX) (x y : Name) (im jm : Bool) (A A' t u : Tm) :
    convX (f+2) Δ (.lam x im A t) (.lam y jm A' u) =
      if im == jm then convX (f+1) (none :: Δ) t u else some false := by
  rw [UnifyAgree.convX_succ, whnfX_lam, whnfX_lam]
  simp only [UnifyAgree.convHead, sameX]
  by_cases hi : (im == jm) = true
  · by_cases hs : sameX t u = true
    · simp [hi, hs, convX_same hs]
    · simp [hi, hs]
  · simp [hi]

/-- **Comparing two function types is comparing the domains, then the codomains under one more parameter.** -/
theorem convX_pi (f : Nat) (Δ : DCtxX) (x y : Name) (im jm : Bool) (A A' t u : Tm) :
    convX (f+2) Δ (.pi x im A t) (.pi y jm A' u) =
      if im == jm then
        match convX (f+1) Δ A A' with
        | some true => convX (f+1) (none :: Δ) t u
        | r => r
      else some false := by
  rw [UnifyAgree.convX_succ, whnfX_pi, whnfX_pi]
  simp only [UnifyAgree.convHead, sameX]
  by_cases hi : (im == jm) = true
  · by_cases hA : sameX A A' = true
    · by_cases hs : sameX t u = true
      · simp [hi, hs, hA, convX_same hs, convX_same hA]
      · simp [hi, hs, hA] <;> rfl
    · simp [hi, hA] <;> rfl
  · simp [hi]

/-- **Whole parameter contexts, functions**: comparing `t` and `u` under `n` parameters is comparing the two
closed functions (one unit of fuel per binder). -/
theorem convX_closeParams : ∀ (ps : Params) (f : Nat) (Δ : DCtxX) (t u : Tm),
    convX (f + 1 + ps.length) Δ (closeParams ps t) (closeParams ps u) =
      convX (f + 1) (pushParams ps ([], Δ)).2 t u
  | [], f, Δ, t, u => rfl
  | (x, im, A) :: ps, f, Δ, t, u => by
      simp only [closeParams_cons, pushParams_cons, List.length_cons]
      rw [show f + 1 + (ps.length + 1) = (f + ps.length) + 2 by omega, convX_lam]
      simp only [BEq.rfl, if_true]
      rw [show f + ps.length + 1 = f + 1 + ps.length by omega, convX_closeParams ps f (none :: Δ) t u]
      rw [pushParams_eq, pushParams_eq]

/-- **Whole parameter contexts, function types.** -/
theorem convX_closePi : ∀ (ps : Params) (f : Nat) (Δ : DCtxX) (t u : Tm),
    convX (f + 1 + ps.length) Δ (closePi ps t) (closePi ps u) =
      convX (f + 1) (pushParams ps ([], Δ)).2 t u
  | [], f, Δ, t, u => rfl
  | (x, im, A) :: ps, f, Δ, t, u => by
      simp only [closePi_cons, pushParams_cons, List.length_cons]
      rw [show f + 1 + (ps.length + 1) = (f + ps.length) + 2 by omega, convX_pi]
      simp only [BEq.rfl, if_true, convX_same (OracleLemmas.sameX_refl A)]
      rw [show f + ps.length + 1 = f + 1 + ps.length by omega, convX_closePi ps f (none :: Δ) t u]
      rw [pushParams_eq, pushParams_eq]

/-- the declarative counterpart: convertibility under the parameters gives convertibility of the closed terms -/
theorem Conv_closeParams : ∀ (ps : Params) (Δ : DCtxX) (t u : Tm),
    Conv (pushParams ps ([], Δ)).2 t u → Conv Δ (closeParams ps t) (closeParams ps u)
  | [], _, _, _, h => h
  | (x, im, A) :: ps, Δ, t, u, h => by
      simp only [closeParams_cons]
      refine Conv.lam x x im A A (Conv_closeParams ps (none :: Δ) t u ?_)
      rw [pushParams_cons, pushParams_eq] at h
      rw [pushParams_eq]; exact h

theorem Conv_closePi : ∀ (ps : Params) (Δ : DCtxX) (t u : Tm),
    Conv (pushParams ps ([], Δ)).2 t u → Conv Δ (closePi ps t) (closePi ps u)
  | [], _, _, _, h => h
  | (x, im, A) :: ps, Δ, t, u, h => by
      simp only [closePi_cons]
      refine Conv.pi x x im (Conv.refl _ A) (Conv_closePi ps (none :: Δ) t u ?_)
      rw [pushParams_cons, pushParams_eq] at h
      rw [pushParams_eq]; exact h

/-! ## gram's own unifier: the λ / Π arms push one parameter, recurse, pop -/

theorem whnfS_lam (f : Nat) (x : Name) (im : Bool) (A t : Tm) :
    whnfS (f+1) (.lam x im A t) = pure (.lam x im A t) := by
  unfold whnfS; rfl
theorem whnfS_pi (f : Nat) (x : Name) (im : Bool) (A t : Tm) :
    whnfS (f+1) (.pi x im A t) = pure (.pi x im A t) := by
  unfold whnfS; rfl

/-- the head comparison of two λs in `unify`: push `None`, unify the bodies, pop -/
theorem unifyHead_lam (f : Nat) (x y : Name) (im jm : Bool) (A A' t u : Tm) :
    UnifyAgree.unifyHead f (.lam x im A t) (.lam y jm A' u) =
      (if im == jm then do
        pushD none
        let r ← unifyS f t u
        popD
        pure r
      else pure false) := rfl

/-- the head comparison of two Πs in `unify`: the domains in the current context, then push `None`, unify the
codomains, pop -/
theorem unifyHead_pi (f : Nat) (x y : Name) (im jm : Bool) (A A' t u : Tm) :
    UnifyAgree.unifyHead f (.pi x im A t) (.pi y jm A' u) =
      (if im == jm then do
        if ← unifyS f A A' then do
          pushD none
          let r ← unifyS f t u
          popD
          pure r
        else pure false
      else pure false) := rfl


/-! ## definitions: δ-unfolding from the context agrees with unfolding the closed group -/

section Group
open CCSubst CCPar WhnfLemmas

theorem erD_replicate (n : Nat) (Δ : DCtxX) :
    erD (List.replicate n none ++ Δ) = List.replicate n none ++ erD Δ := by
  simp [erD, List.map_append, List.map_replicate]

theorem DHF_replicate {Δ : DCtxX} (n : Nat) (h : DHF Δ) : DHF (List.replicate n none ++ Δ) := by
  intro e he d o hd
  rcases List.mem_append.1 he with h1 | h1
  · rw [List.mem_replicate] at h1; rw [h1.2] at hd; cases hd
  · exact h e h1 d o hd

/-- a head step under the erased context is a conversion under the context itself -/
theorem red_unerase {Δ : DCtxX} (hD : DHF Δ) {a b : Tm} (h : Red1 (erD Δ) a b) : Conv Δ a b := by
  cases h with
  | beta x im d body a => exact .red (.beta _ _ _ _ _)
  | delta x i d off hi ho =>
    obtain ⟨d0, h0, rfl⟩ := erD_some_inv hi
    have hf : d0.holeFree = true := hD _ (List.mem_of_getElem? h0) d0 off rfl
    exact .trans (.red (.delta x i d0 off h0 ho))
      (.same (RewriteTyping.sameX_ushift 0 _ (CheckComplete.sameX_er d0 hf)))
  | letStep x a d rest body => exact .red (.letStep _ _ _ _ _)
  | letNil => exact .red (.letNil _)
  | neg n => exact .red (.neg _)
  | arith op x y r hr => exact .red (.arith _ _ _ _ hr)
  | iteTrue => exact .red (.iteTrue _ _)
  | iteFalse => exact .red (.iteFalse _ _)

mutual
/-- conversion under the erased context is conversion under the context (hole-free definitions) -/
theorem conv_unerase : ∀ {Δ' : DCtxX} {a b : Tm}, Conv Δ' a b → ∀ (Δ : DCtxX), Δ' = erD Δ → DHF Δ → Conv Δ a b
  | _, _, _, .refl _ a, _, _, _ => .refl _ a
  | _, _, _, .symm h, Δ, e, hD => .symm (conv_unerase h Δ e hD)
  | _, _, _, .trans h1 h2, Δ, e, hD => .trans (conv_unerase h1 Δ e hD) (conv_unerase h2 Δ e hD)
  | _, _, _, .red h, Δ, e, hD => by subst e; exact red_unerase hD h
  | _, _, _, .same h, _, _, _ => .same h
  | _, _, _, .lam x y im d1 d2 h, Δ, e, hD =>
      .lam x y im d1 d2 (conv_unerase h (none :: Δ) (by subst e; rfl) (UnifyAgree.DHF.push hD))
  | _, _, _, .pi x y im h1 h2, Δ, e, hD =>
      .pi x y im (conv_unerase h1 Δ e hD) (conv_unerase h2 (none :: Δ) (by subst e; rfl) (UnifyAgree.DHF.push hD))
  | _, _, _, .app h1 h2, Δ, e, hD => .app (conv_unerase h1 Δ e hD) (conv_unerase h2 Δ e hD)
  | _, _, _, .neg h, Δ, e, hD => .neg (conv_unerase h Δ e hD)
  | _, _, _, .bin op h1 h2, Δ, e, hD => .bin op (conv_unerase h1 Δ e hD) (conv_unerase h2 Δ e hD)
  | _, _, _, .ite h1 h2 h3, Δ, e, hD =>
      .ite (conv_unerase h1 Δ e hD) (conv_unerase h2 Δ e hD) (conv_unerase h3 Δ e hD)
  | _, _, _, .letg (ds1 := ds1) h1 h2, Δ, e, hD =>
      .letg (convDefs_unerase h1 (List.replicate ds1.len none ++ Δ) (by subst e; rw [erD_replicate])
              (DHF_replicate _ hD))
            (conv_unerase h2 (List.replicate ds1.len none ++ Δ) (by subst e; rw [erD_replicate])
              (DHF_replicate _ hD))
theorem convDefs_unerase : ∀ {Δ' : DCtxX} {a b : Defs}, ConvDefs Δ' a b → ∀ (Δ : DCtxX), Δ' = erD Δ → DHF Δ →
    ConvDefs Δ a b
  | _, _, _, .nil _, _, _, _ => .nil _
  | _, _, _, .cons x y h1 h2 h3, Δ, e, hD =>
      .cons x y (conv_unerase h1 Δ e hD) (conv_unerase h2 Δ e hD) (convDefs_unerase h3 Δ e hD)
end

/-- **Transparent group congruence.**  Two terms convertible under the context of a group (where the group's
variables unfold to their definitions by δ) give convertible closed groups (where the group unfolds by
substitution).  `Conv.letg` only has this for *opaque* group variables. -/
theorem Conv_group {Γ : TCtxX} {Δ : DCtxX} {ds : Defs} {b b' : Tm} (hW : DWF Δ) (hD : DHF Δ)
    (hds : ds.holeFree = true) (hb : b.holeFree = true) (hb' : b'.holeFree = true)
    (h : Conv (pushGroupX ds 0 (Γ, Δ)).2 b b') : Conv Δ (.letg ds b) (.letg ds b') := by
  have hW' : DWF (pushGroupX ds 0 (Γ, Δ)).2 := Canonical.DWF_pushGroupX ds hW
  have j := CCPar.Conv.join h hW'
  rw [CheckSound.pushGroupX_eq] at j
  have g := CCPar.group_transfer Δ ds b b' hW j
  have c := conv_unerase (CheckComplete.join_conv (DWF_erD hW) g) Δ rfl hD
  have h1 : (Tm.letg ds b).holeFree = true := by simp [Tm.holeFree, hds, hb]
  have h2 : (Tm.letg ds b').holeFree = true := by simp [Tm.holeFree, hds, hb']
  exact .trans (.same (CheckComplete.sameX_er _ h1)) (.trans c (.symm (.same (CheckComplete.sameX_er _ h2))))

/-- **Normalisation under a group's context vs normalisation of the closed group**: if the open term
normalises to `w` under the group (δ-unfolding the group's variables from the context) and the closed group
normalises to `w'` (unfolding the group by substitution), then `w'` is convertible with `w` closed by the
same group. -/
theorem whnfX_group {Γ : TCtxX} {Δ : DCtxX} {ds : Defs} {t w w' : Tm} {f g : Nat} (hW : DWF Δ) (hD : DHF Δ)
    (hds : ds.holeFree = true) (ht : t.holeFree = true)
    (hD' : DHF (pushGroupX ds 0 (Γ, Δ)).2)
    (h : whnfX f (pushGroupX ds 0 (Γ, Δ)).2 t = some w) (h' : whnfX g Δ (.letg ds t) = some w') :
    Conv Δ (.letg ds t) (.letg ds w) ∧ Conv Δ w' (.letg ds w) := by
  have hw : w.holeFree = true := TypingSound.whnfX_holeFree h hD' ht
  have c1 : Conv Δ (.letg ds t) (.letg ds w) := Conv_group hW hD hds ht hw (TypingSound.whnfX_conv h)
  exact ⟨c1, .trans (.symm (TypingSound.whnfX_conv h')) c1⟩

/-- **Conversion under a group's context vs conversion of the closed groups**: what the check accepts under
the group is convertible when closed, and the check on the closed groups never answers "different". -/
theorem convX_group {Γ : TCtxX} {Δ : DCtxX} {ds : Defs} {t u : Tm} {f : Nat} (hW : DWF Δ) (hD : DHF Δ)
    (hds : ds.holeFree = true) (ht : t.holeFree = true) (hu : u.holeFree = true)
    (hD' : DHF (pushGroupX ds 0 (Γ, Δ)).2)
    (h : convX f (pushGroupX ds 0 (Γ, Δ)).2 t u = some true) :
    Conv Δ (.letg ds t) (.letg ds u) ∧ ∀ g, convX g Δ (.letg ds t) (.letg ds u) ≠ some false := by
  have c : Conv Δ (.letg ds t) (.letg ds u) :=
    Conv_group hW hD hds ht hu (TypingSound.convX_sound f _ t u ht hu hD' h)
  have h1 : (Tm.letg ds t).holeFree = true := by simp [Tm.holeFree, hds, ht]
  have h2 : (Tm.letg ds u).holeFree = true := by simp [Tm.holeFree, hds, hu]
  exact ⟨c, fun g => ConvCoherence.convX_of_conv h1 h2 hD hW c⟩

end Group

end CtxWrap
