import GramModel.Lemmas.ParsePrinted12

/-! # The applications pass on the whole parsed tree of a printed term

`lsrc I nm t`: the surface tree of `t` itself (applications left-nested, no ranges, no `group` flags,
no errors) — what the three re-association passes are expected to return up to `strip`. -/

namespace PModel
open RewriteMore PrintDerives

section Defs
variable (I : List Char → Name) (nm : Name → List Char)

mutual
/-- the surface tree of `t` itself, stripped -/
def lsrc : Tm → Src
  | .hole _ _ => mk00 (.var (I holeText))
  | .type => mk00 .type
  | .int => mk00 .int
  | .bool => mk00 .bool
  | .tt => mk00 .tt
  | .ff => mk00 .ff
  | .lit n => mk00 (.lit n)
  | .var x _ => mk00 (.var (I (nm x)))
  | .lam x imp d b => mk00 (.lam ⟨⟨0, 0⟩, I (nm x)⟩ imp (.some (lsrc d)) (lsrc b))
  | .pi x imp d c =>
      if freeAt c 0 then mk00 (.pi ⟨⟨0, 0⟩, I (nm x)⟩ imp (lsrc d) (lsrc c))
      else mk00 (.pi ⟨⟨0, 0⟩, placeholder⟩ false (lsrc d) (lsrc c))
  | .app f a => mk00 (.app (lsrc f) (lsrc a))
  | .letg ds b => lsrcDefs ds (lsrc b)
  | .neg a => mk00 (.neg (lsrc a))
  | .bin op a b => mk00 (.bin op (lsrc a) (lsrc b))
  | .ite c a b => mk00 (.ite (lsrc c) (lsrc a) (lsrc b))
def lsrcDefs : Defs → Src → Src
  | .nil, body => body
  | .cons x a d r, body =>
      mk00 (.let_ ⟨⟨0, 0⟩, I (nm x)⟩ (.some (lsrc a)) (lsrc d) (lsrcDefs r body))
end

/-- the stripped operands of an application chain -/
def latomsOf : Tm → List Src
  | .app f a => (if isApp f then latomsOf f else [lsrc I nm f]) ++ [lsrc I nm a]
  | _ => []

def lheads (t : Tm) : List Src := if isApp t then latomsOf I nm t else [lsrc I nm t]

theorem latomsOf_app (f a : Tm) :
    latomsOf I nm (.app f a) = lheads I nm f ++ [lsrc I nm a] := by
  rw [latomsOf]; rfl

theorem leftN_snoc : ∀ (l : List Src) (h x : Src), leftN h (l ++ [x]) = mk00 (.app (leftN h l) x)
  | [], h, x => rfl
  | y :: l, h, x => by simp only [List.cons_append, leftN]; exact leftN_snoc l _ x

/-- the left-nested application of the operands is the tree of the application -/
theorem chainRes_latoms : ∀ t : Tm, isApp t = true →
    chainRes none (latomsOf I nm t) = lsrc I nm t
  | .app f a, _ => by
    rw [latomsOf_app, lsrc]
    unfold lheads
    by_cases hf : isApp f = true
    · simp only [hf, if_true]
      have ih := chainRes_latoms f hf
      cases hl : latomsOf I nm f with
      | nil => rw [hl] at ih; cases f <;> simp [isApp] at hf; rw [latomsOf_app] at hl; simp at hl
      | cons y l =>
        rw [hl] at ih
        simp only [chainRes, List.cons_append] at ih ⊢
        rw [leftN_snoc, ih]
    · simp only [hf, if_false, Bool.false_eq_true]
      rfl
  | .hole _ _, h | .type, h | .int, h | .bool, h | .tt, h | .ff, h | .lit _, h | .var _ _, h
  | .lam _ _ _ _, h | .pi _ _ _ _, h | .letg _ _, h | .neg _, h | .bin _ _ _, h | .ite _ _ _, h => by
    simp [isApp] at h

end Defs

/-! ## Shape inversions -/

theorem shape_neg_inv {s e : Src} (h : shape s = mk0 false (.neg e)) :
    ∃ r x, s = .mk r false (.neg x) [] ∧ shape x = e := by
  obtain ⟨r, g, v, es⟩ := s
  cases v <;> simp [shape, shapeV, mk0] at h
  obtain ⟨rfl, rfl, rfl⟩ := h
  exact ⟨r, _, rfl, rfl⟩

theorem shape_bin_inv {s e1 e2 : Src} {o : BinOp} (h : shape s = mk0 false (.bin o e1 e2)) :
    ∃ r x y, s = .mk r false (.bin o x y) [] ∧ shape x = e1 ∧ shape y = e2 := by
  obtain ⟨r, g, v, es⟩ := s
  cases v <;> simp [shape, shapeV, mk0] at h
  obtain ⟨rfl, ⟨rfl, rfl, rfl⟩, rfl⟩ := h
  exact ⟨r, _, _, rfl, rfl, rfl⟩

theorem shape_ite_inv {s e1 e2 e3 : Src} (h : shape s = mk0 false (.ite e1 e2 e3)) :
    ∃ r x y z, s = .mk r false (.ite x y z) [] ∧ shape x = e1 ∧ shape y = e2 ∧ shape z = e3 := by
  obtain ⟨r, g, v, es⟩ := s
  cases v <;> simp [shape, shapeV, mk0] at h
  obtain ⟨rfl, ⟨rfl, rfl, rfl⟩, rfl⟩ := h
  exact ⟨r, _, _, _, rfl, rfl, rfl, rfl⟩

theorem shape_pi_inv {s e1 e2 : Src} {x : Name} {imp : Bool}
    (h : shape s = mk0 false (.pi ⟨⟨0, 0⟩, x⟩ imp e1 e2)) :
    ∃ r vr a b, s = .mk r false (.pi ⟨vr, x⟩ imp a b) [] ∧ shape a = e1 ∧ shape b = e2 := by
  obtain ⟨r, g, v, es⟩ := s
  cases v <;> simp [shape, shapeV, mk0] at h
  rename_i v imp' a b
  obtain ⟨vr, vn⟩ := v
  obtain ⟨rfl, ⟨hv, rfl, rfl, rfl⟩, rfl⟩ := h
  simp at hv; subst hv
  exact ⟨r, vr, _, _, rfl, rfl, rfl⟩

theorem shape_lam_inv {s e1 e2 : Src} {x : Name} {imp : Bool}
    (h : shape s = mk0 false (.lam ⟨⟨0, 0⟩, x⟩ imp (.some e1) e2)) :
    ∃ r vr a b, s = .mk r false (.lam ⟨vr, x⟩ imp (.some a) b) [] ∧ shape a = e1 ∧ shape b = e2 := by
  obtain ⟨r, g, v, es⟩ := s
  cases v <;> simp [shape, shapeV, mk0] at h
  rename_i v imp' dom b
  obtain ⟨vr, vn⟩ := v
  obtain ⟨rfl, ⟨hv, rfl, hd, rfl⟩, rfl⟩ := h
  simp at hv; subst hv
  cases dom with
  | none => simp [shapeO] at hd
  | some a => simp [shapeO] at hd; exact ⟨r, vr, a, _, rfl, hd, rfl⟩

theorem shape_let_inv {s e1 e2 e3 : Src} {x : Name}
    (h : shape s = mk0 false (.let_ ⟨⟨0, 0⟩, x⟩ (.some e1) e2 e3)) :
    ∃ r vr a d b, s = .mk r false (.let_ ⟨vr, x⟩ (.some a) d b) [] ∧ shape a = e1 ∧ shape d = e2 ∧
      shape b = e3 := by
  obtain ⟨r, g, v, es⟩ := s
  cases v <;> simp [shape, shapeV, mk0] at h
  rename_i v ann d b
  obtain ⟨vr, vn⟩ := v
  obtain ⟨rfl, ⟨hv, ha, rfl, rfl⟩, rfl⟩ := h
  simp at hv; subst hv
  cases ann with
  | none => simp [shapeO] at ha
  | some a => simp [shapeO] at ha; exact ⟨r, vr, a, _, _, rfl, ha, rfl, rfl⟩

/-! ## The applications pass, subtree by subtree -/

/-- the applications pass succeeds on `x` and returns `E` up to ranges, flags, errors -/
def Res1 (x E : Src) : Prop := ∃ x1, reassoc .applications none x = some x1 ∧ strip x1 = E

theorem strip_eq_of_variant {a b : Src} (h : a.variant = b.variant) : strip a = strip b := by
  obtain ⟨_, _, va, _⟩ := a
  obtain ⟨_, _, vb, _⟩ := b
  simp only [Src.variant] at h
  subst h; rfl

theorem Res1.flag {r r' : SourceRange} {g g' : Bool} {v : SrcV} {es es' : List PErr} {E : Src}
    (h : Res1 (.mk r g v es) E) : Res1 (.mk r' g' v es') E := by
  obtain ⟨s1, h1, hs⟩ := h
  have := reassoc_top .applications r r' g g' v es es'
  rw [h1] at this
  cases h' : reassoc .applications none (.mk r' g' v es') with
  | none => rw [h'] at this; cases this
  | some x1 =>
    rw [h'] at this
    simp only [Option.map_some, Option.some.injEq] at this
    exact ⟨x1, h', by rw [strip_eq_of_variant this, hs]⟩

theorem Res1.of_setG {e E : Src} (ih : ∀ s, shape s = e → Res1 s E) {x : Src}
    (h : shape x = setG e) : Res1 x E := by
  obtain ⟨r, g, v, es⟩ := x
  obtain ⟨re, ge, ve, ese⟩ := e
  simp only [shape, setG, Src.mk.injEq] at h
  obtain ⟨hr, _, hv, hes⟩ := h
  exact (ih (.mk r ge v es) (by simp [shape, hr, hv, hes])).flag

/-- operands with their expected stripped results -/
inductive AtomsRes : List Src → List Src → Prop
  | nil : AtomsRes [] []
  | cons {x e : Src} {l E : List Src} : Opaque .applications x → Res1 x e → AtomsRes l E →
      AtomsRes (x :: l) (e :: E)

theorem AtomsRes.append {l1 l2 E1 E2 : List Src} (h1 : AtomsRes l1 E1) (h2 : AtomsRes l2 E2) :
    AtomsRes (l1 ++ l2) (E1 ++ E2) := by
  induction h1 with
  | nil => exact h2
  | cons ho hr _ ih => exact .cons ho hr ih

theorem AtomsRes.ops {l E : List Src} (h : AtomsRes l E) : ∃ l', Ops l l' ∧ l'.map strip = E := by
  induction h with
  | nil => exact ⟨[], .nil, rfl⟩
  | cons ho hr _ ih =>
    obtain ⟨l', h1, h2⟩ := ih
    obtain ⟨x1, hx, hs⟩ := hr
    exact ⟨x1 :: l', .cons ⟨ho, hx⟩ h1, by simp [hs, h2]⟩

end PModel
