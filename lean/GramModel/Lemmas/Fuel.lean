import GramModel.Oracle
import GramModel.Lemmas.DeBruijn
import GramModel.Lemmas.Oracle

/-!
# Fuel monotonicity of the independent checker, symmetry of `convX`, inverse of a downward shift

* `FuelLemmas.ushift_of_sshift_neg`: a successful downward shift is undone by the upward one.
* `letAllX`, `whnfX`, `convX`, `isTypeX`, `expectX`, `inferX`/`inferDefsX`: an answer other than
  "out of fuel" is kept at every larger fuel.
* `convX` is symmetric (holes included: the two hole arms are symmetric as a pair).
-/

namespace FuelLemmas

/-! ## a downward shift that succeeds is inverted by the upward shift -/

mutual
theorem ushift_of_sshift_neg : ∀ (t r : Tm) (c k : Nat),
    sshift c (-(k : Int)) t = some r → ushift c k r = t
  | .var x i, r, c, k, h => by
      simp only [sshift] at h
      split at h
      · split at h
        · injection h with h; subst h
          have : ((i : Int) + -(k : Int)).toNat ≥ c := by omega
          simp only [ushift, this, if_true]
          congr 1; omega
        · cases h
      · injection h with h; subst h
        rename_i hc; simp [ushift, hc]
  | .hole id s, r, c, k, h => by
      simp only [sshift] at h
      split at h
      · split at h
        · injection h with h; subst h
          have : ((s : Int) + -(k : Int)).toNat ≥ c := by omega
          simp only [ushift, this, if_true]
          congr 1; omega
        · cases h
      · injection h with h; subst h
        rename_i hc; simp [ushift, hc]
  | .lam x im d b, r, c, k, h => by
      simp only [sshift] at h
      repeat (split at h <;> try (cases h; done))
      rename_i _ d' hd _ b' hb
      injection h with h; subst h
      simp [ushift, ushift_of_sshift_neg d d' c k hd, ushift_of_sshift_neg b b' (c+1) k hb]
  | .pi x im d b, r, c, k, h => by
      simp only [sshift] at h
      repeat (split at h <;> try (cases h; done))
      rename_i _ d' hd _ b' hb
      injection h with h; subst h
      simp [ushift, ushift_of_sshift_neg d d' c k hd, ushift_of_sshift_neg b b' (c+1) k hb]
  | .app f a, r, c, k, h => by
      simp only [sshift] at h
      repeat (split at h <;> try (cases h; done))
      rename_i _ d' hd _ b' hb
      injection h with h; subst h
      simp [ushift, ushift_of_sshift_neg f d' c k hd, ushift_of_sshift_neg a b' c k hb]
  | .letg ds b, r, c, k, h => by
      simp only [sshift] at h
      repeat (split at h <;> try (cases h; done))
      rename_i _ d' hd _ b' hb
      injection h with h; subst h
      simp [ushift, sshiftDefs_len ds d' _ _ hd,
        ushiftDefs_of_sshiftDefs_neg ds d' (c + ds.len) k hd,
        ushift_of_sshift_neg b b' (c + ds.len) k hb]
  | .neg a, r, c, k, h => by
      simp only [sshift] at h
      repeat (split at h <;> try (cases h; done))
      rename_i _ d' hd
      injection h with h; subst h
      simp [ushift, ushift_of_sshift_neg a d' c k hd]
  | .bin op a b, r, c, k, h => by
      simp only [sshift] at h
      repeat (split at h <;> try (cases h; done))
      rename_i _ d' hd _ b' hb
      injection h with h; subst h
      simp [ushift, ushift_of_sshift_neg a d' c k hd, ushift_of_sshift_neg b b' c k hb]
  | .ite a b d, r, c, k, h => by
      simp only [sshift] at h
      repeat (split at h <;> try (cases h; done))
      rename_i _ a' ha _ b' hb _ d' hd
      injection h with h; subst h
      simp [ushift, ushift_of_sshift_neg a a' c k ha, ushift_of_sshift_neg b b' c k hb,
        ushift_of_sshift_neg d d' c k hd]
  | .type, r, c, k, h | .int, r, c, k, h | .bool, r, c, k, h | .tt, r, c, k, h
  | .ff, r, c, k, h | .lit _, r, c, k, h => by
      simp only [sshift] at h; injection h with h; subst h; simp [ushift]
theorem ushiftDefs_of_sshiftDefs_neg : ∀ (ds rs : Defs) (c k : Nat),
    sshiftDefs c (-(k : Int)) ds = some rs → ushiftDefs c k rs = ds
  | .nil, rs, c, k, h => by
      simp only [sshiftDefs] at h; injection h with h; subst h; simp [ushiftDefs]
  | .cons x a d r, rs, c, k, h => by
      simp only [sshiftDefs] at h
      repeat (split at h <;> try (cases h; done))
      rename_i _ a' ha _ d' hd _ r' hr
      injection h with h; subst h
      simp [ushiftDefs, ushift_of_sshift_neg a a' c k ha, ushift_of_sshift_neg d d' c k hd,
        ushiftDefs_of_sshiftDefs_neg r r' c k hr]
end

/-- the three facts `C12_solution_scoped_stmt` asks for -/
theorem solution_scoped (other sol : Tm) (k : Nat) (hf : other.holeFree = true)
    (h : sshift 0 (-(k : Int)) other = some sol) :
    (∀ j, freeAt sol j = true → freeAt other (j + k) = true) ∧
    (∀ j, j < k → freeAt other j = false) ∧ ushift 0 k sol = other := by
  have hu := ushift_of_sshift_neg other sol 0 k h
  refine ⟨?_, ?_, hu⟩
  · intro j hj
    have := freeAt_ushift sol 0 k (j + k)
    rw [hu] at this
    rw [this]
    have h1 : ¬ (j + k < 0) := by omega
    have h2 : ¬ (j + k < 0 + k) := by omega
    simp only [h1, h2, if_false, Nat.add_sub_cancel]
    exact hj
  · intro j hj
    have h1 := sshift_down_isSome other 0 k
    rw [h] at h1
    have h2 : lowFree other 0 k = false := by
      cases hl : lowFree other 0 k
      · rfl
      · rw [hl] at h1; simp at h1
    cases hfa : freeAt other j
    · rfl
    · have := (lowFree_iff_freeAt other 0 k hf).2 ⟨j, by omega, by omega, hfa⟩
      rw [h2] at this; cases this

/-! ## fuel monotonicity -/

theorem letAllX_mono : ∀ (f : Nat) (ds : Defs) (b r : Tm),
    letAllX f ds b = some r → letAllX (f+1) ds b = some r
  | 0, ds, b, r, h => by simp [letAllX] at h
  | f+1, .nil, b, r, h => by simpa [letAllX] using h
  | f+1, .cons x a d rest, b, r, h => by
      simp only [letAllX] at h ⊢
      exact letAllX_mono f _ _ r h

theorem whnfX_mono : ∀ (f : Nat) (Δ : DCtxX) (t r : Tm),
    whnfX f Δ t = some r → whnfX (f+1) Δ t = some r := by
  intro f
  induction f with
  | zero => intro Δ t r h; simp [whnfX] at h
  | succ f ih =>
    intro Δ t r h
    unfold whnfX at h ⊢
    cases t <;> simp only at h ⊢ <;> try exact h
    case var x i =>
      split at h
      · cases h
      · exact h
      · split at h
        · cases h
        · rename_i hlt; simp only [hlt, if_false]; exact ih _ _ _ h
    case app g a =>
      revert h
      cases hg : whnfX f Δ g with
      | none => intro h; cases h
      | some g' =>
        rw [ih _ _ _ hg]
        cases g' <;> simp only <;> intro h <;> first | exact h | exact ih _ _ _ h
    case letg ds b =>
      revert h
      cases hg : letAllX (f+1) ds b with
      | none => intro h; cases h
      | some g' =>
        rw [letAllX_mono _ _ _ _ hg]
        simp only; intro h; exact ih _ _ _ h
    case neg a =>
      revert h
      cases hg : whnfX f Δ a with
      | none => intro h; cases h
      | some g' =>
        rw [ih _ _ _ hg]
        exact id
    case bin op a b =>
      revert h
      cases ha : whnfX f Δ a with
      | none => simp
      | some a' =>
        cases hb : whnfX f Δ b with
        | none => simp
        | some b' =>
          rw [ih _ _ _ ha, ih _ _ _ hb]
          exact id
    case ite c a b =>
      revert h
      cases hg : whnfX f Δ c with
      | none => intro h; cases h
      | some g' =>
        rw [ih _ _ _ hg]
        cases g' <;> simp only <;> intro h <;> first | exact h | exact ih _ _ _ h



set_option hygiene false in
local macro "conv_seq" k:tactic : tactic => `(tactic| (
  revert h
  generalize hx : convX f _ _ _ = cx
  cases cx with
  | none => intro h; cases h
  | some v =>
    rw [ih _ _ _ _ hx]
    cases v <;> simp only <;> intro h
    · exact h
    · ($k:tactic)))

set_option hygiene false in
local macro "conv_if" k:tactic : tactic => `(tactic| (
  split at h
  · rename_i hc; simp only [hc, if_true]; $k
  · rename_i hc; simp only [hc, if_false]; exact h))

theorem convX_mono : ∀ (f : Nat) (Δ : DCtxX) (a b : Tm) (r : Bool),
    convX f Δ a b = some r → convX (f+1) Δ a b = some r := by
  intro f
  induction f with
  | zero => intro Δ a b r h; simp [convX] at h
  | succ f ih =>
    intro Δ a b r h
    unfold convX at h ⊢
    split
    · rename_i hs; simpa [hs] using h
    · rename_i hs
      simp only [hs] at h
      revert h
      cases ha : whnfX f Δ a with
      | none => simp
      | some wa =>
        cases hb : whnfX f Δ b with
        | none => simp
        | some wb =>
          rw [whnfX_mono _ _ _ _ ha, whnfX_mono _ _ _ _ hb]
          simp only [Bool.false_eq_true, if_false]
          intro h
          split at h
          all_goals try exact h
          · conv_if (exact ih _ _ _ _ h)
          · conv_if (conv_seq (exact ih _ _ _ _ h))
          · conv_seq (exact ih _ _ _ _ h)
          · exact ih _ _ _ _ h
          · conv_if (conv_seq (exact ih _ _ _ _ h))
          · conv_seq (conv_seq (exact ih _ _ _ _ h))

theorem isTypeX_mono (f : Nat) (Δ : DCtxX) (ty : Tm) (h : isTypeX f Δ ty ≠ .error .fuel) :
    isTypeX (f+1) Δ ty = isTypeX f Δ ty := by
  unfold isTypeX at h ⊢
  cases hc : convX f Δ ty .type with
  | none => rw [hc] at h; exact absurd rfl h
  | some v => rw [convX_mono _ _ _ _ _ hc]

theorem expectX_mono (f : Nat) (Δ : DCtxX) (a b : Tm) (e : XErr)
    (h : expectX f Δ a b e ≠ .error .fuel) :
    expectX (f+1) Δ a b e = expectX f Δ a b e := by
  unfold expectX at h ⊢
  cases hc : convX f Δ a b with
  | none => rw [hc] at h; exact absurd rfl h
  | some v => rw [convX_mono _ _ _ _ _ hc]


theorem ne_fuel_of_error {α} {x : Except XErr α} {e : XErr} (hx : x = .error e) (he : e ≠ .fuel) :
    x ≠ .error .fuel := by
  subst hx; intro c; injection c with c; exact he c

theorem ne_fuel_of_ok {α} {x : Except XErr α} {v : α} (hx : x = .ok v) : x ≠ .error .fuel := by
  subst hx; intro c; cases c

theorem error_ne_fuel {α} {e : XErr} (h : (Except.error e : Except XErr α) ≠ .error .fuel) :
    e ≠ .fuel := fun c => h (by rw [c])

set_option hygiene false in
local macro "ex_seq" pat:term "," lem:term "," k:tactic : tactic => `(tactic| (
  revert h
  generalize hx : $pat = cx
  cases cx with
  | error e =>
    intro h
    have hx' := $lem (ne_fuel_of_error hx (error_ne_fuel h))
    rw [hx] at hx'
    rw [hx']
  | ok v =>
    have hx' := $lem (ne_fuel_of_ok hx)
    rw [hx] at hx'
    rw [hx']
    intro h
    (try simp only at h)
    (try simp only)
    first | done | ($k:tactic)))

theorem inferX_mono_aux : ∀ (f : Nat),
    (∀ (Γ : TCtxX) (Δ : DCtxX) (t : Tm), inferX f Γ Δ t ≠ .error .fuel →
      inferX (f+1) Γ Δ t = inferX f Γ Δ t) ∧
    (∀ (Γ : TCtxX) (Δ : DCtxX) (ds : Defs), inferDefsX f Γ Δ ds ≠ .error .fuel →
      inferDefsX (f+1) Γ Δ ds = inferDefsX f Γ Δ ds) := by
  intro f
  induction f with
  | zero =>
    constructor
    · intro Γ Δ t h; exact absurd (by simp [inferX]) h
    · intro Γ Δ ds h; exact absurd (by simp [inferDefsX]) h
  | succ f ih =>
    obtain ⟨ih1, ih2⟩ := ih
    constructor
    · intro Γ Δ t h
      unfold inferX at h ⊢
      cases t <;> simp only at h ⊢
      case lam x im d b =>
        ex_seq inferX f _ _ _, ih1 _ _ _,
          (ex_seq isTypeX f _ _, isTypeX_mono _ _ _,
            (ex_seq inferX f _ _ _, ih1 _ _ _, rfl))
      case pi x im d b =>
        ex_seq inferX f _ _ _, ih1 _ _ _,
          (ex_seq isTypeX f _ _, isTypeX_mono _ _ _,
            (ex_seq inferX f _ _ _, ih1 _ _ _,
              (ex_seq isTypeX f _ _, isTypeX_mono _ _ _, rfl)))
      case neg a =>
        ex_seq inferX f _ _ _, ih1 _ _ _,
          (ex_seq expectX f _ _ _ _, expectX_mono _ _ _ _ _, rfl)
      case bin op a b =>
        ex_seq inferX f _ _ _, ih1 _ _ _,
          (ex_seq expectX f _ _ _ _, expectX_mono _ _ _ _ _,
            (ex_seq inferX f _ _ _, ih1 _ _ _,
              (ex_seq expectX f _ _ _ _, expectX_mono _ _ _ _ _, rfl)))
      case ite c a b =>
        ex_seq inferX f _ _ _, ih1 _ _ _,
          (ex_seq expectX f _ _ _ _, expectX_mono _ _ _ _ _,
            (ex_seq inferX f _ _ _, ih1 _ _ _,
              (ex_seq inferX f _ _ _, ih1 _ _ _,
                (ex_seq expectX f _ _ _ _, expectX_mono _ _ _ _ _, rfl))))
      case letg ds b =>
        ex_seq inferDefsX f _ _ _, ih2 _ _ _, (ex_seq inferX f _ _ _, ih1 _ _ _, rfl)
      case app g a =>
        ex_seq inferX f _ _ _, ih1 _ _ _,
          (revert h
           generalize hw : whnfX f _ _ = w
           cases w with
           | none => intro h; exact absurd rfl h
           | some w =>
             rw [whnfX_mono _ _ _ _ hw]
             cases w <;> intro h <;> (try simp only at h ⊢)
             · ex_seq inferX f _ _ _, ih1 _ _ _, rfl
             · ex_seq inferX f _ _ _, ih1 _ _ _,
                 (ex_seq expectX f _ _ _ _, expectX_mono _ _ _ _ _, rfl))
    · intro Γ Δ ds h
      unfold inferDefsX at h ⊢
      cases ds <;> simp only at h ⊢
      case cons x a d r =>
        ex_seq inferX f _ _ _, ih1 _ _ _,
          (ex_seq isTypeX f _ _, isTypeX_mono _ _ _,
            (ex_seq inferX f _ _ _, ih1 _ _ _,
              (ex_seq expectX f _ _ _ _, expectX_mono _ _ _ _ _, exact ih2 _ _ _ h)))

theorem inferX_mono (f : Nat) (Γ : TCtxX) (Δ : DCtxX) (t : Tm) (r : Except XErr Tm)
    (h : inferX f Γ Δ t = r) (hr : r ≠ .error .fuel) : inferX (f+1) Γ Δ t = r := by
  subst h; exact (inferX_mono_aux f).1 Γ Δ t hr

theorem beq_comm' {α} [BEq α] [LawfulBEq α] (a b : α) : (a == b) = (b == a) := by
  rw [Bool.eq_iff_iff]; simp only [beq_iff_eq]; exact eq_comm

/-! ## the same for every larger fuel -/

theorem whnfX_mono_le {f g : Nat} (hfg : f ≤ g) {Δ : DCtxX} {t r : Tm}
    (h : whnfX f Δ t = some r) : whnfX g Δ t = some r := by
  induction hfg with
  | refl => exact h
  | step _ ih => exact whnfX_mono _ _ _ _ ih

theorem convX_mono_le {f g : Nat} (hfg : f ≤ g) {Δ : DCtxX} {a b : Tm} {r : Bool}
    (h : convX f Δ a b = some r) : convX g Δ a b = some r := by
  induction hfg with
  | refl => exact h
  | step _ ih => exact convX_mono _ _ _ _ _ ih

theorem inferX_mono_le {f g : Nat} (hfg : f ≤ g) {Γ : TCtxX} {Δ : DCtxX} {t : Tm}
    {r : Except XErr Tm} (h : inferX f Γ Δ t = r) (hr : r ≠ .error .fuel) :
    inferX g Γ Δ t = r := by
  induction hfg with
  | refl => exact h
  | step _ ih => exact inferX_mono _ _ _ _ _ ih hr

/-! ## symmetry of `convX` (no hole-freeness needed) -/

theorem convX_symm : ∀ (f : Nat) (Δ : DCtxX) (a b : Tm), convX f Δ a b = convX f Δ b a := by
  intro f
  induction f with
  | zero => intro Δ a b; simp [convX]
  | succ f ih =>
    intro Δ a b
    unfold convX
    rw [OracleLemmas.sameX_symm b a]
    split
    · rfl
    · cases whnfX f Δ a with
      | none => cases whnfX f Δ b <;> rfl
      | some wa =>
        cases whnfX f Δ b with
        | none => rfl
        | some wb =>
          simp only
          cases wa <;> cases wb <;> simp only
          case lit.lit n m => rw [beq_comm' n m]
          case var.var x i y j => rw [beq_comm' i j]
          case lam.lam x1 i1 d1 b1 x2 i2 d2 b2 =>
            rw [beq_comm' i1 i2, ih (none :: Δ) b1 b2]
          case pi.pi x1 i1 d1 b1 x2 i2 d2 b2 =>
            rw [beq_comm' i1 i2, ih Δ d1 d2, ih (none :: Δ) b1 b2]
          case app.app f1 a1 f2 a2 => rw [ih Δ f1 f2, ih Δ a1 a2]
          case neg.neg a1 a2 => exact ih Δ a1 a2
          case bin.bin o1 a1 b1 o2 a2 b2 =>
            rw [beq_comm' o1 o2, ih Δ a1 a2, ih Δ b1 b2]
          case ite.ite c1 a1 b1 c2 a2 b2 => rw [ih Δ c1 c2, ih Δ a1 a2, ih Δ b1 b2]

end FuelLemmas
