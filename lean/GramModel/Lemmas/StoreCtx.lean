import GramModel.Check

/-!
# Hoare-style reasoning about the store monad `M`, and the context-restoration / elaboration-identity
lemmas for the checker (C18, C05)

Reusable pieces:

* `M.bind_ok_inv`, `M.pure_ok_iff`, ... : inversion of `.ok` runs through `>>=` / `pure`.
* `Hoare P m Q` : generic partial-correctness triple over `M` (`Hoare.bind`, `Hoare.pure`, `Hoare.conseq`).
* `CtxH T D m T' D'` : "started with contexts `T`,`D`, a successful run of `m` ends with contexts `T'`,`D'`".
* `Post m Q` : every value returned by a successful run of `m` satisfies `Q`.
-/

/-! ## Inversion lemmas -/

theorem M.bind_ok_inv {α β} {m : M α} {f : α → M β} {s : St} {b : β} {s2 : St}
    (h : (m >>= f) s = .ok b s2) : ∃ a s1, m s = .ok a s1 ∧ f a s1 = .ok b s2 := by
  have h : M.bind m f s = .ok b s2 := h
  simp only [M.bind] at h
  split at h
  · exact ⟨_, _, by assumption, h⟩
  · cases h
  · cases h

theorem M.bind_ok_iff {α β} {m : M α} {f : α → M β} {s : St} {b : β} {s2 : St} :
    (m >>= f) s = .ok b s2 ↔ ∃ a s1, m s = .ok a s1 ∧ f a s1 = .ok b s2 := by
  constructor
  · exact M.bind_ok_inv
  · rintro ⟨a, s1, h1, h2⟩
    show M.bind m f s = .ok b s2
    simp only [M.bind, h1, h2]

theorem M.pure_ok_iff {α} {a b : α} {s s' : St} :
    (pure a : M α) s = .ok b s' ↔ a = b ∧ s = s' := by
  show M.pure a s = .ok b s' ↔ _
  simp only [M.pure]
  constructor
  · intro h; cases h; exact ⟨rfl, rfl⟩
  · rintro ⟨rfl, rfl⟩; rfl

theorem outOfFuel_ne_ok {α} {s : St} {a : α} {s' : St} : (outOfFuel : M α) s ≠ .ok a s' := by
  intro h; cases h
theorem panicAt_ne_ok {α} {site : String} {s : St} {a : α} {s' : St} :
    (panicAt site : M α) s ≠ .ok a s' := by
  intro h; cases h
theorem modifySt_ok_iff {g : St → St} {s : St} {a : Unit} {s' : St} :
    modifySt g s = .ok a s' ↔ s' = g s := by
  simp only [modifySt]
  constructor
  · intro h; cases h; rfl
  · rintro rfl; rfl

/-! ## Generic triples -/

def Hoare {α} (P : St → Prop) (m : M α) (Q : α → St → Prop) : Prop :=
  ∀ s a s', P s → m s = .ok a s' → Q a s'

theorem Hoare.bind {α β} {P : St → Prop} {Q : α → St → Prop} {R : β → St → Prop}
    {m : M α} {f : α → M β}
    (h1 : Hoare P m Q) (h2 : ∀ a, Hoare (Q a) (f a) R) : Hoare P (m >>= f) R := by
  intro s b s2 hp h
  obtain ⟨a, s1, e1, e2⟩ := M.bind_ok_inv h
  exact h2 a s1 b s2 (h1 s a s1 hp e1) e2

theorem Hoare.pure {α} {P : St → Prop} {Q : α → St → Prop} {a : α}
    (h : ∀ s, P s → Q a s) : Hoare P (pure a : M α) Q := by
  intro s b s' hp e
  obtain ⟨rfl, rfl⟩ := M.pure_ok_iff.mp e
  exact h s hp

theorem Hoare.conseq {α} {P P' : St → Prop} {Q Q' : α → St → Prop} {m : M α}
    (h : Hoare P m Q) (hp : ∀ s, P' s → P s) (hq : ∀ a s, Q a s → Q' a s) : Hoare P' m Q' :=
  fun s a s' hp' e => hq a s' (h s a s' (hp s hp') e)

theorem Hoare.outOfFuel {α} {P : St → Prop} {Q : α → St → Prop} : Hoare P (outOfFuel : M α) Q :=
  fun _ _ _ _ e => absurd e outOfFuel_ne_ok
theorem Hoare.panicAt {α} {P : St → Prop} {Q : α → St → Prop} {site : String} :
    Hoare P (panicAt site : M α) Q :=
  fun _ _ _ _ e => absurd e panicAt_ne_ok

/-! ## Context triples -/

/-- Started with typing context `T` and definitions context `D`, every successful run of `m` ends with
contexts `T'` and `D'`. -/
def CtxH {α} (T : List (Tm × Nat)) (D : List (Option (Tm × Nat))) (m : M α)
    (T' : List (Tm × Nat)) (D' : List (Option (Tm × Nat))) : Prop :=
  ∀ s a s', s.tctx = T → s.dctx = D → m s = .ok a s' → s'.tctx = T' ∧ s'.dctx = D'

section
variable {α β : Type} {T T1 T2 : List (Tm × Nat)} {D D1 D2 : List (Option (Tm × Nat))}

theorem CtxH.bind {m : M α} {f : α → M β}
    (h1 : CtxH T D m T1 D1) (h2 : ∀ a, CtxH T1 D1 (f a) T2 D2) : CtxH T D (m >>= f) T2 D2 := by
  intro s b s2 ht hd h
  obtain ⟨a, s1, e1, e2⟩ := M.bind_ok_inv h
  obtain ⟨ht1, hd1⟩ := h1 s a s1 ht hd e1
  exact h2 a s1 b s2 ht1 hd1 e2

/-- bind whose first action preserves the contexts -/
theorem CtxH.bind_same {m : M α} {f : α → M β}
    (h1 : CtxH T D m T D) (h2 : ∀ a, CtxH T D (f a) T2 D2) : CtxH T D (m >>= f) T2 D2 := CtxH.bind h1 h2

theorem CtxH.pure {a : α} : CtxH T D (pure a : M α) T D := by
  intro s b s' ht hd e
  obtain ⟨_, rfl⟩ := M.pure_ok_iff.mp e
  exact ⟨ht, hd⟩

theorem CtxH.outOfFuel : CtxH T D (outOfFuel : M α) T2 D2 := fun _ _ _ _ _ e => absurd e outOfFuel_ne_ok
theorem CtxH.panicAt {site : String} : CtxH T D (panicAt site : M α) T2 D2 :=
  fun _ _ _ _ _ e => absurd e panicAt_ne_ok

theorem CtxH.modifySt {g : St → St} (hg : ∀ s, s.tctx = T → s.dctx = D → (g s).tctx = T1 ∧ (g s).dctx = D1) :
    CtxH T D (modifySt g) T1 D1 := by
  intro s a s' ht hd e
  rw [modifySt_ok_iff.mp e]
  exact hg s ht hd

theorem CtxH.getSt : CtxH T D getSt T D := by
  intro s a s' ht hd e
  cases e
  exact ⟨ht, hd⟩
theorem CtxH.cellGet {id : Nat} : CtxH T D (cellGet id) T D := by
  intro s a s' ht hd e
  cases e
  exact ⟨ht, hd⟩
theorem CtxH.cellFresh : CtxH T D cellFresh T D := by
  intro s a s' ht hd e
  cases e
  exact ⟨ht, hd⟩
theorem CtxH.cellSet {id : Nat} {t : Tm} : CtxH T D (cellSet id t) T D :=
  CtxH.modifySt fun _ ht hd => ⟨ht, hd⟩
theorem CtxH.reportError : CtxH T D reportError T D :=
  CtxH.modifySt fun _ ht hd => ⟨ht, hd⟩
theorem CtxH.pushCtx {ty : Tm × Nat} {d : Option (Tm × Nat)} : CtxH T D (pushCtx ty d) (ty :: T) (d :: D) :=
  CtxH.modifySt fun _ ht hd => by simp [ht, hd]
theorem CtxH.popCtx : CtxH T D popCtx T.tail D.tail :=
  CtxH.modifySt fun _ ht hd => by simp [ht, hd]
theorem CtxH.pushD {d : Option (Tm × Nat)} : CtxH T D (pushD d) T (d :: D) :=
  CtxH.modifySt fun _ ht hd => by simp [ht, hd]
theorem CtxH.popD : CtxH T D popD T D.tail :=
  CtxH.modifySt fun _ ht hd => by simp [ht, hd]
theorem CtxH.popCtx_cons {ty : Tm × Nat} {d : Option (Tm × Nat)} : CtxH (ty :: T) (d :: D) _root_.popCtx T D :=
  CtxH.popCtx
theorem CtxH.popD_cons {d : Option (Tm × Nat)} : CtxH T (d :: D) _root_.popD T D := CtxH.popD

end

theorem CtxH.out {α} {T T' : List (Tm × Nat)} {D D' : List (Option (Tm × Nat))} {m : M α}
    (h : CtxH T D m T' D') {s : St} {a : α} {s' : St} (e : m s = .ok a s')
    (ht : s.tctx = T) (hd : s.dctx = D) : s'.tctx = T' ∧ s'.dctx = D' := h s a s' ht hd e

/-- context preservation, as a statement about runs -/
theorem CtxH.restores {α} {m : M α} (h : ∀ T D, CtxH T D m T D) {s : St} {a : α} {s' : St}
    (e : m s = .ok a s') : s'.tctx = s.tctx ∧ s'.dctx = s.dctx := (h _ _).out e rfl rfl

attribute [irreducible] CtxH

/-- extensible: lemmas of the form `CtxH T D (f ..) T D` for functions already treated; also tries\nlocal hypotheses named `ih`, `ih1`, `ih2` -/
syntax "ctx_known" : tactic
set_option hygiene false in
macro_rules | `(tactic| ctx_known) => `(tactic| with_reducible exact ih ..)
set_option hygiene false in
macro_rules | `(tactic| ctx_known) => `(tactic| with_reducible exact ih1 ..)
set_option hygiene false in
macro_rules | `(tactic| ctx_known) => `(tactic| with_reducible exact ih2 ..)
macro_rules | `(tactic| ctx_known) => `(tactic| with_reducible exact CtxH.getSt)
macro_rules | `(tactic| ctx_known) => `(tactic| with_reducible exact CtxH.cellGet)
macro_rules | `(tactic| ctx_known) => `(tactic| with_reducible exact CtxH.cellFresh)
macro_rules | `(tactic| ctx_known) => `(tactic| with_reducible exact CtxH.cellSet)
macro_rules | `(tactic| ctx_known) => `(tactic| with_reducible exact CtxH.reportError)

/-- one step of the syntax-directed proof of an `CtxH` goal -/
macro "ctx_step" : tactic => `(tactic| first
  | with_reducible exact CtxH.pure
  | with_reducible exact CtxH.outOfFuel
  | with_reducible exact CtxH.panicAt
  | ctx_known
  | with_reducible refine CtxH.bind CtxH.pushD (fun _ => ?_)
  | with_reducible refine CtxH.bind CtxH.popD_cons (fun _ => ?_)
  | with_reducible refine CtxH.bind CtxH.pushCtx (fun _ => ?_)
  | with_reducible refine CtxH.bind CtxH.popCtx_cons (fun _ => ?_)
  | with_reducible refine CtxH.bind_same (by ctx_known) (fun _ => ?_)
  | with_reducible refine CtxH.bind_same ?_ (fun _ => ?_)
  | split)

macro "ctx_auto" : tactic => `(tactic| repeat ctx_step)

/-! ## `sshiftS` -/

theorem sshift_ctx : ∀ (f : Nat),
    (∀ c amt t T D, CtxH T D (sshiftS f c amt t) T D) ∧
    (∀ c amt ds T D, CtxH T D (sshiftDefsS f c amt ds) T D) := by
  intro f
  induction f with
  | zero =>
    constructor
    · intro c amt t T D; unfold sshiftS; exact CtxH.outOfFuel
    · intro c amt t T D; unfold sshiftDefsS; exact CtxH.outOfFuel
  | succ f ih =>
    obtain ⟨ih1, ih2⟩ := ih
    constructor
    · intro c amt t T D
      unfold sshiftS
      ctx_auto
    · intro c amt t T D
      unfold sshiftDefsS
      ctx_auto

theorem sshiftS_ctx (f c amt t T D) : CtxH T D (sshiftS f c amt t) T D := (sshift_ctx f).1 c amt t T D
theorem sshiftDefsS_ctx (f c amt ds T D) : CtxH T D (sshiftDefsS f c amt ds) T D :=
  (sshift_ctx f).2 c amt ds T D
macro_rules | `(tactic| ctx_known) => `(tactic| with_reducible exact sshiftS_ctx ..)
macro_rules | `(tactic| ctx_known) => `(tactic| with_reducible exact sshiftDefsS_ctx ..)

theorem ushiftS_ctx (f c a t T D) : CtxH T D (ushiftS f c a t) T D := by
  unfold ushiftS
  ctx_auto
macro_rules | `(tactic| ctx_known) => `(tactic| with_reducible exact ushiftS_ctx ..)

/-! ## `openS` -/

theorem open_ctx : ∀ (f : Nat),
    (∀ t i u s T D, CtxH T D (openS f t i u s) T D) ∧
    (∀ ds i u s T D, CtxH T D (openDefsS f ds i u s) T D) := by
  intro f
  induction f with
  | zero =>
    constructor
    · intros; unfold openS; exact CtxH.outOfFuel
    · intros; unfold openDefsS; exact CtxH.outOfFuel
  | succ f ih =>
    obtain ⟨ih1, ih2⟩ := ih
    constructor
    · intro t i u s T D
      unfold openS
      ctx_auto
    · intro ds i u s T D
      unfold openDefsS
      ctx_auto

theorem openS_ctx (f t i u s T D) : CtxH T D (openS f t i u s) T D := (open_ctx f).1 t i u s T D
theorem openDefsS_ctx (f ds i u s T D) : CtxH T D (openDefsS f ds i u s) T D :=
  (open_ctx f).2 ds i u s T D
macro_rules | `(tactic| ctx_known) => `(tactic| with_reducible exact openS_ctx ..)
macro_rules | `(tactic| ctx_known) => `(tactic| with_reducible exact openDefsS_ctx ..)

theorem unfoldDefS_ctx (f x ann d index T D) : CtxH T D (unfoldDefS f x ann d index) T D := by
  unfold unfoldDefS
  ctx_auto
macro_rules | `(tactic| ctx_known) => `(tactic| with_reducible exact unfoldDefS_ctx ..)

theorem substDefsS_ctx (f : Nat) : ∀ (ds : Defs) (idx : Nat) (u : Tm) T D,
    CtxH T D (substDefsS f ds idx u) T D
  | .nil, idx, u, T, D => by unfold substDefsS; exact CtxH.pure
  | .cons x a d r, idx, u, T, D => by
      have ih := substDefsS_ctx f r
      unfold substDefsS
      ctx_auto
macro_rules | `(tactic| ctx_known) => `(tactic| with_reducible exact substDefsS_ctx ..)

theorem letLoopS_ctx : ∀ (f : Nat) (todo : Defs) (body : Tm) T D, CtxH T D (letLoopS f todo body) T D := by
  intro f
  induction f with
  | zero => intros; unfold letLoopS; exact CtxH.outOfFuel
  | succ f ih =>
    intro todo body T D
    unfold letLoopS
    ctx_auto
macro_rules | `(tactic| ctx_known) => `(tactic| with_reducible exact letLoopS_ctx ..)

/-! ## `whnfS` -/

theorem whnfS_ctx : ∀ (f : Nat) (t : Tm) T D, CtxH T D (whnfS f t) T D := by
  intro f
  induction f with
  | zero => intros; unfold whnfS; exact CtxH.outOfFuel
  | succ f ih =>
    intro t T D
    unfold whnfS
    ctx_auto
macro_rules | `(tactic| ctx_known) => `(tactic| with_reducible exact whnfS_ctx ..)

/-! ## `derefS`, `synEqS`, `occursS`, `solveS` -/

theorem derefS_ctx : ∀ (f : Nat) (t : Tm) T D, CtxH T D (derefS f t) T D := by
  intro f
  induction f with
  | zero => intros; unfold derefS; exact CtxH.outOfFuel
  | succ f ih =>
    intro t T D
    unfold derefS
    ctx_auto
macro_rules | `(tactic| ctx_known) => `(tactic| with_reducible exact derefS_ctx ..)

theorem synEq_ctx : ∀ (f : Nat),
    (∀ t1 t2 T D, CtxH T D (synEqS f t1 t2) T D) ∧
    (∀ ds1 ds2 T D, CtxH T D (synEqDefsS f ds1 ds2) T D) := by
  intro f
  induction f with
  | zero =>
    constructor
    · intros; unfold synEqS; exact CtxH.outOfFuel
    · intros; unfold synEqDefsS; exact CtxH.outOfFuel
  | succ f ih =>
    obtain ⟨ih1, ih2⟩ := ih
    constructor
    · intro t1 t2 T D
      unfold synEqS
      ctx_auto
    · intro ds1 ds2 T D
      unfold synEqDefsS
      ctx_auto
theorem synEqS_ctx (f t1 t2 T D) : CtxH T D (synEqS f t1 t2) T D := (synEq_ctx f).1 t1 t2 T D
theorem synEqDefsS_ctx (f ds1 ds2 T D) : CtxH T D (synEqDefsS f ds1 ds2) T D :=
  (synEq_ctx f).2 ds1 ds2 T D
macro_rules | `(tactic| ctx_known) => `(tactic| with_reducible exact synEqS_ctx ..)
macro_rules | `(tactic| ctx_known) => `(tactic| with_reducible exact synEqDefsS_ctx ..)

theorem occurs_ctx : ∀ (f : Nat),
    (∀ id t T D, CtxH T D (occursS f id t) T D) ∧
    (∀ id ds T D, CtxH T D (occursDefsS f id ds) T D) := by
  intro f
  induction f with
  | zero =>
    constructor
    · intros; unfold occursS; exact CtxH.outOfFuel
    · intros; unfold occursDefsS; exact CtxH.outOfFuel
  | succ f ih =>
    obtain ⟨ih1, ih2⟩ := ih
    constructor
    · intro id t T D
      unfold occursS
      ctx_auto
    · intro id ds T D
      unfold occursDefsS
      ctx_auto
theorem occursS_ctx (f id t T D) : CtxH T D (occursS f id t) T D := (occurs_ctx f).1 id t T D
theorem occursDefsS_ctx (f id ds T D) : CtxH T D (occursDefsS f id ds) T D :=
  (occurs_ctx f).2 id ds T D
macro_rules | `(tactic| ctx_known) => `(tactic| with_reducible exact occursS_ctx ..)
macro_rules | `(tactic| ctx_known) => `(tactic| with_reducible exact occursDefsS_ctx ..)

theorem solveS_ctx (f id shift other T D) : CtxH T D (solveS f id shift other) T D := by
  unfold solveS
  ctx_auto
macro_rules | `(tactic| ctx_known) => `(tactic| with_reducible exact solveS_ctx ..)

/-! ## `unifyS` -/

theorem unifyS_ctx : ∀ (f : Nat) (t1 t2 : Tm) T D, CtxH T D (unifyS f t1 t2) T D := by
  intro f
  induction f with
  | zero => intros; unfold unifyS; exact CtxH.outOfFuel
  | succ f ih =>
    intro t1 t2 T D
    unfold unifyS
    ctx_step
    ctx_step
    ctx_step
    ctx_step
    ctx_step
    extract_lets structural rightHole
    have hs : ∀ T D, CtxH T D structural T D := by
      intro T D
      unfold structural
      ctx_auto
    have hr : ∀ T D, CtxH T D rightHole T D := by
      intro T D
      unfold rightHole
      repeat (first | exact hs _ _ | ctx_step)
    repeat (first | exact hr _ _ | ctx_step)
macro_rules | `(tactic| ctx_known) => `(tactic| with_reducible exact unifyS_ctx ..)

/-! ## `letTypeS`, `pushDefsS`, `popN` -/

theorem letTypeS_ctx (f : Nat) (ds : Defs) : ∀ (k i : Nat) (acc : Tm) T D,
    CtxH T D (letTypeS f ds k i acc) T D := by
  intro k
  induction k with
  | zero => intros; unfold letTypeS; exact CtxH.pure
  | succ k ih =>
    intro i acc T D
    unfold letTypeS
    ctx_auto
macro_rules | `(tactic| ctx_known) => `(tactic| with_reducible exact letTypeS_ctx ..)

/-- the typing context after `pushDefsS ds k` -/
def pushedT : Defs → Nat → List (Tm × Nat) → List (Tm × Nat)
  | .nil, _, T => T
  | .cons _ ann _ r, k, T => pushedT r (k - 1) ((ann, k) :: T)
/-- the definitions context after `pushDefsS ds k` -/
def pushedD : Defs → Nat → List (Option (Tm × Nat)) → List (Option (Tm × Nat))
  | .nil, _, D => D
  | .cons _ _ d r, k, D => pushedD r (k - 1) (some (d, k) :: D)

theorem pushedT_drop : ∀ (ds : Defs) (k : Nat) (T : List (Tm × Nat)),
    (pushedT ds k T).drop ds.len = T
  | .nil, k, T => by simp [pushedT]
  | .cons x ann d r, k, T => by
      have ih := pushedT_drop r (k - 1) ((ann, k) :: T)
      have : ((pushedT r (k - 1) ((ann, k) :: T)).drop r.len).drop 1 = T := by rw [ih]; rfl
      simpa [pushedT, List.drop_drop, Nat.add_comm] using this
theorem pushedD_drop : ∀ (ds : Defs) (k : Nat) (D : List (Option (Tm × Nat))),
    (pushedD ds k D).drop ds.len = D
  | .nil, k, D => by simp [pushedD]
  | .cons x ann d r, k, D => by
      have ih := pushedD_drop r (k - 1) (some (d, k) :: D)
      have : ((pushedD r (k - 1) (some (d, k) :: D)).drop r.len).drop 1 = D := by rw [ih]; rfl
      simpa [pushedD, List.drop_drop, Nat.add_comm] using this

theorem pushDefsS_ctx : ∀ (ds : Defs) (k : Nat) T D,
    CtxH T D (pushDefsS ds k) (pushedT ds k T) (pushedD ds k D)
  | .nil, k, T, D => by unfold pushDefsS pushedT pushedD; exact CtxH.pure
  | .cons x ann d r, k, T, D => by
      unfold pushDefsS pushedT pushedD
      exact CtxH.bind CtxH.pushCtx (fun _ => pushDefsS_ctx r (k - 1) _ _)

theorem popN_ctx : ∀ (n : Nat) T D, CtxH T D (popN n) (T.drop n) (D.drop n) := by
  intro n
  induction n with
  | zero => intro T D; unfold popN; exact CtxH.pure
  | succ n ih =>
    intro T D
    unfold popN
    refine CtxH.bind CtxH.popCtx (fun _ => ?_)
    have := ih T.tail D.tail
    simpa [List.drop_tail] using this

/-- `pushDefsS ds k` followed (after context-preserving actions) by `popN ds.len` restores the contexts -/
theorem popN_pushed_ctx (ds : Defs) (k : Nat) T D :
    CtxH (pushedT ds k T) (pushedD ds k D) (popN ds.len) T D := by
  have := popN_ctx ds.len (pushedT ds k T) (pushedD ds k D)
  rwa [pushedT_drop, pushedD_drop] at this

/-! ## `inferS` -/

theorem infer_ctx : ∀ (f : Nat),
    (∀ t T D, CtxH T D (inferS f t) T D) ∧
    (∀ ds T D, CtxH T D (inferDefsS f ds) T D) := by
  intro f
  induction f with
  | zero =>
    constructor
    · intros; unfold inferS; exact CtxH.outOfFuel
    · intros; unfold inferDefsS; exact CtxH.outOfFuel
  | succ f ih =>
    obtain ⟨ih1, ih2⟩ := ih
    constructor
    · intro t T D
      unfold inferS
      repeat (first
        | with_reducible refine CtxH.bind (pushDefsS_ctx ..) (fun _ => ?_)
        | with_reducible refine CtxH.bind (popN_pushed_ctx ..) (fun _ => ?_)
        | ctx_step)
    · intro ds T D
      unfold inferDefsS
      ctx_auto
theorem inferS_ctx (f t T D) : CtxH T D (inferS f t) T D := (infer_ctx f).1 t T D
theorem inferDefsS_ctx (f ds T D) : CtxH T D (inferDefsS f ds) T D := (infer_ctx f).2 ds T D
macro_rules | `(tactic| ctx_known) => `(tactic| with_reducible exact inferS_ctx ..)
macro_rules | `(tactic| ctx_known) => `(tactic| with_reducible exact inferDefsS_ctx ..)

/-! ## Value postconditions -/

/-- every value returned by a successful run of `m` satisfies `Q` -/
def Post {α} (m : M α) (Q : α → Prop) : Prop := ∀ s a s', m s = .ok a s' → Q a

theorem Post.bind {α β} {m : M α} {f : α → M β} {Q1 : α → Prop} {Q : β → Prop}
    (h1 : Post m Q1) (h2 : ∀ a, Q1 a → Post (f a) Q) : Post (m >>= f) Q := by
  intro s b s2 h
  obtain ⟨a, s1, e1, e2⟩ := M.bind_ok_inv h
  exact h2 a (h1 s a s1 e1) s1 b s2 e2
theorem Post.bind_triv {α β} {m : M α} {f : α → M β} {Q : β → Prop}
    (h2 : ∀ a, Post (f a) Q) : Post (m >>= f) Q :=
  Post.bind (Q1 := fun _ => True) (fun _ _ _ _ => trivial) (fun a _ => h2 a)
theorem Post.pure {α} {a : α} {Q : α → Prop} (h : Q a) : Post (pure a : M α) Q := by
  intro s b s' e
  obtain ⟨rfl, _⟩ := M.pure_ok_iff.mp e
  exact h
theorem Post.outOfFuel {α} {Q : α → Prop} : Post (outOfFuel : M α) Q :=
  fun _ _ _ e => absurd e outOfFuel_ne_ok
theorem Post.panicAt {α} {Q : α → Prop} {site : String} : Post (panicAt site : M α) Q :=
  fun _ _ _ e => absurd e panicAt_ne_ok
theorem Post.out {α} {m : M α} {Q : α → Prop} (h : Post m Q) {s : St} {a : α} {s' : St}
    (e : m s = .ok a s') : Q a := h s a s' e

attribute [irreducible] Post

/-! ## elaboration returns the input term (C05) -/

theorem infer_elab : ∀ (f : Nat),
    (∀ t, Post (inferS f t) (fun p => p.1 = t)) ∧
    (∀ ds, Post (inferDefsS f ds) (fun l => Defs.setDefs ds l = ds)) := by
  intro f
  induction f with
  | zero =>
    constructor
    · intros; unfold inferS; exact Post.outOfFuel
    · intros; unfold inferDefsS; exact Post.outOfFuel
  | succ f ih =>
    obtain ⟨ih1, ih2⟩ := ih
    constructor
    · intro t
      unfold inferS
      repeat (first
        | with_reducible exact Post.outOfFuel
        | with_reducible exact Post.panicAt
        | focus ((with_reducible refine Post.pure ?_); simp_all; done)
        | with_reducible refine Post.bind (ih1 _) (fun _ _ => ?_)
        | with_reducible refine Post.bind (ih2 _) (fun _ _ => ?_)
        | with_reducible refine Post.bind_triv (fun _ => ?_)
        | split)
    · intro ds
      unfold inferDefsS
      repeat (first
        | with_reducible exact Post.outOfFuel
        | with_reducible exact Post.panicAt
        | focus ((with_reducible refine Post.pure ?_); simp_all [Defs.setDefs]; done)
        | with_reducible refine Post.bind (ih1 _) (fun _ _ => ?_)
        | with_reducible refine Post.bind (ih2 _) (fun _ _ => ?_)
        | with_reducible refine Post.bind_triv (fun _ => ?_)
        | split)

theorem inferS_elab_id {f : Nat} {t : Tm} {s : St} {p : Tm × Tm} {s' : St}
    (h : inferS f t s = .ok p s') : p.1 = t := ((infer_elab f).1 t).out h
theorem inferDefsS_elab_id {f : Nat} {ds : Defs} {s : St} {l : List Tm} {s' : St}
    (h : inferDefsS f ds s = .ok l s') : Defs.setDefs ds l = ds := ((infer_elab f).2 ds).out h
