import GramModel.Generated.EvalTraces

/-!
# The order of the evaluator's and the normalizer's steps, arm by arm (the arms other than the nine binary operators)

`Generated/EvalTraces.lean` is rewritten from `evaluator.rs` / `normalizer.rs` on every run; `expectedEvalTraces` is the same table as
read when the models `step` (`Eval.lean`) and `whnfS` (`Check.lean`) were written: sub-steps and value tests in this order, β by
`open(body, 0, argument, 0)`, a variable's definition shifted by `index + 1 - offset`, a solved hole read through
`unsigned_shift(.., 0, shift)`, the recursive unfolding of a group member built with `index` / `index + 1` exactly so.
-/

def expectedEvalTraces : List (String × String × List String) := [
  ("step", "Type", []),
  ("step", "Lambda", []),
  ("step", "Pi", []),
  ("step", "Variable", []),
  ("step", "Integer", []),
  ("step", "IntegerLiteral", []),
  ("step", "Boolean", []),
  ("step", "True", []),
  ("step", "False", []),
  ("step", "Unifier", ["unsigned_shift $0 0 *$1"]),
  ("step", "Application", ["step $0", "not-is_value $0", "step $1", "not-is_value $1", "open body 0 $1 0"]),
  ("step", "Let", ["step definition", "not-is_value definition", "open definition index Term{source_range:None,variant:Let(vec![(variable,Rc::new(open(&unsigned_shift(annotation,0,1),index_plus_one,&body_for_unfolding,0,)),Rc::new(open(&unsigned_shift(definition,0,1),index_plus_one,&body_for_unfolding,0,)),)],body_for_unfolding,),} 0", "open unsigned_shift(annotation,0,1) index_plus_one body_for_unfolding 0", "unsigned_shift annotation 0 1", "open unsigned_shift(definition,0,1) index_plus_one body_for_unfolding 0", "unsigned_shift definition 0 1", "open annotation index unfolded_definition 0", "open definition index unfolded_definition 0", "open $1 index unfolded_definition 0"]),
  ("step", "Negation", ["step $0", "not-is_value $0"]),
  ("step", "If", ["step $0", "not-is_value $0"]),
  ("normalize_weak_head", "Type", []),
  ("normalize_weak_head", "Lambda", []),
  ("normalize_weak_head", "Pi", []),
  ("normalize_weak_head", "Integer", []),
  ("normalize_weak_head", "IntegerLiteral", []),
  ("normalize_weak_head", "Boolean", []),
  ("normalize_weak_head", "True", []),
  ("normalize_weak_head", "False", []),
  ("normalize_weak_head", "Unifier", ["whnf unsigned_shift(&$0,0,*$1)", "unsigned_shift $0 0 *$1"]),
  ("normalize_weak_head", "Variable", ["whnf unsigned_shift(definition,0,$1+1-offset)", "unsigned_shift definition 0 $1+1-offset"]),
  ("normalize_weak_head", "Application", ["whnf $0", "whnf open(body,0,$1,0)", "open body 0 $1 0"]),
  ("normalize_weak_head", "Let", ["open definition i_index Term{source_range:None,variant:Let(vec![(variable,Rc::new(open(&unsigned_shift(annotation,0,1),i_index_plus_one,&body_for_unfolding,0,)),Rc::new(open(&unsigned_shift(definition,0,1),i_index_plus_one,&body_for_unfolding,0,)),)],body_for_unfolding,),} 0", "open unsigned_shift(annotation,0,1) i_index_plus_one body_for_unfolding 0", "unsigned_shift annotation 0 1", "open unsigned_shift(definition,0,1) i_index_plus_one body_for_unfolding 0", "unsigned_shift definition 0 1", "open annotation i_index unfolded_definition 0", "open definition i_index unfolded_definition 0", "open $1 i_index unfolded_definition 0", "whnf $1"]),
  ("normalize_weak_head", "Negation", ["whnf $0"]),
  ("normalize_weak_head", "If", ["whnf $0", "whnf $1", "whnf $2"])
]


def tracesOf (fn : String) (tbl : List (String × String × List String)) : List (String × List String) :=
  (tbl.filter (fun r => r.1 == fn)).map (fun r => (r.2.1, r.2.2))
