import GramModel.StepRel

theorem value_step_none : ∀ (v : Tm), isValue v = true → step v = none := by
  intro v h
  cases v <;> simp [isValue] at h <;> simp [step]

theorem step_sound : ∀ (t t' : Tm), step t = some t' → Step t t' := by
  intro t
  fun_induction step t <;> intro t' h <;> simp_all
  all_goals (try subst_vars)
  all_goals (first
    | (constructor <;> first | assumption | simp_all)
    | skip)

theorem step_not_value : ∀ {t t' : Tm}, Step t t' → isValue t = false := by
  intro t t' h
  cases h <;> simp [isValue]

theorem step_complete : ∀ {t t' : Tm}, Step t t' → step t = some t' := by
  intro t t' h
  induction h with
  | appL _ ih => simp [step, ih]
  | appR hv h ih =>
      simp [step, value_step_none _ hv, hv, ih]
  | @beta x im d b a hv =>
      have hl : isValue (Tm.lam x im d b) = true := rfl
      simp [step, value_step_none _ hv, hv, hl]
  | negC h ih => simp [step, ih]
  | negL => simp [step, isValue]
  | binL h ih => simp [step, ih]
  | binR hv h ih => simp [step, value_step_none _ hv, hv, ih]
  | delta h => simp [step, isValue, h]
  | iteC h ih => simp [step, ih]
  | iteT => simp [step, isValue]
  | iteF => simp [step, isValue]
  | letNil => simp [step]
  | letD h ih => simp [step, ih]
  | letU hv => simp [step, value_step_none _ hv, hv]

theorem Step_deterministic {t a b : Tm} (h1 : Step t a) (h2 : Step t b) : a = b := by
  have e1 := step_complete h1
  have e2 := step_complete h2
  rw [e1] at e2
  exact Option.some.inj e2

theorem evalFuel_steps : ∀ (n : Nat) (t : Tm), Steps t (evalFuel n t)
  | 0, t => by simp [evalFuel]; exact Steps.refl
  | n+1, t => by
      simp only [evalFuel]
      cases h : step t with
      | none => exact Steps.refl
      | some t' => exact Steps.head (step_sound t t' h) (evalFuel_steps n t')

theorem Steps_trans {a b c : Tm} (h1 : Steps a b) (h2 : Steps b c) : Steps a c := by
  induction h1 with
  | refl => exact h2
  | head h _ ih => exact Steps.head h (ih h2)

/-- If `t` reaches an irreducible `v`, the fuelled evaluator finds exactly `v` given enough fuel. -/
theorem Steps_evalFuel {t v : Tm} (h : Steps t v) (hv : step v = none) :
    ∃ n, ∀ m, n ≤ m → evalFuel m t = v := by
  induction h with
  | refl =>
      refine ⟨0, ?_⟩
      intro m _
      cases m <;> simp [evalFuel, hv]
  | @head t u v hs _ ih =>
      obtain ⟨n, hn⟩ := ih hv
      refine ⟨n + 1, ?_⟩
      intro m hm
      cases m with
      | zero => omega
      | succ m =>
        simp only [evalFuel, step_complete hs]
        exact hn m (by omega)

theorem delta_none_iff (op : BinOp) (x y : Int) : delta op x y = none ↔ (op = .quot ∧ y = 0) := by
  cases op <;> simp [delta]

theorem stuckReason_complete : ∀ (t : Tm), step t = none → isValue t = false →
    ∃ r, stuckReason t = some r := by
  intro t
  fun_induction stuckReason t <;> simp_all [step, isValue, delta_none_iff]

theorem stuckReason_sound : ∀ (t : Tm) (r : StuckReason), stuckReason t = some r →
    step t = none ∧ isValue t = false := by
  intro t
  fun_induction stuckReason t <;> intro r h <;> simp_all [step, isValue, delta_none_iff]

theorem value_not_stuck : ∀ (t : Tm), isValue t = true → step t = none ∧ stuckReason t = none := by
  intro t h
  cases t <;> simp [isValue] at h <;> simp [step, stuckReason]
