import GramModel.Oracle
import GramModel.Check
import GramModel.Lemmas.StoreCtx

/-!
# Lemmas about the independent checker (`Oracle.lean`) and its relation to the store layer

* `sameX` is the kernel of the erasure `eraseX` (names, parameter annotations of `λ`, annotations of
  definitions are forgotten): hence an equivalence relation.
* shape of the type `inferX` assigns to a value; scoping of accepted hole-free terms.
* fuel sufficiency of `synEqS` on hole-free terms.
-/

namespace OracleLemmas

/-! ## `sameX` as the kernel of an erasure -/

mutual
def eraseX : Tm → Tm
  | .lam _ im _ b => .lam 0 im .type (eraseX b)
  | .pi _ im d b => .pi 0 im (eraseX d) (eraseX b)
  | .app f a => .app (eraseX f) (eraseX a)
  | .letg ds b => .letg (eraseDefsX ds) (eraseX b)
  | .neg a => .neg (eraseX a)
  | .bin op a b => .bin op (eraseX a) (eraseX b)
  | .ite c t e => .ite (eraseX c) (eraseX t) (eraseX e)
  | .var _ i => .var 0 i
  | .hole i s => .hole i s
  | .type => .type
  | .int => .int
  | .bool => .bool
  | .tt => .tt
  | .ff => .ff
  | .lit n => .lit n
def eraseDefsX : Defs → Defs
  | .nil => .nil
  | .cons _ _ d r => .cons 0 .type (eraseX d) (eraseDefsX r)
end

mutual
theorem sameX_iff : ∀ (a b : Tm), sameX a b = true ↔ eraseX a = eraseX b
  | .hole i s, t => by cases t <;> simp [sameX, eraseX]
  | .type, t => by cases t <;> simp [sameX, eraseX]
  | .int, t => by cases t <;> simp [sameX, eraseX]
  | .bool, t => by cases t <;> simp [sameX, eraseX]
  | .tt, t => by cases t <;> simp [sameX, eraseX]
  | .ff, t => by cases t <;> simp [sameX, eraseX]
  | .lit n, t => by cases t <;> simp [sameX, eraseX]
  | .var x i, t => by cases t <;> simp [sameX, eraseX]
  | .lam x im d b, t => by cases t <;> simp [sameX, eraseX, sameX_iff b]
  | .pi x im d b, t => by cases t <;> simp [sameX, eraseX, sameX_iff d, sameX_iff b, and_assoc]
  | .app f a, t => by cases t <;> simp [sameX, eraseX, sameX_iff f, sameX_iff a]
  | .letg ds b, t => by cases t <;> simp [sameX, eraseX, sameDefsX_iff ds, sameX_iff b]
  | .neg a, t => by cases t <;> simp [sameX, eraseX, sameX_iff a]
  | .bin op a b, t => by cases t <;> simp [sameX, eraseX, sameX_iff a, sameX_iff b, and_assoc]
  | .ite c a b, t => by
      cases t <;> simp [sameX, eraseX, sameX_iff c, sameX_iff a, sameX_iff b, and_assoc]
theorem sameDefsX_iff : ∀ (a b : Defs), sameDefsX a b = true ↔ eraseDefsX a = eraseDefsX b
  | .nil, t => by cases t <;> simp [sameDefsX, eraseDefsX]
  | .cons x a d r, t => by
      cases t <;> simp [sameDefsX, eraseDefsX, sameX_iff d, sameDefsX_iff r]
end

theorem sameX_refl (t : Tm) : sameX t t = true := (sameX_iff t t).2 rfl
theorem sameDefsX_refl (t : Defs) : sameDefsX t t = true := (sameDefsX_iff t t).2 rfl

theorem sameX_symm (a b : Tm) : sameX a b = sameX b a := by
  rw [Bool.eq_iff_iff, sameX_iff, sameX_iff]
  exact eq_comm

theorem sameX_trans {a b c : Tm} (h1 : sameX a b = true) (h2 : sameX b c = true) :
    sameX a c = true :=
  (sameX_iff a c).2 (((sameX_iff a b).1 h1).trans ((sameX_iff b c).1 h2))

/-! ## scoping of accepted terms -/

theorem pushGroupX_go_length : ∀ (ds : Defs) (k : Nat) (Γ : TCtxX) (Δ : DCtxX),
    (pushGroupX.go ds k (Γ, Δ)).1.length = Γ.length + ds.len ∧
    (pushGroupX.go ds k (Γ, Δ)).2.length = Δ.length + ds.len
  | .nil, k, Γ, Δ => by simp [pushGroupX.go]
  | .cons x a d r, k, Γ, Δ => by
      have ih := pushGroupX_go_length r (k - 1) ((a, k) :: Γ) (some (d, k) :: Δ)
      simp only [pushGroupX.go, Defs.len_cons]
      simp only [List.length_cons] at ih
      omega

theorem pushGroupX_length (ds : Defs) (n : Nat) (Γ Γ' : TCtxX) (Δ Δ' : DCtxX)
    (h : pushGroupX ds n (Γ, Δ) = (Γ', Δ')) :
    Γ'.length = Γ.length + ds.len ∧ Δ'.length = Δ.length + ds.len := by
  have := pushGroupX_go_length ds ds.len Γ Δ
  have e : pushGroupX ds n (Γ, Δ) = pushGroupX.go ds ds.len (Γ, Δ) := rfl
  rw [← e, h] at this
  exact this

theorem inferX_scoped_aux : ∀ (f : Nat),
    (∀ (Γ : TCtxX) (Δ : DCtxX) (t T : Tm), t.holeFree = true → inferX f Γ Δ t = .ok T →
      wellScoped Γ.length t = true) ∧
    (∀ (Γ : TCtxX) (Δ : DCtxX) (ds : Defs), ds.holeFree = true → inferDefsX f Γ Δ ds = .ok () →
      wellScopedDefs Γ.length ds = true) := by
  intro f
  induction f with
  | zero =>
    constructor
    · intro Γ Δ t T _ h; simp [inferX] at h
    · intro Γ Δ ds _ h; simp [inferDefsX] at h
  | succ f ih =>
    obtain ⟨ih1, ih2⟩ := ih
    constructor
    · intro Γ Δ t T hf h
      unfold inferX at h
      cases t <;> simp only [Tm.holeFree, Bool.and_eq_true] at hf <;>
        simp only [wellScoped, Bool.and_eq_true] <;> simp only at h
      case hole => cases hf
      case var x i =>
        split at h
        · cases h
        · rename_i ty off hg
          have : i < Γ.length := by
            rcases Nat.lt_or_ge i Γ.length with hlt | hge
            · exact hlt
            · rw [List.getElem?_eq_none hge] at hg; cases hg
          simpa using this
      case lam x im d b =>
        repeat (split at h <;> try (cases h; done))
        exact ⟨ih1 Γ Δ d _ hf.1 (by assumption),
          ih1 ((d, 0) :: Γ) (none :: Δ) b _ hf.2 (by assumption)⟩
      case pi x im d b =>
        repeat (split at h <;> try (cases h; done))
        exact ⟨ih1 Γ Δ d _ hf.1 (by assumption),
          ih1 ((d, 0) :: Γ) (none :: Δ) b _ hf.2 (by assumption)⟩
      case app g a =>
        split at h
        · cases h
        · split at h
          · cases h
          · repeat (split at h <;> try (cases h; done))
            exact ⟨ih1 Γ Δ g _ hf.1 (by assumption), ih1 Γ Δ a _ hf.2 (by assumption)⟩
          · repeat (split at h <;> try (cases h; done))
            exact ⟨ih1 Γ Δ g _ hf.1 (by assumption), ih1 Γ Δ a _ hf.2 (by assumption)⟩
          · cases h
      case letg ds b =>
        have hl := (pushGroupX_length ds 0 Γ _ Δ _ rfl).1
        repeat (split at h <;> try (cases h; done))
        rw [← hl]
        exact ⟨ih2 _ _ ds hf.1 (by assumption), ih1 _ _ b _ hf.2 (by assumption)⟩
      case neg a =>
        repeat (split at h <;> try (cases h; done))
        exact ih1 Γ Δ a _ hf (by assumption)
      case bin op a b =>
        repeat (split at h <;> try (cases h; done))
        all_goals exact ⟨ih1 Γ Δ a _ hf.1 (by assumption), ih1 Γ Δ b _ hf.2 (by assumption)⟩
      case ite c a b =>
        repeat (split at h <;> try (cases h; done))
        exact ⟨⟨ih1 Γ Δ c _ hf.1.1 (by assumption), ih1 Γ Δ a _ hf.1.2 (by assumption)⟩,
          ih1 Γ Δ b _ hf.2 (by assumption)⟩
    · intro Γ Δ ds hf h
      unfold inferDefsX at h
      cases ds <;> simp only [Defs.holeFree, Bool.and_eq_true] at hf <;>
        simp only [wellScopedDefs, Bool.and_eq_true] <;> simp only at h
      case cons x a d r =>
        repeat (split at h <;> try (cases h; done))
        exact ⟨⟨ih1 Γ Δ a _ hf.1.1 (by assumption), ih1 Γ Δ d _ hf.1.2 (by assumption)⟩,
          ih2 Γ Δ r hf.2 h⟩

/-! ## fuel sufficiency of `synEqS` on hole-free terms -/

theorem pure_bind_M {α β} (a : α) (g : α → M β) : (pure a >>= g) = g a := rfl

theorem derefS_holeFree (f : Nat) (t : Tm) (h : t.holeFree = true) : derefS (f+1) t = pure t := by
  unfold derefS
  cases t <;> first | rfl | simp [Tm.holeFree] at h

theorem Tm.size_pos (t : Tm) : 1 ≤ t.size := by
  cases t <;> simp only [Tm.size] <;> omega

theorem sameDefsX_len : ∀ (a b : Defs), sameDefsX a b = true → a.len = b.len
  | .nil, .nil, _ => rfl
  | .nil, .cons .., h => by simp [sameDefsX] at h
  | .cons .., .nil, h => by simp [sameDefsX] at h
  | .cons _ _ _ r, .cons _ _ _ s, h => by
      simp [sameDefsX] at h
      simp [sameDefsX_len r s h.2]

theorem ite_pure (c : Bool) (x : Bool) :
    (if c = true then (pure x : M Bool) else pure false) = pure (c && x) := by
  cases c <;> rfl

set_option hygiene false in
/-- common prelude: two units of fuel, both `derefS` are the identity -/
local macro "syn_pre" ha:ident hb:ident hf:ident : tactic => `(tactic| (
  obtain ⟨f, rfl⟩ : ∃ g, f = g + 2 := ⟨f - 2, by simp only [Tm.size] at $hf:ident; omega⟩
  unfold synEqS
  rw [derefS_holeFree _ _ $ha, derefS_holeFree _ _ $hb]
  simp only [pure_bind_M]
  simp only [Tm.holeFree, Bool.and_eq_true] at $ha:ident
  simp only [Tm.size] at $hf:ident))

mutual
theorem synEqS_pure : ∀ (a b : Tm) (f : Nat), a.holeFree = true → b.holeFree = true →
    a.size + 1 ≤ f → synEqS f a b = pure (sameX a b)
  | .hole .., _, _, ha, _, _ => by simp [Tm.holeFree] at ha
  | .type, t, f, ha, hb, hf => by syn_pre ha hb hf; cases t <;> simp only [sameX] <;> rfl
  | .int, t, f, ha, hb, hf => by syn_pre ha hb hf; cases t <;> simp only [sameX] <;> rfl
  | .bool, t, f, ha, hb, hf => by syn_pre ha hb hf; cases t <;> simp only [sameX] <;> rfl
  | .tt, t, f, ha, hb, hf => by syn_pre ha hb hf; cases t <;> simp only [sameX] <;> rfl
  | .ff, t, f, ha, hb, hf => by syn_pre ha hb hf; cases t <;> simp only [sameX] <;> rfl
  | .lit n, t, f, ha, hb, hf => by syn_pre ha hb hf; cases t <;> simp only [sameX] <;> rfl
  | .var x i, t, f, ha, hb, hf => by syn_pre ha hb hf; cases t <;> simp only [sameX] <;> rfl
  | .lam x im d b, t, f, ha, hb, hf => by
      syn_pre ha hb hf
      cases t <;> simp only [sameX] <;> try rfl
      simp only [Tm.holeFree, Bool.and_eq_true] at hb
      rw [synEqS_pure b _ _ ha.2 hb.2 (by omega)]
      simp only [ite_pure]
  | .pi x im d b, t, f, ha, hb, hf => by
      syn_pre ha hb hf
      cases t <;> simp only [sameX] <;> try rfl
      simp only [Tm.holeFree, Bool.and_eq_true] at hb
      rw [synEqS_pure d _ _ ha.1 hb.1 (by omega), synEqS_pure b _ _ ha.2 hb.2 (by omega)]
      simp only [pure_bind_M, ite_pure, Bool.and_assoc]
  | .app g a, t, f, ha, hb, hf => by
      syn_pre ha hb hf
      cases t <;> simp only [sameX] <;> try rfl
      simp only [Tm.holeFree, Bool.and_eq_true] at hb
      rw [synEqS_pure g _ _ ha.1 hb.1 (by omega), synEqS_pure a _ _ ha.2 hb.2 (by omega)]
      simp only [pure_bind_M, ite_pure]
  | .letg ds b, t, f, ha, hb, hf => by
      syn_pre ha hb hf
      cases t <;> simp only [sameX] <;> try rfl
      rename_i es c
      simp only [Tm.holeFree, Bool.and_eq_true] at hb
      rw [synEqDefsS_pure ds _ _ ha.1 hb.1 (by omega), synEqS_pure b _ _ ha.2 hb.2 (by omega)]
      simp only [pure_bind_M, ite_pure]
      cases hd : sameDefsX ds es
      · simp
      · simp [sameDefsX_len ds es hd]
  | .neg a, t, f, ha, hb, hf => by
      syn_pre ha hb hf
      cases t <;> simp only [sameX] <;> try rfl
      simp only [Tm.holeFree] at hb
      rw [synEqS_pure a _ _ ha hb (by omega)]
  | .bin op a b, t, f, ha, hb, hf => by
      syn_pre ha hb hf
      cases t <;> simp only [sameX] <;> try rfl
      simp only [Tm.holeFree, Bool.and_eq_true] at hb
      rw [synEqS_pure a _ _ ha.1 hb.1 (by omega), synEqS_pure b _ _ ha.2 hb.2 (by omega)]
      simp only [pure_bind_M, ite_pure, Bool.and_assoc]
  | .ite c a b, t, f, ha, hb, hf => by
      syn_pre ha hb hf
      cases t <;> simp only [sameX] <;> try rfl
      simp only [Tm.holeFree, Bool.and_eq_true] at hb
      rw [synEqS_pure c _ _ ha.1.1 hb.1.1 (by omega), synEqS_pure a _ _ ha.1.2 hb.1.2 (by omega),
        synEqS_pure b _ _ ha.2 hb.2 (by omega)]
      simp only [pure_bind_M, ite_pure, Bool.and_assoc]
theorem synEqDefsS_pure : ∀ (a b : Defs) (f : Nat), a.holeFree = true → b.holeFree = true →
    a.size + 1 ≤ f → synEqDefsS f a b = pure (sameDefsX a b)
  | .nil, t, f, ha, hb, hf => by
      obtain ⟨f, rfl⟩ : ∃ g, f = g + 1 := ⟨f - 1, by omega⟩
      unfold synEqDefsS
      cases t <;> simp only [sameDefsX] <;> rfl
  | .cons x a d r, t, f, ha, hb, hf => by
      obtain ⟨f, rfl⟩ : ∃ g, f = g + 1 := ⟨f - 1, by omega⟩
      unfold synEqDefsS
      simp only [Defs.holeFree, Bool.and_eq_true] at ha
      simp only [Defs.size] at hf
      have := Tm.size_pos a
      cases t <;> simp only [sameDefsX] <;> try rfl
      simp only [Defs.holeFree, Bool.and_eq_true] at hb
      rw [synEqS_pure d _ _ ha.1.2 hb.1.2 (by omega), synEqDefsS_pure r _ _ ha.2 hb.2 (by omega)]
      simp only [pure_bind_M, ite_pure]
end

theorem unifyS_refl_holeFree (t : Tm) (f : Nat) (h : t.holeFree = true) (hf : t.size + 2 ≤ f) :
    unifyS f t t = pure true := by
  obtain ⟨f, rfl⟩ : ∃ g, f = g + 1 := ⟨f - 1, by omega⟩
  unfold unifyS
  rw [synEqS_pure t t f h h (by omega)]
  simp only [pure_bind_M, sameX_refl, if_true]

end OracleLemmas
