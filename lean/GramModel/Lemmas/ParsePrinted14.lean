import GramModel.Lemmas.ParsePrinted13

/-! # The applications pass on the whole parsed tree of a printed term: the induction -/

namespace PModel
open RewriteMore PrintDerives

section
variable (I : List Char → Name) (nm : Name → List Char)

theorem res1_grp {u : Tm} (ih : ∀ s, shape s = srcOf I nm u → Res1 s (lsrc I nm u)) {x : Src}
    (h : shape x = grpS I nm u) : Res1 x (lsrc I nm u) ∧ Opaque .applications x := by
  refine ⟨?_, atomish_of_shape h (grpS_atomish I nm u)⟩
  unfold grpS at h
  split at h
  · exact ih x h
  · exact Res1.of_setG ih h

theorem res1_ann {u : Tm} (ih : ∀ s, shape s = srcOf I nm u → Res1 s (lsrc I nm u)) {x : Src}
    (h : shape x = annS I nm u) : Res1 x (lsrc I nm u) := by
  unfold annS at h
  split at h
  · exact Res1.of_setG ih h
  · exact ih x h

theorem res1_leaf {s : Src} {v : SrcV} (h : shape s = mk0 false v)
    (hv : v = .type ∨ (∃ x, v = .var x) ∨ v = .int ∨ (∃ n, v = .lit n) ∨ v = .bool ∨ v = .tt ∨ v = .ff) :
    Res1 s (mk00 v) := by
  obtain ⟨r, g, v', es⟩ := s
  have hk := kept_atom .applications r g v' es (by
    rcases hv with rfl | ⟨x, rfl⟩ | rfl | ⟨n, rfl⟩ | rfl | rfl | rfl <;>
      cases v' <;> simp [shape, shapeV, mk0] at h <;> simp [h])
  refine ⟨_, hk none, ?_⟩
  simp only [reassocTail, strip, mk00]
  simp only [shape, mk0, Src.mk.injEq] at h
  rcases hv with rfl | ⟨x, rfl⟩ | rfl | ⟨n, rfl⟩ | rfl | rfl | rfl <;>
    cases v' <;> simp [shapeV] at h <;> simp [stripV, h]

mutual
theorem a1 : ∀ t : Tm,
    (∀ s, shape s = srcOf I nm t → Res1 s (lsrc I nm t)) ∧
    (∀ l : List Src, l.map shape = atomsOf I nm t → AtomsRes l (latomsOf I nm t))
  | .hole _ _ => ⟨fun s h => by rw [srcOf] at h; rw [lsrc]; exact res1_leaf h (by simp),
      fun l h => by simp [atomsOf] at h; subst h; simp only [latomsOf]; exact .nil⟩
  | .var _ _ => ⟨fun s h => by rw [srcOf] at h; rw [lsrc]; exact res1_leaf h (by simp),
      fun l h => by simp [atomsOf] at h; subst h; simp only [latomsOf]; exact .nil⟩
  | .type => ⟨fun s h => by rw [srcOf] at h; rw [lsrc]; exact res1_leaf h (by simp),
      fun l h => by simp [atomsOf] at h; subst h; simp only [latomsOf]; exact .nil⟩
  | .int => ⟨fun s h => by rw [srcOf] at h; rw [lsrc]; exact res1_leaf h (by simp),
      fun l h => by simp [atomsOf] at h; subst h; simp only [latomsOf]; exact .nil⟩
  | .bool => ⟨fun s h => by rw [srcOf] at h; rw [lsrc]; exact res1_leaf h (by simp),
      fun l h => by simp [atomsOf] at h; subst h; simp only [latomsOf]; exact .nil⟩
  | .tt => ⟨fun s h => by rw [srcOf] at h; rw [lsrc]; exact res1_leaf h (by simp),
      fun l h => by simp [atomsOf] at h; subst h; simp only [latomsOf]; exact .nil⟩
  | .ff => ⟨fun s h => by rw [srcOf] at h; rw [lsrc]; exact res1_leaf h (by simp),
      fun l h => by simp [atomsOf] at h; subst h; simp only [latomsOf]; exact .nil⟩
  | .lit _ => ⟨fun s h => by rw [srcOf] at h; rw [lsrc]; exact res1_leaf h (by simp),
      fun l h => by simp [atomsOf] at h; subst h; simp only [latomsOf]; exact .nil⟩
  | .lam x imp d b => by
    refine ⟨fun s h => ?_,
      fun l h => by simp [atomsOf] at h; subst h; simp only [latomsOf]; exact .nil⟩
    rw [srcOf_lam] at h
    obtain ⟨r, vr, xd, xb, rfl, hd, hb⟩ := shape_lam_inv h
    obtain ⟨d1, hd1, sd⟩ := res1_ann I nm (a1 d).1 hd
    obtain ⟨b1, hb1, sb⟩ := (a1 b).1 xb hb
    refine ⟨_, by rw [reassoc]; simp only [reassocOpt, hd1, hb1]; rfl, ?_⟩
    rw [lsrc]
    simp [reassocTail, strip, stripV, stripO, sd, sb, mk00]
  | .pi x imp d c => by
    refine ⟨fun s h => ?_,
      fun l h => by simp [atomsOf] at h; subst h; simp only [latomsOf]; exact .nil⟩
    cases hf : freeAt c 0 with
    | true =>
      rw [srcOf_pi_dep I nm x imp d c hf] at h
      obtain ⟨r, vr, xd, xc, rfl, hd, hc⟩ := shape_pi_inv h
      obtain ⟨d1, hd1, sd⟩ := res1_ann I nm (a1 d).1 hd
      obtain ⟨c1, hc1, sc⟩ := (a1 c).1 xc hc
      refine ⟨_, by rw [reassoc]; simp only [hd1, hc1]; rfl, ?_⟩
      rw [lsrc]
      simp [reassocTail, strip, stripV, sd, sc, mk00, hf]
    | false =>
      rw [srcOf_arrow I nm x imp d c hf] at h
      obtain ⟨r, vr, xd, xc, rfl, hd, hc⟩ := shape_pi_inv h
      have hdres : Res1 xd (lsrc I nm d) := by
        unfold headAtoms at hd
        split at hd
        · rename_i hap
          rw [← srcOf_isApp I nm hap] at hd
          exact (a1 d).1 xd hd
        · exact (res1_grp I nm (a1 d).1 (by simpa [nestL] using hd)).1
      obtain ⟨d1, hd1, sd⟩ := hdres
      obtain ⟨c1, hc1, sc⟩ := (a1 c).1 xc hc
      refine ⟨_, by rw [reassoc]; simp only [hd1, hc1]; rfl, ?_⟩
      rw [lsrc]
      simp [reassocTail, strip, stripV, sd, sc, mk00, hf]
  | .app f a => by
    have hatoms : ∀ l : List Src, l.map shape = atomsOf I nm (.app f a) →
        AtomsRes l (latomsOf I nm (.app f a)) := by
      intro l h
      rw [atomsOf_app] at h
      rw [latomsOf_app]
      obtain ⟨l1, l2, rfl, h1, h2⟩ := List.map_eq_append_iff.mp h
      obtain ⟨xa, rfl, hxa⟩ : ∃ xa, l2 = [xa] ∧ shape xa = grpS I nm a := by
        cases l2 with
        | nil => simp at h2
        | cons y l2 =>
          cases l2 with
          | nil => simp at h2; exact ⟨y, rfl, h2⟩
          | cons _ _ => simp at h2
      have ha := res1_grp I nm (a1 a).1 hxa
      refine AtomsRes.append ?_ (.cons ha.2 ha.1 .nil)
      unfold headAtoms at h1
      unfold lheads
      split at h1
      · rename_i hap
        simp only [hap, if_true]
        exact (a1 f).2 l1 h1
      · rename_i hap
        simp only [hap]
        obtain ⟨xf, rfl, hxf⟩ : ∃ xf, l1 = [xf] ∧ shape xf = grpS I nm f := by
          cases l1 with
          | nil => simp at h1
          | cons y l1 =>
            cases l1 with
            | nil => simp at h1; exact ⟨y, rfl, h1⟩
            | cons _ _ => simp at h1
        have hf := res1_grp I nm (a1 f).1 hxf
        exact .cons hf.2 hf.1 .nil
    refine ⟨fun s h => ?_, hatoms⟩
    rw [srcOf_isApp I nm (t := .app f a) rfl] at h
    have hne : atomsOf I nm (.app f a) ≠ [] := by rw [atomsOf_app]; simp
    obtain ⟨l, hc, hl⟩ := isChain_of_shape _ s hne h
    obtain ⟨l', hops, hl'⟩ := (hatoms l hl).ops
    have := reassoc_chain hc l' hops none (Or.inl rfl)
    rw [hl'] at this
    cases hr : reassoc .applications none s with
    | none => rw [hr] at this; cases this
    | some s1 =>
      rw [hr] at this
      simp only [Option.map_some, Option.some.injEq, Option.map_none] at this
      exact ⟨s1, hr, by rw [this]; exact chainRes_latoms I nm (.app f a) rfl⟩
  | .letg ds b => by
    refine ⟨fun s h => ?_,
      fun l h => by simp [atomsOf] at h; subst h; simp only [latomsOf]; exact .nil⟩
    rw [srcOf_letg] at h
    rw [lsrc]
    exact a1defs ds _ _ (a1 b).1 s h
  | .neg a => by
    refine ⟨fun s h => ?_,
      fun l h => by simp [atomsOf] at h; subst h; simp only [latomsOf]; exact .nil⟩
    rw [srcOf_neg] at h
    obtain ⟨r, x, rfl, hx⟩ := shape_neg_inv h
    obtain ⟨x1, hx1, sx⟩ := (res1_grp I nm (a1 a).1 hx).1
    refine ⟨_, by rw [reassoc]; simp only [hx1]; rfl, ?_⟩
    rw [lsrc]
    simp [reassocTail, strip, stripV, sx, mk00]
  | .bin op a b => by
    refine ⟨fun s h => ?_,
      fun l h => by simp [atomsOf] at h; subst h; simp only [latomsOf]; exact .nil⟩
    rw [srcOf_bin] at h
    obtain ⟨r, x, y, rfl, hx, hy⟩ := shape_bin_inv h
    obtain ⟨x1, hx1, sx⟩ := (res1_grp I nm (a1 a).1 hx).1
    obtain ⟨y1, hy1, sy⟩ := (res1_grp I nm (a1 b).1 hy).1
    refine ⟨_, by rw [reassoc]; simp [hx1, hy1]; rfl, ?_⟩
    rw [lsrc]
    simp [reassocTail, strip, stripV, sx, sy, mk00]
  | .ite c a b => by
    refine ⟨fun s h => ?_,
      fun l h => by simp [atomsOf] at h; subst h; simp only [latomsOf]; exact .nil⟩
    rw [srcOf_ite] at h
    obtain ⟨r, x, y, z, rfl, hx, hy, hz⟩ := shape_ite_inv h
    obtain ⟨x1, hx1, sx⟩ := (a1 c).1 x hx
    obtain ⟨y1, hy1, sy⟩ := (a1 a).1 y hy
    obtain ⟨z1, hz1, sz⟩ := (a1 b).1 z hz
    refine ⟨_, by rw [reassoc]; simp only [hx1, hy1, hz1]; rfl, ?_⟩
    rw [lsrc]
    simp [reassocTail, strip, stripV, sx, sy, sz, mk00]
theorem a1defs : ∀ (ds : Defs) (e E : Src), (∀ s, shape s = e → Res1 s E) →
    ∀ s, shape s = srcDefs I nm ds e → Res1 s (lsrcDefs I nm ds E)
  | .nil, e, E, ih, s, h => by
    rw [srcDefs_nil] at h
    rw [lsrcDefs]
    exact ih s h
  | .cons x a d r, e, E, ih, s, h => by
    rw [srcDefs_cons] at h
    obtain ⟨rr, vr, xa, xd, xb, rfl, ha, hd, hb⟩ := shape_let_inv h
    obtain ⟨a1', ha1, sa⟩ := (res1_grp I nm (a1 a).1 ha).1
    obtain ⟨d1, hd1, sd⟩ := (res1_grp I nm (a1 d).1 hd).1
    obtain ⟨b1, hb1, sb⟩ := a1defs r e E ih xb hb
    refine ⟨_, by rw [reassoc]; simp only [reassocOpt, ha1, hd1, hb1]; rfl, ?_⟩
    rw [lsrcDefs]
    simp [reassocTail, strip, stripV, stripO, sa, sd, sb, mk00]
end

end

end PModel
