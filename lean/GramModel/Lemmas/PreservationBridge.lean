import GramModel.Lemmas.PreservationConv

/-!
# Subject reduction, part 3: `Conv`/`HasType` versus the hole-free copies `Cv`/`HT`

`lkD`/`lkT` read the implementation's offset contexts as function-style contexts.  Hole removal maps
`Conv` to `Cv` and `HasType` to `HT`; `Cv` and `HT` embed back into `Conv` and `HasType`.
-/

namespace Pres

open WhnfLemmas CCSubst OracleLemmas CCPar TypingSound RewriteTyping

/-! ## reading the offset contexts -/

def lkD (Δ : DCtxX) : Ctx := fun i =>
  match Δ[i]? with
  | some (some (d, off)) => if off ≤ i + 1 then some (ushift 0 (i + 1 - off) d) else none
  | _ => none

def lkT (Γ : TCtxX) : Ctx := fun i =>
  match Γ[i]? with
  | some (ty, off) => if off ≤ i + 1 then some (ushift 0 (i + 1 - off) ty) else none
  | none => none

def dhC (G : Ctx) : Ctx := fun i => (G i).map dh

theorem lkD_some {Δ : DCtxX} {i : Nat} {d : Tm} {off : Nat} (h : Δ[i]? = some (some (d, off)))
    (ho : off ≤ i + 1) : lkD Δ i = some (ushift 0 (i + 1 - off) d) := by
  simp only [lkD, h, if_pos ho]

theorem lkD_inv {Δ : DCtxX} {i : Nat} {t : Tm} (h : lkD Δ i = some t) :
    ∃ d off, Δ[i]? = some (some (d, off)) ∧ off ≤ i + 1 ∧ t = ushift 0 (i + 1 - off) d := by
  simp only [lkD] at h
  split at h
  · next d off e =>
    split at h
    · next ho => cases h; exact ⟨d, off, e, ho, rfl⟩
    · cases h
  · cases h

theorem lkT_some {Γ : TCtxX} {i : Nat} {d : Tm} {off : Nat} (h : Γ[i]? = some (d, off))
    (ho : off ≤ i + 1) : lkT Γ i = some (ushift 0 (i + 1 - off) d) := by
  simp only [lkT, h, if_pos ho]

theorem lkT_inv {Γ : TCtxX} {i : Nat} {t : Tm} (h : lkT Γ i = some t) :
    ∃ d off, Γ[i]? = some (d, off) ∧ off ≤ i + 1 ∧ t = ushift 0 (i + 1 - off) d := by
  simp only [lkT] at h
  split at h
  · next d off e =>
    split at h
    · next ho => cases h; exact ⟨d, off, e, ho, rfl⟩
    · cases h
  · cases h

theorem dhC_ext (n : Nat) (F : Nat → Option Tm) (G : Ctx) :
    dhC (ext n F G) = ext n (fun i => (F i).map dh) (dhC G) := by
  funext i
  simp only [dhC, ext]
  split
  · rfl
  · cases G (i - n) with
    | none => rfl
    | some t => simp only [Option.map_some]; rw [dh_ushift]

theorem dhC_extN (n : Nat) (G : Ctx) : dhC (ext n noneF G) = ext n noneF (dhC G) := dhC_ext n noneF G

theorem lkD_nones {Δ : DCtxX} (hW : DWF Δ) (n : Nat) :
    lkD (List.replicate n none ++ Δ) = ext n noneF (lkD Δ) := by
  funext i
  by_cases hi : i < n
  · rw [ext_lt hi]
    simp only [lkD]
    rw [List.getElem?_append_left (by simpa using hi)]
    simp [hi, noneF]
  · have hi' : n ≤ i := Nat.not_lt.1 hi
    rw [ext_ge hi']
    simp only [lkD]
    rw [CheckComplete.nones_get hi']
    cases e : Δ[i - n]? with
    | none => rfl
    | some o =>
      cases o with
      | none => rfl
      | some p =>
        obtain ⟨d, off⟩ := p
        have := hW _ _ _ e
        simp only
        rw [if_pos (by omega), if_pos this]
        simp only [Option.map_some]
        rw [ushift_ushift]
        congr 2
        omega

theorem lkD_none {Δ : DCtxX} (hW : DWF Δ) : lkD (none :: Δ) = ext 1 noneF (lkD Δ) :=
  lkD_nones hW 1

theorem DWF_nones {Δ : DCtxX} (hW : DWF Δ) (n : Nat) : DWF (List.replicate n none ++ Δ) := by
  intro p d off h
  obtain ⟨h1, h2⟩ := replicate_get_some h
  have := hW _ _ _ h2
  omega

theorem DHF_nones {Δ : DCtxX} (hD : DHF Δ) (n : Nat) : DHF (List.replicate n none ++ Δ) := by
  intro e he d o heq
  rw [List.mem_append] at he
  rcases he with he | he
  · rw [List.mem_replicate] at he; rw [he.2] at heq; cases heq
  · exact hD e he d o heq

theorem lkT_cons {Γ : TCtxX} (hO : OffsT Γ) (d : Tm) :
    lkT ((d, 0) :: Γ) = ext 1 (fun _ => some (ushift 0 1 d)) (lkT Γ) := by
  funext i
  cases i with
  | zero => simp [lkT, ext]
  | succ i =>
    rw [ext_ge (by omega)]
    simp only [lkT, List.getElem?_cons_succ, Nat.add_sub_cancel]
    cases e : Γ[i]? with
    | none => rfl
    | some p =>
      obtain ⟨ty, off⟩ := p
      have := hO _ _ _ e
      simp only
      rw [if_pos (by omega), if_pos this]
      simp only [Option.map_some]
      rw [ushift_ushift]
      congr 2
      omega

theorem OffsT_cons {Γ : TCtxX} (hO : OffsT Γ) (d : Tm) : OffsT ((d, 0) :: Γ) := by
  intro i ty off e
  cases i with
  | zero => simp at e; omega
  | succ i => simp only [List.getElem?_cons_succ] at e; have := hO i ty off e; omega

/-! ### the context of a group -/

theorem pushedD_lookup : ∀ (ds : Defs) (D : DCtxX) (p : Nat),
    (pushedD ds ds.len D)[p]? =
      if p < ds.len then (defAt ds p).map (fun d => some (d, p + 1)) else D[p - ds.len]?
  | .nil, D, p => by simp [pushedD]
  | .cons x a d r, D, p => by
      have hl : (Defs.cons x a d r).len = r.len + 1 := rfl
      show (pushedD r (r.len + 1 - 1) (some (d, r.len + 1) :: D))[p]? = _
      rw [Nat.add_sub_cancel, pushedD_lookup r _ p]
      by_cases h1 : p < r.len
      · rw [if_pos h1, if_pos (by rw [hl]; omega)]
        simp only [defAt]
        rw [if_neg (by omega)]
      · rw [if_neg h1]
        by_cases h2 : p = r.len
        · subst h2
          rw [if_pos (by rw [hl]; omega)]
          simp [defAt]
        · rw [if_neg (by rw [hl]; omega), hl]
          rw [show p - r.len = (p - (r.len + 1)) + 1 by omega, List.getElem?_cons_succ]

theorem pushedT_lookup : ∀ (ds : Defs) (T : TCtxX) (p : Nat),
    (pushedT ds ds.len T)[p]? =
      if p < ds.len then (annAt ds p).map (fun d => (d, p + 1)) else T[p - ds.len]?
  | .nil, D, p => by simp [pushedT]
  | .cons x a d r, D, p => by
      have hl : (Defs.cons x a d r).len = r.len + 1 := rfl
      show (pushedT r (r.len + 1 - 1) ((a, r.len + 1) :: D))[p]? = _
      rw [Nat.add_sub_cancel, pushedT_lookup r _ p]
      by_cases h1 : p < r.len
      · rw [if_pos h1, if_pos (by rw [hl]; omega)]
        simp only [annAt]
        rw [if_neg (by omega)]
      · rw [if_neg h1]
        by_cases h2 : p = r.len
        · subst h2
          rw [if_pos (by rw [hl]; omega)]
          simp [annAt]
        · rw [if_neg (by rw [hl]; omega), hl]
          rw [show p - r.len = (p - (r.len + 1)) + 1 by omega, List.getElem?_cons_succ]

theorem lkD_pushed {Δ : DCtxX} (hW : DWF Δ) (ds : Defs) :
    lkD (pushedD ds ds.len Δ) = ext ds.len (defF ds) (lkD Δ) := by
  funext i
  simp only [lkD, pushedD_lookup]
  by_cases hi : i < ds.len
  · rw [if_pos hi, ext_lt hi]
    simp only [defF]
    cases defAt ds i with
    | none => rfl
    | some d => simp [ushift_zero]
  · have hi' : ds.len ≤ i := Nat.not_lt.1 hi
    rw [if_neg hi, ext_ge hi']
    simp only [lkD]
    cases e : Δ[i - ds.len]? with
    | none => rfl
    | some o =>
      cases o with
      | none => rfl
      | some p =>
        obtain ⟨d, off⟩ := p
        have := hW _ _ _ e
        simp only
        rw [if_pos (by omega), if_pos this]
        simp only [Option.map_some]
        rw [ushift_ushift]
        congr 2
        omega

theorem lkT_pushed {Γ : TCtxX} (hO : OffsT Γ) (ds : Defs) :
    lkT (pushedT ds ds.len Γ) = ext ds.len (annF ds) (lkT Γ) := by
  funext i
  simp only [lkT, pushedT_lookup]
  by_cases hi : i < ds.len
  · rw [if_pos hi, ext_lt hi]
    simp only [annF]
    cases annAt ds i with
    | none => rfl
    | some d => simp [ushift_zero]
  · have hi' : ds.len ≤ i := Nat.not_lt.1 hi
    rw [if_neg hi, ext_ge hi']
    simp only [lkT]
    cases e : Γ[i - ds.len]? with
    | none => rfl
    | some p =>
      obtain ⟨d, off⟩ := p
      have := hO _ _ _ e
      simp only
      rw [if_pos (by omega), if_pos this]
      simp only [Option.map_some]
      rw [ushift_ushift]
      congr 2
      omega

theorem DWF_pushed {Δ : DCtxX} (hW : DWF Δ) (ds : Defs) : DWF (pushedD ds ds.len Δ) := by
  intro p d off h
  rw [pushedD_lookup] at h
  by_cases hp : p < ds.len
  · rw [if_pos hp] at h
    cases e : defAt ds p with
    | none => rw [e] at h; cases h
    | some d0 => rw [e] at h; simp at h; omega
  · rw [if_neg hp] at h
    have := hW _ _ _ h
    omega

theorem OffsT_pushed {Γ : TCtxX} (hO : OffsT Γ) (ds : Defs) : OffsT (pushedT ds ds.len Γ) := by
  intro p d off h
  rw [pushedT_lookup] at h
  by_cases hp : p < ds.len
  · rw [if_pos hp] at h
    cases e : annAt ds p with
    | none => rw [e] at h; cases h
    | some d0 => rw [e] at h; simp at h; omega
  · rw [if_neg hp] at h
    have := hO _ _ _ h
    omega

theorem DHF_pushed {Δ : DCtxX} (hD : DHF Δ) (ds : Defs) (hds : ds.holeFree = true) :
    DHF (pushedD ds ds.len Δ) := by
  have := pushGroupX_HF ds 0 [] Δ hds (fun _ h => by cases h) hD
  rw [CheckSound.pushGroupX_eq] at this
  exact this.2

theorem THF_pushed {Γ : TCtxX} (hT : THF Γ) (ds : Defs) (hds : ds.holeFree = true) :
    THF (pushedT ds ds.len Γ) := by
  have := pushGroupX_HF ds 0 Γ [] hds hT (fun _ h => by cases h)
  rw [CheckSound.pushGroupX_eq] at this
  exact this.1

theorem annF_dh (ds : Defs) : (fun i => (annF ds i).map dh) = annF (dhDefs ds) := by
  funext i; simp only [annF, annAt_dhDefs]
theorem defF_dh (ds : Defs) : (fun i => (defF ds i).map dh) = defF (dhDefs ds) := by
  funext i; simp only [defF, defAt_dhDefs]

/-! ## `Conv` to `Cv` -/

theorem cv_comps_nil {D : Ctx} (i : Nat) (t1 t2 : Tm) (e1 : (comps .nil)[i]? = some t1) : Cv D t1 t2 := by
  simp [comps] at e1

theorem red1_cv {Δ : DCtxX} {a b : Tm} (h : Red1 Δ a b) : Cv (dhC (lkD Δ)) (dh a) (dh b) := by
  cases h with
  | beta x im d body a =>
    simp only [dh, dh_openT]
    exact .beta x im _ _ _ (dh_holeFree _) (dh_holeFree _) (dh_holeFree _)
  | delta x i d off hΔ hoff =>
    simp only [dh]
    refine .delta x i _ ?_ (dh_holeFree _)
    simp only [dhC, lkD_some hΔ hoff, Option.map_some]
  | letStep x a d rest body =>
    simp only [dh, dhDefs, letStepX, dh_openT, dhDefs_openDefs, dh_unfoldDef]
    have := Cv.letStep (D := dhC (lkD Δ)) x (dh a) (dh d) (dhDefs rest) (dh body) (dh_holeFree _)
      (dh_holeFree _) (dhDefs_holeFree _) (dh_holeFree _)
    rw [dhDefs_len] at this
    exact this
  | letNil body =>
    simp only [dh, dhDefs]
    exact .letNil _ (dh_holeFree _)
  | neg k => exact .negLit k
  | arith op x y _ hr =>
    simp only [dh]
    rw [dh_id _ (delta_holeFree hr)]
    exact .arith op x y _ hr
  | iteTrue a b => simp only [dh]; exact .iteT _ _ (dh_holeFree _) (dh_holeFree _)
  | iteFalse a b => simp only [dh]; exact .iteF _ _ (dh_holeFree _) (dh_holeFree _)

mutual
theorem conv_cv : ∀ {Δ : DCtxX} {a b : Tm}, Conv Δ a b → DWF Δ → Cv (dhC (lkD Δ)) (dh a) (dh b)
  | _, _, _, .refl _ a, _ => .refl (dh_holeFree _)
  | _, _, _, .symm h, hW => .symm (conv_cv h hW)
  | _, _, _, .trans h1 h2, hW => .trans (conv_cv h1 hW) (conv_cv h2 hW)
  | _, _, _, .red h, _ => red1_cv h
  | _, _, _, .same h, _ => .same (sameX_dh _ _ h) (dh_holeFree _) (dh_holeFree _)
  | _, _, _, .lam x y im d1 d2 h, hW => by
      have := conv_cv h (DWF.push hW)
      rw [lkD_none hW, dhC_extN] at this
      simp only [dh]
      exact .lam x y im _ _ (dh_holeFree _) (dh_holeFree _) this
  | _, _, _, .pi x y im h1 h2, hW => by
      have := conv_cv h2 (DWF.push hW)
      rw [lkD_none hW, dhC_extN] at this
      simp only [dh]
      exact .pi x y im (conv_cv h1 hW) this
  | _, _, _, .app h1 h2, hW => by simp only [dh]; exact .app (conv_cv h1 hW) (conv_cv h2 hW)
  | _, _, _, .neg h1, hW => by simp only [dh]; exact .neg (conv_cv h1 hW)
  | _, _, _, .bin op h1 h2, hW => by simp only [dh]; exact .bin op (conv_cv h1 hW) (conv_cv h2 hW)
  | _, _, _, .ite h0 h1 h2, hW => by
      simp only [dh]; exact .ite (conv_cv h0 hW) (conv_cv h1 hW) (conv_cv h2 hW)
  | _, _, _, @Conv.letg Δ ds1 ds2 b1 b2 h1 h2, hW => by
      have hW' := DWF_nones hW ds1.len
      have c1 := convDefs_cv h1 hW'
      have c2 := conv_cv h2 hW'
      rw [lkD_nones hW, dhC_extN] at c1 c2
      simp only [dh]
      refine .letg (by rw [dhDefs_len, dhDefs_len, ConvDefs.len_eq h1]) (dhDefs_holeFree _)
        (dhDefs_holeFree _) ?_ ?_
      · rw [dhDefs_len]; exact c1
      · rw [dhDefs_len]; exact c2
theorem convDefs_cv : ∀ {Δ : DCtxX} {a b : Defs}, ConvDefs Δ a b → DWF Δ →
    ∀ (i : Nat) (t1 t2 : Tm), (comps (dhDefs a))[i]? = some t1 → (comps (dhDefs b))[i]? = some t2 →
      Cv (dhC (lkD Δ)) t1 t2
  | _, _, _, .nil _, _, i, t1, t2, e1, _ => by simp [dhDefs, comps] at e1
  | _, _, _, .cons x y h1 h2 h3, hW, i, t1, t2, e1, e2 => by
      simp only [dhDefs, comps] at e1 e2
      match i with
      | 0 =>
        simp only [List.getElem?_cons_zero, Option.some.injEq] at e1 e2
        subst e1 e2
        exact conv_cv h1 hW
      | 1 =>
        simp only [List.getElem?_cons_succ, List.getElem?_cons_zero, Option.some.injEq] at e1 e2
        subst e1 e2
        exact conv_cv h2 hW
      | i+2 =>
        simp only [List.getElem?_cons_succ] at e1 e2
        exact convDefs_cv h3 hW i t1 t2 e1 e2
end

theorem dhC_id {G : Ctx} (h : CHF G) : dhC G = G := by
  funext i
  simp only [dhC]
  cases e : G i with
  | none => rfl
  | some t => simp only [Option.map_some]; rw [dh_id t (h i t e)]

theorem CHF_lkD {Δ : DCtxX} (hD : DHF Δ) : CHF (lkD Δ) := by
  intro i t h
  obtain ⟨d, off, e, _, rfl⟩ := lkD_inv h
  rw [ushift_holeFree]
  exact hD _ (List.mem_of_getElem? e) d off rfl

theorem CHF_lkT {Γ : TCtxX} (hT : THF Γ) : CHF (lkT Γ) := by
  intro i t h
  obtain ⟨d, off, e, _, rfl⟩ := lkT_inv h
  rw [ushift_holeFree]
  exact hT _ (List.mem_of_getElem? e)

/-- conversion of hole-free terms in a hole-free context, as `Cv` -/
theorem conv_cv_hf {Δ : DCtxX} {a b : Tm} (h : Conv Δ a b) (hW : DWF Δ) (hD : DHF Δ)
    (ha : a.holeFree = true) (hb : b.holeFree = true) : Cv (lkD Δ) a b := by
  have := conv_cv h hW
  rwa [dhC_id (CHF_lkD hD), dh_id a ha, dh_id b hb] at this

/-! ## `Cv` to `Conv` -/

theorem convDefs_of_comps {Δ : DCtxX} : ∀ (ds1 ds2 : Defs), ds1.len = ds2.len →
    (∀ (i : Nat) (t1 t2 : Tm), (comps ds1)[i]? = some t1 → (comps ds2)[i]? = some t2 → Conv Δ t1 t2) →
    ConvDefs Δ ds1 ds2
  | .nil, .nil, _, _ => .nil _
  | .nil, .cons .., h, _ => by simp at h
  | .cons .., .nil, h, _ => by simp at h
  | .cons x a d r, .cons y a' d' r', hl, h => by
      simp only [Defs.len_cons, Nat.add_right_cancel_iff] at hl
      refine .cons x y (h 0 a a' (by simp [comps]) (by simp [comps]))
        (h 1 d d' (by simp [comps]) (by simp [comps])) (convDefs_of_comps r r' hl ?_)
      intro i t1 t2 e1 e2
      exact h (i + 2) t1 t2 (by simpa [comps] using e1) (by simpa [comps] using e2)

theorem cv_conv {D : Ctx} {a b : Tm} (h : Cv D a b) : ∀ (Δ : DCtxX), DWF Δ → D = lkD Δ → Conv Δ a b := by
  induction h with
  | refl _ => intro Δ _ _; exact .refl _ _
  | symm _ ih => intro Δ hW e; exact .symm (ih Δ hW e)
  | trans _ _ ih1 ih2 => intro Δ hW e; exact .trans (ih1 Δ hW e) (ih2 Δ hW e)
  | beta x im d body a _ _ _ => intro Δ _ _; exact .red (.beta x im d body a)
  | delta x i d hi _ =>
    intro Δ _ e
    rw [e] at hi
    obtain ⟨d0, off, e0, ho, rfl⟩ := lkD_inv hi
    exact .red (.delta x i d0 off e0 ho)
  | letStep x a d rest body _ _ _ _ => intro Δ _ _; exact .red (.letStep x a d rest body)
  | letNil body _ => intro Δ _ _; exact .red (.letNil body)
  | negLit n => intro Δ _ _; exact .red (.neg n)
  | arith op x y r hr => intro Δ _ _; exact .red (.arith op x y r hr)
  | iteT a b _ _ => intro Δ _ _; exact .red (.iteTrue a b)
  | iteF a b _ _ => intro Δ _ _; exact .red (.iteFalse a b)
  | same hs _ _ => intro Δ _ _; exact .same hs
  | lam x y im d1 d2 _ _ _ ih =>
    intro Δ hW e
    exact .lam x y im d1 d2 (ih (none :: Δ) (DWF.push hW) (by rw [e, lkD_none hW]))
  | pi x y im _ _ ih1 ih2 =>
    intro Δ hW e
    exact .pi x y im (ih1 Δ hW e) (ih2 (none :: Δ) (DWF.push hW) (by rw [e, lkD_none hW]))
  | app _ _ ih1 ih2 => intro Δ hW e; exact .app (ih1 Δ hW e) (ih2 Δ hW e)
  | neg _ ih => intro Δ hW e; exact .neg (ih Δ hW e)
  | bin op _ _ ih1 ih2 => intro Δ hW e; exact .bin op (ih1 Δ hW e) (ih2 Δ hW e)
  | ite _ _ _ ih0 ih1 ih2 => intro Δ hW e; exact .ite (ih0 Δ hW e) (ih1 Δ hW e) (ih2 Δ hW e)
  | @letg D ds1 ds2 b1 b2 hl _ _ _ _ ihc ihb =>
    intro Δ hW e
    have e' : ext ds1.len noneF D = lkD (List.replicate ds1.len none ++ Δ) := by rw [e, lkD_nones hW]
    have hW' := DWF_nones hW ds1.len
    exact .letg (convDefs_of_comps ds1 ds2 hl (fun i t1 t2 e1 e2 => ihc i t1 t2 e1 e2 _ hW' e'))
      (ihb _ hW' e')

/-! ## `Π`-injectivity (from confluence) -/

theorem ctxCv_er (Δ : DCtxX) (hD : DHF Δ) : CtxCv (lkD (erD Δ)) (lkD Δ) := by
  intro i d x e
  obtain ⟨d0, off, e0, ho, rfl⟩ := lkD_inv e
  obtain ⟨d1, e1, rfl⟩ := erD_some_inv e0
  have hd1 : d1.holeFree = true := hD _ (List.mem_of_getElem? e1) d1 off rfl
  have hs : (ushift 0 (i + 1 - off) d1).holeFree = true := by rw [ushift_holeFree]; exact hd1
  refine .trans (.delta x i _ (lkD_some e1 ho) hs) ?_
  rw [← er_ushift]
  exact .same (CheckComplete.sameX_er _ hs) hs (er_holeFree _)

/-- joinable erasures of hole-free terms are convertible -/
theorem join_cv {Δ : DCtxX} (hW : DWF Δ) (hD : DHF Δ) {n : Nat} {a b : Tm} (ha : a.holeFree = true)
    (hb : b.holeFree = true) (h : Join (erD Δ) n (er a) (er b)) : Cv (ext n noneF (lkD Δ)) a b := by
  obtain ⟨c, p1, p2⟩ := h
  have hWe := DWF_erD hW
  have c1 := CheckComplete.pars_conv hWe p1
  have c2 := CheckComplete.pars_conv hWe p2
  have hc : (c.holeFree = true) := p1.hf (DHF_erD _) (er_holeFree _)
  have hWn := DWF_nones hWe n
  have hDn := DHF_nones (DHF_erD Δ) n
  have k1 := conv_cv_hf c1 hWn hDn (er_holeFree _) hc
  have k2 := conv_cv_hf c2 hWn hDn (er_holeFree _) hc
  have k : Cv (ext n noneF (lkD (erD Δ))) (er a) (er b) := by
    rw [← lkD_nones hWe]; exact .trans k1 (.symm k2)
  have k' := k.ctx _ ((ctxCv_er Δ hD).underN n)
  exact .trans (.same (CheckComplete.sameX_er a ha) ha (er_holeFree _))
    (.trans k' (.symm (.same (CheckComplete.sameX_er b hb) hb (er_holeFree _))))

/-- **`Π`-injectivity** -/
theorem cv_pi_inj {Δ : DCtxX} (hW : DWF Δ) (hD : DHF Δ) {x y : Name} {im jm : Bool} {A B A' B' : Tm}
    (h : Cv (lkD Δ) (.pi x im A B) (.pi y jm A' B')) :
    im = jm ∧ Cv (lkD Δ) A A' ∧ Cv (ext 1 noneF (lkD Δ)) B B' := by
  have hf := h.hf
  simp only [Tm.holeFree, Bool.and_eq_true] at hf
  have c := cv_conv h Δ hW rfl
  have j := Conv.join c hW
  simp only [er] at j
  obtain ⟨e, j1, j2⟩ := Join.pi_inv j
  refine ⟨e, ?_, join_cv hW hD hf.1.2 hf.2.2 j2⟩
  have := join_cv hW hD hf.1.1 hf.2.1 j1
  have e0 : ext 0 noneF (lkD Δ) = lkD Δ := by
    funext i; simp [ext]
    cases lkD Δ i <;> simp [ushift_zero]
  rwa [e0] at this

end Pres
