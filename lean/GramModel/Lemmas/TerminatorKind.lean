import GramModel.Lemmas.ParserSpan

/-!
# The parser never looks at the *kind* of a terminator token (C10, parser clause)

`SameUpToTerminator toks toks'`: the two token arrays have the same length and, index by index, the
same range and the same kind — except that where one has a terminator (`;` or a line break) the other
may have a terminator of the other kind.

Every primitive through which the 36 parsing functions read the token array (`tokenRange`,
`consume0` with a non-terminator kind, `consumeIdent`, `consumeLiteral`, the recovery scan
`expectToken` with a target that does not separate the two terminator kinds, `neverClosed`, the
`toks.size` tests) returns the same value on `toks` and `toks'`.  Hence the 36 bodies are *equal as
functions*, for every recursive-call argument `rec`; hence `parseNT toks fuel = parseNT toks' fuel`
and `runParser toks = runParser toks'` — results **and** final memo tables and hit/miss counters.
-/

namespace PModel

/-- Two token kinds agree up to the terminator type. -/
def KindSim (k k' : PKind) : Prop :=
  k = k' ∨ (k.isTerminator = true ∧ k'.isTerminator = true)

instance (k k' : PKind) : Decidable (KindSim k k') := by unfold KindSim; infer_instance

/-- Same length; at every index the same range, and the same kind except that a terminator of one
kind may stand where a terminator of the other kind stands. -/
def SameUpToTerminator (toks toks' : Array PTok) : Prop :=
  toks.size = toks'.size ∧
  ∀ (i : Nat) (h : i < toks.size) (h' : i < toks'.size),
    toks[i].range = toks'[i].range ∧ KindSim toks[i].kind toks'[i].kind

theorem KindSim.refl (k : PKind) : KindSim k k := Or.inl rfl

theorem KindSim.symm {k k' : PKind} (h : KindSim k k') : KindSim k' k := by
  rcases h with h | ⟨h1, h2⟩
  · exact Or.inl h.symm
  · exact Or.inr ⟨h2, h1⟩

theorem KindSim.trans {a b c : PKind} (h1 : KindSim a b) (h2 : KindSim b c) : KindSim a c := by
  rcases h1 with rfl | ⟨x1, x2⟩
  · exact h2
  · rcases h2 with rfl | ⟨y1, y2⟩
    · exact Or.inr ⟨x1, x2⟩
    · exact Or.inr ⟨x1, y2⟩

theorem KindSim.terminators (t t' : TerminatorType) : KindSim (.terminator t) (.terminator t') :=
  Or.inr ⟨rfl, rfl⟩

/-- `KindSim` is: equal, or both terminators. -/
theorem KindSim.cases {k k' : PKind} (h : KindSim k k') :
    k = k' ∨ ∃ t t', k = .terminator t ∧ k' = .terminator t' := by
  rcases h with h | ⟨h1, h2⟩
  · exact Or.inl h
  · cases k <;> simp [PKind.isTerminator] at h1
    cases k' <;> simp [PKind.isTerminator] at h2
    exact Or.inr ⟨_, _, rfl, rfl⟩

theorem SameUpToTerminator.refl (toks : Array PTok) : SameUpToTerminator toks toks :=
  ⟨rfl, fun _ _ _ => ⟨rfl, KindSim.refl _⟩⟩

theorem SameUpToTerminator.symm {toks toks' : Array PTok} (h : SameUpToTerminator toks toks') :
    SameUpToTerminator toks' toks :=
  ⟨h.1.symm, fun i h1 h2 => ⟨(h.2 i h2 h1).1.symm, (h.2 i h2 h1).2.symm⟩⟩

theorem SameUpToTerminator.trans {a b c : Array PTok} (h1 : SameUpToTerminator a b)
    (h2 : SameUpToTerminator b c) : SameUpToTerminator a c :=
  ⟨h1.1.trans h2.1, fun i ha hc =>
    have hb : i < b.size := h1.1 ▸ ha
    ⟨(h1.2 i ha hb).1.trans (h2.2 i hb hc).1, (h1.2 i ha hb).2.trans (h2.2 i hb hc).2⟩⟩

/-! ### Normal form: spell every terminator `;` -/

/-- Spell every terminator `;`. -/
def PKind.canon : PKind → PKind
  | .terminator _ => .terminator .semicolon
  | k => k

def PTok.canon (t : PTok) : PTok := ⟨t.kind.canon, t.range⟩

theorem kindSim_iff_canon (k k' : PKind) : KindSim k k' ↔ k.canon = k'.canon := by
  constructor
  · intro h
    rcases h.cases with rfl | ⟨t, t', rfl, rfl⟩ <;> rfl
  · intro h
    cases k <;> cases k' <;> simp [PKind.canon] at h <;>
      first
        | exact KindSim.terminators _ _
        | (simp only [KindSim]; simp [h])

/-- `SameUpToTerminator` is: equal after spelling every terminator `;` (so it is decidable). -/
theorem sameUpToTerminator_iff_canon (toks toks' : Array PTok) :
    SameUpToTerminator toks toks' ↔ toks.map PTok.canon = toks'.map PTok.canon := by
  constructor
  · intro h
    apply Array.ext
    · simpa using h.1
    · intro i h1 h2
      simp only [Array.size_map] at h1 h2
      simp only [Array.getElem_map, PTok.canon, PTok.mk.injEq]
      exact ⟨(kindSim_iff_canon _ _).1 (h.2 i h1 h2).2, (h.2 i h1 h2).1⟩
  · intro h
    have hs : toks.size = toks'.size := by simpa using congrArg Array.size h
    refine ⟨hs, fun i h1 h2 => ?_⟩
    have e : (toks.map PTok.canon)[i]'(by simpa using h1) = (toks'.map PTok.canon)[i]'(by simpa using h2) := by
      simp only [h]
    simp only [Array.getElem_map, PTok.canon, PTok.mk.injEq] at e
    exact ⟨e.2, (kindSim_iff_canon _ _).2 e.1⟩

theorem sameUpToTerminator_iff_canon_list (toks toks' : Array PTok) :
    SameUpToTerminator toks toks' ↔ toks.toList.map PTok.canon = toks'.toList.map PTok.canon := by
  rw [sameUpToTerminator_iff_canon, ← Array.toList_map, ← Array.toList_map, Array.toList_inj]

instance (toks toks' : Array PTok) : Decidable (SameUpToTerminator toks toks') :=
  decidable_of_iff _ (sameUpToTerminator_iff_canon_list toks toks').symm

/-! ### Respelling -/

/-- Respell the terminators of a token by `f` (e.g. line break ↦ `;`). -/
def PTok.respell (f : TerminatorType → TerminatorType) (t : PTok) : PTok :=
  match t.kind with
  | .terminator ty => ⟨.terminator (f ty), t.range⟩
  | _ => t

theorem sameUpToTerminator_respell (f : TerminatorType → TerminatorType) (toks : Array PTok) :
    SameUpToTerminator toks (toks.map (PTok.respell f)) := by
  refine ⟨by simp, fun i h1 h2 => ?_⟩
  simp only [Array.getElem_map, PTok.respell]
  cases hk : toks[i].kind <;> simp only [hk, true_and] <;>
    first
      | exact KindSim.terminators _ _
      | exact KindSim.refl _

/-- Pointwise relation of two lists (core Lean has no `All₂`). -/
inductive All₂ {α β : Type} (R : α → β → Prop) : List α → List β → Prop
  | nil : All₂ R [] []
  | cons {a b l l'} : R a b → All₂ R l l' → All₂ R (a :: l) (b :: l')

theorem All₂.refl {α : Type} {R : α → α → Prop} (hr : ∀ a, R a a) : ∀ l : List α, All₂ R l l
  | [] => .nil
  | a :: l => .cons (hr a) (All₂.refl hr l)

theorem All₂.append {α β : Type} {R : α → β → Prop} {l1 l1' l2 l2'} (h1 : All₂ R l1 l1')
    (h2 : All₂ R l2 l2') : All₂ R (l1 ++ l2) (l1' ++ l2') := by
  induction h1 with
  | nil => exact h2
  | cons hab _ ih => exact .cons hab ih

theorem All₂.map {α β α' β' : Type} {R : α → β → Prop} {S : α' → β' → Prop} (f : α → α')
    (g : β → β') (hf : ∀ a b, R a b → S (f a) (g b)) {l l'} (h : All₂ R l l') :
    All₂ S (l.map f) (l'.map g) := by
  induction h with
  | nil => exact .nil
  | cons hab _ ih => exact .cons (hf _ _ hab) ih

/-- List form: pointwise same range and same kind up to the terminator type. -/
theorem sameUpToTerminator_of_forall₂ {l l' : List PTok}
    (h : All₂ (fun a b => a.range = b.range ∧ KindSim a.kind b.kind) l l') :
    SameUpToTerminator l.toArray l'.toArray := by
  induction h with
  | nil => exact SameUpToTerminator.refl _
  | @cons a b l l' hab _ ih =>
    refine ⟨by simpa using ih.1, fun i h1 h2 => ?_⟩
    cases i with
    | zero => simpa using hab
    | succ i =>
      simp only [List.size_toArray, List.length_cons] at h1 h2
      have := ih.2 i (by simpa using Nat.lt_of_succ_lt_succ h1) (by simpa using Nat.lt_of_succ_lt_succ h2)
      simpa using this

/-- Two kind lists that agree up to the terminator type, laid over the same ranges. -/
theorem sameUpToTerminator_zipWith {ks ks' : List PKind} (h : All₂ KindSim ks ks')
    (rs : List SourceRange) :
    SameUpToTerminator (List.zipWith PTok.mk ks rs).toArray (List.zipWith PTok.mk ks' rs).toArray := by
  apply sameUpToTerminator_of_forall₂
  induction h generalizing rs with
  | nil => simp only [List.zipWith_nil_left]; exact .nil
  | @cons a b l l' hab _ ih =>
    cases rs with
    | nil => simp only [List.zipWith_nil_right]; exact .nil
    | cons r rs => exact All₂.cons ⟨rfl, hab⟩ (ih rs)

/-- A target of a recovery scan that does not separate the two terminator kinds. -/
def Respects (target : PKind → Bool) : Prop := ∀ k k', KindSim k k' → target k = target k'

theorem respects_isTerminator : Respects PKind.isTerminator := by
  intro k k' h
  rcases h.cases with rfl | ⟨t, t', rfl, rfl⟩ <;> rfl

theorem respects_eq (kind : PKind) (hk : kind.isTerminator = false) :
    Respects (fun k => decide (k = kind)) := by
  intro k k' h
  rcases h.cases with rfl | ⟨t, t', rfl, rfl⟩
  · rfl
  · cases kind <;> simp [PKind.isTerminator] at hk <;> simp

section Prims
variable {toks toks' : Array PTok} (h : SameUpToTerminator toks toks')
include h

theorem SameUpToTerminator.range_eq {i : Nat} (h1 : i < toks.size) (h2 : i < toks'.size) :
    toks[i].range = toks'[i].range := (h.2 i h1 h2).1

theorem SameUpToTerminator.kind_sim {i : Nat} (h1 : i < toks.size) (h2 : i < toks'.size) :
    KindSim toks[i].kind toks'[i].kind := (h.2 i h1 h2).2

theorem SameUpToTerminator.kind_eq_iff {i : Nat} (h1 : i < toks.size) (h2 : i < toks'.size)
    {kind : PKind} (hk : kind.isTerminator = false) :
    toks[i].kind = kind ↔ toks'[i].kind = kind := by
  rcases (h.kind_sim h1 h2).cases with e | ⟨t, t', e1, e2⟩
  · rw [e]
  · rw [e1, e2]
    cases kind <;> simp [PKind.isTerminator] at hk <;> simp

theorem tokenRange_congr (pos : Nat) : tokenRange toks pos = tokenRange toks' pos := by
  unfold tokenRange
  by_cases hp : pos < toks.size
  · have hp' : pos < toks'.size := h.1 ▸ hp
    rw [dif_pos hp, dif_pos hp']
    exact h.range_eq hp hp'
  · have hp' : ¬ pos < toks'.size := h.1 ▸ hp
    rw [dif_neg hp, dif_neg hp']
    simp only [Array.back?]
    by_cases hz : toks.size = 0
    · have hz' : toks'.size = 0 := h.1 ▸ hz
      simp [hz, hz']
    · have h1 : toks.size - 1 < toks.size := by omega
      have h2 : toks'.size - 1 < toks'.size := by have := h.1; omega
      rw [Array.getElem?_eq_getElem h1, Array.getElem?_eq_getElem h2]
      have e := h.1
      have := h.range_eq h1 (by omega : toks.size - 1 < toks'.size)
      simp only [← e]
      simp only [this]

theorem emptyRange_congr (pos : Nat) : emptyRange toks pos = emptyRange toks' pos := by
  simp only [emptyRange, tokenRange_congr h]

theorem errorFactory_congr (pos : Nat) : errorFactory toks pos = errorFactory toks' pos := by
  simp only [errorFactory, tokenRange_congr h]

theorem errorTerm_congr (pos : Nat) : errorTerm toks pos = errorTerm toks' pos := by
  simp only [errorTerm, emptyRange_congr h, errorFactory_congr h]

theorem skippedTerm_congr (pos : Nat) : skippedTerm toks pos = skippedTerm toks' pos := by
  simp only [skippedTerm, emptyRange_congr h]

theorem failAt_congr (pos : Nat) : failAt toks pos = failAt toks' pos := by
  simp only [failAt, errorTerm_congr h]

theorem noParse_congr (pos : Nat) : noParse toks pos = noParse toks' pos := by
  simp only [noParse, failAt_congr h]

theorem consume0_congr (next : Nat) {kind : PKind} (hk : kind.isTerminator = false)
    (k : Nat → ParseM PResult) : consume0 toks next kind k = consume0 toks' next kind k := by
  unfold consume0
  by_cases hp : next < toks.size
  · have hp' : next < toks'.size := h.1 ▸ hp
    rw [dif_pos hp, dif_pos hp', failAt_congr h]
    by_cases hc : toks[next].kind = kind
    · rw [if_pos hc, if_pos ((h.kind_eq_iff hp hp' hk).1 hc)]
    · rw [if_neg hc, if_neg (fun x => hc ((h.kind_eq_iff hp hp' hk).2 x))]
  · have hp' : ¬ next < toks'.size := h.1 ▸ hp
    rw [dif_neg hp, dif_neg hp', failAt_congr h]

theorem consumeIdent_congr (next : Nat) (k : Name → Nat → ParseM PResult) :
    consumeIdent toks next k = consumeIdent toks' next k := by
  unfold consumeIdent
  by_cases hp : next < toks.size
  · have hp' : next < toks'.size := h.1 ▸ hp
    rw [dif_pos hp, dif_pos hp', failAt_congr h]
    rcases (h.kind_sim hp hp').cases with e | ⟨t, t', e1, e2⟩
    · rw [e]
    · rw [e1, e2]
  · have hp' : ¬ next < toks'.size := h.1 ▸ hp
    rw [dif_neg hp, dif_neg hp', failAt_congr h]

theorem consumeLiteral_congr (next : Nat) (k : Nat → Nat → ParseM PResult) :
    consumeLiteral toks next k = consumeLiteral toks' next k := by
  unfold consumeLiteral
  by_cases hp : next < toks.size
  · have hp' : next < toks'.size := h.1 ▸ hp
    rw [dif_pos hp, dif_pos hp', failAt_congr h]
    rcases (h.kind_sim hp hp').cases with e | ⟨t, t', e1, e2⟩
    · rw [e]
    · rw [e1, e2]
  · have hp' : ¬ next < toks'.size := h.1 ▸ hp
    rw [dif_neg hp, dif_neg hp', failAt_congr h]

theorem scanLoop_congr {target : PKind → Bool} (ht : Respects target) :
    ∀ (n next depth : Nat),
      scanLoop toks target n next depth = scanLoop toks' target n next depth := by
  intro n
  induction n with
  | zero => intro next depth; rfl
  | succ n ih =>
    intro next depth
    unfold scanLoop
    by_cases hp : next < toks.size
    · have hp' : next < toks'.size := h.1 ▸ hp
      rw [dif_pos hp, dif_pos hp']
      have hs := h.kind_sim hp hp'
      have htg := ht _ _ hs
      rcases hs.cases with e | ⟨t, t', e1, e2⟩
      · simp only [e, ih]
      · simp only [e1, e2] at htg ⊢
        simp only [htg, ih]
    · have hp' : ¬ next < toks'.size := h.1 ▸ hp
      rw [dif_neg hp, dif_neg hp']

theorem expectToken_congr {target : PKind → Bool} (ht : Respects target) (next : Nat)
    (reportError : Bool) :
    expectToken toks next target reportError = expectToken toks' next target reportError := by
  unfold expectToken
  rw [scanLoop_congr h ht, errorFactory_congr h]
  have hsz : toks.size - next = toks'.size - next := by rw [h.1]
  rw [hsz]
  by_cases hp : next < toks.size
  · have hp' : next < toks'.size := h.1 ▸ hp
    simp only [dif_pos hp, dif_pos hp', ht _ _ (h.kind_sim hp hp')]
  · have hp' : ¬ next < toks'.size := h.1 ▸ hp
    simp only [dif_neg hp, dif_neg hp']

theorem neverClosed_congr (start next : Nat) :
    neverClosed toks start next = neverClosed toks' start next := by
  simp only [neverClosed, tokenRange_congr h, h.1]

end Prims

/-! ## The 36 bodies are equal as functions -/

section BodiesEq
variable {toks toks' : Array PTok} (h : SameUpToTerminator toks toks')
  (rec : NT → Nat → ParseM PResult)
include h

theorem parseLeaf_congr {kind : PKind} (hk : kind.isTerminator = false) (v : SrcV) (start : Nat) :
    parseLeaf toks kind v start = parseLeaf toks' kind v start := by
  simp only [parseLeaf, consume0_congr h _ hk, tokenRange_congr h]

theorem parseTerm_congr (start : Nat) : parseTerm toks rec start = parseTerm toks' rec start := by
  simp only [parseTerm, noParse_congr h]

theorem parseVariable_congr (start : Nat) : parseVariable toks start = parseVariable toks' start := by
  simp only [parseVariable, consumeIdent_congr h, tokenRange_congr h]

theorem parseLambda_congr (start : Nat) :
    parseLambda toks rec start = parseLambda toks' rec start := by
  simp only [parseLambda, consumeIdent_congr h, tokenRange_congr h,
    consume0_congr h _ (rfl : PKind.thickArrow.isTerminator = false)]

theorem parseLambdaImplicit_congr (start : Nat) :
    parseLambdaImplicit toks rec start = parseLambdaImplicit toks' rec start := by
  simp only [parseLambdaImplicit, consumeIdent_congr h, tokenRange_congr h,
    consume0_congr h _ (rfl : PKind.thickArrow.isTerminator = false),
    consume0_congr h _ (rfl : PKind.leftCurly.isTerminator = false),
    consume0_congr h _ (rfl : PKind.rightCurly.isTerminator = false)]

theorem parseBinder_congr {openK closeK arrowK : PKind} (h1 : openK.isTerminator = false)
    (h2 : closeK.isTerminator = false) (h3 : arrowK.isTerminator = false)
    (mk : SrcVar → Src → Src → SrcV) (start : Nat) :
    parseBinder toks rec openK closeK arrowK mk start
      = parseBinder toks' rec openK closeK arrowK mk start := by
  simp only [parseBinder, consumeIdent_congr h, tokenRange_congr h,
    consume0_congr h _ h1, consume0_congr h _ h2, consume0_congr h _ h3,
    consume0_congr h _ (rfl : PKind.colon.isTerminator = false)]

theorem parseNonDependentPi_congr (start : Nat) :
    parseNonDependentPi toks rec start = parseNonDependentPi toks' rec start := by
  simp only [parseNonDependentPi, emptyRange_congr h,
    consume0_congr h _ (rfl : PKind.thinArrow.isTerminator = false)]

theorem parseIntegerLiteral_congr (start : Nat) :
    parseIntegerLiteral toks start = parseIntegerLiteral toks' start := by
  simp only [parseIntegerLiteral, consumeLiteral_congr h, tokenRange_congr h]

theorem parseNegation_congr (start : Nat) :
    parseNegation toks rec start = parseNegation toks' rec start := by
  simp only [parseNegation, tokenRange_congr h,
    consume0_congr h _ (rfl : PKind.minus.isTerminator = false)]

theorem parseBinary_congr (left : NT) {opTok : PKind} (hk : opTok.isTerminator = false)
    (right : NT) (op : BinOp) (start : Nat) :
    parseBinary toks rec left opTok right op start
      = parseBinary toks' rec left opTok right op start := by
  simp only [parseBinary, consume0_congr h _ hk]

theorem parseIf_congr (start : Nat) : parseIf toks rec start = parseIf toks' rec start := by
  simp only [parseIf, tokenRange_congr h, skippedTerm_congr h,
    consume0_congr h _ (rfl : PKind.if_.isTerminator = false),
    expectToken_congr h (respects_eq .then_ rfl), expectToken_congr h (respects_eq .else_ rfl)]

theorem parseGroup_congr (start : Nat) : parseGroup toks rec start = parseGroup toks' rec start := by
  simp only [parseGroup, tokenRange_congr h, neverClosed_congr h,
    consume0_congr h _ (rfl : PKind.leftParen.isTerminator = false),
    expectToken_congr h (respects_eq .rightParen rfl)]

theorem parseAtom_congr (start : Nat) : parseAtom toks rec start = parseAtom toks' rec start := by
  simp only [parseAtom, noParse_congr h]
theorem parseSmallTerm_congr (start : Nat) :
    parseSmallTerm toks rec start = parseSmallTerm toks' rec start := by
  simp only [parseSmallTerm, noParse_congr h]
theorem parseMediumTerm_congr (start : Nat) :
    parseMediumTerm toks rec start = parseMediumTerm toks' rec start := by
  simp only [parseMediumTerm, noParse_congr h]
theorem parseLargeTerm_congr (start : Nat) :
    parseLargeTerm toks rec start = parseLargeTerm toks' rec start := by
  simp only [parseLargeTerm, noParse_congr h]
theorem parseHugeTerm_congr (start : Nat) :
    parseHugeTerm toks rec start = parseHugeTerm toks' rec start := by
  simp only [parseHugeTerm, noParse_congr h]
theorem parseGiantTerm_congr (start : Nat) :
    parseGiantTerm toks rec start = parseGiantTerm toks' rec start := by
  simp only [parseGiantTerm, noParse_congr h]
theorem parseJumboTerm_congr (start : Nat) :
    parseJumboTerm toks rec start = parseJumboTerm toks' rec start := by
  simp only [parseJumboTerm, noParse_congr h]

theorem dite_kind_congr {α : Type} (next : Nat) {kind : PKind} (hk : kind.isTerminator = false)
    (a b : α) :
    (if h : next < toks.size then (if toks[next].kind = kind then a else b) else b) =
    (if h : next < toks'.size then (if toks'[next].kind = kind then a else b) else b) := by
  by_cases hp : next < toks.size
  · have hp' : next < toks'.size := h.1 ▸ hp
    rw [dif_pos hp, dif_pos hp']
    by_cases hc : toks[next].kind = kind
    · rw [if_pos hc, if_pos ((h.kind_eq_iff hp hp' hk).1 hc)]
    · rw [if_neg hc, if_neg (fun x => hc ((h.kind_eq_iff hp hp' hk).2 x))]
  · have hp' : ¬ next < toks'.size := h.1 ▸ hp
    rw [dif_neg hp, dif_neg hp']

theorem parseLet_congr (start : Nat) : parseLet toks rec start = parseLet toks' rec start := by
  unfold parseLet
  simp only [consumeIdent_congr h, tokenRange_congr h, skippedTerm_congr h,
    consume0_congr h _ (rfl : PKind.colon.isTerminator = false),
    consume0_congr h _ (rfl : PKind.equals.isTerminator = false),
    expectToken_congr h (respects_eq .equals rfl), expectToken_congr h respects_isTerminator]
  congr 1
  funext x next
  exact dite_kind_congr h next rfl _ _

theorem parseBody_congr (nt : NT) (start : Nat) :
    parseBody toks rec nt start = parseBody toks' rec nt start := by
  cases nt <;> simp only [parseBody]
  · exact parseTerm_congr h rec start
  · exact parseLeaf_congr h rfl _ start
  · exact parseVariable_congr h start
  · exact parseLambda_congr h rec start
  · exact parseLambdaImplicit_congr h rec start
  · exact parseBinder_congr h rec rfl rfl rfl _ start
  · exact parseBinder_congr h rec rfl rfl rfl _ start
  · exact parseBinder_congr h rec rfl rfl rfl _ start
  · exact parseBinder_congr h rec rfl rfl rfl _ start
  · exact parseNonDependentPi_congr h rec start
  · exact parseLet_congr h rec start
  · exact parseLeaf_congr h rfl _ start
  · exact parseIntegerLiteral_congr h start
  · exact parseNegation_congr h rec start
  · exact parseBinary_congr h rec _ rfl _ _ start
  · exact parseBinary_congr h rec _ rfl _ _ start
  · exact parseBinary_congr h rec _ rfl _ _ start
  · exact parseBinary_congr h rec _ rfl _ _ start
  · exact parseBinary_congr h rec _ rfl _ _ start
  · exact parseBinary_congr h rec _ rfl _ _ start
  · exact parseBinary_congr h rec _ rfl _ _ start
  · exact parseBinary_congr h rec _ rfl _ _ start
  · exact parseBinary_congr h rec _ rfl _ _ start
  · exact parseLeaf_congr h rfl _ start
  · exact parseLeaf_congr h rfl _ start
  · exact parseLeaf_congr h rfl _ start
  · exact parseIf_congr h rec start
  · exact parseGroup_congr h rec start
  · exact parseAtom_congr h rec start
  · exact parseSmallTerm_congr h rec start
  · exact parseMediumTerm_congr h rec start
  · exact parseLargeTerm_congr h rec start
  · exact parseHugeTerm_congr h rec start
  · exact parseGiantTerm_congr h rec start
  · exact parseJumboTerm_congr h rec start

end BodiesEq

/-! ## The knot, the parse phase, the whole front end -/

/-- The memoised parsing functions are the same functions on `toks` and on `toks'`. -/
theorem parseNT_congr {toks toks' : Array PTok} (h : SameUpToTerminator toks toks') :
    ∀ fuel : Nat, parseNT toks fuel = parseNT toks' fuel := by
  intro fuel
  induction fuel with
  | zero => funext nt start; rfl
  | succ fuel ih =>
    funext nt start
    simp only [parseNT]
    rw [ih, parseBody_congr h]

/-- So are the cache-free ones. -/
theorem parsePure_congr {toks toks' : Array PTok} (h : SameUpToTerminator toks toks') :
    ∀ fuel : Nat, parsePure toks fuel = parsePure toks' fuel := by
  intro fuel
  induction fuel with
  | zero => funext nt start; rfl
  | succ fuel ih =>
    funext nt start
    simp only [parsePure]
    rw [ih, parseBody_congr h]

/-- **The parse phase does not see the terminator kind**: same result (tree with ranges, flags and
recorded errors, `next`, `confident`) *and* the same final state (memo table, hit and miss
counters). -/
theorem runParser_terminator_kind {toks toks' : Array PTok} (h : SameUpToTerminator toks toks') :
    runParser toks' = runParser toks := by
  simp only [runParser, parseFuel, parseNT_congr h, h.1]

theorem finishParse_terminator_kind {toks toks' : Array PTok} (h : SameUpToTerminator toks toks')
    (context : List Name) (term : Src) (next : Nat) :
    finishParse toks' context term next = finishParse toks context term next := by
  simp only [finishParse, errorFactory_congr h, h.1]

/-- The whole front end model (`parse`: parser, re-association, resolution, definition-order check). -/
theorem parseModel_terminator_kind {toks toks' : Array PTok} (h : SameUpToTerminator toks toks')
    (context : List Name) : parseModel toks' context = parseModel toks context := by
  simp only [parseModel, runParser_terminator_kind h, finishParse_terminator_kind h]

theorem parseStats_terminator_kind {toks toks' : Array PTok} (h : SameUpToTerminator toks toks') :
    parseStats toks' = parseStats toks := by
  simp only [parseStats, runParser_terminator_kind h]

end PModel
