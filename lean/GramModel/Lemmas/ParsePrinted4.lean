import GramModel.Lemmas.ParsePrinted3

/-! # Completeness of the parser model on printed terms, part 4: the induction on the printed term -/

namespace PModel
open PrintDerives

section Main
variable {toks : Array PTok} (I : List Char → Name) (nm : Name → List Char)

/-- what the induction carries for a term printed at `[a, b)` -/
structure PG (toks : Array PTok) (I : List Char → Name) (nm : Name → List Char) (t : Tm)
    (a b : Nat) : Prop where
  term : Follow toks b stopK → Parses toks .term a b (srcOf I nm t)
  jumbo : isLet t = false → Follow toks b stopK → Parses toks .jumboTerm a b (srcOf I nm t)
  nb : KAt toks b .rightParen → ∀ p, p + 1 = a → NB toks p
  app : isApp t = true → AtomSeq toks a b (atomsOf I nm t)
  atom : atomic t = true → AtomOK toks a b (srcOf I nm t)
  notPE : (srcOf I nm t).isParseError = false
  lt : a < b

theorem setG_pe (e : Src) : (setG e).isParseError = e.isParseError := by
  obtain ⟨r, g, v, es⟩ := e; rfl

theorem shape_group (tr : Src) (r : SourceRange) :
    shape (.mk r true tr.variant tr.errors) = setG (shape tr) := by
  obtain ⟨r', g, v, es⟩ := tr; rfl

variable {I nm}

/-- a parenthesised printed term is an atom -/
theorem paren_atom {t : Tm} {a b' : Nat} (hk : KAt toks a .leftParen) (G : PG toks I nm t (a + 1) b')
    (hc : KAt toks b' .rightParen) : AtomOK toks a (b' + 1) (setG (srcOf I nm t)) := by
  obtain ⟨tr, h1, hs⟩ := G.term (Follow.of_kat hc rfl)
  have hr : tr.isParseError = false := by rw [← shape_pe, hs]; exact G.notPE
  have hg := group_ok hk h1 hr hc
  have hlt := G.lt
  refine ⟨⟨_, choice_ok [.type, .variable, .integer, .integerLiteral, .boolean, .true_, .false_] []
    rfl ?_ hg ?_, ?_⟩, ?_, ⟨_, hk, rfl⟩, G.nb hc a rfl, fun x hx => ?_, by omega⟩
  · intro X hX
    simp only [List.mem_cons, List.mem_nil_iff, or_false] at hX
    rcases hX with rfl | rfl | rfl | rfl | rfl | rfl | rfl
    · exact leaf_fail rfl (hk.ne (by decide))
    · exact variable_fail (fun x => hk.ne (by simp))
    · exact leaf_fail rfl (hk.ne (by decide))
    · exact literal_fail (fun n => hk.ne (by simp))
    · exact leaf_fail rfl (hk.ne (by decide))
    · exact leaf_fail rfl (hk.ne (by decide))
    · exact leaf_fail rfl (hk.ne (by decide))
  · obtain ⟨r', g, v, es⟩ := tr; exact hr
  · rw [shape_group, hs]
  · rw [setG_pe]; exact G.notPE
  · exact absurd (KAt.unique hk hx) (by simp)

/-- what `group` prints is an atom -/
theorem group_atom {t : Tm} {a : Nat} (hs : Sub toks a (groupK I nm t))
    (ih : ∀ a', Sub toks a' (pk I nm t) → PG toks I nm t a' (a' + (pk I nm t).length)) :
    AtomOK toks a (a + (groupK I nm t).length) (grpS I nm t) := by
  rw [groupK_eq] at hs ⊢
  unfold grpS
  by_cases hat : atomic t = true
  · simp only [hat, if_true] at hs ⊢
    exact (ih a hs).atom hat
  · simp only [hat, if_false, Bool.false_eq_true] at hs ⊢
    obtain ⟨h0, hs⟩ := hs
    rw [Sub_append] at hs
    obtain ⟨h1, h2, _⟩ := hs
    have := paren_atom h0 (ih (a + 1) h1) h2
    have e : a + (PKind.leftParen :: (pk I nm t ++ [PKind.rightParen])).length
        = a + 1 + (pk I nm t).length + 1 := by simp; omega
    rw [e]; exact this

/-- an application head / arrow domain is an atom sequence -/
theorem head_seq {t : Tm} {a : Nat} (hs : Sub toks a (headK I nm t))
    (ih : ∀ a', Sub toks a' (pk I nm t) → PG toks I nm t a' (a' + (pk I nm t).length)) :
    AtomSeq toks a (a + (headK I nm t).length) (headAtoms I nm t) := by
  rw [headK_eq] at hs ⊢
  unfold headAtoms
  by_cases hap : isApp t = true
  · simp only [hap, if_true] at hs ⊢
    exact (ih a hs).app hap
  · simp only [hap, if_false, Bool.false_eq_true] at hs ⊢
    exact .one (group_atom hs ih)

/-- a binder annotation is a `jumbo_term` -/
theorem annot_jumbo {t : Tm} {a : Nat} (hs : Sub toks a (annotK I nm t))
    (ih : ∀ a', Sub toks a' (pk I nm t) → PG toks I nm t a' (a' + (pk I nm t).length))
    (hf : Follow toks (a + (annotK I nm t).length) stopK) :
    Parses toks .jumboTerm a (a + (annotK I nm t).length) (annS I nm t) ∧
      (annS I nm t).isParseError = false := by
  rw [annotK_eq] at hs hf ⊢
  unfold annS
  by_cases hl : isLet t = true
  · simp only [hl, if_true] at hs hf ⊢
    obtain ⟨h0, hs⟩ := hs
    rw [Sub_append] at hs
    obtain ⟨h1, h2, _⟩ := hs
    have A := paren_atom h0 (ih (a + 1) h1) h2
    have e : a + (PKind.leftParen :: (pk I nm t ++ [PKind.rightParen])).length
        = a + 1 + (pk I nm t).length + 1 := by simp; omega
    rw [e] at hf ⊢
    exact ⟨(AtomSeq.one A).jumbo (hf.mono stop_jstop), A.notPE⟩
  · have hl' : isLet t = false := by simpa using hl
    simp only [hl', if_false, Bool.false_eq_true] at hs hf ⊢
    exact ⟨(ih a hs).jumbo hl' hf, (ih a hs).notPE⟩

/-! ### Leaves -/

theorem keyword_atom {nt : NT} {k : PKind} {a : Nat} (hk : leafKind nt = some k)
    (h : KAt toks a k) : AtomOK toks a (a + 1) (mk0 false (leafV nt)) := by
  have hka : atomStartK k = true ∧ (∀ x, k ≠ .identifier x) ∧ k ≠ .leftParen := by
    cases nt <;> simp only [leafKind, Option.some.injEq, reduceCtorEq] at hk <;> subst hk <;>
      simp [atomStartK]
  have hr := leaf_ok hk h
  refine ⟨⟨.mk (tokenRange toks a) false (leafV nt) [], ?_, ?_⟩, ?_, ⟨k, h, hka.1⟩, NB.of_start (Or.inl (h.ne hka.2.2)),
    fun x hx => absurd (KAt.unique h hx) (hka.2.1 x), by omega⟩
  · cases nt <;> simp only [leafKind, Option.some.injEq, reduceCtorEq] at hk <;> subst hk
    · exact choice_ok [] _ rfl (fun _ hX => by cases hX) hr rfl
    · refine choice_ok [.type, .variable] _ rfl ?_ hr rfl
      intro X hX
      simp only [List.mem_cons, List.mem_nil_iff, or_false] at hX
      rcases hX with rfl | rfl
      · exact leaf_fail rfl (h.ne (by decide))
      · exact variable_fail (fun x => h.ne (by simp))
    · refine choice_ok [.type, .variable, .integer, .integerLiteral] _ rfl ?_ hr rfl
      intro X hX
      simp only [List.mem_cons, List.mem_nil_iff, or_false] at hX
      rcases hX with rfl | rfl | rfl | rfl
      · exact leaf_fail rfl (h.ne (by decide))
      · exact variable_fail (fun x => h.ne (by simp))
      · exact leaf_fail rfl (h.ne (by decide))
      · exact literal_fail (fun n => h.ne (by simp))
    · refine choice_ok [.type, .variable, .integer, .integerLiteral, .boolean] _ rfl ?_ hr rfl
      intro X hX
      simp only [List.mem_cons, List.mem_nil_iff, or_false] at hX
      rcases hX with rfl | rfl | rfl | rfl | rfl
      · exact leaf_fail rfl (h.ne (by decide))
      · exact variable_fail (fun x => h.ne (by simp))
      · exact leaf_fail rfl (h.ne (by decide))
      · exact literal_fail (fun n => h.ne (by simp))
      · exact leaf_fail rfl (h.ne (by decide))
    · refine choice_ok [.type, .variable, .integer, .integerLiteral, .boolean, .true_] _ rfl ?_ hr rfl
      intro X hX
      simp only [List.mem_cons, List.mem_nil_iff, or_false] at hX
      rcases hX with rfl | rfl | rfl | rfl | rfl | rfl
      · exact leaf_fail rfl (h.ne (by decide))
      · exact variable_fail (fun x => h.ne (by simp))
      · exact leaf_fail rfl (h.ne (by decide))
      · exact literal_fail (fun n => h.ne (by simp))
      · exact leaf_fail rfl (h.ne (by decide))
      · exact leaf_fail rfl (h.ne (by decide))
  · cases nt <;> simp only [leafKind, Option.some.injEq, reduceCtorEq] at hk <;> rfl
  · cases nt <;> simp only [leafKind, Option.some.injEq, reduceCtorEq] at hk <;> rfl

theorem ident_atom {x : Name} {a : Nat} (h : KAt toks a (.identifier x)) :
    AtomOK toks a (a + 1) (mk0 false (.var x)) := by
  refine ⟨⟨_, choice_ok [.type] _ rfl ?_ (variable_ok h) rfl, rfl⟩, rfl, ⟨_, h, rfl⟩,
    NB.of_start (Or.inl (h.ne (by simp))), fun _ _ => rfl, by omega⟩
  intro X hX
  simp only [List.mem_cons, List.mem_nil_iff, or_false] at hX
  subst hX
  exact leaf_fail rfl (h.ne (by simp))

theorem literal_atom {n : Nat} {a : Nat} (h : KAt toks a (.integerLiteral n)) :
    AtomOK toks a (a + 1) (mk0 false (.lit (Int.ofNat n))) := by
  refine ⟨⟨_, choice_ok [.type, .variable, .integer] _ rfl ?_ (literal_ok h) rfl, rfl⟩, rfl,
    ⟨_, h, rfl⟩, NB.of_start (Or.inl (h.ne (by simp))),
    fun x hx => absurd (KAt.unique h hx) (by simp), by omega⟩
  intro X hX
  simp only [List.mem_cons, List.mem_nil_iff, or_false] at hX
  rcases hX with rfl | rfl | rfl
  · exact leaf_fail rfl (h.ne (by simp))
  · exact variable_fail (fun x => h.ne (by simp))
  · exact leaf_fail rfl (h.ne (by simp))

/-- a term printed as an atom sequence -/
theorem PG.ofSeq {t : Tm} {a b : Nat} {l : List Src} (hs : AtomSeq toks a b l)
    (he : srcOf I nm t = nestL l) (happ : isApp t = true → AtomSeq toks a b (atomsOf I nm t))
    (hat : atomic t = true → AtomOK toks a b (srcOf I nm t)) : PG toks I nm t a b where
  term := fun hf => he ▸ hs.term hf
  jumbo := fun _ hf => he ▸ hs.jumbo (hf.mono stop_jstop)
  nb := fun hb p hp => hs.nb_before ⟨hb.ne (by decide), hb.ne (by decide), hb.ne (by decide)⟩ hp
  app := happ
  atom := hat
  notPE := he ▸ nestL_notPE hs.notPE hs.ne_nil
  lt := hs.lt

theorem PG.ofAtom {t : Tm} {a b : Nat} (A : AtomOK toks a b (srcOf I nm t))
    (happ : isApp t = false) : PG toks I nm t a b :=
  PG.ofSeq (.one A) rfl (fun h => by rw [happ] at h; cases h) (fun _ => A)

/-- a term parsed by one of the jumbo alternatives -/
theorem PG.ofJumbo {t : Tm} {a b : Nat}
    (hj : Follow toks b stopK → Parses toks .jumboTerm a b (srcOf I nm t))
    (hlet : FailsN toks .let_ a) (hnb : KAt toks b .rightParen → ∀ p, p + 1 = a → NB toks p)
    (hpe : (srcOf I nm t).isParseError = false) (happ : isApp t = false)
    (hat : atomic t = false) (hlt : a < b) : PG toks I nm t a b where
  term := fun hf => by
    obtain ⟨tr, h1, hs⟩ := hj hf
    exact ⟨tr, up_term h1 (by rw [← shape_pe, hs]; exact hpe) hlet, hs⟩
  jumbo := fun _ hf => hj hf
  nb := hnb
  app := fun h => by rw [happ] at h; cases h
  atom := fun h => by rw [hat] at h; cases h
  notPE := hpe
  lt := hlt

/-- the failures before `nonDependentPi` / `if` / `giantTerm` at a token that starts nothing else -/
theorem pre_of_kind {a : Nat} {k : PKind} (h : KAt toks a k) (h1 : ∀ x, k ≠ .identifier x)
    (h2 : k ≠ .leftParen) (h3 : k ≠ .leftCurly) :
    FailsN toks .lambda a ∧ FailsN toks .lambdaImplicit a ∧ FailsN toks .annotatedLambda a ∧
    FailsN toks .annotatedLambdaImplicit a ∧ FailsN toks .pi a ∧ FailsN toks .piImplicit a ∧
    FailsN toks .let_ a :=
  ⟨lambda_fail (Or.inl (fun x => h.ne (h1 x))), lambdaImplicit_fail (Or.inl (h.ne h3)),
   binder_fail_start bp_al (Or.inl (h.ne h2)), binder_fail_start bp_ali (Or.inl (h.ne h3)),
   binder_fail_start bp_pi (Or.inl (h.ne h2)), binder_fail_start bp_pii (Or.inl (h.ne h3)),
   let_fail (Or.inl (fun x => h.ne (h1 x)))⟩

theorem nb_of_kind {a : Nat} {k : PKind} (h : KAt toks a k) (h1 : ∀ x, k ≠ .identifier x)
    {p : Nat} (hp : p + 1 = a) : NB toks p := by
  subst hp
  exact NB.of_start (Or.inr (Or.inl (fun x => h.ne (h1 x))))

end Main

end PModel
