import GramModel.Lemmas.ParsePrinted11

/-! # Reading a printed term back: definitions for the full round-trip statement (pending) -/

namespace PModel
open RewriteMore PrintDerives

/-- parse phase, the three re-association passes, name resolution in the scope `names` (outermost
first, as `parse` takes it); the result with its ranges forgotten, and the resolution errors -/
def readBack (toks : Array PTok) (names : List Name) : Option (Tm × List PErr) :=
  match runParser toks with
  | none => none
  | some (r, _) =>
    match reassocAll r.term with
    | none => none
    | some s =>
      let ctx := initialContext names
      match resolve s ctx.length { ctx := ctx, errors := [], nextHole := 0 } with
      | none => none
      | some (rt, st) => some (rt.erase, st.errors)

mutual
/-- what reading back can restore: the name of an unused Π binder is not printed -/
def canon : Tm → Tm
  | .pi x imp d c =>
      if freeAt c 0 then .pi x imp (canon d) (canon c) else .pi placeholder false (canon d) (canon c)
  | .lam x imp d b => .lam x imp (canon d) (canon b)
  | .app f a => .app (canon f) (canon a)
  | .letg ds b => .letg (canonDefs ds) (canon b)
  | .neg a => .neg (canon a)
  | .bin o a b => .bin o (canon a) (canon b)
  | .ite c a b => .ite (canon c) (canon a) (canon b)
  | t => t
def canonDefs : Defs → Defs
  | .nil => .nil
  | .cons x a d r => .cons x (canon a) (canon d) (canonDefs r)
end

def Defs.names : Defs → List Name
  | .nil => []
  | .cons x _ _ r => x :: Defs.names r

mutual
/-- well-scoped with gram's no-shadowing discipline: `scope` lists the names in scope, innermost
first (position = de Bruijn index); every variable carries the index of its name; binder names are
not the placeholder and not in scope (the names of a definition group pairwise distinct, all in
scope in the whole group); no hole; a definition group is not empty and its body is not itself a
definition group (the printer prints `x = …; (y = …; b)` and `x = …; y = …; b` alike) -/
def scopedOK (scope : List Name) : Tm → Bool
  | .hole _ _ => false
  | .var x i => x != placeholder && scope[i]? == some x
  | .lam x _ d b => x != placeholder && !scope.contains x && scopedOK scope d && scopedOK (x :: scope) b
  | .pi x _ d c =>
      if freeAt c 0 then
        x != placeholder && !scope.contains x && scopedOK scope d && scopedOK (x :: scope) c
      else scopedOK scope d && scopedOK (placeholder :: scope) c
  | .app f a => scopedOK scope f && scopedOK scope a
  | .letg ds b =>
      let xs := Defs.names ds
      !xs.isEmpty && xs.all (fun x => x != placeholder && !scope.contains x) && xs.Nodup &&
        !isLet b && scopedDefsOK (xs.reverse ++ scope) ds && scopedOK (xs.reverse ++ scope) b
  | .neg a => scopedOK scope a
  | .bin _ a b => scopedOK scope a && scopedOK scope b
  | .ite c a b => scopedOK scope c && scopedOK scope a && scopedOK scope b
  | _ => true
def scopedDefsOK (scope : List Name) : Defs → Bool
  | .nil => true
  | .cons _ a d r => scopedOK scope a && scopedOK scope d && scopedDefsOK scope r
end

end PModel
