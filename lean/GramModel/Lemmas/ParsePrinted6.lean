import GramModel.Lemmas.ParsePrinted5

/-! # Completeness of the parser model on printed terms, part 6: the induction on the term -/

namespace PModel
open PrintDerives

mutual
/-- the fragment of the printable class covered by the induction below: operands, applications,
negation, binary operators, conditionals (no binder, no arrow, no definition) -/
def frag : Tm → Bool
  | .lit n => decide (0 ≤ n)
  | .pi _ _ _ _ => false
  | .lam _ _ _ _ => false
  | .app f a => frag f && frag a
  | .letg _ _ => false
  | .neg a => frag a
  | .bin _ a b => frag a && frag b
  | .ite c a b => frag c && frag a && frag b
  | _ => true
end

section Main
variable {toks : Array PTok} {I : List Char → Name} {nm : Name → List Char}

theorem neg_jumbo {a b : Nat} {ex : Src} (h0 : KAt toks a .minus) (X : AtomOK toks (a + 1) b ex)
    (hf : Follow toks b stopK) : Parses toks .jumboTerm a b (mk0 false (.neg ex)) := by
  have fb := stop_noatom hf
  have fo := stop_opfree hf
  obtain ⟨tx, smx, sx, rx⟩ := X.small fb
  have lx := small_to_large smx rx (X.pre (hf.not rfl)).noMinus (fo.not rfl) (fo.not rfl)
  have hn := negation_ok h0 lx
  have hl := choice_ok (A := .largeTerm) [] [.mediumTerm] rfl (fun _ h => by cases h) hn rfl
  have hg := large_to_giant hl rfl fo
  have hsm : FailsN toks .smallTerm a := small_fails (Follow.of_kat h0 rfl)
  have hpre := pre_of_kind h0 (by simp) (by simp) (by simp)
  refine ⟨_, jumbo_of [.lambda, .lambdaImplicit, .annotatedLambda, .annotatedLambdaImplicit, .pi,
    .piImplicit, .nonDependentPi, .if_] [] rfl ?_ hg rfl, by simp [shape, shapeV, sx, mk0]⟩
  intro X hX
  simp only [List.mem_cons, List.mem_nil_iff, or_false] at hX
  rcases hX with rfl | rfl | rfl | rfl | rfl | rfl | rfl | rfl
  · exact hpre.1
  · exact hpre.2.1
  · exact hpre.2.2.1
  · exact hpre.2.2.2.1
  · exact hpre.2.2.2.2.1
  · exact hpre.2.2.2.2.2.1
  · exact ndpi_fail_small hsm
  · exact if_fail (h0.ne (by decide))

theorem ite_jumbo {a m1 m2 b : Nat} {ec ex ey : Src} (h0 : KAt toks a .if_)
    (C : Parses toks .term (a + 1) m1 ec) (h1 : KAt toks m1 .then_)
    (X : Parses toks .term (m1 + 1) m2 ex) (h2 : KAt toks m2 .else_)
    (Y : Parses toks .term (m2 + 1) b ey) :
    Parses toks .jumboTerm a b (mk0 false (.ite ec ex ey)) := by
  obtain ⟨tc, hc, sc⟩ := C
  obtain ⟨tx, hx, sx⟩ := X
  obtain ⟨ty, hy, sy⟩ := Y
  have hi := if_ok h0 hc h1 hx h2 hy
  have hsm : FailsN toks .smallTerm a := small_fails (Follow.of_kat h0 rfl)
  have hpre := pre_of_kind h0 (by simp) (by simp) (by simp)
  refine ⟨_, jumbo_of [.lambda, .lambdaImplicit, .annotatedLambda, .annotatedLambdaImplicit, .pi,
    .piImplicit, .nonDependentPi] [.giantTerm] rfl ?_ hi rfl, by simp [shape, shapeV, sc, sx, sy, mk0]⟩
  intro X hX
  simp only [List.mem_cons, List.mem_nil_iff, or_false] at hX
  rcases hX with rfl | rfl | rfl | rfl | rfl | rfl | rfl
  · exact hpre.1
  · exact hpre.2.1
  · exact hpre.2.2.1
  · exact hpre.2.2.2.1
  · exact hpre.2.2.2.2.1
  · exact hpre.2.2.2.2.2.1
  · exact ndpi_fail_small hsm

/-- **The induction**: every term of the fragment, printed at `[a, a + length)`. -/
theorem main (toks : Array PTok) (I : List Char → Name) (nm : Name → List Char) :
    ∀ (t : Tm), frag t = true → ∀ a, Sub toks a (pk I nm t) →
      PG toks I nm t a (a + (pk I nm t).length)
  | .hole i s, _, a, hs => by
      have h : KAt toks a (.identifier (I holeText)) := hs.1
      exact PG.ofAtom (t := .hole i s) (by rw [srcOf]; exact ident_atom h) rfl
  | .var x i, _, a, hs => by
      have h : KAt toks a (.identifier (I (nm x))) := hs.1
      exact PG.ofAtom (t := .var x i) (by rw [srcOf]; exact ident_atom h) rfl
  | .type, _, a, hs => by
      have h : KAt toks a .type_ := hs.1
      exact PG.ofAtom (t := .type) (by rw [srcOf]; exact keyword_atom (nt := .type) rfl h) rfl
  | .int, _, a, hs => by
      have h : KAt toks a .integer := hs.1
      exact PG.ofAtom (t := .int) (by rw [srcOf]; exact keyword_atom (nt := .integer) rfl h) rfl
  | .bool, _, a, hs => by
      have h : KAt toks a .boolean := hs.1
      exact PG.ofAtom (t := .bool) (by rw [srcOf]; exact keyword_atom (nt := .boolean) rfl h) rfl
  | .tt, _, a, hs => by
      have h : KAt toks a .true_ := hs.1
      exact PG.ofAtom (t := .tt) (by rw [srcOf]; exact keyword_atom (nt := .true_) rfl h) rfl
  | .ff, _, a, hs => by
      have h : KAt toks a .false_ := hs.1
      exact PG.ofAtom (t := .ff) (by rw [srcOf]; exact keyword_atom (nt := .false_) rfl h) rfl
  | .lit (.ofNat n), _, a, hs => by
      have h : KAt toks a (.integerLiteral n) := hs.1
      exact PG.ofAtom (t := .lit (.ofNat n)) (by rw [srcOf]; exact literal_atom h) rfl
  | .lit (.negSucc n), h1, _, _ => by simp [frag] at h1
  | .lam _ _ _ _, h1, _, _ => by simp [frag] at h1
  | .pi _ _ _ _, h1, _, _ => by simp [frag] at h1
  | .letg _ _, h1, _, _ => by simp [frag] at h1
  | .app f x, h1, a, hs => by
      simp only [frag, Bool.and_eq_true] at h1
      rw [pk_app] at hs ⊢
      rw [Sub_append] at hs
      have hf := head_seq hs.1 (main toks I nm f h1.1)
      have hx := group_atom hs.2 (main toks I nm x h1.2)
      have hseq := hf.snoc hx
      rw [List.length_append, ← Nat.add_assoc]
      exact PG.ofSeq hseq (srcOf_app I nm f x) (fun _ => by rw [atomsOf_app]; exact hseq)
        (fun h => by simp [atomic, Tm.former, Former.bare] at h)
  | .neg x, h1, a, hs => by
      simp only [frag] at h1
      rw [pk_neg] at hs ⊢
      obtain ⟨h0, hs⟩ := hs
      have X := group_atom hs (main toks I nm x h1)
      have e : a + (PKind.minus :: groupK I nm x).length = a + 1 + (groupK I nm x).length := by
        simp; omega
      rw [e]
      generalize a + 1 + (groupK I nm x).length = b at X ⊢
      have hpre := pre_of_kind h0 (by simp) (by simp) (by simp)
      refine PG.ofJumbo ?_ hpre.2.2.2.2.2.2 (fun _ p hp => nb_of_kind h0 (by simp) hp)
        (by rw [srcOf_neg]; rfl) rfl rfl (by have := X.lt; omega)
      intro hf
      rw [srcOf_neg]
      exact neg_jumbo h0 X hf
  | .bin op x y, h1, a, hs => by
      simp only [frag, Bool.and_eq_true] at h1
      rw [pk_bin] at hs ⊢
      rw [Sub_append] at hs
      obtain ⟨hsx, hop, hsy⟩ := hs
      have X := group_atom hsx (main toks I nm x h1.1)
      have Y := group_atom hsy (main toks I nm y h1.2)
      have e : a + (groupK I nm x ++ opKindP I op :: groupK I nm y).length
          = a + (groupK I nm x).length + 1 + (groupK I nm y).length := by simp; omega
      rw [e]
      generalize a + (groupK I nm x).length = m at X Y hop ⊢
      generalize m + 1 + (groupK I nm y).length = b at Y ⊢
      have hopk : opKindP I op ≠ .thickArrow ∧ opKindP I op ≠ .colon ∧ opKindP I op ≠ .equals := by
        cases op <;> simp [opKindP, opKind, kindP]
      have hsafe : SafeNext toks m := ⟨hop.ne hopk.1, hop.ne hopk.2.1, hop.ne hopk.2.2⟩
      refine PG.ofJumbo ?_ (X.let_fails hsafe) (fun _ p hp => X.nb_before hsafe hp)
        (by rw [srcOf_bin]; rfl) rfl (by cases op <;> rfl) (by have := X.lt; have := Y.lt; omega)
      intro hf
      rw [srcOf_bin]
      exact bin_jumbo X hop Y hf
  | .ite c x y, h1, a, hs => by
      simp only [frag, Bool.and_eq_true] at h1
      rw [pk_ite] at hs ⊢
      obtain ⟨h0, hs⟩ := hs
      rw [Sub_append] at hs
      obtain ⟨hsc, hthen, hs⟩ := hs
      rw [Sub_append] at hs
      obtain ⟨hsx, helse, hsy⟩ := hs
      have C := main toks I nm c h1.1.1 _ hsc
      have X := main toks I nm x h1.1.2 _ hsx
      have Y := main toks I nm y h1.2 _ hsy
      have e : a + (PKind.if_ :: (pk I nm c ++ PKind.then_ :: (pk I nm x ++ PKind.else_ :: pk I nm y))).length
          = a + 1 + (pk I nm c).length + 1 + (pk I nm x).length + 1 + (pk I nm y).length := by
        simp; omega
      rw [e]
      generalize a + 1 + (pk I nm c).length = m1 at C X Y hthen helse ⊢
      generalize m1 + 1 + (pk I nm x).length = m2 at X Y helse ⊢
      generalize m2 + 1 + (pk I nm y).length = b at Y ⊢
      have hpre := pre_of_kind h0 (by simp) (by simp) (by simp)
      refine PG.ofJumbo ?_ hpre.2.2.2.2.2.2 (fun _ p hp => nb_of_kind h0 (by simp) hp)
        (by rw [srcOf_ite]; rfl) rfl rfl (by have := C.lt; have := X.lt; have := Y.lt; omega)
      intro hf
      rw [srcOf_ite]
      exact ite_jumbo h0 (C.term (Follow.of_kat hthen rfl)) hthen (X.term (Follow.of_kat helse rfl))
        helse (Y.term hf)

end Main

end PModel
