import GramModel.Check
import GramModel.Lemmas.DeBruijn
import GramModel.Lemmas.StoreCtx
import GramModel.Lemmas.StoreMono
import GramModel.Lemmas.Whnf
import GramModel.Lemmas.UnifyAgree

/-!
# Which panics of the type checker model are reachable (C14)

The unrestricted statement "no panic on a well-scoped term" is false (finding D18, see
`Props/C14.lean`); this file proves what is true.

* `sshiftS_ro` : `sshiftS` never panics, never changes the state, and never answers `none` for a
  non-negative amount (so the `unwrap` of `unsigned_shift` is dead, whatever the store holds);
  `derefS_ro`, `synEqS_ro`, `occursS_ro` : the comparison helpers are read-only and panic-free.
* `Sp h n D t` : `t` is a *spine term* at depth `D`: holes occur only along the Π-spine of `t`, all
  with shift 0, and the hole `c` only at depth `h c` (its *home*); everything else is hole-free and
  well scoped.  These are the only types the checker builds from a hole-free program.
* `StoreOK h σ` : every resolved cell `c` holds a spine term of depth `h c`; `Step`/`Keep` : what a
  run may do to the state (allocate cells with chosen homes / allocate nothing).
* `sshiftS_sp`, `whnfS_sp`, `openS_sp`, `solveS_sp`, `unifyS_sp`, `letTypeS_sp`, `infer_sp` : the
  invariant is kept and no panic is reached; `inferS_holeFree_no_panic` is the result.
* `PS P m` : `m` panics only at sites satisfying `P`; `inferS_lookup` : on *any* term and state only
  the four context lookups can panic.
* `PSC T Δ m` : started with contexts `T`, `Δ` the action can panic only at the indexing of the
  definitions context; `inferS_wellScoped_site` : that is the only live site on a well-scoped term
  with holes anywhere.
-/

namespace CheckNoPanic

open UnifyAgree WhnfLemmas

/-! ## Outcomes -/

/-- never a panic; on success the postcondition -/
def Res {α} (x : R α) (Q : α → St → Prop) : Prop :=
  match x with
  | .ok a s' => Q a s'
  | .fuel => True
  | .panic _ => False

theorem Res.bind {α β} {m : M α} {f : α → M β} {s : St} {Q1 : α → St → Prop}
    {Q2 : β → St → Prop} (hm : Res (m s) Q1) (hf : ∀ a s', Q1 a s' → Res (f a s') Q2) :
    Res ((m >>= f) s) Q2 := by
  show Res (M.bind m f s) Q2
  simp only [M.bind]
  generalize m s = x at hm
  cases x with
  | ok a s' => exact hf a s' hm
  | fuel => trivial
  | panic p => exact hm

theorem Res.mono {α} {x : R α} {Q Q' : α → St → Prop} (h : Res x Q) (hq : ∀ a s', Q a s' → Q' a s') :
    Res x Q' := by
  cases x with
  | ok a s' => exact hq a s' h
  | fuel => trivial
  | panic p => exact h

theorem Res.pure {α} {a : α} {s : St} {Q : α → St → Prop} (h : Q a s) : Res ((pure a : M α) s) Q := h

theorem Res.ne_panic {α} {x : R α} {Q : α → St → Prop} (h : Res x Q) (site : String) :
    x ≠ .panic site := by
  intro e; subst e; exact h

/-- read-only outcome: no panic, state unchanged -/
abbrev RO {α} (s : St) (Q : α → Prop) (x : R α) : Prop := Out3 s (fun _ => False) Q x

theorem RO.res {α} {s : St} {Q : α → Prop} {x : R α} (h : RO s Q x) :
    Res x (fun a s' => s' = s ∧ Q a) := by
  cases h with
  | fuel => trivial
  | panic h => exact h
  | ok h => exact ⟨rfl, h⟩

theorem pure_ro {α} {m : M α} {v : α} (h : Pure m v) (s : St) : RO s (fun r => r = v) (m s) :=
  h.out3 s _

/-- the contents of a cell (`none` for an unresolved or unallocated cell) -/
def cellVal (σ : List (Option Tm)) (id : Nat) : Option Tm :=
  match σ[id]? with | some c => c | none => none

theorem cellGet_bind {β} (id : Nat) (k : Option Tm → M β) (s : St) :
    (cellGet id >>= k) s = k (cellVal s.store id) s := rfl

theorem getSt_bind {β} (k : St → M β) (s : St) : (getSt >>= k) s = k s s := rfl

/-! ## A shift never panics; a non-negative shift never fails -/

set_option hygiene false in
local macro "ro_step" : tactic => `(tactic| first
  | (refine Out3.bind (ih1 _ _ _ s) (fun a qa => ?_)
     cases a <;> dsimp only
     exact Out3.pure (fun h => absurd rfl (qa h)))
  | (refine Out3.bind (ih2 _ _ _ s) (fun a qa => ?_)
     cases a <;> dsimp only
     exact Out3.pure (fun h => absurd rfl (qa h)))
  | exact Out3.pure (fun _ => by simp))

theorem sshiftS_ro : ∀ f,
    (∀ c amt t s, RO s (fun r => 0 ≤ amt → r ≠ none) (sshiftS f c amt t s)) ∧
    (∀ c amt ds s, RO s (fun r => 0 ≤ amt → r ≠ none) (sshiftDefsS f c amt ds s)) := by
  intro f
  induction f with
  | zero =>
    constructor
    · intros; rw [sshiftS]; exact .fuel
    · intros; rw [sshiftDefsS]; exact .fuel
  | succ f ih =>
    obtain ⟨ih1, ih2⟩ := ih
    constructor
    · intro c amt t s
      cases t <;> unfold sshiftS <;> dsimp only
      case hole id sh =>
        rw [cellGet_bind]
        cases cellVal s.store id with
        | some sub =>
          dsimp only
          refine Out3.bind (ih1 0 (sh : Int) _ s) (fun a qa => ?_)
          cases a with
          | none => exact absurd rfl (qa (Int.natCast_nonneg _))
          | some x => exact ih1 _ _ _ s
        | none =>
          dsimp only
          split
          · split
            · exact Out3.pure (fun _ => by simp)
            · exact Out3.pure (fun h => by omega)
          · exact Out3.pure (fun _ => by simp)
      case var x i =>
        split
        · split
          · exact Out3.pure (fun _ => by simp)
          · exact Out3.pure (fun h => by omega)
        · exact Out3.pure (fun _ => by simp)
      all_goals repeat ro_step
    · intro c amt ds s
      cases ds <;> unfold sshiftDefsS <;> dsimp only
      all_goals repeat ro_step

theorem ushiftS_ro (f c a : Nat) (t : Tm) (s : St) : RO s (fun _ => True) (ushiftS f c a t s) := by
  unfold ushiftS
  refine Out3.bind ((sshiftS_ro f).1 c (a : Int) t s) (fun r qr => ?_)
  cases r with
  | none => exact absurd rfl (qr (Int.natCast_nonneg _))
  | some x => exact Out3.pure trivial

theorem out3_weaken {α} {s : St} {P P' : String → Prop} {Q : α → Prop} {x : R α}
    (h : Out3 s P Q x) (hp : ∀ site, P site → P' site) : Out3 s P' Q x := by
  cases h with
  | fuel => exact .fuel
  | panic h => exact .panic (hp _ h)
  | ok h => exact .ok h

/-- add a partial-correctness fact to a read-only outcome -/
theorem RO.and_post {α} {s : St} {Q Q' : α → Prop} {x : R α} (h : RO s Q x)
    (hq : ∀ a s', x = .ok a s' → Q' a) : RO s (fun a => Q a ∧ Q' a) x := by
  cases h with
  | fuel => exact .fuel
  | panic h => exact absurd h id
  | ok h => exact .ok ⟨h, hq _ _ rfl⟩

/-! ## Spine terms -/

/-- `t` is a spine term at depth `D`: holes occur only along the Π-spine, with shift 0, the hole `c`
only at depth `h c`; all other subterms are hole-free and well scoped.  `n` bounds the cell ids. -/
def Sp (h : Nat → Nat) (n : Nat) : Nat → Tm → Prop
  | D, .hole c s => s = 0 ∧ c < n ∧ h c = D
  | D, .pi _ _ A B => Sp h n D A ∧ Sp h n (D+1) B
  | D, t => t.holeFree = true ∧ wellScoped D t = true

theorem Sp_hole {h n D c s} : Sp h n D (.hole c s) ↔ (s = 0 ∧ c < n ∧ h c = D) := by
  simp only [Sp]
theorem Sp_pi {h n D x im A B} : Sp h n D (.pi x im A B) ↔ (Sp h n D A ∧ Sp h n (D+1) B) := by
  simp only [Sp]

theorem Sp_of_hf (h : Nat → Nat) (n : Nat) : ∀ (t : Tm) (D : Nat), t.holeFree = true →
    wellScoped D t = true → Sp h n D t
  | .pi x im A B, D, hf, hw => by
      simp only [Tm.holeFree, Bool.and_eq_true] at hf
      simp only [wellScoped, Bool.and_eq_true] at hw
      exact Sp_pi.2 ⟨Sp_of_hf h n A D hf.1 hw.1, Sp_of_hf h n B (D+1) hf.2 hw.2⟩
  | .hole c s, D, hf, hw => by cases hf
  | .type, D, hf, hw | .int, D, hf, hw | .bool, D, hf, hw | .tt, D, hf, hw | .ff, D, hf, hw
  | .lit _, D, hf, hw | .var _ _, D, hf, hw | .lam _ _ _ _, D, hf, hw | .app _ _, D, hf, hw
  | .letg _ _, D, hf, hw | .neg _, D, hf, hw | .bin _ _ _, D, hf, hw | .ite _ _ _, D, hf, hw => by
      simp only [Sp]; exact ⟨hf, hw⟩

/-- `h'` agrees with `h` on the cells below `n` -/
def Ext (n : Nat) (h h' : Nat → Nat) : Prop := ∀ c, c < n → h' c = h c

theorem Ext.refl (n : Nat) (h : Nat → Nat) : Ext n h h := fun _ _ => rfl
theorem Ext.trans {n n' : Nat} {h h1 h2 : Nat → Nat} (e1 : Ext n h h1) (e2 : Ext n' h1 h2)
    (hn : n ≤ n') : Ext n h h2 := fun c hc => by rw [e2 c (by omega), e1 c hc]

theorem Sp.mono {h h' : Nat → Nat} {n n' : Nat} (he : Ext n h h') (hn : n ≤ n') :
    ∀ (t : Tm) (D : Nat), Sp h n D t → Sp h' n' D t
  | .pi x im A B, D, hs => by
      rw [Sp_pi] at hs ⊢
      exact ⟨Sp.mono he hn A D hs.1, Sp.mono he hn B (D+1) hs.2⟩
  | .hole c s, D, hs => by
      rw [Sp_hole] at hs ⊢
      exact ⟨hs.1, by omega, by rw [he c hs.2.1]; exact hs.2.2⟩
  | .type, D, hs | .int, D, hs | .bool, D, hs | .tt, D, hs | .ff, D, hs
  | .lit _, D, hs | .var _ _, D, hs | .lam _ _ _ _, D, hs | .app _ _, D, hs
  | .letg _ _, D, hs | .neg _, D, hs | .bin _ _ _, D, hs | .ite _ _ _, D, hs => by
      simp only [Sp] at hs ⊢; exact hs

/-- every resolved cell `c` holds a spine term of depth `h c` -/
def StoreOK (h : Nat → Nat) (σ : List (Option Tm)) : Prop :=
  ∀ c v, cellVal σ c = some v → Sp h σ.length (h c) v

theorem cellVal_lt {σ : List (Option Tm)} {c : Nat} {v : Tm} (e : cellVal σ c = some v) :
    c < σ.length := by
  unfold cellVal at e
  rcases Nat.lt_or_ge c σ.length with hlt | hge
  · exact hlt
  · rw [List.getElem?_eq_none hge] at e; cases e

/-- what a run may do to the state: allocate cells (homes chosen by `h'`), nothing else the
invariant depends on -/
structure Step (h : Nat → Nat) (s : St) (h' : Nat → Nat) (s' : St) : Prop where
  ext : Ext s.store.length h h'
  ok : StoreOK h' s'.store
  len : s.store.length ≤ s'.store.length
  tctx : s'.tctx = s.tctx
  dctx : s'.dctx = s.dctx

theorem Step.refl {h : Nat → Nat} {s : St} (hs : StoreOK h s.store) : Step h s h s :=
  ⟨Ext.refl _ _, hs, Nat.le_refl _, rfl, rfl⟩

theorem Step.trans {h h1 h2 : Nat → Nat} {s s1 s2 : St} (a : Step h s h1 s1) (b : Step h1 s1 h2 s2) :
    Step h s h2 s2 :=
  ⟨a.ext.trans b.ext a.len, b.ok, Nat.le_trans a.len b.len, b.tctx.trans a.tctx,
    b.dctx.trans a.dctx⟩

theorem Step.sp {h h' : Nat → Nat} {s s' : St} (a : Step h s h' s') {D : Nat} {t : Tm}
    (ht : Sp h s.store.length D t) : Sp h' s'.store.length D t := Sp.mono a.ext a.len t D ht

/-- a run that allocates nothing -/
structure Keep (h : Nat → Nat) (s s' : St) : Prop where
  ok : StoreOK h s'.store
  len : s'.store.length = s.store.length
  tctx : s'.tctx = s.tctx
  dctx : s'.dctx = s.dctx

theorem Keep.refl {h : Nat → Nat} {s : St} (hs : StoreOK h s.store) : Keep h s s :=
  ⟨hs, rfl, rfl, rfl⟩
theorem Keep.trans {h : Nat → Nat} {s s1 s2 : St} (a : Keep h s s1) (b : Keep h s1 s2) :
    Keep h s s2 :=
  ⟨b.ok, b.len.trans a.len, b.tctx.trans a.tctx, b.dctx.trans a.dctx⟩
theorem Keep.step {h : Nat → Nat} {s s' : St} (a : Keep h s s') : Step h s h s' :=
  ⟨Ext.refl _ _, a.ok, Nat.le_of_eq a.len.symm, a.tctx, a.dctx⟩

/-! ## Shifting a spine term by 0 expands its resolved cells -/

theorem natCast_zero_int : ((0 : Nat) : Int) = 0 := rfl
theorem neg_natCast_zero_int : (-((0 : Nat) : Int)) = 0 := rfl

theorem sshift_zero_hf (c : Nat) (t : Tm) : sshift c 0 t = some t := by
  have := sshift_ushift t c 0
  rw [ushift_zero] at this
  exact this

theorem sshiftS_sp : ∀ (f c : Nat) (t : Tm) (s : St) (h : Nat → Nat) (D : Nat),
    StoreOK h s.store → Sp h s.store.length D t →
    RO s (fun r => ∃ t', r = some t' ∧ Sp h s.store.length D t') (sshiftS f c 0 t s) := by
  intro f
  induction f with
  | zero => intros; rw [sshiftS]; exact .fuel
  | succ f ih =>
    intro c t s h D hst hsp
    have hfcase : t.holeFree = true → wellScoped D t = true →
        RO s (fun r => ∃ t', r = some t' ∧ Sp h s.store.length D t') (sshiftS (f+1) c 0 t s) := by
      intro hf hw
      refine (pure_ro ((sshiftS_P (f+1)).1 c 0 t hf) s).mono (fun r e => ?_)
      rw [sshift_zero_hf] at e
      exact ⟨t, e, Sp_of_hf h _ t D hf hw⟩
    cases t
    case hole id sh =>
      obtain ⟨rfl, hid, hh⟩ := Sp_hole.1 hsp
      unfold sshiftS
      dsimp only
      rw [cellGet_bind]
      cases hv : cellVal s.store id with
      | some sub =>
        dsimp only
        rw [natCast_zero_int]
        have hsub : Sp h s.store.length D sub := by rw [← hh]; exact hst id sub hv
        refine Out3.bind (ih 0 sub s h D hst hsub) (fun a qa => ?_)
        obtain ⟨sub', rfl, hsub'⟩ := qa
        exact ih c sub' s h D hst hsub'
      | none =>
        dsimp only
        split
        · split
          · refine Out3.pure ⟨_, rfl, ?_⟩
            exact Sp_hole.2 ⟨by simp, hid, hh⟩
          · omega
        · exact Out3.pure ⟨_, rfl, hsp⟩
    case pi x im A B =>
      obtain ⟨hA, hB⟩ := Sp_pi.1 hsp
      unfold sshiftS
      dsimp only
      refine Out3.bind (ih c A s h D hst hA) (fun a qa => ?_)
      obtain ⟨A', rfl, hA'⟩ := qa
      dsimp only
      refine Out3.bind (ih (c+1) B s h (D+1) hst hB) (fun b qb => ?_)
      obtain ⟨B', rfl, hB'⟩ := qb
      exact Out3.pure ⟨_, rfl, Sp_pi.2 ⟨hA', hB'⟩⟩
    all_goals (simp only [Sp] at hsp; exact hfcase hsp.1 hsp.2)

theorem ushiftS_sp (f : Nat) (t : Tm) (s : St) (h : Nat → Nat) (D : Nat)
    (hst : StoreOK h s.store) (hsp : Sp h s.store.length D t) :
    RO s (fun r => Sp h s.store.length D r) (ushiftS f 0 0 t s) := by
  unfold ushiftS
  rw [natCast_zero_int]
  refine Out3.bind (sshiftS_sp f 0 t s h D hst hsp) (fun a qa => ?_)
  obtain ⟨t', rfl, ht'⟩ := qa
  exact Out3.pure ht'

/-! ## The comparison helpers are read-only and never panic (on any terms) -/

theorem derefS_ro : ∀ (f : Nat) (t : Tm) (s : St), RO s (fun _ => True) (derefS f t s) := by
  intro f
  induction f with
  | zero => intros; rw [derefS]; exact .fuel
  | succ f ih =>
    intro t s
    cases t <;> unfold derefS <;> dsimp only
    case hole id sh =>
      rw [cellGet_bind]
      cases cellVal s.store id with
      | some sub =>
        dsimp only
        exact Out3.bind (ushiftS_ro f 0 sh sub s) (fun a _ => ih a s)
      | none => exact Out3.pure trivial
    all_goals exact Out3.pure trivial

set_option hygiene false in
local macro "ro_auto" : tactic => `(tactic| repeat (first
  | exact Out3.pure trivial
  | exact ih1 _ _ s
  | exact ih2 _ _ s
  | refine Out3.bind (ih1 _ _ s) (fun _ _ => ?_)
  | refine Out3.bind (ih2 _ _ s) (fun _ _ => ?_)
  | split))

theorem synEqS_ro : ∀ f,
    (∀ a b s, RO s (fun _ => True) (synEqS f a b s)) ∧
    (∀ a b s, RO s (fun _ => True) (synEqDefsS f a b s)) := by
  intro f
  induction f with
  | zero =>
    constructor
    · intros; rw [synEqS]; exact .fuel
    · intros; rw [synEqDefsS]; exact .fuel
  | succ f ih =>
    obtain ⟨ih1, ih2⟩ := ih
    constructor
    · intro a b s
      unfold synEqS
      refine Out3.bind (derefS_ro f a s) (fun a' _ => ?_)
      refine Out3.bind (derefS_ro f b s) (fun b' _ => ?_)
      ro_auto
    · intro a b s
      unfold synEqDefsS
      ro_auto

theorem occursS_ro : ∀ f,
    (∀ id t s, RO s (fun _ => True) (occursS f id t s)) ∧
    (∀ id ds s, RO s (fun _ => True) (occursDefsS f id ds s)) := by
  intro f
  induction f with
  | zero =>
    constructor
    · intros; rw [occursS]; exact .fuel
    · intros; rw [occursDefsS]; exact .fuel
  | succ f ih =>
    obtain ⟨ih1, ih2⟩ := ih
    constructor
    · intro id t s
      cases t <;> unfold occursS <;> dsimp only
      case hole j sh =>
        rw [cellGet_bind]
        cases cellVal s.store j with
        | some sub => exact ih1 _ _ s
        | none => exact Out3.pure trivial
      all_goals ro_auto
    · intro id ds s
      unfold occursDefsS
      ro_auto

/-! ## `whnfS` on a spine term -/

theorem whnfS_sp : ∀ (f : Nat) (t : Tm) (s : St) (h : Nat → Nat),
    StoreOK h s.store → DHF s.dctx → DSc s.dctx → Sp h s.store.length s.dctx.length t →
    RO s (fun r => Sp h s.store.length s.dctx.length r) (whnfS f t s) := by
  intro f
  induction f with
  | zero => intros; rw [whnfS]; exact .fuel
  | succ f ih =>
    intro t s h hst hD hS hsp
    have hfcase : t.holeFree = true → wellScoped s.dctx.length t = true →
        RO s (fun r => Sp h s.store.length s.dctx.length r) (whnfS (f+1) t s) := by
      intro hf hw
      refine (out3_weaken (whnfS_out true (f+1) t s hf hD (fun _ => ⟨hw, hS⟩))
        (fun site hp => ?_)).mono (fun r hr => Sp_of_hf h _ r _ hr.1 (hr.2 rfl))
      exact absurd hp.2 (by decide)
    cases t
    case hole id sh =>
      obtain ⟨rfl, hid, hh⟩ := Sp_hole.1 hsp
      unfold whnfS
      dsimp only
      rw [cellGet_bind]
      cases hv : cellVal s.store id with
      | some sub =>
        dsimp only
        have hsub : Sp h s.store.length s.dctx.length sub := by rw [← hh]; exact hst id sub hv
        refine Out3.bind (ushiftS_sp f sub s h _ hst hsub) (fun a qa => ?_)
        exact ih a s h hst hD hS qa
      | none => exact Out3.pure hsp
    case pi x im A B =>
      unfold whnfS
      exact Out3.pure hsp
    all_goals (simp only [Sp] at hsp; exact hfcase hsp.1 hsp.2)

/-! ## `openS` on a spine term (the only place, besides `cellFresh`, where cells are allocated) -/

theorem cellVal_append_none (σ : List (Option Tm)) (c : Nat) :
    cellVal (σ ++ [none]) c = cellVal σ c := by
  unfold cellVal
  rcases Nat.lt_or_ge c σ.length with hlt | hge
  · rw [List.getElem?_append_left hlt]
  · rw [List.getElem?_eq_none hge]
    rcases Nat.lt_or_ge c (σ ++ [none]).length with hlt' | hge'
    · have : c = σ.length := by simp at hlt'; omega
      subst this
      simp
    · rw [List.getElem?_eq_none hge']

/-- allocating a fresh cell with home `D` -/
theorem step_fresh {h : Nat → Nat} {s : St} (hst : StoreOK h s.store) (D : Nat) :
    Step h s (fun c => if c = s.store.length then D else h c)
      { s with store := s.store ++ [none] } := by
  have hext : Ext s.store.length h (fun c => if c = s.store.length then D else h c) := by
    intro c hc
    have : c ≠ s.store.length := by omega
    simp [this]
  refine ⟨hext, ?_, by simp, rfl, rfl⟩
  intro c v hv
  rw [cellVal_append_none] at hv
  have hc := cellVal_lt hv
  have := Sp.mono hext (n' := (s.store ++ [none]).length) (by simp) v (h c) (hst c v hv)
  rw [hext c hc]
  exact this

theorem openS_sp : ∀ (f : Nat) (t : Tm) (i : Nat) (u : Tm) (sft : Nat) (s : St) (h : Nat → Nat)
    (D m : Nat), StoreOK h s.store → Sp h s.store.length (D+1) t → i ≤ D → u.holeFree = true →
    wellScoped m u = true → m + sft ≤ D →
    Res (openS f t i u sft s) (fun r s' => ∃ h', Step h s h' s' ∧ Sp h' s'.store.length D r) := by
  intro f
  induction f with
  | zero => intros; rw [openS]; trivial
  | succ f ih =>
    intro t i u sft s h D m hst hsp hi hu hwu hm
    have hfcase : t.holeFree = true → wellScoped (D+1) t = true →
        Res (openS (f+1) t i u sft s)
          (fun r s' => ∃ h', Step h s h' s' ∧ Sp h' s'.store.length D r) := by
      intro hf hw
      refine (pure_ro (openS_P' (f+1) t i u sft hf hu) s).res.mono (fun r s' hr => ?_)
      obtain ⟨rfl, rfl⟩ := hr
      refine ⟨h, Step.refl hst, Sp_of_hf h _ _ _ (openT_holeFree _ _ _ _ hf hu) ?_⟩
      exact ws_openT t (D+1) D i u m sft hw (Nat.le_refl _) hi hwu hm
    cases t
    case hole id k =>
      obtain ⟨rfl, hid, hh⟩ := Sp_hole.1 hsp
      unfold openS
      dsimp only
      rw [cellGet_bind]
      cases hv : cellVal s.store id with
      | some sub =>
        dsimp only
        have hsub : Sp h s.store.length (D+1) sub := by rw [← hh]; exact hst id sub hv
        refine Res.bind (ushiftS_sp f sub s h _ hst hsub).res (fun a s1 qa => ?_)
        obtain ⟨e, ha⟩ := qa
        rw [e]
        exact ih a i u sft s h D m hst ha hi hu hwu hm
      | none =>
        dsimp only
        show Res ((pure (Tm.hole s.store.length (if 0 > i then 0 - 1 else 0)) : M Tm)
          { s with store := s.store ++ [none] }) _
        refine Res.pure ⟨_, step_fresh hst D, ?_⟩
        have e : (if 0 > i then 0 - 1 else 0) = 0 := by split <;> rfl
        rw [e]
        exact Sp_hole.2 ⟨rfl, by simp, by simp⟩
    case pi x im A B =>
      obtain ⟨hA, hB⟩ := Sp_pi.1 hsp
      unfold openS
      dsimp only
      refine Res.bind (ih A i u sft s h D m hst hA hi hu hwu hm) (fun A' s1 qa => ?_)
      obtain ⟨h1, st1, hA'⟩ := qa
      refine Res.bind (ih B (i+1) u (sft+1) s1 h1 (D+1) m st1.ok (st1.sp hB) (by omega) hu hwu
        (by omega)) (fun B' s2 qb => ?_)
      obtain ⟨h2, st2, hB'⟩ := qb
      exact Res.pure ⟨h2, st1.trans st2, Sp_pi.2 ⟨st2.sp hA', hB'⟩⟩
    all_goals (simp only [Sp] at hsp; exact hfcase hsp.1 hsp.2)

/-! ## `solveS` and `unifyS` on spine terms -/

theorem cellVal_set {σ : List (Option Tm)} {c : Nat} (v : Tm) (hc : c < σ.length) (c' : Nat) :
    cellVal (σ.set c (some v)) c' = if c' = c then some v else cellVal σ c' := by
  unfold cellVal
  rw [List.getElem?_set]
  by_cases e : c = c'
  · subst e; simp [hc]
  · have e' : ¬ c' = c := fun x => e x.symm
    simp [e, e']

theorem solveS_sp (f c : Nat) (other : Tm) (s : St) (h : Nat → Nat) (hst : StoreOK h s.store)
    (hc : c < s.store.length) (hsp : Sp h s.store.length (h c) other) :
    Res (solveS f c 0 other s) (fun _ s' => Keep h s s') := by
  unfold solveS
  rw [neg_natCast_zero_int]
  refine Res.bind (sshiftS_sp f 0 other s h _ hst hsp).res (fun a s1 qa => ?_)
  obtain ⟨e1, t1, rfl, _⟩ := qa
  rw [e1]
  dsimp only
  refine Res.bind ((occursS_ro f).1 c other s).res (fun b s2 qb => ?_)
  rw [qb.1]
  split
  · exact Res.pure (Keep.refl hst)
  · refine Res.bind (sshiftS_sp f 0 other s h _ hst hsp).res (fun a s3 qa => ?_)
    obtain ⟨e3, sol, rfl, hsol⟩ := qa
    rw [e3]
    dsimp only
    show Res ((pure (some true) : M (Option Bool)) { s with store := s.store.set c (some sol) }) _
    refine Res.pure ⟨?_, by simp, rfl, rfl⟩
    intro c' v hv
    rw [cellVal_set sol hc] at hv
    simp only [List.length_set]
    split at hv
    · next e => cases hv; rw [e]; exact hsol
    · exact hst c' v hv

/-- the structural comparison of two weak head normal forms (verbatim from `unifyS`) -/
def structM (f : Nat) (w1 w2 : Tm) : M Bool :=
        match w1, w2 with
        | .type, .type | .int, .int | .bool, .bool | .tt, .tt | .ff, .ff => pure true
        | .var _ i, .var _ j => pure (i == j)
        | .lam _ im _ b1, .lam _ jm _ b2 =>
            if im == jm then do
              pushD none
              let r ← unifyS f b1 b2
              popD
              pure r
            else pure false
        | .pi _ im d1 c1, .pi _ jm d2 c2 =>
            if im == jm then do
              if ← unifyS f d1 d2 then do
                pushD none
                let r ← unifyS f c1 c2
                popD
                pure r
              else pure false
            else pure false
        | .app f1 a1, .app f2 a2 => do
            if ← unifyS f f1 f2 then unifyS f a1 a2 else pure false
        | .lit n, .lit m => pure (n == m)
        | .neg a1, .neg a2 => unifyS f a1 a2
        | .bin o1 a1 b1, .bin o2 a2 b2 =>
            if o1 == o2 then do
              if ← unifyS f a1 a2 then unifyS f b1 b2 else pure false
            else pure false
        | .ite c1 a1 b1, .ite c2 a2 b2 => do
            if ← unifyS f c1 c2 then
              if ← unifyS f a1 a2 then unifyS f b1 b2 else pure false
            else pure false
        | .letg .., _ => panicAt "unify.let_after_whnf"
        | _, .letg .. => panicAt "unify.let_after_whnf"
        | _, _ => pure false

/-- the arm of `unifyS` that tries to solve the right-hand hole -/
def rightM (f : Nat) (w1 w2 : Tm) : M Bool :=
        match w2 with
        | .hole j r => do
            match ← solveS f j r w1 with
            | some b => pure b
            | none => structM f w1 w2
        | _ => structM f w1 w2

theorem unifyHead_eq (f : Nat) (w1 w2 : Tm) :
    unifyHead f w1 w2 =
      match w1, w2 with
      | .hole i s, .hole j r =>
          if i == j && s == r then pure true
          else do
            match ← solveS f i s w2 with
            | some b => pure b
            | none => rightM f w1 w2
      | .hole i s, _ => do
          match ← solveS f i s w2 with
          | some b => pure b
          | none => rightM f w1 w2
      | _, _ => rightM f w1 w2 := by
  unfold unifyHead rightM structM
  rfl

/-- the invariant of a run of `unifyS` -/
def UPre (h : Nat → Nat) (s : St) : Prop := StoreOK h s.store ∧ DHF s.dctx ∧ DSc s.dctx

theorem UPre.keep {h : Nat → Nat} {s s' : St} (p : UPre h s) (k : Keep h s s') : UPre h s' :=
  ⟨k.ok, by rw [k.dctx]; exact p.2.1, by rw [k.dctx]; exact p.2.2⟩

/-- the induction hypothesis on `unifyS` -/
def UIH (f : Nat) : Prop := ∀ (t1 t2 : Tm) (s : St) (h : Nat → Nat), UPre h s →
  Sp h s.store.length s.dctx.length t1 → Sp h s.store.length s.dctx.length t2 →
  Res (unifyS f t1 t2 s) (fun _ s' => Keep h s s')

theorem Keep.sp {h : Nat → Nat} {s s' : St} (k : Keep h s s') {D : Nat} {t : Tm}
    (ht : Sp h s.store.length D t) : Sp h s'.store.length D t := by rw [k.len]; exact ht

theorem Keep.sp' {h : Nat → Nat} {s s' : St} (k : Keep h s s') {t : Tm}
    (ht : Sp h s.store.length s.dctx.length t) : Sp h s'.store.length s'.dctx.length t := by
  rw [k.len, k.dctx]; exact ht

/-- `pushD none; m; popD` -/
theorem under_sp {h : Nat → Nat} {s : St} {m : M Bool}
    (hm : Res (m { s with dctx := none :: s.dctx })
      (fun _ s' => Keep h { s with dctx := none :: s.dctx } s')) :
    Res ((do pushD none; let r ← m; popD; pure r) s) (fun _ s' => Keep h s s') := by
  show Res (M.bind (pushD none) (fun _ => M.bind m (fun r => M.bind popD (fun _ => M.pure r))) s) _
  simp only [M.bind, pushD, modifySt]
  generalize m { s with dctx := none :: s.dctx } = x at hm
  cases x with
  | fuel => trivial
  | panic p => exact hm
  | ok r s' =>
    simp only [popD, modifySt, M.pure]
    exact ⟨hm.ok, hm.len, hm.tctx, by show s'.dctx.tail = s.dctx; rw [hm.dctx]; rfl⟩

theorem seq_sp {h : Nat → Nat} {s : St} {m1 m2 : M Bool}
    (h1 : Res (m1 s) (fun _ s' => Keep h s s'))
    (h2 : ∀ s1, Keep h s s1 → Res (m2 s1) (fun _ s' => Keep h s1 s')) :
    Res ((do if ← m1 then m2 else pure false) s) (fun _ s' => Keep h s s') := by
  refine Res.bind h1 (fun b s1 k1 => ?_)
  cases b
  · exact Res.pure k1
  · exact (h2 s1 k1).mono (fun _ _ k2 => k1.trans k2)

theorem if_sp {h : Nat → Nat} {s : St} {m : M Bool} (c : Bool)
    (hm : Res (m s) (fun _ s' => Keep h s s')) (hst : StoreOK h s.store) :
    Res ((if c = true then m else pure false) s) (fun _ s' => Keep h s s') := by
  cases c
  · exact Res.pure (Keep.refl hst)
  · exact hm

theorem UPre.push {h : Nat → Nat} {s : St} (p : UPre h s) :
    UPre h { s with dctx := none :: s.dctx } := ⟨p.1, DHF.push p.2.1, DSc.push p.2.2⟩

theorem struct_sp (f : Nat) (ih : UIH f) (w1 w2 : Tm) (s : St) (h : Nat → Nat) (pre : UPre h s)
    (h1 : Sp h s.store.length s.dctx.length w1) (h2 : Sp h s.store.length s.dctx.length w2)
    (n1 : NotLet w1) (n2 : NotLet w2) :
    Res (structM f w1 w2 s) (fun _ s' => Keep h s s') := by
  cases w1 <;> cases w2
  all_goals first
    | (exfalso; exact n1 _ _ rfl)
    | (exfalso; exact n2 _ _ rfl)
    | skip
  all_goals simp only [structM]
  all_goals try exact Res.pure (Keep.refl pre.1)
  case lam.lam x1 i1 d1 b1 x2 i2 d2 b2 =>
    simp only [Sp, Tm.holeFree, wellScoped, Bool.and_eq_true] at h1 h2
    refine if_sp _ (under_sp ?_) pre.1
    exact ih b1 b2 _ h pre.push (Sp_of_hf h _ _ _ h1.1.2 h1.2.2) (Sp_of_hf h _ _ _ h2.1.2 h2.2.2)
  case pi.pi x1 i1 d1 c1 x2 i2 d2 c2 =>
    rw [Sp_pi] at h1 h2
    refine if_sp _ (seq_sp (ih d1 d2 s h pre h1.1 h2.1) (fun s1 k1 => under_sp ?_)) pre.1
    refine ih c1 c2 _ h (pre.keep k1).push ?_ ?_
    · show Sp h s1.store.length (s1.dctx.length + 1) c1
      rw [k1.len, k1.dctx]; exact h1.2
    · show Sp h s1.store.length (s1.dctx.length + 1) c2
      rw [k1.len, k1.dctx]; exact h2.2
  case app.app f1 a1 f2 a2 =>
    simp only [Sp, Tm.holeFree, wellScoped, Bool.and_eq_true] at h1 h2
    refine seq_sp (ih f1 f2 s h pre (Sp_of_hf h _ _ _ h1.1.1 h1.2.1) (Sp_of_hf h _ _ _ h2.1.1 h2.2.1))
      (fun s1 k1 => ?_)
    exact ih a1 a2 s1 h (pre.keep k1) (k1.sp' (Sp_of_hf h _ _ _ h1.1.2 h1.2.2))
      (k1.sp' (Sp_of_hf h _ _ _ h2.1.2 h2.2.2))
  case neg.neg a1 a2 =>
    simp only [Sp, Tm.holeFree, wellScoped] at h1 h2
    exact ih a1 a2 s h pre (Sp_of_hf h _ _ _ h1.1 h1.2) (Sp_of_hf h _ _ _ h2.1 h2.2)
  case bin.bin o1 a1 b1 o2 a2 b2 =>
    simp only [Sp, Tm.holeFree, wellScoped, Bool.and_eq_true] at h1 h2
    refine if_sp _ (seq_sp (ih a1 a2 s h pre (Sp_of_hf h _ _ _ h1.1.1 h1.2.1)
      (Sp_of_hf h _ _ _ h2.1.1 h2.2.1)) (fun s1 k1 => ?_)) pre.1
    exact ih b1 b2 s1 h (pre.keep k1) (k1.sp' (Sp_of_hf h _ _ _ h1.1.2 h1.2.2))
      (k1.sp' (Sp_of_hf h _ _ _ h2.1.2 h2.2.2))
  case ite.ite c1 a1 b1 c2 a2 b2 =>
    simp only [Sp, Tm.holeFree, wellScoped, Bool.and_eq_true] at h1 h2
    refine seq_sp (ih c1 c2 s h pre (Sp_of_hf h _ _ _ h1.1.1.1 h1.2.1.1)
      (Sp_of_hf h _ _ _ h2.1.1.1 h2.2.1.1)) (fun s1 k1 => ?_)
    refine seq_sp (ih a1 a2 s1 h (pre.keep k1) (k1.sp' (Sp_of_hf h _ _ _ h1.1.1.2 h1.2.1.2))
      (k1.sp' (Sp_of_hf h _ _ _ h2.1.1.2 h2.2.1.2))) (fun s2 k2 => ?_)
    exact ih b1 b2 s2 h ((pre.keep k1).keep k2) (k2.sp' (k1.sp' (Sp_of_hf h _ _ _ h1.1.2 h1.2.2)))
      (k2.sp' (k1.sp' (Sp_of_hf h _ _ _ h2.1.2 h2.2.2)))

theorem right_sp (f : Nat) (ih : UIH f) (w1 w2 : Tm) (s : St) (h : Nat → Nat) (pre : UPre h s)
    (h1 : Sp h s.store.length s.dctx.length w1) (h2 : Sp h s.store.length s.dctx.length w2)
    (n1 : NotLet w1) (n2 : NotLet w2) :
    Res (rightM f w1 w2 s) (fun _ s' => Keep h s s') := by
  have hs := struct_sp f ih w1 w2
  cases w2
  case hole j r =>
    obtain ⟨rfl, hj, hh⟩ := Sp_hole.1 h2
    simp only [rightM]
    refine Res.bind (solveS_sp f j w1 s h pre.1 hj (by rw [hh]; exact h1)) (fun o s1 k1 => ?_)
    cases o with
    | some b => exact Res.pure k1
    | none =>
      exact (hs s1 h (pre.keep k1) (k1.sp' h1) (k1.sp' h2) n1 n2).mono (fun _ _ k2 => k1.trans k2)
  all_goals (simp only [rightM]; exact hs s h pre h1 h2 n1 n2)

theorem head_sp (f : Nat) (ih : UIH f) (w1 w2 : Tm) (s : St) (h : Nat → Nat) (pre : UPre h s)
    (h1 : Sp h s.store.length s.dctx.length w1) (h2 : Sp h s.store.length s.dctx.length w2)
    (n1 : NotLet w1) (n2 : NotLet w2) :
    Res (unifyHead f w1 w2 s) (fun _ s' => Keep h s s') := by
  have hr := right_sp f ih w1 w2
  rw [unifyHead_eq]
  have hsolve : ∀ i sh, w1 = .hole i sh →
      Res ((do match ← solveS f i sh w2 with
              | some b => pure b
              | none => rightM f w1 w2 : M Bool) s) (fun _ s' => Keep h s s') := by
    intro i sh e
    subst e
    obtain ⟨rfl, hi, hh⟩ := Sp_hole.1 h1
    refine Res.bind (solveS_sp f i w2 s h pre.1 hi (by rw [hh]; exact h2)) (fun o s1 k1 => ?_)
    cases o with
    | some b => exact Res.pure k1
    | none =>
      exact (hr s1 h (pre.keep k1) (k1.sp' h1) (k1.sp' h2) n1 n2).mono (fun _ _ k2 => k1.trans k2)
  cases w1
  case hole i sh =>
    cases w2
    case hole j r =>
      dsimp only
      split
      · exact Res.pure (Keep.refl pre.1)
      · exact hsolve i sh rfl
    all_goals exact hsolve i sh rfl
  all_goals exact hr s h pre h1 h2 n1 n2

theorem unifyS_sp : ∀ f, UIH f := by
  intro f
  induction f with
  | zero => intro t1 t2 s h _ _ _; rw [unifyS]; trivial
  | succ f ih =>
    intro t1 t2 s h pre h1 h2
    rw [unifyS_succ]
    refine Res.bind ((synEqS_ro f).1 t1 t2 s).res (fun b s0 qb => ?_)
    rw [qb.1]
    split
    · exact Res.pure (Keep.refl pre.1)
    · have r1 := (whnfS_sp f t1 s h pre.1 pre.2.1 pre.2.2 h1).and_post
        (fun a s' e => whnfS_notLet' e)
      refine Res.bind r1.res (fun w1 s1 q1 => ?_)
      rw [q1.1]
      have r2 := (whnfS_sp f t2 s h pre.1 pre.2.1 pre.2.2 h2).and_post
        (fun a s' e => whnfS_notLet' e)
      refine Res.bind r2.res (fun w2 s2 q2 => ?_)
      rw [q2.1]
      exact head_sp f ih w1 w2 s h pre q1.2.1 q2.2.1 q1.2.2 q2.2.2

/-! ## Context invariants -/

/-- typing-context entries: offset in range, hole-free type, scoped where it was pushed; stated for
a context that will have grown to length `L` when it is used -/
def TScG (L : Nat) (T : List (Tm × Nat)) : Prop :=
  ∀ i ty off, T[i]? = some (ty, off) →
    off ≤ i + 1 + (L - T.length) ∧ ty.holeFree = true ∧
      wellScoped (L - (i + 1 + (L - T.length) - off)) ty = true

def DScG (L : Nat) (Δ : List (Option (Tm × Nat))) : Prop :=
  ∀ i d off, Δ[i]? = some (some (d, off)) →
    off ≤ i + 1 + (L - Δ.length) ∧ d.holeFree = true ∧
      wellScoped (L - (i + 1 + (L - Δ.length) - off)) d = true

theorem getElem?_lt {α} {l : List α} {i : Nat} {a : α} (e : l[i]? = some a) : i < l.length := by
  rcases Nat.lt_or_ge i l.length with hlt | hge
  · exact hlt
  · rw [List.getElem?_eq_none hge] at e; cases e

theorem TScG.mono {L L' : Nat} {T : List (Tm × Nat)} (h : TScG L T) (hl : T.length ≤ L)
    (hle : L ≤ L') : TScG L' T := by
  intro i ty off e
  have hi := getElem?_lt e
  obtain ⟨h1, h2, h3⟩ := h i ty off e
  refine ⟨by omega, h2, ?_⟩
  have : L' - (i + 1 + (L' - T.length) - off) = L - (i + 1 + (L - T.length) - off) := by omega
  rw [this]; exact h3

theorem DScG.mono {L L' : Nat} {Δ : List (Option (Tm × Nat))} (h : DScG L Δ) (hl : Δ.length ≤ L)
    (hle : L ≤ L') : DScG L' Δ := by
  intro i d off e
  have hi := getElem?_lt e
  obtain ⟨h1, h2, h3⟩ := h i d off e
  refine ⟨by omega, h2, ?_⟩
  have : L' - (i + 1 + (L' - Δ.length) - off) = L - (i + 1 + (L - Δ.length) - off) := by omega
  rw [this]; exact h3

theorem TScG.push {L : Nat} {T : List (Tm × Nat)} (h : TScG L T) {ty : Tm} {off : Nat}
    (hl : T.length < L) (ho : off ≤ L - T.length) (hf : ty.holeFree = true)
    (hw : wellScoped (L - (L - T.length - off)) ty = true) : TScG L ((ty, off) :: T) := by
  intro i ty' off' e
  cases i with
  | zero =>
    simp only [List.getElem?_cons_zero, Option.some.injEq, Prod.mk.injEq] at e
    obtain ⟨rfl, rfl⟩ := e
    refine ⟨by simp only [List.length_cons]; omega, hf, ?_⟩
    have : L - (0 + 1 + (L - ((ty, off) :: T).length) - off) = L - (L - T.length - off) := by
      simp only [List.length_cons]; omega
    rw [this]; exact hw
  | succ i =>
    simp only [List.getElem?_cons_succ] at e
    have hi := getElem?_lt e
    obtain ⟨h1, h2, h3⟩ := h i ty' off' e
    refine ⟨by simp only [List.length_cons]; omega, h2, ?_⟩
    have : L - (i + 1 + 1 + (L - ((ty, off) :: T).length) - off') =
        L - (i + 1 + (L - T.length) - off') := by
      simp only [List.length_cons]; omega
    rw [this]; exact h3

theorem DScG.push_none {L : Nat} {Δ : List (Option (Tm × Nat))} (h : DScG L Δ)
    (hl : Δ.length < L) : DScG L (none :: Δ) := by
  intro i d off e
  cases i with
  | zero => simp at e
  | succ i =>
    simp only [List.getElem?_cons_succ] at e
    have hi := getElem?_lt e
    obtain ⟨h1, h2, h3⟩ := h i d off e
    refine ⟨by simp only [List.length_cons]; omega, h2, ?_⟩
    have : L - (i + 1 + 1 + (L - (none :: Δ).length) - off) =
        L - (i + 1 + (L - Δ.length) - off) := by
      simp only [List.length_cons]; omega
    rw [this]; exact h3

theorem DScG.push {L : Nat} {Δ : List (Option (Tm × Nat))} (h : DScG L Δ) {d : Tm} {off : Nat}
    (hl : Δ.length < L) (ho : off ≤ L - Δ.length) (hf : d.holeFree = true)
    (hw : wellScoped (L - (L - Δ.length - off)) d = true) : DScG L (some (d, off) :: Δ) := by
  intro i d' off' e
  cases i with
  | zero =>
    simp only [List.getElem?_cons_zero, Option.some.injEq, Prod.mk.injEq] at e
    obtain ⟨rfl, rfl⟩ := e
    refine ⟨by simp only [List.length_cons]; omega, hf, ?_⟩
    have : L - (0 + 1 + (L - (some (d, off) :: Δ).length) - off) = L - (L - Δ.length - off) := by
      simp only [List.length_cons]; omega
    rw [this]; exact hw
  | succ i =>
    simp only [List.getElem?_cons_succ] at e
    have hi := getElem?_lt e
    obtain ⟨h1, h2, h3⟩ := h i d' off' e
    refine ⟨by simp only [List.length_cons]; omega, h2, ?_⟩
    have : L - (i + 1 + 1 + (L - (some (d, off) :: Δ).length) - off') =
        L - (i + 1 + (L - Δ.length) - off') := by
      simp only [List.length_cons]; omega
    rw [this]; exact h3

theorem DScG.dsc {Δ : List (Option (Tm × Nat))} (h : DScG Δ.length Δ) : DSc Δ := by
  intro i d off e
  obtain ⟨h1, _, h3⟩ := h i d off e
  refine ⟨by omega, ?_⟩
  have : Δ.length - (i + 1 - off) = Δ.length - (i + 1 + (Δ.length - Δ.length) - off) := by omega
  rw [this]; exact h3

theorem DScG.dhf {L : Nat} {Δ : List (Option (Tm × Nat))} (h : DScG L Δ) : DHF Δ := by
  intro e he d o heq
  obtain ⟨i, hi⟩ := List.mem_iff_getElem?.1 he
  subst heq
  exact (h i d o hi).2.1

/-- the contexts after `pushDefsS ds ds.len` are fine -/
theorem pushed_ok {L : Nat} : ∀ (ds : Defs) (T : List (Tm × Nat)) (Δ : List (Option (Tm × Nat))),
    TScG L T → DScG L Δ → T.length + ds.len = L → Δ.length = T.length → ds.holeFree = true →
    wellScopedDefs L ds = true →
    TScG L (pushedT ds ds.len T) ∧ DScG L (pushedD ds ds.len Δ) ∧
      (pushedT ds ds.len T).length = L ∧
      (pushedD ds ds.len Δ).length = L
  | .nil, T, Δ, hT, hD, hl, hl2, _, _ => by
      simp only [pushedT, pushedD]
      simp only [Defs.len_nil, Nat.add_zero] at hl
      exact ⟨hT, hD, hl, by omega⟩
  | .cons x a d r, T, Δ, hT, hD, hl, hl2, hf, hw => by
      simp only [Defs.holeFree, Bool.and_eq_true] at hf
      simp only [wellScopedDefs, Bool.and_eq_true] at hw
      simp only [Defs.len_cons] at hl
      simp only [pushedT, pushedD, Defs.len_cons,
        Nat.add_sub_cancel]
      have e : L - (L - T.length - (r.len + 1)) = L := by omega
      have e' : L - (L - Δ.length - (r.len + 1)) = L := by omega
      refine pushed_ok r _ _ (hT.push (by omega) (by omega) hf.1.1 (by rw [e]; exact hw.1.1))
        (hD.push (by omega) (by omega) hf.1.2 (by rw [e']; exact hw.1.2)) ?_ ?_ hf.2 hw.2
      · simp only [List.length_cons]; omega
      · simp only [List.length_cons]; omega

/-! ## The invariant of `inferS` -/

structure Inv (h : Nat → Nat) (s : St) (D : Nat) : Prop where
  st : StoreOK h s.store
  tl : s.tctx.length = D
  dl : s.dctx.length = D
  ts : TScG D s.tctx
  ds : DScG D s.dctx

theorem Inv.step {h h' : Nat → Nat} {s s' : St} {D : Nat} (i : Inv h s D) (a : Step h s h' s') :
    Inv h' s' D :=
  ⟨a.ok, by rw [a.tctx]; exact i.tl, by rw [a.dctx]; exact i.dl, by rw [a.tctx]; exact i.ts,
    by rw [a.dctx]; exact i.ds⟩

theorem Inv.keep {h : Nat → Nat} {s s' : St} {D : Nat} (i : Inv h s D) (a : Keep h s s') :
    Inv h s' D := i.step a.step

theorem Inv.upre {h : Nat → Nat} {s : St} {D : Nat} (i : Inv h s D) : UPre h s := by
  have hd := i.ds
  rw [← i.dl] at hd
  exact ⟨i.st, hd.dhf, hd.dsc⟩

theorem Inv.nerrs {h : Nat → Nat} {s : St} {D : Nat} (i : Inv h s D) (n : Nat) :
    Inv h { s with nerrs := n } D := ⟨i.st, i.tl, i.dl, i.ts, i.ds⟩

theorem Step.nerrs {h h' : Nat → Nat} {s s' : St} (a : Step h s h' s') (n : Nat) :
    Step h s h' { s' with nerrs := n } := ⟨a.ext, a.ok, a.len, a.tctx, a.dctx⟩

theorem Keep.nerrs {h : Nat → Nat} {s s' : St} (a : Keep h s s') (n : Nat) :
    Keep h s { s' with nerrs := n } := ⟨a.ok, a.len, a.tctx, a.dctx⟩

/-- `unifyS` as called from `inferS` -/
theorem unify_in (f : Nat) (a b : Tm) (s : St) (h : Nat → Nat) (D : Nat) (i : Inv h s D)
    (ha : Sp h s.store.length D a) (hb : Sp h s.store.length D b) :
    Res (unifyS f a b s) (fun _ s' => Keep h s s') := by
  refine unifyS_sp f a b s h i.upre ?_ ?_
  · rw [i.dl]; exact ha
  · rw [i.dl]; exact hb

theorem report_sp {α} {c : Prop} [Decidable c] {k : M α} {s : St} {Q : α → St → Prop}
    (hk : ∀ n, Res (k { s with nerrs := n }) Q) :
    Res ((if c then (do reportError; k) else k) s) Q := by
  split
  · exact hk (s.nerrs + 1)
  · exact hk s.nerrs

theorem pushCtx_bind {β} (ty : Tm × Nat) (d : Option (Tm × Nat)) (k : Unit → M β) (s : St) :
    (pushCtx ty d >>= k) s = k () { s with tctx := ty :: s.tctx, dctx := d :: s.dctx } := rfl
theorem popCtx_bind {β} (k : Unit → M β) (s : St) :
    (popCtx >>= k) s = k () { s with tctx := s.tctx.tail, dctx := s.dctx.tail } := rfl
theorem cellFresh_bind {β} (k : Nat → M β) (s : St) :
    (cellFresh >>= k) s = k s.store.length { s with store := s.store ++ [none] } := rfl

theorem pushDefsS_eq : ∀ (ds : Defs) (k : Nat) (s : St),
    pushDefsS ds k s = .ok () { s with tctx := pushedT ds k s.tctx, dctx := pushedD ds k s.dctx }
  | .nil, k, s => by unfold pushDefsS pushedT pushedD; rfl
  | .cons x a d r, k, s => by
      unfold pushDefsS pushedT pushedD
      rw [pushCtx_bind, pushDefsS_eq r (k - 1)]

theorem popN_eq : ∀ (n : Nat) (s : St),
    popN n s = .ok () { s with tctx := s.tctx.drop n, dctx := s.dctx.drop n }
  | 0, s => by unfold popN; simp only [List.drop_zero]; rfl
  | n+1, s => by
      unfold popN
      rw [popCtx_bind, popN_eq n]
      simp only [List.drop_tail]

theorem bind_of_eq {α β} {m : M α} {k : α → M β} {s s' : St} {a : α} (e : m s = .ok a s') :
    (m >>= k) s = k a s' := by
  show M.bind m k s = _
  simp only [M.bind, e]

/-- allocating a cell with home `D` -/
theorem fresh_sp {h : Nat → Nat} {s : St} (hst : StoreOK h s.store) (D : Nat) :
    ∃ h', Step h s h' { s with store := s.store ++ [none] } ∧
      Sp h' (s.store ++ [none]).length D (.hole s.store.length 0) :=
  ⟨_, step_fresh hst D, Sp_hole.2 ⟨rfl, by simp, by simp⟩⟩

/-! ## The type of a group -/

theorem letTypeS_sp (f : Nat) (ds : Defs) (D : Nat) (hf : ds.holeFree = true)
    (hw : wellScopedDefs (D + ds.len) ds = true) :
    ∀ (k i : Nat) (acc : Tm) (s : St) (h : Nat → Nat), StoreOK h s.store → i + k = ds.len →
      Sp h s.store.length (D + k) acc →
      Res (letTypeS f ds k i acc s)
        (fun r s' => ∃ h', Step h s h' s' ∧ Sp h' s'.store.length D r) := by
  intro k
  induction k with
  | zero =>
    intro i acc s h hst _ hsp
    unfold letTypeS
    exact Res.pure ⟨h, Step.refl hst, hsp⟩
  | succ k ih =>
    intro i acc s h hst hik hsp
    unfold letTypeS
    dsimp only
    have hsh : UnifyAgree.Pure (do
          let __do_lift ← sshiftDefsS f ds.len (↑(ds.len - 1 - i)) ds
          match __do_lift with
            | some d => pure d
            | none => panicAt "unsigned_shift.unwrap" : M Defs)
        (ushiftDefs ds.len (ds.len - 1 - i) ds) := by
      refine Pure.bind ((sshiftS_P f).2 ds.len _ ds hf) ?_
      rw [sshiftDefs_ushift]
      exact UnifyAgree.Pure.pure _
    refine Res.bind (pure_ro hsh s).res (fun sh s1 q1 => ?_)
    obtain ⟨e1, rfl⟩ := q1
    rw [e1]
    have hu : (Tm.letg (ushiftDefs ds.len (ds.len - 1 - i) ds)
        (Tm.var (match ds.toList[ds.len - 1 - i]? with
                  | some (x, _, _) => x
                  | none => 0) i)).holeFree = true := by
      simp only [Tm.holeFree, Bool.and_true]
      rw [ushiftDefs_holeFree]; exact hf
    have hwu : wellScoped (D + k) (Tm.letg (ushiftDefs ds.len (ds.len - 1 - i) ds)
        (Tm.var (match ds.toList[ds.len - 1 - i]? with
                  | some (x, _, _) => x
                  | none => 0) i)) = true := by
      simp only [wellScoped, ushiftDefs_len, Bool.and_eq_true, decide_eq_true_eq]
      exact ⟨wsDefs_ushift ds _ _ _ _ hw (by omega), by omega⟩
    refine Res.bind (openS_sp f acc 0 _ 0 s h (D + k) (D + k) hst hsp (Nat.zero_le _) hu hwu
      (by omega)) (fun acc' s2 q2 => ?_)
    obtain ⟨h2, st2, sp2⟩ := q2
    refine (ih (i + 1) acc' s2 h2 st2.ok (by omega) sp2).mono (fun r s3 q3 => ?_)
    obtain ⟨h3, st3, sp3⟩ := q3
    exact ⟨h3, st2.trans st3, sp3⟩

/-! ## `inferS` -/

/-- postcondition of `inferS`: the term comes back unchanged, the type is a spine term -/
def IPost (h : Nat → Nat) (s : St) (D : Nat) (t : Tm) (r : Tm × Tm) (s' : St) : Prop :=
  r.1 = t ∧ ∃ h', Step h s h' s' ∧ Sp h' s'.store.length D r.2

def IH1 (f : Nat) : Prop := ∀ (t : Tm) (s : St) (h : Nat → Nat) (D : Nat), Inv h s D →
  t.holeFree = true → wellScoped D t = true → Res (inferS f t s) (IPost h s D t)

def IH2 (f : Nat) : Prop := ∀ (ds : Defs) (s : St) (h : Nat → Nat) (D : Nat), Inv h s D →
  ds.holeFree = true → wellScopedDefs D ds = true →
  Res (inferDefsS f ds s) (fun l s' => Defs.setDefs ds l = ds ∧ ∃ h', Step h s h' s')

/-- infer a subterm, unify its type with a fixed hole-free type, report, continue -/
theorem infer_check_sp {β} (f : Nat) (ih1 : IH1 f) (t T : Tm) (s : St) (h : Nat → Nat) (D : Nat)
    (inv : Inv h s D) (hf : t.holeFree = true) (hw : wellScoped D t = true)
    (hTf : T.holeFree = true) (hTw : wellScoped D T = true) (k : Tm × Tm → M β)
    (Q : β → St → Prop)
    (hk : ∀ r s' h', r.1 = t → Step h s h' s' → Sp h' s'.store.length D r.2 → Res (k r s') Q) :
    Res ((inferS f t >>= fun x => do
        let b ← unifyS f x.snd T
        if (!b) = true then (do reportError; k x) else k x) s) Q := by
  refine Res.bind (ih1 t s h D inv hf hw) (fun r s1 q1 => ?_)
  obtain ⟨e1, h1, st1, sp1⟩ := q1
  refine Res.bind (unify_in f r.2 T s1 h1 D (inv.step st1) sp1 (Sp_of_hf h1 _ T D hTf hTw))
    (fun b s2 k2 => ?_)
  refine report_sp (fun n => ?_)
  exact hk r _ h1 e1 (st1.trans (k2.nerrs n).step) ((k2.nerrs n).sp sp1)

theorem Inv.pushLam {h : Nat → Nat} {s : St} {D : Nat} (i : Inv h s D) {d : Tm}
    (hf : d.holeFree = true) (hw : wellScoped D d = true) :
    Inv h { s with tctx := (d, 0) :: s.tctx, dctx := none :: s.dctx } (D + 1) := by
  refine ⟨i.st, by simp [i.tl], by simp [i.dl], ?_, ?_⟩
  · refine (i.ts.mono (Nat.le_of_eq i.tl) (Nat.le_succ D)).push (by rw [i.tl]; omega) (by omega) hf ?_
    have : D + 1 - (D + 1 - s.tctx.length - 0) = D := by rw [i.tl]; omega
    rw [this]; exact hw
  · exact (i.ds.mono (Nat.le_of_eq i.dl) (Nat.le_succ D)).push_none (by rw [i.dl]; omega)

theorem infer_var (f : Nat) (x : Name) (i : Nat) (s : St) (h : Nat → Nat) (D : Nat)
    (inv : Inv h s D) (hw : wellScoped D (.var x i) = true) :
    Res (inferS (f+1) (.var x i) s) (IPost h s D (.var x i)) := by
  simp only [wellScoped, decide_eq_true_eq] at hw
  unfold inferS
  dsimp only
  rw [getSt_bind]
  have hi : i < s.tctx.length := by rw [inv.tl]; exact hw
  cases e : s.tctx[i]? with
  | none => rw [List.getElem?_eq_none_iff] at e; omega
  | some p =>
    obtain ⟨ty, off⟩ := p
    obtain ⟨h1, h2, h3⟩ := inv.ts i ty off e
    dsimp only
    rw [inv.tl] at h1 h3
    split
    · omega
    · refine Res.bind (pure_ro (ushiftS_P f 0 (i + 1 - off) ty h2) s).res (fun r s1 q1 => ?_)
      obtain ⟨rfl, rfl⟩ := q1
      refine Res.pure ⟨rfl, h, Step.refl inv.st, Sp_of_hf h _ _ _ ?_ ?_⟩
      · rw [ushift_holeFree]; exact h2
      · exact ws_ushift ty _ D 0 _ h3 (by omega)

theorem infer_sp : ∀ f, IH1 f ∧ IH2 f := by
  intro f
  induction f with
  | zero =>
    constructor
    · intro t s h D _ _ _; rw [inferS]; trivial
    · intro ds s h D _ _ _; rw [inferDefsS]; trivial
  | succ f ih =>
    obtain ⟨ih1, ih2⟩ := ih
    constructor
    · intro t s h D inv hf hw
      have leaf : ∀ (ty : Tm), ty.holeFree = true → wellScoped D ty = true →
          Res ((pure (t, ty) : M (Tm × Tm)) s) (IPost h s D t) := fun ty h1 h2 =>
        Res.pure ⟨rfl, h, Step.refl inv.st, Sp_of_hf h _ ty D h1 h2⟩
      cases t
      case hole => cases hf
      case type => unfold inferS; exact leaf .type rfl rfl
      case int => unfold inferS; exact leaf .type rfl rfl
      case bool => unfold inferS; exact leaf .type rfl rfl
      case tt => unfold inferS; exact leaf .bool rfl rfl
      case ff => unfold inferS; exact leaf .bool rfl rfl
      case lit n => unfold inferS; exact leaf .int rfl rfl
      case var x i => exact infer_var f x i s h D inv hw
      case lam x im d b =>
        simp only [Tm.holeFree, Bool.and_eq_true] at hf
        simp only [wellScoped, Bool.and_eq_true] at hw
        unfold inferS
        dsimp only
        refine infer_check_sp f ih1 d .type s h D inv hf.1 hw.1 rfl rfl _ _
          (fun r s1 h1 e1 st1 sp1 => ?_)
        rw [pushCtx_bind, e1]
        refine Res.bind (ih1 b _ h1 (D+1) ((inv.step st1).pushLam hf.1 hw.1) hf.2 hw.2)
          (fun r2 s2 q2 => ?_)
        obtain ⟨e2, h2, st2, sp2⟩ := q2
        rw [popCtx_bind]
        refine Res.pure ⟨by rw [e2], h2, ?_, ?_⟩
        · exact ⟨st1.ext.trans st2.ext st1.len, st2.ok, Nat.le_trans st1.len st2.len,
            by show s2.tctx.tail = s.tctx; rw [st2.tctx]; exact st1.tctx,
            by show s2.dctx.tail = s.dctx; rw [st2.dctx]; exact st1.dctx⟩
        · exact Sp_pi.2 ⟨Sp_of_hf h2 _ d D hf.1 hw.1, sp2⟩
      case pi x im d c =>
        simp only [Tm.holeFree, Bool.and_eq_true] at hf
        simp only [wellScoped, Bool.and_eq_true] at hw
        unfold inferS
        dsimp only
        refine infer_check_sp f ih1 d .type s h D inv hf.1 hw.1 rfl rfl _ _
          (fun r s1 h1 e1 st1 sp1 => ?_)
        rw [pushCtx_bind, e1]
        refine infer_check_sp f ih1 c .type _ h1 (D+1) ((inv.step st1).pushLam hf.1 hw.1) hf.2 hw.2
          rfl rfl _ _ (fun r2 s2 h2 e2 st2 sp2 => ?_)
        rw [popCtx_bind]
        refine Res.pure ⟨by rw [e2], h2, ?_, Sp_of_hf h2 _ .type D rfl rfl⟩
        exact ⟨st1.ext.trans st2.ext st1.len, st2.ok, Nat.le_trans st1.len st2.len,
            by show s2.tctx.tail = s.tctx; rw [st2.tctx]; exact st1.tctx,
            by show s2.dctx.tail = s.dctx; rw [st2.dctx]; exact st1.dctx⟩
      case neg a =>
        simp only [Tm.holeFree] at hf
        simp only [wellScoped] at hw
        unfold inferS
        dsimp only
        refine infer_check_sp f ih1 a .int s h D inv hf hw rfl rfl _ _
          (fun r s1 h1 e1 st1 sp1 => ?_)
        exact Res.pure ⟨by rw [e1], h1, st1, Sp_of_hf h1 _ .int D rfl rfl⟩
      case bin op a b =>
        simp only [Tm.holeFree, Bool.and_eq_true] at hf
        simp only [wellScoped, Bool.and_eq_true] at hw
        unfold inferS
        dsimp only
        refine infer_check_sp f ih1 a .int s h D inv hf.1 hw.1 rfl rfl _ _
          (fun r s1 h1 e1 st1 sp1 => ?_)
        refine infer_check_sp f ih1 b .int s1 h1 D (inv.step st1) hf.2 hw.2 rfl rfl _ _
          (fun r2 s2 h2 e2 st2 sp2 => ?_)
        refine Res.pure ⟨by rw [e1, e2], h2, st1.trans st2, Sp_of_hf h2 _ _ D ?_ ?_⟩
        · cases op <;> rfl
        · cases op <;> rfl
      case ite c a b =>
        simp only [Tm.holeFree, Bool.and_eq_true] at hf
        simp only [wellScoped, Bool.and_eq_true] at hw
        unfold inferS
        dsimp only
        refine infer_check_sp f ih1 c .bool s h D inv hf.1.1 hw.1.1 rfl rfl _ _
          (fun r s1 h1 e1 st1 sp1 => ?_)
        refine Res.bind (ih1 a s1 h1 D (inv.step st1) hf.1.2 hw.1.2) (fun r2 s2 q2 => ?_)
        obtain ⟨e2, h2, st2, sp2⟩ := q2
        have inv2 := (inv.step st1).step st2
        refine Res.bind (ih1 b s2 h2 D inv2 hf.2 hw.2) (fun r3 s3 q3 => ?_)
        obtain ⟨e3, h3, st3, sp3⟩ := q3
        have inv3 := inv2.step st3
        refine Res.bind (unify_in f r2.2 r3.2 s3 h3 D inv3 (st3.sp sp2) sp3) (fun bb s4 k4 => ?_)
        refine report_sp (fun n => ?_)
        exact Res.pure ⟨by rw [e1, e2, e3], h3,
          (st1.trans st2).trans (st3.trans (k4.nerrs n).step), (k4.nerrs n).sp (st3.sp sp2)⟩
      case app g a =>
        simp only [Tm.holeFree, Bool.and_eq_true] at hf
        simp only [wellScoped, Bool.and_eq_true] at hw
        unfold inferS
        dsimp only
        refine Res.bind (ih1 g s h D inv hf.1 hw.1) (fun r1 s1 q1 => ?_)
        obtain ⟨e1, h1, st1, sp1⟩ := q1
        rw [cellFresh_bind, cellFresh_bind]
        obtain ⟨hA, stA, spA⟩ := fresh_sp st1.ok D
        obtain ⟨hB, stB, spB⟩ := fresh_sp stA.ok (D+1)
        have invB := ((inv.step st1).step stA).step stB
        have spA' := stB.sp spA
        refine Res.bind (unify_in f _ r1.2 _ hB D invB (Sp_pi.2 ⟨spA', spB⟩)
          ((stA.trans stB).sp sp1)) (fun b1 s2 k2 => ?_)
        refine report_sp (fun n => ?_)
        have k2' := k2.nerrs n
        refine Res.bind (ih1 a _ hB D (invB.keep k2') hf.2 hw.2) (fun r2 s3 q3 => ?_)
        obtain ⟨e3, h3, st3, sp3⟩ := q3
        have inv3 := (invB.keep k2').step st3
        refine Res.bind (unify_in f _ r2.2 s3 h3 D inv3 (st3.sp (k2'.sp spA')) sp3)
          (fun b2 s4 k4 => ?_)
        refine report_sp (fun n' => ?_)
        have k4' := k4.nerrs n'
        refine Res.bind (openS_sp f _ 0 r2.1 0 _ h3 D D k4'.ok (k4'.sp (st3.sp (k2'.sp spB)))
          (Nat.zero_le _) (by rw [e3]; exact hf.2) (by rw [e3]; exact hw.2) (by omega))
          (fun r5 s5 q5 => ?_)
        obtain ⟨h5, st5, sp5⟩ := q5
        refine Res.pure ⟨by rw [e1, e3], h5, ?_, sp5⟩
        exact (((st1.trans (stA.trans stB)).trans k2'.step).trans (st3.trans k4'.step)).trans st5
      case letg ds body =>
        simp only [Tm.holeFree, Bool.and_eq_true] at hf
        simp only [wellScoped, Bool.and_eq_true] at hw
        unfold inferS
        dsimp only
        rw [bind_of_eq (pushDefsS_eq ds ds.len s)]
        obtain ⟨pT, pD, pTl, pDl⟩ := pushed_ok (L := D + ds.len) ds s.tctx s.dctx
          (inv.ts.mono (Nat.le_of_eq inv.tl) (Nat.le_add_right _ _))
          (inv.ds.mono (Nat.le_of_eq inv.dl) (Nat.le_add_right _ _))
          (by rw [inv.tl]) (by rw [inv.tl, inv.dl]) hf.1 hw.1
        have inv0 : Inv h
            { s with tctx := pushedT ds ds.len s.tctx, dctx := pushedD ds ds.len s.dctx }
            (D + ds.len) := ⟨inv.st, pTl, pDl, pT, pD⟩
        refine Res.bind (ih2 ds _ h (D + ds.len) inv0 hf.1 hw.1) (fun l s1 q1 => ?_)
        obtain ⟨e1, h1, st1⟩ := q1
        refine Res.bind (ih1 body s1 h1 (D + ds.len) (inv0.step st1) hf.2 hw.2) (fun r2 s2 q2 => ?_)
        obtain ⟨e2, h2, st2, sp2⟩ := q2
        rw [e1]
        refine Res.bind (letTypeS_sp f ds D hf.1 hw.1 ds.len 0 r2.2 s2 h2 st2.ok (by omega) sp2)
          (fun ty s3 q3 => ?_)
        obtain ⟨h3, st3, sp3⟩ := q3
        rw [bind_of_eq (popN_eq ds.len s3)]
        refine Res.pure ⟨by rw [e2], h3, ?_, sp3⟩
        have stAll := (st1.trans st2).trans st3
        exact ⟨stAll.ext, stAll.ok, stAll.len,
          by show s3.tctx.drop ds.len = s.tctx; rw [stAll.tctx]; exact pushedT_drop ds ds.len s.tctx,
          by show s3.dctx.drop ds.len = s.dctx; rw [stAll.dctx]; exact pushedD_drop ds ds.len s.dctx⟩
    · intro ds s h D inv hf hw
      cases ds
      case nil =>
        unfold inferDefsS
        exact Res.pure ⟨rfl, h, Step.refl inv.st⟩
      case cons x ann d r =>
        simp only [Defs.holeFree, Bool.and_eq_true] at hf
        simp only [wellScopedDefs, Bool.and_eq_true] at hw
        unfold inferDefsS
        dsimp only
        refine infer_check_sp f ih1 ann .type s h D inv hf.1.1 hw.1.1 rfl rfl _ _
          (fun r1 s1 h1 e1 st1 sp1 => ?_)
        refine infer_check_sp f ih1 d ann s1 h1 D (inv.step st1) hf.1.2 hw.1.2 hf.1.1 hw.1.1 _ _
          (fun r2 s2 h2 e2 st2 sp2 => ?_)
        refine Res.bind (ih2 r s2 h2 D ((inv.step st1).step st2) hf.2 hw.2) (fun l s3 q3 => ?_)
        obtain ⟨e3, h3, st3⟩ := q3
        refine Res.pure ⟨?_, h3, (st1.trans st2).trans st3⟩
        simp only [Defs.setDefs, e2, e3]

/-! ## The result -/

theorem cellVal_replicate_none (n c : Nat) : cellVal (List.replicate n none) c = none := by
  unfold cellVal
  rcases Nat.lt_or_ge c n with hlt | hge
  · simp [hlt]
  · rw [List.getElem?_eq_none (by simpa using hge)]

theorem Inv.init (n : Nat) : Inv (fun _ => 0) { store := List.replicate n none } 0 := by
  refine ⟨?_, rfl, rfl, ?_, ?_⟩
  · intro c v hv
    rw [cellVal_replicate_none] at hv
    cases hv
  · intro i ty off e; simp at e
  · intro i d off e; simp at e

/-- on a closed, hole-free, well-scoped term the checker model never panics (for any fuel and any
initial store of unresolved cells), and what it returns is the term itself with a spine type -/
theorem inferS_holeFree_res (fuel n : Nat) (t : Tm) (hw : wellScoped 0 t = true)
    (hf : t.holeFree = true) :
    Res (inferS fuel t { store := List.replicate n none })
      (IPost (fun _ => 0) { store := List.replicate n none } 0 t) :=
  (infer_sp fuel).1 t _ _ 0 (Inv.init n) hf hw

theorem inferS_holeFree_no_panic (fuel n : Nat) (t : Tm) (site : String)
    (hw : wellScoped 0 t = true) (hf : t.holeFree = true) :
    inferS fuel t { store := List.replicate n none } ≠ .panic site :=
  (inferS_holeFree_res fuel n t hw hf).ne_panic site

/-! ## Any term, any state: the only reachable panics are the four context lookups -/

/-- the two context indexings and the two `index + 1 - offset` subtractions -/
def LookupSite (site : String) : Prop :=
  site = "normalize_weak_head.definitions_context[index]" ∨
  site = "normalize_weak_head.index+1-offset" ∨
  site = "type_check.typing_context[index]" ∨
  site = "type_check.index+1-offset"

/-- `m` panics at sites satisfying `P` only -/
structure PS {α} (P : String → Prop) (m : M α) : Prop where
  out : ∀ s site, m s = .panic site → P site

section
variable {P : String → Prop}

theorem PS.pure {α} (a : α) : PS P (pure a : M α) := ⟨fun s site h => by cases h⟩
theorem PS.outOfFuel {α} : PS P (outOfFuel : M α) := ⟨fun s site h => by cases h⟩
theorem PS.panicAt {α} (site : String) (h : P site) : PS P (panicAt site : M α) :=
  ⟨fun s site' e => by cases e; exact h⟩
theorem PS.getSt : PS P getSt := ⟨fun s site h => by cases h⟩
theorem PS.cellGet (id : Nat) : PS P (cellGet id) := ⟨fun s site h => by cases h⟩
theorem PS.cellFresh : PS P cellFresh := ⟨fun s site h => by cases h⟩
theorem PS.modifySt (g : St → St) : PS P (modifySt g) := ⟨fun s site h => by cases h⟩
theorem PS.cellSet (id : Nat) (t : Tm) : PS P (cellSet id t) := PS.modifySt _
theorem PS.pushD (d) : PS P (pushD d) := PS.modifySt _
theorem PS.popD : PS P popD := PS.modifySt _
theorem PS.pushCtx (ty d) : PS P (pushCtx ty d) := PS.modifySt _
theorem PS.popCtx : PS P popCtx := PS.modifySt _
theorem PS.reportError : PS P reportError := PS.modifySt _

theorem PS.bind_val {α β} {m : M α} {f : α → M β} (hm : PS P m)
    (hf : ∀ a s s' site, m s = .ok a s' → f a s' = .panic site → P site) :
    PS P (m >>= f) := by
  refine ⟨fun s site h => ?_⟩
  have h : M.bind m f s = .panic site := h
  simp only [M.bind] at h
  split at h
  · next a s' e => exact hf a s s' site e h
  · cases h
  · next p e => cases h; exact hm.out s _ e

theorem PS.bind {α β} {m : M α} {f : α → M β} (hm : PS P m) (hf : ∀ a, PS P (f a)) :
    PS P (m >>= f) :=
  PS.bind_val hm (fun a _ s' site _ e => (hf a).out s' site e)

theorem PS.bind_post {α β} {Q : α → Prop} {m : M α} {f : α → M β} (hm : PS P m) (hq : PostV Q m)
    (hf : ∀ a, Q a → PS P (f a)) : PS P (m >>= f) :=
  PS.bind_val hm (fun a s s' site e e' => (hf a (hq.out s a s' e)).out s' site e')

/-- a read-only action never panics -/
theorem PS.of_ro {α} {m : M α} {Q : St → α → Prop} (h : ∀ s, RO s (Q s) (m s)) : PS P m := by
  refine ⟨fun s site e => ?_⟩
  have := h s
  rw [e] at this
  cases this with
  | panic h => exact absurd h id

theorem PS.mono {α} {P' : String → Prop} {m : M α} (h : PS P m) (hp : ∀ site, P site → P' site) :
    PS P' m := ⟨fun s site e => hp _ (h.out s site e)⟩

end

macro "ps_step" : tactic => `(tactic| first
  | with_reducible exact PS.pure _
  | with_reducible exact PS.outOfFuel
  | with_reducible exact PS.panicAt _ (by assumption)
  | with_reducible exact PS.getSt
  | with_reducible exact PS.cellGet _
  | with_reducible exact PS.cellFresh
  | with_reducible exact PS.cellSet _ _
  | with_reducible exact PS.pushD _
  | with_reducible exact PS.popD
  | with_reducible exact PS.pushCtx _ _
  | with_reducible exact PS.popCtx
  | with_reducible exact PS.reportError
  | with_reducible assumption
  | apply_hyp
  | with_reducible (apply PS.bind)
  | intro _
  | split)

macro "ps" : tactic => `(tactic| repeat ps_step)

section
variable {P : String → Prop}

theorem sshiftS_ps (f c amt t) : PS P (sshiftS f c amt t) :=
  PS.of_ro (Q := fun _ r => 0 ≤ amt → r ≠ none) (fun s => (sshiftS_ro f).1 c amt t s)
theorem sshiftDefsS_ps (f c amt ds) : PS P (sshiftDefsS f c amt ds) :=
  PS.of_ro (Q := fun _ r => 0 ≤ amt → r ≠ none) (fun s => (sshiftS_ro f).2 c amt ds s)
theorem ushiftS_ps (f c a t) : PS P (ushiftS f c a t) :=
  PS.of_ro (Q := fun _ _ => True) (fun s => ushiftS_ro f c a t s)
theorem derefS_ps (f t) : PS P (derefS f t) :=
  PS.of_ro (Q := fun _ _ => True) (fun s => derefS_ro f t s)
theorem synEqS_ps (f a b) : PS P (synEqS f a b) :=
  PS.of_ro (Q := fun _ _ => True) (fun s => (synEqS_ro f).1 a b s)
theorem occursS_ps (f id t) : PS P (occursS f id t) :=
  PS.of_ro (Q := fun _ _ => True) (fun s => (occursS_ro f).1 id t s)

theorem openS_ps : ∀ f,
    (∀ t i u s, PS P (openS f t i u s)) ∧ (∀ ds i u s, PS P (openDefsS f ds i u s)) := by
  intro f
  induction f with
  | zero =>
    constructor
    · intros; rw [openS]; exact PS.outOfFuel
    · intros; rw [openDefsS]; exact PS.outOfFuel
  | succ f ih =>
    obtain ⟨ih1, ih2⟩ := ih
    have hu := ushiftS_ps (P := P) f
    constructor
    · intro t i u s
      unfold openS
      ps
    · intro ds i u s
      unfold openDefsS
      ps

theorem unfoldDefS_ps (f x ann d index) : PS P (unfoldDefS f x ann d index) := by
  have hu := ushiftS_ps (P := P) f
  have ho := (openS_ps (P := P) f).1
  unfold unfoldDefS
  ps

theorem substDefsS_ps (f ds idx u) : PS P (substDefsS f ds idx u) := by
  have ho := (openS_ps (P := P) f).1
  fun_induction substDefsS f ds idx u <;> ps

theorem letLoopS_ps : ∀ f todo body, PS P (letLoopS f todo body) := by
  intro f
  induction f with
  | zero => intros; rw [letLoopS]; exact PS.outOfFuel
  | succ f ih =>
    intro todo body
    have hu := unfoldDefS_ps (P := P) f
    have ho := (openS_ps (P := P) f).1
    have hs := substDefsS_ps (P := P) f
    unfold letLoopS
    ps

theorem whnfS_ps (h1 : P "normalize_weak_head.definitions_context[index]")
    (h2 : P "normalize_weak_head.index+1-offset") : ∀ f t, PS P (whnfS f t) := by
  intro f
  induction f with
  | zero => intros; rw [whnfS]; exact PS.outOfFuel
  | succ f ih =>
    intro t
    have hu := ushiftS_ps (P := P) f
    have ho := (openS_ps (P := P) f).1
    have hl := letLoopS_ps (P := P) f
    unfold whnfS
    ps

theorem solveS_ps (f id shift other) : PS P (solveS f id shift other) := by
  have hs := sshiftS_ps (P := P) f
  have ho := occursS_ps (P := P) f
  unfold solveS
  ps

/-- `unifyS` panics where `whnfS` does -/
theorem unifyS_ps_of (hw : ∀ f t, PS P (whnfS f t)) : ∀ f a b, PS P (unifyS f a b) := by
  intro f
  induction f with
  | zero => intros; rw [unifyS]; exact PS.outOfFuel
  | succ f ih =>
    intro a b
    have hsyn := synEqS_ps (P := P) f
    have hsolve := solveS_ps (P := P) f
    unfold unifyS
    refine PS.bind (hsyn _ _) (fun c => ?_)
    split
    · exact PS.pure _
    · refine PS.bind_post (hw f a) (whnfS_notLet f a) (fun w1 n1 => ?_)
      refine PS.bind_post (hw f b) (whnfS_notLet f b) (fun w2 n2 => ?_)
      extract_lets structural rightHole
      have hstruct : PS P structural := by
        unfold structural
        split
        all_goals first
          | exact (n1 _ _ rfl).elim
          | exact (n2 _ _ rfl).elim
          | ps
      have hright : PS P rightHole := by
        unfold rightHole
        ps
      ps

/-- the shifted copy of the group in the group rule: never fails -/
theorem shiftedDefs_ro (f n a : Nat) (ds : Defs) (s : St) :
    RO s (fun _ => True) ((do
      match ← sshiftDefsS f n (a : Int) ds with
      | some d => pure d
      | none => panicAt "unsigned_shift.unwrap" : M Defs) s) := by
  refine Out3.bind ((sshiftS_ro f).2 n (a : Int) ds s) (fun r qr => ?_)
  cases r with
  | none => exact absurd rfl (qr (Int.natCast_nonneg _))
  | some x => exact Out3.pure trivial

theorem letTypeS_ps (f : Nat) (ds : Defs) : ∀ k i acc, PS P (letTypeS f ds k i acc) := by
  intro k
  induction k with
  | zero => intros; unfold letTypeS; exact PS.pure _
  | succ k ih =>
    intro i acc
    have ho := (openS_ps (P := P) f).1
    unfold letTypeS
    dsimp only
    refine PS.bind (PS.of_ro (Q := fun _ _ => True)
      (fun s => shiftedDefs_ro f ds.len (ds.len - 1 - i) ds s)) (fun sh => ?_)
    ps

theorem pushDefsS_ps : ∀ ds k, PS P (pushDefsS ds k) := by
  intro ds k
  fun_induction pushDefsS ds k <;> ps

theorem popN_ps : ∀ k, PS P (popN k) := by
  intro k
  induction k with
  | zero => unfold popN; ps
  | succ k ih => unfold popN; ps

theorem inferS_ps (h1 : P "normalize_weak_head.definitions_context[index]")
    (h2 : P "normalize_weak_head.index+1-offset") (h3 : P "type_check.typing_context[index]")
    (h4 : P "type_check.index+1-offset") :
    ∀ f, (∀ t, PS P (inferS f t)) ∧ (∀ ds, PS P (inferDefsS f ds)) := by
  intro f
  induction f with
  | zero =>
    constructor
    · intros; rw [inferS]; exact PS.outOfFuel
    · intros; rw [inferDefsS]; exact PS.outOfFuel
  | succ f ih =>
    obtain ⟨ih1, ih2⟩ := ih
    have hun := unifyS_ps_of (whnfS_ps h1 h2) f
    have hus := ushiftS_ps (P := P) f
    have hop := (openS_ps (P := P) f).1
    have hlt := letTypeS_ps (P := P) f
    have hpd := pushDefsS_ps (P := P)
    have hpn := popN_ps (P := P)
    constructor
    · intro t
      unfold inferS
      ps
    · intro ds
      unfold inferDefsS
      ps

end

theorem inferS_lookup (f : Nat) (t : Tm) : PS LookupSite (inferS f t) :=
  (inferS_ps (P := LookupSite) (by simp [LookupSite]) (by simp [LookupSite]) (by simp [LookupSite])
    (by simp [LookupSite]) f).1 t

/-! ## Well-scoped terms (holes anywhere): only the definitions-context indexing is live

The offsets recorded in the two contexts are in range by construction, and the typing context is
indexed by variables of the *source* term only; so three of the four lookup sites are dead on any
well-scoped term, whatever the store does. -/

/-- the one live site -/
def NwhIdx (site : String) : Prop := site = "normalize_weak_head.definitions_context[index]"

def DOff (Δ : List (Option (Tm × Nat))) : Prop :=
  ∀ i d off, Δ[i]? = some (some (d, off)) → off ≤ i + 1
def TOff (T : List (Tm × Nat)) : Prop := ∀ i ty off, T[i]? = some (ty, off) → off ≤ i + 1

theorem DOff.push_none {Δ : List (Option (Tm × Nat))} (h : DOff Δ) : DOff (none :: Δ) := by
  intro i d off e
  cases i with
  | zero => simp at e
  | succ i => simp only [List.getElem?_cons_succ] at e; have := h i d off e; omega

theorem TOff.push0 {T : List (Tm × Nat)} (h : TOff T) (ty : Tm) : TOff ((ty, 0) :: T) := by
  intro i ty' off e
  cases i with
  | zero =>
    simp only [List.getElem?_cons_zero, Option.some.injEq, Prod.mk.injEq] at e
    omega
  | succ i => simp only [List.getElem?_cons_succ] at e; have := h i ty' off e; omega

/-- offsets in range once the context has grown to length `L` -/
def TOffG (L : Nat) (T : List (Tm × Nat)) : Prop :=
  ∀ i ty off, T[i]? = some (ty, off) → off ≤ i + 1 + (L - T.length)
def DOffG (L : Nat) (Δ : List (Option (Tm × Nat))) : Prop :=
  ∀ i d off, Δ[i]? = some (some (d, off)) → off ≤ i + 1 + (L - Δ.length)

theorem pushed_off {L : Nat} : ∀ (ds : Defs) (T : List (Tm × Nat)) (Δ : List (Option (Tm × Nat))),
    TOffG L T → DOffG L Δ → T.length + ds.len = L → Δ.length = T.length →
    TOffG L (pushedT ds ds.len T) ∧ DOffG L (pushedD ds ds.len Δ) ∧
      (pushedT ds ds.len T).length = L ∧ (pushedD ds ds.len Δ).length = L
  | .nil, T, Δ, hT, hD, hl, hl2 => by
      simp only [pushedT, pushedD]
      simp only [Defs.len_nil, Nat.add_zero] at hl
      exact ⟨hT, hD, hl, by omega⟩
  | .cons x a d r, T, Δ, hT, hD, hl, hl2 => by
      simp only [Defs.len_cons] at hl
      simp only [pushedT, pushedD, Defs.len_cons, Nat.add_sub_cancel]
      refine pushed_off r _ _ ?_ ?_ (by simp only [List.length_cons]; omega)
        (by simp only [List.length_cons]; omega)
      · intro i ty off e
        cases i with
        | zero =>
          simp only [List.getElem?_cons_zero, Option.some.injEq, Prod.mk.injEq] at e
          simp only [List.length_cons]; omega
        | succ i =>
          simp only [List.getElem?_cons_succ] at e
          have := hT i ty off e
          have := getElem?_lt e
          simp only [List.length_cons]; omega
      · intro i d' off e
        cases i with
        | zero =>
          simp only [List.getElem?_cons_zero, Option.some.injEq, Prod.mk.injEq] at e
          simp only [List.length_cons]; omega
        | succ i =>
          simp only [List.getElem?_cons_succ] at e
          have := hD i d' off e
          have := getElem?_lt e
          simp only [List.length_cons]; omega

/-- started with contexts `T`, `Dc`, the action panics at the definitions-context indexing only -/
structure PSC {α} (T : List (Tm × Nat)) (Dc : List (Option (Tm × Nat))) (m : M α) : Prop where
  out : ∀ s site, s.tctx = T → s.dctx = Dc → m s = .panic site → NwhIdx site

section
variable {α β : Type} {T T' : List (Tm × Nat)} {Dc Dc' : List (Option (Tm × Nat))}

theorem PSC.of_ps {m : M α} (h : PS (fun _ => False) m) : PSC T Dc m :=
  ⟨fun s site _ _ e => (h.out s site e).elim⟩
theorem PSC.pure (a : α) : PSC T Dc (pure a : M α) := PSC.of_ps (PS.pure a)
theorem PSC.outOfFuel : PSC T Dc (outOfFuel : M α) := PSC.of_ps PS.outOfFuel

theorem PSC.bind_val {m : M α} {f : α → M β} (hm : PSC T Dc m)
    (hf : ∀ a s s' site, s.tctx = T → s.dctx = Dc → m s = .ok a s' → f a s' = .panic site →
      NwhIdx site) : PSC T Dc (m >>= f) := by
  refine ⟨fun s site ht hd h => ?_⟩
  have h : M.bind m f s = .panic site := h
  simp only [M.bind] at h
  split at h
  · next a s' e => exact hf a s s' site ht hd e h
  · cases h
  · next p e => cases h; exact hm.out s _ ht hd e

theorem PSC.bind {m : M α} {f : α → M β} (hm : PSC T Dc m) (hc : CtxH T Dc m T' Dc')
    (hf : ∀ a, PSC T' Dc' (f a)) : PSC T Dc (m >>= f) :=
  PSC.bind_val hm (fun a _ s' site ht hd e e' =>
    (hf a).out s' site (hc.out e ht hd).1 (hc.out e ht hd).2 e')

theorem PSC.bind_post {Q : α → Prop} {m : M α} {f : α → M β} (hm : PSC T Dc m)
    (hc : CtxH T Dc m T' Dc') (hq : PostV Q m) (hf : ∀ a, Q a → PSC T' Dc' (f a)) :
    PSC T Dc (m >>= f) :=
  PSC.bind_val hm (fun a s s' site ht hd e e' =>
    (hf a (hq.out s a s' e)).out s' site (hc.out e ht hd).1 (hc.out e ht hd).2 e')

end

/-- one step: the helper functions never panic and keep the contexts -/
macro "psc_step" : tactic => `(tactic| first
  | with_reducible exact PSC.pure _
  | with_reducible exact PSC.outOfFuel
  | with_reducible assumption
  | apply_hyp
  | with_reducible refine PSC.bind (PSC.of_ps (PS.pushD _)) CtxH.pushD (fun _ => ?_)
  | with_reducible refine PSC.bind (PSC.of_ps PS.popD) CtxH.popD_cons (fun _ => ?_)
  | with_reducible refine PSC.bind (PSC.of_ps (PS.pushCtx _ _)) CtxH.pushCtx (fun _ => ?_)
  | with_reducible refine PSC.bind (PSC.of_ps PS.popCtx) CtxH.popCtx_cons (fun _ => ?_)
  | with_reducible refine PSC.bind (PSC.of_ps PS.reportError) CtxH.reportError (fun _ => ?_)
  | with_reducible refine PSC.bind (PSC.of_ps PS.cellFresh) CtxH.cellFresh (fun _ => ?_)
  | with_reducible refine PSC.bind (PSC.of_ps (PS.cellGet _)) CtxH.cellGet (fun _ => ?_)
  | with_reducible refine PSC.bind (PSC.of_ps (PS.cellSet _ _)) CtxH.cellSet (fun _ => ?_)
  | with_reducible refine PSC.bind (PSC.of_ps (ushiftS_ps ..)) (ushiftS_ctx ..) (fun _ => ?_)
  | with_reducible refine PSC.bind (PSC.of_ps ((openS_ps _).1 ..)) (openS_ctx ..) (fun _ => ?_)
  | with_reducible refine PSC.bind (PSC.of_ps (letLoopS_ps ..)) (letLoopS_ctx ..) (fun _ => ?_)
  | with_reducible refine PSC.bind (PSC.of_ps (synEqS_ps ..)) (synEqS_ctx ..) (fun _ => ?_)
  | with_reducible refine PSC.bind (PSC.of_ps (solveS_ps ..)) (solveS_ctx ..) (fun _ => ?_)
  | with_reducible refine PSC.bind (PSC.of_ps (letTypeS_ps ..)) (letTypeS_ctx ..) (fun _ => ?_)
  | with_reducible exact PSC.of_ps (ushiftS_ps ..)
  | with_reducible exact PSC.of_ps ((openS_ps _).1 ..)
  | split)

macro "psc" : tactic => `(tactic| repeat psc_step)

theorem whnfS_psc : ∀ (f : Nat) (t : Tm) T Dc, DOff Dc → PSC T Dc (whnfS f t) := by
  intro f
  induction f with
  | zero => intros; rw [whnfS]; exact PSC.outOfFuel
  | succ f ih =>
    intro t T Dc hD
    have ihc : ∀ t, PSC T Dc (whnfS f t) := fun t => ih t T Dc hD
    have ihb : ∀ {β} t (k : Tm → M β), (∀ a, PSC T Dc (k a)) → PSC T Dc (whnfS f t >>= k) :=
      fun t k hk => PSC.bind (ihc t) (whnfS_ctx f t T Dc) hk
    cases t
    case var x i =>
      refine ⟨fun s site ht hd e => ?_⟩
      unfold whnfS at e
      dsimp only at e
      rw [getSt_bind] at e
      generalize hdi : s.dctx[i]? = o at e
      rcases o with _ | _ | ⟨d, off⟩
      · cases e; rfl
      · cases e
      · dsimp only at e
        split at e
        · rw [hd] at hdi
          have := hD i d off hdi
          omega
        · exact (PSC.bind (PSC.of_ps (ushiftS_ps f 0 (i + 1 - off) d)) (ushiftS_ctx ..)
            (fun a => ihc a)).out s site ht hd e
    all_goals (unfold whnfS; dsimp only)
    all_goals repeat (first | exact ihc _ | (refine ihb _ _ (fun _ => ?_)) | psc_step)

theorem unifyS_psc : ∀ (f : Nat) (a b : Tm) T Dc, DOff Dc → PSC T Dc (unifyS f a b) := by
  intro f
  induction f with
  | zero => intros; rw [unifyS]; exact PSC.outOfFuel
  | succ f ih =>
    intro a b T Dc hD
    have ihc : ∀ a b, PSC T Dc (unifyS f a b) := fun a b => ih a b T Dc hD
    have ihp : ∀ a b, PSC T (none :: Dc) (unifyS f a b) := fun a b => ih a b T _ hD.push_none
    have ihb : ∀ a b (k : Bool → M Bool), (∀ r, PSC T Dc (k r)) → PSC T Dc (unifyS f a b >>= k) :=
      fun a b k hk => PSC.bind (ihc a b) (unifyS_ctx f a b T Dc) hk
    have ihbp : ∀ a b (k : Bool → M Bool), (∀ r, PSC T (none :: Dc) (k r)) →
        PSC T (none :: Dc) (unifyS f a b >>= k) :=
      fun a b k hk => PSC.bind (ihp a b) (unifyS_ctx f a b T _) hk
    unfold unifyS
    refine PSC.bind (PSC.of_ps (synEqS_ps ..)) (synEqS_ctx ..) (fun c => ?_)
    split
    · exact PSC.pure _
    · refine PSC.bind_post (whnfS_psc f a T Dc hD) (whnfS_ctx ..) (whnfS_notLet f a)
        (fun w1 n1 => ?_)
      refine PSC.bind_post (whnfS_psc f b T Dc hD) (whnfS_ctx ..) (whnfS_notLet f b)
        (fun w2 n2 => ?_)
      extract_lets structural rightHole
      have hstruct : PSC T Dc structural := by
        unfold structural
        split
        all_goals first
          | exact (n1 _ _ rfl).elim
          | exact (n2 _ _ rfl).elim
          | skip
        all_goals repeat (first
          | exact ihc _ _ | exact ihp _ _
          | (refine ihb _ _ _ (fun _ => ?_)) | (refine ihbp _ _ _ (fun _ => ?_)) | psc_step)
      have hright : PSC T Dc rightHole := by
        unfold rightHole
        psc
      psc

/-- the invariant of the two contexts in `inferS` -/
structure COff (T : List (Tm × Nat)) (Dc : List (Option (Tm × Nat))) : Prop where
  len : T.length = Dc.length
  t : TOff T
  d : DOff Dc

theorem COff.push {T : List (Tm × Nat)} {Dc : List (Option (Tm × Nat))} (c : COff T Dc) (ty : Tm) :
    COff ((ty, 0) :: T) (none :: Dc) :=
  ⟨by simp only [List.length_cons, c.len], c.t.push0 ty, c.d.push_none⟩

theorem COff.pushed {T : List (Tm × Nat)} {Dc : List (Option (Tm × Nat))} (c : COff T Dc)
    (ds : Defs) : COff (pushedT ds ds.len T) (pushedD ds ds.len Dc) ∧
      (pushedT ds ds.len T).length = T.length + ds.len := by
  obtain ⟨h1, h2, h3, h4⟩ := pushed_off (L := T.length + ds.len) ds T Dc
    (fun i ty off e => by have := c.t i ty off e; omega)
    (fun i d off e => by have := c.d i d off e; omega) rfl c.len.symm
  refine ⟨⟨by rw [h3, h4], ?_, ?_⟩, h3⟩
  · intro i ty off e
    have := h1 i ty off e
    rw [h3] at this; omega
  · intro i d off e
    have := h2 i d off e
    rw [h4] at this; omega

def JH1 (f : Nat) : Prop := ∀ (t : Tm) T Dc, COff T Dc → wellScoped T.length t = true →
  PSC T Dc (inferS f t)
def JH2 (f : Nat) : Prop := ∀ (ds : Defs) T Dc, COff T Dc → wellScopedDefs T.length ds = true →
  PSC T Dc (inferDefsS f ds)

theorem infer_var_psc (f : Nat) (x : Name) (i : Nat) T Dc (c : COff T Dc)
    (hw : wellScoped T.length (.var x i) = true) : PSC T Dc (inferS (f+1) (.var x i)) := by
  simp only [wellScoped, decide_eq_true_eq] at hw
  refine ⟨fun s site ht hd e => ?_⟩
  unfold inferS at e
  dsimp only at e
  rw [getSt_bind] at e
  generalize hti : s.tctx[i]? = o at e
  rcases o with _ | ⟨ty, off⟩
  · rw [ht, List.getElem?_eq_none_iff] at hti; omega
  · dsimp only at e
    split at e
    · rw [ht] at hti
      have := c.t i ty off hti
      omega
    · exact (PSC.bind (T := T) (Dc := Dc) (PSC.of_ps (ushiftS_ps f 0 (i + 1 - off) ty))
        (ushiftS_ctx ..) (fun a => PSC.pure _)).out s site ht hd e

theorem inferS_psc : ∀ f, JH1 f ∧ JH2 f := by
  intro f
  induction f with
  | zero =>
    constructor
    · intro t T Dc _ _; rw [inferS]; exact PSC.outOfFuel
    · intro ds T Dc _ _; rw [inferDefsS]; exact PSC.outOfFuel
  | succ f ih =>
    obtain ⟨ih1, ih2⟩ := ih
    constructor
    · intro t T Dc c hw
      have hun : ∀ a b (k : Bool → M (Tm × Tm)), (∀ r, PSC T Dc (k r)) →
          PSC T Dc (unifyS f a b >>= k) :=
        fun a b k hk => PSC.bind (unifyS_psc f a b T Dc c.d) (unifyS_ctx f a b T Dc) hk
      have hin : ∀ t (k : Tm × Tm → M (Tm × Tm)), wellScoped T.length t = true →
          (∀ r, PSC T Dc (k r)) → PSC T Dc (inferS f t >>= k) :=
        fun t k hw hk => PSC.bind (ih1 t T Dc c hw) (inferS_ctx f t T Dc) hk
      cases t
      case var x i => exact infer_var_psc f x i T Dc c hw
      case lam x im d b =>
        simp only [wellScoped, Bool.and_eq_true] at hw
        have hunp : ∀ ty a b (k : Bool → M (Tm × Tm)), (∀ r, PSC ((ty, 0) :: T) (none :: Dc) (k r)) →
            PSC ((ty, 0) :: T) (none :: Dc) (unifyS f a b >>= k) :=
          fun ty a b k hk => PSC.bind (unifyS_psc f a b _ _ c.d.push_none) (unifyS_ctx ..) hk
        have hinp : ∀ ty (k : Tm × Tm → M (Tm × Tm)),
            (∀ r, PSC ((ty, 0) :: T) (none :: Dc) (k r)) →
            PSC ((ty, 0) :: T) (none :: Dc) (inferS f b >>= k) :=
          fun ty k hk => PSC.bind (ih1 b _ _ (c.push ty) hw.2) (inferS_ctx ..) hk
        unfold inferS
        dsimp only
        refine hin d _ hw.1 (fun r => ?_)
        repeat (first
          | (refine hun _ _ _ (fun _ => ?_))
          | (refine hinp _ _ (fun _ => ?_))
          | psc_step)
      case pi x im d b =>
        simp only [wellScoped, Bool.and_eq_true] at hw
        have hunp : ∀ ty a b (k : Bool → M (Tm × Tm)), (∀ r, PSC ((ty, 0) :: T) (none :: Dc) (k r)) →
            PSC ((ty, 0) :: T) (none :: Dc) (unifyS f a b >>= k) :=
          fun ty a b k hk => PSC.bind (unifyS_psc f a b _ _ c.d.push_none) (unifyS_ctx ..) hk
        have hinp : ∀ ty (k : Tm × Tm → M (Tm × Tm)),
            (∀ r, PSC ((ty, 0) :: T) (none :: Dc) (k r)) →
            PSC ((ty, 0) :: T) (none :: Dc) (inferS f b >>= k) :=
          fun ty k hk => PSC.bind (ih1 b _ _ (c.push ty) hw.2) (inferS_ctx ..) hk
        unfold inferS
        dsimp only
        refine hin d _ hw.1 (fun r => ?_)
        repeat (first
          | (refine hun _ _ _ (fun _ => ?_))
          | (refine hunp _ _ _ _ (fun _ => ?_))
          | (refine hinp _ _ (fun _ => ?_))
          | psc_step)
      case app g a =>
        simp only [wellScoped, Bool.and_eq_true] at hw
        unfold inferS
        dsimp only
        refine hin g _ hw.1 (fun r => ?_)
        repeat (first
          | (refine hun _ _ _ (fun _ => ?_))
          | (refine hin a _ hw.2 (fun _ => ?_))
          | psc_step)
      case neg a =>
        simp only [wellScoped] at hw
        unfold inferS
        dsimp only
        refine hin a _ hw (fun r => ?_)
        repeat (first | (refine hun _ _ _ (fun _ => ?_)) | psc_step)
      case bin op a b =>
        simp only [wellScoped, Bool.and_eq_true] at hw
        unfold inferS
        dsimp only
        refine hin a _ hw.1 (fun r => ?_)
        repeat (first
          | (refine hun _ _ _ (fun _ => ?_))
          | (refine hin b _ hw.2 (fun _ => ?_))
          | psc_step)
      case ite cnd a b =>
        simp only [wellScoped, Bool.and_eq_true] at hw
        unfold inferS
        dsimp only
        refine hin cnd _ hw.1.1 (fun r => ?_)
        repeat (first
          | (refine hun _ _ _ (fun _ => ?_))
          | (refine hin a _ hw.1.2 (fun _ => ?_))
          | (refine hin b _ hw.2 (fun _ => ?_))
          | psc_step)
      case letg ds body =>
        simp only [wellScoped, Bool.and_eq_true] at hw
        obtain ⟨cp, hlen⟩ := c.pushed ds
        unfold inferS
        dsimp only
        refine PSC.bind (PSC.of_ps (pushDefsS_ps ds ds.len)) (pushDefsS_ctx ds ds.len T Dc)
          (fun _ => ?_)
        refine PSC.bind (ih2 ds _ _ cp (by rw [hlen]; exact hw.1)) (inferDefsS_ctx ..) (fun l => ?_)
        refine PSC.bind (ih1 body _ _ cp (by rw [hlen]; exact hw.2)) (inferS_ctx ..) (fun r => ?_)
        refine PSC.bind (PSC.of_ps (letTypeS_ps ..)) (letTypeS_ctx ..) (fun ty => ?_)
        refine PSC.bind (PSC.of_ps (popN_ps _)) (popN_pushed_ctx ds ds.len T Dc) (fun _ => ?_)
        exact PSC.pure _
      all_goals (unfold inferS; exact PSC.pure _)
    · intro ds T Dc c hw
      have hun : ∀ a b (k : Bool → M (List Tm)), (∀ r, PSC T Dc (k r)) →
          PSC T Dc (unifyS f a b >>= k) :=
        fun a b k hk => PSC.bind (unifyS_psc f a b T Dc c.d) (unifyS_ctx f a b T Dc) hk
      have hin : ∀ t (k : Tm × Tm → M (List Tm)), wellScoped T.length t = true →
          (∀ r, PSC T Dc (k r)) → PSC T Dc (inferS f t >>= k) :=
        fun t k hw hk => PSC.bind (ih1 t T Dc c hw) (inferS_ctx f t T Dc) hk
      cases ds
      case nil => unfold inferDefsS; exact PSC.pure _
      case cons x ann d r =>
        simp only [wellScopedDefs, Bool.and_eq_true] at hw
        unfold inferDefsS
        dsimp only
        refine hin ann _ hw.1.1 (fun _ => ?_)
        repeat (first
          | (refine hun _ _ _ (fun _ => ?_))
          | (refine hin d _ hw.1.2 (fun _ => ?_))
          | (refine PSC.bind (ih2 r T Dc c hw.2) (inferDefsS_ctx ..) (fun _ => ?_))
          | psc_step)

/-- on a closed well-scoped term — holes anywhere, any store — the only panic the checker model can
reach is the indexing of the definitions context in `normalize_weak_head` -/
theorem inferS_wellScoped_site (fuel : Nat) (t : Tm) (σ : List (Option Tm)) (site : String)
    (hw : wellScoped 0 t = true) (h : inferS fuel t { store := σ } = .panic site) :
    site = "normalize_weak_head.definitions_context[index]" :=
  ((inferS_psc fuel).1 t [] [] ⟨rfl, fun i ty off e => by simp at e, fun i d off e => by simp at e⟩
    hw).out _ site rfl rfl h

end CheckNoPanic
