import GramModel.Lemmas.Eval

/-!
# Natural (big-step) semantics of `gram run`, and its equivalence with the small-step evaluator model

`Big t v` (`t ⇓ v`) reads like the language definition: one rule per construct.  It is proved
equivalent to the small-step relation `Step`/`Steps` (hence to the model `step`/`evalFuel` that the
correspondence harness compares with `evaluator.rs::step`), and to a fuelled big-step interpreter
`bigEval`, the Lean counterpart of the independent reference interpreter of the harness.

A hole has no rule: it is not a value and does not evaluate (it is stuck, as in the pure layer of
`Eval.lean`).  Type formers (`type`, `int`, `bool`, `Π`) are values, as in `isValue`.
-/

/-- The group `let x : ann = v; rest; b` after its first definition has become the value `v`: the
recursive unfolding `unfoldDef x ann v _` (the helper `step` itself uses) is substituted into the
remaining annotations, definitions and the body, and the group shrinks by one.  This is literally
the right-hand side of the `letg`-arm of `step` (see `letShrink_is_step`). -/
def letShrink (x : Name) (ann v : Tm) (rest : Defs) (b : Tm) : Tm :=
  .letg (openDefs rest rest.len (unfoldDef x ann v rest.len) 0)
        (openT b rest.len (unfoldDef x ann v rest.len) 0)

/-- `letShrink` is exactly what the model evaluator does to a group whose first definition is a value. -/
theorem letShrink_is_step (x : Name) (ann v : Tm) (rest : Defs) (b : Tm) (hv : isValue v = true) :
    step (.letg (.cons x ann v rest) b) = some (letShrink x ann v rest b) := by
  simp [step, value_step_none _ hv, hv, letShrink]

/-- Natural semantics `t ⇓ v`. -/
inductive Big : Tm → Tm → Prop
  /-- a value evaluates to itself -/
  | val {v} : isValue v = true → Big v v
  /-- call by value: function, then argument, then the body with the argument value substituted -/
  | app {f a x im d b v r} :
      Big f (.lam x im d b) → Big a v → Big (openT b 0 v 0) r → Big (.app f a) r
  /-- negation of an integer -/
  | neg {a n} : Big a (.lit n) → Big (.neg a) (.lit (-n))
  /-- binary operators: left operand, right operand, the primitive on the two integers -/
  | bin {op a b x y r} :
      Big a (.lit x) → Big b (.lit y) → delta op x y = some r → Big (.bin op a b) r
  /-- conditional, condition true: the `else` branch does not occur in the premises -/
  | iteT {c a b r} : Big c .tt → Big a r → Big (.ite c a b) r
  /-- conditional, condition false: the `then` branch does not occur in the premises -/
  | iteF {c a b r} : Big c .ff → Big b r → Big (.ite c a b) r
  /-- the empty group is its body -/
  | letNil {b r} : Big b r → Big (.letg .nil b) r
  /-- a group: the first definition is evaluated, its recursive unfolding is substituted into the
  rest of the group, and the shrunken group is evaluated -/
  | letCons {x ann d rest b v r} :
      Big d v → Big (letShrink x ann v rest b) r → Big (.letg (.cons x ann d rest) b) r

/-! ## Congruence of `Steps` under the evaluation contexts -/

theorem Steps_single {t u : Tm} (h : Step t u) : Steps t u := Steps.head h Steps.refl

theorem Steps_appL {f f' : Tm} (a : Tm) (h : Steps f f') : Steps (.app f a) (.app f' a) := by
  induction h with
  | refl => exact Steps.refl
  | head h _ ih => exact Steps.head (Step.appL h) ih

theorem Steps_appR {f a a' : Tm} (hv : isValue f = true) (h : Steps a a') :
    Steps (.app f a) (.app f a') := by
  induction h with
  | refl => exact Steps.refl
  | head h _ ih => exact Steps.head (Step.appR hv h) ih

theorem Steps_neg {a a' : Tm} (h : Steps a a') : Steps (.neg a) (.neg a') := by
  induction h with
  | refl => exact Steps.refl
  | head h _ ih => exact Steps.head (Step.negC h) ih

theorem Steps_binL {a a' : Tm} (op : BinOp) (b : Tm) (h : Steps a a') :
    Steps (.bin op a b) (.bin op a' b) := by
  induction h with
  | refl => exact Steps.refl
  | head h _ ih => exact Steps.head (Step.binL h) ih

theorem Steps_binR {a b b' : Tm} (op : BinOp) (hv : isValue a = true) (h : Steps b b') :
    Steps (.bin op a b) (.bin op a b') := by
  induction h with
  | refl => exact Steps.refl
  | head h _ ih => exact Steps.head (Step.binR hv h) ih

theorem Steps_iteC {c c' : Tm} (a b : Tm) (h : Steps c c') : Steps (.ite c a b) (.ite c' a b) := by
  induction h with
  | refl => exact Steps.refl
  | head h _ ih => exact Steps.head (Step.iteC h) ih

theorem Steps_letD {d d' : Tm} (x : Name) (ann : Tm) (rest : Defs) (b : Tm) (h : Steps d d') :
    Steps (.letg (.cons x ann d rest) b) (.letg (.cons x ann d' rest) b) := by
  induction h with
  | refl => exact Steps.refl
  | head h _ ih => exact Steps.head (Step.letD h) ih

theorem delta_isValue {op : BinOp} {x y : Int} {r : Tm} (h : delta op x y = some r) :
    isValue r = true := by
  cases op <;> simp only [delta] at h
  case quot =>
    split at h
    · simp at h
    · simp only [Option.some.injEq] at h; subst h; rfl
  all_goals (simp only [Option.some.injEq] at h; subst h; first | rfl | (split <;> rfl))

/-! ## Soundness: a big-step derivation is a terminating small-step run -/

theorem Big_sound {t v : Tm} (h : Big t v) : Steps t v ∧ isValue v = true := by
  induction h with
  | val hv => exact ⟨Steps.refl, hv⟩
  | @app f a x im d b v r _ _ _ ihf iha ihr =>
      refine ⟨?_, ihr.2⟩
      exact Steps_trans (Steps_appL a ihf.1)
        (Steps_trans (Steps_appR ihf.2 iha.1)
          (Steps.head (Step.beta iha.2) ihr.1))
  | neg _ ih =>
      exact ⟨Steps_trans (Steps_neg ih.1) (Steps_single Step.negL), rfl⟩
  | @bin op a b x y r _ _ hd iha ihb =>
      refine ⟨?_, delta_isValue hd⟩
      exact Steps_trans (Steps_binL op b iha.1)
        (Steps_trans (Steps_binR op rfl ihb.1) (Steps_single (Step.delta hd)))
  | @iteT c a b r _ _ ihc iha =>
      exact ⟨Steps_trans (Steps_iteC a b ihc.1) (Steps.head Step.iteT iha.1), iha.2⟩
  | @iteF c a b r _ _ ihc ihb =>
      exact ⟨Steps_trans (Steps_iteC a b ihc.1) (Steps.head Step.iteF ihb.1), ihb.2⟩
  | letNil _ ih => exact ⟨Steps.head Step.letNil ih.1, ih.2⟩
  | @letCons x ann d rest b v r _ _ ihd ihr =>
      exact ⟨Steps_trans (Steps_letD x ann rest b ihd.1) (Steps.head (Step.letU ihd.2) ihr.1), ihr.2⟩

/-! ## Completeness: a terminating small-step run is a big-step derivation -/

/-- A value has exactly one big-step derivation. -/
theorem Big_value_inv {t v : Tm} (hv : isValue t = true) (h : Big t v) : v = t := by
  cases h <;> simp_all [isValue]

/-- Expansion: one small step backwards preserves the big-step value. -/
theorem Step_Big {t t' : Tm} (hs : Step t t') : ∀ {v : Tm}, Big t' v → Big t v := by
  induction hs with
  | appL _ ih =>
      intro v h
      cases h with
      | val hv => simp [isValue] at hv
      | app hf ha hr => exact Big.app (ih hf) ha hr
  | appR _ _ ih =>
      intro v h
      cases h with
      | val hv => simp [isValue] at hv
      | app hf ha hr => exact Big.app hf (ih ha) hr
  | beta hv => intro v h; exact Big.app (Big.val rfl) (Big.val hv) h
  | negC _ ih =>
      intro v h
      cases h with
      | val hv => simp [isValue] at hv
      | neg ha => exact Big.neg (ih ha)
  | negL =>
      intro v h
      have := Big_value_inv rfl h
      subst this
      exact Big.neg (Big.val rfl)
  | binL _ ih =>
      intro v h
      cases h with
      | val hv => simp [isValue] at hv
      | bin ha hb hd => exact Big.bin (ih ha) hb hd
  | binR _ _ ih =>
      intro v h
      cases h with
      | val hv => simp [isValue] at hv
      | bin ha hb hd => exact Big.bin ha (ih hb) hd
  | delta hd =>
      intro v h
      have := Big_value_inv (delta_isValue hd) h
      subst this
      exact Big.bin (Big.val rfl) (Big.val rfl) hd
  | iteC _ ih =>
      intro v h
      cases h with
      | val hv => simp [isValue] at hv
      | iteT hc ha => exact Big.iteT (ih hc) ha
      | iteF hc hb => exact Big.iteF (ih hc) hb
  | iteT => intro v h; exact Big.iteT (Big.val rfl) h
  | iteF => intro v h; exact Big.iteF (Big.val rfl) h
  | letNil => intro v h; exact Big.letNil h
  | letD _ ih =>
      intro v h
      cases h with
      | val hv => simp [isValue] at hv
      | letCons hd hr => exact Big.letCons (ih hd) hr
  | letU hv => intro v h; exact Big.letCons (Big.val hv) h

theorem Big_complete {t v : Tm} (h : Steps t v) (hv : isValue v = true) : Big t v := by
  induction h with
  | refl => exact Big.val hv
  | head hs _ ih => exact Step_Big hs (ih hv)

theorem Big_iff_Steps {t v : Tm} : Big t v ↔ (Steps t v ∧ isValue v = true) :=
  ⟨Big_sound, fun h => Big_complete h.1 h.2⟩

theorem Big_iff_eval {t v : Tm} : Big t v ↔ ∃ n, evalFuel n t = v ∧ isValue v = true := by
  constructor
  · intro h
    obtain ⟨hs, hv⟩ := Big_sound h
    obtain ⟨n, hn⟩ := Steps_evalFuel hs (value_step_none _ hv)
    exact ⟨n, hn n (Nat.le_refl _), hv⟩
  · rintro ⟨n, rfl, hv⟩
    exact Big_complete (evalFuel_steps n t) hv

theorem Big_deterministic {t v w : Tm} (h1 : Big t v) (h2 : Big t w) : v = w := by
  obtain ⟨s1, v1⟩ := Big_sound h1
  obtain ⟨s2, v2⟩ := Big_sound h2
  obtain ⟨n1, e1⟩ := Steps_evalFuel s1 (value_step_none _ v1)
  obtain ⟨n2, e2⟩ := Steps_evalFuel s2 (value_step_none _ v2)
  rw [← e1 (max n1 n2) (Nat.le_max_left _ _), ← e2 (max n1 n2) (Nat.le_max_right _ _)]

/-- A program has a big-step value iff the small-step evaluator reaches a value: stuck and divergent
programs have none. -/
theorem Big_exists_iff {t : Tm} : (∃ v, Big t v) ↔ (∃ n, isValue (evalFuel n t) = true) := by
  constructor
  · rintro ⟨v, h⟩
    obtain ⟨n, e, hv⟩ := Big_iff_eval.1 h
    exact ⟨n, e ▸ hv⟩
  · rintro ⟨n, hv⟩
    exact ⟨_, Big_iff_eval.2 ⟨n, rfl, hv⟩⟩

/-! ## The fuelled big-step interpreter -/

/-- `bigEval n t`: the rules of `Big` run as a recursive interpreter; `n` bounds the height of the
derivation.  `none` = no value within this height (stuck, or not enough fuel). -/
def bigEval : Nat → Tm → Option Tm
  | 0, _ => none
  | n+1, .app f a =>
    match bigEval n f with
    | none => none
    | some fv =>
      match fv with
      | .lam _ _ _ b =>
        match bigEval n a with
        | none => none
        | some v => bigEval n (openT b 0 v 0)
      | _ => none
  | n+1, .neg a =>
    match bigEval n a with
    | none => none
    | some av =>
      match av with
      | .lit k => some (.lit (-k))
      | _ => none
  | n+1, .bin op a b =>
    match bigEval n a with
    | none => none
    | some av =>
      match av with
      | .lit x =>
        match bigEval n b with
        | none => none
        | some bv =>
          match bv with
          | .lit y => delta op x y
          | _ => none
      | _ => none
  | n+1, .ite c a b =>
    match bigEval n c with
    | none => none
    | some cv =>
      match cv with
      | .tt => bigEval n a
      | .ff => bigEval n b
      | _ => none
  | n+1, .letg .nil b => bigEval n b
  | n+1, .letg (.cons x ann d rest) b =>
    match bigEval n d with
    | none => none
    | some v => bigEval n (letShrink x ann v rest b)
  | _+1, .hole .. => none
  | _+1, .var .. => none
  | _+1, .type => some .type
  | _+1, .int => some .int
  | _+1, .bool => some .bool
  | _+1, .tt => some .tt
  | _+1, .ff => some .ff
  | _+1, .lit k => some (.lit k)
  | _+1, .lam x im d b => some (.lam x im d b)
  | _+1, .pi x im d b => some (.pi x im d b)

/-- The interpreter only returns values the natural semantics derives. -/
theorem bigEval_sound : ∀ (n : Nat) (t v : Tm), bigEval n t = some v → Big t v
  | 0, t, v, h => by simp [bigEval] at h
  | n+1, t, v, h => by
    cases t with
    | app f a =>
      simp only [bigEval] at h
      cases hf : bigEval n f with
      | none => simp [hf] at h
      | some fv =>
        simp only [hf] at h
        cases fv <;> simp only [reduceCtorEq] at h
        case lam x im d b =>
          cases ha : bigEval n a with
          | none => simp [ha] at h
          | some av =>
            simp only [ha] at h
            exact Big.app (bigEval_sound n _ _ hf) (bigEval_sound n _ _ ha) (bigEval_sound n _ _ h)
    | neg a =>
      simp only [bigEval] at h
      cases ha : bigEval n a with
      | none => simp [ha] at h
      | some av =>
        simp only [ha] at h
        cases av <;> simp only [reduceCtorEq, Option.some.injEq] at h
        case lit k =>
          subst h
          exact Big.neg (bigEval_sound n _ _ ha)
    | bin op a b =>
      simp only [bigEval] at h
      cases ha : bigEval n a with
      | none => simp [ha] at h
      | some av =>
        simp only [ha] at h
        cases av <;> simp only [reduceCtorEq] at h
        case lit x =>
          cases hb : bigEval n b with
          | none => simp [hb] at h
          | some bv =>
            simp only [hb] at h
            cases bv <;> simp only [reduceCtorEq] at h
            case lit y =>
              exact Big.bin (bigEval_sound n _ _ ha) (bigEval_sound n _ _ hb) h
    | ite c a b =>
      simp only [bigEval] at h
      cases hc : bigEval n c with
      | none => simp [hc] at h
      | some cv =>
        simp only [hc] at h
        cases cv <;> simp only [reduceCtorEq] at h
        case tt => exact Big.iteT (bigEval_sound n _ _ hc) (bigEval_sound n _ _ h)
        case ff => exact Big.iteF (bigEval_sound n _ _ hc) (bigEval_sound n _ _ h)
    | letg ds b =>
      cases ds with
      | nil =>
        simp only [bigEval] at h
        exact Big.letNil (bigEval_sound n _ _ h)
      | cons x ann d rest =>
        simp only [bigEval] at h
        cases hd : bigEval n d with
        | none => simp [hd] at h
        | some dv =>
          simp only [hd] at h
          exact Big.letCons (bigEval_sound n _ _ hd) (bigEval_sound n _ _ h)
    | hole _ _ => simp [bigEval] at h
    | var _ _ => simp [bigEval] at h
    | type => simp only [bigEval, Option.some.injEq] at h; subst h; exact Big.val rfl
    | int => simp only [bigEval, Option.some.injEq] at h; subst h; exact Big.val rfl
    | bool => simp only [bigEval, Option.some.injEq] at h; subst h; exact Big.val rfl
    | tt => simp only [bigEval, Option.some.injEq] at h; subst h; exact Big.val rfl
    | ff => simp only [bigEval, Option.some.injEq] at h; subst h; exact Big.val rfl
    | lit _ => simp only [bigEval, Option.some.injEq] at h; subst h; exact Big.val rfl
    | lam _ _ _ _ => simp only [bigEval, Option.some.injEq] at h; subst h; exact Big.val rfl
    | pi _ _ _ _ => simp only [bigEval, Option.some.injEq] at h; subst h; exact Big.val rfl

theorem bigEval_value {v : Tm} (hv : isValue v = true) (m : Nat) : bigEval (m+1) v = some v := by
  cases v <;> simp [isValue] at hv <;> simp [bigEval]

/-- Every big-step derivation is found by the interpreter, for every fuel from some point on. -/
theorem bigEval_complete_ge {t v : Tm} (h : Big t v) : ∃ n, ∀ m, n ≤ m → bigEval m t = some v := by
  induction h with
  | val hv =>
      refine ⟨1, fun m hm => ?_⟩
      obtain ⟨m, rfl⟩ : ∃ k, m = k + 1 := ⟨m - 1, by omega⟩
      exact bigEval_value hv m
  | app _ _ _ ihf iha ihr =>
      obtain ⟨n1, h1⟩ := ihf; obtain ⟨n2, h2⟩ := iha; obtain ⟨n3, h3⟩ := ihr
      refine ⟨n1 + n2 + n3 + 1, fun m hm => ?_⟩
      obtain ⟨m, rfl⟩ : ∃ k, m = k + 1 := ⟨m - 1, by omega⟩
      simp only [bigEval, h1 m (by omega), h2 m (by omega), h3 m (by omega)]
  | neg _ ih =>
      obtain ⟨n1, h1⟩ := ih
      refine ⟨n1 + 1, fun m hm => ?_⟩
      obtain ⟨m, rfl⟩ : ∃ k, m = k + 1 := ⟨m - 1, by omega⟩
      simp only [bigEval, h1 m (by omega)]
  | bin _ _ hd iha ihb =>
      obtain ⟨n1, h1⟩ := iha; obtain ⟨n2, h2⟩ := ihb
      refine ⟨n1 + n2 + 1, fun m hm => ?_⟩
      obtain ⟨m, rfl⟩ : ∃ k, m = k + 1 := ⟨m - 1, by omega⟩
      simp only [bigEval, h1 m (by omega), h2 m (by omega), hd]
  | iteT _ _ ihc iha =>
      obtain ⟨n1, h1⟩ := ihc; obtain ⟨n2, h2⟩ := iha
      refine ⟨n1 + n2 + 1, fun m hm => ?_⟩
      obtain ⟨m, rfl⟩ : ∃ k, m = k + 1 := ⟨m - 1, by omega⟩
      simp only [bigEval, h1 m (by omega), h2 m (by omega)]
  | iteF _ _ ihc ihb =>
      obtain ⟨n1, h1⟩ := ihc; obtain ⟨n2, h2⟩ := ihb
      refine ⟨n1 + n2 + 1, fun m hm => ?_⟩
      obtain ⟨m, rfl⟩ : ∃ k, m = k + 1 := ⟨m - 1, by omega⟩
      simp only [bigEval, h1 m (by omega), h2 m (by omega)]
  | letNil _ ih =>
      obtain ⟨n1, h1⟩ := ih
      refine ⟨n1 + 1, fun m hm => ?_⟩
      obtain ⟨m, rfl⟩ : ∃ k, m = k + 1 := ⟨m - 1, by omega⟩
      simp only [bigEval, h1 m (by omega)]
  | letCons _ _ ihd ihr =>
      obtain ⟨n1, h1⟩ := ihd; obtain ⟨n2, h2⟩ := ihr
      refine ⟨n1 + n2 + 1, fun m hm => ?_⟩
      obtain ⟨m, rfl⟩ : ∃ k, m = k + 1 := ⟨m - 1, by omega⟩
      simp only [bigEval, h1 m (by omega), h2 m (by omega)]

theorem bigEval_complete {t v : Tm} (h : Big t v) : ∃ n, bigEval n t = some v := by
  obtain ⟨n, hn⟩ := bigEval_complete_ge h
  exact ⟨n, hn n (Nat.le_refl _)⟩

/-- One more unit of fuel never changes an answer already given. -/
theorem bigEval_mono_succ : ∀ (n : Nat) (t v : Tm), bigEval n t = some v → bigEval (n+1) t = some v
  | 0, t, v, h => by simp [bigEval] at h
  | n+1, t, v, h => by
    cases t with
    | app f a =>
      simp only [bigEval] at h
      cases hf : bigEval n f with
      | none => simp [hf] at h
      | some fv =>
        simp only [hf] at h
        cases fv <;> simp only [reduceCtorEq] at h
        case lam x im d b =>
          cases ha : bigEval n a with
          | none => simp [ha] at h
          | some av =>
            simp only [ha] at h
            have e1 := bigEval_mono_succ n _ _ hf
            have e2 := bigEval_mono_succ n _ _ ha
            have e3 := bigEval_mono_succ n _ _ h
            rw [bigEval]; simp only [e1, e2, e3]
    | neg a =>
      simp only [bigEval] at h
      cases ha : bigEval n a with
      | none => simp [ha] at h
      | some av =>
        simp only [ha] at h
        cases av <;> simp only [reduceCtorEq, Option.some.injEq] at h
        case lit k =>
          have e1 := bigEval_mono_succ n _ _ ha
          rw [bigEval]; simp only [e1, h]
    | bin op a b =>
      simp only [bigEval] at h
      cases ha : bigEval n a with
      | none => simp [ha] at h
      | some av =>
        simp only [ha] at h
        cases av <;> simp only [reduceCtorEq] at h
        case lit x =>
          cases hb : bigEval n b with
          | none => simp [hb] at h
          | some bv =>
            simp only [hb] at h
            cases bv <;> simp only [reduceCtorEq] at h
            case lit y =>
              have e1 := bigEval_mono_succ n _ _ ha
              have e2 := bigEval_mono_succ n _ _ hb
              rw [bigEval]; simp only [e1, e2, h]
    | ite c a b =>
      simp only [bigEval] at h
      cases hc : bigEval n c with
      | none => simp [hc] at h
      | some cv =>
        simp only [hc] at h
        have e1 := bigEval_mono_succ n _ _ hc
        cases cv <;> simp only [reduceCtorEq] at h
        case tt =>
          have e2 := bigEval_mono_succ n _ _ h
          rw [bigEval]; simp only [e1, e2]
        case ff =>
          have e2 := bigEval_mono_succ n _ _ h
          rw [bigEval]; simp only [e1, e2]
    | letg ds b =>
      cases ds with
      | nil =>
        simp only [bigEval] at h
        have e1 := bigEval_mono_succ n _ _ h
        rw [bigEval]; exact e1
      | cons x ann d rest =>
        simp only [bigEval] at h
        cases hd : bigEval n d with
        | none => simp [hd] at h
        | some dv =>
          simp only [hd] at h
          have e1 := bigEval_mono_succ n _ _ hd
          have e2 := bigEval_mono_succ n _ _ h
          rw [bigEval]; simp only [e1, e2]
    | hole _ _ => simp [bigEval] at h
    | var _ _ => simp [bigEval] at h
    | type => simpa [bigEval] using h
    | int => simpa [bigEval] using h
    | bool => simpa [bigEval] using h
    | tt => simpa [bigEval] using h
    | ff => simpa [bigEval] using h
    | lit _ => simpa [bigEval] using h
    | lam _ _ _ _ => simpa [bigEval] using h
    | pi _ _ _ _ => simpa [bigEval] using h

/-- More fuel never changes an answer already given. -/
theorem bigEval_mono {n m : Nat} {t v : Tm} (h : bigEval n t = some v) (hm : n ≤ m) :
    bigEval m t = some v := by
  induction hm with
  | refl => exact h
  | step _ ih => exact bigEval_mono_succ _ _ _ ih

/-- The interpreter computes exactly the natural semantics. -/
theorem Big_iff_bigEval {t v : Tm} : Big t v ↔ ∃ n, bigEval n t = some v :=
  ⟨bigEval_complete, fun ⟨n, h⟩ => bigEval_sound n t v h⟩

/-- Two answers of the interpreter, with whatever fuels, agree. -/
theorem bigEval_fuel_irrelevant {n m : Nat} {t v w : Tm} (h1 : bigEval n t = some v)
    (h2 : bigEval m t = some w) : v = w :=
  Big_deterministic (bigEval_sound n t v h1) (bigEval_sound m t w h2)

/-- The two interpreters agree: the big-step one returns `v` for some fuel iff the small-step one
stops at the value `v` for some fuel. -/
theorem bigEval_iff_evalFuel {t v : Tm} :
    (∃ n, bigEval n t = some v) ↔ ∃ n, evalFuel n t = v ∧ isValue v = true :=
  Big_iff_bigEval.symm.trans Big_iff_eval

/-- A term that neither is a value nor steps (a stuck term) has no big-step value; so the
interpreter answers `none` on it whatever the fuel. -/
theorem Big_stuck {t : Tm} (hs : step t = none) (hv : isValue t = false) : ¬ ∃ v, Big t v := by
  rintro ⟨v, h⟩
  obtain ⟨s, hvv⟩ := Big_sound h
  cases s with
  | refl => rw [hv] at hvv; contradiction
  | head h1 _ => rw [step_complete h1] at hs; contradiction

theorem bigEval_none_of_no_value {t : Tm} (h : ¬ ∃ v, Big t v) (n : Nat) : bigEval n t = none := by
  cases e : bigEval n t with
  | none => rfl
  | some v => exact absurd ⟨v, bigEval_sound n t v e⟩ h

/-! ## The rules characterise `⇓` construct by construct (inversion) -/

theorem Big_val_iff {t v : Tm} (hv : isValue t = true) : Big t v ↔ v = t :=
  ⟨Big_value_inv hv, fun e => by subst e; exact Big.val hv⟩

theorem Big_app_iff {f a r : Tm} :
    Big (.app f a) r ↔ ∃ x im d b v, Big f (.lam x im d b) ∧ Big a v ∧ Big (openT b 0 v 0) r := by
  constructor
  · intro h
    cases h with
    | val hv => simp [isValue] at hv
    | app hf ha hr => exact ⟨_, _, _, _, _, hf, ha, hr⟩
  · rintro ⟨x, im, d, b, v, hf, ha, hr⟩
    exact Big.app hf ha hr

theorem Big_neg_iff {a r : Tm} : Big (.neg a) r ↔ ∃ n, Big a (.lit n) ∧ r = .lit (-n) := by
  constructor
  · intro h
    cases h with
    | val hv => simp [isValue] at hv
    | neg ha => exact ⟨_, ha, rfl⟩
  · rintro ⟨n, ha, rfl⟩
    exact Big.neg ha

theorem Big_bin_iff {op : BinOp} {a b r : Tm} :
    Big (.bin op a b) r ↔ ∃ x y, Big a (.lit x) ∧ Big b (.lit y) ∧ delta op x y = some r := by
  constructor
  · intro h
    cases h with
    | val hv => simp [isValue] at hv
    | bin ha hb hd => exact ⟨_, _, ha, hb, hd⟩
  · rintro ⟨x, y, ha, hb, hd⟩
    exact Big.bin ha hb hd

theorem Big_ite_iff {c a b r : Tm} :
    Big (.ite c a b) r ↔ (Big c .tt ∧ Big a r) ∨ (Big c .ff ∧ Big b r) := by
  constructor
  · intro h
    cases h with
    | val hv => simp [isValue] at hv
    | iteT hc ha => exact Or.inl ⟨hc, ha⟩
    | iteF hc hb => exact Or.inr ⟨hc, hb⟩
  · rintro (⟨hc, ha⟩ | ⟨hc, hb⟩)
    · exact Big.iteT hc ha
    · exact Big.iteF hc hb

theorem Big_letNil_iff {b r : Tm} : Big (.letg .nil b) r ↔ Big b r := by
  constructor
  · intro h
    cases h with
    | val hv => simp [isValue] at hv
    | letNil hb => exact hb
  · exact Big.letNil

theorem Big_letCons_iff {x : Name} {ann d : Tm} {rest : Defs} {b r : Tm} :
    Big (.letg (.cons x ann d rest) b) r ↔ ∃ v, Big d v ∧ Big (letShrink x ann v rest b) r := by
  constructor
  · intro h
    cases h with
    | val hv => simp [isValue] at hv
    | letCons hd hr => exact ⟨_, hd, hr⟩
  · rintro ⟨v, hd, hr⟩
    exact Big.letCons hd hr

theorem Big_var_none {x : Name} {i : Nat} {v : Tm} : ¬ Big (.var x i) v := by
  intro h; cases h with
  | val hv => simp [isValue] at hv

theorem Big_hole_none {id s : Nat} {v : Tm} : ¬ Big (.hole id s) v := by
  intro h; cases h with
  | val hv => simp [isValue] at hv
