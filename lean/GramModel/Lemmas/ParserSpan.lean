import GramModel.Lemmas.ParserSound

/-! Span exactness of the packrat functions (property C15, parser side): whenever a parsing function
returns a tree without recorded error, the tree is a *parse tree* of the consumed segment
(`SegT`, the refinement of `Seg` that carries the tree) — in particular every node's range is
`span(first token of its segment, last token of its segment)`, children sit on sub-segments in
source order, and binder variables carry the range of their identifier token.

This is the tree as the 36 `parse_*` functions return it, *before* the re-association passes. -/

namespace PModel

/-! ## The range of a token segment -/

/-- The byte range of the token segment `a … b-1`: from the start of token `a` to the end of token
`b - 1` (`span(token_source_range(a), token_source_range(b - 1))`). -/
def rng (toks : Array PTok) (a b : Nat) : SourceRange :=
  span (tokenRange toks a) (tokenRange toks (b - 1))

theorem tokenRange_lt {toks : Array PTok} {i : Nat} (h : i < toks.size) :
    tokenRange toks i = toks[i].range := by
  simp [tokenRange, h]

theorem rng_single (toks : Array PTok) (a : Nat) : tokenRange toks a = rng toks a (a + 1) := rfl

theorem span_tok_rng (toks : Array PTok) (a a' b : Nat) :
    span (tokenRange toks a) (rng toks a' b) = rng toks a b := rfl

theorem span_rng_rng (toks : Array PTok) (a b c d : Nat) :
    span (rng toks a b) (rng toks c d) = rng toks a d := rfl

theorem span_tok_tok (toks : Array PTok) (a b : Nat) :
    span (tokenRange toks a) (tokenRange toks (b + 1 - 1)) = rng toks a (b + 1) := rfl

/-- With explicit indexing: for `a < b ≤ toks.size` the segment's range starts where token `a`
starts and stops where token `b - 1` stops. -/
theorem rng_eq {toks : Array PTok} {a b : Nat} (h1 : a < b) (h2 : b ≤ toks.size) :
    rng toks a b = ⟨(toks[a]'(by omega)).range.start, (toks[b - 1]'(by omega)).range.stop⟩ := by
  have ha : a < toks.size := by omega
  have hb : b - 1 < toks.size := by omega
  simp [rng, span, tokenRange, ha, hb]

/-! ## Parse trees of segments -/

/-- The variant built by the keyword productions. -/
def leafV : NT → SrcV
  | .type => .type | .integer => .int | .boolean => .bool | .true_ => .tt | .false_ => .ff
  | _ => .parseError

/-- The variant built by the binder productions. -/
def binderV : NT → SrcVar → Src → Src → SrcV
  | .annotatedLambda => fun v d b => .lam v false (.some d) b
  | .annotatedLambdaImplicit => fun v d b => .lam v true (.some d) b
  | .piImplicit => fun v d b => .pi v true d b
  | _ => fun v d b => .pi v false d b

/-- The operator of the binary productions. -/
def binOpOf : NT → BinOp
  | .sum => .sum | .difference => .diff | .product => .prod | .quotient => .quot
  | .lessThan => .lt | .lessThanOrEqualTo => .le | .equalTo => .eq | .greaterThan => .gt
  | _ => .ge

/-- `SegT toks A a b t`: the tokens `a … b-1` are derived from `A` (as in `Seg`) *and* `t` is the
tree the parser builds for that derivation: every node carries `rng` of its own segment, no errors,
`group = false` except for the root of a parenthesised group — which is the inner term itself with
`group = true` and the range extended to the parentheses; binder variables carry the range of their
identifier token (the anonymous binder of `a -> b`: the empty range at the start of `a`). -/
inductive SegT (toks : Array PTok) : NT → Nat → Nat → Src → Prop
  | unit {A B a b t} : (A, B) ∈ unitProds → SegT toks B a b t → SegT toks A a b t
  | leaf {A k a} : (A, k) ∈ leafProds → KAt toks a k →
      SegT toks A a (a + 1) (.mk (rng toks a (a + 1)) false (leafV A) [])
  | var {x a} : KAt toks a (.identifier x) →
      SegT toks .variable a (a + 1) (.mk (rng toks a (a + 1)) false (.var x) [])
  | lit {n a} : KAt toks a (.integerLiteral n) →
      SegT toks .integerLiteral a (a + 1) (.mk (rng toks a (a + 1)) false (.lit (Int.ofNat n)) [])
  | lambda {x a b body} : KAt toks a (.identifier x) → KAt toks (a + 1) .thickArrow →
      SegT toks .term (a + 1 + 1) b body →
      SegT toks .lambda a b
        (.mk (rng toks a b) false (.lam ⟨tokenRange toks a, x⟩ false .none body) [])
  | lambdaImplicit {x a b body} : KAt toks a .leftCurly → KAt toks (a + 1) (.identifier x) →
      KAt toks (a + 1 + 1) .rightCurly → KAt toks (a + 1 + 1 + 1) .thickArrow →
      SegT toks .term (a + 1 + 1 + 1 + 1) b body →
      SegT toks .lambdaImplicit a b
        (.mk (rng toks a b) false (.lam ⟨tokenRange toks (a + 1), x⟩ true .none body) [])
  | binder {A o c ar x a b d dom body} : (A, o, c, ar) ∈ binderProds → KAt toks a o →
      KAt toks (a + 1) (.identifier x) → KAt toks (a + 1 + 1) .colon →
      SegT toks .jumboTerm (a + 1 + 1 + 1) b dom → KAt toks b c → KAt toks (b + 1) ar →
      SegT toks .term (b + 1 + 1) d body →
      SegT toks A a d
        (.mk (rng toks a d) false (binderV A ⟨tokenRange toks (a + 1), x⟩ dom body) [])
  | nonDependentPi {a b c dom cod} : SegT toks .smallTerm a b dom → KAt toks b .thinArrow →
      SegT toks .term (b + 1) c cod →
      SegT toks .nonDependentPi a c
        (.mk (rng toks a c) false (.pi ⟨emptyRange toks a, placeholder⟩ false dom cod) [])
  | application {a b c f x} : SegT toks .atom a b f → SegT toks .smallTerm b c x →
      SegT toks .application a c (.mk (rng toks a c) false (.app f x) [])
  | letPlain {x t a b c defn body} : KAt toks a (.identifier x) → KAt toks (a + 1) .equals →
      SegT toks .term (a + 1 + 1) b defn → KAt toks b (.terminator t) →
      SegT toks .term (b + 1) c body →
      SegT toks .let_ a c
        (.mk (rng toks a c) false (.let_ ⟨tokenRange toks a, x⟩ .none defn body) [])
  | letAnn {x t a b c d ann defn body} : KAt toks a (.identifier x) → KAt toks (a + 1) .colon →
      SegT toks .smallTerm (a + 1 + 1) b ann → KAt toks b .equals →
      SegT toks .term (b + 1) c defn → KAt toks c (.terminator t) →
      SegT toks .term (c + 1) d body →
      SegT toks .let_ a d
        (.mk (rng toks a d) false (.let_ ⟨tokenRange toks a, x⟩ (.some ann) defn body) [])
  | negation {a b x} : KAt toks a .minus → SegT toks .largeTerm (a + 1) b x →
      SegT toks .negation a b (.mk (rng toks a b) false (.neg x) [])
  | bin {A L op R a b c x y} : (A, L, op, R) ∈ binProds → SegT toks L a b x → KAt toks b op →
      SegT toks R (b + 1) c y →
      SegT toks A a c (.mk (rng toks a c) false (.bin (binOpOf A) x y) [])
  | ite {a b c d x y z} : KAt toks a .if_ → SegT toks .term (a + 1) b x → KAt toks b .then_ →
      SegT toks .term (b + 1) c y → KAt toks c .else_ → SegT toks .term (c + 1) d z →
      SegT toks .if_ a d (.mk (rng toks a d) false (.ite x y z) [])
  | group {a b inner} : KAt toks a .leftParen → SegT toks .term (a + 1) b inner →
      KAt toks b .rightParen →
      SegT toks .group a (b + 1) (.mk (rng toks a (b + 1)) true inner.variant [])

/-- `SegT` refines `Seg`. -/
theorem SegT.toSeg {toks : Array PTok} {A : NT} {a b : Nat} {t : Src} (h : SegT toks A a b t) :
    Seg toks A a b := by
  induction h with
  | unit hm _ ih => exact Seg.unit hm ih
  | leaf hm hk => exact Seg.leaf hm hk
  | var hk => exact Seg.var hk
  | lit hk => exact Seg.lit hk
  | lambda h1 h2 _ ih => exact Seg.lambda h1 h2 ih
  | lambdaImplicit h1 h2 h3 h4 _ ih => exact Seg.lambdaImplicit h1 h2 h3 h4 ih
  | binder hm h1 h2 h3 _ h4 h5 _ ih1 ih2 => exact Seg.binder hm h1 h2 h3 ih1 h4 h5 ih2
  | nonDependentPi _ hk _ ih1 ih2 => exact Seg.nonDependentPi ih1 hk ih2
  | application _ _ ih1 ih2 => exact Seg.application ih1 ih2
  | letPlain h1 h2 _ h3 _ ih1 ih2 => exact Seg.letPlain h1 h2 ih1 h3 ih2
  | letAnn h1 h2 _ h3 _ h4 _ ih1 ih2 ih3 => exact Seg.letAnn h1 h2 ih1 h3 ih2 h4 ih3
  | negation h1 _ ih => exact Seg.negation h1 ih
  | bin hm _ hk _ ih1 ih2 => exact Seg.bin hm ih1 hk ih2
  | ite h1 _ h2 _ h3 _ ih1 ih2 ih3 => exact Seg.ite h1 ih1 h2 ih2 h3 ih3
  | group h1 _ h2 ih => exact Seg.group h1 ih h2

/-! ## `Spanned`: the range discipline of a tree, read off the tree alone -/

/-- The binder `x` is the identifier token at position `i`. -/
def IdentAt (toks : Array PTok) (i : Nat) (x : SrcVar) : Prop :=
  KAt toks i (.identifier x.name) ∧ x.range = tokenRange toks i

mutual
/-- `Spanned toks a b t`: `a < b ≤ toks.size`, the range of `t` is exactly that of the token segment
`[a, b)`, and the children of `t` are `Spanned` on sub-segments of `[a, b)` that follow each other in
source order (field order); binder variables are identifier tokens of the segment, in front of the
children. -/
def Spanned (toks : Array PTok) (a b : Nat) (t : Src) : Prop :=
  match t with
  | .mk r _ v _ => a < b ∧ b ≤ toks.size ∧ r = rng toks a b ∧ Kids toks a b v
termination_by structural t
/-- The children part of `Spanned`. -/
def Kids (toks : Array PTok) (a b : Nat) (v : SrcV) : Prop :=
  match v with
  | .parseError => False
  | .type | .var _ | .int | .lit _ | .bool | .tt | .ff => True
  | .lam x _ dom body => ∃ i m a2 b2, a ≤ i ∧ i < m ∧ m ≤ a2 ∧ b2 ≤ b ∧ IdentAt toks i x ∧
      SpannedOpt toks (i + 1) m dom ∧ Spanned toks a2 b2 body
  | .pi x _ dom cod => ∃ a1 b1 a2 b2, a ≤ a1 ∧ b1 ≤ a2 ∧ b2 ≤ b ∧
      Spanned toks a1 b1 dom ∧ Spanned toks a2 b2 cod ∧
      ((∃ i, a ≤ i ∧ i < a1 ∧ IdentAt toks i x) ∨ x = ⟨emptyRange toks a1, placeholder⟩)
  | .app f x => ∃ a1 b1 a2 b2, a ≤ a1 ∧ b1 ≤ a2 ∧ b2 ≤ b ∧
      Spanned toks a1 b1 f ∧ Spanned toks a2 b2 x
  | .let_ x ann defn body => ∃ i m a2 b2 a3 b3, a ≤ i ∧ i < m ∧ m ≤ a2 ∧ b2 ≤ a3 ∧ b3 ≤ b ∧
      IdentAt toks i x ∧ SpannedOpt toks (i + 1) m ann ∧ Spanned toks a2 b2 defn ∧
      Spanned toks a3 b3 body
  | .neg x => ∃ a1 b1, a < a1 ∧ b1 ≤ b ∧ Spanned toks a1 b1 x
  | .bin _ x y => ∃ a1 b1 a2 b2, a ≤ a1 ∧ b1 < a2 ∧ b2 ≤ b ∧
      Spanned toks a1 b1 x ∧ Spanned toks a2 b2 y
  | .ite c x y => ∃ a1 b1 a2 b2 a3 b3, a < a1 ∧ b1 < a2 ∧ b2 < a3 ∧ b3 ≤ b ∧
      Spanned toks a1 b1 c ∧ Spanned toks a2 b2 x ∧ Spanned toks a3 b3 y
termination_by structural v
/-- An optional child (lambda domain, let annotation) inside `[lo, hi)`. -/
def SpannedOpt (toks : Array PTok) (lo hi : Nat) (o : OptSrc) : Prop :=
  match o with
  | .none => True
  | .some t => ∃ a' b', lo ≤ a' ∧ b' ≤ hi ∧ Spanned toks a' b' t
termination_by structural o
end

theorem Spanned.bounds {toks : Array PTok} {a b : Nat} {t : Src} (h : Spanned toks a b t) :
    a < b ∧ b ≤ toks.size := by
  obtain ⟨r, g, v, es⟩ := t
  unfold Spanned at h
  exact ⟨h.1, h.2.1⟩

theorem Spanned.range {toks : Array PTok} {a b : Nat} {t : Src} (h : Spanned toks a b t) :
    t.range = rng toks a b := by
  obtain ⟨r, g, v, es⟩ := t
  unfold Spanned at h
  exact h.2.2.1

theorem Spanned.kids {toks : Array PTok} {a b : Nat} {t : Src} (h : Spanned toks a b t) :
    Kids toks a b t.variant := by
  obtain ⟨r, g, v, es⟩ := t
  unfold Spanned at h
  exact h.2.2.2

theorem Spanned.mk {toks : Array PTok} {a b : Nat} {g : Bool} {v : SrcV} {es : List PErr}
    (h1 : a < b) (h2 : b ≤ toks.size) (h3 : Kids toks a b v) :
    Spanned toks a b (.mk (rng toks a b) g v es) := by
  unfold Spanned
  exact ⟨h1, h2, rfl, h3⟩

/-- The children part only gets weaker when the enclosing segment grows. -/
theorem Kids.mono {toks : Array PTok} {a b a' b' : Nat} {v : SrcV} (ha : a' ≤ a) (hb : b ≤ b')
    (h : Kids toks a b v) : Kids toks a' b' v := by
  cases v <;> unfold Kids at h ⊢ <;> try exact h
  case lam x imp dom body =>
    obtain ⟨i, m, a2, b2, h1, h2, h3, h4, h5⟩ := h
    exact ⟨i, m, a2, b2, by omega, h2, h3, by omega, h5⟩
  case pi x imp dom cod =>
    obtain ⟨a1, b1, a2, b2, h1, h2, h3, h4, h5, h6⟩ := h
    refine ⟨a1, b1, a2, b2, by omega, h2, by omega, h4, h5, ?_⟩
    rcases h6 with ⟨i, h7, h8⟩ | h6
    · exact Or.inl ⟨i, by omega, h8⟩
    · exact Or.inr h6
  case app f x =>
    obtain ⟨a1, b1, a2, b2, h1, h2, h3, h4⟩ := h
    exact ⟨a1, b1, a2, b2, by omega, h2, by omega, h4⟩
  case let_ x ann defn body =>
    obtain ⟨i, m, a2, b2, a3, b3, h1, h2, h3, h4, h5, h6⟩ := h
    exact ⟨i, m, a2, b2, a3, b3, by omega, h2, h3, h4, by omega, h6⟩
  case neg x =>
    obtain ⟨a1, b1, h1, h2, h3⟩ := h
    exact ⟨a1, b1, by omega, by omega, h3⟩
  case bin o x y =>
    obtain ⟨a1, b1, a2, b2, h1, h2, h3, h4⟩ := h
    exact ⟨a1, b1, a2, b2, by omega, h2, by omega, h4⟩
  case ite c x y =>
    obtain ⟨a1, b1, a2, b2, a3, b3, h1, h2, h3, h4, h5⟩ := h
    exact ⟨a1, b1, a2, b2, a3, b3, by omega, h2, h3, by omega, h5⟩

theorem KAt.lt {toks : Array PTok} {a : Nat} {k : PKind} (h : KAt toks a k) : a < toks.size := h.1

/-- A parse tree of a segment obeys the range discipline. -/
theorem SegT.spanned {toks : Array PTok} {A : NT} {a b : Nat} {t : Src} (h : SegT toks A a b t) :
    Spanned toks a b t := by
  induction h with
  | unit _ _ ih => exact ih
  | @leaf A k a hm hk =>
    refine Spanned.mk (by omega) hk.lt ?_
    simp only [leafProds, List.mem_cons, Prod.mk.injEq, List.not_mem_nil, or_false] at hm
    rcases hm with ⟨rfl, _⟩ | ⟨rfl, _⟩ | ⟨rfl, _⟩ | ⟨rfl, _⟩ | ⟨rfl, _⟩ <;> simp [leafV, Kids]
  | var hk => exact Spanned.mk (by omega) hk.lt (by simp [Kids])
  | lit hk => exact Spanned.mk (by omega) hk.lt (by simp [Kids])
  | @lambda x a b body h1 h2 _ ih =>
    have hb := ih.bounds
    refine Spanned.mk (by omega) hb.2 ?_
    unfold Kids
    exact ⟨a, a + 1, _, _, Nat.le_refl _, by omega, by omega, Nat.le_refl _, ⟨h1, rfl⟩,
      by simp [SpannedOpt], ih⟩
  | @lambdaImplicit x a b body h1 h2 h3 h4 _ ih =>
    have hb := ih.bounds
    refine Spanned.mk (by omega) hb.2 ?_
    unfold Kids
    exact ⟨a + 1, a + 1 + 1, _, _, by omega, by omega, by omega, Nat.le_refl _, ⟨h2, rfl⟩,
      by simp [SpannedOpt], ih⟩
  | @binder A o c ar x a b d dom body hm h1 h2 h3 _ h4 h5 _ ih1 ih2 =>
    have hb1 := ih1.bounds
    have hb2 := ih2.bounds
    refine Spanned.mk (by omega) hb2.2 ?_
    simp only [binderProds, List.mem_cons, Prod.mk.injEq, List.not_mem_nil, or_false] at hm
    rcases hm with ⟨rfl, _⟩ | ⟨rfl, _⟩ | ⟨rfl, _⟩ | ⟨rfl, _⟩ <;> simp only [binderV] <;> unfold Kids
    · exact ⟨a + 1, b, _, _, by omega, by omega, by omega, Nat.le_refl _, ⟨h2, rfl⟩,
        by unfold SpannedOpt; exact ⟨_, _, by omega, Nat.le_refl _, ih1⟩, ih2⟩
    · exact ⟨a + 1, b, _, _, by omega, by omega, by omega, Nat.le_refl _, ⟨h2, rfl⟩,
        by unfold SpannedOpt; exact ⟨_, _, by omega, Nat.le_refl _, ih1⟩, ih2⟩
    · exact ⟨_, _, _, _, by omega, by omega, Nat.le_refl _, ih1, ih2,
        Or.inl ⟨a + 1, by omega, by omega, ⟨h2, rfl⟩⟩⟩
    · exact ⟨_, _, _, _, by omega, by omega, Nat.le_refl _, ih1, ih2,
        Or.inl ⟨a + 1, by omega, by omega, ⟨h2, rfl⟩⟩⟩
  | nonDependentPi _ hk _ ih1 ih2 =>
    have hb1 := ih1.bounds
    have hb2 := ih2.bounds
    refine Spanned.mk (by omega) hb2.2 ?_
    unfold Kids
    exact ⟨_, _, _, _, Nat.le_refl _, by omega, Nat.le_refl _, ih1, ih2, Or.inr rfl⟩
  | application _ _ ih1 ih2 =>
    have hb1 := ih1.bounds
    have hb2 := ih2.bounds
    refine Spanned.mk (by omega) hb2.2 ?_
    unfold Kids
    exact ⟨_, _, _, _, Nat.le_refl _, Nat.le_refl _, Nat.le_refl _, ih1, ih2⟩
  | @letPlain x t a b c defn body h1 h2 _ h3 _ ih1 ih2 =>
    have hb1 := ih1.bounds
    have hb2 := ih2.bounds
    refine Spanned.mk (by omega) hb2.2 ?_
    unfold Kids
    exact ⟨a, a + 1, _, _, _, _, Nat.le_refl _, by omega, by omega, by omega, Nat.le_refl _,
      ⟨h1, rfl⟩, by simp [SpannedOpt], ih1, ih2⟩
  | @letAnn x t a b c d ann defn body h1 h2 _ h3 _ h4 _ ih1 ih2 ih3 =>
    have hb1 := ih1.bounds
    have hb2 := ih2.bounds
    have hb3 := ih3.bounds
    refine Spanned.mk (by omega) hb3.2 ?_
    unfold Kids
    exact ⟨a, b, _, _, _, _, Nat.le_refl _, by omega, by omega, by omega, Nat.le_refl _,
      ⟨h1, rfl⟩, by unfold SpannedOpt; exact ⟨_, _, by omega, Nat.le_refl _, ih1⟩, ih2, ih3⟩
  | negation h1 _ ih =>
    have hb := ih.bounds
    refine Spanned.mk (by omega) hb.2 ?_
    unfold Kids
    exact ⟨_, _, by omega, Nat.le_refl _, ih⟩
  | bin hm _ hk _ ih1 ih2 =>
    have hb1 := ih1.bounds
    have hb2 := ih2.bounds
    refine Spanned.mk (by omega) hb2.2 ?_
    unfold Kids
    exact ⟨_, _, _, _, Nat.le_refl _, by omega, Nat.le_refl _, ih1, ih2⟩
  | ite h1 _ h2 _ h3 _ ih1 ih2 ih3 =>
    have hb1 := ih1.bounds
    have hb2 := ih2.bounds
    have hb3 := ih3.bounds
    refine Spanned.mk (by omega) hb3.2 ?_
    unfold Kids
    exact ⟨_, _, _, _, _, _, by omega, by omega, by omega, Nat.le_refl _, ih1, ih2, ih3⟩
  | group h1 _ h2 ih =>
    have hb := ih.bounds
    refine Spanned.mk (by omega) h2.lt ?_
    exact ih.kids.mono (by omega) (by omega)

theorem SegT.range {toks : Array PTok} {A : NT} {a b : Nat} {t : Src} (h : SegT toks A a b t) :
    t.range = rng toks a b := h.spanned.range


/-! ## The invariant and its combinators (as in `ParserSound.lean`, with `SegT` for `Seg`) -/

/-- The invariant of the result of `parse_nt(…, start)`: `Good`, and a result without recorded
error is a parse tree of the consumed segment. -/
def InvT (toks : Array PTok) (nt : NT) (start : Nat) (r : PResult) : Prop :=
  Good r ∧ (collectErrors r.term = [] → SegT toks nt start r.next r.term)

/-- Every memoised result satisfies the invariant `I` of its key. -/
def CacheInvG (I : NT → Nat → PResult → Prop) (st : PState) : Prop :=
  ∀ (nt : NT) (s : Nat) (r : PResult), st.cache[(nt.idx, s)]? = some r → I nt s r

/-- Partial correctness w.r.t. the invariant `CacheInvG I`. -/
def GPres (I : NT → Nat → PResult → Prop) {α : Type} (m : ParseM α) (post : α → Prop) : Prop :=
  ∀ st a st', CacheInvG I st → m st = some (a, st') → CacheInvG I st' ∧ post a

/-- Every memoised result satisfies the invariant `InvT` of its key. -/
abbrev CacheInvT (toks : Array PTok) (st : PState) : Prop := CacheInvG (InvT toks) st

/-- Partial correctness w.r.t. the invariant `CacheInvT`. -/
abbrev TPres (toks : Array PTok) {α : Type} (m : ParseM α) (post : α → Prop) : Prop :=
  GPres (InvT toks) m post

theorem InvT.toInv {toks : Array PTok} {nt : NT} {start : Nat} {r : PResult}
    (h : InvT toks nt start r) : Inv toks nt start r := ⟨h.1, fun hc => (h.2 hc).toSeg⟩

section Comb
variable {toks : Array PTok} {I : NT → Nat → PResult → Prop} {α β : Type}

theorem GPres.pure {a : α} {post : α → Prop} (h : post a) :
    GPres I (Pure.pure a : ParseM α) post := by
  intro st b st' hI e
  have : (Pure.pure a : ParseM α) st = some (a, st) := rfl
  rw [this] at e
  simp only [Option.some.injEq, Prod.mk.injEq] at e
  rw [← e.1, ← e.2]; exact ⟨hI, h⟩

theorem GPres.bind {m : ParseM α} {f : α → ParseM β} {p : α → Prop} {q : β → Prop}
    (hm : GPres I m p) (hf : ∀ a, p a → GPres I (f a) q) : GPres I (m >>= f) q := by
  intro st b st' hI e
  rw [ParseM_bind_eq] at e
  cases h1 : m st with
  | none => simp [h1] at e
  | some p1 =>
    obtain ⟨a, s1⟩ := p1
    simp only [h1] at e
    obtain ⟨hI1, hp⟩ := hm st a s1 hI h1
    exact hf a hp s1 b st' hI1 e

theorem GPres.ite {c : Prop} [Decidable c] {m1 m2 : ParseM α} {p : α → Prop}
    (h1 : c → GPres I m1 p) (h2 : ¬c → GPres I m2 p) :
    GPres I (if c then m1 else m2) p := by
  split
  · exact h1 ‹_›
  · exact h2 ‹_›

theorem GPres.fail {post : α → Prop} : GPres I (fun _ => none : ParseM α) post := by
  intro st a st' _ e; simp at e

theorem GPres.mono {m : ParseM α} {p q : α → Prop} (h : GPres I m p)
    (hpq : ∀ a, p a → q a) : GPres I m q := by
  intro st a st' hI e
  obtain ⟨h1, h2⟩ := h st a st' hI e
  exact ⟨h1, hpq a h2⟩

variable {post : PResult → Prop}

theorem GPres.consume0 {next : Nat} {kind : PKind} {k : Nat → ParseM PResult}
    (hfail : post (failAt toks next)) (hk : KAt toks next kind → GPres I (k (next + 1)) post) :
    GPres I (consume0 toks next kind k) post := by
  unfold PModel.consume0
  split
  · split
    · exact hk ⟨‹_›, ‹_›⟩
    · exact GPres.pure hfail
  · exact GPres.pure hfail

theorem GPres.consumeIdent {next : Nat} {k : Name → Nat → ParseM PResult}
    (hfail : post (failAt toks next))
    (hk : ∀ x, KAt toks next (.identifier x) → GPres I (k x (next + 1)) post) :
    GPres I (consumeIdent toks next k) post := by
  unfold PModel.consumeIdent
  split
  · split
    · exact hk _ ⟨‹_›, ‹_›⟩
    · exact GPres.pure hfail
  · exact GPres.pure hfail

theorem GPres.consumeLiteral {next : Nat} {k : Nat → Nat → ParseM PResult}
    (hfail : post (failAt toks next))
    (hk : ∀ x, KAt toks next (.integerLiteral x) → GPres I (k x (next + 1)) post) :
    GPres I (consumeLiteral toks next k) post := by
  unfold PModel.consumeLiteral
  split
  · split
    · exact hk _ ⟨‹_›, ‹_›⟩
    · exact GPres.pure hfail
  · exact GPres.pure hfail

theorem GPres.tryReturn {p k : ParseM PResult} {pp : PResult → Prop} (hp : GPres I p pp)
    (hpp : ∀ r, pp r → post r) (hk : GPres I k post) :
    GPres I (tryReturn p k) post := by
  unfold PModel.tryReturn
  refine GPres.bind hp (fun r hr => ?_)
  exact GPres.ite (fun _ => hk) (fun _ => GPres.pure (hpp r hr))

theorem GPres.tryEval {p : ParseM PResult} {k : Src → Nat → Bool → ParseM PResult}
    {pp : PResult → Prop} (hp : GPres I p pp)
    (herr : ∀ r, pp r → r.term.isParseError = true → post r)
    (hk : ∀ r, pp r → r.term.isParseError = false → GPres I (k r.term r.next r.confident) post) :
    GPres I (tryEval p k) post := by
  unfold PModel.tryEval
  refine GPres.bind hp (fun r hr => ?_)
  cases h : r.term.isParseError
  · simp only [Bool.false_eq_true, if_false]; exact hk r hr h
  · simp only [if_true]; exact GPres.pure (herr r hr h)

theorem GPres.cacheCheck {nt : NT} {start : Nat} {body : ParseM PResult}
    (hb : GPres I body (I nt start)) :
    GPres I (cacheCheck nt start body) (I nt start) := by
  intro st r st' hI e
  cases hc : st.cache[(nt.idx, start)]? with
  | some r0 =>
    rw [cacheCheck_hit nt start body st r0 hc] at e
    simp only [Option.some.injEq, Prod.mk.injEq] at e
    rw [← e.1, ← e.2]
    exact ⟨hI, hI _ _ _ hc⟩
  | none =>
    rw [cacheCheck_miss nt start body st hc] at e
    cases hb1 : body { st with misses := st.misses.modify nt.idx (· + 1) } with
    | none => simp [hb1] at e
    | some p =>
      obtain ⟨r1, s1⟩ := p
      simp only [hb1, Option.some.injEq, Prod.mk.injEq] at e
      obtain ⟨hI1, hg⟩ := hb { st with misses := st.misses.modify nt.idx (· + 1) } _ _ hI hb1
      rw [← e.1, ← e.2]
      refine ⟨?_, hg⟩
      intro nt' s r' hr'
      simp only [Std.HashMap.getElem?_insert] at hr'
      split at hr'
      · rename_i heq
        simp only [beq_iff_eq, Prod.mk.injEq] at heq
        have := NT.idx_inj heq.1
        subst this
        cases hr'; rw [← heq.2]; exact hg
      · exact hI1 nt' s r' hr'

end Comb

theorem InvT.failAt (toks : Array PTok) (nt : NT) (start next : Nat) :
    InvT toks nt start (failAt toks next) :=
  ⟨Good.failAt toks next, fun h => by simp [PModel.failAt, errorTerm, collectErrors] at h⟩

theorem InvT.ofPE {toks : Array PTok} {nt : NT} {start : Nat} {r : PResult} (hg : Good r)
    (he : r.term.isParseError = true) : InvT toks nt start r :=
  ⟨hg, fun h => by have := (hg.2 h).not_isParseError; rw [he] at this; cases this⟩

theorem InvT.unit {toks : Array PTok} {A B : NT} {s : Nat} {r : PResult} (hm : (A, B) ∈ unitProds)
    (h : InvT toks B s r) : InvT toks A s r :=
  ⟨h.1, fun hce => SegT.unit hm (h.2 hce)⟩

section Bodies
variable {toks : Array PTok} {rec : NT → Nat → ParseM PResult}
  (hrec : ∀ nt pos, TPres toks (rec nt pos) (InvT toks nt pos))

theorem TPres.parseLeaf {nt : NT} {kind : PKind} {start : Nat}
    (hm : (nt, kind) ∈ leafProds)
    (hv : ∀ r, collectErrors (.mk r false (leafV nt) []) = [] ∧ NoPE (.mk r false (leafV nt) [])) :
    TPres toks (parseLeaf toks kind (leafV nt) start) (InvT toks nt start) := by
  unfold PModel.parseLeaf
  refine GPres.consume0 (InvT.failAt _ _ _ _) (fun hk => GPres.pure ⟨?_, fun _ => SegT.leaf hm hk⟩)
  have := hv (tokenRange toks start)
  simp [Good, this]

include hrec

theorem TPres.parseLambda {start : Nat} :
    TPres toks (parseLambda toks rec start) (InvT toks .lambda start) := by
  unfold PModel.parseLambda
  refine GPres.consumeIdent (InvT.failAt _ _ _ _) (fun x hx => ?_)
  refine GPres.consume0 (InvT.failAt _ _ _ _) (fun ha => ?_)
  refine GPres.bind (hrec _ _) ?_
  intro r2 hr2
  obtain ⟨t2, n2, c2⟩ := r2
  obtain ⟨hg2, hs2⟩ := hr2
  refine GPres.pure ⟨?_, ?_⟩
  · good_simp
    exact hg2
  · intro hce
    simp only [collectErrors, collectErrorsOpt, List.nil_append, List.append_nil] at hce
    have h2 := hs2 hce
    dsimp only at h2 ⊢
    rw [h2.range, span_tok_rng]
    exact SegT.lambda hx ha h2

theorem TPres.parseLambdaImplicit {start : Nat} :
    TPres toks (parseLambdaImplicit toks rec start) (InvT toks .lambdaImplicit start) := by
  unfold PModel.parseLambdaImplicit
  refine GPres.consume0 (InvT.failAt _ _ _ _) (fun h1 => ?_)
  refine GPres.consumeIdent (InvT.failAt _ _ _ _) (fun x h2 => ?_)
  refine GPres.consume0 (InvT.failAt _ _ _ _) (fun h3 => ?_)
  refine GPres.consume0 (InvT.failAt _ _ _ _) (fun h4 => ?_)
  refine GPres.bind (hrec _ _) ?_
  intro r2 hr2
  obtain ⟨t2, n2, c2⟩ := r2
  obtain ⟨hg2, hs2⟩ := hr2
  refine GPres.pure ⟨?_, ?_⟩
  · good_simp
    exact hg2
  · intro hce
    simp only [collectErrors, collectErrorsOpt, List.nil_append, List.append_nil] at hce
    have h5 := hs2 hce
    dsimp only at h5 ⊢
    rw [h5.range, span_tok_rng]
    exact SegT.lambdaImplicit h1 h2 h3 h4 h5

theorem TPres.parseBinary {nt left right : NT} {opTok : PKind} {start : Nat}
    (hm : (nt, left, opTok, right) ∈ binProds) :
    TPres toks (parseBinary toks rec left opTok right (binOpOf nt) start) (InvT toks nt start) := by
  unfold PModel.parseBinary
  refine GPres.tryEval (hrec _ _) (fun r hr he => InvT.ofPE hr.1 he) ?_
  intro r hr hne
  refine GPres.consume0 (InvT.failAt _ _ _ _) (fun hk => ?_)
  refine GPres.bind (hrec _ _) ?_
  intro r2 hr2
  obtain ⟨t2, n2, c2⟩ := r2
  obtain ⟨hg, hs⟩ := hr
  obtain ⟨hg2, hs2⟩ := hr2
  refine GPres.pure ⟨?_, ?_⟩
  · good_simp
    grind
  · intro hce
    simp only [collectErrors, List.append_nil, List.append_eq_nil_iff] at hce
    have h1 := hs hce.1
    have h2 := hs2 hce.2
    dsimp only at h2 ⊢
    rw [h1.range, h2.range, span_rng_rng]
    exact SegT.bin hm h1 hk h2

theorem TPres.parseBinder {nt : NT} {openK closeK arrowK : PKind}
    {start : Nat} (hm : (nt, openK, closeK, arrowK) ∈ binderProds)
    (hce : ∀ r g v d b es,
      collectErrors (.mk r g (binderV nt v d b) es) = collectErrors d ++ collectErrors b ++ es)
    (hnp : ∀ r g v d b es, NoPE (.mk r g (binderV nt v d b) es) ↔ NoPE d ∧ NoPE b) :
    TPres toks (parseBinder toks rec openK closeK arrowK (binderV nt) start) (InvT toks nt start) := by
  unfold PModel.parseBinder
  refine GPres.consume0 (InvT.failAt _ _ _ _) (fun h1 => ?_)
  refine GPres.consumeIdent (InvT.failAt _ _ _ _) (fun x h2 => ?_)
  refine GPres.consume0 (InvT.failAt _ _ _ _) (fun h3 => ?_)
  refine GPres.tryEval (hrec _ _) (fun r hr he => InvT.ofPE hr.1 he) ?_
  intro r hr hne
  refine GPres.consume0 (InvT.failAt _ _ _ _) (fun h4 => ?_)
  refine GPres.consume0 (InvT.failAt _ _ _ _) (fun h5 => ?_)
  refine GPres.bind (hrec _ _) ?_
  intro r2 hr2
  obtain ⟨t2, n2, c2⟩ := r2
  obtain ⟨hg, hs⟩ := hr
  obtain ⟨hg2, hs2⟩ := hr2
  refine GPres.pure ⟨?_, ?_⟩
  · simp only [Good, hce, hnp] at *
    good_simp
    grind
  · intro hc
    simp only [hce, List.append_nil, List.append_eq_nil_iff] at hc
    have s1 := hs hc.1
    have s2 := hs2 hc.2
    dsimp only at s2 ⊢
    rw [s2.range, span_tok_rng]
    exact SegT.binder hm h1 h2 h3 s1 h4 h5 s2

theorem TPres.parseNegation {start : Nat} :
    TPres toks (parseNegation toks rec start) (InvT toks .negation start) := by
  unfold PModel.parseNegation
  refine GPres.consume0 (InvT.failAt _ _ _ _) (fun h1 => ?_)
  refine GPres.bind (hrec _ _) ?_
  intro r2 hr2
  obtain ⟨t2, n2, c2⟩ := r2
  obtain ⟨hg2, hs2⟩ := hr2
  refine GPres.pure ⟨?_, ?_⟩
  · good_simp
    exact hg2
  · intro hce
    simp only [collectErrors, List.append_nil] at hce
    have h2 := hs2 hce
    dsimp only at h2 ⊢
    rw [h2.range, span_tok_rng]
    exact SegT.negation h1 h2

theorem TPres.parseNonDependentPi {start : Nat} :
    TPres toks (parseNonDependentPi toks rec start) (InvT toks .nonDependentPi start) := by
  unfold PModel.parseNonDependentPi
  refine GPres.tryEval (hrec _ _) (fun r hr he => InvT.ofPE hr.1 he) ?_
  intro r hr hne
  refine GPres.consume0 (InvT.failAt _ _ _ _) (fun hk => ?_)
  refine GPres.bind (hrec _ _) ?_
  intro r2 hr2
  obtain ⟨t2, n2, c2⟩ := r2
  obtain ⟨hg, hs⟩ := hr
  obtain ⟨hg2, hs2⟩ := hr2
  refine GPres.pure ⟨?_, ?_⟩
  · good_simp
    grind
  · intro hce
    simp only [collectErrors, List.append_nil, List.append_eq_nil_iff] at hce
    have h1 := hs hce.1
    have h2 := hs2 hce.2
    dsimp only at h2 ⊢
    rw [h1.range, h2.range, span_rng_rng]
    exact SegT.nonDependentPi h1 hk h2

theorem TPres.parseApplication {start : Nat} :
    TPres toks (parseApplication rec start) (InvT toks .application start) := by
  unfold PModel.parseApplication
  refine GPres.tryEval (hrec _ _) (fun r hr he => InvT.ofPE hr.1 he) ?_
  intro r hr hne
  refine GPres.tryEval (hrec _ _) (fun r hr he => InvT.ofPE hr.1 he) ?_
  intro r2 hr2 hne2
  obtain ⟨hg, hs⟩ := hr
  obtain ⟨hg2, hs2⟩ := hr2
  refine GPres.pure ⟨?_, ?_⟩
  · good_simp
    grind
  · intro hce
    simp only [collectErrors, List.append_nil, List.append_eq_nil_iff] at hce
    have h1 := hs hce.1
    have h2 := hs2 hce.2
    dsimp only at h2 ⊢
    rw [h1.range, h2.range, span_rng_rng]
    exact SegT.application h1 h2

theorem TPres.parseGroup {start : Nat} :
    TPres toks (parseGroup toks rec start) (InvT toks .group start) := by
  unfold PModel.parseGroup
  refine GPres.consume0 (InvT.failAt _ _ _ _) (fun h0 => ?_)
  refine GPres.tryEval (hrec _ _) (fun r hr he => InvT.ofPE hr.1 he) ?_
  intro r hr hne
  obtain ⟨hg, hs⟩ := hr
  have hc := expectToken_clean toks r.next (· = .rightParen) r.confident
  generalize expectToken toks r.next (· = .rightParen) r.confident = e at hc
  obtain ⟨errs, found, nx⟩ := e
  dsimp only at hc ⊢
  refine GPres.pure ?_
  obtain ⟨X, hX1, hX2⟩ := collectErrors_mk_variant r.term
    (span (tokenRange toks start) (tokenRange toks (nx - 1))) true
    (if (!found) = true then (if found = true then r.term.errors ++ errs else r.term.errors) ++
      [neverClosed toks start nx] else if found = true then r.term.errors ++ errs else r.term.errors)
  refine ⟨?_, ?_⟩
  · unfold Good at hg ⊢
    dsimp only
    rw [hX2, NoPE_mk_variant]
    rw [hX1] at hg
    clear hc hs
    cases found <;> simp at hg ⊢ <;> grind
  · dsimp only
    rw [hX2]
    intro hce
    cases found
    · simp at hce
    · simp at hce
      have hne : collectErrors r.term = [] := by rw [hX1]; simp [hce]
      obtain ⟨hlt, ht, _, hnx⟩ := hc (hg.confident hne) hce.2.2
      subst hnx
      simp only [hce.2.1, hce.2.2, Bool.not_true, Bool.false_eq_true, if_false, if_true,
        List.append_nil, span_tok_tok]
      exact SegT.group h0 (hs hne) ⟨hlt, by simpa using ht⟩

theorem TPres.optTerm {next : Nat} {found : Bool} {jp : PResult → ParseM PResult}
    {post : PResult → Prop}
    (hk : ∀ r, (found = true → InvT toks .term next r) → (found = false → r.confident = false) →
      TPres toks (jp r) post) :
    TPres toks (if found = true then rec .term next >>= jp
          else (Pure.pure ⟨skippedTerm toks next, next, false⟩ : ParseM PResult) >>= jp) post := by
  refine GPres.ite (fun hf => GPres.bind (hrec _ _) (fun r hr => hk r (fun _ => hr) ?_))
    (fun hf => GPres.bind (GPres.pure rfl) (fun r hr => hk r ?_ ?_))
  · intro h; rw [hf] at h; cases h
  · intro h; exact absurd h hf
  · intro _; rw [← hr]

theorem TPres.parseIf {start : Nat} :
    TPres toks (parseIf toks rec start) (InvT toks .if_ start) := by
  unfold PModel.parseIf
  refine GPres.consume0 (InvT.failAt _ _ _ _) (fun h0 => ?_)
  refine GPres.bind (hrec _ _) ?_
  intro r1 hr1
  obtain ⟨t1, n1, c1⟩ := r1
  obtain ⟨hg1, hs1⟩ := hr1
  dsimp only at hs1 ⊢
  have he1 := expectToken_errs' toks n1 (· = .then_) c1
  have hc1 := expectToken_clean toks n1 (· = .then_) c1
  generalize expectToken toks n1 (· = .then_) c1 = e at he1 hc1
  obtain ⟨errs, found, nx⟩ := e
  dsimp only at he1 hc1 ⊢
  refine TPres.optTerm hrec ?_
  intro r2 hr2 hr2'
  obtain ⟨t2, n2, c2⟩ := r2
  have hg2 : found = true → Good ⟨t2, n2, c2⟩ := fun h => (hr2 h).1
  have hs2 : found = true → collectErrors t2 = [] → SegT toks .term nx n2 t2 := fun h => (hr2 h).2
  clear hr2
  dsimp only at hr2' ⊢
  have he2 := expectToken_errs' toks n2 (· = .else_) c2
  have hc2 := expectToken_clean toks n2 (· = .else_) c2
  generalize expectToken toks n2 (· = .else_) c2 = e2 at he2 hc2
  obtain ⟨errs2, found2, nx2⟩ := e2
  dsimp only at he2 hc2 ⊢
  refine TPres.optTerm hrec ?_
  intro r3 hr3 hr3'
  obtain ⟨t3, n3, c3⟩ := r3
  have hg3 : found2 = true → Good ⟨t3, n3, c3⟩ := fun h => (hr3 h).1
  have hs3 : found2 = true → collectErrors t3 = [] → SegT toks .term nx2 n3 t3 :=
    fun h => (hr3 h).2
  clear hr3
  refine GPres.pure ⟨?_, ?_⟩
  · clear hs1 hs2 hs3 hc1 hc2
    good_simp
    grind
  · intro hce
    simp only [collectErrors, List.append_eq_nil_iff] at hce
    obtain ⟨⟨⟨e1, e2⟩, e3⟩, e4, e5⟩ := hce
    obtain ⟨hlt1, ht1, hf1, hn1⟩ := hc1 (hg1.confident e1) e4
    subst hn1
    obtain ⟨hlt2, ht2, hf2, hn2⟩ := hc2 ((hg2 hf1).confident e2) e5
    subst hn2
    have s3 := hs3 hf2 e3
    dsimp only
    rw [e4, e5, s3.range, span_tok_rng]
    exact SegT.ite h0 (hs1 e1) ⟨hlt1, by simpa using ht1⟩ (hs2 hf1 e2) ⟨hlt2, by simpa using ht2⟩ s3

/-- What `parseLetRest` returns. -/
def LetRestPostT (toks : Array PTok) (vr : SourceRange) (x : Name) (ann : OptSrc)
    (errors : List PErr) (ef : Bool) (next : Nat) (r : PResult) : Prop :=
  Good r ∧ (collectErrors r.term = [] → ef = true ∧ errors = [] ∧ collectErrorsOpt ann = [] ∧
    ∃ b t defn body, SegT toks .term next b defn ∧ KAt toks b (.terminator t) ∧
      SegT toks .term (b + 1) r.next body ∧
      r.term = .mk (span vr body.range) false (.let_ ⟨vr, x⟩ ann defn body) [])

theorem TPres.parseLetRest {next : Nat} {vr : SourceRange} {x : Name} {ann : OptSrc}
    {errors : List PErr} {ef : Bool}
    (h1 : ef = false → errors ≠ [] ∨ collectErrorsOpt ann ≠ [])
    (h2 : collectErrorsOpt ann = [] → NoPEOpt ann) :
    TPres toks (parseLetRest toks rec vr x ann next errors ef)
      (LetRestPostT toks vr x ann errors ef next) := by
  unfold PModel.parseLetRest
  refine TPres.optTerm hrec ?_
  intro r2 hr2 hr2'
  obtain ⟨t2, n2, c2⟩ := r2
  have hg2 : ef = true → Good ⟨t2, n2, c2⟩ := fun h => (hr2 h).1
  have hs2 : ef = true → collectErrors t2 = [] → SegT toks .term next n2 t2 := fun h => (hr2 h).2
  clear hr2
  dsimp only at hr2' ⊢
  have he2 := expectToken_errs' toks n2 PKind.isTerminator c2
  have hc2 := expectToken_clean toks n2 PKind.isTerminator c2
  generalize expectToken toks n2 PKind.isTerminator c2 = e2 at he2 hc2
  obtain ⟨errs2, found2, nx2⟩ := e2
  dsimp only at he2 hc2 ⊢
  refine TPres.optTerm hrec ?_
  intro r3 hr3 hr3'
  obtain ⟨t3, n3, c3⟩ := r3
  have hg3 : found2 = true → Good ⟨t3, n3, c3⟩ := fun h => (hr3 h).1
  have hs3 : found2 = true → collectErrors t3 = [] → SegT toks .term nx2 n3 t3 :=
    fun h => (hr3 h).2
  clear hr3
  refine GPres.pure ⟨?_, ?_⟩
  · clear hs2 hs3 hc2
    good_simp
    grind
  · intro hce
    simp only [collectErrors, List.append_eq_nil_iff] at hce
    obtain ⟨⟨⟨e1, e2⟩, e3⟩, e4, e5⟩ := hce
    have hef : ef = true := by
      cases hef : ef
      · rcases h1 hef with h | h
        · exact absurd e4 h
        · exact absurd e1 h
      · rfl
    obtain ⟨hlt2, ht2, hf2, hn2⟩ := hc2 ((hg2 hef).confident e2) e5
    subst hn2
    obtain ⟨t, ht⟩ := isTerminator_eq ht2
    refine ⟨hef, e4, e1, n2, t, t2, t3, hs2 hef e2, ⟨hlt2, ht⟩, hs3 hf2 e3, ?_⟩
    dsimp only
    rw [e4, e5]
    rfl

theorem TPres.parseLet {start : Nat} :
    TPres toks (parseLet toks rec start) (InvT toks .let_ start) := by
  rw [parseLet_eq]
  refine GPres.consumeIdent (InvT.failAt _ _ _ _) (fun x hx => ?_)
  split
  · split
    · refine GPres.consume0 (InvT.failAt _ _ _ _) (fun hcol => ?_)
      refine GPres.tryEval (hrec _ _) (fun r hr he => InvT.ofPE hr.1 he) ?_
      intro r hr hne
      obtain ⟨hg, hs⟩ := hr
      have he := expectToken_errs' toks r.next (· = .equals) r.confident
      have hc := expectToken_clean toks r.next (· = .equals) r.confident
      refine GPres.mono (TPres.parseLetRest hrec ?_ ?_) ?_
      · intro hf
        by_cases hcf : r.confident = true
        · exact Or.inl (he hcf hf)
        · exact Or.inr (hg.1 (by simpa using hcf))
      · exact hg.2
      · intro r' ⟨hg', hs'⟩
        refine ⟨hg', fun hce => ?_⟩
        obtain ⟨_, e1, e2, b, t, defn, body, s1, ht, s2, hterm⟩ := hs' hce
        simp only [collectErrorsOpt] at e2
        obtain ⟨hlt, hte, _, hn⟩ := hc (hg.confident e2) e1
        rw [hn] at s1
        rw [hterm, s2.range, span_tok_rng]
        exact SegT.letAnn hx hcol (hs e2) ⟨hlt, by simpa using hte⟩ s1 ht s2
    · refine GPres.consume0 (InvT.failAt _ _ _ _) (fun heq => ?_)
      refine GPres.mono (TPres.parseLetRest hrec (by simp) (by simp [NoPEOpt])) ?_
      intro r' ⟨hg', hs'⟩
      refine ⟨hg', fun hce => ?_⟩
      obtain ⟨_, _, _, b, t, defn, body, s1, ht, s2, hterm⟩ := hs' hce
      rw [hterm, s2.range, span_tok_rng]
      exact SegT.letPlain hx heq s1 ht s2
  · refine GPres.consume0 (InvT.failAt _ _ _ _) (fun heq => ?_)
    refine GPres.mono (TPres.parseLetRest hrec (by simp) (by simp [NoPEOpt])) ?_
    intro r' ⟨hg', hs'⟩
    refine ⟨hg', fun hce => ?_⟩
    obtain ⟨_, _, _, b, t, defn, body, s1, ht, s2, hterm⟩ := hs' hce
    rw [hterm, s2.range, span_tok_rng]
    exact SegT.letPlain hx heq s1 ht s2

end Bodies

macro "talt_tac" hrec:ident : tactic => `(tactic|
  repeat (first
    | exact GPres.pure (InvT.failAt _ _ _ _)
    | refine GPres.tryReturn ($hrec _ _) (fun r hr => InvT.unit (by decide) hr) ?_))

theorem TPres.parseBody {toks : Array PTok} {rec : NT → Nat → ParseM PResult}
    (hrec : ∀ nt pos, TPres toks (rec nt pos) (InvT toks nt pos)) (nt : NT) (start : Nat) :
    TPres toks (parseBody toks rec nt start) (InvT toks nt start) := by
  cases nt <;> simp only [PModel.parseBody]
  case term => unfold parseTerm noParse; talt_tac hrec
  case type =>
    exact TPres.parseLeaf (nt := .type) (by decide) (by simp [leafV, collectErrors, NoPE])
  case «variable» =>
    unfold parseVariable
    refine GPres.consumeIdent (InvT.failAt _ _ _ _)
      (fun x hx => GPres.pure ⟨?_, fun _ => SegT.var hx⟩)
    simp [Good, collectErrors, NoPE]
  case lambda => exact TPres.parseLambda hrec
  case lambdaImplicit => exact TPres.parseLambdaImplicit hrec
  case annotatedLambda =>
    exact TPres.parseBinder (nt := .annotatedLambda) hrec (by decide)
      (by simp [binderV, collectErrors, collectErrorsOpt]) (by simp [binderV, NoPE, NoPEOpt])
  case annotatedLambdaImplicit =>
    exact TPres.parseBinder (nt := .annotatedLambdaImplicit) hrec (by decide)
      (by simp [binderV, collectErrors, collectErrorsOpt]) (by simp [binderV, NoPE, NoPEOpt])
  case pi =>
    exact TPres.parseBinder (nt := .pi) hrec (by decide) (by simp [binderV, collectErrors])
      (by simp [binderV, NoPE])
  case piImplicit =>
    exact TPres.parseBinder (nt := .piImplicit) hrec (by decide) (by simp [binderV, collectErrors])
      (by simp [binderV, NoPE])
  case nonDependentPi => exact TPres.parseNonDependentPi hrec
  case application => exact TPres.parseApplication hrec
  case let_ => exact TPres.parseLet hrec
  case integer =>
    exact TPres.parseLeaf (nt := .integer) (by decide) (by simp [leafV, collectErrors, NoPE])
  case integerLiteral =>
    unfold parseIntegerLiteral
    refine GPres.consumeLiteral (InvT.failAt _ _ _ _)
      (fun x hx => GPres.pure ⟨?_, fun _ => SegT.lit hx⟩)
    simp [Good, collectErrors, NoPE]
  case negation => exact TPres.parseNegation hrec
  case sum => exact TPres.parseBinary (nt := .sum) hrec (by decide)
  case difference => exact TPres.parseBinary (nt := .difference) hrec (by decide)
  case product => exact TPres.parseBinary (nt := .product) hrec (by decide)
  case quotient => exact TPres.parseBinary (nt := .quotient) hrec (by decide)
  case lessThan => exact TPres.parseBinary (nt := .lessThan) hrec (by decide)
  case lessThanOrEqualTo => exact TPres.parseBinary (nt := .lessThanOrEqualTo) hrec (by decide)
  case equalTo => exact TPres.parseBinary (nt := .equalTo) hrec (by decide)
  case greaterThan => exact TPres.parseBinary (nt := .greaterThan) hrec (by decide)
  case greaterThanOrEqualTo =>
    exact TPres.parseBinary (nt := .greaterThanOrEqualTo) hrec (by decide)
  case boolean =>
    exact TPres.parseLeaf (nt := .boolean) (by decide) (by simp [leafV, collectErrors, NoPE])
  case true_ =>
    exact TPres.parseLeaf (nt := .true_) (by decide) (by simp [leafV, collectErrors, NoPE])
  case false_ =>
    exact TPres.parseLeaf (nt := .false_) (by decide) (by simp [leafV, collectErrors, NoPE])
  case if_ => exact TPres.parseIf hrec
  case group => exact TPres.parseGroup hrec
  case atom => unfold parseAtom noParse; talt_tac hrec
  case smallTerm => unfold parseSmallTerm noParse; talt_tac hrec
  case mediumTerm => unfold parseMediumTerm noParse; talt_tac hrec
  case largeTerm => unfold parseLargeTerm noParse; talt_tac hrec
  case hugeTerm => unfold parseHugeTerm noParse; talt_tac hrec
  case giantTerm => unfold parseGiantTerm noParse; talt_tac hrec
  case jumboTerm => unfold parseJumboTerm noParse; talt_tac hrec

theorem TPres.parseNT (toks : Array PTok) : ∀ (fuel : Nat) (nt : NT) (start : Nat),
    TPres toks (parseNT toks fuel nt start) (InvT toks nt start)
  | 0, _, _ => by unfold PModel.parseNT; exact GPres.fail
  | fuel + 1, nt, start => by
      unfold PModel.parseNT
      exact GPres.cacheCheck (TPres.parseBody (fun nt pos => TPres.parseNT toks fuel nt pos) nt start)

theorem CacheInvT.init (toks : Array PTok) : CacheInvT toks PState.init := by
  intro nt s r h
  simp [PState.init] at h

/-- **Span exactness of the packrat functions**: from any memo table that satisfies the invariant
(in particular the empty one), any parsing function started anywhere with any fuel returns — if the
tree carries no recorded error — the parse tree of the segment it consumed, and leaves a memo table
that satisfies the invariant. -/
theorem parse_spans {toks : Array PTok} {fuel : Nat} {nt : NT} {start : Nat} {r : PResult}
    {st st' : PState} (hI : CacheInvT toks st) (h : parseNT toks fuel nt start st = some (r, st'))
    (hce : collectErrors r.term = []) :
    SegT toks nt start r.next r.term ∧ CacheInvT toks st' := by
  obtain ⟨h1, h2⟩ := TPres.parseNT toks fuel nt start st r st' hI h
  exact ⟨h2.2 hce, h1⟩


/-- From the empty memo table (`parse` calls `parse_term(&mut cache, tokens, 0)`). -/
theorem runParser_spans {toks : Array PTok} {r : PResult} {st : PState}
    (h : runParser toks = some (r, st)) (hce : collectErrors r.term = []) :
    SegT toks .term 0 r.next r.term :=
  (parse_spans (CacheInvT.init toks) h hce).1

/-- The root's range starts at the first token's start and ends at the last consumed token's
stop. -/
theorem parse_root_range {toks : Array PTok} {fuel : Nat} {nt : NT} {start : Nat} {r : PResult}
    {st st' : PState} (hI : CacheInvT toks st) (h : parseNT toks fuel nt start st = some (r, st'))
    (hce : collectErrors r.term = []) :
    ∃ (h1 : start < toks.size) (h2 : r.next - 1 < toks.size), start < r.next ∧ r.next ≤ toks.size ∧
      r.term.range.start = toks[start].range.start ∧
      r.term.range.stop = toks[r.next - 1].range.stop := by
  have hs := (parse_spans hI h hce).1.spanned
  obtain ⟨hb1, hb2⟩ := hs.bounds
  refine ⟨by omega, by omega, hb1, hb2, ?_, ?_⟩
  · rw [hs.range, rng_eq hb1 hb2]
  · rw [hs.range, rng_eq hb1 hb2]

/-! ## Byte level: nesting, non-emptiness, sibling order -/

/-- Token ranges are non-empty and in source order (what the tokenizer guarantees:
`C09_ordered_disjoint`). -/
def TokensOrdered (toks : Array PTok) : Prop :=
  (∀ i (h : i < toks.size), toks[i].range.start < toks[i].range.stop) ∧
  (∀ i (h : i + 1 < toks.size), toks[i].range.stop ≤ toks[i + 1].range.start)

mutual
/-- Byte-level discipline of the ranges in a tree: every node's range is non-empty; the binder
variable (if any) and the children lie inside the node's range, pairwise disjoint and in source
(= field) order; recursively. -/
def Nested (t : Src) : Prop :=
  match t with
  | .mk r _ v _ => r.start < r.stop ∧ NestedV r v
termination_by structural t
def NestedV (r : SourceRange) (v : SrcV) : Prop :=
  match v with
  | .parseError => False
  | .type | .var _ | .int | .lit _ | .bool | .tt | .ff => True
  | .lam x _ dom body => r.start ≤ x.range.start ∧ x.range.start < x.range.stop ∧
      NestedOpt x.range.stop body.range.start dom ∧ x.range.stop ≤ body.range.start ∧
      body.range.stop ≤ r.stop ∧ Nested body
  | .pi x _ dom cod => r.start ≤ x.range.start ∧ x.range.start ≤ x.range.stop ∧
      x.range.stop ≤ dom.range.start ∧ dom.range.stop ≤ cod.range.start ∧
      cod.range.stop ≤ r.stop ∧ Nested dom ∧ Nested cod
  | .app f x => r.start ≤ f.range.start ∧ f.range.stop ≤ x.range.start ∧ x.range.stop ≤ r.stop ∧
      Nested f ∧ Nested x
  | .let_ x ann defn body => r.start ≤ x.range.start ∧ x.range.start < x.range.stop ∧
      NestedOpt x.range.stop defn.range.start ann ∧ x.range.stop ≤ defn.range.start ∧
      defn.range.stop ≤ body.range.start ∧ body.range.stop ≤ r.stop ∧ Nested defn ∧ Nested body
  | .neg x => r.start < x.range.start ∧ x.range.stop ≤ r.stop ∧ Nested x
  | .bin _ x y => r.start ≤ x.range.start ∧ x.range.stop < y.range.start ∧ y.range.stop ≤ r.stop ∧
      Nested x ∧ Nested y
  | .ite c x y => r.start < c.range.start ∧ c.range.stop < x.range.start ∧
      x.range.stop < y.range.start ∧ y.range.stop ≤ r.stop ∧ Nested c ∧ Nested x ∧ Nested y
termination_by structural v
def NestedOpt (lo hi : Nat) (o : OptSrc) : Prop :=
  match o with
  | .none => True
  | .some t => lo ≤ t.range.start ∧ t.range.stop ≤ hi ∧ Nested t
termination_by structural o
end

section Ordered
variable {toks : Array PTok} (ho : TokensOrdered toks)
include ho

theorem TokensOrdered.lt {i : Nat} (hi : i < toks.size) :
    (tokenRange toks i).start < (tokenRange toks i).stop := by
  rw [tokenRange_lt hi]; exact ho.1 i hi

theorem TokensOrdered.stop_le_start : ∀ {i j : Nat}, i < j → j < toks.size →
    (tokenRange toks i).stop ≤ (tokenRange toks j).start
  | i, 0, h, _ => by omega
  | i, j + 1, h, hj => by
    have hstep : (tokenRange toks j).stop ≤ (tokenRange toks (j + 1)).start := by
      rw [tokenRange_lt hj, tokenRange_lt (show j < toks.size by omega)]; exact ho.2 j hj
    by_cases hij : i = j
    · subst hij; exact hstep
    · have ih := TokensOrdered.stop_le_start (i := i) (j := j) (by omega) (by omega)
      have := ho.lt (show j < toks.size by omega)
      omega

theorem TokensOrdered.start_mono {i j : Nat} (h : i ≤ j) (hj : j < toks.size) :
    (tokenRange toks i).start ≤ (tokenRange toks j).start := by
  by_cases hij : i = j
  · subst hij; exact Nat.le_refl _
  · have := ho.stop_le_start (show i < j by omega) hj
    have := ho.lt (show i < toks.size by omega)
    omega

theorem TokensOrdered.stop_mono {i j : Nat} (h : i ≤ j) (hj : j < toks.size) :
    (tokenRange toks i).stop ≤ (tokenRange toks j).stop := by
  by_cases hij : i = j
  · subst hij; exact Nat.le_refl _
  · have := ho.stop_le_start (show i < j by omega) hj
    have := ho.lt hj
    omega

theorem TokensOrdered.rng_lt {a b : Nat} (h1 : a < b) (h2 : b ≤ toks.size) :
    (rng toks a b).start < (rng toks a b).stop := by
  have h3 := ho.start_mono (show a ≤ b - 1 by omega) (by omega)
  have h4 := ho.lt (show b - 1 < toks.size by omega)
  show (tokenRange toks a).start < (tokenRange toks (b - 1)).stop
  omega

theorem TokensOrdered.rng_start_le {a a' : Nat} (b b' : Nat) (h1 : a ≤ a') (h2 : a' < toks.size) :
    (rng toks a b).start ≤ (rng toks a' b').start := ho.start_mono h1 h2

theorem TokensOrdered.rng_start_lt {a a' : Nat} (b b' : Nat) (h1 : a < a') (h2 : a' < toks.size) :
    (rng toks a b).start < (rng toks a' b').start := by
  have h3 := ho.stop_le_start h1 h2
  have h4 := ho.lt (show a < toks.size by omega)
  show (tokenRange toks a).start < (tokenRange toks a').start
  omega

theorem TokensOrdered.rng_stop_le (a a' : Nat) {b b' : Nat} (h1 : b' ≤ b) (h0 : 0 < b')
    (h2 : b ≤ toks.size) : (rng toks a' b').stop ≤ (rng toks a b).stop :=
  ho.stop_mono (show b' - 1 ≤ b - 1 by omega) (by omega)

theorem TokensOrdered.rng_before (a b' : Nat) {b a' : Nat} (h1 : b ≤ a') (h0 : 0 < b)
    (h2 : a' < toks.size) : (rng toks a b).stop ≤ (rng toks a' b').start :=
  ho.stop_le_start (show b - 1 < a' by omega) h2

theorem TokensOrdered.rng_before_lt (a b' : Nat) {b a' : Nat} (h1 : b < a') (h0 : 0 < b)
    (h2 : a' < toks.size) : (rng toks a b).stop < (rng toks a' b').start := by
  have h3 := ho.stop_le_start (show b - 1 < b by omega) (show b < toks.size by omega)
  have h4 := ho.rng_start_lt (b + 1) b' h1 h2
  have h5 : (rng toks b (b + 1)).start = (tokenRange toks b).start := rfl
  show (tokenRange toks (b - 1)).stop < (rng toks a' b').start
  omega

mutual
theorem Spanned.nested : ∀ (t : Src) (a b : Nat), Spanned toks a b t → Nested t
  | .mk r g v es, a, b, h => by
    unfold Spanned at h
    obtain ⟨h1, h2, h3, h4⟩ := h
    subst h3
    unfold Nested
    exact ⟨ho.rng_lt h1 h2, Kids.nested v a b h1 h2 h4⟩
theorem Kids.nested : ∀ (v : SrcV) (a b : Nat), a < b → b ≤ toks.size → Kids toks a b v →
    NestedV (rng toks a b) v
  | .parseError, a, b, _, _, h => by unfold Kids at h; exact h.elim
  | .type, a, b, _, _, _ => by unfold NestedV; trivial
  | .var _, a, b, _, _, _ => by unfold NestedV; trivial
  | .int, a, b, _, _, _ => by unfold NestedV; trivial
  | .lit _, a, b, _, _, _ => by unfold NestedV; trivial
  | .bool, a, b, _, _, _ => by unfold NestedV; trivial
  | .tt, a, b, _, _, _ => by unfold NestedV; trivial
  | .ff, a, b, _, _, _ => by unfold NestedV; trivial
  | .lam x imp dom body, a, b, hab, hb, h => by
    unfold Kids at h
    obtain ⟨i, m, a2, b2, h1, h2, h3, h4, ⟨hk, hx⟩, hd, hbody⟩ := h
    have hbb := hbody.bounds
    have hxr : x.range = rng toks i (i + 1) := hx
    unfold NestedV
    rw [hxr, hbody.range]
    exact ⟨ho.rng_start_le _ _ h1 (by omega), ho.rng_lt (by omega) (by omega),
      SpannedOpt.nested dom _ _ hd i a2 (by omega) h3 (by omega),
      ho.rng_before _ _ (by omega) (by omega) (by omega),
      ho.rng_stop_le _ _ h4 (by omega) hb, Spanned.nested body _ _ hbody⟩
  | .pi x imp dom cod, a, b, hab, hb, h => by
    unfold Kids at h
    obtain ⟨a1, b1, a2, b2, h1, h2, h3, hdom, hcod, hx⟩ := h
    have hb1 := hdom.bounds
    have hb2 := hcod.bounds
    unfold NestedV
    rw [hdom.range, hcod.range]
    refine ⟨?_, ?_, ?_, ho.rng_before _ _ h2 (by omega) (by omega),
      ho.rng_stop_le _ _ h3 (by omega) hb, Spanned.nested dom _ _ hdom, Spanned.nested cod _ _ hcod⟩
    · rcases hx with ⟨i, h4, h5, _, hx⟩ | hx
      · rw [show x.range = rng toks i (i + 1) from hx]
        exact ho.rng_start_le _ _ h4 (by omega)
      · rw [hx]; exact ho.rng_start_le _ (a1 + 1) h1 (by omega)
    · rcases hx with ⟨i, h4, h5, _, hx⟩ | hx
      · rw [show x.range = rng toks i (i + 1) from hx]
        exact Nat.le_of_lt (ho.rng_lt (by omega) (by omega))
      · rw [hx]; exact Nat.le_refl _
    · rcases hx with ⟨i, h4, h5, _, hx⟩ | hx
      · rw [show x.range = rng toks i (i + 1) from hx]
        exact ho.rng_before _ _ (by omega) (by omega) (by omega)
      · rw [hx]; exact Nat.le_refl _
  | .app f x, a, b, hab, hb, h => by
    unfold Kids at h
    obtain ⟨a1, b1, a2, b2, h1, h2, h3, hf, hx⟩ := h
    have hb1 := hf.bounds
    have hb2 := hx.bounds
    unfold NestedV
    rw [hf.range, hx.range]
    exact ⟨ho.rng_start_le _ _ h1 (by omega), ho.rng_before _ _ h2 (by omega) (by omega),
      ho.rng_stop_le _ _ h3 (by omega) hb, Spanned.nested f _ _ hf, Spanned.nested x _ _ hx⟩
  | .let_ x ann defn body, a, b, hab, hb, h => by
    unfold Kids at h
    obtain ⟨i, m, a2, b2, a3, b3, h1, h2, h3, h4, h5, ⟨hk, hx⟩, hann, hdefn, hbody⟩ := h
    have hb2 := hdefn.bounds
    have hb3 := hbody.bounds
    have hxr : x.range = rng toks i (i + 1) := hx
    unfold NestedV
    rw [hxr, hdefn.range, hbody.range]
    exact ⟨ho.rng_start_le _ _ h1 (by omega), ho.rng_lt (by omega) (by omega),
      SpannedOpt.nested ann _ _ hann i a2 (by omega) h3 (by omega),
      ho.rng_before _ _ (by omega) (by omega) (by omega),
      ho.rng_before _ _ h4 (by omega) (by omega),
      ho.rng_stop_le _ _ h5 (by omega) hb, Spanned.nested defn _ _ hdefn,
      Spanned.nested body _ _ hbody⟩
  | .neg x, a, b, hab, hb, h => by
    unfold Kids at h
    obtain ⟨a1, b1, h1, h2, hx⟩ := h
    have hb1 := hx.bounds
    unfold NestedV
    rw [hx.range]
    exact ⟨ho.rng_start_lt _ _ h1 (by omega), ho.rng_stop_le _ _ h2 (by omega) hb,
      Spanned.nested x _ _ hx⟩
  | .bin o x y, a, b, hab, hb, h => by
    unfold Kids at h
    obtain ⟨a1, b1, a2, b2, h1, h2, h3, hx, hy⟩ := h
    have hb1 := hx.bounds
    have hb2 := hy.bounds
    unfold NestedV
    rw [hx.range, hy.range]
    exact ⟨ho.rng_start_le _ _ h1 (by omega), ho.rng_before_lt _ _ h2 (by omega) (by omega),
      ho.rng_stop_le _ _ h3 (by omega) hb, Spanned.nested x _ _ hx, Spanned.nested y _ _ hy⟩
  | .ite c x y, a, b, hab, hb, h => by
    unfold Kids at h
    obtain ⟨a1, b1, a2, b2, a3, b3, h1, h2, h3, h4, hc, hx, hy⟩ := h
    have hb1 := hc.bounds
    have hb2 := hx.bounds
    have hb3 := hy.bounds
    unfold NestedV
    rw [hc.range, hx.range, hy.range]
    exact ⟨ho.rng_start_lt _ _ h1 (by omega), ho.rng_before_lt _ _ h2 (by omega) (by omega),
      ho.rng_before_lt _ _ h3 (by omega) (by omega), ho.rng_stop_le _ _ h4 (by omega) hb,
      Spanned.nested c _ _ hc, Spanned.nested x _ _ hx, Spanned.nested y _ _ hy⟩
theorem SpannedOpt.nested : ∀ (o : OptSrc) (lo hi : Nat), SpannedOpt toks lo hi o →
    ∀ i j, i < lo → hi ≤ j → j < toks.size →
      NestedOpt (rng toks i (i + 1)).stop (rng toks j (j + 1)).start o
  | .none, lo, hi, _, i, j, _, _, _ => by unfold NestedOpt; trivial
  | .some t, lo, hi, h, i, j, h1, h2, h3 => by
    unfold SpannedOpt at h
    obtain ⟨a', b', h4, h5, ht⟩ := h
    have hb := ht.bounds
    unfold NestedOpt
    rw [ht.range]
    exact ⟨ho.rng_before _ _ (by omega) (by omega) (by omega),
      ho.rng_before _ _ (by omega) (by omega) h3, Spanned.nested t _ _ ht⟩
end

end Ordered

/-- Every descendant's range lies within its parent's range, is non-empty, and siblings' ranges
are disjoint and in source order: token-level (`Spanned`) for every token array, byte-level
(`Nested`) when the token ranges themselves are non-empty and ordered. -/
theorem parse_ranges_nested {toks : Array PTok} {fuel : Nat} {nt : NT} {start : Nat} {r : PResult}
    {st st' : PState} (hI : CacheInvT toks st) (h : parseNT toks fuel nt start st = some (r, st'))
    (hce : collectErrors r.term = []) :
    Spanned toks start r.next r.term ∧ (TokensOrdered toks → Nested r.term) := by
  have hs := (parse_spans hI h hce).1.spanned
  exact ⟨hs, fun ho => Spanned.nested ho _ _ _ hs⟩


/-! ## The memo table is transparent

`parsePure` runs the same 36 bodies without `cache_check!`.  Whatever the memoised functions return
is what the cache-free functions return (whenever those return at all): used below to evaluate the
parser on concrete inputs inside the kernel (`Std.HashMap` does not reduce there). -/

/-- The parsing functions without the memo table. -/
def parsePure (toks : Array PTok) : Nat → NT → Nat → ParseM PResult
  | 0, _, _ => fun _ => none
  | fuel + 1, nt, start => parseBody toks (parsePure toks fuel) nt start

/-- `r` is what the cache-free function returns for `(nt, s)`, whenever it returns. -/
def PureInv (toks : Array PTok) (nt : NT) (s : Nat) (r : PResult) : Prop :=
  ∀ fuel st x st', parsePure toks fuel nt s st = some (x, st') → x = r

/-- Relational partial correctness: from a memo table whose entries agree with the cache-free
functions, whatever `m1` returns, `m2` returns the same from any state (if it returns). -/
def RPres (toks : Array PTok) {α : Type} (m1 m2 : ParseM α) : Prop :=
  GPres (PureInv toks) m1 (fun a1 => ∀ st2 a2 st2', m2 st2 = some (a2, st2') → a2 = a1)

section Rel
variable {toks : Array PTok} {α β : Type}

theorem RPres.pure {a : α} : RPres toks (Pure.pure a : ParseM α) (Pure.pure a) := by
  refine GPres.pure ?_
  intro st2 a2 st2' e
  have : (Pure.pure a : ParseM α) st2 = some (a, st2) := rfl
  rw [this] at e
  simp only [Option.some.injEq, Prod.mk.injEq] at e
  exact e.1.symm

theorem RPres.bind {m1 m2 : ParseM α} {f1 f2 : α → ParseM β} (hm : RPres toks m1 m2)
    (hf : ∀ a, RPres toks (f1 a) (f2 a)) : RPres toks (m1 >>= f1) (m2 >>= f2) := by
  intro st b st' hI e
  rw [ParseM_bind_eq] at e
  cases h1 : m1 st with
  | none => simp [h1] at e
  | some p1 =>
    obtain ⟨a, s1⟩ := p1
    simp only [h1] at e
    obtain ⟨hI1, hp⟩ := hm st a s1 hI h1
    obtain ⟨hI2, hq⟩ := hf a s1 b st' hI1 e
    refine ⟨hI2, ?_⟩
    intro st2 b2 st2' e2
    rw [ParseM_bind_eq] at e2
    cases h2 : m2 st2 with
    | none => simp [h2] at e2
    | some p2 =>
      obtain ⟨a2, s2⟩ := p2
      simp only [h2] at e2
      have := hp _ _ _ h2
      subst this
      exact hq _ _ _ e2

theorem RPres.ite {c : Prop} [Decidable c] {m1 m2 n1 n2 : ParseM α}
    (h1 : c → RPres toks m1 m2) (h2 : ¬c → RPres toks n1 n2) :
    RPres toks (if c then m1 else n1) (if c then m2 else n2) := by
  split
  · exact h1 ‹_›
  · exact h2 ‹_›

theorem RPres.consume0 {next : Nat} {kind : PKind} {k1 k2 : Nat → ParseM PResult}
    (hk : RPres toks (k1 (next + 1)) (k2 (next + 1))) :
    RPres toks (consume0 toks next kind k1) (consume0 toks next kind k2) := by
  unfold PModel.consume0
  split
  · split
    · exact hk
    · exact RPres.pure
  · exact RPres.pure

theorem RPres.consumeIdent {next : Nat} {k1 k2 : Name → Nat → ParseM PResult}
    (hk : ∀ x, RPres toks (k1 x (next + 1)) (k2 x (next + 1))) :
    RPres toks (consumeIdent toks next k1) (consumeIdent toks next k2) := by
  unfold PModel.consumeIdent
  split
  · split
    · exact hk _
    · exact RPres.pure
  · exact RPres.pure

theorem RPres.consumeLiteral {next : Nat} {k1 k2 : Nat → Nat → ParseM PResult}
    (hk : ∀ x, RPres toks (k1 x (next + 1)) (k2 x (next + 1))) :
    RPres toks (consumeLiteral toks next k1) (consumeLiteral toks next k2) := by
  unfold PModel.consumeLiteral
  split
  · split
    · exact hk _
    · exact RPres.pure
  · exact RPres.pure

theorem RPres.tryReturn {p1 p2 k1 k2 : ParseM PResult} (hp : RPres toks p1 p2)
    (hk : RPres toks k1 k2) : RPres toks (tryReturn p1 k1) (tryReturn p2 k2) := by
  unfold PModel.tryReturn
  refine RPres.bind hp (fun r => ?_)
  exact RPres.ite (fun _ => hk) (fun _ => RPres.pure)

theorem RPres.tryEval {p1 p2 : ParseM PResult} {k1 k2 : Src → Nat → Bool → ParseM PResult}
    (hp : RPres toks p1 p2) (hk : ∀ t n c, RPres toks (k1 t n c) (k2 t n c)) :
    RPres toks (tryEval p1 k1) (tryEval p2 k2) := by
  unfold PModel.tryEval
  refine RPres.bind hp (fun r => ?_)
  exact RPres.ite (fun _ => RPres.pure) (fun _ => hk _ _ _)

end Rel

section RelBodies
variable {toks : Array PTok} {rec1 rec2 : NT → Nat → ParseM PResult}
  (hrec : ∀ nt pos, RPres toks (rec1 nt pos) (rec2 nt pos))

theorem RPres.parseLeaf {kind : PKind} {v : SrcV} {start : Nat} :
    RPres toks (parseLeaf toks kind v start) (parseLeaf toks kind v start) := by
  unfold PModel.parseLeaf
  exact RPres.consume0 RPres.pure

include hrec

theorem RPres.parseLambda {start : Nat} :
    RPres toks (parseLambda toks rec1 start) (parseLambda toks rec2 start) := by
  unfold PModel.parseLambda
  refine RPres.consumeIdent (fun x => ?_)
  refine RPres.consume0 ?_
  refine RPres.bind (hrec _ _) (fun r => ?_)
  obtain ⟨t, n, c⟩ := r
  exact RPres.pure

theorem RPres.parseLambdaImplicit {start : Nat} :
    RPres toks (parseLambdaImplicit toks rec1 start) (parseLambdaImplicit toks rec2 start) := by
  unfold PModel.parseLambdaImplicit
  refine RPres.consume0 ?_
  refine RPres.consumeIdent (fun x => ?_)
  refine RPres.consume0 ?_
  refine RPres.consume0 ?_
  refine RPres.bind (hrec _ _) (fun r => ?_)
  obtain ⟨t, n, c⟩ := r
  exact RPres.pure

theorem RPres.parseBinary {left right : NT} {opTok : PKind} {op : BinOp} {start : Nat} :
    RPres toks (parseBinary toks rec1 left opTok right op start)
      (parseBinary toks rec2 left opTok right op start) := by
  unfold PModel.parseBinary
  refine RPres.tryEval (hrec _ _) (fun t n c => ?_)
  refine RPres.consume0 ?_
  refine RPres.bind (hrec _ _) (fun r => ?_)
  obtain ⟨t, n, c⟩ := r
  exact RPres.pure

theorem RPres.parseBinder {openK closeK arrowK : PKind} {mk : SrcVar → Src → Src → SrcV}
    {start : Nat} :
    RPres toks (parseBinder toks rec1 openK closeK arrowK mk start)
      (parseBinder toks rec2 openK closeK arrowK mk start) := by
  unfold PModel.parseBinder
  refine RPres.consume0 ?_
  refine RPres.consumeIdent (fun x => ?_)
  refine RPres.consume0 ?_
  refine RPres.tryEval (hrec _ _) (fun t n c => ?_)
  refine RPres.consume0 ?_
  refine RPres.consume0 ?_
  refine RPres.bind (hrec _ _) (fun r => ?_)
  obtain ⟨t, n, c⟩ := r
  exact RPres.pure

theorem RPres.parseNegation {start : Nat} :
    RPres toks (parseNegation toks rec1 start) (parseNegation toks rec2 start) := by
  unfold PModel.parseNegation
  refine RPres.consume0 ?_
  refine RPres.bind (hrec _ _) (fun r => ?_)
  obtain ⟨t, n, c⟩ := r
  exact RPres.pure

theorem RPres.parseNonDependentPi {start : Nat} :
    RPres toks (parseNonDependentPi toks rec1 start) (parseNonDependentPi toks rec2 start) := by
  unfold PModel.parseNonDependentPi
  refine RPres.tryEval (hrec _ _) (fun t n c => ?_)
  refine RPres.consume0 ?_
  refine RPres.bind (hrec _ _) (fun r => ?_)
  obtain ⟨t, n, c⟩ := r
  exact RPres.pure

theorem RPres.parseApplication {start : Nat} :
    RPres toks (parseApplication rec1 start) (parseApplication rec2 start) := by
  unfold PModel.parseApplication
  refine RPres.tryEval (hrec _ _) (fun t n c => ?_)
  refine RPres.tryEval (hrec _ _) (fun t n c => ?_)
  exact RPres.pure

theorem RPres.parseGroup {start : Nat} :
    RPres toks (parseGroup toks rec1 start) (parseGroup toks rec2 start) := by
  unfold PModel.parseGroup
  refine RPres.consume0 ?_
  refine RPres.tryEval (hrec _ _) (fun t n c => ?_)
  generalize expectToken toks n (· = .rightParen) c = e
  obtain ⟨errs, found, nx⟩ := e
  exact RPres.pure

theorem RPres.optTerm {next : Nat} {found : Bool} {jp1 jp2 : PResult → ParseM PResult}
    (hk : ∀ r, RPres toks (jp1 r) (jp2 r)) :
    RPres toks
      (if found = true then rec1 .term next >>= jp1
        else (Pure.pure ⟨skippedTerm toks next, next, false⟩ : ParseM PResult) >>= jp1)
      (if found = true then rec2 .term next >>= jp2
        else (Pure.pure ⟨skippedTerm toks next, next, false⟩ : ParseM PResult) >>= jp2) :=
  RPres.ite (fun _ => RPres.bind (hrec _ _) hk) (fun _ => RPres.bind RPres.pure hk)

theorem RPres.parseIf {start : Nat} :
    RPres toks (parseIf toks rec1 start) (parseIf toks rec2 start) := by
  unfold PModel.parseIf
  refine RPres.consume0 ?_
  refine RPres.bind (hrec _ _) (fun r1 => ?_)
  obtain ⟨t1, n1, c1⟩ := r1
  dsimp only
  generalize expectToken toks n1 (· = .then_) c1 = e
  obtain ⟨errs, found, nx⟩ := e
  dsimp only
  refine RPres.optTerm hrec (fun r2 => ?_)
  obtain ⟨t2, n2, c2⟩ := r2
  dsimp only
  generalize expectToken toks n2 (· = .else_) c2 = e2
  obtain ⟨errs2, found2, nx2⟩ := e2
  dsimp only
  refine RPres.optTerm hrec (fun r3 => ?_)
  obtain ⟨t3, n3, c3⟩ := r3
  exact RPres.pure

theorem RPres.parseLetRest {next : Nat} {vr : SourceRange} {x : Name} {ann : OptSrc}
    {errors : List PErr} {ef : Bool} :
    RPres toks (parseLetRest toks rec1 vr x ann next errors ef)
      (parseLetRest toks rec2 vr x ann next errors ef) := by
  unfold PModel.parseLetRest
  refine RPres.optTerm hrec (fun r2 => ?_)
  obtain ⟨t2, n2, c2⟩ := r2
  dsimp only
  generalize expectToken toks n2 PKind.isTerminator c2 = e2
  obtain ⟨errs2, found2, nx2⟩ := e2
  dsimp only
  refine RPres.optTerm hrec (fun r3 => ?_)
  obtain ⟨t3, n3, c3⟩ := r3
  exact RPres.pure

theorem RPres.parseLet {start : Nat} :
    RPres toks (parseLet toks rec1 start) (parseLet toks rec2 start) := by
  rw [parseLet_eq, parseLet_eq]
  refine RPres.consumeIdent (fun x => ?_)
  split
  · split
    · refine RPres.consume0 ?_
      refine RPres.tryEval (hrec _ _) (fun t n c => ?_)
      exact RPres.parseLetRest hrec
    · exact RPres.consume0 (RPres.parseLetRest hrec)
  · exact RPres.consume0 (RPres.parseLetRest hrec)

end RelBodies

macro "ralt_tac" hrec:ident : tactic => `(tactic|
  repeat (first
    | exact RPres.pure
    | refine RPres.tryReturn ($hrec _ _) ?_))

theorem RPres.parseBody {toks : Array PTok} {rec1 rec2 : NT → Nat → ParseM PResult}
    (hrec : ∀ nt pos, RPres toks (rec1 nt pos) (rec2 nt pos)) (nt : NT) (start : Nat) :
    RPres toks (parseBody toks rec1 nt start) (parseBody toks rec2 nt start) := by
  cases nt <;> simp only [PModel.parseBody]
  case term => unfold parseTerm noParse; ralt_tac hrec
  case type => exact RPres.parseLeaf
  case «variable» =>
    unfold parseVariable
    exact RPres.consumeIdent (fun x => RPres.pure)
  case lambda => exact RPres.parseLambda hrec
  case lambdaImplicit => exact RPres.parseLambdaImplicit hrec
  case annotatedLambda => exact RPres.parseBinder hrec
  case annotatedLambdaImplicit => exact RPres.parseBinder hrec
  case pi => exact RPres.parseBinder hrec
  case piImplicit => exact RPres.parseBinder hrec
  case nonDependentPi => exact RPres.parseNonDependentPi hrec
  case application => exact RPres.parseApplication hrec
  case let_ => exact RPres.parseLet hrec
  case integer => exact RPres.parseLeaf
  case integerLiteral =>
    unfold parseIntegerLiteral
    exact RPres.consumeLiteral (fun x => RPres.pure)
  case negation => exact RPres.parseNegation hrec
  case sum => exact RPres.parseBinary hrec
  case difference => exact RPres.parseBinary hrec
  case product => exact RPres.parseBinary hrec
  case quotient => exact RPres.parseBinary hrec
  case lessThan => exact RPres.parseBinary hrec
  case lessThanOrEqualTo => exact RPres.parseBinary hrec
  case equalTo => exact RPres.parseBinary hrec
  case greaterThan => exact RPres.parseBinary hrec
  case greaterThanOrEqualTo => exact RPres.parseBinary hrec
  case boolean => exact RPres.parseLeaf
  case true_ => exact RPres.parseLeaf
  case false_ => exact RPres.parseLeaf
  case if_ => exact RPres.parseIf hrec
  case group => exact RPres.parseGroup hrec
  case atom => unfold parseAtom noParse; ralt_tac hrec
  case smallTerm => unfold parseSmallTerm noParse; ralt_tac hrec
  case mediumTerm => unfold parseMediumTerm noParse; ralt_tac hrec
  case largeTerm => unfold parseLargeTerm noParse; ralt_tac hrec
  case hugeTerm => unfold parseHugeTerm noParse; ralt_tac hrec
  case giantTerm => unfold parseGiantTerm noParse; ralt_tac hrec
  case jumboTerm => unfold parseJumboTerm noParse; ralt_tac hrec

/-- The memoised function returns what the cache-free function returns. -/
theorem GPres.parseNT_pure (toks : Array PTok) : ∀ (fuel : Nat) (nt : NT) (start : Nat),
    GPres (PureInv toks) (parseNT toks fuel nt start) (PureInv toks nt start)
  | 0, _, _ => by unfold PModel.parseNT; exact GPres.fail
  | fuel + 1, nt, start => by
    unfold PModel.parseNT
    refine GPres.cacheCheck ?_
    intro st a st' hI e
    have hrec : ∀ f nt' pos, RPres toks (parseNT toks fuel nt' pos) (parsePure toks f nt' pos) := by
      intro f nt' pos st1 a1 st1' hI1 e1
      obtain ⟨h1, h2⟩ := GPres.parseNT_pure toks fuel nt' pos st1 a1 st1' hI1 e1
      exact ⟨h1, fun st2 a2 st2' e2 => h2 f st2 a2 st2' e2⟩
    refine ⟨(RPres.parseBody (hrec 0) nt start st a st' hI e).1, ?_⟩
    intro f st2 x st2' e2
    cases f with
    | zero => simp [parsePure] at e2
    | succ f =>
      rw [parsePure] at e2
      exact (RPres.parseBody (hrec f) nt start st a st' hI e).2 st2 x st2' e2

/-- **The memo table is transparent**: if the cache-free parser returns `x` (from any state, with any
fuel), the parse phase returns `x`. -/
theorem runParser_eq_pure {toks : Array PTok} {fuel : Nat} {st0 st0' : PState} {x : PResult}
    (h : parsePure toks fuel .term 0 st0 = some (x, st0')) :
    ∃ st, runParser toks = some (x, st) := by
  obtain ⟨r, st', hr, _⟩ := runParser_ok toks
  have hI : CacheInvG (PureInv toks) PState.init := by
    intro nt s r h
    simp [PState.init] at h
  have := (GPres.parseNT_pure toks _ _ _ PState.init r st' hI hr).2 fuel st0 x st0' h
  subst this
  exact ⟨st', hr⟩


/-! ## Reading the ranges off a tree (for concrete examples) -/

mutual
/-- All nodes of a tree in preorder (children in field order): range and `group` flag. -/
def Src.nodes (t : Src) : List (SourceRange × Bool) :=
  match t with
  | .mk r g v _ => (r, g) :: SrcV.nodes v
termination_by structural t
def SrcV.nodes (v : SrcV) : List (SourceRange × Bool) :=
  match v with
  | .parseError | .type | .var _ | .int | .lit _ | .bool | .tt | .ff => []
  | .lam _ _ dom body => OptSrc.nodes dom ++ Src.nodes body
  | .pi _ _ dom cod => Src.nodes dom ++ Src.nodes cod
  | .app f a => Src.nodes f ++ Src.nodes a
  | .let_ _ ann defn body => OptSrc.nodes ann ++ Src.nodes defn ++ Src.nodes body
  | .neg a => Src.nodes a
  | .bin _ a b => Src.nodes a ++ Src.nodes b
  | .ite c a b => Src.nodes c ++ Src.nodes a ++ Src.nodes b
termination_by structural v
def OptSrc.nodes (o : OptSrc) : List (SourceRange × Bool) :=
  match o with
  | .none => []
  | .some t => Src.nodes t
termination_by structural o
end

mutual
/-- The ranges of all binder variables of a tree, in preorder. -/
def Src.binders (t : Src) : List SourceRange :=
  match t with
  | .mk _ _ v _ => SrcV.binders v
termination_by structural t
def SrcV.binders (v : SrcV) : List SourceRange :=
  match v with
  | .parseError | .type | .var _ | .int | .lit _ | .bool | .tt | .ff => []
  | .lam x _ dom body => x.range :: (OptSrc.binders dom ++ Src.binders body)
  | .pi x _ dom cod => x.range :: (Src.binders dom ++ Src.binders cod)
  | .app f a => Src.binders f ++ Src.binders a
  | .let_ x ann defn body => x.range :: (OptSrc.binders ann ++ Src.binders defn ++ Src.binders body)
  | .neg a => Src.binders a
  | .bin _ a b => Src.binders a ++ Src.binders b
  | .ite c a b => Src.binders c ++ Src.binders a ++ Src.binders b
termination_by structural v
def OptSrc.binders (o : OptSrc) : List SourceRange :=
  match o with
  | .none => []
  | .some t => Src.binders t
termination_by structural o
end


/-- A Boolean check of `TokensOrdered` (for concrete arrays). -/
def tokensOrderedB (toks : Array PTok) : Bool :=
  (List.range toks.size).all fun i =>
    decide ((tokenRange toks i).start < (tokenRange toks i).stop) &&
    (decide (toks.size ≤ i + 1) ||
      decide ((tokenRange toks i).stop ≤ (tokenRange toks (i + 1)).start))

theorem tokensOrderedB_sound {toks : Array PTok} (h : tokensOrderedB toks = true) :
    TokensOrdered toks := by
  simp only [tokensOrderedB, List.all_eq_true, List.mem_range, Bool.and_eq_true, Bool.or_eq_true,
    decide_eq_true_eq] at h
  constructor
  · intro i hi
    have := (h i hi).1
    rwa [tokenRange_lt hi] at this
  · intro i hi
    rcases (h i (by omega)).2 with h' | h'
    · omega
    · rwa [tokenRange_lt hi, tokenRange_lt (show i < toks.size by omega)] at h'


/-- Read observed facts off a kernel evaluation of the cache-free parser: they hold of what the
parse phase returns. -/
theorem runParser_eval {β : Type} (toks : Array PTok) (fuel : Nat) (obs : PResult → β) (v : β)
    (h : (parsePure toks fuel .term 0 PState.init).map (fun p => obs p.1) = some v) :
    ∃ r st, runParser toks = some (r, st) ∧ obs r = v := by
  cases hp : parsePure toks fuel .term 0 PState.init with
  | none => rw [hp] at h; cases h
  | some p =>
    obtain ⟨x, st0⟩ := p
    rw [hp] at h
    simp only [Option.map_some, Option.some.injEq] at h
    obtain ⟨st, hr⟩ := runParser_eq_pure hp
    exact ⟨x, st, hr, h⟩

end PModel
