import GramModel.Parser
import GramModel.Lemmas.Parser
import GramModel.Lemmas.ParserTermination

/-!
# The packrat phase makes a linear number of calls

Every call of a memoised parsing function is a hit or a miss of the memo table (`cacheCheck`
increments `hits[nt]` or `misses[nt]`, nothing else touches the counters).  No body calls `rec` in
a loop: the largest body (`parseJumboTerm`) makes at most 9 calls.  So

  `hits' - hits ≤ 9 · (misses' - misses) + (number of calls made at the top level)`

which is the graded partial-correctness triple `Cnt m c` below (`c` = a budget of top-level calls).
With `runParser_misses_le` this bounds the total number of calls by `361 · (n + 1)`.
-/

namespace PModel

/-- `Cnt m c`: `m` makes at most `c` memoised calls itself.  Formally: running `m` (from a state
whose `misses` array has its 36 slots) increases the hit total by at most `9` per miss counted plus
`c`, and keeps the size of the `misses` array. -/
def Cnt {α : Type} (m : ParseM α) (c : Nat) : Prop :=
  ∀ st a st', st.misses.size = 36 → m st = some (a, st') →
    st'.misses.size = 36 ∧
    sumN st'.hits + 9 * sumN st.misses ≤ sumN st.hits + 9 * sumN st'.misses + c

theorem Cnt.pure {α : Type} (a : α) (c : Nat) : Cnt (pure a : ParseM α) c := by
  intro st b st' hsz h
  have : (Pure.pure a : StateT PState Option α) st = some (a, st) := rfl
  rw [this] at h
  simp only [Option.some.injEq, Prod.mk.injEq] at h
  rw [← h.2]; exact ⟨hsz, by omega⟩

/-- A bind whose first component costs one call. -/
theorem Cnt.bind1 {α β : Type} {m : ParseM α} {f : α → ParseM β} {c : Nat} (hm : Cnt m 1)
    (hf : ∀ a, Cnt (f a) c) : Cnt (m >>= f) (c + 1) := by
  intro st b st' hsz h
  rw [ParseM_bind_eq] at h
  cases hm1 : m st with
  | none => simp [hm1] at h
  | some p =>
    obtain ⟨a, s1⟩ := p
    simp only [hm1] at h
    obtain ⟨hsz1, h1⟩ := hm st a s1 hsz hm1
    obtain ⟨hsz2, h2⟩ := hf a s1 b st' hsz1 h
    exact ⟨hsz2, by omega⟩

theorem Cnt.ite {α : Type} {c : Prop} [Decidable c] {m1 m2 : ParseM α} {n : Nat} (h1 : Cnt m1 n)
    (h2 : Cnt m2 n) : Cnt (if c then m1 else m2) n := by
  split <;> assumption

theorem Cnt.mono {α : Type} {m : ParseM α} {c c' : Nat} (h : Cnt m c) (hc : c ≤ c') :
    Cnt m c' := by
  intro st a st' hsz e
  obtain ⟨h1, h2⟩ := h st a st' hsz e
  exact ⟨h1, by omega⟩

theorem Cnt.fail {α : Type} (c : Nat) : Cnt (fun _ => none : ParseM α) c := by
  intro st a st' _ h; simp at h

theorem List.sum_modify_succ_eq : ∀ (l : List Nat) (i : Nat), i < l.length →
    (l.modify i (· + 1)).sum = l.sum + 1
  | [], i, h => by simp at h
  | x :: xs, 0, _ => by simp; omega
  | x :: xs, i + 1, h => by
    have := List.sum_modify_succ_eq xs i (by simpa using h)
    simp; omega

theorem sumN_modify_eq (a : Array Nat) (i : Nat) (h : i < a.size) :
    sumN (a.modify i (· + 1)) = sumN a + 1 := by
  unfold sumN
  rw [← Array.sum_eq_foldl_nat, ← Array.sum_eq_foldl_nat, ← Array.sum_toList, ← Array.sum_toList,
    Array.toList_modify]
  exact List.sum_modify_succ_eq _ _ (by simpa using h)

/-- **One memoised call costs one call**: a hit adds one to the hits; a miss adds one to the
misses, which pays for the (at most 9) calls made by the body. -/
theorem Cnt.cacheCheck {nt : NT} {start : Nat} {body : ParseM PResult} (hb : Cnt body 9) :
    Cnt (cacheCheck nt start body) 1 := by
  intro st r st' hsz h
  cases hc : st.cache[(nt.idx, start)]? with
  | some r0 =>
    rw [cacheCheck_hit nt start body st r0 hc] at h
    simp only [Option.some.injEq, Prod.mk.injEq] at h
    rw [← h.2]
    refine ⟨hsz, ?_⟩
    have := sumN_modify_le st.hits nt.idx
    show sumN (st.hits.modify nt.idx (· + 1)) + 9 * sumN st.misses
      ≤ sumN st.hits + 9 * sumN st.misses + 1
    omega
  | none =>
    rw [cacheCheck_miss nt start body st hc] at h
    cases hb1 : body { st with misses := st.misses.modify nt.idx (· + 1) } with
    | none => simp [hb1] at h
    | some p =>
      obtain ⟨r1, s1⟩ := p
      simp only [hb1, Option.some.injEq, Prod.mk.injEq] at h
      rw [← h.2]
      obtain ⟨hsz1, h1⟩ := hb _ _ _ (by simpa using hsz) hb1
      have h2 := sumN_modify_eq st.misses nt.idx (by have := NT.idx_lt nt; omega)
      refine ⟨hsz1, ?_⟩
      show sumN s1.hits + 9 * sumN st.misses ≤ sumN st.hits + 9 * sumN s1.misses + 1
      have h1 : sumN s1.hits + 9 * sumN (st.misses.modify nt.idx (· + 1))
          ≤ sumN st.hits + 9 * sumN s1.misses + 9 := h1
      omega

theorem Cnt.consume0 {toks : Array PTok} {next : Nat} {kind : PKind} {k : Nat → ParseM PResult}
    {c : Nat} (hk : ∀ n, Cnt (k n) c) : Cnt (consume0 toks next kind k) c := by
  unfold PModel.consume0
  split
  · split
    · exact hk _
    · exact Cnt.pure _ _
  · exact Cnt.pure _ _

theorem Cnt.consumeIdent {toks : Array PTok} {next : Nat} {k : Name → Nat → ParseM PResult}
    {c : Nat} (hk : ∀ x n, Cnt (k x n) c) : Cnt (consumeIdent toks next k) c := by
  unfold PModel.consumeIdent
  split
  · split
    · exact hk _ _
    · exact Cnt.pure _ _
  · exact Cnt.pure _ _

theorem Cnt.consumeLiteral {toks : Array PTok} {next : Nat} {k : Nat → Nat → ParseM PResult}
    {c : Nat} (hk : ∀ x n, Cnt (k x n) c) : Cnt (consumeLiteral toks next k) c := by
  unfold PModel.consumeLiteral
  split
  · split
    · exact hk _ _
    · exact Cnt.pure _ _
  · exact Cnt.pure _ _

theorem Cnt.tryReturn {p k : ParseM PResult} {c : Nat} (hp : Cnt p 1) (hk : Cnt k c) :
    Cnt (tryReturn p k) (c + 1) := by
  unfold PModel.tryReturn
  exact Cnt.bind1 hp (fun r => Cnt.ite hk (Cnt.pure _ _))

theorem Cnt.tryEval {p : ParseM PResult} {k : Src → Nat → Bool → ParseM PResult} {c : Nat}
    (hp : Cnt p 1) (hk : ∀ a b d, Cnt (k a b d) c) : Cnt (tryEval p k) (c + 1) := by
  unfold PModel.tryEval
  exact Cnt.bind1 hp (fun r => Cnt.ite (Cnt.pure _ _) (hk _ _ _))

theorem Cnt.elim {α : Type} {m : ParseM α} {c : Nat} (h : Cnt m c) {st : PState} {a : α}
    {st' : PState} (hsz : st.misses.size = 36) (e : m st = some (a, st')) :
    sumN st'.hits + 9 * sumN st.misses ≤ sumN st.hits + 9 * sumN st'.misses + c :=
  (h st a st' hsz e).2

attribute [irreducible] Cnt

macro "cnt_tac" h:term : tactic => `(tactic|
  repeat (first
    | exact $h _ _
    | apply Cnt.pure
    | apply Cnt.consume0
    | apply Cnt.consumeIdent
    | apply Cnt.consumeLiteral
    | apply Cnt.tryReturn
    | apply Cnt.tryEval
    | apply Cnt.bind1
    | split
    | intro _))

section
variable {toks : Array PTok} {rec : NT → Nat → ParseM PResult} (hrec : ∀ nt pos, Cnt (rec nt pos) 1)
include hrec

/-- **Every body makes at most 9 calls of `rec`** (9 is attained by `parseJumboTerm`). -/
theorem Cnt.parseBody (nt : NT) (start : Nat) : Cnt (parseBody toks rec nt start) 9 := by
  cases nt <;> simp only [PModel.parseBody, parseTerm, parseType, parseVariable, parseLambda,
    parseLambdaImplicit, parseAnnotatedLambda, parseAnnotatedLambdaImplicit, parsePi,
    parsePiImplicit, parseNonDependentPi, parseApplication, parseLet, parseInteger,
    parseIntegerLiteral, parseNegation, parseSum, parseDifference, parseProduct, parseQuotient,
    parseLessThan, parseLessThanOrEqualTo, parseEqualTo, parseGreaterThan,
    parseGreaterThanOrEqualTo, parseBoolean, parseTrue, parseFalse, parseIf, parseGroup,
    parseAtom, parseSmallTerm, parseMediumTerm, parseLargeTerm, parseHugeTerm, parseGiantTerm,
    parseJumboTerm, noParse, parseLeaf, parseBinder, parseBinary] <;> cnt_tac hrec
end

/-- Every memoised parsing function, with any fuel, costs one call. -/
theorem Cnt.parseNT (toks : Array PTok) : ∀ (fuel : Nat) (nt : NT) (start : Nat),
    Cnt (parseNT toks fuel nt start) 1
  | 0, _, _ => by unfold PModel.parseNT; exact Cnt.fail _
  | fuel + 1, nt, start => by
      unfold PModel.parseNT
      exact Cnt.cacheCheck (Cnt.parseBody (fun nt pos => Cnt.parseNT toks fuel nt pos) nt start)

theorem sumN_init_hits : sumN PState.init.hits = 0 := by
  unfold sumN PState.init NT.count
  rw [← Array.sum_eq_foldl_nat]; simp

/-- The hits of a whole parse are at most nine per miss, plus one (the top-level call). -/
theorem runParser_hits_le (toks : Array PTok) (r : PResult) (st' : PState)
    (h : runParser toks = some (r, st')) : sumN st'.hits ≤ 9 * sumN st'.misses + 1 := by
  have h1 := (Cnt.parseNT toks (parseFuel toks) .term 0).elim
    (by simp [PState.init, NT.count]) h
  rw [sumN_init, sumN_init_hits] at h1
  omega

/-- **Linear number of calls**: hits and misses together are at most `361 · (n + 1)`. -/
theorem runParser_calls_le (toks : Array PTok) (r : PResult) (st' : PState)
    (h : runParser toks = some (r, st')) :
    sumN st'.hits + sumN st'.misses ≤ 361 * (toks.size + 1) := by
  have h1 := runParser_hits_le toks r st' h
  have h2 := runParser_misses_le toks r st' h
  omega

end PModel
