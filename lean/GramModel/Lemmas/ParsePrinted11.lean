import GramModel.Lemmas.ParsePrinted10

/-! # The applications pass on the parsed tree of a printed application chain -/

namespace PModel
open RewriteMore PrintDerives

theorem shape_app_inv {s e1 e2 : Src} (h : shape s = mk0 false (.app e1 e2)) :
    ∃ r x y, s = .mk r false (.app x y) [] ∧ shape x = e1 ∧ shape y = e2 := by
  obtain ⟨r, g, v, es⟩ := s
  cases v <;> simp [shape, shapeV, mk0] at h
  obtain ⟨rfl, ⟨rfl, rfl⟩, rfl⟩ := h
  exact ⟨r, _, _, rfl, rfl, rfl⟩

/-- a tree whose shape is a right-nested chain of operand shapes is a chain of operands -/
theorem isChain_of_shape : ∀ (atoms : List Src) (s : Src), atoms ≠ [] → shape s = nestL atoms →
    ∃ l, IsChain s l ∧ l.map shape = atoms
  | [e], s, _, h => ⟨[s], .one s, by simpa [nestL] using h⟩
  | e :: e' :: l, s, _, h => by
    obtain ⟨r, x, y, rfl, hx, hy⟩ := shape_app_inv (by simpa [nestL] using h)
    obtain ⟨l1, hc, hl1⟩ := isChain_of_shape (e' :: l) y (by simp) hy
    cases l1 with
    | nil => simp at hl1
    | cons y0 l1 => exact ⟨x :: y0 :: l1, .cons r [] x y y0 l1 hc, by simp [hx, hl1]⟩

theorem IsChain.noPE {s : Src} {l : List Src} (hc : IsChain s l) : NoPE s → ∀ x ∈ l, NoPE x := by
  induction hc with
  | one x => intro h y hy; simp only [List.mem_cons, List.mem_nil_iff, or_false] at hy; subst hy; exact h
  | cons r es x rest y l0 _ ih =>
    intro h z hz
    unfold NoPE at h
    rcases List.mem_cons.mp hz with rfl | hz
    · exact h.1
    · exact ih h.2 z hz

/-- an operand shape: parenthesised, or not an application -/
def atomish (e : Src) : Prop := e.group = true ∨ inFam .applications e.variant = false

theorem atomish_of_shape {x e : Src} (h : shape x = e) (he : atomish e) :
    Opaque .applications x := by
  obtain ⟨r, g, v, es⟩ := x
  subst h
  refine opaque_of _ r g v es ?_
  rcases he with he | he
  · exact Or.inl he
  · right
    cases v <;> first | rfl | (simp [shape, shapeV, Src.variant, inFam] at he)

section
variable (I : List Char → Name) (nm : Name → List Char)

theorem grpS_atomish (t : Tm) : atomish (grpS I nm t) := by
  unfold grpS
  split
  · rename_i h
    right
    cases t <;> first
      | (simp [atomic, Tm.former, Former.bare] at h; done)
      | (rename_i op _ _; cases op <;> simp [atomic, Tm.former, Former.bare, Former.ofOp] at h; done)
      | (rw [srcOf]; rfl)
  · left
    generalize srcOf I nm t = e
    obtain ⟨r, g, v, es⟩ := e; rfl

theorem atomsOf_atomish : ∀ t : Tm, ∀ e ∈ atomsOf I nm t, atomish e
  | .app f a => by
    intro e he
    rw [atomsOf_app] at he
    rcases List.mem_append.mp he with he | he
    · unfold headAtoms at he
      split at he
      · exact atomsOf_atomish f e he
      · simp only [List.mem_cons, List.mem_nil_iff, or_false] at he; subst he
        exact grpS_atomish I nm f
    · simp only [List.mem_cons, List.mem_nil_iff, or_false] at he; subst he
      exact grpS_atomish I nm a
  | .hole _ _ | .type | .int | .bool | .tt | .ff | .lit _ | .var _ _ | .lam _ _ _ _ | .pi _ _ _ _
  | .letg _ _ | .neg _ | .bin _ _ _ | .ite _ _ _ => by simp [atomsOf]

end

/-- **`f a b` gets its shape back**: the parse phase returns a printed application chain
`h a₁ … aₙ` as the right-nested chain of its operands' trees (shapes: `atomsOf I nm t`);
`reassociate_applications` succeeds on each operand and turns the chain into the left-nested
application of the re-associated operands (up to ranges, `group` flags, error lists). -/
theorem reassoc_printed_app (toks : Array PTok) (I : List Char → Name) (nm : Name → List Char)
    (t : Tm) (h1 : noImplicitArrow t = true) (h2 : noNegLit t = true) (happ : isApp t = true)
    (hk : toks.toList.map (·.kind) = (printKinds nm t).map (kindP I)) :
    ∃ r st l l', runParser toks = some (r, st) ∧ IsChain r.term l ∧
      l.map shape = atomsOf I nm t ∧ Ops l l' ∧ 2 ≤ l.length ∧
      (reassociateApplications r.term).map strip = some (chainRes none (l'.map strip)) := by
  obtain ⟨r, st, hr, _, _, hce, hs, _⟩ := parse_printed toks I nm t h1 h2 hk
  have hnoPE : NoPE r.term := (runParser_good hr).2 hce
  obtain ⟨f, a, rfl⟩ : ∃ f a, t = .app f a := by
    cases t <;> simp [isApp] at happ
    exact ⟨_, _, rfl⟩
  have hne : atomsOf I nm (.app f a) ≠ [] := by rw [atomsOf_app]; simp
  rw [srcOf_isApp I nm happ] at hs
  obtain ⟨l, hc, hl⟩ := isChain_of_shape _ r.term hne hs
  have hlen : 2 ≤ l.length := by
    have : l.length = (atomsOf I nm (.app f a)).length := by rw [← hl]; simp
    rw [this, atomsOf_app]
    have : headAtoms I nm f ≠ [] := by
      unfold headAtoms; split
      · rename_i hf
        obtain ⟨f1, f2, rfl⟩ : ∃ f1 f2, f = .app f1 f2 := by
          cases f <;> simp [isApp] at hf
          exact ⟨_, _, rfl⟩
        rw [atomsOf_app]; simp
      · simp
    have := List.length_pos_iff.mpr this
    simp; omega
  have hops : ∀ (l0 : List Src), (∀ x ∈ l0, NoPE x ∧ atomish (shape x)) → ∃ l0', Ops l0 l0' := by
    intro l0
    induction l0 with
    | nil => exact fun _ => ⟨[], .nil⟩
    | cons x l0 ih =>
      intro h
      obtain ⟨l0', h0⟩ := ih (fun y hy => h y (by simp [hy]))
      obtain ⟨hx1, hx2⟩ := h x (by simp)
      obtain ⟨x', hx', _⟩ := reassoc_noPE .applications x none hx1 (by intro _ _ e; cases e)
      exact ⟨x' :: l0', .cons ⟨atomish_of_shape rfl hx2, hx'⟩ h0⟩
  obtain ⟨l', hl'⟩ := hops l (fun x hx => ⟨hc.noPE hnoPE x hx,
    atomsOf_atomish I nm _ _ (by rw [← hl]; exact List.mem_map_of_mem hx)⟩)
  refine ⟨r, st, l, l', hr, hc, hl, hl', hlen, ?_⟩
  have := reassoc_chain hc l' hl' none (Or.inl rfl)
  simpa [reassociateApplications] using this

end PModel
