import GramModel.Lemmas.ParsePrinted19

/-! # Stage B transfer and assembly (terms without definition groups) -/

namespace PModel
open RewriteMore PrintDerives

theorem initialContext_snoc (ns : List Name) (n : Name) :
    initialContext (ns ++ [n]) = Ctx.insert (initialContext ns) n ns.length := by
  simp [initialContext, List.zipIdx_append, List.foldl_append]

theorem Ctx.remove_of_get_none : ∀ (c : Ctx) (x : Name), Ctx.get c x = none → Ctx.remove c x = c
  | [], _, _ => rfl
  | (k, v) :: c, x, h => by
    by_cases hk : x = k
    · subst hk; simp [Ctx.get] at h
    · have h' : Ctx.get c x = none := by
        simpa [Ctx.get, Ctx.lookup_cons_ne x k v c hk] using h
      have hne : (k != x) = true := by simp; exact fun e => hk e.symm
      have ih := Ctx.remove_of_get_none c x h'
      simp only [Ctx.remove] at ih ⊢
      simp only [List.filter_cons, hne, if_true, ih]

/-- the initial name→depth map of a context of pairwise distinct names (none the placeholder) describes
the stack of these names, innermost = last -/
theorem initialContext_inv : ∀ rs : List Name, rs.Nodup → (∀ x ∈ rs, x ≠ placeholder) →
    RInv True (initialContext rs.reverse) (rs.map slot) ∧ (initialContext rs.reverse).length = rs.length
  | [], _, _ => by
    refine ⟨⟨fun x _ => by simp [initialContext, Ctx.get, Stack.index], fun _ => rfl⟩, rfl⟩
  | r :: rs, hnd, hph => by
    rw [List.nodup_cons] at hnd
    obtain ⟨ih1, ih2⟩ := initialContext_inv rs hnd.2 (fun x hx => hph x (by simp [hx]))
    have hr : r ≠ placeholder := hph r (by simp)
    have hidx : Stack.index (rs.map slot) r = none := index_none rs r hnd.1
    have hget : (initialContext rs.reverse).get r = none := by
      rw [ih1.1 r hr, hidx]; rfl
    rw [List.reverse_cons, initialContext_snoc]
    have hsl : (r :: rs).map slot = some r :: rs.map slot := by simp [slot, hr]
    rw [hsl]
    have := RInv.insert ih1 hr hidx
    simp only [List.length_map] at this
    refine ⟨by simpa using this, ?_⟩
    simp [Ctx.insert, Ctx.remove_of_get_none _ _ hget, ih2]

/-- **Stage B (no definition group)**: name resolution of any tree that is the tree of `t` up to
ranges, flags and errors, in the scope `names`, returns `canon t` without error. -/
theorem resolve_printed_nolet (I : List Char → Name) (nm : Name → List Char) (names : List Name)
    (t : Tm) (s : Src) (hI : ∀ x, I (nm x) = x) (hnd : names.Nodup)
    (hph : ∀ x ∈ names, x ≠ placeholder) (hn : noLet t = true)
    (hsc : scopedOK names.reverse t = true) (hs : strip s = lsrc I nm t) :
    ∃ rt st, resolve s (initialContext names).length
        { ctx := initialContext names, errors := [], nextHole := 0 } = some (rt, st) ∧
      rt.erase = canon t ∧ st.errors = [] := by
  have hnd' : names.reverse.Nodup := by
    rw [List.Nodup, List.pairwise_reverse]
    exact hnd.imp (fun h => h.symm)
  have hph' : ∀ x ∈ names.reverse, x ≠ placeholder := fun x hx => hph x (List.mem_reverse.mp hx)
  obtain ⟨hinv, hlen⟩ := initialContext_inv names.reverse hnd' hph'
  rw [List.reverse_reverse] at hinv hlen
  obtain ⟨hdb, hhf⟩ := toDB_lsrc I nm hI t names.reverse s hn hsc (scopeOK_of_nodup _ hnd') hs
  obtain ⟨r, st', hres, herr, her⟩ := C08_resolve_complete_fixed s (names.reverse.map slot)
    { ctx := initialContext names, errors := [], nextHole := 0 } (canon t) hinv.1 (hinv.2 trivial) hdb
  have hl : (names.reverse.map slot).length = (initialContext names).length := by
    rw [hlen]; simp
  rw [hl] at hres
  refine ⟨r, st', hres, ?_, herr⟩
  rw [← her]
  exact (ehi r.erase (by rw [her]; exact hhf)).symm

/-- **Reading a printed term back** (no definition group). -/
theorem read_back_nolet (toks : Array PTok) (I : List Char → Name) (nm : Name → List Char)
    (names : List Name) (t : Tm) (hI : ∀ x, I (nm x) = x) (hnd : names.Nodup)
    (hph : ∀ x ∈ names, x ≠ placeholder) (hn : noLet t = true)
    (hsc : scopedOK names.reverse t = true)
    (h1 : noImplicitArrow t = true) (h2 : noNegLit t = true)
    (hk : toks.toList.map (·.kind) = (printKinds nm t).map (kindP I)) :
    readBack toks names = some (canon t, []) := by
  obtain ⟨r, st, s3, hr, h3, hs3⟩ := reassocAll_printed toks I nm t h1 h2 hk
  obtain ⟨rt, st', hres, her, herr⟩ := resolve_printed_nolet I nm names t s3 hI hnd hph hn hsc hs3
  simp [readBack, hr, h3, hres, her, herr]

end PModel
