import GramModel.Lemmas.ParsePrinted7

/-! # Completeness of the parser model on printed terms, part 8: binders, arrows, definitions —
the induction for the whole printable class -/

namespace PModel
open PrintDerives

section Main
variable {toks : Array PTok} {I : List Char → Name} {nm : Name → List Char}

theorem lam_jumbo {imp : Bool} {a m b : Nat} {x : Name} {ed eb : Src}
    (h0 : KAt toks a (if imp then .leftCurly else .leftParen))
    (hx : KAt toks (a + 1) (.identifier x)) (hc : KAt toks (a + 1 + 1) .colon)
    (D : Parses toks .jumboTerm (a + 1 + 1 + 1) m ed) (hdpe : ed.isParseError = false)
    (hcl : KAt toks m (if imp then .rightCurly else .rightParen))
    (har : KAt toks (m + 1) .thickArrow) (B : Parses toks .term (m + 1 + 1) b eb) :
    Parses toks .jumboTerm a b (mk0 false (.lam ⟨⟨0, 0⟩, x⟩ imp (.some ed) eb)) := by
  obtain ⟨td, hd, sd⟩ := D
  obtain ⟨tb, hb, sb⟩ := B
  have rd : td.isParseError = false := by rw [← shape_pe, sd]; exact hdpe
  cases imp
  · have h0' : KAt toks a .leftParen := by simpa using h0
    have hcl' : KAt toks m .rightParen := by simpa using hcl
    have hok := binder_ok bp_al h0' hx hc hd rd hcl' har hb
    refine ⟨_, jumbo_of [.lambda, .lambdaImplicit] _ rfl ?_ hok rfl,
      by simp [shape, shapeV, shapeO, binderV, sd, sb, mk0]⟩
    intro X hX
    simp only [List.mem_cons, List.mem_nil_iff, or_false] at hX
    rcases hX with rfl | rfl
    · exact lambda_fail (Or.inl (fun x => h0'.ne (by simp)))
    · exact lambdaImplicit_fail (Or.inl (h0'.ne (by decide)))
  · have h0' : KAt toks a .leftCurly := by simpa using h0
    have hcl' : KAt toks m .rightCurly := by simpa using hcl
    have hok := binder_ok bp_ali h0' hx hc hd rd hcl' har hb
    refine ⟨_, jumbo_of [.lambda, .lambdaImplicit, .annotatedLambda] _ rfl ?_ hok rfl,
      by simp [shape, shapeV, shapeO, binderV, sd, sb, mk0]⟩
    intro X hX
    simp only [List.mem_cons, List.mem_nil_iff, or_false] at hX
    rcases hX with rfl | rfl | rfl
    · exact lambda_fail (Or.inl (fun x => h0'.ne (by simp)))
    · exact lambdaImplicit_fail (Or.inr (hc.ne (by decide)))
    · exact binder_fail_start bp_al (Or.inl (h0'.ne (by decide)))

theorem pi_jumbo {imp : Bool} {a m b : Nat} {x : Name} {ed eb : Src}
    (h0 : KAt toks a (if imp then .leftCurly else .leftParen))
    (hx : KAt toks (a + 1) (.identifier x)) (hc : KAt toks (a + 1 + 1) .colon)
    (D : Parses toks .jumboTerm (a + 1 + 1 + 1) m ed) (hdpe : ed.isParseError = false)
    (hcl : KAt toks m (if imp then .rightCurly else .rightParen))
    (har : KAt toks (m + 1) .thinArrow) (B : Parses toks .term (m + 1 + 1) b eb) :
    Parses toks .jumboTerm a b (mk0 false (.pi ⟨⟨0, 0⟩, x⟩ imp ed eb)) := by
  obtain ⟨td, hd, sd⟩ := D
  obtain ⟨tb, hb, sb⟩ := B
  have rd : td.isParseError = false := by rw [← shape_pe, sd]; exact hdpe
  cases imp
  · have h0' : KAt toks a .leftParen := by simpa using h0
    have hcl' : KAt toks m .rightParen := by simpa using hcl
    have hok := binder_ok bp_pi h0' hx hc hd rd hcl' har hb
    refine ⟨_, jumbo_of [.lambda, .lambdaImplicit, .annotatedLambda, .annotatedLambdaImplicit] _ rfl
      ?_ hok rfl, by simp [shape, shapeV, binderV, sd, sb, mk0]⟩
    intro X hX
    simp only [List.mem_cons, List.mem_nil_iff, or_false] at hX
    rcases hX with rfl | rfl | rfl | rfl
    · exact lambda_fail (Or.inl (fun x => h0'.ne (by simp)))
    · exact lambdaImplicit_fail (Or.inl (h0'.ne (by decide)))
    · exact binder_fail_close bp_al hd rd (Or.inr (har.ne (by decide)))
    · exact binder_fail_start bp_ali (Or.inl (h0'.ne (by decide)))
  · have h0' : KAt toks a .leftCurly := by simpa using h0
    have hcl' : KAt toks m .rightCurly := by simpa using hcl
    have hok := binder_ok bp_pii h0' hx hc hd rd hcl' har hb
    refine ⟨_, jumbo_of [.lambda, .lambdaImplicit, .annotatedLambda, .annotatedLambdaImplicit, .pi] _
      rfl ?_ hok rfl, by simp [shape, shapeV, binderV, sd, sb, mk0]⟩
    intro X hX
    simp only [List.mem_cons, List.mem_nil_iff, or_false] at hX
    rcases hX with rfl | rfl | rfl | rfl | rfl
    · exact lambda_fail (Or.inl (fun x => h0'.ne (by simp)))
    · exact lambdaImplicit_fail (Or.inr (hc.ne (by decide)))
    · exact binder_fail_start bp_al (Or.inl (h0'.ne (by decide)))
    · exact binder_fail_close bp_ali hd rd (Or.inr (har.ne (by decide)))
    · exact binder_fail_start bp_pi (Or.inl (h0'.ne (by decide)))

theorem arrow_jumbo {a m b : Nat} {l : List Src} {ec : Src} (S : AtomSeq toks a m l)
    (har : KAt toks m .thinArrow) (C : Parses toks .term (m + 1) b ec) :
    Parses toks .jumboTerm a b (mk0 false (.pi ⟨⟨0, 0⟩, placeholder⟩ false (nestL l) ec)) := by
  obtain ⟨ts, hsm, ss⟩ := S.small (Follow.of_kat har rfl)
  obtain ⟨tc, hc, sc⟩ := C
  have rs : ts.isParseError = false := by
    rw [← shape_pe, ss]; exact nestL_notPE S.notPE S.ne_nil
  have hok := ndpi_ok hsm rs har hc
  obtain ⟨m0, e0, A, hm0⟩ := S.first ⟨har.ne (by decide), har.ne (by decide), har.ne (by decide)⟩
  have P := A.pre hm0.1
  refine ⟨_, jumbo_of [.lambda, .lambdaImplicit, .annotatedLambda, .annotatedLambdaImplicit, .pi,
    .piImplicit] _ rfl ?_ hok rfl, by simp [shape, shapeV, ss, sc, mk0]⟩
  intro X hX
  simp only [List.mem_cons, List.mem_nil_iff, or_false] at hX
  rcases hX with rfl | rfl | rfl | rfl | rfl | rfl
  · exact P.lambda
  · exact P.lambdaImplicit
  · exact P.annotatedLambda
  · exact P.annotatedLambdaImplicit
  · exact P.pi
  · exact P.piImplicit

/-- one definition `x : A = d ; rest` at the term level -/
theorem def_term {a m1 m2 b : Nat} {x : Name} {ea ed eb : Src}
    (hx : KAt toks a (.identifier x)) (hc : KAt toks (a + 1) .colon)
    (ANN : AtomOK toks (a + 1 + 1) m1 ea) (heq : KAt toks m1 .equals)
    (DD : AtomOK toks (m1 + 1) m2 ed) (hterm : KAt toks m2 (.terminator .semicolon))
    (B : Parses toks .term (m2 + 1) b eb) :
    Parses toks .term a b (mk0 false (.let_ ⟨⟨0, 0⟩, x⟩ (.some ea) ed eb)) ∧
      (∀ p, p + 1 = a → NB toks p) := by
  obtain ⟨ta, ha, sa, ra⟩ := ANN.small (Follow.of_kat heq rfl)
  obtain ⟨td, hd, sd⟩ := (AtomSeq.one DD).term (Follow.of_kat hterm rfl)
  obtain ⟨tb, hb, sb⟩ := B
  have hok := let_ok hx hc ha ra heq hd hterm hb
  refine ⟨⟨_, choice_ok (A := .term) [] [.jumboTerm] rfl (fun _ h => by cases h) hok rfl, ?_⟩, ?_⟩
  · have sd' : shape td = ed := sd
    simp [shape, shapeV, shapeO, sa, sd', sb, mk0]
  · intro p hp
    subst hp
    obtain ⟨tj, hj, sj⟩ := (AtomSeq.one ANN).jumbo (Follow.of_kat heq rfl)
    have rj : tj.isParseError = false := by rw [← shape_pe, sj]; exact ANN.notPE
    exact NB.of_close hj rj (heq.ne (by decide))

variable (toks I nm)

mutual
/-- **The induction**: every printable term, printed at `[a, a + length)`. -/
theorem mainFull : ∀ (t : Tm), noImplicitArrow t = true → noNegLit t = true →
    ∀ a, Sub toks a (pk I nm t) → PG toks I nm t a (a + (pk I nm t).length)
  | .hole i s, _, _, a, hs => by
      have h : KAt toks a (.identifier (I holeText)) := hs.1
      exact PG.ofAtom (t := .hole i s) (by rw [srcOf]; exact ident_atom h) rfl
  | .var x i, _, _, a, hs => by
      have h : KAt toks a (.identifier (I (nm x))) := hs.1
      exact PG.ofAtom (t := .var x i) (by rw [srcOf]; exact ident_atom h) rfl
  | .type, _, _, a, hs => by
      have h : KAt toks a .type_ := hs.1
      exact PG.ofAtom (t := .type) (by rw [srcOf]; exact keyword_atom (nt := .type) rfl h) rfl
  | .int, _, _, a, hs => by
      have h : KAt toks a .integer := hs.1
      exact PG.ofAtom (t := .int) (by rw [srcOf]; exact keyword_atom (nt := .integer) rfl h) rfl
  | .bool, _, _, a, hs => by
      have h : KAt toks a .boolean := hs.1
      exact PG.ofAtom (t := .bool) (by rw [srcOf]; exact keyword_atom (nt := .boolean) rfl h) rfl
  | .tt, _, _, a, hs => by
      have h : KAt toks a .true_ := hs.1
      exact PG.ofAtom (t := .tt) (by rw [srcOf]; exact keyword_atom (nt := .true_) rfl h) rfl
  | .ff, _, _, a, hs => by
      have h : KAt toks a .false_ := hs.1
      exact PG.ofAtom (t := .ff) (by rw [srcOf]; exact keyword_atom (nt := .false_) rfl h) rfl
  | .lit (.ofNat n), _, _, a, hs => by
      have h : KAt toks a (.integerLiteral n) := hs.1
      exact PG.ofAtom (t := .lit (.ofNat n)) (by rw [srcOf]; exact literal_atom h) rfl
  | .lit (.negSucc n), _, h2, _, _ => by simp [noNegLit] at h2
  | .lam x imp d body, h1, h2, a, hs => by
      simp only [noImplicitArrow, noNegLit, Bool.and_eq_true] at h1 h2
      rw [pk_lam] at hs ⊢
      obtain ⟨h0, hx, hc, hs⟩ := hs
      rw [Sub_append] at hs
      obtain ⟨hsd, hcl, har, hsb⟩ := hs
      have B := mainFull body h1.2 h2.2 _ hsb
      have e : a + ((if imp = true then PKind.leftCurly else PKind.leftParen) ::
            PKind.identifier (I (nm x)) :: PKind.colon :: (annotK I nm d ++
            (if imp = true then PKind.rightCurly else PKind.rightParen) :: PKind.thickArrow ::
              pk I nm body)).length
          = a + 1 + 1 + 1 + (annotK I nm d).length + 1 + 1 + (pk I nm body).length := by
        simp; omega
      rw [e]
      have hstop : stopK (if imp = true then PKind.rightCurly else PKind.rightParen) = true := by
        cases imp <;> rfl
      have D := annot_jumbo hsd (mainFull d h1.1 h2.1) (Follow.of_kat hcl hstop)
      have hlt0 : a < a + 1 + 1 + 1 + (annotK I nm d).length + 1 + 1 + (pk I nm body).length := by omega
      generalize a + 1 + 1 + 1 + (annotK I nm d).length = m at D B hcl har hlt0 ⊢
      generalize m + 1 + 1 + (pk I nm body).length = b at B hlt0 ⊢
      have hk0 : (∀ y, (if imp = true then PKind.leftCurly else PKind.leftParen) ≠ .identifier y) := by
        cases imp <;> simp
      refine PG.ofJumbo ?_ (let_fail (Or.inl (fun y => h0.ne (hk0 y))))
        (fun _ p hp => nb_of_kind h0 hk0 hp) (by rw [srcOf_lam]; rfl) rfl rfl hlt0
      intro hf
      rw [srcOf_lam]
      exact lam_jumbo h0 hx hc D.1 D.2 hcl har (B.term hf)
  | .pi x imp d c, h1, h2, a, hs => by
      simp only [noImplicitArrow, noNegLit, Bool.and_eq_true, Bool.or_eq_true,
        Bool.not_eq_true'] at h1 h2
      cases hfree : freeAt c 0 with
      | true =>
        rw [pk_pi_dep I nm x d c imp hfree] at hs ⊢
        obtain ⟨h0, hx, hc, hs⟩ := hs
        rw [Sub_append] at hs
        obtain ⟨hsd, hcl, har, hsb⟩ := hs
        have B := mainFull c h1.2 h2.2 _ hsb
        have e : a + ((if imp = true then PKind.leftCurly else PKind.leftParen) ::
              PKind.identifier (I (nm x)) :: PKind.colon :: (annotK I nm d ++
              (if imp = true then PKind.rightCurly else PKind.rightParen) :: PKind.thinArrow ::
                pk I nm c)).length
            = a + 1 + 1 + 1 + (annotK I nm d).length + 1 + 1 + (pk I nm c).length := by
          simp; omega
        rw [e]
        have hstop : stopK (if imp = true then PKind.rightCurly else PKind.rightParen) = true := by
          cases imp <;> rfl
        have D := annot_jumbo hsd (mainFull d h1.1.2 h2.1) (Follow.of_kat hcl hstop)
        have hlt0 : a < a + 1 + 1 + 1 + (annotK I nm d).length + 1 + 1 + (pk I nm c).length := by omega
        generalize a + 1 + 1 + 1 + (annotK I nm d).length = m at D B hcl har hlt0 ⊢
        generalize m + 1 + 1 + (pk I nm c).length = b at B hlt0 ⊢
        have hk0 : (∀ y, (if imp = true then PKind.leftCurly else PKind.leftParen) ≠ .identifier y) := by
          cases imp <;> simp
        refine PG.ofJumbo ?_ (let_fail (Or.inl (fun y => h0.ne (hk0 y))))
          (fun _ p hp => nb_of_kind h0 hk0 hp) (by rw [srcOf_pi_dep I nm x imp d c hfree]; rfl) rfl
          rfl hlt0
        intro hf
        rw [srcOf_pi_dep I nm x imp d c hfree]
        exact pi_jumbo h0 hx hc D.1 D.2 hcl har (B.term hf)
      | false =>
        have hi : imp = false := by
          rcases h1.1.1 with h | h
          · exact h
          · rw [hfree] at h; exact absurd h (by decide)
        subst hi
        rw [pk_arrow I nm x d c hfree] at hs ⊢
        rw [Sub_append] at hs
        obtain ⟨hsd, har, hsc⟩ := hs
        have S := head_seq hsd (mainFull d h1.1.2 h2.1)
        have C := mainFull c h1.2 h2.2 _ hsc
        have e : a + (headK I nm d ++ PKind.thinArrow :: pk I nm c).length
            = a + (headK I nm d).length + 1 + (pk I nm c).length := by simp; omega
        rw [e]
        generalize a + (headK I nm d).length = m at S C har ⊢
        generalize m + 1 + (pk I nm c).length = b at C ⊢
        have hsafe : SafeNext toks m := ⟨har.ne (by decide), har.ne (by decide), har.ne (by decide)⟩
        obtain ⟨m0, e0, A, hm0⟩ := S.first hsafe
        refine PG.ofJumbo ?_ (A.let_fails hm0) (fun _ p hp => S.nb_before hsafe hp)
          (by rw [srcOf_arrow I nm x false d c hfree]; rfl) rfl rfl
          (by have := S.lt; have := C.lt; omega)
        intro hf
        rw [srcOf_arrow I nm x false d c hfree]
        exact arrow_jumbo S har (C.term hf)
  | .letg ds body, h1, h2, a, hs => by
      simp only [noImplicitArrow, noNegLit, Bool.and_eq_true] at h1 h2
      rw [pk_letg] at hs ⊢
      rw [Sub_append] at hs
      have B := mainFull body h1.2 h2.2 _ hs.2
      rw [List.length_append, ← Nat.add_assoc]
      have hD := mainDefs ds h1.1 h2.1 a (a + (pkDefs I nm ds).length)
        (a + (pkDefs I nm ds).length + (pk I nm body).length) (srcOf I nm body) hs.1 rfl B.lt B.term
        B.notPE B.nb
      exact ⟨by rw [srcOf_letg]; exact hD.1, fun h => by simp [isLet] at h,
        hD.2.1, fun h => by simp [isApp] at h,
        fun h => by simp [atomic, Tm.former, Former.bare] at h,
        by rw [srcOf_letg]; exact hD.2.2, by have := B.lt; omega⟩
  | .app f x, h1, h2, a, hs => by
      simp only [noImplicitArrow, noNegLit, Bool.and_eq_true] at h1 h2
      rw [pk_app] at hs ⊢
      rw [Sub_append] at hs
      have hf := head_seq hs.1 (mainFull f h1.1 h2.1)
      have hx := group_atom hs.2 (mainFull x h1.2 h2.2)
      have hseq := hf.snoc hx
      rw [List.length_append, ← Nat.add_assoc]
      exact PG.ofSeq hseq (srcOf_app I nm f x) (fun _ => by rw [atomsOf_app]; exact hseq)
        (fun h => by simp [atomic, Tm.former, Former.bare] at h)
  | .neg x, h1, h2, a, hs => by
      simp only [noImplicitArrow, noNegLit] at h1 h2
      rw [pk_neg] at hs ⊢
      obtain ⟨h0, hs⟩ := hs
      have X := group_atom hs (mainFull x h1 h2)
      have e : a + (PKind.minus :: groupK I nm x).length = a + 1 + (groupK I nm x).length := by
        simp; omega
      rw [e]
      generalize a + 1 + (groupK I nm x).length = b at X ⊢
      have hpre := pre_of_kind h0 (by simp) (by simp) (by simp)
      refine PG.ofJumbo ?_ hpre.2.2.2.2.2.2 (fun _ p hp => nb_of_kind h0 (by simp) hp)
        (by rw [srcOf_neg]; rfl) rfl rfl (by have := X.lt; omega)
      intro hf
      rw [srcOf_neg]
      exact neg_jumbo h0 X hf
  | .bin op x y, h1, h2, a, hs => by
      simp only [noImplicitArrow, noNegLit, Bool.and_eq_true] at h1 h2
      rw [pk_bin] at hs ⊢
      rw [Sub_append] at hs
      obtain ⟨hsx, hop, hsy⟩ := hs
      have X := group_atom hsx (mainFull x h1.1 h2.1)
      have Y := group_atom hsy (mainFull y h1.2 h2.2)
      have e : a + (groupK I nm x ++ opKindP I op :: groupK I nm y).length
          = a + (groupK I nm x).length + 1 + (groupK I nm y).length := by simp; omega
      rw [e]
      generalize a + (groupK I nm x).length = m at X Y hop ⊢
      generalize m + 1 + (groupK I nm y).length = b at Y ⊢
      have hopk : opKindP I op ≠ .thickArrow ∧ opKindP I op ≠ .colon ∧ opKindP I op ≠ .equals := by
        cases op <;> simp [opKindP, opKind, kindP]
      have hsafe : SafeNext toks m := ⟨hop.ne hopk.1, hop.ne hopk.2.1, hop.ne hopk.2.2⟩
      refine PG.ofJumbo ?_ (X.let_fails hsafe) (fun _ p hp => X.nb_before hsafe hp)
        (by rw [srcOf_bin]; rfl) rfl (by cases op <;> rfl) (by have := X.lt; have := Y.lt; omega)
      intro hf
      rw [srcOf_bin]
      exact bin_jumbo X hop Y hf
  | .ite c x y, h1, h2, a, hs => by
      simp only [noImplicitArrow, noNegLit, Bool.and_eq_true] at h1 h2
      rw [pk_ite] at hs ⊢
      obtain ⟨h0, hs⟩ := hs
      rw [Sub_append] at hs
      obtain ⟨hsc, hthen, hs⟩ := hs
      rw [Sub_append] at hs
      obtain ⟨hsx, helse, hsy⟩ := hs
      have C := mainFull c h1.1.1 h2.1.1 _ hsc
      have X := mainFull x h1.1.2 h2.1.2 _ hsx
      have Y := mainFull y h1.2 h2.2 _ hsy
      have e : a + (PKind.if_ :: (pk I nm c ++ PKind.then_ :: (pk I nm x ++ PKind.else_ :: pk I nm y))).length
          = a + 1 + (pk I nm c).length + 1 + (pk I nm x).length + 1 + (pk I nm y).length := by
        simp; omega
      rw [e]
      generalize a + 1 + (pk I nm c).length = m1 at C X Y hthen helse ⊢
      generalize m1 + 1 + (pk I nm x).length = m2 at X Y helse ⊢
      generalize m2 + 1 + (pk I nm y).length = b at Y ⊢
      have hpre := pre_of_kind h0 (by simp) (by simp) (by simp)
      refine PG.ofJumbo ?_ hpre.2.2.2.2.2.2 (fun _ p hp => nb_of_kind h0 (by simp) hp)
        (by rw [srcOf_ite]; rfl) rfl rfl (by have := C.lt; have := X.lt; have := Y.lt; omega)
      intro hf
      rw [srcOf_ite]
      exact ite_jumbo h0 (C.term (Follow.of_kat hthen rfl)) hthen (X.term (Follow.of_kat helse rfl))
        helse (Y.term hf)
/-- the definitions of a group, printed at `[a, mb)`, followed by the body at `[mb, b)` -/
theorem mainDefs : ∀ (ds : Defs), noImplicitArrowDefs ds = true → noNegLitDefs ds = true →
    ∀ (a mb b : Nat) (e : Src), Sub toks a (pkDefs I nm ds) → mb = a + (pkDefs I nm ds).length →
      mb < b → (Follow toks b stopK → Parses toks .term mb b e) → e.isParseError = false →
      (KAt toks b .rightParen → ∀ p, p + 1 = mb → NB toks p) →
      (Follow toks b stopK → Parses toks .term a b (srcDefs I nm ds e)) ∧
      (KAt toks b .rightParen → ∀ p, p + 1 = a → NB toks p) ∧
      (srcDefs I nm ds e).isParseError = false
  | .nil, _, _, a, mb, b, e, _, hmb, _, hB, hpe, hnb => by
      have : mb = a := by rw [hmb, pkDefs_nil]; rfl
      subst this
      rw [srcDefs_nil]
      exact ⟨hB, hnb, hpe⟩
  | .cons x ann d r, h1, h2, a, mb, b, e, hs, hmb, hlt, hB, hpe, hnb => by
      simp only [noImplicitArrowDefs, noNegLitDefs, Bool.and_eq_true] at h1 h2
      rw [pkDefs_cons] at hs hmb
      obtain ⟨hx, hc, hs⟩ := hs
      rw [Sub_append] at hs
      obtain ⟨hsa, heq, hs⟩ := hs
      rw [Sub_append] at hs
      obtain ⟨hsd, hterm, hsr⟩ := hs
      have ANN := group_atom hsa (mainFull ann h1.1.1 h2.1.1)
      have DD := group_atom hsd (mainFull d h1.1.2 h2.1.2)
      have hmb' : mb = a + 1 + 1 + (groupK I nm ann).length + 1 + (groupK I nm d).length + 1
          + (pkDefs I nm r).length := by
        rw [hmb]; simp; omega
      generalize a + 1 + 1 + (groupK I nm ann).length = m1 at ANN DD heq hterm hsr hmb'
      generalize m1 + 1 + (groupK I nm d).length = m2 at DD hterm hsr hmb'
      have ih := mainDefs r h1.2 h2.2 (m2 + 1) mb b e hsr hmb' hlt hB hpe hnb
      rw [srcDefs_cons]
      refine ⟨fun hf => (def_term hx hc ANN heq DD hterm (ih.1 hf)).1, fun hb p hp => ?_, rfl⟩
      have hfb : Follow toks b stopK := Follow.of_kat hb rfl
      exact (def_term hx hc ANN heq DD hterm (ih.1 hfb)).2 p hp
end

end Main

end PModel
