import GramModel.Check
import GramModel.Oracle
import GramModel.Lemmas.DeBruijn
import GramModel.Lemmas.StoreCtx
import GramModel.Lemmas.StoreMono

/-!
# Lemmas about the store-layer normalizer `whnfS` (C12, C06)

* `whnfS_notLet` : a successful run of `whnfS` never returns a group.
* `NP m` : `m` never panics at the site `"unify.let_after_whnf"`; closed under `>>=`; holds of every
  function below `unifyS`, and of `unifyS` itself (because of `whnfS_notLet`).
* `occursS_state` : the occurs check does not change the state.
* `Det Δ m v` : started with definitions context `Δ`, a successful run of `m` returns `v` and leaves
  the state as it was.  On hole-free terms `sshiftS`/`ushiftS`/`openS`/`unfoldDefS`/`substDefsS` are
  `Det` with the values of the pure layer.
* `whnf_agree` : `whnfS` and `whnfX` agree on hole-free terms.
-/

namespace WhnfLemmas

open StoreMono (bind_ok pure_ok Preserves RT)

/-! ## `whnfS` never returns a group -/

def NotLet (r : Tm) : Prop := ∀ ds b, r ≠ .letg ds b

/-- value postcondition (state-independent), in the style of `StoreMono.Post` -/
abbrev PostV {α} (Q : α → Prop) (m : M α) : Prop := StoreMono.Post (fun a _ => Q a) m

theorem delta_notLet {op x y r} (h : delta op x y = some r) : NotLet r := by
  intro ds b e
  subst e
  unfold delta at h
  split at h <;> (try split at h) <;> cases h

theorem whnfS_notLet : ∀ f t, PostV NotLet (whnfS f t) := by
  intro f
  induction f with
  | zero => intros; rw [whnfS]; exact StoreMono.Post.outOfFuel
  | succ f ih =>
    intro t
    unfold whnfS
    repeat' post_step
    all_goals first
      | exact StoreMono.Post.pure (Q := fun a _ => NotLet a) (fun _ => delta_notLet (by assumption))
      | (refine StoreMono.Post.pure (Q := fun a _ => NotLet a) (fun s ds b e => ?_)
         first | (exfalso; solve_by_elim) | cases e)

theorem whnfS_notLet' {f t s r s'} (h : whnfS f t s = .ok r s') : NotLet r :=
  (whnfS_notLet f t).out _ _ _ h

/-! ## No function reaches the `unify.let_after_whnf` panic -/

/-- `m` never panics at the site `"unify.let_after_whnf"` -/
structure NP {α} (m : M α) : Prop where
  out : ∀ s, m s ≠ .panic "unify.let_after_whnf"

theorem NP.pure {α} (a : α) : NP (pure a : M α) := ⟨fun s h => by cases h⟩
theorem NP.outOfFuel {α} : NP (outOfFuel : M α) := ⟨fun s h => by cases h⟩
theorem NP.panicAt {α} (site : String) (h : site ≠ "unify.let_after_whnf") :
    NP (panicAt site : M α) := ⟨fun s e => by cases e; exact h rfl⟩
theorem NP.getSt : NP getSt := ⟨fun s h => by cases h⟩
theorem NP.cellGet (id : Nat) : NP (cellGet id) := ⟨fun s h => by cases h⟩
theorem NP.cellFresh : NP cellFresh := ⟨fun s h => by cases h⟩
theorem NP.modifySt (g : St → St) : NP (modifySt g) := ⟨fun s h => by cases h⟩
theorem NP.cellSet (id : Nat) (t : Tm) : NP (cellSet id t) := NP.modifySt _
theorem NP.pushD (d) : NP (pushD d) := NP.modifySt _
theorem NP.popD : NP popD := NP.modifySt _

/-- the continuation only has to be panic-free on values the first action can return -/
theorem NP.bind_val {α β} {m : M α} {f : α → M β} (hm : NP m)
    (hf : ∀ a s s', m s = .ok a s' → f a s' ≠ .panic "unify.let_after_whnf") : NP (m >>= f) := by
  refine ⟨fun s h => ?_⟩
  have h : M.bind m f s = .panic "unify.let_after_whnf" := h
  simp only [M.bind] at h
  split at h
  · next a s' e => exact hf a s s' e h
  · cases h
  · next p e => cases h; exact hm.out s e

theorem NP.bind {α β} {m : M α} {f : α → M β} (hm : NP m) (hf : ∀ a, NP (f a)) : NP (m >>= f) :=
  NP.bind_val hm (fun a _ s' _ => (hf a).out s')

theorem NP.bind_post {α β} {Q : α → Prop} {m : M α} {f : α → M β} (hm : NP m) (hq : PostV Q m)
    (hf : ∀ a, Q a → NP (f a)) : NP (m >>= f) :=
  NP.bind_val hm (fun a s s' e => (hf a (hq.out s a s' e)).out s')

macro "np_step" : tactic => `(tactic| first
  | with_reducible exact NP.pure _
  | with_reducible exact NP.outOfFuel
  | with_reducible exact NP.panicAt _ (by decide)
  | with_reducible exact NP.getSt
  | with_reducible exact NP.cellGet _
  | with_reducible exact NP.cellFresh
  | with_reducible exact NP.cellSet _ _
  | with_reducible exact NP.pushD _
  | with_reducible exact NP.popD
  | with_reducible assumption
  | apply_hyp
  | with_reducible (apply NP.bind)
  | intro _
  | split)

macro "np" : tactic => `(tactic| repeat np_step)

theorem sshiftS_np : ∀ f,
    (∀ c amt t, NP (sshiftS f c amt t)) ∧ (∀ c amt ds, NP (sshiftDefsS f c amt ds)) := by
  intro f
  induction f with
  | zero =>
    constructor
    · intros; rw [sshiftS]; exact NP.outOfFuel
    · intros; rw [sshiftDefsS]; exact NP.outOfFuel
  | succ f ih =>
    obtain ⟨ih1, ih2⟩ := ih
    constructor
    · intro c amt t
      unfold sshiftS
      np
    · intro c amt ds
      unfold sshiftDefsS
      np

theorem ushiftS_np (f c a t) : NP (ushiftS f c a t) := by
  have := (sshiftS_np f).1
  unfold ushiftS
  np

theorem openS_np : ∀ f,
    (∀ t i u s, NP (openS f t i u s)) ∧ (∀ ds i u s, NP (openDefsS f ds i u s)) := by
  intro f
  induction f with
  | zero =>
    constructor
    · intros; rw [openS]; exact NP.outOfFuel
    · intros; rw [openDefsS]; exact NP.outOfFuel
  | succ f ih =>
    obtain ⟨ih1, ih2⟩ := ih
    have hu := ushiftS_np f
    constructor
    · intro t i u s
      unfold openS
      np
    · intro ds i u s
      unfold openDefsS
      np

theorem unfoldDefS_np (f x ann d index) : NP (unfoldDefS f x ann d index) := by
  have hu := ushiftS_np f
  have ho := (openS_np f).1
  unfold unfoldDefS
  np

theorem substDefsS_np (f ds idx u) : NP (substDefsS f ds idx u) := by
  have ho := (openS_np f).1
  fun_induction substDefsS f ds idx u <;> np

theorem letLoopS_np : ∀ f todo body, NP (letLoopS f todo body) := by
  intro f
  induction f with
  | zero => intros; rw [letLoopS]; exact NP.outOfFuel
  | succ f ih =>
    intro todo body
    have hu := unfoldDefS_np f
    have ho := (openS_np f).1
    have hs := substDefsS_np f
    unfold letLoopS
    np

theorem whnfS_np : ∀ f t, NP (whnfS f t) := by
  intro f
  induction f with
  | zero => intros; rw [whnfS]; exact NP.outOfFuel
  | succ f ih =>
    intro t
    have hu := ushiftS_np f
    have ho := (openS_np f).1
    have hl := letLoopS_np f
    unfold whnfS
    np

theorem derefS_np : ∀ f t, NP (derefS f t) := by
  intro f
  induction f with
  | zero => intros; rw [derefS]; exact NP.outOfFuel
  | succ f ih =>
    intro t
    have hu := ushiftS_np f
    unfold derefS
    np

theorem synEqS_np : ∀ f,
    (∀ a b, NP (synEqS f a b)) ∧ (∀ a b, NP (synEqDefsS f a b)) := by
  intro f
  induction f with
  | zero =>
    constructor
    · intros; rw [synEqS]; exact NP.outOfFuel
    · intros; rw [synEqDefsS]; exact NP.outOfFuel
  | succ f ih =>
    obtain ⟨ih1, ih2⟩ := ih
    have hd := derefS_np f
    constructor
    · intro a b
      unfold synEqS
      np
    · intro a b
      unfold synEqDefsS
      np

theorem occursS_np : ∀ f,
    (∀ id t, NP (occursS f id t)) ∧ (∀ id ds, NP (occursDefsS f id ds)) := by
  intro f
  induction f with
  | zero =>
    constructor
    · intros; rw [occursS]; exact NP.outOfFuel
    · intros; rw [occursDefsS]; exact NP.outOfFuel
  | succ f ih =>
    obtain ⟨ih1, ih2⟩ := ih
    constructor
    · intro id t
      unfold occursS
      np
    · intro id ds
      unfold occursDefsS
      np

theorem solveS_np (f id shift other) : NP (solveS f id shift other) := by
  have hs := (sshiftS_np f).1
  have ho := (occursS_np f).1
  unfold solveS
  np

theorem unifyS_np : ∀ f a b, NP (unifyS f a b) := by
  intro f
  induction f with
  | zero => intros; rw [unifyS]; exact NP.outOfFuel
  | succ f ih =>
    intro a b
    have hsyn := (synEqS_np f).1
    have hsolve := solveS_np f
    unfold unifyS
    refine NP.bind (hsyn _ _) (fun c => ?_)
    split
    · exact NP.pure _
    · refine NP.bind_post (whnfS_np f a) (whnfS_notLet f a) (fun w1 n1 => ?_)
      refine NP.bind_post (whnfS_np f b) (whnfS_notLet f b) (fun w2 n2 => ?_)
      extract_lets structural rightHole
      have hstruct : NP structural := by
        unfold structural
        split
        all_goals first
          | exact (n1 _ _ rfl).elim
          | exact (n2 _ _ rfl).elim
          | np
      have hright : NP rightHole := by
        unfold rightHole
        np
      np

/-! ## The occurs check does not change the state -/

instance : RT (fun (s s' : St) => s' = s) where
  refl _ := rfl
  trans h1 h2 := h2.trans h1

theorem occursS_same : ∀ f,
    (∀ id t, Preserves (fun s s' => s' = s) (occursS f id t)) ∧
    (∀ id ds, Preserves (fun s s' => s' = s) (occursDefsS f id ds)) := by
  intro f
  induction f with
  | zero =>
    constructor
    · intros; rw [occursS]; exact Preserves.outOfFuel
    · intros; rw [occursDefsS]; exact Preserves.outOfFuel
  | succ f ih =>
    obtain ⟨ih1, ih2⟩ := ih
    constructor
    · intro id t
      unfold occursS
      pres
    · intro id ds
      unfold occursDefsS
      pres

theorem occursS_state {f id t s a s'} (h : occursS f id t s = .ok a s') : s' = s :=
  ((occursS_same f).1 id t).out _ _ _ h

/-- what a successful assignment by `solveS` went through -/
theorem solveS_true {f id shift : Nat} {other : Tm} {s s' : St}
    (h : solveS f id shift other s = .ok (some true) s') :
    ∃ sol s1, sshiftS f 0 (-(shift : Int)) other s = .ok (some sol) s1 ∧
      occursS f id other s1 = .ok false s1 := by
  unfold solveS at h
  obtain ⟨o, s1, h1, h2⟩ := bind_ok h
  split at h2
  · obtain ⟨e, _⟩ := pure_ok h2; cases e
  · next sol =>
    obtain ⟨b, s2, h3, h4⟩ := bind_ok h2
    have e := occursS_state h3
    subst e
    split at h4
    · obtain ⟨e, _⟩ := pure_ok h4; cases e
    · next hb =>
      have : b = false := by simpa using hb
      subst this
      exact ⟨sol, _, h1, h3⟩

/-! ## Hole-free terms: the store layer computes the pure functions and leaves the state alone -/

mutual
theorem ushift_holeFree : ∀ (t : Tm) (c a : Nat), (ushift c a t).holeFree = t.holeFree
  | .var x i, c, a => by simp only [ushift]; split <;> rfl
  | .hole id s, c, a => by simp only [ushift]; split <;> rfl
  | .lam x im d b, c, a => by simp [ushift, Tm.holeFree, ushift_holeFree d, ushift_holeFree b]
  | .pi x im d b, c, a => by simp [ushift, Tm.holeFree, ushift_holeFree d, ushift_holeFree b]
  | .app f g, c, a => by simp [ushift, Tm.holeFree, ushift_holeFree f, ushift_holeFree g]
  | .letg ds b, c, a => by
      simp [ushift, Tm.holeFree, ushiftDefs_holeFree ds, ushift_holeFree b]
  | .neg t, c, a => by simp [ushift, Tm.holeFree, ushift_holeFree t]
  | .bin op t u, c, a => by simp [ushift, Tm.holeFree, ushift_holeFree t, ushift_holeFree u]
  | .ite t u v, c, a => by
      simp [ushift, Tm.holeFree, ushift_holeFree t, ushift_holeFree u, ushift_holeFree v]
  | .type, c, a | .int, c, a | .bool, c, a | .tt, c, a | .ff, c, a | .lit _, c, a => by
      simp [ushift]
theorem ushiftDefs_holeFree : ∀ (ds : Defs) (c a : Nat), (ushiftDefs c a ds).holeFree = ds.holeFree
  | .nil, c, a => by simp [ushiftDefs]
  | .cons x t u r, c, a => by
      simp [ushiftDefs, Defs.holeFree, ushift_holeFree t, ushift_holeFree u, ushiftDefs_holeFree r]
end

mutual
theorem openT_holeFree : ∀ (t : Tm) (i : Nat) (u : Tm) (s : Nat), t.holeFree = true →
    u.holeFree = true → (openT t i u s).holeFree = true
  | .var x j, i, u, s, _, hu => by
      unfold openT
      split
      · rw [ushift_holeFree]; exact hu
      · split <;> rfl
  | .hole id k, i, u, s, h, _ => by simp [Tm.holeFree] at h
  | .lam x im d b, i, u, s, h, hu => by
      simp only [Tm.holeFree, Bool.and_eq_true] at h
      simp [openT, Tm.holeFree, openT_holeFree d _ _ _ h.1 hu, openT_holeFree b _ _ _ h.2 hu]
  | .pi x im d b, i, u, s, h, hu => by
      simp only [Tm.holeFree, Bool.and_eq_true] at h
      simp [openT, Tm.holeFree, openT_holeFree d _ _ _ h.1 hu, openT_holeFree b _ _ _ h.2 hu]
  | .app f g, i, u, s, h, hu => by
      simp only [Tm.holeFree, Bool.and_eq_true] at h
      simp [openT, Tm.holeFree, openT_holeFree f _ _ _ h.1 hu, openT_holeFree g _ _ _ h.2 hu]
  | .letg ds b, i, u, s, h, hu => by
      simp only [Tm.holeFree, Bool.and_eq_true] at h
      simp [openT, Tm.holeFree, openDefs_holeFree ds _ _ _ h.1 hu, openT_holeFree b _ _ _ h.2 hu]
  | .neg t, i, u, s, h, hu => by
      simp only [Tm.holeFree] at h
      simp [openT, Tm.holeFree, openT_holeFree t _ _ _ h hu]
  | .bin op t v, i, u, s, h, hu => by
      simp only [Tm.holeFree, Bool.and_eq_true] at h
      simp [openT, Tm.holeFree, openT_holeFree t _ _ _ h.1 hu, openT_holeFree v _ _ _ h.2 hu]
  | .ite t v w, i, u, s, h, hu => by
      simp only [Tm.holeFree, Bool.and_eq_true] at h
      simp [openT, Tm.holeFree, openT_holeFree t _ _ _ h.1.1 hu, openT_holeFree v _ _ _ h.1.2 hu,
        openT_holeFree w _ _ _ h.2 hu]
  | .type, _, _, _, _, _ | .int, _, _, _, _, _ | .bool, _, _, _, _, _ | .tt, _, _, _, _, _
  | .ff, _, _, _, _, _ | .lit _, _, _, _, _, _ => by simp [openT, Tm.holeFree]
theorem openDefs_holeFree : ∀ (ds : Defs) (i : Nat) (u : Tm) (s : Nat), ds.holeFree = true →
    u.holeFree = true → (openDefs ds i u s).holeFree = true
  | .nil, _, _, _, _, _ => by simp [openDefs, Defs.holeFree]
  | .cons x a d r, i, u, s, h, hu => by
      simp only [Defs.holeFree, Bool.and_eq_true] at h
      simp [openDefs, Defs.holeFree, openT_holeFree a _ _ _ h.1.1 hu, openT_holeFree d _ _ _ h.1.2 hu,
        openDefs_holeFree r _ _ _ h.2 hu]
end

theorem unfoldDef_holeFree (x : Name) (ann d : Tm) (index : Nat) (ha : ann.holeFree = true)
    (hd : d.holeFree = true) : (unfoldDef x ann d index).holeFree = true := by
  unfold unfoldDef
  have hself : (Tm.var x 0).holeFree = true := rfl
  refine openT_holeFree _ _ _ _ hd ?_
  simp only [Tm.holeFree, Defs.holeFree, Bool.and_eq_true, Bool.and_true]
  exact ⟨openT_holeFree _ _ _ _ (by rw [ushift_holeFree]; exact ha) hself,
    openT_holeFree _ _ _ _ (by rw [ushift_holeFree]; exact hd) hself⟩

theorem delta_holeFree {op x y r} (h : delta op x y = some r) : r.holeFree = true := by
  unfold delta at h
  split at h <;> (try split at h) <;> cases h <;> (try split) <;> rfl

/-- every successful run of `m` returns `v` and leaves the state as it was -/
structure Det {α} (m : M α) (v : α) : Prop where
  out : ∀ s a s', m s = .ok a s' → a = v ∧ s' = s

theorem Det.pure {α} (a : α) : Det (pure a : M α) a :=
  ⟨fun s b s' h => by obtain ⟨rfl, rfl⟩ := pure_ok h; exact ⟨rfl, rfl⟩⟩
theorem Det.outOfFuel {α} {v : α} : Det (outOfFuel : M α) v := ⟨fun s b s' h => by cases h⟩
theorem Det.panicAt {α} {v : α} (site : String) : Det (panicAt site : M α) v :=
  ⟨fun s b s' h => by cases h⟩
theorem Det.bind {α β} {m : M α} {f : α → M β} {v : α} {w : β} (hm : Det m v) (hf : Det (f v) w) :
    Det (m >>= f) w := by
  refine ⟨fun s b s' h => ?_⟩
  obtain ⟨a, s1, h1, h2⟩ := bind_ok h
  obtain ⟨rfl, rfl⟩ := hm.out _ _ _ h1
  exact hf.out _ _ _ h2
/-- `Det.bind` with the intermediate value abstracted (so that a `match` on it can be split on both
sides at once) -/
theorem Det.bind' {α β} {m : M α} {f : α → M β} {v : α} {w : β} (hm : Det m v)
    (hf : ∀ a, v = a → Det (f a) w) : Det (m >>= f) w := Det.bind hm (hf v rfl)
/-- a successful run of `m >>= f` is a run of `f v` from the same state -/
theorem Det.bind_inv {α β} {m : M α} {f : α → M β} {v : α} (hm : Det m v) {s s' : St} {b : β}
    (h : (m >>= f) s = .ok b s') : f v s = .ok b s' := by
  obtain ⟨a, s1, h1, h2⟩ := bind_ok h
  obtain ⟨rfl, rfl⟩ := hm.out _ _ _ h1
  exact h2

set_option hygiene false in
local macro "hf_side" : tactic => `(tactic| first
  | exact hf | exact hf.1 | exact hf.2 | exact hf.1.1 | exact hf.1.2 | exact hu)

set_option hygiene false in
local macro "det_step" : tactic => `(tactic| first
  | with_reducible exact Det.pure _
  | with_reducible exact Det.outOfFuel
  | with_reducible exact Det.panicAt _
  | (with_reducible refine Det.bind' (ih1 _ _ _ (by hf_side)) (fun a ha => ?_)
     try rw [ha]
     cases a <;> dsimp only)
  | (with_reducible refine Det.bind' (ih2 _ _ _ (by hf_side)) (fun a ha => ?_)
     try rw [ha]
     cases a <;> dsimp only)
  | split)

theorem sshiftS_det : ∀ f,
    (∀ c amt t, t.holeFree = true → Det (sshiftS f c amt t) (sshift c amt t)) ∧
    (∀ c amt ds, ds.holeFree = true → Det (sshiftDefsS f c amt ds) (sshiftDefs c amt ds)) := by
  intro f
  induction f with
  | zero =>
    constructor
    · intros; rw [sshiftS]; exact Det.outOfFuel
    · intros; rw [sshiftDefsS]; exact Det.outOfFuel
  | succ f ih =>
    obtain ⟨ih1, ih2⟩ := ih
    constructor
    · intro c amt t hf
      cases t <;> simp only [Tm.holeFree, Bool.and_eq_true] at hf <;> unfold sshiftS sshift <;>
        dsimp only
      case hole => cases hf
      all_goals repeat det_step
    · intro c amt ds hf
      cases ds <;> simp only [Defs.holeFree, Bool.and_eq_true] at hf <;>
        unfold sshiftDefsS sshiftDefs <;> dsimp only
      all_goals repeat det_step

theorem ushiftS_det (f c a : Nat) (t : Tm) (hf : t.holeFree = true) :
    Det (ushiftS f c a t) (ushift c a t) := by
  unfold ushiftS
  refine Det.bind ((sshiftS_det f).1 c a t hf) ?_
  rw [sshift_ushift]
  exact Det.pure _

set_option hygiene false in
local macro "open_step" : tactic => `(tactic| first
  | with_reducible exact Det.pure _
  | with_reducible exact Det.outOfFuel
  | with_reducible refine Det.bind (ih1 _ _ _ _ (by hf_side) hu) ?_
  | with_reducible refine Det.bind (ih2 _ _ _ _ (by hf_side) hu) ?_)

theorem openS_det : ∀ f,
    (∀ t i u s, t.holeFree = true → u.holeFree = true → Det (openS f t i u s) (openT t i u s)) ∧
    (∀ ds i u s, ds.holeFree = true → u.holeFree = true →
      Det (openDefsS f ds i u s) (openDefs ds i u s)) := by
  intro f
  induction f with
  | zero =>
    constructor
    · intros; rw [openS]; exact Det.outOfFuel
    · intros; rw [openDefsS]; exact Det.outOfFuel
  | succ f ih =>
    obtain ⟨ih1, ih2⟩ := ih
    constructor
    · intro t i u s hf hu
      cases t <;> simp only [Tm.holeFree, Bool.and_eq_true] at hf <;> unfold openS openT <;>
        dsimp only
      case hole => cases hf
      case var x j =>
        split
        · exact ushiftS_det f 0 s u hu
        · split <;> exact Det.pure _
      all_goals repeat open_step
    · intro ds i u s hf hu
      cases ds <;> simp only [Defs.holeFree, Bool.and_eq_true] at hf <;>
        unfold openDefsS openDefs <;> dsimp only
      all_goals repeat open_step

theorem openS_det' (f : Nat) (t : Tm) (i : Nat) (u : Tm) (s : Nat) (hf : t.holeFree = true)
    (hu : u.holeFree = true) : Det (openS f t i u s) (openT t i u s) := (openS_det f).1 t i u s hf hu

theorem unfoldDefS_det (f : Nat) (x : Name) (ann d : Tm) (index : Nat) (ha : ann.holeFree = true)
    (hd : d.holeFree = true) : Det (unfoldDefS f x ann d index) (unfoldDef x ann d index) := by
  unfold unfoldDefS unfoldDef
  have hself : (Tm.var x 0).holeFree = true := rfl
  have ha1 : (ushift 0 1 ann).holeFree = true := by rw [ushift_holeFree]; exact ha
  have hd1 : (ushift 0 1 d).holeFree = true := by rw [ushift_holeFree]; exact hd
  refine Det.bind (ushiftS_det f 0 1 ann ha) ?_
  refine Det.bind (openS_det' f _ _ _ _ ha1 hself) ?_
  refine Det.bind (ushiftS_det f 0 1 d hd) ?_
  refine Det.bind (openS_det' f _ _ _ _ hd1 hself) ?_
  refine openS_det' f _ _ _ _ hd ?_
  simp only [Tm.holeFree, Defs.holeFree, Bool.and_eq_true, Bool.and_true]
  exact ⟨openT_holeFree _ _ _ _ ha1 hself, openT_holeFree _ _ _ _ hd1 hself⟩

theorem substDefsS_det (f : Nat) : ∀ (ds : Defs) (idx : Nat) (u : Tm), ds.holeFree = true →
    u.holeFree = true → Det (substDefsS f ds idx u) (openDefs ds idx u 0)
  | .nil, idx, u, _, _ => by unfold substDefsS openDefs; exact Det.pure _
  | .cons x a d r, idx, u, hf, hu => by
      simp only [Defs.holeFree, Bool.and_eq_true] at hf
      unfold substDefsS openDefs
      refine Det.bind (openS_det' f _ _ _ _ hf.1.1 hu) ?_
      refine Det.bind (openS_det' f _ _ _ _ hf.1.2 hu) ?_
      refine Det.bind (substDefsS_det f r idx u hf.2 hu) ?_
      exact Det.pure _

/-- the `Let` arm: `letLoopS` iterates `letStepX`, as `letAllX` does -/
theorem letLoopS_agree : ∀ (f : Nat) (todo : Defs) (body : Tm) (s : St) (b : Tm) (s' : St),
    todo.holeFree = true → body.holeFree = true → letLoopS f todo body s = .ok b s' →
    s' = s ∧ b.holeFree = true ∧ ∀ g b', letAllX g todo body = some b' → b = b' := by
  intro f
  induction f with
  | zero => intro todo body s b s' _ _ h; rw [letLoopS] at h; cases h
  | succ f ih =>
    intro todo body s b s' hd hb h
    cases todo with
    | nil =>
      unfold letLoopS at h
      obtain ⟨rfl, rfl⟩ := pure_ok h
      refine ⟨rfl, hb, fun g b' hx => ?_⟩
      cases g with
      | zero => simp [letAllX] at hx
      | succ g => simpa [letAllX] using hx
    | cons x a d r =>
      simp only [Defs.holeFree, Bool.and_eq_true] at hd
      have hu := unfoldDef_holeFree x a d r.len hd.1.1 hd.1.2
      unfold letLoopS at h
      dsimp only at h
      have h := (unfoldDefS_det f x a d r.len hd.1.1 hd.1.2).bind_inv h
      have h := (openS_det' f a r.len _ 0 hd.1.1 hu).bind_inv h
      have h := (openS_det' f d r.len _ 0 hd.1.2 hu).bind_inv h
      have h := (substDefsS_det f r r.len _ hd.2 hu).bind_inv h
      have h := (openS_det' f body r.len _ 0 hb hu).bind_inv h
      obtain ⟨e, hbf, hag⟩ := ih _ _ _ _ _ (openDefs_holeFree _ _ _ _ hd.2 hu)
        (openT_holeFree _ _ _ _ hb hu) h
      refine ⟨e, hbf, fun g b' hx => ?_⟩
      cases g with
      | zero => simp [letAllX] at hx
      | succ g =>
        refine hag g b' ?_
        simpa [letAllX, letStepX] using hx

/-- every definition in the context is hole-free -/
def DHF (Δ : DCtxX) : Prop := ∀ e ∈ Δ, ∀ d o, e = some (d, o) → d.holeFree = true

theorem whnfX_zero {Δ t r} (h : whnfX 0 Δ t = some r) : False := by simp [whnfX] at h

/-- on a hole-free term under a hole-free definitions context, a successful run of `whnfS` leaves the
state as it was, returns a hole-free term, and that term is what `whnfX` returns (with any fuel) -/
theorem whnf_agree : ∀ (f : Nat) (t : Tm) (s : St) (r : Tm) (s' : St), t.holeFree = true →
    DHF s.dctx → whnfS f t s = .ok r s' →
    s' = s ∧ r.holeFree = true ∧ ∀ g r', whnfX g s.dctx t = some r' → r = r' := by
  intro f
  induction f with
  | zero => intro t s r s' _ _ h; rw [whnfS] at h; cases h
  | succ f ih =>
    intro t s r s' hf hD h
    have triv : ∀ (t : Tm), t.holeFree = true → whnfS (f+1) t s = .ok r s' →
        (whnfS (f+1) t = pure t) → (∀ g, whnfX (g+1) s.dctx t = some t) →
        s' = s ∧ r.holeFree = true ∧ ∀ g r', whnfX g s.dctx t = some r' → r = r' := by
      intro t hf h e ex
      rw [e] at h
      obtain ⟨rfl, rfl⟩ := pure_ok h
      refine ⟨rfl, hf, fun g r' hx => ?_⟩
      cases g with
      | zero => exact (whnfX_zero hx).elim
      | succ g => rw [ex] at hx; exact Option.some.inj hx
    cases t with
    | hole id sh => cases hf
    | type => exact triv _ hf h (by unfold whnfS; rfl) (fun g => by unfold whnfX; rfl)
    | int => exact triv _ hf h (by unfold whnfS; rfl) (fun g => by unfold whnfX; rfl)
    | bool => exact triv _ hf h (by unfold whnfS; rfl) (fun g => by unfold whnfX; rfl)
    | tt => exact triv _ hf h (by unfold whnfS; rfl) (fun g => by unfold whnfX; rfl)
    | ff => exact triv _ hf h (by unfold whnfS; rfl) (fun g => by unfold whnfX; rfl)
    | lit n => exact triv _ hf h (by unfold whnfS; rfl) (fun g => by unfold whnfX; rfl)
    | lam x im d b => exact triv _ hf h (by unfold whnfS; rfl) (fun g => by unfold whnfX; rfl)
    | pi x im d b => exact triv _ hf h (by unfold whnfS; rfl) (fun g => by unfold whnfX; rfl)
    | var x i =>
      unfold whnfS at h
      dsimp only at h
      obtain ⟨st, s1, e1, h2⟩ := bind_ok h
      clear h
      cases e1
      rcases heq : s.dctx[i]? with _ | _ | ⟨d, off⟩ <;> rw [heq] at h2 <;> dsimp only at h2
      · cases h2
      · obtain ⟨rfl, rfl⟩ := pure_ok h2
        refine ⟨rfl, rfl, fun g r' hx => ?_⟩
        cases g with
        | zero => exact (whnfX_zero hx).elim
        | succ g =>
          unfold whnfX at hx
          dsimp only at hx
          rw [heq] at hx
          exact Option.some.inj hx
      · have hd : d.holeFree = true := hD _ (List.mem_of_getElem? heq) d off rfl
        split at h2
        · cases h2
        · next hlt =>
          have h := (ushiftS_det f 0 (i + 1 - off) d hd).bind_inv h2
          obtain ⟨e, hr, hag⟩ := ih _ _ _ _ (by rw [ushift_holeFree]; exact hd) hD h
          refine ⟨e, hr, fun g r' hx => ?_⟩
          cases g with
          | zero => exact (whnfX_zero hx).elim
          | succ g =>
            unfold whnfX at hx
            dsimp only at hx
            rw [heq] at hx
            dsimp only at hx
            rw [if_neg hlt] at hx
            exact hag g r' hx
    | app g0 a =>
      simp only [Tm.holeFree, Bool.and_eq_true] at hf
      unfold whnfS at h
      dsimp only at h
      obtain ⟨g', s1, h1, h2⟩ := bind_ok h
      clear h
      have h := h2; clear h2
      obtain ⟨rfl, hg', hag1⟩ := ih _ _ _ _ hf.1 hD h1
      split at h
      · next x im d body =>
        simp only [Tm.holeFree, Bool.and_eq_true] at hg'
        have h := (openS_det' f body 0 a 0 hg'.2 hf.2).bind_inv h
        obtain ⟨e, hr, hag⟩ := ih _ _ _ _ (openT_holeFree _ _ _ _ hg'.2 hf.2) hD h
        refine ⟨e, hr, fun g r' hx => ?_⟩
        cases g with
        | zero => exact (whnfX_zero hx).elim
        | succ g =>
          unfold whnfX at hx
          dsimp only at hx
          cases hg : whnfX g s1.dctx g0 with
          | none => rw [hg] at hx; cases hx
          | some g'' =>
            have := hag1 g g'' hg
            subst this
            rw [hg] at hx
            exact hag g r' hx
      · next hnl =>
        obtain ⟨rfl, rfl⟩ := pure_ok h
        refine ⟨rfl, by simp [Tm.holeFree, hg', hf.2], fun g r' hx => ?_⟩
        cases g with
        | zero => exact (whnfX_zero hx).elim
        | succ g =>
          unfold whnfX at hx
          dsimp only at hx
          cases hg : whnfX g s1.dctx g0 with
          | none => rw [hg] at hx; cases hx
          | some g'' =>
            have := hag1 g g'' hg
            subst this
            rw [hg] at hx
            split at hx
            · cases hx
            · next heq => cases heq; exact (hnl _ _ _ _ rfl).elim
            · next heq => cases heq; exact Option.some.inj hx
    | letg ds body =>
      simp only [Tm.holeFree, Bool.and_eq_true] at hf
      unfold whnfS at h
      dsimp only at h
      obtain ⟨b, s1, h1, h2⟩ := bind_ok h
      clear h
      have h := h2; clear h2
      obtain ⟨rfl, hb, hag1⟩ := letLoopS_agree _ _ _ _ _ _ hf.1 hf.2 h1
      obtain ⟨e, hr, hag⟩ := ih _ _ _ _ hb hD h
      refine ⟨e, hr, fun g r' hx => ?_⟩
      cases g with
      | zero => exact (whnfX_zero hx).elim
      | succ g =>
        unfold whnfX at hx
        dsimp only at hx
        cases hg : letAllX (g+1) ds body with
        | none => rw [hg] at hx; cases hx
        | some b' =>
          have := hag1 _ _ hg
          subst this
          rw [hg] at hx
          exact hag g r' hx
    | neg a =>
      simp only [Tm.holeFree] at hf
      unfold whnfS at h
      dsimp only at h
      obtain ⟨a', s1, h1, h2⟩ := bind_ok h
      clear h
      have h := h2; clear h2
      obtain ⟨rfl, ha', hag1⟩ := ih _ _ _ _ hf hD h1
      have key : ∀ g r', whnfX g s1.dctx (.neg a) = some r' →
          r' = (match (generalizing := false) a' with | .lit n => .lit (-n) | _ => .neg a') := by
        intro g r' hx
        cases g with
        | zero => exact (whnfX_zero hx).elim
        | succ g =>
          unfold whnfX at hx
          dsimp only at hx
          cases hg : whnfX g s1.dctx a with
          | none => rw [hg] at hx; cases hx
          | some a'' =>
            have := hag1 g a'' hg
            subst this
            rw [hg] at hx
            split at hx
            · cases hx
            · next heq => cases heq; exact (Option.some.inj hx).symm
            · next hn heq =>
              cases heq
              have := (Option.some.inj hx).symm
              subst this
              split
              · next n => exact (hn n rfl).elim
              · rfl
      split at h
      · obtain ⟨rfl, rfl⟩ := pure_ok h
        exact ⟨rfl, rfl, fun g r' hx => (key g r' hx).symm⟩
      · next hn =>
        obtain ⟨rfl, rfl⟩ := pure_ok h
        refine ⟨rfl, ha', fun g r' hx => ?_⟩
        rw [key g r' hx]
        split
        · next n => exact (hn n rfl).elim
        · rfl
    | bin op a b =>
      simp only [Tm.holeFree, Bool.and_eq_true] at hf
      unfold whnfS at h
      dsimp only at h
      obtain ⟨a', s1, h1, h2⟩ := bind_ok h
      clear h
      have h := h2; clear h2
      obtain ⟨rfl, ha', hag1⟩ := ih _ _ _ _ hf.1 hD h1
      obtain ⟨b', s2, h2, h3⟩ := bind_ok h
      clear h
      have h := h3; clear h3
      obtain ⟨rfl, hb', hag2⟩ := ih _ _ _ _ hf.2 hD h2
      have key : ∀ g r', whnfX g s2.dctx (.bin op a b) = some r' →
          r' = (match (generalizing := false) a', b' with
            | .lit x, .lit y => (match delta op x y with | some r => r | none => .bin op a' b')
            | _, _ => .bin op a' b') := by
        intro g r' hx
        cases g with
        | zero => exact (whnfX_zero hx).elim
        | succ g =>
          unfold whnfX at hx
          dsimp only at hx
          cases hga : whnfX g s2.dctx a with
          | none => rw [hga] at hx; split at hx <;> simp_all
          | some a'' =>
            cases hgb : whnfX g s2.dctx b with
            | none => rw [hga, hgb] at hx; split at hx <;> simp_all
            | some b'' =>
              have := hag1 g a'' hga
              subst this
              have := hag2 g b'' hgb
              subst this
              rw [hga, hgb] at hx
              split at hx
              · next x y e1 e2 =>
                cases e1; cases e2
                dsimp only
                split at hx <;> simp_all
              · next hn e1 e2 =>
                cases e1; cases e2
                have := (Option.some.inj hx).symm
                subst this
                split
                · next x y => exact (hn x y rfl rfl).elim
                · rfl
              · next hn1 hn2 => exact (hn2 _ _ rfl rfl).elim
      have hbin : (Tm.bin op a' b').holeFree = true := by simp [Tm.holeFree, ha', hb']
      split at h
      · next x y =>
        cases hdl : delta op x y with
        | some rr =>
          rw [hdl] at h
          obtain ⟨rfl, rfl⟩ := pure_ok h
          refine ⟨rfl, delta_holeFree hdl, fun g r' hx => ?_⟩
          rw [key g r' hx]
          dsimp only
          rw [hdl]
        | none =>
          rw [hdl] at h
          obtain ⟨rfl, rfl⟩ := pure_ok h
          refine ⟨rfl, hbin, fun g r' hx => ?_⟩
          rw [key g r' hx]
          dsimp only
          rw [hdl]
      · next hn =>
        obtain ⟨rfl, rfl⟩ := pure_ok h
        refine ⟨rfl, hbin, fun g r' hx => ?_⟩
        rw [key g r' hx]
        split
        · next x y => exact (hn x y rfl rfl).elim
        · rfl
    | ite c a b =>
      simp only [Tm.holeFree, Bool.and_eq_true] at hf
      unfold whnfS at h
      dsimp only at h
      obtain ⟨c', s1, h1, h2⟩ := bind_ok h
      clear h
      have h := h2; clear h2
      obtain ⟨rfl, hc', hag1⟩ := ih _ _ _ _ hf.1.1 hD h1
      have key : ∀ g r', whnfX (g+1) s1.dctx (.ite c a b) = some r' →
          (c' = .tt ∧ whnfX g s1.dctx a = some r') ∨ (c' = .ff ∧ whnfX g s1.dctx b = some r') ∨
          (c' ≠ .tt ∧ c' ≠ .ff ∧ r' = .ite c' a b) := by
        intro g r' hx
        unfold whnfX at hx
        dsimp only at hx
        cases hg : whnfX g s1.dctx c with
        | none => rw [hg] at hx; cases hx
        | some c'' =>
          have := hag1 g c'' hg
          subst this
          rw [hg] at hx
          split at hx
          · cases hx
          · next heq => cases heq; exact Or.inl ⟨rfl, hx⟩
          · next heq => cases heq; exact Or.inr (Or.inl ⟨rfl, hx⟩)
          · next h1 h2 heq =>
            cases heq
            refine Or.inr (Or.inr ⟨fun e => h1 (by rw [e]), fun e => h2 (by rw [e]),
              (Option.some.inj hx).symm⟩)
      split at h
      · obtain ⟨e, hr, hag⟩ := ih _ _ _ _ hf.1.2 hD h
        refine ⟨e, hr, fun g r' hx => ?_⟩
        cases g with
        | zero => exact (whnfX_zero hx).elim
        | succ g =>
          rcases key g r' hx with ⟨_, hx'⟩ | ⟨e', _⟩ | ⟨e', _⟩
          · exact hag g r' hx'
          · cases e'
          · exact (e' rfl).elim
      · obtain ⟨e, hr, hag⟩ := ih _ _ _ _ hf.2 hD h
        refine ⟨e, hr, fun g r' hx => ?_⟩
        cases g with
        | zero => exact (whnfX_zero hx).elim
        | succ g =>
          rcases key g r' hx with ⟨e', _⟩ | ⟨_, hx'⟩ | ⟨_, e', _⟩
          · cases e'
          · exact hag g r' hx'
          · exact (e' rfl).elim
      · next hn1 hn2 =>
        obtain ⟨rfl, rfl⟩ := pure_ok h
        refine ⟨rfl, by simp [Tm.holeFree, hc', hf.1.2, hf.2], fun g r' hx => ?_⟩
        cases g with
        | zero => exact (whnfX_zero hx).elim
        | succ g =>
          rcases key g r' hx with ⟨e', _⟩ | ⟨e', _⟩ | ⟨_, _, e'⟩
          · exact (hn1 e').elim
          · exact (hn2 e').elim
          · exact e'.symm

end WhnfLemmas
