import GramModel.Check
import GramModel.Oracle
import GramModel.Typing
import GramModel.Lemmas.DeBruijn
import GramModel.Lemmas.Oracle
import GramModel.Lemmas.StoreCtx
import GramModel.Lemmas.StoreMono
import GramModel.Lemmas.Whnf
import GramModel.Lemmas.Fuel
import GramModel.Lemmas.TypingSound

/-!
# Soundness of `unifyS` for declarative conversion (C12)

If `unifyS` answers `true`, no fresh cell was allocated during the run (no hole-copy event of `openS`,
KF-holecopy) and every hole of the two terms and of the store has a shift at least its binder depth
(`hdeep 0`: no hole below a cutoff, KF-holedepth), then the two terms zonked with any store extending the
final one are related by `Conv` (`Typing.lean`).

* `G2 s s'` : `s'` is `s` with empty cells appended to the store (everything below `solveS`).
* `hdeep c t` : every hole of `t` under `j` local binders has shift `≥ c + j`.
* `Zk σ t z` : `zonk n σ t = some z` for some fuel `n`; inversion/introduction lemmas per constructor.
* `sshiftS_zk`, `openS_zk`, `unfoldDefS_zk`, `letLoopS_zk`, `whnfS_zk`, `synEqS_zk`, `solveS_zk`:
  what the store-layer functions compute, read through `Zk σ` for a store `σ` extending the current one.
* `unifyS_sound`.
-/

/-! ## `hdeep`: no hole lies below a cutoff -/

mutual
/-- `hdeep c t`: every hole of `t` that stands under `j` binders of `t` has shift `≥ c + j` — its cell
lives outside all the binders of `t` (and `c` more).  `signed_shift` with cutoff `≤ c` then never meets
an unresolved hole whose shift is below the cutoff (the situation of finding KF-holedepth). -/
def hdeep (c : Nat) : Tm → Bool
  | .hole _ s => decide (c ≤ s)
  | .lam _ _ d b => hdeep c d && hdeep (c+1) b
  | .pi _ _ d b => hdeep c d && hdeep (c+1) b
  | .app f a => hdeep c f && hdeep c a
  | .letg ds b => hdeepDefs (c + ds.len) ds && hdeep (c + ds.len) b
  | .neg a => hdeep c a
  | .bin _ a b => hdeep c a && hdeep c b
  | .ite a b d => hdeep c a && hdeep c b && hdeep c d
  | _ => true
def hdeepDefs (c : Nat) : Defs → Bool
  | .nil => true
  | .cons _ a d r => hdeep c a && hdeep c d && hdeepDefs c r
end

/-- every filled cell of the store holds a term all of whose holes are at least as deep as their
binders (`hdeep 0`) -/
def storeDeep (σ : List (Option Tm)) : Prop :=
  ∀ (id : Nat) (sub : Tm), σ[id]? = some (some sub) → hdeep 0 sub = true


namespace UnifySound

open StoreMono (bind_ok pure_ok Preserves RT StoreLe Le Grow)
open WhnfLemmas (DHF)

/-! ## `zonk`: fuel monotonicity -/

theorem zonk_mono : ∀ (n : Nat) (σ : List (Option Tm)),
    (∀ t z, zonk n σ t = some z → zonk (n+1) σ t = some z) ∧
    (∀ ds z, zonkDefs n σ ds = some z → zonkDefs (n+1) σ ds = some z) := by
  intro n σ
  induction n with
  | zero => constructor <;> (intro t z h; simp [zonk, zonkDefs] at h)
  | succ n ih =>
    obtain ⟨ih1, ih2⟩ := ih
    constructor
    · intro t z h
      unfold zonk at h ⊢
      cases t <;> simp only at h ⊢ <;> try exact h
      case hole hid s =>
        split at h
        · next sub hs =>
          revert h
          cases hz : zonk n σ sub with
          | none => simp
          | some z' => rw [ih1 _ _ hz]; exact id
        · exact h
      case lam x im d b =>
        revert h
        cases hd : zonk n σ d with
        | none => simp
        | some d' =>
          cases hb : zonk n σ b with
          | none => simp
          | some b' => rw [ih1 _ _ hd, ih1 _ _ hb]; exact id
      case pi x im d b =>
        revert h
        cases hd : zonk n σ d with
        | none => simp
        | some d' =>
          cases hb : zonk n σ b with
          | none => simp
          | some b' => rw [ih1 _ _ hd, ih1 _ _ hb]; exact id
      case app g a =>
        revert h
        cases hd : zonk n σ g with
        | none => simp
        | some d' =>
          cases hb : zonk n σ a with
          | none => simp
          | some b' => rw [ih1 _ _ hd, ih1 _ _ hb]; exact id
      case letg ds b =>
        revert h
        cases hd : zonkDefs n σ ds with
        | none => simp
        | some d' =>
          cases hb : zonk n σ b with
          | none => simp
          | some b' => rw [ih2 _ _ hd, ih1 _ _ hb]; exact id
      case neg a =>
        revert h
        cases hd : zonk n σ a with
        | none => simp
        | some d' => rw [ih1 _ _ hd]; exact id
      case bin op a b =>
        revert h
        cases hd : zonk n σ a with
        | none => simp
        | some d' =>
          cases hb : zonk n σ b with
          | none => simp
          | some b' => rw [ih1 _ _ hd, ih1 _ _ hb]; exact id
      case ite c a b =>
        revert h
        cases hc : zonk n σ c with
        | none => simp
        | some c' =>
          cases hd : zonk n σ a with
          | none => simp
          | some d' =>
            cases hb : zonk n σ b with
            | none => simp
            | some b' => rw [ih1 _ _ hc, ih1 _ _ hd, ih1 _ _ hb]; exact id
    · intro ds z h
      unfold zonkDefs at h ⊢
      cases ds <;> simp only at h ⊢ <;> try exact h
      case cons x a d r =>
        revert h
        cases hc : zonk n σ a with
        | none => simp
        | some c' =>
          cases hd : zonk n σ d with
          | none => simp
          | some d' =>
            cases hb : zonkDefs n σ r with
            | none => simp
            | some b' => rw [ih1 _ _ hc, ih1 _ _ hd, ih2 _ _ hb]; exact id

theorem zonk_le {n m : Nat} (h : n ≤ m) {σ : List (Option Tm)} {t z : Tm}
    (hz : zonk n σ t = some z) : zonk m σ t = some z := by
  induction h with
  | refl => exact hz
  | step _ ih => exact (zonk_mono _ σ).1 _ _ ih

theorem zonkDefs_le {n m : Nat} (h : n ≤ m) {σ : List (Option Tm)} {t z : Defs}
    (hz : zonkDefs n σ t = some z) : zonkDefs m σ t = some z := by
  induction h with
  | refl => exact hz
  | step _ ih => exact (zonk_mono _ σ).2 _ _ ih

/-! ## `Zk σ t z`: `t` zonks to `z` under `σ` -/

def Zk (σ : List (Option Tm)) (t z : Tm) : Prop := ∃ n, zonk n σ t = some z
def ZkD (σ : List (Option Tm)) (ds zs : Defs) : Prop := ∃ n, zonkDefs n σ ds = some zs

variable {σ : List (Option Tm)}

theorem Zk_det {t z1 z2 : Tm} (h1 : Zk σ t z1) (h2 : Zk σ t z2) : z1 = z2 := by
  obtain ⟨n1, h1⟩ := h1
  obtain ⟨n2, h2⟩ := h2
  have a := zonk_le (Nat.le_max_left n1 n2) h1
  have b := zonk_le (Nat.le_max_right n1 n2) h2
  rw [a] at b
  exact Option.some.inj b

theorem ZkD_det {t z1 z2 : Defs} (h1 : ZkD σ t z1) (h2 : ZkD σ t z2) : z1 = z2 := by
  obtain ⟨n1, h1⟩ := h1
  obtain ⟨n2, h2⟩ := h2
  have a := zonkDefs_le (Nat.le_max_left n1 n2) h1
  have b := zonkDefs_le (Nat.le_max_right n1 n2) h2
  rw [a] at b
  exact Option.some.inj b

/-- terms without subterms other than holes -/
def Leaf : Tm → Prop
  | .type | .int | .bool | .tt | .ff | .lit _ | .var .. => True
  | _ => False

theorem Zk_leaf {t z : Tm} (hl : Leaf t) : Zk σ t z ↔ z = t := by
  constructor
  · rintro ⟨n, h⟩
    cases n with
    | zero => simp [zonk] at h
    | succ n => cases t <;> simp only [Leaf] at hl <;> simp only [zonk] at h <;> exact (Option.some.inj h).symm
  · rintro rfl
    refine ⟨1, ?_⟩
    cases z <;> simp only [Leaf] at hl <;> simp only [zonk]

theorem Zk_hole_none {id s : Nat} {z : Tm} (hs : ∀ sub, σ[id]? ≠ some (some sub)) :
    Zk σ (.hole id s) z ↔ z = .hole id s := by
  constructor
  · rintro ⟨n, h⟩
    cases n with
    | zero => simp [zonk] at h
    | succ n =>
      rcases hσ : σ[id]? with _ | _ | sub
      · simp only [zonk, hσ] at h; exact (Option.some.inj h).symm
      · simp only [zonk, hσ] at h; exact (Option.some.inj h).symm
      · exact absurd hσ (hs sub)
  · rintro rfl
    refine ⟨1, ?_⟩
    rcases hσ : σ[id]? with _ | _ | sub
    · simp only [zonk, hσ]
    · simp only [zonk, hσ]
    · exact absurd hσ (hs sub)

theorem Zk_hole_some {id s : Nat} {z sub : Tm} (hs : σ[id]? = some (some sub)) :
    Zk σ (.hole id s) z ↔ ∃ zs, Zk σ sub zs ∧ z = ushift 0 s zs := by
  constructor
  · rintro ⟨n, h⟩
    cases n with
    | zero => simp [zonk] at h
    | succ n =>
      simp only [zonk, hs] at h
      cases hz : zonk n σ sub with
      | none => rw [hz] at h; cases h
      | some zs => rw [hz] at h; exact ⟨zs, ⟨n, hz⟩, (Option.some.inj h).symm⟩
  · rintro ⟨zs, ⟨n, hz⟩, rfl⟩
    refine ⟨n + 1, ?_⟩
    simp only [zonk, hs, hz]

theorem Zk_neg {a z : Tm} : Zk σ (.neg a) z ↔ ∃ za, Zk σ a za ∧ z = .neg za := by
  constructor
  · rintro ⟨n, h⟩
    cases n with
    | zero => simp [zonk] at h
    | succ n =>
      simp only [zonk] at h
      cases hz : zonk n σ a with
      | none => rw [hz] at h; cases h
      | some zs => rw [hz] at h; exact ⟨zs, ⟨n, hz⟩, (Option.some.inj h).symm⟩
  · rintro ⟨zs, ⟨n, hz⟩, rfl⟩
    refine ⟨n + 1, ?_⟩
    simp only [zonk, hz]

set_option hygiene false in
local macro "zk2_fwd" f1:term:max f2:term:max : tactic => `(tactic| (
  rintro ⟨n, h⟩
  cases n with
  | zero => simp [zonk, zonkDefs] at h
  | succ n =>
    simp only [zonk, zonkDefs] at h
    cases h1 : $f1 n σ _ with
    | none => rw [h1] at h; simp at h
    | some z1 =>
      cases h2 : $f2 n σ _ with
      | none => rw [h1, h2] at h; simp at h
      | some z2 =>
        rw [h1, h2] at h
        exact ⟨z1, z2, ⟨n, h1⟩, ⟨n, h2⟩, (Option.some.inj h).symm⟩))

theorem Zk_app {g a z : Tm} :
    Zk σ (.app g a) z ↔ ∃ zg za, Zk σ g zg ∧ Zk σ a za ∧ z = .app zg za := by
  constructor
  · zk2_fwd zonk zonk
  · rintro ⟨zg, za, ⟨n1, h1⟩, ⟨n2, h2⟩, rfl⟩
    refine ⟨max n1 n2 + 1, ?_⟩
    simp only [zonk, zonk_le (Nat.le_max_left n1 n2) h1, zonk_le (Nat.le_max_right n1 n2) h2]

theorem Zk_lam {x : Name} {im : Bool} {d b z : Tm} :
    Zk σ (.lam x im d b) z ↔ ∃ zd zb, Zk σ d zd ∧ Zk σ b zb ∧ z = .lam x im zd zb := by
  constructor
  · zk2_fwd zonk zonk
  · rintro ⟨zg, za, ⟨n1, h1⟩, ⟨n2, h2⟩, rfl⟩
    refine ⟨max n1 n2 + 1, ?_⟩
    simp only [zonk, zonk_le (Nat.le_max_left n1 n2) h1, zonk_le (Nat.le_max_right n1 n2) h2]

theorem Zk_pi {x : Name} {im : Bool} {d b z : Tm} :
    Zk σ (.pi x im d b) z ↔ ∃ zd zb, Zk σ d zd ∧ Zk σ b zb ∧ z = .pi x im zd zb := by
  constructor
  · zk2_fwd zonk zonk
  · rintro ⟨zg, za, ⟨n1, h1⟩, ⟨n2, h2⟩, rfl⟩
    refine ⟨max n1 n2 + 1, ?_⟩
    simp only [zonk, zonk_le (Nat.le_max_left n1 n2) h1, zonk_le (Nat.le_max_right n1 n2) h2]

theorem Zk_bin {op : BinOp} {a b z : Tm} :
    Zk σ (.bin op a b) z ↔ ∃ za zb, Zk σ a za ∧ Zk σ b zb ∧ z = .bin op za zb := by
  constructor
  · zk2_fwd zonk zonk
  · rintro ⟨zg, za, ⟨n1, h1⟩, ⟨n2, h2⟩, rfl⟩
    refine ⟨max n1 n2 + 1, ?_⟩
    simp only [zonk, zonk_le (Nat.le_max_left n1 n2) h1, zonk_le (Nat.le_max_right n1 n2) h2]

theorem Zk_letg {ds : Defs} {b z : Tm} :
    Zk σ (.letg ds b) z ↔ ∃ zd zb, ZkD σ ds zd ∧ Zk σ b zb ∧ z = .letg zd zb := by
  constructor
  · zk2_fwd zonkDefs zonk
  · rintro ⟨zg, za, ⟨n1, h1⟩, ⟨n2, h2⟩, rfl⟩
    refine ⟨max n1 n2 + 1, ?_⟩
    simp only [zonk, zonkDefs_le (Nat.le_max_left n1 n2) h1, zonk_le (Nat.le_max_right n1 n2) h2]

theorem Zk_ite {c a b z : Tm} :
    Zk σ (.ite c a b) z ↔ ∃ zc za zb, Zk σ c zc ∧ Zk σ a za ∧ Zk σ b zb ∧ z = .ite zc za zb := by
  constructor
  · rintro ⟨n, h⟩
    cases n with
    | zero => simp [zonk] at h
    | succ n =>
      simp only [zonk] at h
      cases h1 : zonk n σ c with
      | none => rw [h1] at h; simp at h
      | some z1 =>
        cases h2 : zonk n σ a with
        | none => rw [h1, h2] at h; simp at h
        | some z2 =>
          cases h3 : zonk n σ b with
          | none => rw [h1, h2, h3] at h; simp at h
          | some z3 =>
            rw [h1, h2, h3] at h
            exact ⟨z1, z2, z3, ⟨n, h1⟩, ⟨n, h2⟩, ⟨n, h3⟩, (Option.some.inj h).symm⟩
  · rintro ⟨zc, zg, za, ⟨n0, h0⟩, ⟨n1, h1⟩, ⟨n2, h2⟩, rfl⟩
    refine ⟨max n0 (max n1 n2) + 1, ?_⟩
    simp only [zonk, zonk_le (by omega : n0 ≤ max n0 (max n1 n2)) h0,
      zonk_le (by omega : n1 ≤ max n0 (max n1 n2)) h1, zonk_le (by omega : n2 ≤ max n0 (max n1 n2)) h2]

theorem ZkD_nil {z : Defs} : ZkD σ .nil z ↔ z = .nil := by
  constructor
  · rintro ⟨n, h⟩
    cases n with
    | zero => simp [zonkDefs] at h
    | succ n => simp only [zonkDefs] at h; exact (Option.some.inj h).symm
  · rintro rfl; exact ⟨1, by simp only [zonkDefs]⟩

theorem ZkD_cons {x : Name} {a d : Tm} {r z : Defs} :
    ZkD σ (.cons x a d r) z ↔
      ∃ za zd zr, Zk σ a za ∧ Zk σ d zd ∧ ZkD σ r zr ∧ z = .cons x za zd zr := by
  constructor
  · rintro ⟨n, h⟩
    cases n with
    | zero => simp [zonkDefs] at h
    | succ n =>
      simp only [zonkDefs] at h
      cases h1 : zonk n σ a with
      | none => rw [h1] at h; simp at h
      | some z1 =>
        cases h2 : zonk n σ d with
        | none => rw [h1, h2] at h; simp at h
        | some z2 =>
          cases h3 : zonkDefs n σ r with
          | none => rw [h1, h2, h3] at h; simp at h
          | some z3 =>
            rw [h1, h2, h3] at h
            exact ⟨z1, z2, z3, ⟨n, h1⟩, ⟨n, h2⟩, ⟨n, h3⟩, (Option.some.inj h).symm⟩
  · rintro ⟨zc, zg, za, ⟨n0, h0⟩, ⟨n1, h1⟩, ⟨n2, h2⟩, rfl⟩
    refine ⟨max n0 (max n1 n2) + 1, ?_⟩
    simp only [zonkDefs, zonk_le (by omega : n0 ≤ max n0 (max n1 n2)) h0,
      zonk_le (by omega : n1 ≤ max n0 (max n1 n2)) h1,
      zonkDefs_le (by omega : n2 ≤ max n0 (max n1 n2)) h2]

theorem ZkD_len : ∀ {ds zs : Defs}, ZkD σ ds zs → zs.len = ds.len
  | .nil, zs, h => by rw [ZkD_nil] at h; subst h; rfl
  | .cons x a d r, zs, h => by
    rw [ZkD_cons] at h
    obtain ⟨za, zd, zr, _, _, hr, rfl⟩ := h
    simp [ZkD_len hr]

mutual
theorem Zk_holeFree : ∀ (t : Tm), t.holeFree = true → Zk σ t t
  | .hole _ _, h => by simp [Tm.holeFree] at h
  | .type, _ | .int, _ | .bool, _ | .tt, _ | .ff, _ | .lit _, _ | .var _ _, _ =>
      (Zk_leaf (by simp [Leaf])).2 rfl
  | .lam x im d b, h => by
      simp only [Tm.holeFree, Bool.and_eq_true] at h
      exact Zk_lam.2 ⟨_, _, Zk_holeFree d h.1, Zk_holeFree b h.2, rfl⟩
  | .pi x im d b, h => by
      simp only [Tm.holeFree, Bool.and_eq_true] at h
      exact Zk_pi.2 ⟨_, _, Zk_holeFree d h.1, Zk_holeFree b h.2, rfl⟩
  | .app g a, h => by
      simp only [Tm.holeFree, Bool.and_eq_true] at h
      exact Zk_app.2 ⟨_, _, Zk_holeFree g h.1, Zk_holeFree a h.2, rfl⟩
  | .letg ds b, h => by
      simp only [Tm.holeFree, Bool.and_eq_true] at h
      exact Zk_letg.2 ⟨_, _, ZkD_holeFree ds h.1, Zk_holeFree b h.2, rfl⟩
  | .neg a, h => by
      simp only [Tm.holeFree] at h
      exact Zk_neg.2 ⟨_, Zk_holeFree a h, rfl⟩
  | .bin op a b, h => by
      simp only [Tm.holeFree, Bool.and_eq_true] at h
      exact Zk_bin.2 ⟨_, _, Zk_holeFree a h.1, Zk_holeFree b h.2, rfl⟩
  | .ite c a b, h => by
      simp only [Tm.holeFree, Bool.and_eq_true] at h
      exact Zk_ite.2 ⟨_, _, _, Zk_holeFree c h.1.1, Zk_holeFree a h.1.2, Zk_holeFree b h.2, rfl⟩
theorem ZkD_holeFree : ∀ (ds : Defs), ds.holeFree = true → ZkD σ ds ds
  | .nil, _ => ZkD_nil.2 rfl
  | .cons x a d r, h => by
      simp only [Defs.holeFree, Bool.and_eq_true] at h
      exact ZkD_cons.2 ⟨_, _, _, Zk_holeFree a h.1.1, Zk_holeFree d h.1.2, ZkD_holeFree r h.2, rfl⟩
end

theorem Zk_holeFree_eq {t z : Tm} (hf : t.holeFree = true) (h : Zk σ t z) : z = t :=
  Zk_det h (Zk_holeFree t hf)


/-! ## `G2`: the state only got fresh empty cells -/

def G2 (s s' : St) : Prop := ∃ k, s' = { s with store := s.store ++ List.replicate k none }

instance : RT G2 where
  refl s := ⟨0, by simp⟩
  trans := by
    rintro a b c ⟨k1, rfl⟩ ⟨k2, rfl⟩
    exact ⟨k1 + k2, by simp [List.append_assoc, List.replicate_append_replicate]⟩

theorem G2.len_le {s s' : St} (h : G2 s s') : s.store.length ≤ s'.store.length := by
  obtain ⟨k, rfl⟩ := h; simp

theorem G2.eq {s s' : St} (h : G2 s s') (hl : s'.store.length ≤ s.store.length) : s' = s := by
  obtain ⟨k, rfl⟩ := h
  have : k = 0 := by simp at hl; omega
  subst this
  simp

theorem G2.dctx {s s' : St} (h : G2 s s') : s'.dctx = s.dctx := by
  obtain ⟨k, rfl⟩ := h; rfl

theorem G2.grow {s s' : St} (h : G2 s s') : Grow s s' := by
  obtain ⟨k, rfl⟩ := h
  exact ⟨⟨k, rfl⟩, Nat.le_refl _⟩

theorem cellFresh_g2 : Preserves G2 cellFresh := by
  refine ⟨fun s a s' h => ?_⟩; cases h
  exact ⟨1, rfl⟩

theorem sshiftS_g2' : ∀ f,
    (∀ c amt t, Preserves G2 (sshiftS f c amt t)) ∧
    (∀ c amt ds, Preserves G2 (sshiftDefsS f c amt ds)) := by
  intro f
  induction f with
  | zero =>
    constructor
    · intros; rw [sshiftS]; exact Preserves.outOfFuel
    · intros; rw [sshiftDefsS]; exact Preserves.outOfFuel
  | succ f ih =>
    obtain ⟨ih1, ih2⟩ := ih
    constructor
    · intro c amt t
      unfold sshiftS
      pres
    · intro c amt ds
      unfold sshiftDefsS
      pres

theorem sshiftS_g2 (f c amt t) : Preserves G2 (sshiftS f c amt t) := (sshiftS_g2' f).1 c amt t
theorem sshiftDefsS_g2 (f c amt ds) : Preserves G2 (sshiftDefsS f c amt ds) :=
  (sshiftS_g2' f).2 c amt ds

theorem ushiftS_g2 (f c a t) : Preserves G2 (ushiftS f c a t) := by
  have := sshiftS_g2 f c (a : Int) t
  unfold ushiftS
  pres

theorem openS_g2' : ∀ f,
    (∀ t i u s, Preserves G2 (openS f t i u s)) ∧
    (∀ ds i u s, Preserves G2 (openDefsS f ds i u s)) := by
  intro f
  induction f with
  | zero =>
    constructor
    · intros; rw [openS]; exact Preserves.outOfFuel
    · intros; rw [openDefsS]; exact Preserves.outOfFuel
  | succ f ih =>
    obtain ⟨ih1, ih2⟩ := ih
    have hu := ushiftS_g2 f
    have hf := cellFresh_g2
    constructor
    · intro t i u s
      unfold openS
      pres
    · intro ds i u s
      unfold openDefsS
      pres

theorem openS_g2 (f t i u s) : Preserves G2 (openS f t i u s) := (openS_g2' f).1 t i u s
theorem openDefsS_g2 (f ds i u s) : Preserves G2 (openDefsS f ds i u s) := (openS_g2' f).2 ds i u s

theorem unfoldDefS_g2 (f x ann d index) : Preserves G2 (unfoldDefS f x ann d index) := by
  have hu := ushiftS_g2 f
  have ho := openS_g2 f
  unfold unfoldDefS
  pres

theorem substDefsS_g2 (f ds idx u) : Preserves G2 (substDefsS f ds idx u) := by
  have ho := openS_g2 f
  fun_induction substDefsS f ds idx u <;> pres

theorem letLoopS_g2 : ∀ f todo body, Preserves G2 (letLoopS f todo body) := by
  intro f
  induction f with
  | zero => intros; rw [letLoopS]; exact Preserves.outOfFuel
  | succ f ih =>
    intro todo body
    have hu := unfoldDefS_g2 f
    have ho := openS_g2 f
    have hs := substDefsS_g2 f
    unfold letLoopS
    pres

theorem whnfS_g2 : ∀ f t, Preserves G2 (whnfS f t) := by
  intro f
  induction f with
  | zero => intros; rw [whnfS]; exact Preserves.outOfFuel
  | succ f ih =>
    intro t
    have hu := ushiftS_g2 f
    have ho := openS_g2 f
    have hl := letLoopS_g2 f
    unfold whnfS
    pres

theorem derefS_g2 : ∀ f t, Preserves G2 (derefS f t) := by
  intro f
  induction f with
  | zero => intros; rw [derefS]; exact Preserves.outOfFuel
  | succ f ih =>
    intro t
    have hu := ushiftS_g2 f
    unfold derefS
    pres

theorem synEqS_g2' : ∀ f,
    (∀ a b, Preserves G2 (synEqS f a b)) ∧
    (∀ a b, Preserves G2 (synEqDefsS f a b)) := by
  intro f
  induction f with
  | zero =>
    constructor
    · intros; rw [synEqS]; exact Preserves.outOfFuel
    · intros; rw [synEqDefsS]; exact Preserves.outOfFuel
  | succ f ih =>
    obtain ⟨ih1, ih2⟩ := ih
    have hd := derefS_g2 f
    constructor
    · intro a b
      unfold synEqS
      pres
    · intro a b
      unfold synEqDefsS
      pres

theorem synEqS_g2 (f a b) : Preserves G2 (synEqS f a b) := (synEqS_g2' f).1 a b
theorem synEqDefsS_g2 (f a b) : Preserves G2 (synEqDefsS f a b) := (synEqS_g2' f).2 a b

/-! ## `NFa s m Q`: a run of `m` from `s` that allocates no cell returns a value satisfying `Q` -/

def NFa {α} (s : St) (m : M α) (Q : α → Prop) : Prop :=
  ∀ r s', m s = .ok r s' → s'.store.length ≤ s.store.length → Q r

theorem NFa.bind {α β} {s : St} {m : M α} {f : α → M β} {Q1 : α → Prop} {Q : β → Prop}
    (hmG : Preserves G2 m) (hfG : ∀ a, Preserves G2 (f a)) (hm : NFa s m Q1)
    (hf : ∀ a, Q1 a → NFa s (f a) Q) : NFa s (m >>= f) Q := by
  intro b s' h hl
  obtain ⟨a, s1, h1, h2⟩ := bind_ok h
  have g1 := hmG.out _ _ _ h1
  have g2 := (hfG a).out _ _ _ h2
  have l1 := g1.len_le
  have l2 := g2.len_le
  have e : s1 = s := g1.eq (by omega)
  subst e
  exact hf a (hm a _ h1 (by omega)) b s' h2 hl

theorem NFa.pure {α} {s : St} {a : α} {Q : α → Prop} (h : Q a) : NFa s (pure a : M α) Q := by
  intro b s' e _
  obtain ⟨rfl, _⟩ := pure_ok e
  exact h

theorem NFa.outOfFuel {α} {s : St} {Q : α → Prop} : NFa s (outOfFuel : M α) Q := by
  intro b s' e; cases e

theorem NFa.panicAt {α} {s : St} {Q : α → Prop} (site : String) : NFa s (panicAt site : M α) Q := by
  intro b s' e; cases e

theorem NFa.mono {α} {s : St} {m : M α} {Q Q' : α → Prop} (h : NFa s m Q) (hq : ∀ a, Q a → Q' a) :
    NFa s m Q' := fun r s' e hl => hq r (h r s' e hl)

/-- the contents of a cell (`none` for an unresolved or unallocated cell) -/
def cellVal (σ : List (Option Tm)) (id : Nat) : Option Tm :=
  match σ[id]? with | some c => c | none => none

theorem cellVal_some {σ : List (Option Tm)} {id : Nat} {sub : Tm} :
    cellVal σ id = some sub ↔ σ[id]? = some (some sub) := by
  unfold cellVal
  rcases σ[id]? with _ | _ | x <;> simp

theorem NFa.cellGet {β} {s : St} {id : Nat} {k : Option Tm → M β} {Q : β → Prop}
    (h : NFa s (k (cellVal s.store id)) Q) : NFa s (cellGet id >>= k) Q := h

theorem NFa.getSt {β} {s : St} {k : St → M β} {Q : β → Prop}
    (h : NFa s (k s) Q) : NFa s (getSt >>= k) Q := h


/-! ## pure lemmas about `hdeep` and shifts -/

mutual
theorem hdeep_anti : ∀ (t : Tm) (c c' : Nat), c' ≤ c → hdeep c t = true → hdeep c' t = true
  | .hole _ s, c, c', hc, h => by simp only [hdeep, decide_eq_true_eq] at h ⊢; omega
  | .lam _ _ d b, c, c', hc, h => by
      simp only [hdeep, Bool.and_eq_true] at h ⊢
      exact ⟨hdeep_anti d c c' hc h.1, hdeep_anti b _ _ (by omega) h.2⟩
  | .pi _ _ d b, c, c', hc, h => by
      simp only [hdeep, Bool.and_eq_true] at h ⊢
      exact ⟨hdeep_anti d c c' hc h.1, hdeep_anti b _ _ (by omega) h.2⟩
  | .app f a, c, c', hc, h => by
      simp only [hdeep, Bool.and_eq_true] at h ⊢
      exact ⟨hdeep_anti f c c' hc h.1, hdeep_anti a c c' hc h.2⟩
  | .letg ds b, c, c', hc, h => by
      simp only [hdeep, Bool.and_eq_true] at h ⊢
      exact ⟨hdeepDefs_anti ds _ _ (by omega) h.1, hdeep_anti b _ _ (by omega) h.2⟩
  | .neg a, c, c', hc, h => by
      simp only [hdeep] at h ⊢
      exact hdeep_anti a c c' hc h
  | .bin _ a b, c, c', hc, h => by
      simp only [hdeep, Bool.and_eq_true] at h ⊢
      exact ⟨hdeep_anti a c c' hc h.1, hdeep_anti b c c' hc h.2⟩
  | .ite a b d, c, c', hc, h => by
      simp only [hdeep, Bool.and_eq_true] at h ⊢
      exact ⟨⟨hdeep_anti a c c' hc h.1.1, hdeep_anti b c c' hc h.1.2⟩, hdeep_anti d c c' hc h.2⟩
  | .type, _, _, _, _ | .int, _, _, _, _ | .bool, _, _, _, _ | .tt, _, _, _, _ | .ff, _, _, _, _
  | .lit _, _, _, _, _ | .var _ _, _, _, _, _ => by simp [hdeep]
theorem hdeepDefs_anti : ∀ (ds : Defs) (c c' : Nat), c' ≤ c → hdeepDefs c ds = true →
    hdeepDefs c' ds = true
  | .nil, _, _, _, _ => by simp [hdeepDefs]
  | .cons _ a d r, c, c', hc, h => by
      simp only [hdeepDefs, Bool.and_eq_true] at h ⊢
      exact ⟨⟨hdeep_anti a c c' hc h.1.1, hdeep_anti d c c' hc h.1.2⟩, hdeepDefs_anti r c c' hc h.2⟩
end

mutual
theorem hdeep_holeFree : ∀ (t : Tm) (c : Nat), t.holeFree = true → hdeep c t = true
  | .hole _ s, c, h => by simp [Tm.holeFree] at h
  | .lam _ _ d b, c, h => by
      simp only [Tm.holeFree, hdeep, Bool.and_eq_true] at h ⊢
      exact ⟨hdeep_holeFree d _ h.1, hdeep_holeFree b _ h.2⟩
  | .pi _ _ d b, c, h => by
      simp only [Tm.holeFree, hdeep, Bool.and_eq_true] at h ⊢
      exact ⟨hdeep_holeFree d _ h.1, hdeep_holeFree b _ h.2⟩
  | .app f a, c, h => by
      simp only [Tm.holeFree, hdeep, Bool.and_eq_true] at h ⊢
      exact ⟨hdeep_holeFree f _ h.1, hdeep_holeFree a _ h.2⟩
  | .letg ds b, c, h => by
      simp only [Tm.holeFree, hdeep, Bool.and_eq_true] at h ⊢
      exact ⟨hdeepDefs_holeFree ds _ h.1, hdeep_holeFree b _ h.2⟩
  | .neg a, c, h => by
      simp only [Tm.holeFree, hdeep] at h ⊢
      exact hdeep_holeFree a _ h
  | .bin _ a b, c, h => by
      simp only [Tm.holeFree, hdeep, Bool.and_eq_true] at h ⊢
      exact ⟨hdeep_holeFree a _ h.1, hdeep_holeFree b _ h.2⟩
  | .ite a b d, c, h => by
      simp only [Tm.holeFree, hdeep, Bool.and_eq_true] at h ⊢
      exact ⟨⟨hdeep_holeFree a _ h.1.1, hdeep_holeFree b _ h.1.2⟩, hdeep_holeFree d _ h.2⟩
  | .type, _, _ | .int, _, _ | .bool, _, _ | .tt, _, _ | .ff, _, _
  | .lit _, _, _ | .var _ _, _, _ => by simp [hdeep]
theorem hdeepDefs_holeFree : ∀ (ds : Defs) (c : Nat), ds.holeFree = true → hdeepDefs c ds = true
  | .nil, _, _ => by simp [hdeepDefs]
  | .cons _ a d r, c, h => by
      simp only [Defs.holeFree, hdeepDefs, Bool.and_eq_true] at h ⊢
      exact ⟨⟨hdeep_holeFree a _ h.1.1, hdeep_holeFree d _ h.1.2⟩, hdeepDefs_holeFree r _ h.2⟩
end

mutual
/-- lowering or raising at cutoff `c + j` a term that was raised by `k ≥ c` at cutoff `j` -/
theorem sshift_of_ushift : ∀ (z : Tm) (c j k m : Nat) (amt : Int), c ≤ k → c ≤ m → (m : Int) = k + amt →
    sshift (c + j) amt (ushift j k z) = some (ushift j m z)
  | .var x i, c, j, k, m, amt, h1, h2, h3 => by
      simp only [ushift]
      split
      · simp only [sshift]
        rw [if_pos (by omega), if_pos (by omega)]
        congr 2; omega
      · simp only [sshift]
        rw [if_neg (by omega)]
  | .hole x i, c, j, k, m, amt, h1, h2, h3 => by
      simp only [ushift]
      split
      · simp only [sshift]
        rw [if_pos (by omega), if_pos (by omega)]
        congr 2; omega
      · simp only [sshift]
        rw [if_neg (by omega)]
  | .lam x im d b, c, j, k, m, amt, h1, h2, h3 => by
      simp only [ushift, sshift, sshift_of_ushift d c j k m amt h1 h2 h3]
      have := sshift_of_ushift b c (j+1) k m amt h1 h2 h3
      rw [← Nat.add_assoc] at this
      rw [this]
  | .pi x im d b, c, j, k, m, amt, h1, h2, h3 => by
      simp only [ushift, sshift, sshift_of_ushift d c j k m amt h1 h2 h3]
      have := sshift_of_ushift b c (j+1) k m amt h1 h2 h3
      rw [← Nat.add_assoc] at this
      rw [this]
  | .app f a, c, j, k, m, amt, h1, h2, h3 => by
      simp only [ushift, sshift, sshift_of_ushift f c j k m amt h1 h2 h3,
        sshift_of_ushift a c j k m amt h1 h2 h3]
  | .letg ds b, c, j, k, m, amt, h1, h2, h3 => by
      simp only [ushift, sshift, ushiftDefs_len]
      have e1 := sshiftDefs_of_ushiftDefs ds c (j + ds.len) k m amt h1 h2 h3
      have e2 := sshift_of_ushift b c (j + ds.len) k m amt h1 h2 h3
      rw [← Nat.add_assoc] at e1 e2
      rw [e1, e2]
  | .neg a, c, j, k, m, amt, h1, h2, h3 => by
      simp only [ushift, sshift, sshift_of_ushift a c j k m amt h1 h2 h3]
  | .bin op a b, c, j, k, m, amt, h1, h2, h3 => by
      simp only [ushift, sshift, sshift_of_ushift a c j k m amt h1 h2 h3,
        sshift_of_ushift b c j k m amt h1 h2 h3]
  | .ite a b d, c, j, k, m, amt, h1, h2, h3 => by
      simp only [ushift, sshift, sshift_of_ushift a c j k m amt h1 h2 h3,
        sshift_of_ushift b c j k m amt h1 h2 h3, sshift_of_ushift d c j k m amt h1 h2 h3]
  | .type, _, _, _, _, _, _, _, _ | .int, _, _, _, _, _, _, _, _ | .bool, _, _, _, _, _, _, _, _
  | .tt, _, _, _, _, _, _, _, _ | .ff, _, _, _, _, _, _, _, _ | .lit _, _, _, _, _, _, _, _, _ => by
      simp [ushift, sshift]
theorem sshiftDefs_of_ushiftDefs : ∀ (ds : Defs) (c j k m : Nat) (amt : Int), c ≤ k → c ≤ m →
    (m : Int) = k + amt → sshiftDefs (c + j) amt (ushiftDefs j k ds) = some (ushiftDefs j m ds)
  | .nil, _, _, _, _, _, _, _, _ => by simp [ushiftDefs, sshiftDefs]
  | .cons x a d r, c, j, k, m, amt, h1, h2, h3 => by
      simp only [ushiftDefs, sshiftDefs, sshift_of_ushift a c j k m amt h1 h2 h3,
        sshift_of_ushift d c j k m amt h1 h2 h3, sshiftDefs_of_ushiftDefs r c j k m amt h1 h2 h3]
end


/-! ## `sshiftS` read through `Zk σ` -/

def ShiftQ (σ : List (Option Tm)) (c : Nat) (amt : Int) (t : Tm) (o : Option Tm) : Prop :=
  ∀ r, o = some r → hdeep (c + amt.toNat) r = true ∧
    ∀ zt, Zk σ t zt → ∃ zr, sshift c amt zt = some zr ∧ Zk σ r zr

def ShiftDQ (σ : List (Option Tm)) (c : Nat) (amt : Int) (ds : Defs) (o : Option Defs) : Prop :=
  ∀ r, o = some r → r.len = ds.len ∧ hdeepDefs (c + amt.toNat) r = true ∧
    ∀ zt, ZkD σ ds zt → ∃ zr, sshiftDefs c amt zt = some zr ∧ ZkD σ r zr

theorem sshiftS_zk : ∀ f,
    (∀ c amt t s, storeDeep s.store → StoreLe s.store σ → hdeep c t = true →
      NFa s (sshiftS f c amt t) (ShiftQ σ c amt t)) ∧
    (∀ c amt ds s, storeDeep s.store → StoreLe s.store σ → hdeepDefs c ds = true →
      NFa s (sshiftDefsS f c amt ds) (ShiftDQ σ c amt ds)) := by
  intro f
  induction f with
  | zero =>
    constructor
    · intros; rw [sshiftS]; exact NFa.outOfFuel
    · intros; rw [sshiftDefsS]; exact NFa.outOfFuel
  | succ f ih =>
    obtain ⟨ih1, ih2⟩ := ih
    have hg := sshiftS_g2 f
    have hgd := sshiftDefsS_g2 f
    constructor
    · intro c amt t s hS hL hd
      cases t <;> unfold sshiftS <;> dsimp only
      case hole id k =>
        simp only [hdeep, decide_eq_true_eq] at hd
        refine NFa.cellGet ?_
        cases hv : cellVal s.store id with
        | some sub =>
          dsimp only
          have hsub : s.store[id]? = some (some sub) := cellVal_some.1 hv
          have hd0 : hdeep 0 sub = true := hS _ _ hsub
          refine NFa.bind (hg ..) (fun _ => by pres) (ih1 0 k sub s hS hL hd0) (fun o q => ?_)
          cases o with
          | none => exact NFa.panicAt _
          | some sub' =>
            dsimp only
            obtain ⟨hd1, hz1⟩ := q _ rfl
            have hd1' : hdeep c sub' = true := hdeep_anti _ _ _ (by simp; omega) hd1
            refine (ih1 c amt sub' s hS hL hd1').mono (fun o2 q2 => ?_)
            intro r e
            obtain ⟨hr, hz2⟩ := q2 r e
            refine ⟨hr, fun zt hzt => ?_⟩
            rw [Zk_hole_some (hL.2 _ _ hsub)] at hzt
            obtain ⟨zs, hzs, rfl⟩ := hzt
            obtain ⟨z1, e1, k1⟩ := hz1 _ hzs
            rw [sshift_ushift] at e1
            cases e1
            exact hz2 _ k1
        | none =>
          dsimp only
          split
          · split
            · next h2 =>
              refine NFa.pure ?_
              intro r e
              cases e
              refine ⟨by simp only [hdeep, decide_eq_true_eq]; omega, fun zt hzt => ?_⟩
              have hm : (((k : Int) + amt).toNat : Int) = k + amt := by omega
              rcases hσ : σ[id]? with _ | _ | sub'
              · rw [Zk_hole_none (by simp [hσ])] at hzt
                subst hzt
                refine ⟨_, ?_, (Zk_hole_none (by simp [hσ])).2 rfl⟩
                simp only [sshift]
                rw [if_pos (by omega), if_pos (by omega)]
              · rw [Zk_hole_none (by simp [hσ])] at hzt
                subst hzt
                refine ⟨_, ?_, (Zk_hole_none (by simp [hσ])).2 rfl⟩
                simp only [sshift]
                rw [if_pos (by omega), if_pos (by omega)]
              · rw [Zk_hole_some hσ] at hzt
                obtain ⟨zs, hzs, rfl⟩ := hzt
                refine ⟨_, ?_, (Zk_hole_some hσ).2 ⟨zs, hzs, rfl⟩⟩
                have := sshift_of_ushift zs c 0 k ((k : Int) + amt).toNat amt hd (by omega) hm
                simpa using this
            · refine NFa.pure ?_
              intro r e
              cases e
          · omega
      case var x i =>
        split
        · split
          · refine NFa.pure ?_
            intro r e
            cases e
            refine ⟨by simp [hdeep], fun zt hzt => ?_⟩
            rw [Zk_leaf (by simp [Leaf])] at hzt
            subst hzt
            refine ⟨_, ?_, (Zk_leaf (by simp [Leaf])).2 rfl⟩
            simp only [sshift]
            rw [if_pos (by omega), if_pos (by omega)]
          · refine NFa.pure ?_
            intro r e
            cases e
        · refine NFa.pure ?_
          intro r e
          cases e
          refine ⟨by simp [hdeep], fun zt hzt => ?_⟩
          rw [Zk_leaf (by simp [Leaf])] at hzt
          subst hzt
          refine ⟨_, ?_, (Zk_leaf (by simp [Leaf])).2 rfl⟩
          simp only [sshift]
          rw [if_neg (by omega)]
      case lam x im d b =>
        simp only [hdeep, Bool.and_eq_true] at hd
        refine NFa.bind (hg ..) (fun _ => by pres) (ih1 c amt d s hS hL hd.1) (fun o1 q1 => ?_)
        cases o1 with
        | none => exact NFa.pure (fun r e => by cases e)
        | some d' =>
          dsimp only
          refine NFa.bind (hg ..) (fun _ => by pres) (ih1 (c+1) amt b s hS hL hd.2) (fun o2 q2 => ?_)
          cases o2 with
          | none => exact NFa.pure (fun r e => by cases e)
          | some b' =>
            refine NFa.pure ?_
            intro r e
            cases e
            obtain ⟨h1, z1⟩ := q1 _ rfl
            obtain ⟨h2, z2⟩ := q2 _ rfl
            refine ⟨by simp only [hdeep, Bool.and_eq_true]; exact ⟨h1, by rw [Nat.add_right_comm]; exact h2⟩,
              fun zt hzt => ?_⟩
            rw [Zk_lam] at hzt
            obtain ⟨zd, zb, hzd, hzb, rfl⟩ := hzt
            obtain ⟨zd', e1, k1⟩ := z1 _ hzd
            obtain ⟨zb', e2, k2⟩ := z2 _ hzb
            exact ⟨_, by simp only [sshift, e1, e2], Zk_lam.2 ⟨_, _, k1, k2, rfl⟩⟩
      case pi x im d b =>
        simp only [hdeep, Bool.and_eq_true] at hd
        refine NFa.bind (hg ..) (fun _ => by pres) (ih1 c amt d s hS hL hd.1) (fun o1 q1 => ?_)
        cases o1 with
        | none => exact NFa.pure (fun r e => by cases e)
        | some d' =>
          dsimp only
          refine NFa.bind (hg ..) (fun _ => by pres) (ih1 (c+1) amt b s hS hL hd.2) (fun o2 q2 => ?_)
          cases o2 with
          | none => exact NFa.pure (fun r e => by cases e)
          | some b' =>
            refine NFa.pure ?_
            intro r e
            cases e
            obtain ⟨h1, z1⟩ := q1 _ rfl
            obtain ⟨h2, z2⟩ := q2 _ rfl
            refine ⟨by simp only [hdeep, Bool.and_eq_true]; exact ⟨h1, by rw [Nat.add_right_comm]; exact h2⟩,
              fun zt hzt => ?_⟩
            rw [Zk_pi] at hzt
            obtain ⟨zd, zb, hzd, hzb, rfl⟩ := hzt
            obtain ⟨zd', e1, k1⟩ := z1 _ hzd
            obtain ⟨zb', e2, k2⟩ := z2 _ hzb
            exact ⟨_, by simp only [sshift, e1, e2], Zk_pi.2 ⟨_, _, k1, k2, rfl⟩⟩
      case app g a =>
        simp only [hdeep, Bool.and_eq_true] at hd
        refine NFa.bind (hg ..) (fun _ => by pres) (ih1 c amt g s hS hL hd.1) (fun o1 q1 => ?_)
        cases o1 with
        | none => exact NFa.pure (fun r e => by cases e)
        | some d' =>
          dsimp only
          refine NFa.bind (hg ..) (fun _ => by pres) (ih1 c amt a s hS hL hd.2) (fun o2 q2 => ?_)
          cases o2 with
          | none => exact NFa.pure (fun r e => by cases e)
          | some b' =>
            refine NFa.pure ?_
            intro r e
            cases e
            obtain ⟨h1, z1⟩ := q1 _ rfl
            obtain ⟨h2, z2⟩ := q2 _ rfl
            refine ⟨by simp only [hdeep, Bool.and_eq_true]; exact ⟨h1, h2⟩, fun zt hzt => ?_⟩
            rw [Zk_app] at hzt
            obtain ⟨zd, zb, hzd, hzb, rfl⟩ := hzt
            obtain ⟨zd', e1, k1⟩ := z1 _ hzd
            obtain ⟨zb', e2, k2⟩ := z2 _ hzb
            exact ⟨_, by simp only [sshift, e1, e2], Zk_app.2 ⟨_, _, k1, k2, rfl⟩⟩
      case bin op g a =>
        simp only [hdeep, Bool.and_eq_true] at hd
        refine NFa.bind (hg ..) (fun _ => by pres) (ih1 c amt g s hS hL hd.1) (fun o1 q1 => ?_)
        cases o1 with
        | none => exact NFa.pure (fun r e => by cases e)
        | some d' =>
          dsimp only
          refine NFa.bind (hg ..) (fun _ => by pres) (ih1 c amt a s hS hL hd.2) (fun o2 q2 => ?_)
          cases o2 with
          | none => exact NFa.pure (fun r e => by cases e)
          | some b' =>
            refine NFa.pure ?_
            intro r e
            cases e
            obtain ⟨h1, z1⟩ := q1 _ rfl
            obtain ⟨h2, z2⟩ := q2 _ rfl
            refine ⟨by simp only [hdeep, Bool.and_eq_true]; exact ⟨h1, h2⟩, fun zt hzt => ?_⟩
            rw [Zk_bin] at hzt
            obtain ⟨zd, zb, hzd, hzb, rfl⟩ := hzt
            obtain ⟨zd', e1, k1⟩ := z1 _ hzd
            obtain ⟨zb', e2, k2⟩ := z2 _ hzb
            exact ⟨_, by simp only [sshift, e1, e2], Zk_bin.2 ⟨_, _, k1, k2, rfl⟩⟩
      case letg ds b =>
        simp only [hdeep, Bool.and_eq_true] at hd
        refine NFa.bind (hgd ..) (fun _ => by pres) (ih2 (c + ds.len) amt ds s hS hL hd.1) (fun o1 q1 => ?_)
        cases o1 with
        | none => exact NFa.pure (fun r e => by cases e)
        | some d' =>
          dsimp only
          refine NFa.bind (hg ..) (fun _ => by pres) (ih1 (c + ds.len) amt b s hS hL hd.2) (fun o2 q2 => ?_)
          cases o2 with
          | none => exact NFa.pure (fun r e => by cases e)
          | some b' =>
            refine NFa.pure ?_
            intro r e
            cases e
            obtain ⟨hl, h1, z1⟩ := q1 _ rfl
            obtain ⟨h2, z2⟩ := q2 _ rfl
            refine ⟨by simp only [hdeep, Bool.and_eq_true, hl]
                       rw [Nat.add_right_comm] at h1 h2; exact ⟨h1, h2⟩, fun zt hzt => ?_⟩
            rw [Zk_letg] at hzt
            obtain ⟨zd, zb, hzd, hzb, rfl⟩ := hzt
            obtain ⟨zd', e1, k1⟩ := z1 _ hzd
            obtain ⟨zb', e2, k2⟩ := z2 _ hzb
            exact ⟨_, by simp only [sshift, ZkD_len hzd, e1, e2], Zk_letg.2 ⟨_, _, k1, k2, rfl⟩⟩
      case neg a =>
        simp only [hdeep] at hd
        refine NFa.bind (hg ..) (fun _ => by pres) (ih1 c amt a s hS hL hd) (fun o1 q1 => ?_)
        cases o1 with
        | none => exact NFa.pure (fun r e => by cases e)
        | some d' =>
          refine NFa.pure ?_
          intro r e
          cases e
          obtain ⟨h1, z1⟩ := q1 _ rfl
          refine ⟨by simp only [hdeep]; exact h1, fun zt hzt => ?_⟩
          rw [Zk_neg] at hzt
          obtain ⟨zd, hzd, rfl⟩ := hzt
          obtain ⟨zd', e1, k1⟩ := z1 _ hzd
          exact ⟨_, by simp only [sshift, e1], Zk_neg.2 ⟨_, k1, rfl⟩⟩
      case ite a b d =>
        simp only [hdeep, Bool.and_eq_true] at hd
        refine NFa.bind (hg ..) (fun _ => by pres) (ih1 c amt a s hS hL hd.1.1) (fun o1 q1 => ?_)
        cases o1 with
        | none => exact NFa.pure (fun r e => by cases e)
        | some a' =>
          dsimp only
          refine NFa.bind (hg ..) (fun _ => by pres) (ih1 c amt b s hS hL hd.1.2) (fun o2 q2 => ?_)
          cases o2 with
          | none => exact NFa.pure (fun r e => by cases e)
          | some b' =>
            dsimp only
            refine NFa.bind (hg ..) (fun _ => by pres) (ih1 c amt d s hS hL hd.2) (fun o3 q3 => ?_)
            cases o3 with
            | none => exact NFa.pure (fun r e => by cases e)
            | some d' =>
              refine NFa.pure ?_
              intro r e
              cases e
              obtain ⟨h1, z1⟩ := q1 _ rfl
              obtain ⟨h2, z2⟩ := q2 _ rfl
              obtain ⟨h3, z3⟩ := q3 _ rfl
              refine ⟨by simp only [hdeep, Bool.and_eq_true]; exact ⟨⟨h1, h2⟩, h3⟩, fun zt hzt => ?_⟩
              rw [Zk_ite] at hzt
              obtain ⟨za, zb, zd, hza, hzb, hzd, rfl⟩ := hzt
              obtain ⟨za', e1, k1⟩ := z1 _ hza
              obtain ⟨zb', e2, k2⟩ := z2 _ hzb
              obtain ⟨zd', e3, k3⟩ := z3 _ hzd
              exact ⟨_, by simp only [sshift, e1, e2, e3], Zk_ite.2 ⟨_, _, _, k1, k2, k3, rfl⟩⟩
      all_goals
        refine NFa.pure ?_
        intro r e
        cases e
        refine ⟨by simp [hdeep], fun zt hzt => ?_⟩
        rw [Zk_leaf (by simp [Leaf])] at hzt
        subst hzt
        exact ⟨_, by simp only [sshift], (Zk_leaf (by simp [Leaf])).2 rfl⟩
    · intro c amt ds s hS hL hd
      cases ds <;> unfold sshiftDefsS <;> dsimp only
      case nil =>
        refine NFa.pure ?_
        intro r e
        cases e
        refine ⟨rfl, by simp [hdeepDefs], fun zt hzt => ?_⟩
        rw [ZkD_nil] at hzt
        subst hzt
        exact ⟨_, by simp only [sshiftDefs], ZkD_nil.2 rfl⟩
      case cons x a d rest =>
        simp only [hdeepDefs, Bool.and_eq_true] at hd
        refine NFa.bind (hg ..) (fun _ => by pres) (ih1 c amt a s hS hL hd.1.1) (fun o1 q1 => ?_)
        cases o1 with
        | none => exact NFa.pure (fun r e => by cases e)
        | some a' =>
          dsimp only
          refine NFa.bind (hg ..) (fun _ => by pres) (ih1 c amt d s hS hL hd.1.2) (fun o2 q2 => ?_)
          cases o2 with
          | none => exact NFa.pure (fun r e => by cases e)
          | some b' =>
            dsimp only
            refine NFa.bind (hgd ..) (fun _ => by pres) (ih2 c amt rest s hS hL hd.2) (fun o3 q3 => ?_)
            cases o3 with
            | none => exact NFa.pure (fun r e => by cases e)
            | some d' =>
              refine NFa.pure ?_
              intro r e
              cases e
              obtain ⟨h1, z1⟩ := q1 _ rfl
              obtain ⟨h2, z2⟩ := q2 _ rfl
              obtain ⟨hl, h3, z3⟩ := q3 _ rfl
              refine ⟨by simp [hl], by simp only [hdeepDefs, Bool.and_eq_true]; exact ⟨⟨h1, h2⟩, h3⟩,
                fun zt hzt => ?_⟩
              rw [ZkD_cons] at hzt
              obtain ⟨za, zb, zd, hza, hzb, hzd, rfl⟩ := hzt
              obtain ⟨za', e1, k1⟩ := z1 _ hza
              obtain ⟨zb', e2, k2⟩ := z2 _ hzb
              obtain ⟨zd', e3, k3⟩ := z3 _ hzd
              exact ⟨_, by simp only [sshiftDefs, e1, e2, e3], ZkD_cons.2 ⟨_, _, _, k1, k2, k3, rfl⟩⟩


theorem ushiftS_zk (f c a : Nat) (t : Tm) (s : St) (hS : storeDeep s.store) (hL : StoreLe s.store σ)
    (hd : hdeep c t = true) :
    NFa s (ushiftS f c a t) (fun r => hdeep (c + a) r = true ∧ ∀ zt, Zk σ t zt → Zk σ r (ushift c a zt)) := by
  unfold ushiftS
  refine NFa.bind (sshiftS_g2 ..) (fun _ => by pres) ((sshiftS_zk f).1 c (a : Int) t s hS hL hd)
    (fun o q => ?_)
  cases o with
  | none => exact NFa.panicAt _
  | some r =>
    refine NFa.pure ?_
    obtain ⟨h1, z1⟩ := q _ rfl
    refine ⟨by simpa using h1, fun zt hzt => ?_⟩
    obtain ⟨zr, e, k⟩ := z1 _ hzt
    rw [sshift_ushift] at e
    cases e
    exact k

/-! ## `openS` read through `Zk σ` (when it allocates no cell) -/

def OpenQ (σ : List (Option Tm)) (t : Tm) (i : Nat) (u : Tm) (sh : Nat) (r : Tm) : Prop :=
  hdeep sh r = true ∧ (u.holeFree = true → r.holeFree = true) ∧
    ∀ zt zu, Zk σ t zt → Zk σ u zu → Zk σ r (openT zt i zu sh)

def OpenDQ (σ : List (Option Tm)) (ds : Defs) (i : Nat) (u : Tm) (sh : Nat) (r : Defs) : Prop :=
  r.len = ds.len ∧ hdeepDefs sh r = true ∧ (u.holeFree = true → r.holeFree = true) ∧
    ∀ zt zu, ZkD σ ds zt → Zk σ u zu → ZkD σ r (openDefs zt i zu sh)

theorem openS_zk : ∀ f,
    (∀ t i u sh s, storeDeep s.store → StoreLe s.store σ → hdeep 0 u = true →
      NFa s (openS f t i u sh) (OpenQ σ t i u sh)) ∧
    (∀ ds i u sh s, storeDeep s.store → StoreLe s.store σ → hdeep 0 u = true →
      NFa s (openDefsS f ds i u sh) (OpenDQ σ ds i u sh)) := by
  intro f
  induction f with
  | zero =>
    constructor
    · intros; rw [openS]; exact NFa.outOfFuel
    · intros; rw [openDefsS]; exact NFa.outOfFuel
  | succ f ih =>
    obtain ⟨ih1, ih2⟩ := ih
    have ho := openS_g2 f
    have hod := openDefsS_g2 f
    have hus := ushiftS_g2 f
    constructor
    · intro t i u sh s hS hL hu
      cases t <;> unfold openS <;> dsimp only
      case hole id k =>
        refine NFa.cellGet ?_
        cases hv : cellVal s.store id with
        | some sub =>
          dsimp only
          have hsub : s.store[id]? = some (some sub) := cellVal_some.1 hv
          have hd0 : hdeep 0 sub = true := hS _ _ hsub
          refine NFa.bind (hus ..) (fun _ => by pres) (ushiftS_zk f 0 k sub s hS hL hd0) (fun sub' q => ?_)
          refine (ih1 sub' i u sh s hS hL hu).mono (fun r q2 => ?_)
          obtain ⟨h2, f2, z2⟩ := q2
          refine ⟨h2, f2, fun zt zu hzt hzu => ?_⟩
          rw [Zk_hole_some (hL.2 _ _ hsub)] at hzt
          obtain ⟨zs, hzs, rfl⟩ := hzt
          exact z2 _ _ (q.2 _ hzs) hzu
        | none =>
          dsimp only
          intro r s' e hl
          obtain ⟨a, s1, h1, h2⟩ := bind_ok e
          cases h1
          obtain ⟨_, rfl⟩ := pure_ok h2
          simp at hl
          omega
      case var x j =>
        split
        · intro r s' e hl
          obtain ⟨h1, z1⟩ := ushiftS_zk f 0 sh u s hS hL hu r s' e hl
          refine ⟨by simpa using h1, fun hf => ?_, fun zt zu hzt hzu => ?_⟩
          · obtain ⟨rfl, _⟩ := (WhnfLemmas.ushiftS_det f 0 sh u hf).out _ _ _ e
            rw [WhnfLemmas.ushift_holeFree]; exact hf
          · rw [Zk_leaf (by simp [Leaf])] at hzt
            subst hzt
            simp only [openT]
            rw [if_pos (by assumption)]
            exact z1 _ hzu
        · next hne =>
          refine NFa.pure ⟨by simp [hdeep], fun _ => rfl, fun zt zu hzt hzu => ?_⟩
          rw [Zk_leaf (by simp [Leaf])] at hzt
          subst hzt
          simp only [openT]
          rw [if_neg hne]
          split <;> exact (Zk_leaf (by simp [Leaf])).2 rfl
      case lam x im d b =>
        refine NFa.bind (ho ..) (fun _ => by pres) (ih1 d i u sh s hS hL hu) (fun d' q1 => ?_)
        refine NFa.bind (ho ..) (fun _ => by pres) (ih1 b (i+1) u (sh+1) s hS hL hu) (fun b' q2 => ?_)
        refine NFa.pure ?_
        obtain ⟨h1, f1, z1⟩ := q1
        obtain ⟨h2, f2, z2⟩ := q2
        refine ⟨by simp only [hdeep, Bool.and_eq_true]; exact ⟨h1, h2⟩,
          fun hf => by simp only [Tm.holeFree, Bool.and_eq_true]; exact ⟨f1 hf, f2 hf⟩,
          fun zt zu hzt hzu => ?_⟩
        rw [Zk_lam] at hzt
        obtain ⟨zd, zb, hzd, hzb, rfl⟩ := hzt
        simp only [openT]
        exact Zk_lam.2 ⟨_, _, z1 _ _ hzd hzu, z2 _ _ hzb hzu, rfl⟩
      case pi x im d b =>
        refine NFa.bind (ho ..) (fun _ => by pres) (ih1 d i u sh s hS hL hu) (fun d' q1 => ?_)
        refine NFa.bind (ho ..) (fun _ => by pres) (ih1 b (i+1) u (sh+1) s hS hL hu) (fun b' q2 => ?_)
        refine NFa.pure ?_
        obtain ⟨h1, f1, z1⟩ := q1
        obtain ⟨h2, f2, z2⟩ := q2
        refine ⟨by simp only [hdeep, Bool.and_eq_true]; exact ⟨h1, h2⟩,
          fun hf => by simp only [Tm.holeFree, Bool.and_eq_true]; exact ⟨f1 hf, f2 hf⟩,
          fun zt zu hzt hzu => ?_⟩
        rw [Zk_pi] at hzt
        obtain ⟨zd, zb, hzd, hzb, rfl⟩ := hzt
        simp only [openT]
        exact Zk_pi.2 ⟨_, _, z1 _ _ hzd hzu, z2 _ _ hzb hzu, rfl⟩
      case app g a =>
        refine NFa.bind (ho ..) (fun _ => by pres) (ih1 g i u sh s hS hL hu) (fun d' q1 => ?_)
        refine NFa.bind (ho ..) (fun _ => by pres) (ih1 a i u sh s hS hL hu) (fun b' q2 => ?_)
        refine NFa.pure ?_
        obtain ⟨h1, f1, z1⟩ := q1
        obtain ⟨h2, f2, z2⟩ := q2
        refine ⟨by simp only [hdeep, Bool.and_eq_true]; exact ⟨h1, h2⟩,
          fun hf => by simp only [Tm.holeFree, Bool.and_eq_true]; exact ⟨f1 hf, f2 hf⟩,
          fun zt zu hzt hzu => ?_⟩
        rw [Zk_app] at hzt
        obtain ⟨zd, zb, hzd, hzb, rfl⟩ := hzt
        simp only [openT]
        exact Zk_app.2 ⟨_, _, z1 _ _ hzd hzu, z2 _ _ hzb hzu, rfl⟩
      case bin op g a =>
        refine NFa.bind (ho ..) (fun _ => by pres) (ih1 g i u sh s hS hL hu) (fun d' q1 => ?_)
        refine NFa.bind (ho ..) (fun _ => by pres) (ih1 a i u sh s hS hL hu) (fun b' q2 => ?_)
        refine NFa.pure ?_
        obtain ⟨h1, f1, z1⟩ := q1
        obtain ⟨h2, f2, z2⟩ := q2
        refine ⟨by simp only [hdeep, Bool.and_eq_true]; exact ⟨h1, h2⟩,
          fun hf => by simp only [Tm.holeFree, Bool.and_eq_true]; exact ⟨f1 hf, f2 hf⟩,
          fun zt zu hzt hzu => ?_⟩
        rw [Zk_bin] at hzt
        obtain ⟨zd, zb, hzd, hzb, rfl⟩ := hzt
        simp only [openT]
        exact Zk_bin.2 ⟨_, _, z1 _ _ hzd hzu, z2 _ _ hzb hzu, rfl⟩
      case letg ds b =>
        refine NFa.bind (hod ..) (fun _ => by pres) (ih2 ds (i + ds.len) u (sh + ds.len) s hS hL hu)
          (fun d' q1 => ?_)
        refine NFa.bind (ho ..) (fun _ => by pres) (ih1 b (i + ds.len) u (sh + ds.len) s hS hL hu)
          (fun b' q2 => ?_)
        refine NFa.pure ?_
        obtain ⟨hl, h1, f1, z1⟩ := q1
        obtain ⟨h2, f2, z2⟩ := q2
        refine ⟨by simp only [hdeep, Bool.and_eq_true, hl]; exact ⟨h1, h2⟩,
          fun hf => by simp only [Tm.holeFree, Bool.and_eq_true]; exact ⟨f1 hf, f2 hf⟩,
          fun zt zu hzt hzu => ?_⟩
        rw [Zk_letg] at hzt
        obtain ⟨zd, zb, hzd, hzb, rfl⟩ := hzt
        simp only [openT, ZkD_len hzd]
        exact Zk_letg.2 ⟨_, _, z1 _ _ hzd hzu, z2 _ _ hzb hzu, rfl⟩
      case neg a =>
        refine NFa.bind (ho ..) (fun _ => by pres) (ih1 a i u sh s hS hL hu) (fun d' q1 => ?_)
        refine NFa.pure ?_
        obtain ⟨h1, f1, z1⟩ := q1
        refine ⟨by simp only [hdeep]; exact h1, fun hf => by simp only [Tm.holeFree]; exact f1 hf,
          fun zt zu hzt hzu => ?_⟩
        rw [Zk_neg] at hzt
        obtain ⟨zd, hzd, rfl⟩ := hzt
        simp only [openT]
        exact Zk_neg.2 ⟨_, z1 _ _ hzd hzu, rfl⟩
      case ite a b d =>
        refine NFa.bind (ho ..) (fun _ => by pres) (ih1 a i u sh s hS hL hu) (fun a' q1 => ?_)
        refine NFa.bind (ho ..) (fun _ => by pres) (ih1 b i u sh s hS hL hu) (fun b' q2 => ?_)
        refine NFa.bind (ho ..) (fun _ => by pres) (ih1 d i u sh s hS hL hu) (fun d' q3 => ?_)
        refine NFa.pure ?_
        obtain ⟨h1, f1, z1⟩ := q1
        obtain ⟨h2, f2, z2⟩ := q2
        obtain ⟨h3, f3, z3⟩ := q3
        refine ⟨by simp only [hdeep, Bool.and_eq_true]; exact ⟨⟨h1, h2⟩, h3⟩,
          fun hf => by simp only [Tm.holeFree, Bool.and_eq_true]; exact ⟨⟨f1 hf, f2 hf⟩, f3 hf⟩,
          fun zt zu hzt hzu => ?_⟩
        rw [Zk_ite] at hzt
        obtain ⟨za, zb, zd, hza, hzb, hzd, rfl⟩ := hzt
        simp only [openT]
        exact Zk_ite.2 ⟨_, _, _, z1 _ _ hza hzu, z2 _ _ hzb hzu, z3 _ _ hzd hzu, rfl⟩
      all_goals
        refine NFa.pure ⟨by simp [hdeep], fun _ => rfl, fun zt zu hzt hzu => ?_⟩
        rw [Zk_leaf (by simp [Leaf])] at hzt
        subst hzt
        simp only [openT]
        exact (Zk_leaf (by simp [Leaf])).2 rfl
    · intro ds i u sh s hS hL hu
      cases ds <;> unfold openDefsS <;> dsimp only
      case nil =>
        refine NFa.pure ⟨rfl, by simp [hdeepDefs], fun _ => rfl, fun zt zu hzt hzu => ?_⟩
        rw [ZkD_nil] at hzt
        subst hzt
        simp only [openDefs]
        exact ZkD_nil.2 rfl
      case cons x a d rest =>
        refine NFa.bind (ho ..) (fun _ => by pres) (ih1 a i u sh s hS hL hu) (fun a' q1 => ?_)
        refine NFa.bind (ho ..) (fun _ => by pres) (ih1 d i u sh s hS hL hu) (fun b' q2 => ?_)
        refine NFa.bind (hod ..) (fun _ => by pres) (ih2 rest i u sh s hS hL hu) (fun d' q3 => ?_)
        refine NFa.pure ?_
        obtain ⟨h1, f1, z1⟩ := q1
        obtain ⟨h2, f2, z2⟩ := q2
        obtain ⟨hl, h3, f3, z3⟩ := q3
        refine ⟨by simp [hl], by simp only [hdeepDefs, Bool.and_eq_true]; exact ⟨⟨h1, h2⟩, h3⟩,
          fun hf => by simp only [Defs.holeFree, Bool.and_eq_true]; exact ⟨⟨f1 hf, f2 hf⟩, f3 hf⟩,
          fun zt zu hzt hzu => ?_⟩
        rw [ZkD_cons] at hzt
        obtain ⟨za, zb, zd, hza, hzb, hzd, rfl⟩ := hzt
        simp only [openDefs]
        exact ZkD_cons.2 ⟨_, _, _, z1 _ _ hza hzu, z2 _ _ hzb hzu, z3 _ _ hzd hzu, rfl⟩


theorem Zk_var (x : Name) (i : Nat) : Zk σ (.var x i) (.var x i) := (Zk_leaf (by simp [Leaf])).2 rfl

theorem unfoldDefS_zk (f : Nat) (x : Name) (ann d : Tm) (index : Nat) (s : St)
    (hS : storeDeep s.store) (hL : StoreLe s.store σ) (ha : hdeep 0 ann = true) (hd : hdeep 0 d = true) :
    NFa s (unfoldDefS f x ann d index) (fun r => r.holeFree = true ∧
      ∀ za zd, Zk σ ann za → Zk σ d zd → Zk σ r (unfoldDef x za zd index)) := by
  have ho := openS_g2 f
  have hus := ushiftS_g2 f
  have hself : hdeep 0 (Tm.var x 0) = true := rfl
  unfold unfoldDefS
  dsimp only
  refine NFa.bind (hus ..) (fun _ => by pres) (ushiftS_zk f 0 1 ann s hS hL ha) (fun ann1 q1 => ?_)
  refine NFa.bind (ho ..) (fun _ => by pres) ((openS_zk f).1 ann1 (index+1) (.var x 0) 0 s hS hL hself)
    (fun ann2 q2 => ?_)
  refine NFa.bind (hus ..) (fun _ => by pres) (ushiftS_zk f 0 1 d s hS hL hd) (fun d1 q3 => ?_)
  refine NFa.bind (ho ..) (fun _ => by pres) ((openS_zk f).1 d1 (index+1) (.var x 0) 0 s hS hL hself)
    (fun d2 q4 => ?_)
  have hul : (Tm.letg (.cons x ann2 d2 .nil) (.var x 0)).holeFree = true := by
    simp [Tm.holeFree, Defs.holeFree, q2.2.1 rfl, q4.2.1 rfl]
  refine ((openS_zk f).1 d index _ 0 s hS hL (hdeep_holeFree _ _ hul)).mono (fun r q5 => ?_)
  refine ⟨q5.2.1 hul, fun za zd hza hzd => ?_⟩
  unfold unfoldDef
  refine q5.2.2 _ _ hzd ?_
  exact Zk_letg.2 ⟨_, _, ZkD_cons.2 ⟨_, _, _, q2.2.2 _ _ (q1.2 _ hza) (Zk_var x 0),
    q4.2.2 _ _ (q3.2 _ hzd) (Zk_var x 0), ZkD_nil.2 rfl, rfl⟩, Zk_var x 0, rfl⟩

theorem substDefsS_zk (f : Nat) : ∀ (ds : Defs) (idx : Nat) (u : Tm) (s : St),
    storeDeep s.store → StoreLe s.store σ → hdeep 0 u = true →
    NFa s (substDefsS f ds idx u) (OpenDQ σ ds idx u 0)
  | .nil, idx, u, s, hS, hL, hu => by
      unfold substDefsS
      refine NFa.pure ⟨rfl, by simp [hdeepDefs], fun _ => rfl, fun zt zu hzt hzu => ?_⟩
      rw [ZkD_nil] at hzt
      subst hzt
      simp only [openDefs]
      exact ZkD_nil.2 rfl
  | .cons x a d rest, idx, u, s, hS, hL, hu => by
      have ho := openS_g2 f
      have hsd := substDefsS_g2 f
      unfold substDefsS
      refine NFa.bind (ho ..) (fun _ => by pres) ((openS_zk f).1 a idx u 0 s hS hL hu) (fun a' q1 => ?_)
      refine NFa.bind (ho ..) (fun _ => by pres) ((openS_zk f).1 d idx u 0 s hS hL hu) (fun b' q2 => ?_)
      refine NFa.bind (hsd ..) (fun _ => by pres) (substDefsS_zk f rest idx u s hS hL hu) (fun d' q3 => ?_)
      refine NFa.pure ?_
      obtain ⟨h1, f1, z1⟩ := q1
      obtain ⟨h2, f2, z2⟩ := q2
      obtain ⟨hl, h3, f3, z3⟩ := q3
      refine ⟨by simp [hl], by simp only [hdeepDefs, Bool.and_eq_true]; exact ⟨⟨h1, h2⟩, h3⟩,
        fun hf => by simp only [Defs.holeFree, Bool.and_eq_true]; exact ⟨⟨f1 hf, f2 hf⟩, f3 hf⟩,
        fun zt zu hzt hzu => ?_⟩
      rw [ZkD_cons] at hzt
      obtain ⟨za, zb, zd, hza, hzb, hzd, rfl⟩ := hzt
      simp only [openDefs]
      exact ZkD_cons.2 ⟨_, _, _, z1 _ _ hza hzu, z2 _ _ hzb hzu, z3 _ _ hzd hzu, rfl⟩

/-- what the `Let` arm of the normalizer computes: the body with all definitions substituted, which
is convertible with the group -/
theorem letLoopS_zk (Δ : DCtxX) : ∀ (f : Nat) (todo : Defs) (body : Tm) (s : St),
    storeDeep s.store → StoreLe s.store σ → hdeepDefs 0 todo = true → hdeep 0 body = true →
    NFa s (letLoopS f todo body) (fun r => hdeep 0 r = true ∧
      ∀ zt zb, ZkD σ todo zt → Zk σ body zb → ∃ zr, Zk σ r zr ∧ Conv Δ (.letg zt zb) zr ∧
        (zt.holeFree = true → zb.holeFree = true → zr.holeFree = true)) := by
  intro f
  induction f with
  | zero => intros; rw [letLoopS]; exact NFa.outOfFuel
  | succ f ih =>
    intro todo body s hS hL hdt hdb
    have ho := openS_g2 f
    have hsd := substDefsS_g2 f
    have hun := unfoldDefS_g2 f
    have hll := letLoopS_g2 f
    cases todo with
    | nil =>
      unfold letLoopS
      refine NFa.pure ⟨hdb, fun zt zb hzt hzb => ?_⟩
      rw [ZkD_nil] at hzt
      subst hzt
      exact ⟨zb, hzb, .red (.letNil _), fun _ h => h⟩
    | cons x a d r =>
      simp only [hdeepDefs, Bool.and_eq_true] at hdt
      unfold letLoopS
      dsimp only
      refine NFa.bind (hun ..) (fun _ => by pres) (unfoldDefS_zk f x a d r.len s hS hL hdt.1.1 hdt.1.2)
        (fun u qu => ?_)
      have hu : hdeep 0 u = true := hdeep_holeFree _ _ qu.1
      refine NFa.bind (ho ..) (fun _ => by pres) ((openS_zk f).1 a r.len u 0 s hS hL hu) (fun _ _ => ?_)
      refine NFa.bind (ho ..) (fun _ => by pres) ((openS_zk f).1 d r.len u 0 s hS hL hu) (fun _ _ => ?_)
      refine NFa.bind (hsd ..) (fun _ => by pres) (substDefsS_zk f r r.len u s hS hL hu) (fun r' qr => ?_)
      refine NFa.bind (ho ..) (fun _ => by pres) ((openS_zk f).1 body r.len u 0 s hS hL hu)
        (fun body' qb => ?_)
      refine (ih r' body' s hS hL qr.2.1 qb.1).mono (fun res q => ?_)
      refine ⟨q.1, fun zt zb hzt hzb => ?_⟩
      rw [ZkD_cons] at hzt
      obtain ⟨za, zd, zr, hza, hzd, hzr, rfl⟩ := hzt
      have hzu := qu.2 _ _ hza hzd
      obtain ⟨zres, k, cv, hfr⟩ := q.2 _ _ (qr.2.2.2 _ _ hzr hzu) (qb.2.2 _ _ hzb hzu)
      refine ⟨zres, k, .trans (.red (.letStep x za zd zr zb)) ?_, fun hft hfb => ?_⟩
      · simp only [letStepX, ZkD_len hzr]
        exact cv
      · simp only [Defs.holeFree, Bool.and_eq_true] at hft
        have hfu := WhnfLemmas.unfoldDef_holeFree x za zd r.len hft.1.1 hft.1.2
        exact hfr (WhnfLemmas.openDefs_holeFree _ _ _ _ hft.2 hfu)
          (WhnfLemmas.openT_holeFree _ _ _ _ hfb hfu)


/-! ## `whnfS` rewrites a term into a convertible one -/

def WhnfQ (σ : List (Option Tm)) (Δ : DCtxX) (t r : Tm) : Prop :=
  hdeep 0 r = true ∧ ∀ zt, Zk σ t zt → ∃ zr, Zk σ r zr ∧ Conv Δ zt zr ∧
    (zt.holeFree = true → zr.holeFree = true)

theorem WhnfQ_refl {Δ : DCtxX} {t : Tm} (h : hdeep 0 t = true) : WhnfQ σ Δ t t :=
  ⟨h, fun zt hzt => ⟨zt, hzt, .refl _ _, fun h => h⟩⟩

theorem whnfS_zk : ∀ (f : Nat) (t : Tm) (s : St), storeDeep s.store → StoreLe s.store σ →
    DHF s.dctx → hdeep 0 t = true → NFa s (whnfS f t) (WhnfQ σ s.dctx t) := by
  intro f
  induction f with
  | zero => intros; rw [whnfS]; exact NFa.outOfFuel
  | succ f ih =>
    intro t s hS hL hD hd
    have ho := openS_g2 f
    have hus := ushiftS_g2 f
    have hll := letLoopS_g2 f
    have hw := whnfS_g2 f
    cases t <;> unfold whnfS <;> dsimp only
    case hole id k =>
      refine NFa.cellGet ?_
      cases hv : cellVal s.store id with
      | some sub =>
        dsimp only
        have hsub : s.store[id]? = some (some sub) := cellVal_some.1 hv
        have hd0 : hdeep 0 sub = true := hS _ _ hsub
        refine NFa.bind (hus ..) (fun _ => by pres) (ushiftS_zk f 0 k sub s hS hL hd0) (fun sub' q => ?_)
        refine (ih sub' s hS hL hD (hdeep_anti _ _ _ (Nat.zero_le _) q.1)).mono (fun r q2 => ?_)
        refine ⟨q2.1, fun zt hzt => ?_⟩
        rw [Zk_hole_some (hL.2 _ _ hsub)] at hzt
        obtain ⟨zs, hzs, rfl⟩ := hzt
        exact q2.2 _ (q.2 _ hzs)
      | none => exact NFa.pure (WhnfQ_refl hd)
    case var x i =>
      refine NFa.getSt ?_
      rcases heq : s.dctx[i]? with _ | _ | ⟨d, off⟩ <;> dsimp only
      · exact NFa.panicAt _
      · exact NFa.pure (WhnfQ_refl hd)
      · have hdf : d.holeFree = true := hD _ (List.mem_of_getElem? heq) d off rfl
        split
        · exact NFa.panicAt _
        · next hlt =>
          refine NFa.bind (hus ..) (fun _ => by pres)
            (ushiftS_zk f 0 (i + 1 - off) d s hS hL (hdeep_holeFree _ _ hdf)) (fun d' q => ?_)
          refine (ih d' s hS hL hD (hdeep_anti _ _ _ (Nat.zero_le _) q.1)).mono (fun r q2 => ?_)
          refine ⟨q2.1, fun zt hzt => ?_⟩
          rw [Zk_leaf (by simp [Leaf])] at hzt
          subst hzt
          obtain ⟨zr, k, cv, hfr⟩ := q2.2 _ (q.2 _ (Zk_holeFree d hdf))
          exact ⟨zr, k, .trans (.red (.delta x i d off heq (by omega))) cv,
            fun _ => hfr (by rw [WhnfLemmas.ushift_holeFree]; exact hdf)⟩
    case app g a =>
      simp only [hdeep, Bool.and_eq_true] at hd
      refine NFa.bind (hw ..) (fun _ => by pres) (ih g s hS hL hD hd.1) (fun g' qg => ?_)
      split
      · next x im dm body =>
        have hb := qg.1
        simp only [hdeep, Bool.and_eq_true] at hb
        refine NFa.bind (ho ..) (fun _ => by pres) ((openS_zk f).1 body 0 a 0 s hS hL hd.2) (fun b qb => ?_)
        refine (ih b s hS hL hD qb.1).mono (fun r q2 => ?_)
        refine ⟨q2.1, fun zt hzt => ?_⟩
        rw [Zk_app] at hzt
        obtain ⟨zg, za, hzg, hza, rfl⟩ := hzt
        obtain ⟨zg', kg, cg, hfg⟩ := qg.2 _ hzg
        rw [Zk_lam] at kg
        obtain ⟨zd, zb, _, hzb, rfl⟩ := kg
        obtain ⟨zr, k, cv, hfr⟩ := q2.2 _ (qb.2.2 _ _ hzb hza)
        refine ⟨zr, k, .trans (.app cg (.refl _ _)) (.trans (.red (.beta x im zd zb za)) cv),
          fun hf => ?_⟩
        simp only [Tm.holeFree, Bool.and_eq_true] at hf
        have := hfg hf.1
        simp only [Tm.holeFree, Bool.and_eq_true] at this
        exact hfr (WhnfLemmas.openT_holeFree _ _ _ _ this.2 hf.2)
      · refine NFa.pure ⟨by simp only [hdeep, Bool.and_eq_true]; exact ⟨qg.1, hd.2⟩, fun zt hzt => ?_⟩
        rw [Zk_app] at hzt
        obtain ⟨zg, za, hzg, hza, rfl⟩ := hzt
        obtain ⟨zg', kg, cg, hfg⟩ := qg.2 _ hzg
        refine ⟨_, Zk_app.2 ⟨_, _, kg, hza, rfl⟩, .app cg (.refl _ _), fun hf => ?_⟩
        simp only [Tm.holeFree, Bool.and_eq_true] at hf ⊢
        exact ⟨hfg hf.1, hf.2⟩
    case letg ds body =>
      simp only [hdeep, Bool.and_eq_true] at hd
      refine NFa.bind (hll ..) (fun _ => by pres)
        (letLoopS_zk s.dctx f ds body s hS hL (hdeepDefs_anti _ _ _ (Nat.zero_le _) hd.1)
          (hdeep_anti _ _ _ (Nat.zero_le _) hd.2)) (fun b qb => ?_)
      refine (ih b s hS hL hD qb.1).mono (fun r q2 => ?_)
      refine ⟨q2.1, fun zt hzt => ?_⟩
      rw [Zk_letg] at hzt
      obtain ⟨zd, zb, hzd, hzb, rfl⟩ := hzt
      obtain ⟨zb', kb, cb, hfb⟩ := qb.2 _ _ hzd hzb
      obtain ⟨zr, k, cv, hfr⟩ := q2.2 _ kb
      refine ⟨zr, k, .trans cb cv, fun hf => ?_⟩
      simp only [Tm.holeFree, Bool.and_eq_true] at hf
      exact hfr (hfb hf.1 hf.2)
    case neg a =>
      simp only [hdeep] at hd
      refine NFa.bind (hw ..) (fun _ => by pres) (ih a s hS hL hD hd) (fun a' qa => ?_)
      split
      · next n =>
        refine NFa.pure ⟨rfl, fun zt hzt => ?_⟩
        rw [Zk_neg] at hzt
        obtain ⟨za, hza, rfl⟩ := hzt
        obtain ⟨za', ka, ca, _⟩ := qa.2 _ hza
        rw [Zk_leaf (by simp [Leaf])] at ka
        subst ka
        exact ⟨_, (Zk_leaf (by simp [Leaf])).2 rfl, .trans (.neg ca) (.red (.neg n)), fun _ => rfl⟩
      · refine NFa.pure ⟨by simp only [hdeep]; exact qa.1, fun zt hzt => ?_⟩
        rw [Zk_neg] at hzt
        obtain ⟨za, hza, rfl⟩ := hzt
        obtain ⟨za', ka, ca, hfa⟩ := qa.2 _ hza
        exact ⟨_, Zk_neg.2 ⟨_, ka, rfl⟩, .neg ca, fun hf => by
          simp only [Tm.holeFree] at hf ⊢; exact hfa hf⟩
    case bin op a b =>
      simp only [hdeep, Bool.and_eq_true] at hd
      refine NFa.bind (hw ..) (fun _ => by pres) (ih a s hS hL hD hd.1) (fun a' qa => ?_)
      refine NFa.bind (hw ..) (fun _ => by pres) (ih b s hS hL hD hd.2) (fun b' qb => ?_)
      have hgen : WhnfQ σ s.dctx (.bin op a b) (.bin op a' b') := by
        refine ⟨by simp only [hdeep, Bool.and_eq_true]; exact ⟨qa.1, qb.1⟩, fun zt hzt => ?_⟩
        rw [Zk_bin] at hzt
        obtain ⟨za, zb, hza, hzb, rfl⟩ := hzt
        obtain ⟨za', ka, ca, hfa⟩ := qa.2 _ hza
        obtain ⟨zb', kb, cb, hfb⟩ := qb.2 _ hzb
        exact ⟨_, Zk_bin.2 ⟨_, _, ka, kb, rfl⟩, .bin op ca cb, fun hf => by
          simp only [Tm.holeFree, Bool.and_eq_true] at hf ⊢; exact ⟨hfa hf.1, hfb hf.2⟩⟩
      split
      · next x y =>
        split
        · next r hdl =>
          have hrf := WhnfLemmas.delta_holeFree hdl
          refine NFa.pure ⟨hdeep_holeFree _ _ hrf, fun zt hzt => ?_⟩
          obtain ⟨zr, k, cv, _⟩ := hgen.2 _ hzt
          rw [Zk_bin] at k
          obtain ⟨zx, zy, kx, ky, rfl⟩ := k
          rw [Zk_leaf (by simp [Leaf])] at kx ky
          subst kx ky
          exact ⟨r, Zk_holeFree r hrf, .trans cv (.red (.arith op x y r hdl)), fun _ => hrf⟩
        · exact NFa.pure hgen
      · exact NFa.pure hgen
    case ite c a b =>
      simp only [hdeep, Bool.and_eq_true] at hd
      refine NFa.bind (hw ..) (fun _ => by pres) (ih c s hS hL hD hd.1.1) (fun c' qc => ?_)
      split
      · refine (ih a s hS hL hD hd.1.2).mono (fun r q2 => ?_)
        refine ⟨q2.1, fun zt hzt => ?_⟩
        rw [Zk_ite] at hzt
        obtain ⟨zc, za, zb, hzc, hza, hzb, rfl⟩ := hzt
        obtain ⟨zc', kc, cc, _⟩ := qc.2 _ hzc
        rw [Zk_leaf (by simp [Leaf])] at kc
        subst kc
        obtain ⟨zr, k, cv, hfr⟩ := q2.2 _ hza
        exact ⟨zr, k, .trans (.ite cc (.refl _ _) (.refl _ _)) (.trans (.red (.iteTrue za zb)) cv),
          fun hf => by simp only [Tm.holeFree, Bool.and_eq_true] at hf; exact hfr hf.1.2⟩
      · refine (ih b s hS hL hD hd.2).mono (fun r q2 => ?_)
        refine ⟨q2.1, fun zt hzt => ?_⟩
        rw [Zk_ite] at hzt
        obtain ⟨zc, za, zb, hzc, hza, hzb, rfl⟩ := hzt
        obtain ⟨zc', kc, cc, _⟩ := qc.2 _ hzc
        rw [Zk_leaf (by simp [Leaf])] at kc
        subst kc
        obtain ⟨zr, k, cv, hfr⟩ := q2.2 _ hzb
        exact ⟨zr, k, .trans (.ite cc (.refl _ _) (.refl _ _)) (.trans (.red (.iteFalse za zb)) cv),
          fun hf => by simp only [Tm.holeFree, Bool.and_eq_true] at hf; exact hfr hf.2⟩
      · refine NFa.pure ⟨by simp only [hdeep, Bool.and_eq_true]; exact ⟨⟨qc.1, hd.1.2⟩, hd.2⟩,
          fun zt hzt => ?_⟩
        rw [Zk_ite] at hzt
        obtain ⟨zc, za, zb, hzc, hza, hzb, rfl⟩ := hzt
        obtain ⟨zc', kc, cc, hfc⟩ := qc.2 _ hzc
        exact ⟨_, Zk_ite.2 ⟨_, _, _, kc, hza, hzb, rfl⟩, .ite cc (.refl _ _) (.refl _ _), fun hf => by
          simp only [Tm.holeFree, Bool.and_eq_true] at hf ⊢; exact ⟨⟨hfc hf.1.1, hf.1.2⟩, hf.2⟩⟩
    all_goals exact NFa.pure (WhnfQ_refl hd)


open OracleLemmas (sameX_refl)

/-! ## `derefS`, `synEqS` -/

theorem derefS_zk : ∀ (f : Nat) (t : Tm) (s : St), storeDeep s.store → StoreLe s.store σ →
    NFa s (derefS f t) (fun r => ∀ zt, Zk σ t zt → Zk σ r zt) := by
  intro f
  induction f with
  | zero => intros; rw [derefS]; exact NFa.outOfFuel
  | succ f ih =>
    intro t s hS hL
    have hus := ushiftS_g2 f
    have hdr := derefS_g2 f
    cases t <;> unfold derefS <;> dsimp only
    case hole id k =>
      refine NFa.cellGet ?_
      cases hv : cellVal s.store id with
      | some sub =>
        dsimp only
        have hsub : s.store[id]? = some (some sub) := cellVal_some.1 hv
        have hd0 : hdeep 0 sub = true := hS _ _ hsub
        refine NFa.bind (hus ..) (fun _ => by pres) (ushiftS_zk f 0 k sub s hS hL hd0) (fun sub' q => ?_)
        refine (ih sub' s hS hL).mono (fun r q2 zt hzt => ?_)
        rw [Zk_hole_some (hL.2 _ _ hsub)] at hzt
        obtain ⟨zs, hzs, rfl⟩ := hzt
        exact q2 _ (q.2 _ hzs)
      | none => exact NFa.pure (fun zt h => h)
    all_goals exact NFa.pure (fun zt h => h)

set_option hygiene false in
local macro "leaf_case" : tactic => `(tactic| (
  refine NFa.pure (fun e z1 z2 h1 h2 => ?_)
  rw [Zk_leaf (by simp [Leaf])] at h1 h2
  subst h1 h2
  rfl))

theorem synEqS_zk : ∀ f,
    (∀ t1 t2 s, storeDeep s.store → StoreLe s.store σ →
      NFa s (synEqS f t1 t2) (fun r => r = true → ∀ z1 z2, Zk σ t1 z1 → Zk σ t2 z2 → sameX z1 z2 = true)) ∧
    (∀ ds1 ds2 s, storeDeep s.store → StoreLe s.store σ →
      NFa s (synEqDefsS f ds1 ds2)
        (fun r => r = true → ∀ z1 z2, ZkD σ ds1 z1 → ZkD σ ds2 z2 → sameDefsX z1 z2 = true)) := by
  intro f
  induction f with
  | zero =>
    constructor
    · intros; rw [synEqS]; exact NFa.outOfFuel
    · intros; rw [synEqDefsS]; exact NFa.outOfFuel
  | succ f ih =>
    obtain ⟨ih1, ih2⟩ := ih
    have hdr := derefS_g2 f
    have hse := synEqS_g2 f
    have hsd := synEqDefsS_g2 f
    constructor
    · intro t1 t2 s hS hL
      unfold synEqS
      refine NFa.bind (hdr ..) (fun _ => by pres) (derefS_zk f t1 s hS hL) (fun a qa => ?_)
      refine NFa.bind (hdr ..) (fun _ => by pres) (derefS_zk f t2 s hS hL) (fun b qb => ?_)
      refine NFa.mono (Q := fun r => r = true → ∀ z1 z2, Zk σ a z1 → Zk σ b z2 → sameX z1 z2 = true) ?_
        (fun r h e z1 z2 h1 h2 => h e z1 z2 (qa _ h1) (qb _ h2))
      clear qa qb
      split
      · next i sh j r =>
        refine NFa.pure (fun e z1 z2 h1 h2 => ?_)
        simp only [Bool.and_eq_true, beq_iff_eq] at e
        obtain ⟨rfl, rfl⟩ := e
        rw [Zk_det h1 h2]
        exact sameX_refl _
      · leaf_case
      · leaf_case
      · leaf_case
      · leaf_case
      · leaf_case
      · next x i y j =>
        refine NFa.pure (fun e z1 z2 h1 h2 => ?_)
        rw [Zk_leaf (by simp [Leaf])] at h1 h2
        subst h1 h2
        simpa [sameX] using e
      · next x im d1 b1 y jm d2 b2 =>
        split
        · next him =>
          refine (ih1 b1 b2 s hS hL).mono (fun r q e z1 z2 h1 h2 => ?_)
          rw [Zk_lam] at h1 h2
          obtain ⟨zd1, zb1, _, hb1, rfl⟩ := h1
          obtain ⟨zd2, zb2, _, hb2, rfl⟩ := h2
          simp only [sameX, Bool.and_eq_true]
          exact ⟨him, q e _ _ hb1 hb2⟩
        · exact NFa.pure (fun e => by cases e)
      · next x im d1 c1 y jm d2 c2 =>
        split
        · next him =>
          refine NFa.bind (hse ..) (fun _ => by pres) (ih1 d1 d2 s hS hL) (fun c qc => ?_)
          split
          · next hc =>
            refine (ih1 c1 c2 s hS hL).mono (fun r q e z1 z2 h1 h2 => ?_)
            rw [Zk_pi] at h1 h2
            obtain ⟨zd1, zb1, hd1, hb1, rfl⟩ := h1
            obtain ⟨zd2, zb2, hd2, hb2, rfl⟩ := h2
            simp only [sameX, Bool.and_eq_true]
            exact ⟨⟨him, qc hc _ _ hd1 hd2⟩, q e _ _ hb1 hb2⟩
          · exact NFa.pure (fun e => by cases e)
        · exact NFa.pure (fun e => by cases e)
      · next f1 a1 f2 a2 =>
        refine NFa.bind (hse ..) (fun _ => by pres) (ih1 f1 f2 s hS hL) (fun c qc => ?_)
        split
        · next hc =>
          refine (ih1 a1 a2 s hS hL).mono (fun r q e z1 z2 h1 h2 => ?_)
          rw [Zk_app] at h1 h2
          obtain ⟨zd1, zb1, hd1, hb1, rfl⟩ := h1
          obtain ⟨zd2, zb2, hd2, hb2, rfl⟩ := h2
          simp only [sameX, Bool.and_eq_true]
          exact ⟨qc hc _ _ hd1 hd2, q e _ _ hb1 hb2⟩
        · exact NFa.pure (fun e => by cases e)
      · next ds1 b1 ds2 b2 =>
        split
        · refine NFa.bind (hsd ..) (fun _ => by pres) (ih2 ds1 ds2 s hS hL) (fun c qc => ?_)
          split
          · next hc =>
            refine (ih1 b1 b2 s hS hL).mono (fun r q e z1 z2 h1 h2 => ?_)
            rw [Zk_letg] at h1 h2
            obtain ⟨zd1, zb1, hd1, hb1, rfl⟩ := h1
            obtain ⟨zd2, zb2, hd2, hb2, rfl⟩ := h2
            simp only [sameX, Bool.and_eq_true]
            exact ⟨qc hc _ _ hd1 hd2, q e _ _ hb1 hb2⟩
          · exact NFa.pure (fun e => by cases e)
        · exact NFa.pure (fun e => by cases e)
      · next n m =>
        refine NFa.pure (fun e z1 z2 h1 h2 => ?_)
        rw [Zk_leaf (by simp [Leaf])] at h1 h2
        subst h1 h2
        simpa [sameX] using e
      · next a1 a2 =>
        refine (ih1 a1 a2 s hS hL).mono (fun r q e z1 z2 h1 h2 => ?_)
        rw [Zk_neg] at h1 h2
        obtain ⟨zd1, hd1, rfl⟩ := h1
        obtain ⟨zd2, hd2, rfl⟩ := h2
        simp only [sameX]
        exact q e _ _ hd1 hd2
      · next o1 a1 b1 o2 a2 b2 =>
        split
        · next him =>
          refine NFa.bind (hse ..) (fun _ => by pres) (ih1 a1 a2 s hS hL) (fun c qc => ?_)
          split
          · next hc =>
            refine (ih1 b1 b2 s hS hL).mono (fun r q e z1 z2 h1 h2 => ?_)
            rw [Zk_bin] at h1 h2
            obtain ⟨zd1, zb1, hd1, hb1, rfl⟩ := h1
            obtain ⟨zd2, zb2, hd2, hb2, rfl⟩ := h2
            simp only [sameX, Bool.and_eq_true]
            exact ⟨⟨him, qc hc _ _ hd1 hd2⟩, q e _ _ hb1 hb2⟩
          · exact NFa.pure (fun e => by cases e)
        · exact NFa.pure (fun e => by cases e)
      · next c1 a1 b1 c2 a2 b2 =>
        refine NFa.bind (hse ..) (fun _ => by pres) (ih1 c1 c2 s hS hL) (fun c qc => ?_)
        split
        · next hc =>
          refine NFa.bind (hse ..) (fun _ => by pres) (ih1 a1 a2 s hS hL) (fun c' qa => ?_)
          split
          · next hc' =>
            refine (ih1 b1 b2 s hS hL).mono (fun r q e z1 z2 h1 h2 => ?_)
            rw [Zk_ite] at h1 h2
            obtain ⟨zc1, zd1, zb1, hc1, hd1, hb1, rfl⟩ := h1
            obtain ⟨zc2, zd2, zb2, hc2, hd2, hb2, rfl⟩ := h2
            simp only [sameX, Bool.and_eq_true]
            exact ⟨⟨qc hc _ _ hc1 hc2, qa hc' _ _ hd1 hd2⟩, q e _ _ hb1 hb2⟩
          · exact NFa.pure (fun e => by cases e)
        · exact NFa.pure (fun e => by cases e)
      · exact NFa.pure (fun e => by cases e)
    · intro ds1 ds2 s hS hL
      unfold synEqDefsS
      split
      · refine NFa.pure (fun e z1 z2 h1 h2 => ?_)
        rw [ZkD_nil] at h1 h2
        subst h1 h2
        rfl
      · next x1 a1 d1 r1 x2 a2 d2 r2 =>
        refine NFa.bind (hse ..) (fun _ => by pres) (ih1 d1 d2 s hS hL) (fun c qc => ?_)
        split
        · next hc =>
          refine (ih2 r1 r2 s hS hL).mono (fun r q e z1 z2 h1 h2 => ?_)
          rw [ZkD_cons] at h1 h2
          obtain ⟨za1, zd1, zr1, _, hd1, hr1, rfl⟩ := h1
          obtain ⟨za2, zd2, zr2, _, hd2, hr2, rfl⟩ := h2
          simp only [sameDefsX, Bool.and_eq_true]
          exact ⟨qc hc _ _ hd1 hd2, q e _ _ hr1 hr2⟩
        · exact NFa.pure (fun e => by cases e)
      · exact NFa.pure (fun e => by cases e)

open StoreMono (Empty HoleEmpty)

/-! ## `solveS` -/

theorem sshiftS_same' : ∀ f,
    (∀ c amt t, Preserves (fun s s' => s' = s) (sshiftS f c amt t)) ∧
    (∀ c amt ds, Preserves (fun s s' => s' = s) (sshiftDefsS f c amt ds)) := by
  intro f
  induction f with
  | zero =>
    constructor
    · intros; rw [sshiftS]; exact Preserves.outOfFuel
    · intros; rw [sshiftDefsS]; exact Preserves.outOfFuel
  | succ f ih =>
    obtain ⟨ih1, ih2⟩ := ih
    constructor
    · intro c amt t
      unfold sshiftS
      pres
    · intro c amt ds
      unfold sshiftDefsS
      pres

theorem sshiftS_state {f c amt t s o s'} (h : sshiftS f c amt t s = .ok o s') : s' = s :=
  ((sshiftS_same' f).1 c amt t).out _ _ _ h

theorem solveS_none {f id shift : Nat} {other : Tm} {s s' : St}
    (h : solveS f id shift other s = .ok none s') : s' = s := by
  unfold solveS at h
  obtain ⟨o, s1, h1, h2⟩ := bind_ok h
  have e1 := sshiftS_state h1
  subst e1
  split at h2
  · obtain ⟨_, rfl⟩ := pure_ok h2; rfl
  · obtain ⟨b, s2, h3, h4⟩ := bind_ok h2
    split at h4
    · obtain ⟨e, _⟩ := pure_ok h4; cases e
    · obtain ⟨o2, s3, h5, h6⟩ := bind_ok h4
      split at h6
      · obtain ⟨u, s4, h7, h8⟩ := bind_ok h6
        obtain ⟨e, _⟩ := pure_ok h8; cases e
      · obtain ⟨e, _⟩ := pure_ok h6; cases e

theorem solveS_some_true {f id shift : Nat} {other : Tm} {s s' : St}
    (h : solveS f id shift other s = .ok (some true) s') :
    ∃ sol, sshiftS f 0 (-(shift : Int)) other s = .ok (some sol) s ∧
      s' = { s with store := s.store.set id (some sol) } := by
  unfold solveS at h
  obtain ⟨o, s1, h1, h2⟩ := bind_ok h
  have e1 := sshiftS_state h1
  subst e1
  split at h2
  · obtain ⟨e, _⟩ := pure_ok h2; cases e
  · next sol0 =>
    obtain ⟨b, s2, h3, h4⟩ := bind_ok h2
    have e2 := WhnfLemmas.occursS_state h3
    subst e2
    split at h4
    · obtain ⟨e, _⟩ := pure_ok h4; cases e
    · obtain ⟨o2, s3, h5, h6⟩ := bind_ok h4
      rw [h1] at h5
      cases h5
      dsimp only at h6
      obtain ⟨u, s4, h7, h8⟩ := bind_ok h6
      obtain ⟨_, rfl⟩ := pure_ok h8
      unfold cellSet modifySt at h7
      cases h7
      exact ⟨sol0, h1, rfl⟩

theorem solveS_zk {f id shift : Nat} {other : Tm} {s s' : St}
    (h : solveS f id shift other s = .ok (some true) s') (he : Empty s.store id)
    (hS : storeDeep s.store) (hd : hdeep 0 other = true) :
    storeDeep s'.store ∧ Le s s' ∧ s'.dctx = s.dctx ∧
    ∀ σ, StoreLe s'.store σ → σ.length ≤ s.store.length → ∀ z zo, Zk σ (.hole id shift) z →
      Zk σ other zo → z.holeFree = true → z = zo := by
  obtain ⟨sol, h1, rfl⟩ := solveS_some_true h
  have hle : StoreLe s.store (s.store.set id (some sol)) := StoreMono.StoreLe_set sol he
  refine ⟨?_, ⟨hle, Nat.le_refl _⟩, rfl, ?_⟩
  · -- the store stays deep
    intro id' sub hsub
    dsimp only at hsub
    rw [List.getElem?_set] at hsub
    split at hsub
    · split at hsub
      · cases hsub
        have q := (sshiftS_zk (σ := s.store) f).1 0 (-(shift : Int)) other s hS
          ⟨Nat.le_refl _, fun _ _ h => h⟩ hd (some sol) s h1 (Nat.le_refl _) sol rfl
        exact hdeep_anti _ _ _ (Nat.zero_le _) q.1
      · cases hsub
    · exact hS _ _ hsub
  · intro σ hL hlen z zo hz hzo hzf
    dsimp only at hL
    have hLs : StoreLe s.store σ :=
      ⟨Nat.le_trans hle.1 hL.1, fun i t hi => hL.2 i t (hle.2 i t hi)⟩
    rcases Nat.lt_or_ge id s.store.length with hlt | hge
    · have hσ : σ[id]? = some (some sol) := hL.2 _ _ (by rw [List.getElem?_set_self hlt])
      rw [Zk_hole_some hσ] at hz
      obtain ⟨zs, hzs, rfl⟩ := hz
      have q := (sshiftS_zk f).1 0 (-(shift : Int)) other s hS hLs hd (some sol) s h1 (Nat.le_refl _) sol rfl
      obtain ⟨zr, e, k⟩ := q.2 _ hzo
      rw [Zk_det hzs k]
      exact FuelLemmas.ushift_of_sshift_neg zo zr 0 shift e
    · have hσ : σ[id]? = none := List.getElem?_eq_none (by omega)
      rw [Zk_hole_none (by simp [hσ])] at hz
      subst hz
      simp [Tm.holeFree] at hzf


/-! ## `unifyS` -/

/-- what a successful unification of `a` and `b` from `st` to `st'` establishes -/
def Sound (Δ : DCtxX) (a b : Tm) (st st' : St) : Prop :=
  storeDeep st'.store ∧ ∀ σ, StoreLe st'.store σ → σ.length ≤ st.store.length → ∀ z1 z2,
    Zk σ a z1 → Zk σ b z2 → z1.holeFree = true → z2.holeFree = true → Conv Δ z1 z2

theorem StoreLe.trans' {a b c : List (Option Tm)} (h1 : StoreLe a b) (h2 : StoreLe b c) : StoreLe a c :=
  ⟨Nat.le_trans h1.1 h2.1, fun id t h => h2.2 id t (h1.2 id t h)⟩

theorem Sound_leaf {Δ : DCtxX} {t : Tm} {st : St} (hl : Leaf t) (hS : storeDeep st.store) :
    Sound Δ t t st st := by
  refine ⟨hS, fun σ _ _ z1 z2 h1 h2 _ _ => ?_⟩
  rw [Zk_leaf hl] at h1 h2
  subst h1 h2
  exact .refl _ _

theorem unifyS_sound : ∀ (f : Nat) (a b : Tm) (s s' : St), unifyS f a b s = .ok true s' →
    storeDeep s.store → DHF s.dctx → hdeep 0 a = true → hdeep 0 b = true →
    s'.store.length ≤ s.store.length → Sound s.dctx a b s s' := by
  intro f
  induction f with
  | zero => intro a b s s' h; rw [unifyS] at h; cases h
  | succ f ih =>
    intro a b s s' h hS hD ha hb hlen
    have hunLe := StoreMono.unifyS_le f
    have hunCtx : ∀ {a b : Tm} {st st' : St} {r : Bool}, unifyS f a b st = .ok r st' → st'.dctx = st.dctx :=
      fun hu => (CtxH.restores (unifyS_ctx f _ _) hu).2
    have anti0 : ∀ {t : Tm} {c : Nat}, hdeep c t = true → hdeep 0 t = true :=
      fun h => hdeep_anti _ _ _ (Nat.zero_le _) h
    unfold unifyS at h
    obtain ⟨c, s0, h0, h1⟩ := bind_ok h
    have g0 := (synEqS_g2 ..).out _ _ _ h0
    split at h1
    · next hc =>
      obtain ⟨_, rfl⟩ := pure_ok h1
      have e0 : s0 = s := g0.eq hlen
      subst e0
      refine ⟨hS, fun σ hL hl z1 z2 hz1 hz2 _ _ => ?_⟩
      exact .same ((synEqS_zk f).1 a b s0 hS hL c s0 h0 (Nat.le_refl _) hc z1 z2 hz1 hz2)
    · obtain ⟨w1, s1, hw1, h2⟩ := bind_ok h1
      obtain ⟨w2, s2, hw2, h3⟩ := bind_ok h2
      have g1 := (whnfS_g2 ..).out _ _ _ hw1
      have g2 := (whnfS_g2 ..).out _ _ _ hw2
      have E1 : HoleEmpty w1 s2 :=
        fun i sh e => g2.grow.empty ((StoreMono.whnfS_hole _ _).out _ _ _ hw1 i sh e)
      have E2 : HoleEmpty w2 s2 := (StoreMono.whnfS_hole _ _).out _ _ _ hw2
      clear h h1 h2
      extract_lets structural rightHole at h3
      have hstructLe : Preserves Le structural := by
        have hpush := StoreMono.pushD_le
        have hpop := StoreMono.popD_le
        unfold structural
        pres
      have hstruct : ∀ st st', structural st = .ok true st' → storeDeep st.store → DHF st.dctx →
          hdeep 0 w1 = true → hdeep 0 w2 = true → st'.store.length ≤ st.store.length →
          Sound st.dctx w1 w2 st st' := by
        intro st st' hst hS hD h1 h2 hl
        unfold structural at hst
        split at hst
        · obtain ⟨_, rfl⟩ := pure_ok hst; exact Sound_leaf (by simp [Leaf]) hS
        · obtain ⟨_, rfl⟩ := pure_ok hst; exact Sound_leaf (by simp [Leaf]) hS
        · obtain ⟨_, rfl⟩ := pure_ok hst; exact Sound_leaf (by simp [Leaf]) hS
        · obtain ⟨_, rfl⟩ := pure_ok hst; exact Sound_leaf (by simp [Leaf]) hS
        · obtain ⟨_, rfl⟩ := pure_ok hst; exact Sound_leaf (by simp [Leaf]) hS
        · next x i y j =>
          obtain ⟨e, rfl⟩ := pure_ok hst
          refine ⟨hS, fun σ _ _ z1 z2 hz1 hz2 _ _ => ?_⟩
          rw [Zk_leaf (by simp [Leaf])] at hz1 hz2
          subst hz1 hz2
          exact .same (by simpa [sameX] using e)
        · next x im d1 b1 y jm d2 b2 =>
          split at hst
          · next him =>
            have him' : im = jm := by simpa using him
            subst him'
            obtain ⟨_, st1, hp, hst⟩ := bind_ok hst
            unfold pushD modifySt at hp
            cases hp
            obtain ⟨r, st2, hu, hst⟩ := bind_ok hst
            obtain ⟨_, st3, hq, hst⟩ := bind_ok hst
            unfold popD modifySt at hq
            cases hq
            obtain ⟨rfl, rfl⟩ := pure_ok hst
            simp only [hdeep, Bool.and_eq_true] at h1 h2
            have IH := ih b1 b2 _ _ hu hS (TypingSound.DHF_none hD) (anti0 h1.2) (anti0 h2.2) hl
            refine ⟨IH.1, fun σ hL hlen z1 z2 hz1 hz2 hf1 hf2 => ?_⟩
            rw [Zk_lam] at hz1 hz2
            obtain ⟨zd1, zb1, _, hb1, rfl⟩ := hz1
            obtain ⟨zd2, zb2, _, hb2, rfl⟩ := hz2
            simp only [Tm.holeFree, Bool.and_eq_true] at hf1 hf2
            exact .lam x y im _ _ (IH.2 σ hL hlen _ _ hb1 hb2 hf1.2 hf2.2)
          · obtain ⟨e, _⟩ := pure_ok hst; cases e
        · next x im d1 c1 y jm d2 c2 =>
          split at hst
          · next him =>
            have him' : im = jm := by simpa using him
            subst him'
            obtain ⟨c, st1, hu1, hst⟩ := bind_ok hst
            split at hst
            · next hc =>
              subst hc
              obtain ⟨_, st2, hp, hst⟩ := bind_ok hst
              unfold pushD modifySt at hp
              cases hp
              obtain ⟨r, st3, hu2, hst⟩ := bind_ok hst
              obtain ⟨_, st4, hq, hst⟩ := bind_ok hst
              unfold popD modifySt at hq
              cases hq
              obtain ⟨rfl, rfl⟩ := pure_ok hst
              simp only [hdeep, Bool.and_eq_true] at h1 h2
              have l1 := (hunLe d1 d2).out _ _ _ hu1
              have l2 := (hunLe c1 c2).out _ _ _ hu2
              have hc1 := hunCtx hu1
              have ll1 := l1.1.1
              have ll2 : st1.store.length ≤ st3.store.length := l2.1.1
              have hl' : st3.store.length ≤ st.store.length := hl
              have IH1 := ih d1 d2 _ _ hu1 hS hD h1.1 h2.1 (by omega)
              have IH2 := ih c1 c2 _ _ hu2 IH1.1 (TypingSound.DHF_none (hc1 ▸ hD)) (anti0 h1.2)
                (anti0 h2.2) (by show st3.store.length ≤ st1.store.length; omega)
              refine ⟨IH2.1, fun σ hL hlen z1 z2 hz1 hz2 hf1 hf2 => ?_⟩
              rw [Zk_pi] at hz1 hz2
              obtain ⟨zd1, zb1, hd1, hb1, rfl⟩ := hz1
              obtain ⟨zd2, zb2, hd2, hb2, rfl⟩ := hz2
              simp only [Tm.holeFree, Bool.and_eq_true] at hf1 hf2
              have hL3 : StoreLe st3.store σ := hL
              have cd := IH1.2 σ (StoreLe.trans' l2.1 hL3) hlen _ _ hd1 hd2 hf1.1 hf2.1
              have cc := IH2.2 σ hL3 (by show σ.length ≤ st1.store.length; omega) _ _ hb1 hb2 hf1.2 hf2.2
              rw [show ({ st1 with dctx := none :: st1.dctx } : St).dctx = none :: st.dctx by
                show none :: st1.dctx = _; rw [hc1]] at cc
              exact .pi x y im cd cc
            · obtain ⟨e, _⟩ := pure_ok hst; cases e
          · obtain ⟨e, _⟩ := pure_ok hst; cases e
        · next f1 a1 f2 a2 =>
          obtain ⟨c, st1, hu1, hst⟩ := bind_ok hst
          split at hst
          · next hc =>
            subst hc
            simp only [hdeep, Bool.and_eq_true] at h1 h2
            have l1 := (hunLe f1 f2).out _ _ _ hu1
            have l2 := (hunLe a1 a2).out _ _ _ hst
            have hc1 := hunCtx hu1
            have ll1 := l1.1.1
            have ll2 := l2.1.1
            have IH1 := ih f1 f2 _ _ hu1 hS hD h1.1 h2.1 (by omega)
            have IH2 := ih a1 a2 _ _ hst IH1.1 (hc1 ▸ hD) h1.2 h2.2 (by omega)
            refine ⟨IH2.1, fun σ hL hlen z1 z2 hz1 hz2 hf1 hf2 => ?_⟩
            rw [Zk_app] at hz1 hz2
            obtain ⟨zd1, zb1, hd1, hb1, rfl⟩ := hz1
            obtain ⟨zd2, zb2, hd2, hb2, rfl⟩ := hz2
            simp only [Tm.holeFree, Bool.and_eq_true] at hf1 hf2
            have cd := IH1.2 σ (StoreLe.trans' l2.1 hL) hlen _ _ hd1 hd2 hf1.1 hf2.1
            have cc := IH2.2 σ hL (by omega) _ _ hb1 hb2 hf1.2 hf2.2
            rw [hc1] at cc
            exact .app cd cc
          · obtain ⟨e, _⟩ := pure_ok hst; cases e
        · next n m =>
          obtain ⟨e, rfl⟩ := pure_ok hst
          refine ⟨hS, fun σ _ _ z1 z2 hz1 hz2 _ _ => ?_⟩
          rw [Zk_leaf (by simp [Leaf])] at hz1 hz2
          subst hz1 hz2
          exact .same (by simpa [sameX] using e)
        · next a1 a2 =>
          simp only [hdeep] at h1 h2
          have IH := ih a1 a2 _ _ hst hS hD h1 h2 hl
          refine ⟨IH.1, fun σ hL hlen z1 z2 hz1 hz2 hf1 hf2 => ?_⟩
          rw [Zk_neg] at hz1 hz2
          obtain ⟨zd1, hd1, rfl⟩ := hz1
          obtain ⟨zd2, hd2, rfl⟩ := hz2
          simp only [Tm.holeFree] at hf1 hf2
          exact .neg (IH.2 σ hL hlen _ _ hd1 hd2 hf1 hf2)
        · next o1 a1 b1 o2 a2 b2 =>
          split at hst
          · next ho =>
            have ho' : o1 = o2 := by simpa using ho
            subst ho'
            obtain ⟨c, st1, hu1, hst⟩ := bind_ok hst
            split at hst
            · next hc =>
              subst hc
              simp only [hdeep, Bool.and_eq_true] at h1 h2
              have l1 := (hunLe a1 a2).out _ _ _ hu1
              have l2 := (hunLe b1 b2).out _ _ _ hst
              have hc1 := hunCtx hu1
              have ll1 := l1.1.1
              have ll2 := l2.1.1
              have IH1 := ih a1 a2 _ _ hu1 hS hD h1.1 h2.1 (by omega)
              have IH2 := ih b1 b2 _ _ hst IH1.1 (hc1 ▸ hD) h1.2 h2.2 (by omega)
              refine ⟨IH2.1, fun σ hL hlen z1 z2 hz1 hz2 hf1 hf2 => ?_⟩
              rw [Zk_bin] at hz1 hz2
              obtain ⟨zd1, zb1, hd1, hb1, rfl⟩ := hz1
              obtain ⟨zd2, zb2, hd2, hb2, rfl⟩ := hz2
              simp only [Tm.holeFree, Bool.and_eq_true] at hf1 hf2
              have cd := IH1.2 σ (StoreLe.trans' l2.1 hL) hlen _ _ hd1 hd2 hf1.1 hf2.1
              have cc := IH2.2 σ hL (by omega) _ _ hb1 hb2 hf1.2 hf2.2
              rw [hc1] at cc
              exact .bin o1 cd cc
            · obtain ⟨e, _⟩ := pure_ok hst; cases e
          · obtain ⟨e, _⟩ := pure_ok hst; cases e
        · next c1 a1 b1 c2 a2 b2 =>
          obtain ⟨c, st1, hu1, hst⟩ := bind_ok hst
          split at hst
          · next hc =>
            subst hc
            obtain ⟨c', st2, hu2, hst⟩ := bind_ok hst
            split at hst
            · next hc' =>
              subst hc'
              simp only [hdeep, Bool.and_eq_true] at h1 h2
              have l1 := (hunLe c1 c2).out _ _ _ hu1
              have l2 := (hunLe a1 a2).out _ _ _ hu2
              have l3 := (hunLe b1 b2).out _ _ _ hst
              have hc1 := hunCtx hu1
              have hc2 := hunCtx hu2
              have ll1 := l1.1.1
              have ll2 := l2.1.1
              have ll3 := l3.1.1
              have IH1 := ih c1 c2 _ _ hu1 hS hD h1.1.1 h2.1.1 (by omega)
              have IH2 := ih a1 a2 _ _ hu2 IH1.1 (hc1 ▸ hD) h1.1.2 h2.1.2 (by omega)
              have IH3 := ih b1 b2 _ _ hst IH2.1 (hc2 ▸ hc1 ▸ hD) h1.2 h2.2 (by omega)
              refine ⟨IH3.1, fun σ hL hlen z1 z2 hz1 hz2 hf1 hf2 => ?_⟩
              rw [Zk_ite] at hz1 hz2
              obtain ⟨zc1, zd1, zb1, hcc1, hd1, hb1, rfl⟩ := hz1
              obtain ⟨zc2, zd2, zb2, hcc2, hd2, hb2, rfl⟩ := hz2
              simp only [Tm.holeFree, Bool.and_eq_true] at hf1 hf2
              have c0 := IH1.2 σ (StoreLe.trans' l2.1 (StoreLe.trans' l3.1 hL)) hlen _ _ hcc1 hcc2
                hf1.1.1 hf2.1.1
              have cd := IH2.2 σ (StoreLe.trans' l3.1 hL) (by omega) _ _ hd1 hd2 hf1.1.2 hf2.1.2
              have cc := IH3.2 σ hL (by omega) _ _ hb1 hb2 hf1.2 hf2.2
              rw [hc1] at cd
              rw [hc2, hc1] at cc
              exact .ite c0 cd cc
            · obtain ⟨e, _⟩ := pure_ok hst; cases e
          · obtain ⟨e, _⟩ := pure_ok hst; cases e
        · cases hst
        · cases hst
        · obtain ⟨e, _⟩ := pure_ok hst; cases e
      have hright : ∀ st st', rightHole st = .ok true st' → HoleEmpty w2 st →
          Le st st' ∧ (storeDeep st.store → DHF st.dctx → hdeep 0 w1 = true → hdeep 0 w2 = true →
            st'.store.length ≤ st.store.length → Sound st.dctx w1 w2 st st') := by
        intro st st' h he
        unfold rightHole at h
        split at h
        · next j r =>
          obtain ⟨o, st1, hs, h'⟩ := bind_ok h
          split at h'
          · next b =>
            obtain ⟨rfl, rfl⟩ := pure_ok h'
            refine ⟨(StoreMono.solveS_spec hs).2 (he _ _ rfl), fun hS hD h1 h2 hl => ?_⟩
            obtain ⟨sd, _, hdc, hz⟩ := solveS_zk hs (he _ _ rfl) hS h1
            refine ⟨sd, fun σ hL hlen z1 z2 hz1 hz2 hf1 hf2 => ?_⟩
            have := hz σ hL hlen z2 z1 hz2 hz1 hf2
            rw [this]
            exact .refl _ _
          · have e := solveS_none hs
            subst e
            exact ⟨hstructLe.out _ _ _ h', fun hS hD h1 h2 hl => hstruct _ _ h' hS hD h1 h2 hl⟩
        · exact ⟨hstructLe.out _ _ _ h, fun hS hD h1 h2 hl => hstruct _ _ h hS hD h1 h2 hl⟩
      have hleft : ∀ i sh, w1 = .hole i sh → ∀ st st',
          (do match ← solveS f i sh w2 with
              | some b => pure b
              | none => rightHole : M Bool) st = .ok true st' → HoleEmpty w1 st → HoleEmpty w2 st →
          Le st st' ∧ (storeDeep st.store → DHF st.dctx → hdeep 0 w1 = true → hdeep 0 w2 = true →
            st'.store.length ≤ st.store.length → Sound st.dctx w1 w2 st st') := by
        intro i sh e st st' h he1 he2
        obtain ⟨o, st1, hs, h'⟩ := bind_ok h
        split at h'
        · next b =>
          obtain ⟨rfl, rfl⟩ := pure_ok h'
          refine ⟨(StoreMono.solveS_spec hs).2 (he1 _ _ e), fun hS hD h1 h2 hl => ?_⟩
          obtain ⟨sd, _, hdc, hz⟩ := solveS_zk hs (he1 _ _ e) hS h2
          refine ⟨sd, fun σ hL hlen z1 z2 hz1 hz2 hf1 hf2 => ?_⟩
          rw [e] at hz1
          have := hz σ hL hlen z1 z2 hz1 hz2 hf1
          rw [this]
          exact .refl _ _
        · have e' := solveS_none hs
          subst e'
          exact hright _ _ h' he2
      have key : Le s2 s' ∧ (storeDeep s2.store → DHF s2.dctx → hdeep 0 w1 = true → hdeep 0 w2 = true →
            s'.store.length ≤ s2.store.length → Sound s2.dctx w1 w2 s2 s') := by
        split at h3
        · split at h3
          · next hij =>
            obtain ⟨_, rfl⟩ := pure_ok h3
            refine ⟨RT.refl _, fun hS _ _ _ _ => ⟨hS, fun σ _ _ z1 z2 hz1 hz2 _ _ => ?_⟩⟩
            simp only [Bool.and_eq_true, beq_iff_eq] at hij
            obtain ⟨rfl, rfl⟩ := hij
            rw [Zk_det hz1 hz2]
            exact .refl _ _
          · exact hleft _ _ rfl _ _ h3 E1 E2
        · exact hleft _ _ rfl _ _ h3 E1 E2
        · exact hright _ _ h3 E2
      obtain ⟨l2', K⟩ := key
      have n0 := g0.len_le
      have n1 := g1.len_le
      have n2 := g2.len_le
      have n3 := l2'.1.1
      have e0 : s0 = s := g0.eq (by omega)
      subst e0
      have e1 : s1 = s0 := g1.eq (by omega)
      subst e1
      have e2 : s2 = s1 := g2.eq (by omega)
      subst e2
      have rf : StoreLe s2.store s2.store := ⟨Nat.le_refl _, fun _ _ h => h⟩
      have q1 := whnfS_zk f a s2 hS rf hD ha w1 s2 hw1 (Nat.le_refl _)
      have q2 := whnfS_zk f b s2 hS rf hD hb w2 s2 hw2 (Nat.le_refl _)
      have SD := K hS hD q1.1 q2.1 hlen
      refine ⟨SD.1, fun σ hL hl z1 z2 hz1 hz2 hf1 hf2 => ?_⟩
      have hLs : StoreLe s2.store σ := StoreLe.trans' l2'.1 hL
      obtain ⟨zw1, k1, c1, f1⟩ := (whnfS_zk f a s2 hS hLs hD ha w1 s2 hw1 (Nat.le_refl _)).2 z1 hz1
      obtain ⟨zw2, k2, c2, f2⟩ := (whnfS_zk f b s2 hS hLs hD hb w2 s2 hw2 (Nat.le_refl _)).2 z2 hz2
      exact .trans c1 (.trans (SD.2 σ hL hl zw1 zw2 k1 k2 (f1 hf1) (f2 hf2)) (.symm c2))


/-- The form used by `Props/C12.lean`: zonking with the final store itself. -/
theorem unifyS_sound_final {f fz : Nat} {a b za zb : Tm} {s s' : St}
    (h : unifyS f a b s = .ok true s') (hS : storeDeep s.store) (hD : DHF s.dctx)
    (ha : hdeep 0 a = true) (hb : hdeep 0 b = true) (hlen : s'.store.length = s.store.length)
    (hza : zonk fz s'.store a = some za) (hzb : zonk fz s'.store b = some zb)
    (hfa : za.holeFree = true) (hfb : zb.holeFree = true) : Conv s.dctx za zb :=
  (unifyS_sound f a b s s' h hS hD ha hb (Nat.le_of_eq hlen)).2 s'.store
    ⟨Nat.le_refl _, fun _ _ h => h⟩ (Nat.le_of_eq hlen) za zb ⟨fz, hza⟩ ⟨fz, hzb⟩ hfa hfb

end UnifySound
