import GramModel.Check
import GramModel.Oracle
import GramModel.Typing
import GramModel.Lemmas.DeBruijn
import GramModel.Lemmas.StoreCtx
import GramModel.Lemmas.StoreMono
import GramModel.Lemmas.Whnf
import GramModel.Lemmas.UnifyAgree
import GramModel.Lemmas.TypingSound
import GramModel.Lemmas.CheckNoPanic

/-!
# Soundness of the model of gram's checker on hole-free programs (C03)

* `whnfS_cv`, `unifyS_cv` : on hole-free terms a run of the store-layer normalizer / unifier that
  answers is a `Conv` derivation (no detour through `whnfX` / `convX`, so no fuel alignment).
* `unify_fresh`, `unify_pi_fresh`, `unify_solved` : the three shapes of `unifyS` calls that involve a
  cell when the source program is hole-free.
* `Rules J` : the closure properties of a typing judgement used by the checker; the group rule is the
  *unfolding* rule (`letTypeX`), which is what gram computes.
* `infer_sound`, `checker_sound_generic` : the main induction, generic in the judgement.
* `HasTypeU`, `HasTypeNL`, `rules_HasType` : instances.
* `applyOps`, `applyOps_cong` : a sequence of `open`s, and the congruence of `Conv` for two sequences
  that substitute convertible terms (uses the group congruence `Conv.letg`).
* `group_type_conv` : `ds; bty` is convertible with the type `groupTypeX ds bty` that gram computes
  (`letTypeS` substitutes `ds; x` for every group variable `x`, last definition first; the
  normalizer substitutes the unfolded definitions, first definition first); hence the unfolding group
  rule is admissible in `HasType` (`groupRuleAdmissible`).
-/

namespace CheckSound

open UnifyAgree WhnfLemmas CheckNoPanic TypingSound
open StoreMono (bind_ok pure_ok)

/-- any panic allowed (we only ever look at successful runs) -/
abbrev AnyP : String → Prop := fun _ => True

/-! ## the normalizer -/

theorem letLoopS_cv (Δ : DCtxX) : ∀ (f : Nat) (todo : Defs) (body : Tm) (s : St),
    todo.holeFree = true → body.holeFree = true →
    Out3 s AnyP (fun b => b.holeFree = true ∧ Conv Δ (.letg todo body) b) (letLoopS f todo body s) := by
  intro f
  induction f with
  | zero => intro todo body s _ _; rw [letLoopS]; exact .fuel
  | succ f ih =>
    intro todo body s hd hb
    cases todo with
    | nil =>
      unfold letLoopS
      exact Out3.pure ⟨hb, .red (.letNil _)⟩
    | cons x a d r =>
      simp only [Defs.holeFree, Bool.and_eq_true] at hd
      have hu := unfoldDef_holeFree x a d r.len hd.1.1 hd.1.2
      unfold letLoopS
      dsimp only
      refine Out3.bind_pure (unfoldDefS_P f x a d r.len hd.1.1 hd.1.2) ?_
      refine Out3.bind_pure (openS_P' f a r.len _ 0 hd.1.1 hu) ?_
      refine Out3.bind_pure (openS_P' f d r.len _ 0 hd.1.2 hu) ?_
      refine Out3.bind_pure (substDefsS_P f r r.len _ hd.2 hu) ?_
      refine Out3.bind_pure (openS_P' f body r.len _ 0 hb hu) ?_
      refine (ih _ _ s (openDefs_holeFree _ _ _ _ hd.2 hu) (openT_holeFree _ _ _ _ hb hu)).mono ?_
      rintro b ⟨hbf, hc⟩
      exact ⟨hbf, .trans (.red (.letStep x a d r body)) hc⟩

theorem whnfS_cv : ∀ (f : Nat) (t : Tm) (s : St), t.holeFree = true → DHF s.dctx →
    Out3 s AnyP (fun r => r.holeFree = true ∧ Conv s.dctx t r) (whnfS f t s) := by
  intro f
  induction f with
  | zero => intro t s _ _; rw [whnfS]; exact .fuel
  | succ f ih =>
    intro t s hf hD
    have triv : ∀ (t : Tm), t.holeFree = true → (whnfS (f+1) t = pure t) →
        Out3 s AnyP (fun r => r.holeFree = true ∧ Conv s.dctx t r) (whnfS (f+1) t s) := by
      intro t hf e
      rw [e]
      exact Out3.pure ⟨hf, .refl _ _⟩
    cases t with
    | hole id sh => cases hf
    | type => exact triv _ hf (by unfold whnfS; rfl)
    | int => exact triv _ hf (by unfold whnfS; rfl)
    | bool => exact triv _ hf (by unfold whnfS; rfl)
    | tt => exact triv _ hf (by unfold whnfS; rfl)
    | ff => exact triv _ hf (by unfold whnfS; rfl)
    | lit n => exact triv _ hf (by unfold whnfS; rfl)
    | lam x im d b => exact triv _ hf (by unfold whnfS; rfl)
    | pi x im d b => exact triv _ hf (by unfold whnfS; rfl)
    | var x i =>
      unfold whnfS
      dsimp only
      show Out3 s _ _ ((match s.dctx[i]? with
        | none => panicAt "normalize_weak_head.definitions_context[index]"
        | some none => pure (Tm.var x i)
        | some (some (d, off)) =>
            if i + 1 < off then panicAt "normalize_weak_head.index+1-offset"
            else do
              let d' ← ushiftS f 0 (i + 1 - off) d
              whnfS f d') s)
      rcases heq : s.dctx[i]? with _ | _ | ⟨d, off⟩ <;> dsimp only
      · exact .panic trivial
      · exact Out3.pure ⟨rfl, .refl _ _⟩
      · have hd : d.holeFree = true := hD _ (List.mem_of_getElem? heq) d off rfl
        split
        · exact .panic trivial
        · next hlt =>
          refine Out3.bind_pure (ushiftS_P f 0 (i + 1 - off) d hd) ?_
          refine (ih _ s (by rw [ushift_holeFree]; exact hd) hD).mono ?_
          rintro r ⟨hr, hc⟩
          exact ⟨hr, .trans (.red (.delta x i d off heq (by omega))) hc⟩
    | app g0 a =>
      simp only [Tm.holeFree, Bool.and_eq_true] at hf
      unfold whnfS
      dsimp only
      refine Out3.bind (ih g0 s hf.1 hD) ?_
      rintro g' ⟨hg', cg⟩
      split
      · next x im d body =>
        simp only [Tm.holeFree, Bool.and_eq_true] at hg'
        refine Out3.bind_pure (openS_P' f body 0 a 0 hg'.2 hf.2) ?_
        refine (ih _ s (openT_holeFree _ _ _ _ hg'.2 hf.2) hD).mono ?_
        rintro r ⟨hr, hc⟩
        exact ⟨hr, .trans (.app cg (.refl _ _)) (.trans (.red (.beta x im d body a)) hc)⟩
      · exact Out3.pure ⟨by simp [Tm.holeFree, hg', hf.2], .app cg (.refl _ _)⟩
    | letg ds body =>
      simp only [Tm.holeFree, Bool.and_eq_true] at hf
      unfold whnfS
      dsimp only
      refine Out3.bind (letLoopS_cv s.dctx f ds body s hf.1 hf.2) ?_
      rintro b ⟨hb, cb⟩
      refine (ih b s hb hD).mono ?_
      rintro r ⟨hr, hc⟩
      exact ⟨hr, .trans cb hc⟩
    | neg a =>
      simp only [Tm.holeFree] at hf
      unfold whnfS
      dsimp only
      refine Out3.bind (ih a s hf hD) ?_
      rintro a' ⟨ha', ca⟩
      split
      · next n => exact Out3.pure ⟨rfl, .trans (.neg ca) (.red (.neg n))⟩
      · exact Out3.pure ⟨ha', .neg ca⟩
    | bin op a b =>
      simp only [Tm.holeFree, Bool.and_eq_true] at hf
      unfold whnfS
      dsimp only
      refine Out3.bind (ih a s hf.1 hD) ?_
      rintro a' ⟨ha', ca⟩
      refine Out3.bind (ih b s hf.2 hD) ?_
      rintro b' ⟨hb', cb⟩
      have hbin : (Tm.bin op a' b').holeFree = true ∧ Conv s.dctx (.bin op a b) (.bin op a' b') :=
        ⟨by simp [Tm.holeFree, ha', hb'], .bin op ca cb⟩
      split
      · next x y =>
        cases hdl : delta op x y with
        | some rr =>
          exact Out3.pure ⟨delta_holeFree hdl, .trans (.bin op ca cb) (.red (.arith op x y _ hdl))⟩
        | none => exact Out3.pure hbin
      · exact Out3.pure hbin
    | ite c a b =>
      simp only [Tm.holeFree, Bool.and_eq_true] at hf
      unfold whnfS
      dsimp only
      refine Out3.bind (ih c s hf.1.1 hD) ?_
      rintro c' ⟨hc', cc⟩
      split
      · refine (ih a s hf.1.2 hD).mono ?_
        rintro r ⟨hr, hc⟩
        exact ⟨hr, .trans (.ite cc (.refl _ _) (.refl _ _)) (.trans (.red (.iteTrue a b)) hc)⟩
      · refine (ih b s hf.2 hD).mono ?_
        rintro r ⟨hr, hc⟩
        exact ⟨hr, .trans (.ite cc (.refl _ _) (.refl _ _)) (.trans (.red (.iteFalse a b)) hc)⟩
      · exact Out3.pure ⟨by simp [Tm.holeFree, hc', hf.1.2, hf.2], .ite cc (.refl _ _) (.refl _ _)⟩

/-! ## the unifier on hole-free terms -/

theorem cv_if {s : St} {P : String → Prop} {m : M Bool} {X : Prop} (c : Bool)
    (h : Out3 s P (fun r => r = true → X) (m s)) :
    Out3 s P (fun r => r = true → (c = true ∧ X)) ((if c = true then m else pure false) s) := by
  cases c
  · exact Out3.pure (fun h => by cases h)
  · exact h.mono (fun r hr e => ⟨rfl, hr e⟩)

theorem cv_seq {s : St} {P : String → Prop} {m1 m2 : M Bool} {X1 X2 : Prop}
    (h1 : Out3 s P (fun r => r = true → X1) (m1 s))
    (h2 : Out3 s P (fun r => r = true → X2) (m2 s)) :
    Out3 s P (fun r => r = true → (X1 ∧ X2)) ((do if ← m1 then m2 else pure false) s) := by
  refine Out3.bind h1 (fun r1 hr1 => ?_)
  cases r1
  · exact Out3.pure (fun h => by cases h)
  · exact h2.mono (fun r2 hr2 e => ⟨hr1 rfl, hr2 e⟩)

/-- the induction hypothesis on `unifyS` -/
def CvIH (f : Nat) : Prop := ∀ (a b : Tm) (s : St), a.holeFree = true → b.holeFree = true →
  DHF s.dctx → Out3 s AnyP (fun r => r = true → Conv s.dctx a b) (unifyS f a b s)

theorem head_cv (f : Nat) (ih : CvIH f) (w1 w2 : Tm) (s : St) (h1 : w1.holeFree = true)
    (h2 : w2.holeFree = true) (n1 : NotLet w1) (n2 : NotLet w2) (hD : DHF s.dctx) :
    Out3 s AnyP (fun r => r = true → Conv s.dctx w1 w2) (unifyHead f w1 w2 s) := by
  cases w1 <;> cases w2
  all_goals first
    | (exfalso; exact n1 _ _ rfl)
    | (exfalso; exact n2 _ _ rfl)
    | (exfalso; cases h1; done)
    | (exfalso; cases h2; done)
    | skip
  all_goals simp only [unifyHead]
  all_goals try exact Out3.pure (fun _ => .refl _ _)
  all_goals try exact Out3.pure (fun h => Bool.noConfusion h)
  case lit.lit n m =>
    refine Out3.pure (fun h => ?_)
    have := eq_of_beq h
    subst this
    exact .refl _ _
  case var.var x i y j =>
    refine Out3.pure (fun h => ?_)
    have := eq_of_beq h
    subst this
    exact .same (by simp [sameX])
  case lam.lam x1 i1 d1 b1 x2 i2 d2 b2 =>
    simp only [Tm.holeFree, Bool.and_eq_true] at h1 h2
    refine (cv_if _ (out3_under (ih b1 b2 _ h1.2 h2.2 (DHF.push hD)))).mono ?_
    rintro r hr e
    obtain ⟨him, c⟩ := hr e
    have := eq_of_beq him
    subst this
    exact .lam _ _ _ _ _ c
  case pi.pi x1 i1 d1 c1 x2 i2 d2 c2 =>
    simp only [Tm.holeFree, Bool.and_eq_true] at h1 h2
    refine (cv_if _ (cv_seq (ih d1 d2 s h1.1 h2.1 hD)
      (out3_under (ih c1 c2 _ h1.2 h2.2 (DHF.push hD))))).mono ?_
    rintro r hr e
    obtain ⟨him, cd, cc⟩ := hr e
    have := eq_of_beq him
    subst this
    exact .pi _ _ _ cd cc
  case app.app f1 a1 f2 a2 =>
    simp only [Tm.holeFree, Bool.and_eq_true] at h1 h2
    refine (cv_seq (ih f1 f2 s h1.1 h2.1 hD) (ih a1 a2 s h1.2 h2.2 hD)).mono ?_
    rintro r hr e
    exact .app (hr e).1 (hr e).2
  case neg.neg a1 a2 =>
    simp only [Tm.holeFree] at h1 h2
    exact (ih a1 a2 s h1 h2 hD).mono (fun r hr e => .neg (hr e))
  case bin.bin o1 a1 b1 o2 a2 b2 =>
    simp only [Tm.holeFree, Bool.and_eq_true] at h1 h2
    refine (cv_if _ (cv_seq (ih a1 a2 s h1.1 h2.1 hD) (ih b1 b2 s h1.2 h2.2 hD))).mono ?_
    rintro r hr e
    obtain ⟨hop, ca, cb⟩ := hr e
    have := eq_of_beq hop
    subst this
    exact .bin _ ca cb
  case ite.ite c1 a1 b1 c2 a2 b2 =>
    simp only [Tm.holeFree, Bool.and_eq_true] at h1 h2
    refine (cv_seq (ih c1 c2 s h1.1.1 h2.1.1 hD)
      (cv_seq (ih a1 a2 s h1.1.2 h2.1.2 hD) (ih b1 b2 s h1.2 h2.2 hD))).mono ?_
    rintro r hr e
    obtain ⟨cc, ca, cb⟩ := hr e
    exact .ite cc ca cb

/-- everything `unifyS` needs to know about a run of `whnfS` on a hole-free term -/
theorem whnfS_cv' (f : Nat) (t : Tm) (s : St) (hf : t.holeFree = true) (hD : DHF s.dctx) :
    Out3 s AnyP (fun r => r.holeFree = true ∧ NotLet r ∧ Conv s.dctx t r) (whnfS f t s) := by
  have h := whnfS_cv f t s hf hD
  generalize hx : whnfS f t s = x at h
  cases h with
  | fuel => exact .fuel
  | panic h => exact .panic h
  | ok h => exact .ok ⟨h.1, whnfS_notLet' hx, h.2⟩

theorem unifyS_cv : ∀ (f : Nat), CvIH f := by
  intro f
  induction f with
  | zero => intro a b s _ _ _; rw [unifyS]; exact .fuel
  | succ f ih =>
    intro a b s ha hb hD
    rw [unifyS_succ]
    refine Out3.bind_pure ((synEqS_P f).1 a b ha hb) ?_
    cases hs : sameX a b
    · simp only [Bool.false_eq_true, if_false]
      refine Out3.bind (whnfS_cv' f a s ha hD) ?_
      rintro w1 ⟨hw1, n1, c1⟩
      refine Out3.bind (whnfS_cv' f b s hb hD) ?_
      rintro w2 ⟨hw2, n2, c2⟩
      refine (head_cv f ih w1 w2 s hw1 hw2 n1 n2 hD).mono ?_
      intro r hr e
      exact .trans c1 (.trans (hr e) (.symm c2))
    · simp only [if_true]
      exact Out3.pure (fun _ => .same hs)

/-- inversion form: a successful hole-free unification leaves the state alone and is a conversion -/
theorem unifyS_ok_conv {f : Nat} {a b : Tm} {s s' : St} {r : Bool} (ha : a.holeFree = true)
    (hb : b.holeFree = true) (hD : DHF s.dctx) (h : unifyS f a b s = .ok r s') :
    s' = s ∧ (r = true → Conv s.dctx a b) := by
  have := unifyS_cv f a b s ha hb hD
  rw [h] at this
  cases this with
  | ok hq => exact ⟨rfl, hq⟩

theorem whnfS_ok_conv {f : Nat} {t : Tm} {s s' : St} {r : Tm} (ht : t.holeFree = true)
    (hD : DHF s.dctx) (h : whnfS f t s = .ok r s') :
    s' = s ∧ r.holeFree = true ∧ NotLet r ∧ Conv s.dctx t r := by
  have := whnfS_cv' f t s ht hD
  rw [h] at this
  cases this with
  | ok hq => exact ⟨rfl, hq⟩

/-! ## cells: the three shapes of `unifyS` calls that involve a cell -/

theorem _root_.UnifyAgree.Pure.inv {α} {m : M α} {v : α} (h : Pure m v) {s s' : St} {a : α} (e : m s = .ok a s') :
    a = v ∧ s' = s := by
  rcases h.out s with e' | e' <;> rw [e'] at e
  · cases e; exact ⟨rfl, rfl⟩
  · cases e

/-- a successful run of `m >>= f` with `m` pure is a run of `f v` from the same state -/
theorem _root_.UnifyAgree.Pure.bind_inv {α β} {m : M α} {f : α → M β} {v : α} (hm : Pure m v) {s s' : St} {b : β}
    (h : (m >>= f) s = .ok b s') : f v s = .ok b s' := by
  obtain ⟨a, s1, h1, h2⟩ := bind_ok h
  obtain ⟨rfl, rfl⟩ := hm.inv h1
  exact h2

theorem occursS_P : ∀ f,
    (∀ id t, t.holeFree = true → Pure (occursS f id t) false) ∧
    (∀ id ds, ds.holeFree = true → Pure (occursDefsS f id ds) false) := by
  intro f
  induction f with
  | zero =>
    constructor
    · intros; rw [occursS]; exact Pure.outOfFuel
    · intros; rw [occursDefsS]; exact Pure.outOfFuel
  | succ f ih =>
    obtain ⟨ih1, ih2⟩ := ih
    constructor
    · intro id t hf
      cases t <;> simp only [Tm.holeFree, Bool.and_eq_true] at hf <;> unfold occursS <;>
        dsimp only
      case hole => cases hf
      all_goals first
        | exact UnifyAgree.Pure.pure _
        | exact ih1 _ _ hf
        | (refine Pure.bind (ih1 _ _ hf.1) ?_
           simp only [Bool.false_eq_true, if_false]
           exact ih1 _ _ hf.2)
        | (refine Pure.bind (ih2 _ _ hf.1) ?_
           simp only [Bool.false_eq_true, if_false]
           exact ih1 _ _ hf.2)
        | (refine Pure.bind (ih1 _ _ hf.1.1) ?_
           simp only [Bool.false_eq_true, if_false]
           refine Pure.bind (ih1 _ _ hf.1.2) ?_
           simp only [Bool.false_eq_true, if_false]
           exact ih1 _ _ hf.2)
    · intro id ds hf
      cases ds <;> simp only [Defs.holeFree, Bool.and_eq_true] at hf <;> unfold occursDefsS <;>
        dsimp only
      · exact UnifyAgree.Pure.pure _
      · refine Pure.bind (ih1 _ _ hf.1.1) ?_
        simp only [Bool.false_eq_true, if_false]
        refine Pure.bind (ih1 _ _ hf.1.2) ?_
        simp only [Bool.false_eq_true, if_false]
        exact ih2 _ _ hf.2

/-- solving an unsolved cell of shift 0 with a hole-free term -/
theorem solveS_fresh {f i : Nat} {w : Tm} {s s' : St} {o : Option Bool} (hw : w.holeFree = true)
    (h : solveS f i 0 w s = .ok o s') :
    o = some true ∧ s' = { s with store := s.store.set i (some w) } := by
  unfold solveS at h
  rw [neg_natCast_zero_int] at h
  have h := ((sshiftS_P f).1 0 0 w hw).bind_inv h
  rw [sshift_zero_hf] at h
  dsimp only at h
  have h := ((occursS_P f).1 i w hw).bind_inv h
  simp only [Bool.false_eq_true, if_false] at h
  have h := ((sshiftS_P f).1 0 0 w hw).bind_inv h
  rw [sshift_zero_hf] at h
  dsimp only at h
  obtain ⟨u, s1, h1, h2⟩ := bind_ok h
  obtain ⟨rfl, rfl⟩ := pure_ok h2
  cases h1
  exact ⟨rfl, rfl⟩

theorem derefS_unsolved {f i k : Nat} {s s' : St} {a : Tm} (hc : cellVal s.store i = none)
    (h : derefS f (.hole i k) s = .ok a s') : a = .hole i k ∧ s' = s := by
  cases f with
  | zero => rw [derefS] at h; cases h
  | succ f =>
    unfold derefS at h
    dsimp only at h
    rw [cellGet_bind, hc] at h
    obtain ⟨rfl, rfl⟩ := pure_ok h
    exact ⟨rfl, rfl⟩

theorem synEqS_unsolved {f i k : Nat} {b : Tm} {s s' : St} {x : Bool}
    (hc : cellVal s.store i = none) (hb : b.holeFree = true)
    (h : synEqS f (.hole i k) b s = .ok x s') : x = false ∧ s' = s := by
  cases f with
  | zero => rw [synEqS] at h; cases h
  | succ f =>
    unfold synEqS at h
    obtain ⟨a, s1, h1, h2⟩ := bind_ok h
    obtain ⟨rfl, rfl⟩ := derefS_unsolved hc h1
    have h2 := (derefS_P f b hb).bind_inv h2
    cases b <;> first | (cases hb; done) | (obtain ⟨rfl, rfl⟩ := pure_ok h2; exact ⟨rfl, rfl⟩)

theorem whnfS_unsolved {f i k : Nat} {s s' : St} {a : Tm} (hc : cellVal s.store i = none)
    (h : whnfS f (.hole i k) s = .ok a s') : a = .hole i k ∧ s' = s := by
  cases f with
  | zero => rw [whnfS] at h; cases h
  | succ f =>
    unfold whnfS at h
    dsimp only at h
    rw [cellGet_bind, hc] at h
    obtain ⟨rfl, rfl⟩ := pure_ok h
    exact ⟨rfl, rfl⟩

theorem unifyHead_hole_left (f i k : Nat) (w2 : Tm) (h : w2.holeFree = true) :
    unifyHead f (.hole i k) w2 = (do
      match ← solveS f i k w2 with
      | some b => pure b
      | none => rightM f (.hole i k) w2) := by
  rw [unifyHead_eq]
  cases w2 <;> first | rfl | cases h

/-- `unifyS` with an unsolved cell (shift 0) on the left and a hole-free term on the right: the cell
is solved with the weak head normal form of the term -/
theorem unify_fresh {f i : Nat} {b : Tm} {s s' : St} {r : Bool} (hc : cellVal s.store i = none)
    (hb : b.holeFree = true) (hD : DHF s.dctx) (h : unifyS f (.hole i 0) b s = .ok r s') :
    r = true ∧ ∃ W, s' = { s with store := s.store.set i (some W) } ∧ W.holeFree = true ∧
      Conv s.dctx b W := by
  cases f with
  | zero => rw [unifyS] at h; cases h
  | succ f =>
    rw [unifyS_succ] at h
    obtain ⟨x, s1, h1, h2⟩ := bind_ok h
    obtain ⟨rfl, rfl⟩ := synEqS_unsolved hc hb h1
    simp only [Bool.false_eq_true, if_false] at h2
    obtain ⟨w1, s2, h3, h4⟩ := bind_ok h2
    obtain ⟨rfl, rfl⟩ := whnfS_unsolved hc h3
    obtain ⟨w2, s3, h5, h6⟩ := bind_ok h4
    obtain ⟨rfl, hw2, _, c2⟩ := whnfS_ok_conv hb hD h5
    rw [unifyHead_hole_left f i 0 w2 hw2] at h6
    obtain ⟨o, s4, h7, h8⟩ := bind_ok h6
    obtain ⟨rfl, rfl⟩ := solveS_fresh hw2 h7
    dsimp only at h8
    obtain ⟨rfl, rfl⟩ := pure_ok h8
    exact ⟨rfl, w2, rfl, hw2, c2⟩

theorem synEqS_pi_unsolved {f i : Nat} {x0 : Name} {c g : Tm} {s s' : St} {x : Bool}
    (hc : cellVal s.store i = none) (hg : g.holeFree = true)
    (h : synEqS f (.pi x0 false (.hole i 0) c) g s = .ok x s') : x = false ∧ s' = s := by
  cases f with
  | zero => rw [synEqS] at h; cases h
  | succ f =>
    unfold synEqS at h
    obtain ⟨a, s1, h1, h2⟩ := bind_ok h
    have ha : a = .pi x0 false (.hole i 0) c ∧ s1 = s := by
      cases f with
      | zero => rw [derefS] at h1; cases h1
      | succ f =>
        unfold derefS at h1
        obtain ⟨rfl, rfl⟩ := pure_ok h1
        exact ⟨rfl, rfl⟩
    obtain ⟨rfl, rfl⟩ := ha
    have h2 := (derefS_P f g hg).bind_inv h2
    cases g <;> first
      | (cases hg; done)
      | (obtain ⟨rfl, rfl⟩ := pure_ok h2; exact ⟨rfl, rfl⟩)
      | skip
    case pi y jm d2 c2 =>
      simp only [Tm.holeFree, Bool.and_eq_true] at hg
      dsimp only at h2
      split at h2
      · obtain ⟨x1, s2, h3, h4⟩ := bind_ok h2
        obtain ⟨rfl, rfl⟩ := synEqS_unsolved hc hg.1 h3
        simp only [Bool.false_eq_true, if_false] at h4
        obtain ⟨rfl, rfl⟩ := pure_ok h4
        exact ⟨rfl, rfl⟩
      · obtain ⟨rfl, rfl⟩ := pure_ok h2
        exact ⟨rfl, rfl⟩

theorem whnfS_pi {f : Nat} {x : Name} {im : Bool} {d c : Tm} {s s' : St} {a : Tm}
    (h : whnfS f (.pi x im d c) s = .ok a s') : a = .pi x im d c ∧ s' = s := by
  cases f with
  | zero => rw [whnfS] at h; cases h
  | succ f =>
    unfold whnfS at h
    obtain ⟨rfl, rfl⟩ := pure_ok h
    exact ⟨rfl, rfl⟩

theorem unifyHead_pi_left (f : Nat) (x : Name) (im : Bool) (d c w2 : Tm) (h : w2.holeFree = true) :
    unifyHead f (.pi x im d c) w2 = structM f (.pi x im d c) w2 := by
  rw [unifyHead_eq]
  cases w2 <;> first | rfl | cases h

theorem cellVal_set_ne {σ : List (Option Tm)} {i j : Nat} (v : Tm) (hij : j ≠ i) :
    cellVal (σ.set i (some v)) j = cellVal σ j := by
  unfold cellVal
  rw [List.getElem?_set_ne (fun e => hij e.symm)]

/-- `pushD none; r ← m; popD; pure r` — inversion -/
theorem under_inv {m : M Bool} {s s' : St} {r : Bool}
    (h : (do pushD none; let r ← m; popD; pure r) s = .ok r s') :
    ∃ s1, m { s with dctx := none :: s.dctx } = .ok r s1 ∧ s' = { s1 with dctx := s1.dctx.tail } := by
  obtain ⟨u, s1, h1, h2⟩ := bind_ok h
  cases h1
  obtain ⟨r1, s2, h3, h4⟩ := bind_ok h2
  obtain ⟨u2, s3, h5, h6⟩ := bind_ok h4
  cases h5
  obtain ⟨rfl, rfl⟩ := pure_ok h6
  exact ⟨s2, h3, rfl⟩

/-- the application rule's first unification: `Π (_ : ?i). ?j` against the (hole-free) type of the
function — succeeds only if that type normalizes to a `Π`, whose components solve the two cells -/
theorem unify_pi_fresh {f i j : Nat} {x0 : Name} {g : Tm} {s s' : St}
    (hi : cellVal s.store i = none) (hj : cellVal s.store j = none) (hij : j ≠ i)
    (hg : g.holeFree = true) (hD : DHF s.dctx)
    (h : unifyS f (.pi x0 false (.hole i 0) (.hole j 0)) g s = .ok true s') :
    ∃ y A B, s' = { s with store := (s.store.set i (some A)).set j (some B) } ∧
      A.holeFree = true ∧ B.holeFree = true ∧ Conv s.dctx g (.pi y false A B) := by
  cases f with
  | zero => rw [unifyS] at h; cases h
  | succ f =>
    rw [unifyS_succ] at h
    obtain ⟨x, s1, h1, h2⟩ := bind_ok h
    obtain ⟨rfl, rfl⟩ := synEqS_pi_unsolved hi hg h1
    simp only [Bool.false_eq_true, if_false] at h2
    obtain ⟨w1, s2, h3, h4⟩ := bind_ok h2
    obtain ⟨rfl, rfl⟩ := whnfS_pi h3
    obtain ⟨w2, s3, h5, h6⟩ := bind_ok h4
    obtain ⟨rfl, hw2, nl2, c2⟩ := whnfS_ok_conv hg hD h5
    rw [unifyHead_pi_left f _ _ _ _ w2 hw2] at h6
    cases w2 <;> first
      | (cases hw2; done)
      | (exfalso; exact nl2 _ _ rfl)
      | (simp only [structM] at h6; obtain ⟨e, _⟩ := pure_ok h6; cases e; done)
      | skip
    case pi y jm d2 c2' =>
      simp only [Tm.holeFree, Bool.and_eq_true] at hw2
      simp only [structM] at h6
      split at h6
      · next him =>
        have : jm = false := (eq_of_beq him).symm
        subst this
        obtain ⟨r1, s4, h7, h8⟩ := bind_ok h6
        obtain ⟨rfl, A, rfl, hA, cA⟩ := unify_fresh hi hw2.1 hD h7
        simp only [if_true] at h8
        obtain ⟨s5, h9, rfl⟩ := under_inv h8
        have hj' : cellVal (s3.store.set i (some A)) j = none := by
          rw [cellVal_set_ne A hij]; exact hj
        obtain ⟨_, B, rfl, hB, cB⟩ := unify_fresh (i := j) hj' hw2.2 (DHF.push hD) h9
        refine ⟨y, A, B, rfl, hA, hB, ?_⟩
        exact .trans c2 (.pi _ _ _ cA cB)
      · obtain ⟨e, _⟩ := pure_ok h6; cases e

theorem derefS_solved {f i : Nat} {A : Tm} {s s' : St} {a : Tm} (hc : cellVal s.store i = some A)
    (hA : A.holeFree = true) (h : derefS f (.hole i 0) s = .ok a s') : a = A ∧ s' = s ∧ 2 ≤ f := by
  cases f with
  | zero => rw [derefS] at h; cases h
  | succ f =>
    unfold derefS at h
    dsimp only at h
    rw [cellGet_bind, hc] at h
    dsimp only at h
    have h := (ushiftS_P f 0 0 A hA).bind_inv h
    rw [ushift_zero] at h
    cases f with
    | zero => rw [derefS] at h; cases h
    | succ f =>
      obtain ⟨rfl, rfl⟩ := (derefS_P (f+1) A hA).inv h
      exact ⟨rfl, rfl, by omega⟩

theorem synEqS_solved {f i : Nat} {A b : Tm} {s s' : St} {x : Bool}
    (hc : cellVal s.store i = some A) (hA : A.holeFree = true) (hb : b.holeFree = true)
    (h : synEqS f (.hole i 0) b s = .ok x s') : x = sameX A b ∧ s' = s := by
  cases f with
  | zero => rw [synEqS] at h; cases h
  | succ f =>
    have h' : synEqS (f+1) A b s = .ok x s' := by
      unfold synEqS at h ⊢
      obtain ⟨a, s1, h1, h2⟩ := bind_ok h
      obtain ⟨rfl, rfl, hf2⟩ := derefS_solved hc hA h1
      obtain ⟨f', rfl⟩ : ∃ f', f = f' + 1 := ⟨f - 1, by omega⟩
      rw [OracleLemmas.derefS_holeFree f' a hA]
      exact h2
    exact ((synEqS_P (f+1)).1 A b hA hb).inv h'

theorem whnfS_solved {f i : Nat} {A : Tm} {s s' : St} {a : Tm} (hc : cellVal s.store i = some A)
    (hA : A.holeFree = true) (h : whnfS f (.hole i 0) s = .ok a s') :
    ∃ f', whnfS f' A s = .ok a s' := by
  cases f with
  | zero => rw [whnfS] at h; cases h
  | succ f =>
    unfold whnfS at h
    dsimp only at h
    rw [cellGet_bind, hc] at h
    dsimp only at h
    have h := (ushiftS_P f 0 0 A hA).bind_inv h
    rw [ushift_zero] at h
    exact ⟨f, h⟩

/-- `unifyS` with a cell solved by a hole-free term on the left -/
theorem unify_solved {f i : Nat} {A b : Tm} {s s' : St} {r : Bool}
    (hc : cellVal s.store i = some A) (hA : A.holeFree = true) (hb : b.holeFree = true)
    (hD : DHF s.dctx) (h : unifyS f (.hole i 0) b s = .ok r s') :
    s' = s ∧ (r = true → Conv s.dctx A b) := by
  cases f with
  | zero => rw [unifyS] at h; cases h
  | succ f =>
    rw [unifyS_succ] at h
    obtain ⟨x, s1, h1, h2⟩ := bind_ok h
    obtain ⟨rfl, rfl⟩ := synEqS_solved hc hA hb h1
    cases hs : sameX A b
    · rw [hs] at h2
      simp only [Bool.false_eq_true, if_false] at h2
      obtain ⟨w1, s2, h3, h4⟩ := bind_ok h2
      obtain ⟨f', h3'⟩ := whnfS_solved hc hA h3
      obtain ⟨rfl, hw1, n1, c1⟩ := whnfS_ok_conv hA hD h3'
      obtain ⟨w2, s3, h5, h6⟩ := bind_ok h4
      obtain ⟨rfl, hw2, n2, c2⟩ := whnfS_ok_conv hb hD h5
      have := head_cv f (unifyS_cv f) w1 w2 _ hw1 hw2 n1 n2 hD
      rw [h6] at this
      cases this with
      | ok hq => exact ⟨rfl, fun e => .trans c1 (.trans (hq e) (.symm c2))⟩
    · rw [hs] at h2
      simp only [if_true] at h2
      obtain ⟨rfl, rfl⟩ := pure_ok h2
      exact ⟨rfl, fun _ => .same hs⟩

/-- `open` of a cell solved by a hole-free term -/
theorem openS_solved {f j : Nat} {B a : Tm} {s s' : St} {ty : Tm}
    (hc : cellVal s.store j = some B) (hB : B.holeFree = true) (ha : a.holeFree = true)
    (h : openS f (.hole j 0) 0 a 0 s = .ok ty s') : ty = openT B 0 a 0 ∧ s' = s := by
  cases f with
  | zero => rw [openS] at h; cases h
  | succ f =>
    unfold openS at h
    dsimp only at h
    rw [cellGet_bind, hc] at h
    dsimp only at h
    have h := (ushiftS_P f 0 0 B hB).bind_inv h
    rw [ushift_zero] at h
    exact (openS_P' f B 0 a 0 hB ha).inv h

/-! ## the type of a group, as gram computes it -/

/-- the pure version of `letTypeS` -/
def letTypeX (ds : Defs) : Nat → Nat → Tm → Tm
  | 0, _, acc => acc
  | k+1, i, acc =>
      let n := ds.len
      let amount := n - 1 - i
      let name := match (ds.toList[amount]?) with
        | some (x, _, _) => x
        | none => 0
      letTypeX ds k (i + 1) (openT acc 0 (.letg (ushiftDefs n amount ds) (.var name i)) 0)

/-- the type gram reports for the group `ds; body` when `body : bty` under the group -/
abbrev groupTypeX (ds : Defs) (bty : Tm) : Tm := letTypeX ds ds.len 0 bty

theorem letTypeX_holeFree (ds : Defs) (hds : ds.holeFree = true) : ∀ (k i : Nat) (acc : Tm),
    acc.holeFree = true → (letTypeX ds k i acc).holeFree = true := by
  intro k
  induction k with
  | zero => intro i acc h; exact h
  | succ k ih =>
    intro i acc h
    unfold letTypeX
    refine ih _ _ (openT_holeFree _ _ _ _ h ?_)
    simp only [Tm.holeFree, Bool.and_eq_true, and_true]
    rw [ushiftDefs_holeFree]; exact hds

theorem letTypeS_P (f : Nat) (ds : Defs) (hds : ds.holeFree = true) : ∀ (k i : Nat) (acc : Tm),
    acc.holeFree = true → Pure (letTypeS f ds k i acc) (letTypeX ds k i acc) := by
  intro k
  induction k with
  | zero => intro i acc _; unfold letTypeS letTypeX; exact UnifyAgree.Pure.pure _
  | succ k ih =>
    intro i acc h
    unfold letTypeS letTypeX
    dsimp only
    refine Pure.bind (v := ushiftDefs ds.len (ds.len - 1 - i) ds)
      (Pure.bind ((sshiftS_P f).2 ds.len ((ds.len - 1 - i : Nat) : Int) ds hds) ?_) ?_
    · rw [sshiftDefs_ushift]
      exact UnifyAgree.Pure.pure _
    · have hl : (Tm.letg (ushiftDefs ds.len (ds.len - 1 - i) ds)
          (.var (match (ds.toList[ds.len - 1 - i]?) with | some (x, _, _) => x | none => 0) i)).holeFree
          = true := by
        simp only [Tm.holeFree, Bool.and_eq_true, and_true]
        rw [ushiftDefs_holeFree]; exact hds
      refine Pure.bind (openS_P' f acc 0 _ 0 h hl) ?_
      exact ih _ _ (openT_holeFree _ _ _ _ h hl)

/-! ## a generic typing judgement -/

/-- every definition of a group is well typed at its annotation, for the judgement `J` -/
def DefsJ (J : TCtxX → DCtxX → Tm → Tm → Prop) (Γ : TCtxX) (Δ : DCtxX) : Defs → Prop
  | .nil => True
  | .cons _ a d r => J Γ Δ a .type ∧ J Γ Δ d a ∧ DefsJ J Γ Δ r

/-- The closure properties of a typing judgement that the checker relies on: the rules of
`Typing.lean`, except that the group rule assigns the *unfolded* type `groupTypeX ds bty` (what gram
computes) instead of `.letg ds bty`. -/
structure Rules (J : TCtxX → DCtxX → Tm → Tm → Prop) : Prop where
  type : ∀ Γ Δ, J Γ Δ .type .type
  int : ∀ Γ Δ, J Γ Δ .int .type
  bool : ∀ Γ Δ, J Γ Δ .bool .type
  lit : ∀ Γ Δ n, J Γ Δ (.lit n) .int
  tt : ∀ Γ Δ, J Γ Δ .tt .bool
  ff : ∀ Γ Δ, J Γ Δ .ff .bool
  var : ∀ Γ Δ x i ty off, Γ[i]? = some (ty, off) → off ≤ i + 1 →
    J Γ Δ (.var x i) (ushift 0 (i + 1 - off) ty)
  lam : ∀ Γ Δ x im d b cod, J Γ Δ d .type → J ((d, 0) :: Γ) (none :: Δ) b cod →
    J Γ Δ (.lam x im d b) (.pi x im d cod)
  pi : ∀ Γ Δ x im d c, J Γ Δ d .type → J ((d, 0) :: Γ) (none :: Δ) c .type →
    J Γ Δ (.pi x im d c) .type
  app : ∀ Γ Δ x im g a dom cod, J Γ Δ g (.pi x im dom cod) → J Γ Δ a dom →
    J Γ Δ (.app g a) (openT cod 0 a 0)
  neg : ∀ Γ Δ a, J Γ Δ a .int → J Γ Δ (.neg a) .int
  bin : ∀ Γ Δ op a b, J Γ Δ a .int → J Γ Δ b .int → J Γ Δ (.bin op a b) (binResult op)
  ite : ∀ Γ Δ c a b T, J Γ Δ c .bool → J Γ Δ a T → J Γ Δ b T → J Γ Δ (.ite c a b) T
  conv : ∀ Γ Δ t T T', J Γ Δ t T → Conv Δ T T' → J Γ Δ t T'
  letU : ∀ Γ Δ ds body bty, ds.holeFree = true → body.holeFree = true → bty.holeFree = true →
    DefsJ J (pushGroupX ds 0 (Γ, Δ)).1 (pushGroupX ds 0 (Γ, Δ)).2 ds →
    J (pushGroupX ds 0 (Γ, Δ)).1 (pushGroupX ds 0 (Γ, Δ)).2 body bty →
    J Γ Δ (.letg ds body) (groupTypeX ds bty)

/-! ## bookkeeping: error counts, contexts, cells -/

open StoreMono (Preserves Le StoreLe)

/-- a bind inside a run that reports no error: neither part reports one -/
theorem bind_inv_n {α β} {m : M α} {K : α → M β} (hm : Preserves Le m)
    (hK : ∀ a, Preserves Le (K a)) {s s' : St} {b : β} (h : (m >>= K) s = .ok b s')
    (hn : s'.nerrs = s.nerrs) :
    ∃ a s1, m s = .ok a s1 ∧ K a s1 = .ok b s' ∧ s1.nerrs = s.nerrs ∧ s'.nerrs = s1.nerrs := by
  obtain ⟨a, s1, h1, h2⟩ := bind_ok h
  have l1 := (hm.out _ _ _ h1).2
  have l2 := ((hK a).out _ _ _ h2).2
  exact ⟨a, s1, h1, h2, by omega, by omega⟩

/-- a check (`if !(← m) then reportError`) inside a run that reports no error: it succeeded -/
theorem check_inv {β} {m : M Bool} {K : M β} (hm : Preserves Le m) (hK : Preserves Le K)
    {s s' : St} {b : β}
    (h : (m >>= fun r => if (!r) = true then (do reportError; K) else K) s = .ok b s')
    (hn : s'.nerrs = s.nerrs) :
    ∃ s1, m s = .ok true s1 ∧ K s1 = .ok b s' ∧ s1.nerrs = s.nerrs ∧ s'.nerrs = s1.nerrs := by
  obtain ⟨r, s1, h1, h2⟩ := bind_ok h
  have l1 := (hm.out _ _ _ h1).2
  cases r
  · simp only [Bool.not_false, if_true] at h2
    obtain ⟨u, s2, h3, h4⟩ := bind_ok h2
    cases h3
    have l2 := (hK.out _ _ _ h4).2
    simp only at l2
    omega
  · simp only [Bool.not_true, Bool.false_eq_true, if_false] at h2
    have l2 := (hK.out _ _ _ h2).2
    exact ⟨s1, h1, h2, by omega, by omega⟩

theorem pushDefsS_state : ∀ (ds : Defs) (k : Nat) (s : St) (u : Unit) (s1 : St),
    pushDefsS ds k s = .ok u s1 →
    s1 = { s with tctx := pushedT ds k s.tctx, dctx := pushedD ds k s.dctx }
  | .nil, k, s, u, s1, h => by
      unfold pushDefsS at h
      obtain ⟨_, rfl⟩ := pure_ok h
      rfl
  | .cons x ann d r, k, s, u, s1, h => by
      unfold pushDefsS at h
      obtain ⟨u1, s2, h1, h2⟩ := bind_ok h
      cases h1
      have := pushDefsS_state r (k - 1) _ u s1 h2
      rw [this]
      rfl

theorem pushGroupX_go_eq : ∀ (ds : Defs) (k : Nat) (Γ : TCtxX) (Δ : DCtxX),
    pushGroupX.go ds k (Γ, Δ) = (pushedT ds k Γ, pushedD ds k Δ)
  | .nil, k, Γ, Δ => rfl
  | .cons x a d r, k, Γ, Δ => by
      simp only [pushGroupX.go, pushedT, pushedD]
      exact pushGroupX_go_eq r (k - 1) _ _

theorem pushGroupX_eq (ds : Defs) (Γ : TCtxX) (Δ : DCtxX) :
    pushGroupX ds 0 (Γ, Δ) = (pushedT ds ds.len Γ, pushedD ds ds.len Δ) := by
  unfold pushGroupX
  exact pushGroupX_go_eq ds ds.len Γ Δ

theorem cellVal_of_le {σ σ' : List (Option Tm)} {i : Nat} {A : Tm} (h : StoreLe σ σ')
    (hc : cellVal σ i = some A) : cellVal σ' i = some A := by
  unfold cellVal at hc ⊢
  have : σ[i]? = some (some A) := by
    cases e : σ[i]? with
    | none => rw [e] at hc; cases hc
    | some c => rw [e] at hc; dsimp only at hc; rw [hc]
  rw [h.2 i A this]

theorem cellVal_fresh1 (σ : List (Option Tm)) : cellVal ((σ ++ [none]) ++ [none]) σ.length = none := by
  unfold cellVal
  simp

theorem cellVal_fresh2 (σ : List (Option Tm)) :
    cellVal ((σ ++ [none]) ++ [none]) (σ ++ [none]).length = none := by
  unfold cellVal
  simp

theorem cellVal_set_set_1 (σ : List (Option Tm)) (i j : Nat) (A B : Tm) (hi : i < σ.length)
    (hij : j ≠ i) : cellVal ((σ.set i (some A)).set j (some B)) i = some A := by
  rw [cellVal_set_ne B (fun e => hij e.symm)]
  rw [cellVal_set A hi]
  simp

theorem cellVal_set_set_2 (σ : List (Option Tm)) (i j : Nat) (A B : Tm) (hj : j < σ.length) :
    cellVal ((σ.set i (some A)).set j (some B)) j = some B := by
  rw [cellVal_set B (by simpa using hj)]
  simp

/-! ## the main induction -/

section Main
variable {J : TCtxX → DCtxX → Tm → Tm → Prop}

/-- what the induction proves about a run of `inferS` / `inferDefsS` that reports no error -/
def InferOK (J : TCtxX → DCtxX → Tm → Tm → Prop) (f : Nat) : Prop :=
  ∀ (t : Tm) (s : St) (e ty : Tm) (s' : St), t.holeFree = true → THF s.tctx → DHF s.dctx →
    inferS f t s = .ok (e, ty) s' → s'.nerrs = s.nerrs →
    ty.holeFree = true ∧ J s.tctx s.dctx t ty
def InferDefsOK (J : TCtxX → DCtxX → Tm → Tm → Prop) (f : Nat) : Prop :=
  ∀ (ds : Defs) (s : St) (l : List Tm) (s' : St), ds.holeFree = true → THF s.tctx → DHF s.dctx →
    inferDefsS f ds s = .ok l s' → s'.nerrs = s.nerrs → DefsJ J s.tctx s.dctx ds

set_option hygiene false in
local macro "le_setup" : tactic => `(tactic|
  (have hin := StoreMono.inferS_le f
   have hid := (StoreMono.inferS_le_aux f).2
   have hun := StoreMono.unifyS_le f
   have hus := fun c a t => (StoreMono.ushiftS_pres f c a t).le
   have hop := fun t i u s => (StoreMono.openS_pres f t i u s).le
   have hlt := fun ds k i acc => (StoreMono.letTypeS_pres f ds k i acc).le
   have hfr := StoreMono.cellFresh_le
   have hpc := StoreMono.pushCtx_le
   have hpo := StoreMono.popCtx_le
   have hre := StoreMono.reportError_le
   have hpd := StoreMono.pushDefsS_le
   have hpn := StoreMono.popN_le))

theorem ctx_of_infer {f : Nat} {t : Tm} {s s' : St} {p : Tm × Tm} (h : inferS f t s = .ok p s') :
    s'.tctx = s.tctx ∧ s'.dctx = s.dctx := CtxH.restores (fun T D => inferS_ctx f t T D) h
theorem ctx_of_unify {f : Nat} {a b : Tm} {s s' : St} {r : Bool} (h : unifyS f a b s = .ok r s') :
    s'.tctx = s.tctx ∧ s'.dctx = s.dctx := CtxH.restores (fun T D => unifyS_ctx f a b T D) h

/-- a check of a hole-free type against a hole-free type inside an error-free run -/
theorem check_hf {β} {f : Nat} {a b : Tm} {K : M β} (hK : Preserves Le K) {s s' : St} {x : β}
    (ha : a.holeFree = true) (hb : b.holeFree = true) (hD : DHF s.dctx)
    (h : (unifyS f a b >>= fun r => if (!r) = true then (do reportError; K) else K) s = .ok x s')
    (hn : s'.nerrs = s.nerrs) :
    Conv s.dctx a b ∧ K s = .ok x s' := by
  obtain ⟨s1, h1, h2, _, _⟩ := check_inv (StoreMono.unifyS_le f a b) hK h hn
  obtain ⟨rfl, hc⟩ := unifyS_ok_conv ha hb hD h1
  exact ⟨hc rfl, h2⟩

/-- a sub-call of `inferS` inside an error-free run -/
theorem infer_inv {f : Nat} (ih1 : InferOK J f) {β} {t : Tm} {K : Tm × Tm → M β}
    (hK : ∀ p, Preserves Le (K p)) {s s' : St} {x : β} (ht : t.holeFree = true) (hΓ : THF s.tctx)
    (hD : DHF s.dctx) (h : (inferS f t >>= K) s = .ok x s') (hn : s'.nerrs = s.nerrs) :
    ∃ ty s1, inferS f t s = .ok (t, ty) s1 ∧ K (t, ty) s1 = .ok x s' ∧ s1.tctx = s.tctx ∧
      s1.dctx = s.dctx ∧ s'.nerrs = s1.nerrs ∧ StoreLe s.store s1.store ∧ ty.holeFree = true ∧
      J s.tctx s.dctx t ty := by
  obtain ⟨⟨t', ty⟩, s1, h1, h2, n1, n2⟩ := bind_inv_n (StoreMono.inferS_le f t) hK h hn
  obtain ⟨hty, j⟩ := ih1 _ _ _ _ _ ht hΓ hD h1 n1
  have et : t' = t := inferS_elab_id h1
  subst et
  obtain ⟨c1, c2⟩ := ctx_of_infer h1
  exact ⟨ty, s1, h1, h2, c1, c2, n2, ((StoreMono.inferS_le f t').out _ _ _ h1).1, hty, j⟩


theorem infer_app (RJ : Rules J) (f : Nat) (ih1 : InferOK J f) (g a : Tm) (s : St) (e ty : Tm)
    (s' : St) (ht : (Tm.app g a).holeFree = true) (hΓ : THF s.tctx) (hD : DHF s.dctx)
    (h : inferS (f+1) (.app g a) s = .ok (e, ty) s') (hn : s'.nerrs = s.nerrs) :
    ty.holeFree = true ∧ J s.tctx s.dctx (.app g a) ty := by
  le_setup
  simp only [Tm.holeFree, Bool.and_eq_true] at ht
  unfold inferS at h
  dsimp only at h
  obtain ⟨gty, s1, _, h2, c1, c2, n1, _, hgty, jg⟩ := infer_inv ih1 (by pres) ht.1 hΓ hD h hn
  dsimp only at h2
  have hΓ1 : THF s1.tctx := by rw [c1]; exact hΓ
  have hD1 : DHF s1.dctx := by rw [c2]; exact hD
  obtain ⟨i, s2, hi, h3⟩ := bind_ok h2
  cases hi
  obtain ⟨j, s3, hj, h4⟩ := bind_ok h3
  cases hj
  obtain ⟨s4, hu, h5, _, n4⟩ := check_inv (hun _ _) (by pres) h4 n1
  obtain ⟨y, A, B, es4, hA, hB, cg⟩ := unify_pi_fresh
    (s := { s1 with store := (s1.store ++ [none]) ++ [none] }) (i := s1.store.length)
    (j := (s1.store ++ [none]).length) (cellVal_fresh1 _) (cellVal_fresh2 _)
    (show (s1.store ++ [none]).length ≠ s1.store.length by simp) hgty hD1 hu
  have t4 : s4.tctx = s1.tctx := by rw [es4]
  have d4 : s4.dctx = s1.dctx := by rw [es4]
  have ci4 : cellVal s4.store s1.store.length = some A := by
    rw [es4]
    exact cellVal_set_set_1 _ _ _ A B
      (show s1.store.length < ((s1.store ++ [none]) ++ [none]).length by simp)
      (show (s1.store ++ [none]).length ≠ s1.store.length by simp)
  have cj4 : cellVal s4.store (s1.store ++ [none]).length = some B := by
    rw [es4]
    exact cellVal_set_set_2 _ _ _ A B
      (show (s1.store ++ [none]).length < ((s1.store ++ [none]) ++ [none]).length by simp)
  clear es4
  have hΓ4 : THF s4.tctx := by rw [t4]; exact hΓ1
  have hD4 : DHF s4.dctx := by rw [d4]; exact hD1
  obtain ⟨aty, s5, _, h6, c5, c6, n5, le5, haty, ja⟩ := infer_inv ih1 (by pres) ht.2 hΓ4 hD4 h5 n4
  dsimp only at h6
  obtain ⟨s6, hu2, h7, _, _⟩ := check_inv (hun _ _) (by pres) h6 n5
  have hci := cellVal_of_le le5 ci4
  have hcj := cellVal_of_le le5 cj4
  have hD5 : DHF s5.dctx := by rw [c6]; exact hD4
  obtain ⟨rfl, cA⟩ := unify_solved hci hA haty hD5 hu2
  obtain ⟨tyv, s7, h8, h9⟩ := bind_ok h7
  obtain ⟨rfl, rfl⟩ := openS_solved hcj hB ht.2 h8
  obtain ⟨e', _⟩ := pure_ok h9
  cases e'
  refine ⟨openT_holeFree _ _ _ _ hB ht.2, ?_⟩
  have cA' := cA rfl
  rw [c6, d4] at cA'
  have cg' : Conv s.dctx gty (.pi y false A B) := by rw [← c2]; exact cg
  have cA'' : Conv s.dctx A aty := by rw [← c2]; exact cA'
  have ja' : J s.tctx s.dctx a aty := by rw [← c1, ← c2, ← t4, ← d4]; exact ja
  exact RJ.app _ _ y false g a A B (RJ.conv _ _ _ _ _ jg cg') (RJ.conv _ _ _ _ _ ja' (.symm cA''))


theorem infer_letg (RJ : Rules J) (f : Nat) (ih1 : InferOK J f) (ih2 : InferDefsOK J f) (ds : Defs)
    (body : Tm) (s : St) (e ty : Tm) (s' : St) (ht : (Tm.letg ds body).holeFree = true)
    (hΓ : THF s.tctx) (hD : DHF s.dctx) (h : inferS (f+1) (.letg ds body) s = .ok (e, ty) s')
    (hn : s'.nerrs = s.nerrs) : ty.holeFree = true ∧ J s.tctx s.dctx (.letg ds body) ty := by
  le_setup
  simp only [Tm.holeFree, Bool.and_eq_true] at ht
  unfold inferS at h
  dsimp only at h
  obtain ⟨u, s1, h1, h2, n1, n2⟩ := bind_inv_n (hpd _ _) (by pres) h hn
  have es1 := pushDefsS_state _ _ _ _ _ h1
  have t1 : s1.tctx = (pushGroupX ds 0 (s.tctx, s.dctx)).1 := by rw [es1, pushGroupX_eq]
  have d1 : s1.dctx = (pushGroupX ds 0 (s.tctx, s.dctx)).2 := by rw [es1, pushGroupX_eq]
  clear es1
  obtain ⟨hΓ', hD'⟩ := pushGroupX_HF ds 0 s.tctx s.dctx ht.1 hΓ hD
  have hΓ1 : THF s1.tctx := by rw [t1]; exact hΓ'
  have hD1 : DHF s1.dctx := by rw [d1]; exact hD'
  obtain ⟨ds', s2, h3, h4, n3, n4⟩ := bind_inv_n (hid _) (by pres) h2 n2
  have jds := ih2 _ _ _ _ ht.1 hΓ1 hD1 h3 n3
  rw [inferDefsS_elab_id h3] at h4
  obtain ⟨t2, d2⟩ := CtxH.restores (fun T D => inferDefsS_ctx f ds T D) h3
  have hΓ2 : THF s2.tctx := by rw [t2]; exact hΓ1
  have hD2 : DHF s2.dctx := by rw [d2]; exact hD1
  obtain ⟨bty, s3, _, h5, t3, d3, n5, _, hbty, jb⟩ := infer_inv ih1 (by pres) ht.2 hΓ2 hD2 h4 n4
  dsimp only at h5
  have h6 := (letTypeS_P f ds ht.1 ds.len 0 bty hbty).bind_inv h5
  obtain ⟨u2, s4, h7, h8⟩ := bind_ok h6
  obtain ⟨e', _⟩ := pure_ok h8
  cases e'
  refine ⟨letTypeX_holeFree ds ht.1 _ _ _ hbty, ?_⟩
  rw [t2, d2, t1, d1] at jb
  rw [t1, d1] at jds
  exact RJ.letU _ _ ds body bty ht.1 ht.2 hbty jds jb

theorem inferDefs_step (RJ : Rules J) (f : Nat) (ih1 : InferOK J f) (ih2 : InferDefsOK J f) :
    InferDefsOK J (f+1) := by
  intro ds s l s' hds hΓ hD h hn
  le_setup
  cases ds with
  | nil => trivial
  | cons x ann d r =>
    simp only [Defs.holeFree, Bool.and_eq_true] at hds
    unfold inferDefsS at h
    dsimp only at h
    obtain ⟨annTy, s1, _, h2, c1, c2, n1, _, hannTy, jann⟩ :=
      infer_inv ih1 (by pres) hds.1.1 hΓ hD h hn
    dsimp only at h2
    have hΓ1 : THF s1.tctx := by rw [c1]; exact hΓ
    have hD1 : DHF s1.dctx := by rw [c2]; exact hD
    obtain ⟨cann, h3⟩ := check_hf (by pres) hannTy rfl hD1 h2 n1
    obtain ⟨dty, s2, _, h4, c3, c4, n2, _, hdty, jd⟩ := infer_inv ih1 (by pres) hds.1.2 hΓ1 hD1 h3 n1
    dsimp only at h4
    have hΓ2 : THF s2.tctx := by rw [c3]; exact hΓ1
    have hD2 : DHF s2.dctx := by rw [c4]; exact hD1
    obtain ⟨cd, h5⟩ := check_hf (by pres) hdty hds.1.1 hD2 h4 n2
    obtain ⟨rest, s3, h6, h7, n3, n4⟩ := bind_inv_n (hid _) (by pres) h5 n2
    have jr := ih2 _ _ _ _ hds.2 hΓ2 hD2 h6 n3
    rw [c2] at cann
    rw [c4, c2] at cd
    rw [c1, c2] at jd
    rw [c3, c4, c1, c2] at jr
    exact ⟨RJ.conv _ _ _ _ _ jann cann, RJ.conv _ _ _ _ _ jd cd, jr⟩


theorem infer_step (RJ : Rules J) (f : Nat) (ih1 : InferOK J f) (ih2 : InferDefsOK J f) :
    InferOK J (f+1) := by
  intro t s e ty s' ht hΓ hD h hn
  le_setup
  cases t
  case hole => cases ht
  case type => unfold inferS at h; obtain ⟨e, _⟩ := pure_ok h; cases e; exact ⟨rfl, RJ.type _ _⟩
  case int => unfold inferS at h; obtain ⟨e, _⟩ := pure_ok h; cases e; exact ⟨rfl, RJ.int _ _⟩
  case bool => unfold inferS at h; obtain ⟨e, _⟩ := pure_ok h; cases e; exact ⟨rfl, RJ.bool _ _⟩
  case tt => unfold inferS at h; obtain ⟨e, _⟩ := pure_ok h; cases e; exact ⟨rfl, RJ.tt _ _⟩
  case ff => unfold inferS at h; obtain ⟨e, _⟩ := pure_ok h; cases e; exact ⟨rfl, RJ.ff _ _⟩
  case lit n => unfold inferS at h; obtain ⟨e, _⟩ := pure_ok h; cases e; exact ⟨rfl, RJ.lit _ _ n⟩
  case var x i =>
    unfold inferS at h
    dsimp only at h
    obtain ⟨st, s1, h1, h2⟩ := bind_ok h
    cases h1
    rcases heq : s.tctx[i]? with _ | ⟨ty0, off⟩ <;> rw [heq] at h2 <;> dsimp only at h2
    · cases h2
    · split at h2
      · cases h2
      · next hlt =>
        have hty0 : ty0.holeFree = true := hΓ _ (List.mem_of_getElem? heq)
        have h2 := (ushiftS_P f 0 (i + 1 - off) ty0 hty0).bind_inv h2
        obtain ⟨e, _⟩ := pure_ok h2
        cases e
        exact ⟨by rw [ushift_holeFree]; exact hty0, RJ.var _ _ x i ty0 off heq (by omega)⟩
  case lam x im d b =>
    simp only [Tm.holeFree, Bool.and_eq_true] at ht
    unfold inferS at h
    dsimp only at h
    obtain ⟨⟨d', dty⟩, s1, h1, h2, n1, n2⟩ := bind_inv_n (hin _) (by pres) h hn
    obtain ⟨hdty, jd⟩ := ih1 _ _ _ _ _ ht.1 hΓ hD h1 n1
    have ed : d' = d := inferS_elab_id h1
    obtain ⟨c1, c2⟩ := ctx_of_infer h1
    dsimp only at h2
    subst ed
    obtain ⟨cd, h3⟩ := check_hf (by pres) hdty rfl (by rw [c2]; exact hD) h2 n2
    obtain ⟨u, s2, h4, h5⟩ := bind_ok h3
    cases h4
    obtain ⟨⟨b', cod⟩, s3, h6, h7, n3, n4⟩ := bind_inv_n (hin _) (by pres) h5
      (by show s'.nerrs = s1.nerrs; omega)
    have := ih1 _ { s1 with tctx := (d', 0) :: s1.tctx, dctx := none :: s1.dctx } _ _ _ ht.2
      (THF_cons ht.1 (by rw [c1]; exact hΓ)) (DHF_none (by rw [c2]; exact hD)) h6 n3
    obtain ⟨hcod, jb⟩ := this
    obtain ⟨u2, s4, h8, h9⟩ := bind_ok h7
    obtain ⟨e, _⟩ := pure_ok h9
    cases e
    refine ⟨by simp [Tm.holeFree, ht.1, hcod], ?_⟩
    rw [c2] at cd
    simp only [c1, c2] at jb
    exact RJ.lam _ _ x im d' b cod (RJ.conv _ _ _ _ _ jd cd) jb
  case pi x im d c =>
    simp only [Tm.holeFree, Bool.and_eq_true] at ht
    unfold inferS at h
    dsimp only at h
    obtain ⟨dty, s1, _, h2, c1, c2, n1, _, hdty, jd⟩ := infer_inv ih1 (by pres) ht.1 hΓ hD h hn
    dsimp only at h2
    obtain ⟨cd, h3⟩ := check_hf (by pres) hdty rfl (by rw [c2]; exact hD) h2 n1
    obtain ⟨u, s2, h4, h5⟩ := bind_ok h3
    cases h4
    obtain ⟨cty, s3, _, h6, c3, c4, n2, _, hcty, jc⟩ := infer_inv ih1 (by pres) ht.2
      (s := { s1 with tctx := (d, 0) :: s1.tctx, dctx := none :: s1.dctx })
      (THF_cons ht.1 (by rw [c1]; exact hΓ)) (DHF_none (by rw [c2]; exact hD)) h5 n1
    dsimp only at h6
    obtain ⟨cc, h7⟩ := check_hf (by pres) hcty rfl (by rw [c4]; exact DHF_none (by rw [c2]; exact hD))
      h6 n2
    obtain ⟨u2, s4, h8, h9⟩ := bind_ok h7
    obtain ⟨e, _⟩ := pure_ok h9
    cases e
    refine ⟨rfl, ?_⟩
    rw [c2] at cd
    rw [c4] at cc
    simp only [c1, c2] at jc cc
    exact RJ.pi _ _ x im d c (RJ.conv _ _ _ _ _ jd cd) (RJ.conv _ _ _ _ _ jc cc)
  case neg a =>
    simp only [Tm.holeFree] at ht
    unfold inferS at h
    dsimp only at h
    obtain ⟨aty, s1, _, h2, c1, c2, n1, _, haty, ja⟩ := infer_inv ih1 (by pres) ht hΓ hD h hn
    dsimp only at h2
    obtain ⟨ca, h3⟩ := check_hf (by pres) haty rfl (by rw [c2]; exact hD) h2 n1
    obtain ⟨e, _⟩ := pure_ok h3
    cases e
    rw [c2] at ca
    exact ⟨rfl, RJ.neg _ _ _ (RJ.conv _ _ _ _ _ ja ca)⟩
  case bin op a b =>
    simp only [Tm.holeFree, Bool.and_eq_true] at ht
    unfold inferS at h
    dsimp only at h
    obtain ⟨aty, s1, _, h2, c1, c2, n1, _, haty, ja⟩ := infer_inv ih1 (by pres) ht.1 hΓ hD h hn
    dsimp only at h2
    have hΓ1 : THF s1.tctx := by rw [c1]; exact hΓ
    have hD1 : DHF s1.dctx := by rw [c2]; exact hD
    obtain ⟨ca, h3⟩ := check_hf (by pres) haty rfl hD1 h2 n1
    obtain ⟨bty, s2, _, h4, c3, c4, n2, _, hbty, jb⟩ := infer_inv ih1 (by pres) ht.2 hΓ1 hD1 h3 n1
    dsimp only at h4
    obtain ⟨cb, h5⟩ := check_hf (by pres) hbty rfl (by rw [c4]; exact hD1) h4 n2
    obtain ⟨e, _⟩ := pure_ok h5
    cases e
    rw [c2] at ca
    rw [c4, c2] at cb
    rw [c1, c2] at jb
    have key := RJ.bin _ _ op _ _ (RJ.conv _ _ _ _ _ ja ca) (RJ.conv _ _ _ _ _ jb cb)
    clear h h2 h3 h4 h5
    cases op <;> exact ⟨rfl, key⟩
  case ite c a b =>
    simp only [Tm.holeFree, Bool.and_eq_true] at ht
    unfold inferS at h
    dsimp only at h
    obtain ⟨cty, s1, _, h2, c1, c2, n1, _, hcty, jc⟩ := infer_inv ih1 (by pres) ht.1.1 hΓ hD h hn
    dsimp only at h2
    have hΓ1 : THF s1.tctx := by rw [c1]; exact hΓ
    have hD1 : DHF s1.dctx := by rw [c2]; exact hD
    obtain ⟨cc, h3⟩ := check_hf (by pres) hcty rfl hD1 h2 n1
    obtain ⟨aty, s2, _, h4, c3, c4, n2, _, haty, ja⟩ := infer_inv ih1 (by pres) ht.1.2 hΓ1 hD1 h3 n1
    dsimp only at h4
    have hΓ2 : THF s2.tctx := by rw [c3]; exact hΓ1
    have hD2 : DHF s2.dctx := by rw [c4]; exact hD1
    obtain ⟨bty, s3, _, h5, c5, c6, n3, _, hbty, jb⟩ := infer_inv ih1 (by pres) ht.2 hΓ2 hD2 h4 n2
    dsimp only at h5
    obtain ⟨cab, h6⟩ := check_hf (by pres) haty hbty (by rw [c6]; exact hD2) h5 n3
    obtain ⟨e, _⟩ := pure_ok h6
    cases e
    rw [c2] at cc
    rw [c6, c4, c2] at cab
    rw [c1, c2] at ja
    rw [c3, c4, c1, c2] at jb
    exact ⟨haty, RJ.ite _ _ _ _ _ _ (RJ.conv _ _ _ _ _ jc cc) ja (RJ.conv _ _ _ _ _ jb (.symm cab))⟩
  case app g a => exact infer_app RJ f ih1 g a s e ty s' ht hΓ hD h hn
  case letg ds body => exact infer_letg RJ f ih1 ih2 ds body s e ty s' ht hΓ hD h hn

theorem infer_sound (RJ : Rules J) : ∀ f, InferOK J f ∧ InferDefsOK J f := by
  intro f
  induction f with
  | zero =>
    constructor
    · intro t s e ty s' _ _ _ h; rw [inferS] at h; cases h
    · intro ds s l s' _ _ _ h; rw [inferDefsS] at h; cases h
  | succ f ih => exact ⟨infer_step RJ f ih.1 ih.2, inferDefs_step RJ f ih.1 ih.2⟩

/-- **Soundness of the checker model, generic in the judgement.**  If `inferS` accepts a closed
hole-free program without reporting an error, then the program has the reported type (which is
hole-free, so it is its own zonked form) for every judgement closed under `Rules`. -/
theorem checker_sound_generic (RJ : Rules J) {fuel : Nat} {t e ty : Tm} {s : St}
    (ht : t.holeFree = true) (h : inferS fuel t {} = .ok (e, ty) s) (hn : s.nerrs = 0) :
    e = t ∧ ty.holeFree = true ∧ J [] [] t ty := by
  obtain ⟨hty, j⟩ := (infer_sound RJ fuel).1 t {} e ty s ht THF_nil DHF_nil h hn
  exact ⟨inferS_elab_id h, hty, j⟩

end Main

/-! ## instances of the generic theorem -/

mutual
/-- `HasType` (`Typing.lean`) extended by one rule: a group may also be given the *unfolded* type
`groupTypeX ds bty` that gram computes (every group variable `x` of the body's type replaced by the
closed term `ds; x`), instead of `ds; bty`. -/
inductive HasTypeU : TCtxX → DCtxX → Tm → Tm → Prop
  | type (Γ : TCtxX) (Δ : DCtxX) : HasTypeU Γ Δ .type .type
  | int (Γ : TCtxX) (Δ : DCtxX) : HasTypeU Γ Δ .int .type
  | bool (Γ : TCtxX) (Δ : DCtxX) : HasTypeU Γ Δ .bool .type
  | lit (Γ : TCtxX) (Δ : DCtxX) (n : Int) : HasTypeU Γ Δ (.lit n) .int
  | tt (Γ : TCtxX) (Δ : DCtxX) : HasTypeU Γ Δ .tt .bool
  | ff (Γ : TCtxX) (Δ : DCtxX) : HasTypeU Γ Δ .ff .bool
  | var {Γ : TCtxX} (Δ : DCtxX) (x : Name) (i : Nat) (ty : Tm) (off : Nat) :
      Γ[i]? = some (ty, off) → off ≤ i + 1 → HasTypeU Γ Δ (.var x i) (ushift 0 (i + 1 - off) ty)
  | lam {Γ : TCtxX} {Δ : DCtxX} (x : Name) (im : Bool) {d b cod : Tm} :
      HasTypeU Γ Δ d .type → HasTypeU ((d, 0) :: Γ) (none :: Δ) b cod →
      HasTypeU Γ Δ (.lam x im d b) (.pi x im d cod)
  | pi {Γ : TCtxX} {Δ : DCtxX} (x : Name) (im : Bool) {d c : Tm} :
      HasTypeU Γ Δ d .type → HasTypeU ((d, 0) :: Γ) (none :: Δ) c .type →
      HasTypeU Γ Δ (.pi x im d c) .type
  | app {Γ : TCtxX} {Δ : DCtxX} (x : Name) (im : Bool) {g a dom cod : Tm} :
      HasTypeU Γ Δ g (.pi x im dom cod) → HasTypeU Γ Δ a dom →
      HasTypeU Γ Δ (.app g a) (openT cod 0 a 0)
  | letg {Γ : TCtxX} {Δ : DCtxX} {ds : Defs} {body bty : Tm} :
      DefsOKU (pushGroupX ds 0 (Γ, Δ)).1 (pushGroupX ds 0 (Γ, Δ)).2 ds →
      HasTypeU (pushGroupX ds 0 (Γ, Δ)).1 (pushGroupX ds 0 (Γ, Δ)).2 body bty →
      HasTypeU Γ Δ (.letg ds body) (.letg ds bty)
  /-- the unfolding group rule (what gram's `type_check_rec` builds) -/
  | letU {Γ : TCtxX} {Δ : DCtxX} {ds : Defs} {body bty : Tm} :
      DefsOKU (pushGroupX ds 0 (Γ, Δ)).1 (pushGroupX ds 0 (Γ, Δ)).2 ds →
      HasTypeU (pushGroupX ds 0 (Γ, Δ)).1 (pushGroupX ds 0 (Γ, Δ)).2 body bty →
      HasTypeU Γ Δ (.letg ds body) (groupTypeX ds bty)
  | neg {Γ : TCtxX} {Δ : DCtxX} {a : Tm} : HasTypeU Γ Δ a .int → HasTypeU Γ Δ (.neg a) .int
  | bin {Γ : TCtxX} {Δ : DCtxX} (op : BinOp) {a b : Tm} :
      HasTypeU Γ Δ a .int → HasTypeU Γ Δ b .int → HasTypeU Γ Δ (.bin op a b) (binResult op)
  | ite {Γ : TCtxX} {Δ : DCtxX} {c a b T : Tm} :
      HasTypeU Γ Δ c .bool → HasTypeU Γ Δ a T → HasTypeU Γ Δ b T → HasTypeU Γ Δ (.ite c a b) T
  | conv {Γ : TCtxX} {Δ : DCtxX} {t T T' : Tm} : HasTypeU Γ Δ t T → Conv Δ T T' → HasTypeU Γ Δ t T'
inductive DefsOKU : TCtxX → DCtxX → Defs → Prop
  | nil (Γ : TCtxX) (Δ : DCtxX) : DefsOKU Γ Δ .nil
  | cons {Γ : TCtxX} {Δ : DCtxX} (x : Name) {ann d : Tm} {rest : Defs} :
      HasTypeU Γ Δ ann .type → HasTypeU Γ Δ d ann → DefsOKU Γ Δ rest →
      DefsOKU Γ Δ (.cons x ann d rest)
end

theorem DefsOKU_of_DefsJ {Γ : TCtxX} {Δ : DCtxX} : ∀ (ds : Defs), DefsJ HasTypeU Γ Δ ds → DefsOKU Γ Δ ds
  | .nil, _ => .nil _ _
  | .cons x _ _ r, h => .cons x h.1 h.2.1 (DefsOKU_of_DefsJ r h.2.2)

theorem rules_HasTypeU : Rules HasTypeU where
  type := .type
  int := .int
  bool := .bool
  lit := .lit
  tt := .tt
  ff := .ff
  var := fun _ Δ x i ty off h1 h2 => .var Δ x i ty off h1 h2
  lam := fun _ _ x im _ _ _ h1 h2 => .lam x im h1 h2
  pi := fun _ _ x im _ _ h1 h2 => .pi x im h1 h2
  app := fun _ _ x im _ _ _ _ h1 h2 => .app x im h1 h2
  neg := fun _ _ _ h => .neg h
  bin := fun _ _ op _ _ h1 h2 => .bin op h1 h2
  ite := fun _ _ _ _ _ _ h1 h2 h3 => .ite h1 h2 h3
  conv := fun _ _ _ _ _ h c => .conv h c
  letU := fun _ _ ds _ _ _ _ _ hds hb => .letU (DefsOKU_of_DefsJ ds hds) hb

theorem DefsOK_of_DefsJ {Γ : TCtxX} {Δ : DCtxX} : ∀ (ds : Defs), DefsJ HasType Γ Δ ds → DefsOK Γ Δ ds
  | .nil, _ => .nil _ _
  | .cons x _ _ r, h => .cons x h.1 h.2.1 (DefsOK_of_DefsJ r h.2.2)

/-- The unfolding group rule is admissible in `HasType` — the one fact about `Conv` that separates
`HasTypeU` from `HasType`. -/
def GroupRuleAdmissible : Prop :=
  ∀ (Γ : TCtxX) (Δ : DCtxX) (ds : Defs) (body bty : Tm), ds.holeFree = true → body.holeFree = true →
    bty.holeFree = true →
    DefsOK (pushGroupX ds 0 (Γ, Δ)).1 (pushGroupX ds 0 (Γ, Δ)).2 ds →
    HasType (pushGroupX ds 0 (Γ, Δ)).1 (pushGroupX ds 0 (Γ, Δ)).2 body bty →
    HasType Γ Δ (.letg ds body) (groupTypeX ds bty)

/-- a sufficient condition: the declarative group type converts to the unfolded one -/
def GroupTypeConv : Prop :=
  ∀ (Δ : DCtxX) (ds : Defs) (bty : Tm), ds.holeFree = true → bty.holeFree = true →
    Conv Δ (.letg ds bty) (groupTypeX ds bty)

theorem admissible_of_conv (h : GroupTypeConv) : GroupRuleAdmissible :=
  fun _ Δ ds _ bty hds _ hbty hd hb => .conv (.letg hd hb) (h Δ ds bty hds hbty)

theorem rules_HasType (hadm : GroupRuleAdmissible) : Rules HasType where
  type := .type
  int := .int
  bool := .bool
  lit := .lit
  tt := .tt
  ff := .ff
  var := fun _ Δ x i ty off h1 h2 => .var Δ x i ty off h1 h2
  lam := fun _ _ x im _ _ _ h1 h2 => .lam x im h1 h2
  pi := fun _ _ x im _ _ h1 h2 => .pi x im h1 h2
  app := fun _ _ x im _ _ _ _ h1 h2 => .app x im h1 h2
  neg := fun _ _ _ h => .neg h
  bin := fun _ _ op _ _ h1 h2 => .bin op h1 h2
  ite := fun _ _ _ _ _ _ h1 h2 h3 => .ite h1 h2 h3
  conv := fun _ _ _ _ _ h c => .conv h c
  letU := fun Γ Δ ds body bty h1 h2 h3 hds hb => hadm Γ Δ ds body bty h1 h2 h3 (DefsOK_of_DefsJ ds hds) hb

/-- no definition group anywhere in the term -/
def noLet : Tm → Bool
  | .lam _ _ d b => noLet d && noLet b
  | .pi _ _ d b => noLet d && noLet b
  | .app f a => noLet f && noLet a
  | .letg _ _ => false
  | .neg a => noLet a
  | .bin _ a b => noLet a && noLet b
  | .ite c t e => noLet c && noLet t && noLet e
  | _ => true

/-- `HasType` restricted to group-free subjects -/
def HasTypeNL (Γ : TCtxX) (Δ : DCtxX) (t T : Tm) : Prop := noLet t = true → HasType Γ Δ t T

theorem rules_HasTypeNL : Rules HasTypeNL where
  type := fun _ _ _ => .type _ _
  int := fun _ _ _ => .int _ _
  bool := fun _ _ _ => .bool _ _
  lit := fun _ _ n _ => .lit _ _ n
  tt := fun _ _ _ => .tt _ _
  ff := fun _ _ _ => .ff _ _
  var := fun _ Δ x i ty off h1 h2 _ => .var Δ x i ty off h1 h2
  lam := fun _ _ x im _ _ _ h1 h2 hn => by
    simp only [noLet, Bool.and_eq_true] at hn
    exact .lam x im (h1 hn.1) (h2 hn.2)
  pi := fun _ _ x im _ _ h1 h2 hn => by
    simp only [noLet, Bool.and_eq_true] at hn
    exact .pi x im (h1 hn.1) (h2 hn.2)
  app := fun _ _ x im _ _ _ _ h1 h2 hn => by
    simp only [noLet, Bool.and_eq_true] at hn
    exact .app x im (h1 hn.1) (h2 hn.2)
  neg := fun _ _ _ h hn => by
    simp only [noLet] at hn
    exact .neg (h hn)
  bin := fun _ _ op _ _ h1 h2 hn => by
    simp only [noLet, Bool.and_eq_true] at hn
    exact .bin op (h1 hn.1) (h2 hn.2)
  ite := fun _ _ _ _ _ _ h1 h2 h3 hn => by
    simp only [noLet, Bool.and_eq_true] at hn
    exact .ite (h1 hn.1.1) (h2 hn.1.2) (h3 hn.2)
  conv := fun _ _ _ _ _ h c hn => .conv (h hn) c
  letU := fun _ _ _ _ _ _ _ _ _ _ hn => by simp [noLet] at hn

/-! ## `zonk` on hole-free terms -/

theorem zonk_hf : ∀ (n : Nat) (σ : List (Option Tm)),
    (∀ t z, t.holeFree = true → zonk n σ t = some z → z = t) ∧
    (∀ ds z, ds.holeFree = true → zonkDefs n σ ds = some z → z = ds) := by
  intro n σ
  induction n with
  | zero => constructor <;> (intro t z _ h; simp [zonk, zonkDefs] at h)
  | succ n ih =>
    obtain ⟨ih1, ih2⟩ := ih
    constructor
    · intro t z hf h
      cases t <;> simp only [Tm.holeFree, Bool.and_eq_true] at hf <;> unfold zonk at h <;>
        dsimp only at h
      case hole => cases hf
      case lam x im d b =>
        cases hd : zonk n σ d <;> cases hb : zonk n σ b <;> rw [hd, hb] at h <;> cases h
        rw [ih1 _ _ hf.1 hd, ih1 _ _ hf.2 hb]
      case pi x im d b =>
        cases hd : zonk n σ d <;> cases hb : zonk n σ b <;> rw [hd, hb] at h <;> cases h
        rw [ih1 _ _ hf.1 hd, ih1 _ _ hf.2 hb]
      case app g a =>
        cases hd : zonk n σ g <;> cases hb : zonk n σ a <;> rw [hd, hb] at h <;> cases h
        rw [ih1 _ _ hf.1 hd, ih1 _ _ hf.2 hb]
      case letg ds b =>
        cases hd : zonkDefs n σ ds <;> cases hb : zonk n σ b <;> rw [hd, hb] at h <;> cases h
        rw [ih2 _ _ hf.1 hd, ih1 _ _ hf.2 hb]
      case neg a =>
        cases hd : zonk n σ a <;> rw [hd] at h <;> cases h
        rw [ih1 _ _ hf hd]
      case bin op a b =>
        cases hd : zonk n σ a <;> cases hb : zonk n σ b <;> rw [hd, hb] at h <;> cases h
        rw [ih1 _ _ hf.1 hd, ih1 _ _ hf.2 hb]
      case ite c a b =>
        cases hc : zonk n σ c <;> cases hd : zonk n σ a <;> cases hb : zonk n σ b <;>
          rw [hc, hd, hb] at h <;> cases h
        rw [ih1 _ _ hf.1.1 hc, ih1 _ _ hf.1.2 hd, ih1 _ _ hf.2 hb]
      all_goals (cases h; rfl)
    · intro ds z hf h
      cases ds <;> simp only [Defs.holeFree, Bool.and_eq_true] at hf <;> unfold zonkDefs at h <;>
        dsimp only at h
      case nil => cases h; rfl
      case cons x a d r =>
        cases ha : zonk n σ a <;> cases hd : zonk n σ d <;> cases hr : zonkDefs n σ r <;>
          rw [ha, hd, hr] at h <;> cases h
        rw [ih1 _ _ hf.1.1 ha, ih1 _ _ hf.1.2 hd, ih2 _ _ hf.2 hr]

theorem zonk_holeFree {n : Nat} {σ : List (Option Tm)} {t z : Tm} (hf : t.holeFree = true)
    (h : zonk n σ t = some z) : z = t := (zonk_hf n σ).1 t z hf h

/-! ## sequences of `open`s -/

/-- apply the substitutions `ops` (index, term) one after the other, under `k` binders -/
def applyOps (k : Nat) : List (Nat × Tm) → Tm → Tm
  | [], t => t
  | (i, u) :: ops, t => applyOps k ops (openT t (i + k) u k)
def applyOpsDefs (k : Nat) : List (Nat × Tm) → Defs → Defs
  | [], ds => ds
  | (i, u) :: ops, ds => applyOpsDefs k ops (openDefs ds (i + k) u k)

theorem applyOpsDefs_len (k : Nat) : ∀ (ops : List (Nat × Tm)) (ds : Defs),
    (applyOpsDefs k ops ds).len = ds.len
  | [], _ => rfl
  | (i, u) :: ops, ds => by rw [applyOpsDefs, applyOpsDefs_len k ops, openDefs_len]

theorem applyOps_lam (x : Name) (im : Bool) : ∀ (ops : List (Nat × Tm)) (k : Nat) (d b : Tm),
    applyOps k ops (.lam x im d b) = .lam x im (applyOps k ops d) (applyOps (k+1) ops b)
  | [], _, _, _ => rfl
  | (i, u) :: ops, k, d, b => by
      simp only [applyOps, openT]
      rw [applyOps_lam x im ops, Nat.add_assoc]
theorem applyOps_pi (x : Name) (im : Bool) : ∀ (ops : List (Nat × Tm)) (k : Nat) (d b : Tm),
    applyOps k ops (.pi x im d b) = .pi x im (applyOps k ops d) (applyOps (k+1) ops b)
  | [], _, _, _ => rfl
  | (i, u) :: ops, k, d, b => by
      simp only [applyOps, openT]
      rw [applyOps_pi x im ops, Nat.add_assoc]
theorem applyOps_app : ∀ (ops : List (Nat × Tm)) (k : Nat) (f a : Tm),
    applyOps k ops (.app f a) = .app (applyOps k ops f) (applyOps k ops a)
  | [], _, _, _ => rfl
  | (i, u) :: ops, k, f, a => by simp only [applyOps, openT]; rw [applyOps_app ops]
theorem applyOps_neg : ∀ (ops : List (Nat × Tm)) (k : Nat) (a : Tm),
    applyOps k ops (.neg a) = .neg (applyOps k ops a)
  | [], _, _ => rfl
  | (i, u) :: ops, k, a => by simp only [applyOps, openT]; rw [applyOps_neg ops]
theorem applyOps_bin (op : BinOp) : ∀ (ops : List (Nat × Tm)) (k : Nat) (a b : Tm),
    applyOps k ops (.bin op a b) = .bin op (applyOps k ops a) (applyOps k ops b)
  | [], _, _, _ => rfl
  | (i, u) :: ops, k, a, b => by simp only [applyOps, openT]; rw [applyOps_bin op ops]
theorem applyOps_ite : ∀ (ops : List (Nat × Tm)) (k : Nat) (c a b : Tm),
    applyOps k ops (.ite c a b) = .ite (applyOps k ops c) (applyOps k ops a) (applyOps k ops b)
  | [], _, _, _, _ => rfl
  | (i, u) :: ops, k, c, a, b => by simp only [applyOps, openT]; rw [applyOps_ite ops]
theorem applyOps_letg : ∀ (ops : List (Nat × Tm)) (k : Nat) (ds : Defs) (b : Tm),
    applyOps k ops (.letg ds b) =
      .letg (applyOpsDefs (k + ds.len) ops ds) (applyOps (k + ds.len) ops b)
  | [], _, _, _ => rfl
  | (i, u) :: ops, k, ds, b => by
      simp only [applyOps, applyOpsDefs, openT]
      rw [applyOps_letg ops, openDefs_len, Nat.add_assoc]
theorem applyOps_const : ∀ (ops : List (Nat × Tm)) (k : Nat) (t : Tm),
    (t = .type ∨ t = .int ∨ t = .bool ∨ t = .tt ∨ t = .ff ∨ ∃ n, t = .lit n) → applyOps k ops t = t
  | [], _, _, _ => rfl
  | (i, u) :: ops, k, t, h => by
      have e : openT t (i + k) u k = t := by
        rcases h with rfl | rfl | rfl | rfl | rfl | ⟨n, rfl⟩ <;> rfl
      rw [applyOps, e]
      exact applyOps_const ops k t h
theorem applyOpsDefs_nil (k : Nat) : ∀ (ops : List (Nat × Tm)), applyOpsDefs k ops .nil = .nil
  | [] => rfl
  | (i, u) :: ops => by simp only [applyOpsDefs, openDefs]; exact applyOpsDefs_nil k ops
theorem applyOpsDefs_cons (k : Nat) (x : Name) : ∀ (ops : List (Nat × Tm)) (a d : Tm) (r : Defs),
    applyOpsDefs k ops (.cons x a d r) =
      .cons x (applyOps k ops a) (applyOps k ops d) (applyOpsDefs k ops r)
  | [], _, _, _ => rfl
  | (i, u) :: ops, a, d, r => by
      simp only [applyOpsDefs, applyOps, openDefs]
      exact applyOpsDefs_cons k x ops _ _ _

theorem applyOps_var_lt (x : Name) : ∀ (ops : List (Nat × Tm)) (k j : Nat), j < k →
    applyOps k ops (.var x j) = .var x j
  | [], _, _, _ => rfl
  | (i, u) :: ops, k, j, h => by
      have e : openT (.var x j) (i + k) u k = .var x j := by
        simp only [openT]
        rw [if_neg (by omega), if_neg (by omega)]
      rw [applyOps, e]
      exact applyOps_var_lt x ops k j h

theorem applyOps_ushift : ∀ (ops : List (Nat × Tm)) (k : Nat) (t : Tm),
    applyOps k ops (ushift 0 k t) = ushift 0 k (applyOps 0 ops t)
  | [], _, _ => rfl
  | (i, u) :: ops, k, t => by
      simp only [applyOps]
      have := open_ushift_low t u i 0 k 0 (Nat.zero_le _) (Nat.le_refl _)
      rw [Nat.zero_add] at this
      rw [Nat.add_zero, ← this]
      exact applyOps_ushift ops k _

theorem applyOps_var_ge (x : Name) (ops : List (Nat × Tm)) (k j : Nat) (h : k ≤ j) :
    applyOps k ops (.var x j) = ushift 0 k (applyOps 0 ops (.var x (j - k))) := by
  rw [← applyOps_ushift]
  congr 1
  simp only [ushift]
  rw [if_pos (Nat.zero_le _)]
  congr 1
  omega

/-- the two sequences substitute convertible terms for every variable, in every context and under
any number of binders -/
def PW (ops1 ops2 : List (Nat × Tm)) : Prop :=
  ∀ (Δ : DCtxX) (k : Nat) (x : Name) (j : Nat),
    Conv Δ (applyOps k ops1 (.var x j)) (applyOps k ops2 (.var x j))

mutual
theorem applyOps_cong {ops1 ops2 : List (Nat × Tm)} (pw : PW ops1 ops2) :
    ∀ (t : Tm) (Δ : DCtxX) (k : Nat), t.holeFree = true →
      Conv Δ (applyOps k ops1 t) (applyOps k ops2 t)
  | .hole _ _, _, _, h => by cases h
  | .var x j, Δ, k, _ => pw Δ k x j
  | .type, Δ, k, _ => by
      rw [applyOps_const ops1 k _ (Or.inl rfl), applyOps_const ops2 k _ (Or.inl rfl)]; exact .refl _ _
  | .int, Δ, k, _ => by
      rw [applyOps_const ops1 k _ (Or.inr (Or.inl rfl)), applyOps_const ops2 k _ (Or.inr (Or.inl rfl))]
      exact .refl _ _
  | .bool, Δ, k, _ => by
      rw [applyOps_const ops1 k _ (Or.inr (Or.inr (Or.inl rfl))),
        applyOps_const ops2 k _ (Or.inr (Or.inr (Or.inl rfl)))]
      exact .refl _ _
  | .tt, Δ, k, _ => by
      rw [applyOps_const ops1 k _ (Or.inr (Or.inr (Or.inr (Or.inl rfl)))),
        applyOps_const ops2 k _ (Or.inr (Or.inr (Or.inr (Or.inl rfl))))]
      exact .refl _ _
  | .ff, Δ, k, _ => by
      rw [applyOps_const ops1 k _ (Or.inr (Or.inr (Or.inr (Or.inr (Or.inl rfl))))),
        applyOps_const ops2 k _ (Or.inr (Or.inr (Or.inr (Or.inr (Or.inl rfl)))))]
      exact .refl _ _
  | .lit n, Δ, k, _ => by
      rw [applyOps_const ops1 k _ (Or.inr (Or.inr (Or.inr (Or.inr (Or.inr ⟨n, rfl⟩))))),
        applyOps_const ops2 k _ (Or.inr (Or.inr (Or.inr (Or.inr (Or.inr ⟨n, rfl⟩)))))]
      exact .refl _ _
  | .lam x im d b, Δ, k, h => by
      simp only [Tm.holeFree, Bool.and_eq_true] at h
      rw [applyOps_lam, applyOps_lam]
      exact .lam _ _ _ _ _ (applyOps_cong pw b _ (k+1) h.2)
  | .pi x im d b, Δ, k, h => by
      simp only [Tm.holeFree, Bool.and_eq_true] at h
      rw [applyOps_pi, applyOps_pi]
      exact .pi _ _ _ (applyOps_cong pw d Δ k h.1) (applyOps_cong pw b _ (k+1) h.2)
  | .app f a, Δ, k, h => by
      simp only [Tm.holeFree, Bool.and_eq_true] at h
      rw [applyOps_app, applyOps_app]
      exact .app (applyOps_cong pw f Δ k h.1) (applyOps_cong pw a Δ k h.2)
  | .neg a, Δ, k, h => by
      simp only [Tm.holeFree] at h
      rw [applyOps_neg, applyOps_neg]
      exact .neg (applyOps_cong pw a Δ k h)
  | .bin op a b, Δ, k, h => by
      simp only [Tm.holeFree, Bool.and_eq_true] at h
      rw [applyOps_bin, applyOps_bin]
      exact .bin op (applyOps_cong pw a Δ k h.1) (applyOps_cong pw b Δ k h.2)
  | .ite c a b, Δ, k, h => by
      simp only [Tm.holeFree, Bool.and_eq_true] at h
      rw [applyOps_ite, applyOps_ite]
      exact .ite (applyOps_cong pw c Δ k h.1.1) (applyOps_cong pw a Δ k h.1.2)
        (applyOps_cong pw b Δ k h.2)
  | .letg ds b, Δ, k, h => by
      simp only [Tm.holeFree, Bool.and_eq_true] at h
      rw [applyOps_letg, applyOps_letg]
      exact .letg (applyOpsDefs_cong pw ds _ _ h.1) (applyOps_cong pw b _ _ h.2)
theorem applyOpsDefs_cong {ops1 ops2 : List (Nat × Tm)} (pw : PW ops1 ops2) :
    ∀ (ds : Defs) (Δ : DCtxX) (k : Nat), ds.holeFree = true →
      ConvDefs Δ (applyOpsDefs k ops1 ds) (applyOpsDefs k ops2 ds)
  | .nil, Δ, k, _ => by rw [applyOpsDefs_nil, applyOpsDefs_nil]; exact .nil _
  | .cons x a d r, Δ, k, h => by
      simp only [Defs.holeFree, Bool.and_eq_true] at h
      rw [applyOpsDefs_cons, applyOpsDefs_cons]
      exact .cons x x (applyOps_cong pw a Δ k h.1.1) (applyOps_cong pw d Δ k h.1.2)
        (applyOpsDefs_cong pw r Δ k h.2)
end


/-! ## the two sequences of a group -/

/-- the name `letTypeS` gives the variable it substitutes at step `i` -/
def nameAt (ds : Defs) (i : Nat) : Name :=
  match (ds.toList[ds.len - 1 - i]?) with
  | some (x, _, _) => x
  | none => 0

/-- what `letTypeS` substitutes at step `i`: the whole group with body the `i`-th variable -/
def Lterm (ds : Defs) (i : Nat) : Tm :=
  .letg (ushiftDefs ds.len (ds.len - 1 - i) ds) (.var (nameAt ds i) i)

/-- gram's sequence (`letTypeS`): `k` steps from step `i`, always at index 0 -/
def opsL (ds : Defs) : Nat → Nat → List (Nat × Tm)
  | _, 0 => []
  | i, k+1 => (0, Lterm ds i) :: opsL ds (i+1) k

theorem letTypeX_eq (ds : Defs) : ∀ (k i : Nat) (acc : Tm),
    letTypeX ds k i acc = applyOps 0 (opsL ds i k) acc := by
  intro k
  induction k with
  | zero => intro i acc; rfl
  | succ k ih =>
    intro i acc
    unfold letTypeX
    simp only [opsL, applyOps, Nat.add_zero]
    exact ih _ _

/-- the normalizer's sequence (`letStepX` iterated): definition `0` first, at the highest index -/
def opsU : Nat → Defs → List (Nat × Tm)
  | 0, _ => []
  | _+1, .nil => []
  | m+1, .cons x a d r =>
      (r.len, unfoldDef x a d r.len) :: opsU m (openDefs r r.len (unfoldDef x a d r.len) 0)

/-- a group reduces to its body with the normalizer's substitutions applied -/
theorem letg_conv_opsU (Δ : DCtxX) : ∀ (m : Nat) (ds : Defs) (t : Tm), ds.len ≤ m →
    Conv Δ (.letg ds t) (applyOps 0 (opsU m ds) t)
  | 0, .nil, t, _ => .red (.letNil _)
  | 0, .cons .., t, h => by simp at h
  | m+1, .nil, t, _ => .red (.letNil _)
  | m+1, .cons x a d r, t, h => by
      simp only [opsU, applyOps, Nat.add_zero]
      refine .trans (.red (.letStep x a d r t)) ?_
      simp only [letStepX]
      refine letg_conv_opsU Δ m _ _ ?_
      rw [openDefs_len]
      simpa using h

/-! ### variables under gram's sequence -/

theorem Lterm_step (ds : Defs) (e : Nat) (y : Name) (v : Nat) (hv : v < ds.len) (u : Tm) :
    openT (.letg (ushiftDefs ds.len (e+1) ds) (.var y v)) 0 u 0 =
      .letg (ushiftDefs ds.len e ds) (.var y v) := by
  simp only [openT, ushiftDefs_len, Nat.zero_add]
  rw [if_neg (by omega), if_neg (by omega)]
  congr 1
  have : ushiftDefs ds.len (e+1) ds = ushiftDefs ds.len 1 (ushiftDefs ds.len e ds) := by
    rw [ushiftDefs_ushiftDefs, Nat.add_comm]
  rw [this]
  exact openDefs_ushiftDefs_cancel _ _ _ _

theorem opsL_on_Lterm (ds : Defs) (y : Name) (v : Nat) (hv : v < ds.len) : ∀ (k i e : Nat), k ≤ e →
    applyOps 0 (opsL ds i k) (.letg (ushiftDefs ds.len e ds) (.var y v)) =
      .letg (ushiftDefs ds.len (e - k) ds) (.var y v) := by
  intro k
  induction k with
  | zero => intro i e _; rfl
  | succ k ih =>
    intro i e h
    obtain ⟨e', rfl⟩ : ∃ e', e = e' + 1 := ⟨e - 1, by omega⟩
    simp only [opsL, applyOps, Nat.add_zero]
    rw [Lterm_step ds e' y v hv, ih (i+1) e' (by omega)]
    have e1 : e' + 1 - (k + 1) = e' - k := by omega
    rw [e1]

theorem opsL_var_hit (ds : Defs) (x : Name) : ∀ (k i j : Nat), j < k → i + k ≤ ds.len →
    applyOps 0 (opsL ds i k) (.var x j) =
      .letg (ushiftDefs ds.len (ds.len - i - k) ds) (.var (nameAt ds (i + j)) (i + j)) := by
  intro k
  induction k with
  | zero => intro i j h; omega
  | succ k ih =>
    intro i j hj hik
    simp only [opsL, applyOps, Nat.add_zero]
    cases j with
    | zero =>
      simp only [openT, if_true, ushift_zero, Lterm]
      rw [opsL_on_Lterm ds _ i (by omega) k (i+1) _ (by omega)]
      have e1 : ds.len - 1 - i - k = ds.len - i - (k + 1) := by omega
      rw [e1]
      rfl
    | succ j =>
      have e : openT (.var x (j+1)) 0 (Lterm ds i) 0 = .var x j := by
        simp only [openT]
        rw [if_neg (by omega), if_pos (by omega)]
        rfl
      rw [e, ih (i+1) j (by omega) (by omega)]
      have e2 : i + 1 + j = i + (j + 1) := by omega
      have e3 : ds.len - (i + 1) - k = ds.len - i - (k + 1) := by omega
      rw [e2, e3]

theorem opsL_var_miss (ds : Defs) (x : Name) : ∀ (k i j : Nat), k ≤ j →
    applyOps 0 (opsL ds i k) (.var x j) = .var x (j - k) := by
  intro k
  induction k with
  | zero => intro i j _; rfl
  | succ k ih =>
    intro i j h
    simp only [opsL, applyOps, Nat.add_zero]
    have e : openT (.var x j) 0 (Lterm ds i) 0 = .var x (j - 1) := by
      simp only [openT]
      rw [if_neg (by omega), if_pos (by omega)]
    rw [e, ih (i+1) (j-1) (by omega)]
    congr 1
    omega

theorem opsU_var_miss (x : Name) : ∀ (m : Nat) (ds : Defs) (j : Nat), ds.len ≤ m → ds.len ≤ j →
    applyOps 0 (opsU m ds) (.var x j) = .var x (j - ds.len)
  | 0, .nil, j, _, _ => rfl
  | 0, .cons .., j, h, _ => by simp at h
  | m+1, .nil, j, _, _ => rfl
  | m+1, .cons y a d r, j, hm, hj => by
      simp only [Defs.len_cons] at hm hj
      simp only [opsU, applyOps, Nat.add_zero]
      have e : openT (.var x j) r.len (unfoldDef y a d r.len) 0 = .var x (j - 1) := by
        simp only [openT]
        rw [if_neg (by omega), if_pos (by omega)]
      rw [e, opsU_var_miss x m _ (j-1) (by rw [openDefs_len]; omega) (by rw [openDefs_len]; omega)]
      rw [openDefs_len]
      simp only [Defs.len_cons]
      congr 1
      omega


/-! ### the normalizer's sequence commutes with lifting -/

theorem unfoldDef_ushift (x : Name) (a d : Tm) (idx c k : Nat) (ha : a.holeFree = true)
    (hd : d.holeFree = true) (h : idx ≤ c) :
    ushift c k (unfoldDef x a d idx) =
      unfoldDef x (ushift (c+1) k a) (ushift (c+1) k d) idx := by
  have hself : ushift (c+1) k (Tm.var x 0) = Tm.var x 0 := by
    simp only [ushift]; rw [if_neg (by omega)]
  have inner : ∀ (t : Tm), t.holeFree = true →
      ushift (c+1) k (openT (ushift 0 1 t) (idx + 1) (Tm.var x 0) 0) =
        openT (ushift 0 1 (ushift (c+1) k t)) (idx + 1) (Tm.var x 0) 0 := by
    intro t ht
    rw [open_ushift_high _ _ (idx+1) (c+1) k 0 (by rw [ushift_holeFree]; exact ht) (by omega)]
    rw [Nat.sub_zero, hself, ushift_comm t 0 (c+1) 1 k (Nat.zero_le _)]
  unfold unfoldDef
  dsimp only
  rw [open_ushift_high d _ idx c k 0 hd h, Nat.sub_zero]
  congr 1
  simp only [ushift, ushiftDefs, Defs.len_cons, Defs.len_nil, Nat.zero_add]
  rw [inner a ha, inner d hd]
  rw [if_neg (by omega)]

theorem opsU_ushift : ∀ (m : Nat) (ds : Defs) (t : Tm) (c k : Nat), ds.holeFree = true →
    t.holeFree = true → ds.len ≤ m →
    applyOps 0 (opsU m (ushiftDefs (c + ds.len) k ds)) (ushift (c + ds.len) k t) =
      ushift c k (applyOps 0 (opsU m ds) t)
  | 0, .nil, t, c, k, _, _, _ => rfl
  | 0, .cons .., t, c, k, _, _, h => by simp at h
  | m+1, .nil, t, c, k, _, _, _ => rfl
  | m+1, .cons x a d r, t, c, k, hds, ht, hm => by
      simp only [Defs.holeFree, Bool.and_eq_true] at hds
      simp only [Defs.len_cons] at hm
      have hu := unfoldDef_holeFree x a d r.len hds.1.1 hds.1.2
      have e0 : c + (Defs.cons x a d r).len = (c + r.len) + 1 := by simp only [Defs.len_cons]; omega
      rw [e0]
      simp only [ushiftDefs, opsU, applyOps, Nat.add_zero, ushiftDefs_len]
      rw [← unfoldDef_ushift x a d r.len (c + r.len) k hds.1.1 hds.1.2 (by omega)]
      have e1 := open_ushift_high t (unfoldDef x a d r.len) r.len (c + r.len) k 0 ht (by omega)
      rw [Nat.sub_zero] at e1
      have e2 := openDefs_ushiftDefs_high r (unfoldDef x a d r.len) r.len (c + r.len) k 0 hds.2
        (by omega)
      rw [Nat.sub_zero] at e2
      rw [← e1, ← e2]
      have ih := opsU_ushift m (openDefs r r.len (unfoldDef x a d r.len) 0)
        (openT t r.len (unfoldDef x a d r.len) 0) c k (openDefs_holeFree _ _ _ _ hds.2 hu)
        (openT_holeFree _ _ _ _ ht hu) (by rw [openDefs_len]; omega)
      rw [openDefs_len] at ih
      exact ih

/-! ### the two sequences agree up to conversion -/

theorem pw_group (ds : Defs) (hds : ds.holeFree = true) :
    PW (opsL ds 0 ds.len) (opsU ds.len ds) := by
  intro Δ k x j
  by_cases hjk : j < k
  · rw [applyOps_var_lt x _ k j hjk, applyOps_var_lt x _ k j hjk]
    exact .refl _ _
  · rw [applyOps_var_ge x _ k j (by omega), applyOps_var_ge x _ k j (by omega)]
    by_cases hjn : j - k < ds.len
    · rw [opsL_var_hit ds x ds.len 0 (j - k) hjn (by omega)]
      have e0 : ds.len - 0 - ds.len = 0 := by omega
      rw [e0, ushiftDefs_zero, Nat.zero_add]
      have hv : ∀ (y : Name), ushift ds.len k (Tm.var y (j - k)) = Tm.var y (j - k) := by
        intro y; simp only [ushift]; rw [if_neg (by omega)]
      have el : ushift 0 k (Tm.letg ds (.var (nameAt ds (j - k)) (j - k))) =
          .letg (ushiftDefs ds.len k ds) (.var (nameAt ds (j - k)) (j - k)) := by
        simp only [ushift, Nat.zero_add]
        rw [if_neg (by omega)]
      have er' := opsU_ushift ds.len ds (.var x (j - k)) 0 k hds rfl (Nat.le_refl _)
      rw [Nat.zero_add, hv] at er'
      rw [el, ← er']
      refine .trans (.same ?_) (letg_conv_opsU Δ ds.len _ _ (by rw [ushiftDefs_len]; exact Nat.le_refl _))
      simp only [sameX, OracleLemmas.sameDefsX_refl, Bool.true_and, beq_self_eq_true]
    · rw [opsL_var_miss ds x ds.len 0 (j - k) (by omega),
        opsU_var_miss x ds.len ds (j - k) (Nat.le_refl _) (by omega)]
      exact .refl _ _

/-- **The declarative type of a group and the type gram computes for it are convertible.** -/
theorem group_type_conv (Δ : DCtxX) (ds : Defs) (bty : Tm) (hds : ds.holeFree = true)
    (hb : bty.holeFree = true) : Conv Δ (.letg ds bty) (groupTypeX ds bty) := by
  show Conv Δ (.letg ds bty) (letTypeX ds ds.len 0 bty)
  rw [letTypeX_eq]
  exact .trans (letg_conv_opsU Δ ds.len ds bty (Nat.le_refl _))
    (.symm (applyOps_cong (pw_group ds hds) bty Δ 0 hb))

theorem groupTypeConv : GroupTypeConv := fun Δ ds bty hds hb => group_type_conv Δ ds bty hds hb

theorem groupRuleAdmissible : GroupRuleAdmissible := admissible_of_conv groupTypeConv

end CheckSound
