import GramModel.Parser
import GramModel.Lemmas.Names
import GramModel.Lemmas.ParserNoPanicDefs

/-! Name resolution (`PModel.resolve`) "panics" only on a `ParseError` node, and every hole it
creates outside let-annotations has shift 0 (`resolve_clean`). -/

namespace PModel

/-- `m` never panics, and its result satisfies `P` (from any state). -/
def ROk {α : Type} (m : ResolveM α) (P : α → Prop) : Prop :=
  ∀ st, ∃ a st', m st = some (a, st') ∧ P a

theorem ROk.bind {α β : Type} {m : ResolveM α} {f : α → ResolveM β} {P : α → Prop}
    {Q : β → Prop} (h1 : ROk m P) (h2 : ∀ a, P a → ROk (f a) Q) : ROk (m >>= f) Q := by
  intro st
  obtain ⟨a, s1, e1, pa⟩ := h1 st
  obtain ⟨b, s2, e2, qb⟩ := h2 a pa s1
  exact ⟨b, s2, (StateT_bind_some _ _ _ _ _).2 ⟨a, s1, e1, e2⟩, qb⟩

theorem ROk.pure {α : Type} {a : α} {P : α → Prop} (h : P a) : ROk (Pure.pure a : ResolveM α) P := by
  intro st
  exact ⟨a, st, (StateT_pure_some _ _ _ _).2 ⟨rfl, rfl⟩, h⟩

theorem ROk.mono {α : Type} {m : ResolveM α} {P Q : α → Prop} (h : ROk m P)
    (hpq : ∀ a, P a → Q a) : ROk m Q := by
  intro st
  obtain ⟨a, s1, e1, pa⟩ := h st
  exact ⟨a, s1, e1, hpq a pa⟩

/-! ### Totality of the helpers -/

theorem bindName_total (v : SrcVar) (d : Nat) (st : RState) :
    ∃ st', bindName v d st = some ((), st') := by
  unfold bindName
  split
  · exact ⟨_, rfl⟩
  · exact ⟨_, rfl⟩

theorem unbindName_total (x : Name) (st : RState) :
    ∃ st', unbindName x st = some ((), st') := ⟨_, rfl⟩

theorem freshHole_total (r : Option SourceRange) (s : Nat) (st : RState) :
    ∃ st', freshHole r s st = some (.mk r (.hole st.nextHole s), st') := ⟨_, rfl⟩

theorem pushError_total (e : PErr) (st : RState) :
    ∃ st', pushError e st = some ((), st') := ⟨_, rfl⟩

theorem bindName_ok (v : SrcVar) (d : Nat) : ROk (bindName v d) (fun _ => True) := by
  intro st
  obtain ⟨st', h⟩ := bindName_total v d st
  exact ⟨(), st', h, trivial⟩

theorem unbindName_ok (x : Name) : ROk (unbindName x) (fun _ => True) :=
  fun _ => ⟨(), _, rfl, trivial⟩

theorem freshHole_ok (r : Option SourceRange) (s : Nat) :
    ROk (freshHole r s) (fun t => s = 0 → Clean t) := by
  intro st
  refine ⟨_, _, rfl, ?_⟩
  intro h
  simp [Clean, h]

theorem bindDefinitions_ok (depth : Nat) : ∀ (ds : List (SrcVar × OptSrc × Src)) (i : Nat),
    ROk (bindDefinitions depth ds i) (fun _ => True)
  | [], i => by
      simp only [bindDefinitions]; exact ROk.pure trivial
  | (v, _, _) :: rest, i => by
      simp only [bindDefinitions]
      exact (bindName_ok v _).bind (fun _ _ => bindDefinitions_ok depth rest (i + 1))

theorem unbindDefinitions_ok : ∀ (ds : List (SrcVar × OptSrc × Src)),
    ROk (unbindDefinitions ds) (fun _ => True)
  | [] => by
      simp only [unbindDefinitions]; exact ROk.pure trivial
  | (v, _, _) :: rest => by
      simp only [unbindDefinitions]
      split
      · exact (unbindName_ok _).bind (fun _ _ => unbindDefinitions_ok rest)
      · exact unbindDefinitions_ok rest

theorem bindDefinitions_total (depth : Nat) (ds : List (SrcVar × OptSrc × Src)) (i : Nat)
    (st : RState) : ∃ st', bindDefinitions depth ds i st = some ((), st') := by
  obtain ⟨u, st', h, _⟩ := bindDefinitions_ok depth ds i st
  exact ⟨st', h⟩

theorem unbindDefinitions_total (ds : List (SrcVar × OptSrc × Src)) (st : RState) :
    ∃ st', unbindDefinitions ds st = some ((), st') := by
  obtain ⟨u, st', h, _⟩ := unbindDefinitions_ok ds st
  exact ⟨st', h⟩

/-! ### The resolver -/

/-- The postcondition of `resolveAux`. -/
def CleanRes (res : RDefs × RTm) : Prop := CleanDefs res.1 ∧ Clean res.2

theorem cleanRes_nil {t : RTm} (h : Clean t) : CleanRes (.nil, t) := by
  simp [CleanRes, CleanDefs, h]

mutual
theorem resolveAux_rok : ∀ (t : Src) (chain : Option (Nat × Nat)) (depth : Nat), NoPE t →
    ROk (resolveAux t chain depth) CleanRes
  | .mk range g .parseError es, chain, depth, h => by
      simp [NoPE] at h
  | .mk range g .type es, chain, depth, h => by
      unfold resolveAux; exact ROk.pure (cleanRes_nil (by simp [Clean]))
  | .mk range g .int es, chain, depth, h => by
      unfold resolveAux; exact ROk.pure (cleanRes_nil (by simp [Clean]))
  | .mk range g (.lit n) es, chain, depth, h => by
      unfold resolveAux; exact ROk.pure (cleanRes_nil (by simp [Clean]))
  | .mk range g .bool es, chain, depth, h => by
      unfold resolveAux; exact ROk.pure (cleanRes_nil (by simp [Clean]))
  | .mk range g .tt es, chain, depth, h => by
      unfold resolveAux; exact ROk.pure (cleanRes_nil (by simp [Clean]))
  | .mk range g .ff es, chain, depth, h => by
      unfold resolveAux; exact ROk.pure (cleanRes_nil (by simp [Clean]))
  | .mk range g (.var x) es, chain, depth, h => by
      unfold resolveAux
      intro st
      dsimp only
      cases hg : st.ctx.get x with
      | some vd => exact ⟨_, _, rfl, cleanRes_nil (by simp [Clean])⟩
      | none => exact ⟨_, _, rfl, cleanRes_nil (by simp [Clean])⟩
  | .mk range g (.lam x imp dom body) es, chain, depth, h => by
      simp only [NoPE] at h
      unfold resolveAux
      dsimp only
      refine (resolveOpt_rok dom depth h.1).bind ?_
      intro dom' hdom'
      refine (bindName_ok x depth).bind ?_
      intro _ _
      have key : ∀ m : ResolveM RTm, ROk m Clean → ROk (do
          let dom'' ← m
          let __x ← resolveAux body none (depth + 1)
          unbindName x.name
          Pure.pure (RDefs.nil, RTm.mk (some range) (RTmV.lam x.name imp dom'' __x.snd))) CleanRes := by
        intro m hm
        refine hm.bind ?_
        intro dom'' hdom''
        refine (resolveAux_rok body none (depth + 1) h.2).bind ?_
        intro ⟨ds, body'⟩ hb
        refine (unbindName_ok x.name).bind ?_
        intro _ _
        exact ROk.pure (cleanRes_nil (by simp [Clean, hdom'', hb.2]))
      cases dom' with
      | some d => exact key _ (ROk.pure (hdom' d rfl))
      | none => exact key _ ((freshHole_ok none 0).mono (fun a ha => ha rfl))
  | .mk range g (.pi x imp dom cod) es, chain, depth, h => by
      simp only [NoPE] at h
      unfold resolveAux
      dsimp only
      refine (resolveAux_rok dom none depth h.1).bind ?_
      intro ⟨ds1, dom'⟩ h1
      dsimp only
      refine (bindName_ok x depth).bind ?_
      intro _ _
      refine (resolveAux_rok cod none (depth + 1) h.2).bind ?_
      intro ⟨ds2, cod'⟩ h2
      dsimp only
      refine (unbindName_ok x.name).bind ?_
      intro _ _
      exact ROk.pure (cleanRes_nil (by simp [Clean, h1.2, h2.2]))
  | .mk range g (.app f a) es, chain, depth, h => by
      simp only [NoPE] at h
      unfold resolveAux
      dsimp only
      refine (resolveAux_rok f none depth h.1).bind ?_
      intro ⟨ds1, f'⟩ h1
      dsimp only
      refine (resolveAux_rok a none depth h.2).bind ?_
      intro ⟨ds2, a'⟩ h2
      dsimp only
      exact ROk.pure (cleanRes_nil (by simp [Clean, h1.2, h2.2]))
  | .mk range g (.neg a) es, chain, depth, h => by
      simp only [NoPE] at h
      unfold resolveAux
      dsimp only
      refine (resolveAux_rok a none depth h).bind ?_
      intro ⟨ds1, a'⟩ h1
      dsimp only
      exact ROk.pure (cleanRes_nil (by simp [Clean, h1.2]))
  | .mk range g (.bin o a b) es, chain, depth, h => by
      simp only [NoPE] at h
      unfold resolveAux
      dsimp only
      refine (resolveAux_rok a none depth h.1).bind ?_
      intro ⟨ds1, a'⟩ h1
      dsimp only
      refine (resolveAux_rok b none depth h.2).bind ?_
      intro ⟨ds2, b'⟩ h2
      dsimp only
      exact ROk.pure (cleanRes_nil (by simp [Clean, h1.2, h2.2]))
  | .mk range g (.ite c a b) es, chain, depth, h => by
      simp only [NoPE] at h
      unfold resolveAux
      dsimp only
      refine (resolveAux_rok c none depth h.1).bind ?_
      intro ⟨ds0, c'⟩ h0
      dsimp only
      refine (resolveAux_rok a none depth h.2.1).bind ?_
      intro ⟨ds1, a'⟩ h1
      dsimp only
      refine (resolveAux_rok b none depth h.2.2).bind ?_
      intro ⟨ds2, b'⟩ h2
      dsimp only
      exact ROk.pure (cleanRes_nil (by simp [Clean, h0.2, h1.2, h2.2]))
  | .mk range g (.let_ x ann defn body) es, some (n, i), depth, h => by
      simp only [NoPE] at h
      unfold resolveAux
      dsimp only
      refine (resolveAnnotation_rok ann n i depth h.1).bind ?_
      intro ann' _
      refine (resolveAux_rok defn none depth h.2.1).bind ?_
      intro ⟨ds1, defn'⟩ h1
      dsimp only
      refine (resolveAux_rok body (some (n, i + 1)) depth h.2.2).bind ?_
      intro ⟨rest, body'⟩ h2
      dsimp only
      exact ROk.pure (by simp [CleanRes, CleanDefs, h1.2, h2.1, h2.2])
  | .mk range g (.let_ x ann defn body) es, none, depth, h => by
      simp only [NoPE] at h
      unfold resolveAux
      dsimp only
      refine (bindDefinitions_ok _ _ _).bind ?_
      intro _ _
      refine (resolveAnnotation_rok ann _ 0 _ h.1).bind ?_
      intro ann' _
      refine (resolveAux_rok defn none _ h.2.1).bind ?_
      intro ⟨ds1, defn'⟩ h1
      dsimp only
      refine (resolveAux_rok body (some (_, 1)) _ h.2.2).bind ?_
      intro ⟨rest, body'⟩ h2
      dsimp only
      refine (unbindDefinitions_ok _).bind ?_
      intro _ _
      exact ROk.pure (cleanRes_nil (by simp [Clean, CleanDefs, h1.2, h2.1, h2.2]))
theorem resolveOpt_rok : ∀ (o : OptSrc) (depth : Nat), NoPEOpt o →
    ROk (resolveOpt o depth) (fun res => ∀ d, res = some d → Clean d)
  | .none, depth, h => by
      unfold resolveOpt
      exact ROk.pure (by intro d hd; cases hd)
  | .some t, depth, h => by
      simp only [NoPEOpt] at h
      unfold resolveOpt
      dsimp only
      refine (resolveAux_rok t none depth h).bind ?_
      intro ⟨ds, t'⟩ h1
      dsimp only
      exact ROk.pure (by intro d hd; cases hd; exact h1.2)
theorem resolveAnnotation_rok : ∀ (o : OptSrc) (n i newDepth : Nat), NoPEOpt o →
    ROk (resolveAnnotation o n i newDepth) (fun _ => True)
  | .none, n, i, depth, h => by
      unfold resolveAnnotation
      exact (freshHole_ok none (n - i)).mono (fun _ _ => trivial)
  | .some t, n, i, depth, h => by
      simp only [NoPEOpt] at h
      unfold resolveAnnotation
      dsimp only
      refine (resolveAux_rok t none depth h).bind ?_
      intro ⟨ds, t'⟩ h1
      dsimp only
      exact ROk.pure trivial
end

/-! ### The statements in `∃` form -/

theorem resolveAux_ok (t : Src) (chain : Option (Nat × Nat)) (depth : Nat) (st : RState)
    (h : NoPE t) :
    ∃ res st', resolveAux t chain depth st = some (res, st') ∧ CleanDefs res.1 ∧ Clean res.2 :=
  resolveAux_rok t chain depth h st

theorem resolveOpt_ok (o : OptSrc) (depth : Nat) (st : RState) (h : NoPEOpt o) :
    ∃ res st', resolveOpt o depth st = some (res, st') ∧ (∀ d, res = some d → Clean d) :=
  resolveOpt_rok o depth h st

theorem resolveAnnotation_ok (o : OptSrc) (n i newDepth : Nat) (st : RState) (h : NoPEOpt o) :
    ∃ res st', resolveAnnotation o n i newDepth st = some (res, st') := by
  obtain ⟨res, st', e, _⟩ := resolveAnnotation_rok o n i newDepth h st
  exact ⟨res, st', e⟩

/-- Name resolution panics only on a `ParseError` node, and all the holes it creates outside
let-annotations have shift 0. -/
theorem resolve_clean (t : Src) (depth : Nat) (st : RState) (h : NoPE t) :
    ∃ r st', resolve t depth st = some (r, st') ∧ Clean r := by
  have : ROk (resolve t depth) Clean := by
    unfold resolve
    refine (resolveAux_rok t none depth h).bind ?_
    intro ⟨ds, t'⟩ h1
    dsimp only
    exact ROk.pure h1.2
  exact this st

end PModel
