import GramModel.Lemmas.ParsePrinted17

/-! # Stage A complete: the induction with the strengthened result -/

namespace PModel
open RewriteMore PrintDerives

section
variable (I : List Char → Name) (nm : Name → List Char)

theorem atomic_lsrc_notbin {u : Tm} (h : atomic u = true) : isBinV (lsrc I nm u).variant = false := by
  cases u <;> first
    | (simp [atomic, Tm.former, Former.bare] at h; done)
    | (rename_i op _ _; cases op <;> simp [atomic, Tm.former, Former.bare, Former.ofOp] at h; done)
    | (rw [lsrc]; rfl)

theorem res2_grp {u : Tm} (ih : ∀ s, shape s = srcOf I nm u → Res2 s (lsrc I nm u)) {x : Src}
    (h : shape x = grpS I nm u) :
    Res2 x (lsrc I nm u) ∧ Opaque .applications x ∧
      (∀ x1, reassoc .applications none x = some x1 → At23 x1) := by
  have hop := atomish_of_shape h (grpS_atomish I nm u)
  unfold grpS at h
  split at h
  · rename_i hat
    have hr := ih x h
    exact ⟨hr, hop, hr.at23 (Or.inr (atomic_lsrc_notbin I nm hat))⟩
  · have hr := Res2.of_setG ih h
    refine ⟨hr, hop, hr.at23 (Or.inl ?_)⟩
    obtain ⟨r, g, v, es⟩ := x
    generalize srcOf I nm u = e at h
    obtain ⟨re, ge, ve, ese⟩ := e
    simp only [shape, setG, Src.mk.injEq] at h
    exact h.2.1

theorem res2_ann {u : Tm} (ih : ∀ s, shape s = srcOf I nm u → Res2 s (lsrc I nm u)) {x : Src}
    (h : shape x = annS I nm u) : Res2 x (lsrc I nm u) := by
  unfold annS at h
  split at h
  · exact Res2.of_setG ih h
  · exact ih x h

theorem res2_leaf {s : Src} {v : SrcV} (h : shape s = mk0 false v)
    (hv : v = .type ∨ (∃ x, v = .var x) ∨ v = .int ∨ (∃ n, v = .lit n) ∨ v = .bool ∨ v = .tt ∨ v = .ff) :
    Res2 s (mk00 v) := by
  obtain ⟨r, g, v', es⟩ := s
  have hv' : v' = v := by
    simp only [shape, mk0, Src.mk.injEq] at h
    rcases hv with rfl | ⟨x, rfl⟩ | rfl | ⟨n, rfl⟩ | rfl | rfl | rfl <;>
      cases v' <;> simp [shapeV] at h <;> simp [h]
  subst hv'
  have hk := kept_atom .applications r g v' es hv
  have hnb : isBinV v' = false := by
    rcases hv with rfl | ⟨x, rfl⟩ | rfl | ⟨n, rfl⟩ | rfl | rfl | rfl <;> rfl
  refine ⟨_, hk none, ?_, ?_, by simp [Src.variant, mk00, hnb],
    fun hb => by simp [Src.variant, hnb] at hb⟩
  · simp only [reassocTail, strip, mk00]
    rcases hv with rfl | ⟨x, rfl⟩ | rfl | ⟨n, rfl⟩ | rfl | rfl | rfl <;> rfl
  · simp only [reassocTail]
    rw [OK23]
    rcases hv with rfl | ⟨x, rfl⟩ | rfl | ⟨n, rfl⟩ | rfl | rfl | rfl <;> (rw [OK23V]; trivial)

mutual
theorem a2 : ∀ t : Tm,
    (∀ s, shape s = srcOf I nm t → Res2 s (lsrc I nm t)) ∧
    (∀ l : List Src, l.map shape = atomsOf I nm t → AtomsRes2 l (latomsOf I nm t))
  | .hole _ _ => ⟨fun s h => by rw [srcOf] at h; rw [lsrc]; exact res2_leaf h (by simp),
      fun l h => by simp [atomsOf] at h; subst h; simp only [latomsOf]; exact .nil⟩
  | .var _ _ => ⟨fun s h => by rw [srcOf] at h; rw [lsrc]; exact res2_leaf h (by simp),
      fun l h => by simp [atomsOf] at h; subst h; simp only [latomsOf]; exact .nil⟩
  | .type => ⟨fun s h => by rw [srcOf] at h; rw [lsrc]; exact res2_leaf h (by simp),
      fun l h => by simp [atomsOf] at h; subst h; simp only [latomsOf]; exact .nil⟩
  | .int => ⟨fun s h => by rw [srcOf] at h; rw [lsrc]; exact res2_leaf h (by simp),
      fun l h => by simp [atomsOf] at h; subst h; simp only [latomsOf]; exact .nil⟩
  | .bool => ⟨fun s h => by rw [srcOf] at h; rw [lsrc]; exact res2_leaf h (by simp),
      fun l h => by simp [atomsOf] at h; subst h; simp only [latomsOf]; exact .nil⟩
  | .tt => ⟨fun s h => by rw [srcOf] at h; rw [lsrc]; exact res2_leaf h (by simp),
      fun l h => by simp [atomsOf] at h; subst h; simp only [latomsOf]; exact .nil⟩
  | .ff => ⟨fun s h => by rw [srcOf] at h; rw [lsrc]; exact res2_leaf h (by simp),
      fun l h => by simp [atomsOf] at h; subst h; simp only [latomsOf]; exact .nil⟩
  | .lit _ => ⟨fun s h => by rw [srcOf] at h; rw [lsrc]; exact res2_leaf h (by simp),
      fun l h => by simp [atomsOf] at h; subst h; simp only [latomsOf]; exact .nil⟩
  | .lam x imp d b => by
    refine ⟨fun s h => ?_,
      fun l h => by simp [atomsOf] at h; subst h; simp only [latomsOf]; exact .nil⟩
    rw [srcOf_lam] at h
    obtain ⟨r, vr, xd, xb, rfl, hd, hb⟩ := shape_lam_inv h
    obtain ⟨d1, hd1, sd, okd, _⟩ := res2_ann I nm (a2 d).1 hd
    obtain ⟨b1, hb1, sb, okb, _⟩ := (a2 b).1 xb hb
    rw [lsrc]
    refine ⟨.mk r false (.lam ⟨vr, I (nm x)⟩ imp (.some d1) b1) [],
      by rw [reassoc]; simp only [reassocOpt, hd1, hb1]; rfl,
      by simp [strip, stripV, stripO, sd, sb, mk00],
      by rw [OK23, OK23V, OK23O]; exact ⟨okd, okb⟩, rfl, fun hb => by simp [isBinV, Src.variant] at hb⟩
  | .pi x imp d c => by
    refine ⟨fun s h => ?_,
      fun l h => by simp [atomsOf] at h; subst h; simp only [latomsOf]; exact .nil⟩
    cases hf : freeAt c 0 with
    | true =>
      rw [srcOf_pi_dep I nm x imp d c hf] at h
      obtain ⟨r, vr, xd, xc, rfl, hd, hc⟩ := shape_pi_inv h
      obtain ⟨d1, hd1, sd, okd, _⟩ := res2_ann I nm (a2 d).1 hd
      obtain ⟨c1, hc1, sc, okc, _⟩ := (a2 c).1 xc hc
      rw [lsrc]
      simp only [hf, if_true]
      refine ⟨.mk r false (.pi ⟨vr, I (nm x)⟩ imp d1 c1) [],
        by rw [reassoc]; simp only [hd1, hc1]; rfl,
        by simp [strip, stripV, sd, sc, mk00],
        by rw [OK23, OK23V]; exact ⟨okd, okc⟩, rfl, fun hb => by simp [isBinV, Src.variant] at hb⟩
    | false =>
      rw [srcOf_arrow I nm x imp d c hf] at h
      obtain ⟨r, vr, xd, xc, rfl, hd, hc⟩ := shape_pi_inv h
      have hdres : Res2 xd (lsrc I nm d) := by
        unfold headAtoms at hd
        split at hd
        · rename_i hap
          rw [← srcOf_isApp I nm hap] at hd
          exact (a2 d).1 xd hd
        · exact (res2_grp I nm (a2 d).1 (by simpa [nestL] using hd)).1
      obtain ⟨d1, hd1, sd, okd, _⟩ := hdres
      obtain ⟨c1, hc1, sc, okc, _⟩ := (a2 c).1 xc hc
      rw [lsrc]
      simp only [hf, if_false, Bool.false_eq_true]
      refine ⟨.mk r false (.pi ⟨vr, placeholder⟩ false d1 c1) [],
        by rw [reassoc]; simp only [hd1, hc1]; rfl,
        by simp [strip, stripV, sd, sc, mk00],
        by rw [OK23, OK23V]; exact ⟨okd, okc⟩, rfl, fun hb => by simp [isBinV, Src.variant] at hb⟩
  | .app f a => by
    have hatoms : ∀ l : List Src, l.map shape = atomsOf I nm (.app f a) →
        AtomsRes2 l (latomsOf I nm (.app f a)) := by
      intro l h
      rw [atomsOf_app] at h
      rw [latomsOf_app]
      obtain ⟨l1, l2, rfl, h1, h2⟩ := List.map_eq_append_iff.mp h
      obtain ⟨xa, rfl, hxa⟩ : ∃ xa, l2 = [xa] ∧ shape xa = grpS I nm a := by
        cases l2 with
        | nil => simp at h2
        | cons y l2 =>
          cases l2 with
          | nil => simp at h2; exact ⟨y, rfl, h2⟩
          | cons _ _ => simp at h2
      have ha := res2_grp I nm (a2 a).1 hxa
      refine AtomsRes2.append ?_ (.cons ha.2.1 ha.1 .nil)
      unfold headAtoms at h1
      unfold lheads
      split at h1
      · rename_i hap
        simp only [hap, if_true]
        exact (a2 f).2 l1 h1
      · rename_i hap
        simp only [hap]
        obtain ⟨xf, rfl, hxf⟩ : ∃ xf, l1 = [xf] ∧ shape xf = grpS I nm f := by
          cases l1 with
          | nil => simp at h1
          | cons y l1 =>
            cases l1 with
            | nil => simp at h1; exact ⟨y, rfl, h1⟩
            | cons _ _ => simp at h1
        have hf := res2_grp I nm (a2 f).1 hxf
        exact .cons hf.2.1 hf.1 .nil
    refine ⟨fun s h => ?_, hatoms⟩
    rw [srcOf_isApp I nm (t := .app f a) rfl] at h
    have hne : atomsOf I nm (.app f a) ≠ [] := by rw [atomsOf_app]; simp
    obtain ⟨l, hc, hl⟩ := isChain_of_shape _ s hne h
    obtain ⟨l', hops, hl', hok'⟩ := (hatoms l hl).ops
    have hstrip := reassoc_chain hc l' hops none (Or.inl rfl)
    rw [hl'] at hstrip
    obtain ⟨s1, hr, hres⟩ := reassoc_chainS hc l' hops none (Or.inl rfl)
    rw [hr] at hstrip
    simp only [Option.map_some, Option.some.injEq, Option.map_none] at hstrip
    have hok : OK23 s1 := by
      cases l' with
      | nil => exact hres.elim
      | cons x' rest =>
        exact LApp.ok23 hres (hok' x' (by simp)) (fun y hy => hok' y (by simp [hy]))
    -- the input is a chain node: not a binary-operator node
    have hsv : isBinV s.variant = false := by
      have hlen : 2 ≤ l.length := by
        have : l.length = (atomsOf I nm (.app f a)).length := by rw [← hl]; simp
        rw [this, atomsOf_app]
        have : headAtoms I nm f ≠ [] := headAtoms_ne_nil I nm f (ce_srcOfFull I nm f).2.2
        have := List.length_pos_iff.mpr this
        simp; omega
      cases hc with
      | one _ => simp at hlen
      | cons _ _ _ _ _ _ _ => rfl
    refine ⟨s1, hr, by rw [hstrip]; exact chainRes_latoms I nm (.app f a) rfl, hok, ?_,
      fun hb => by rw [hsv] at hb; cases hb⟩
    rw [hsv, lsrc]; rfl
  | .letg ds b => by
    refine ⟨fun s h => ?_,
      fun l h => by simp [atomsOf] at h; subst h; simp only [latomsOf]; exact .nil⟩
    rw [srcOf_letg] at h
    rw [lsrc]
    exact a2defs ds _ _ (a2 b).1 s h
  | .neg a => by
    refine ⟨fun s h => ?_,
      fun l h => by simp [atomsOf] at h; subst h; simp only [latomsOf]; exact .nil⟩
    rw [srcOf_neg] at h
    obtain ⟨r, x, rfl, hx⟩ := shape_neg_inv h
    obtain ⟨x1, hx1, sx, okx, _⟩ := (res2_grp I nm (a2 a).1 hx).1
    rw [lsrc]
    refine ⟨.mk r false (.neg x1) [], by rw [reassoc]; simp only [hx1]; rfl,
      by simp [strip, stripV, sx, mk00], by rw [OK23, OK23V]; exact okx, rfl,
      fun hb => by simp [isBinV, Src.variant] at hb⟩
  | .bin op a b => by
    refine ⟨fun s h => ?_,
      fun l h => by simp [atomsOf] at h; subst h; simp only [latomsOf]; exact .nil⟩
    rw [srcOf_bin] at h
    obtain ⟨r, x, y, rfl, hx, hy⟩ := shape_bin_inv h
    have gx := res2_grp I nm (a2 a).1 hx
    have gy := res2_grp I nm (a2 b).1 hy
    obtain ⟨x1, hx1, sx, okx, _⟩ := gx.1
    obtain ⟨y1, hy1, sy, oky, _⟩ := gy.1
    rw [lsrc]
    refine ⟨.mk r false (.bin op x1 y1) [], by rw [reassoc]; simp [hx1, hy1]; rfl,
      by simp [strip, stripV, sx, sy, mk00],
      by rw [OK23, OK23V]; exact ⟨⟨gx.2.2 x1 hx1, gy.2.2 y1 hy1⟩, okx, oky⟩, rfl, fun _ => rfl⟩
  | .ite c a b => by
    refine ⟨fun s h => ?_,
      fun l h => by simp [atomsOf] at h; subst h; simp only [latomsOf]; exact .nil⟩
    rw [srcOf_ite] at h
    obtain ⟨r, x, y, z, rfl, hx, hy, hz⟩ := shape_ite_inv h
    obtain ⟨x1, hx1, sx, okx, _⟩ := (a2 c).1 x hx
    obtain ⟨y1, hy1, sy, oky, _⟩ := (a2 a).1 y hy
    obtain ⟨z1, hz1, sz, okz, _⟩ := (a2 b).1 z hz
    rw [lsrc]
    refine ⟨.mk r false (.ite x1 y1 z1) [], by rw [reassoc]; simp only [hx1, hy1, hz1]; rfl,
      by simp [strip, stripV, sx, sy, sz, mk00], by rw [OK23, OK23V]; exact ⟨okx, oky, okz⟩, rfl,
      fun hb => by simp [isBinV, Src.variant] at hb⟩
theorem a2defs : ∀ (ds : Defs) (e E : Src), (∀ s, shape s = e → Res2 s E) →
    ∀ s, shape s = srcDefs I nm ds e → Res2 s (lsrcDefs I nm ds E)
  | .nil, e, E, ih, s, h => by
    rw [srcDefs_nil] at h
    rw [lsrcDefs]
    exact ih s h
  | .cons x a d r, e, E, ih, s, h => by
    rw [srcDefs_cons] at h
    obtain ⟨rr, vr, xa, xd, xb, rfl, ha, hd, hb⟩ := shape_let_inv h
    obtain ⟨a1', ha1, sa, oka, _⟩ := (res2_grp I nm (a2 a).1 ha).1
    obtain ⟨d1, hd1, sd, okd, _⟩ := (res2_grp I nm (a2 d).1 hd).1
    obtain ⟨b1, hb1, sb, okb, _⟩ := a2defs r e E ih xb hb
    rw [lsrcDefs]
    refine ⟨.mk rr false (.let_ ⟨vr, I (nm x)⟩ (.some a1') d1 b1) [],
      by rw [reassoc]; simp only [reassocOpt, ha1, hd1, hb1]; rfl,
      by simp [strip, stripV, stripO, sa, sd, sb, mk00],
      by rw [OK23, OK23V, OK23O]; exact ⟨oka, okd, okb⟩, rfl,
      fun hb => by simp [isBinV, Src.variant] at hb⟩
end

end

/-- **Stage A**: on every tree whose shape is the expected tree of the printed `t`, the three
re-association passes succeed and return the tree of `t` itself up to ranges, flags, errors. -/
theorem reassocAll_shape (I : List Char → Name) (nm : Name → List Char) (t : Tm) (s : Src)
    (h : shape s = srcOf I nm t) :
    ∃ s3, reassocAll s = some s3 ∧ strip s3 = lsrc I nm t := by
  obtain ⟨s1, h1, hs1, ok1, _⟩ := (a2 I nm t).1 s h
  obtain ⟨s2, h2, hs2, ok2, _⟩ := pass23 .productsAndQuotients (by decide) s1 ok1
  obtain ⟨s3, h3, hs3, _, _⟩ := pass23 .sumsAndDifferences (by decide) s2 ok2
  refine ⟨s3, ?_, by rw [hs3, hs2, hs1]⟩
  simp [reassocAll, reassociateApplications, reassociateProductsAndQuotients,
    reassociateSumsAndDifferences, h1, h2, h3]

theorem reassocAll_printed (toks : Array PTok) (I : List Char → Name) (nm : Name → List Char)
    (t : Tm) (h1 : noImplicitArrow t = true) (h2 : noNegLit t = true)
    (hk : toks.toList.map (·.kind) = (printKinds nm t).map (kindP I)) :
    ∃ r st s3, runParser toks = some (r, st) ∧ reassocAll r.term = some s3 ∧
      strip s3 = lsrc I nm t := by
  obtain ⟨r, st, hr, _, _, _, hs, _⟩ := parse_printed toks I nm t h1 h2 hk
  obtain ⟨s3, h3, h4⟩ := reassocAll_shape I nm t r.term hs
  exact ⟨r, st, s3, hr, h3, h4⟩

end PModel
