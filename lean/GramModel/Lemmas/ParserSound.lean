import GramModel.Lemmas.ParserGood

/-! Soundness of the packrat functions w.r.t. a *parse-shaped derivation* `Seg` (one constructor
per production shape of `grammar.y`, stated over `NT` / `PKind`, no strings): whenever a parsing
function returns a tree without recorded error, the tokens between its start and its `next` are
derived by its nonterminal.  The translation of `Seg` into `Derives Generated.grammarProductions`
is in `Props/C07.lean`. -/

namespace PModel

/-- The token at position `a` exists and has kind `k`. -/
def KAt (toks : Array PTok) (a : Nat) (k : PKind) : Prop := ∃ h : a < toks.size, toks[a].kind = k

/-- The unit productions `A : B` (the alternatives of the choice functions). -/
def unitProds : List (NT × NT) := [
  (.term, .let_), (.term, .jumboTerm),
  (.atom, .type), (.atom, .variable), (.atom, .integer), (.atom, .integerLiteral),
  (.atom, .boolean), (.atom, .true_), (.atom, .false_), (.atom, .group),
  (.smallTerm, .application), (.smallTerm, .atom),
  (.mediumTerm, .product), (.mediumTerm, .quotient), (.mediumTerm, .smallTerm),
  (.largeTerm, .negation), (.largeTerm, .mediumTerm),
  (.hugeTerm, .sum), (.hugeTerm, .difference), (.hugeTerm, .largeTerm),
  (.giantTerm, .lessThan), (.giantTerm, .lessThanOrEqualTo), (.giantTerm, .equalTo),
  (.giantTerm, .greaterThan), (.giantTerm, .greaterThanOrEqualTo), (.giantTerm, .hugeTerm),
  (.jumboTerm, .lambda), (.jumboTerm, .lambdaImplicit), (.jumboTerm, .annotatedLambda),
  (.jumboTerm, .annotatedLambdaImplicit), (.jumboTerm, .pi), (.jumboTerm, .piImplicit),
  (.jumboTerm, .nonDependentPi), (.jumboTerm, .if_), (.jumboTerm, .giantTerm)]

/-- The keyword productions `A : K`. -/
def leafProds : List (NT × PKind) := [
  (.type, .type_), (.integer, .integer), (.boolean, .boolean), (.true_, .true_), (.false_, .false_)]

/-- The binary operator productions `A : L OP R`. -/
def binProds : List (NT × NT × PKind × NT) := [
  (.sum, .largeTerm, .plus, .hugeTerm), (.difference, .largeTerm, .minus, .hugeTerm),
  (.product, .smallTerm, .asterisk, .largeTerm), (.quotient, .smallTerm, .slash, .largeTerm),
  (.lessThan, .hugeTerm, .lessThan, .hugeTerm),
  (.lessThanOrEqualTo, .hugeTerm, .lessThanOrEqualTo, .hugeTerm),
  (.equalTo, .hugeTerm, .doubleEquals, .hugeTerm),
  (.greaterThan, .hugeTerm, .greaterThan, .hugeTerm),
  (.greaterThanOrEqualTo, .hugeTerm, .greaterThanOrEqualTo, .hugeTerm)]

/-- The binder productions `A : OPEN IDENTIFIER COLON jumbo_term CLOSE ARROW term`. -/
def binderProds : List (NT × PKind × PKind × PKind) := [
  (.annotatedLambda, .leftParen, .rightParen, .thickArrow),
  (.annotatedLambdaImplicit, .leftCurly, .rightCurly, .thickArrow),
  (.pi, .leftParen, .rightParen, .thinArrow),
  (.piImplicit, .leftCurly, .rightCurly, .thinArrow)]

/-- `Seg toks A a b`: the tokens `a … b-1` are derived from the nonterminal `A`, by the productions
of `grammar.y` (in the shape the packrat functions follow). -/
inductive Seg (toks : Array PTok) : NT → Nat → Nat → Prop
  | unit {A B a b} : (A, B) ∈ unitProds → Seg toks B a b → Seg toks A a b
  | leaf {A k a} : (A, k) ∈ leafProds → KAt toks a k → Seg toks A a (a + 1)
  | var {x a} : KAt toks a (.identifier x) → Seg toks .variable a (a + 1)
  | lit {n a} : KAt toks a (.integerLiteral n) → Seg toks .integerLiteral a (a + 1)
  | lambda {x a b} : KAt toks a (.identifier x) → KAt toks (a + 1) .thickArrow →
      Seg toks .term (a + 1 + 1) b → Seg toks .lambda a b
  | lambdaImplicit {x a b} : KAt toks a .leftCurly → KAt toks (a + 1) (.identifier x) →
      KAt toks (a + 1 + 1) .rightCurly → KAt toks (a + 1 + 1 + 1) .thickArrow →
      Seg toks .term (a + 1 + 1 + 1 + 1) b → Seg toks .lambdaImplicit a b
  | binder {A o c ar x a b d} : (A, o, c, ar) ∈ binderProds → KAt toks a o →
      KAt toks (a + 1) (.identifier x) → KAt toks (a + 1 + 1) .colon →
      Seg toks .jumboTerm (a + 1 + 1 + 1) b → KAt toks b c → KAt toks (b + 1) ar →
      Seg toks .term (b + 1 + 1) d → Seg toks A a d
  | nonDependentPi {a b c} : Seg toks .smallTerm a b → KAt toks b .thinArrow →
      Seg toks .term (b + 1) c → Seg toks .nonDependentPi a c
  | application {a b c} : Seg toks .atom a b → Seg toks .smallTerm b c → Seg toks .application a c
  | letPlain {x t a b c} : KAt toks a (.identifier x) → KAt toks (a + 1) .equals →
      Seg toks .term (a + 1 + 1) b → KAt toks b (.terminator t) → Seg toks .term (b + 1) c →
      Seg toks .let_ a c
  | letAnn {x t a b c d} : KAt toks a (.identifier x) → KAt toks (a + 1) .colon →
      Seg toks .smallTerm (a + 1 + 1) b → KAt toks b .equals → Seg toks .term (b + 1) c →
      KAt toks c (.terminator t) → Seg toks .term (c + 1) d → Seg toks .let_ a d
  | negation {a b} : KAt toks a .minus → Seg toks .largeTerm (a + 1) b → Seg toks .negation a b
  | bin {A L op R a b c} : (A, L, op, R) ∈ binProds → Seg toks L a b → KAt toks b op →
      Seg toks R (b + 1) c → Seg toks A a c
  | ite {a b c d} : KAt toks a .if_ → Seg toks .term (a + 1) b → KAt toks b .then_ →
      Seg toks .term (b + 1) c → KAt toks c .else_ → Seg toks .term (c + 1) d → Seg toks .if_ a d
  | group {a b} : KAt toks a .leftParen → Seg toks .term (a + 1) b → KAt toks b .rightParen →
      Seg toks .group a (b + 1)

/-- The invariant of the result of `parse_nt(…, start)`: `Good`, and a result without recorded
error spans a segment derived from `nt`. -/
def Inv (toks : Array PTok) (nt : NT) (start : Nat) (r : PResult) : Prop :=
  Good r ∧ (collectErrors r.term = [] → Seg toks nt start r.next)

/-- Every memoised result satisfies the invariant of its key. -/
def CacheInv (toks : Array PTok) (st : PState) : Prop :=
  ∀ (nt : NT) (s : Nat) (r : PResult), st.cache[(nt.idx, s)]? = some r → Inv toks nt s r

/-- Partial correctness w.r.t. the invariant `CacheInv`. -/
def SPres (toks : Array PTok) {α : Type} (m : ParseM α) (post : α → Prop) : Prop :=
  ∀ st a st', CacheInv toks st → m st = some (a, st') → CacheInv toks st' ∧ post a

section Comb
variable {toks : Array PTok} {α β : Type}

theorem SPres.pure {a : α} {post : α → Prop} (h : post a) :
    SPres toks (Pure.pure a : ParseM α) post := by
  intro st b st' hI e
  have : (Pure.pure a : ParseM α) st = some (a, st) := rfl
  rw [this] at e
  simp only [Option.some.injEq, Prod.mk.injEq] at e
  rw [← e.1, ← e.2]; exact ⟨hI, h⟩

theorem SPres.bind {m : ParseM α} {f : α → ParseM β} {p : α → Prop} {q : β → Prop}
    (hm : SPres toks m p) (hf : ∀ a, p a → SPres toks (f a) q) : SPres toks (m >>= f) q := by
  intro st b st' hI e
  rw [ParseM_bind_eq] at e
  cases h1 : m st with
  | none => simp [h1] at e
  | some p1 =>
    obtain ⟨a, s1⟩ := p1
    simp only [h1] at e
    obtain ⟨hI1, hp⟩ := hm st a s1 hI h1
    exact hf a hp s1 b st' hI1 e

theorem SPres.ite {c : Prop} [Decidable c] {m1 m2 : ParseM α} {p : α → Prop}
    (h1 : c → SPres toks m1 p) (h2 : ¬c → SPres toks m2 p) :
    SPres toks (if c then m1 else m2) p := by
  split
  · exact h1 ‹_›
  · exact h2 ‹_›

theorem SPres.fail {post : α → Prop} : SPres toks (fun _ => none : ParseM α) post := by
  intro st a st' _ e; simp at e

variable {post : PResult → Prop}

theorem SPres.consume0 {next : Nat} {kind : PKind} {k : Nat → ParseM PResult}
    (hfail : post (failAt toks next)) (hk : KAt toks next kind → SPres toks (k (next + 1)) post) :
    SPres toks (consume0 toks next kind k) post := by
  unfold PModel.consume0
  split
  · split
    · exact hk ⟨‹_›, ‹_›⟩
    · exact SPres.pure hfail
  · exact SPres.pure hfail

theorem SPres.consumeIdent {next : Nat} {k : Name → Nat → ParseM PResult}
    (hfail : post (failAt toks next))
    (hk : ∀ x, KAt toks next (.identifier x) → SPres toks (k x (next + 1)) post) :
    SPres toks (consumeIdent toks next k) post := by
  unfold PModel.consumeIdent
  split
  · split
    · exact hk _ ⟨‹_›, ‹_›⟩
    · exact SPres.pure hfail
  · exact SPres.pure hfail

theorem SPres.consumeLiteral {next : Nat} {k : Nat → Nat → ParseM PResult}
    (hfail : post (failAt toks next))
    (hk : ∀ x, KAt toks next (.integerLiteral x) → SPres toks (k x (next + 1)) post) :
    SPres toks (consumeLiteral toks next k) post := by
  unfold PModel.consumeLiteral
  split
  · split
    · exact hk _ ⟨‹_›, ‹_›⟩
    · exact SPres.pure hfail
  · exact SPres.pure hfail

theorem SPres.tryReturn {p k : ParseM PResult} {pp : PResult → Prop} (hp : SPres toks p pp)
    (hpp : ∀ r, pp r → post r) (hk : SPres toks k post) :
    SPres toks (tryReturn p k) post := by
  unfold PModel.tryReturn
  refine SPres.bind hp (fun r hr => ?_)
  exact SPres.ite (fun _ => hk) (fun _ => SPres.pure (hpp r hr))

theorem SPres.tryEval {p : ParseM PResult} {k : Src → Nat → Bool → ParseM PResult}
    {pp : PResult → Prop} (hp : SPres toks p pp)
    (herr : ∀ r, pp r → r.term.isParseError = true → post r)
    (hk : ∀ r, pp r → r.term.isParseError = false → SPres toks (k r.term r.next r.confident) post) :
    SPres toks (tryEval p k) post := by
  unfold PModel.tryEval
  refine SPres.bind hp (fun r hr => ?_)
  cases h : r.term.isParseError
  · simp only [Bool.false_eq_true, if_false]; exact hk r hr h
  · simp only [if_true]; exact SPres.pure (herr r hr h)

theorem SPres.cacheCheck {nt : NT} {start : Nat} {body : ParseM PResult}
    (hb : SPres toks body (Inv toks nt start)) :
    SPres toks (cacheCheck nt start body) (Inv toks nt start) := by
  intro st r st' hI e
  cases hc : st.cache[(nt.idx, start)]? with
  | some r0 =>
    rw [cacheCheck_hit nt start body st r0 hc] at e
    simp only [Option.some.injEq, Prod.mk.injEq] at e
    rw [← e.1, ← e.2]
    exact ⟨hI, hI _ _ _ hc⟩
  | none =>
    rw [cacheCheck_miss nt start body st hc] at e
    cases hb1 : body { st with misses := st.misses.modify nt.idx (· + 1) } with
    | none => simp [hb1] at e
    | some p =>
      obtain ⟨r1, s1⟩ := p
      simp only [hb1, Option.some.injEq, Prod.mk.injEq] at e
      obtain ⟨hI1, hg⟩ := hb { st with misses := st.misses.modify nt.idx (· + 1) } _ _ hI hb1
      rw [← e.1, ← e.2]
      refine ⟨?_, hg⟩
      intro nt' s r' hr'
      simp only [Std.HashMap.getElem?_insert] at hr'
      split at hr'
      · rename_i heq
        simp only [beq_iff_eq, Prod.mk.injEq] at heq
        have := NT.idx_inj heq.1
        subst this
        cases hr'; rw [← heq.2]; exact hg
      · exact hI1 nt' s r' hr'

end Comb

theorem NoPE.not_isParseError {t : Src} (h : NoPE t) : t.isParseError = false := by
  obtain ⟨r, g, v, es⟩ := t
  cases v <;> first | rfl | (unfold NoPE at h; exact h.elim)

theorem Inv.failAt (toks : Array PTok) (nt : NT) (start next : Nat) :
    Inv toks nt start (failAt toks next) :=
  ⟨Good.failAt toks next, fun h => by simp [PModel.failAt, errorTerm, collectErrors] at h⟩

/-- A `ParseError` result propagated unchanged (`try_eval!`) satisfies the invariant of any key. -/
theorem Inv.ofPE {toks : Array PTok} {nt : NT} {start : Nat} {r : PResult} (hg : Good r)
    (he : r.term.isParseError = true) : Inv toks nt start r :=
  ⟨hg, fun h => by have := (hg.2 h).not_isParseError; rw [he] at this; cases this⟩

/-- With error reporting on and no error reported, the expected token is the next one. -/
theorem expectToken_clean (toks : Array PTok) (next : Nat) (target : PKind → Bool) (rep : Bool) :
    rep = true → (expectToken toks next target rep).1 = [] →
      ∃ h : next < toks.size, target toks[next].kind = true ∧
        (expectToken toks next target rep).2.1 = true ∧
        (expectToken toks next target rep).2.2 = next + 1 := by
  intro hr; subst hr
  unfold expectToken
  simp only [if_true]
  intro he
  split at he
  · rename_i hlt
    split at he
    · rename_i ht
      refine ⟨hlt, ht, ?_⟩
      have hn : toks.size - next = (toks.size - next - 1) + 1 := by omega
      rw [hn]
      unfold scanLoop
      simp [hlt, ht]
    · cases he
  · cases he

section Bodies
variable {toks : Array PTok} {rec : NT → Nat → ParseM PResult}
  (hrec : ∀ nt pos, SPres toks (rec nt pos) (Inv toks nt pos))

theorem SPres.parseLeaf {nt : NT} {kind : PKind} {v : SrcV} {start : Nat}
    (hm : (nt, kind) ∈ leafProds)
    (hv : ∀ r, collectErrors (.mk r false v []) = [] ∧ NoPE (.mk r false v [])) :
    SPres toks (parseLeaf toks kind v start) (Inv toks nt start) := by
  unfold PModel.parseLeaf
  refine SPres.consume0 (Inv.failAt _ _ _ _) (fun hk => SPres.pure ⟨?_, fun _ => Seg.leaf hm hk⟩)
  have := hv (tokenRange toks start)
  simp [Good, this]

include hrec

theorem SPres.parseLambda {start : Nat} :
    SPres toks (parseLambda toks rec start) (Inv toks .lambda start) := by
  unfold PModel.parseLambda
  refine SPres.consumeIdent (Inv.failAt _ _ _ _) (fun x hx => ?_)
  refine SPres.consume0 (Inv.failAt _ _ _ _) (fun ha => ?_)
  refine SPres.bind (hrec _ _) ?_
  intro r2 hr2
  obtain ⟨t2, n2, c2⟩ := r2
  obtain ⟨hg2, hs2⟩ := hr2
  refine SPres.pure ⟨?_, ?_⟩
  · good_simp
    exact hg2
  · intro hce
    simp only [collectErrors, collectErrorsOpt, List.nil_append, List.append_nil] at hce
    exact Seg.lambda hx ha (hs2 hce)

theorem SPres.parseLambdaImplicit {start : Nat} :
    SPres toks (parseLambdaImplicit toks rec start) (Inv toks .lambdaImplicit start) := by
  unfold PModel.parseLambdaImplicit
  refine SPres.consume0 (Inv.failAt _ _ _ _) (fun h1 => ?_)
  refine SPres.consumeIdent (Inv.failAt _ _ _ _) (fun x h2 => ?_)
  refine SPres.consume0 (Inv.failAt _ _ _ _) (fun h3 => ?_)
  refine SPres.consume0 (Inv.failAt _ _ _ _) (fun h4 => ?_)
  refine SPres.bind (hrec _ _) ?_
  intro r2 hr2
  obtain ⟨t2, n2, c2⟩ := r2
  obtain ⟨hg2, hs2⟩ := hr2
  refine SPres.pure ⟨?_, ?_⟩
  · good_simp
    exact hg2
  · intro hce
    simp only [collectErrors, collectErrorsOpt, List.nil_append, List.append_nil] at hce
    exact Seg.lambdaImplicit h1 h2 h3 h4 (hs2 hce)

theorem SPres.parseBinary {nt left right : NT} {opTok : PKind} {op : BinOp} {start : Nat}
    (hm : (nt, left, opTok, right) ∈ binProds) :
    SPres toks (parseBinary toks rec left opTok right op start) (Inv toks nt start) := by
  unfold PModel.parseBinary
  refine SPres.tryEval (hrec _ _) (fun r hr he => Inv.ofPE hr.1 he) ?_
  intro r hr hne
  refine SPres.consume0 (Inv.failAt _ _ _ _) (fun hk => ?_)
  refine SPres.bind (hrec _ _) ?_
  intro r2 hr2
  obtain ⟨t2, n2, c2⟩ := r2
  obtain ⟨hg, hs⟩ := hr
  obtain ⟨hg2, hs2⟩ := hr2
  refine SPres.pure ⟨?_, ?_⟩
  · good_simp
    grind
  · intro hce
    simp only [collectErrors, List.append_nil, List.append_eq_nil_iff] at hce
    exact Seg.bin hm (hs hce.1) hk (hs2 hce.2)

theorem SPres.parseBinder {nt : NT} {openK closeK arrowK : PKind} {mk : SrcVar → Src → Src → SrcV}
    {start : Nat} (hm : (nt, openK, closeK, arrowK) ∈ binderProds)
    (hce : ∀ r g v d b es, collectErrors (.mk r g (mk v d b) es) = collectErrors d ++ collectErrors b ++ es)
    (hnp : ∀ r g v d b es, NoPE (.mk r g (mk v d b) es) ↔ NoPE d ∧ NoPE b) :
    SPres toks (parseBinder toks rec openK closeK arrowK mk start) (Inv toks nt start) := by
  unfold PModel.parseBinder
  refine SPres.consume0 (Inv.failAt _ _ _ _) (fun h1 => ?_)
  refine SPres.consumeIdent (Inv.failAt _ _ _ _) (fun x h2 => ?_)
  refine SPres.consume0 (Inv.failAt _ _ _ _) (fun h3 => ?_)
  refine SPres.tryEval (hrec _ _) (fun r hr he => Inv.ofPE hr.1 he) ?_
  intro r hr hne
  refine SPres.consume0 (Inv.failAt _ _ _ _) (fun h4 => ?_)
  refine SPres.consume0 (Inv.failAt _ _ _ _) (fun h5 => ?_)
  refine SPres.bind (hrec _ _) ?_
  intro r2 hr2
  obtain ⟨t2, n2, c2⟩ := r2
  obtain ⟨hg, hs⟩ := hr
  obtain ⟨hg2, hs2⟩ := hr2
  refine SPres.pure ⟨?_, ?_⟩
  · simp only [Good, hce, hnp] at *
    good_simp
    grind
  · intro hc
    simp only [hce, List.append_nil, List.append_eq_nil_iff] at hc
    exact Seg.binder hm h1 h2 h3 (hs hc.1) h4 h5 (hs2 hc.2)

theorem SPres.parseNegation {start : Nat} :
    SPres toks (parseNegation toks rec start) (Inv toks .negation start) := by
  unfold PModel.parseNegation
  refine SPres.consume0 (Inv.failAt _ _ _ _) (fun h1 => ?_)
  refine SPres.bind (hrec _ _) ?_
  intro r2 hr2
  obtain ⟨t2, n2, c2⟩ := r2
  obtain ⟨hg2, hs2⟩ := hr2
  refine SPres.pure ⟨?_, ?_⟩
  · good_simp
    exact hg2
  · intro hce
    simp only [collectErrors, List.append_nil] at hce
    exact Seg.negation h1 (hs2 hce)

theorem SPres.parseNonDependentPi {start : Nat} :
    SPres toks (parseNonDependentPi toks rec start) (Inv toks .nonDependentPi start) := by
  unfold PModel.parseNonDependentPi
  refine SPres.tryEval (hrec _ _) (fun r hr he => Inv.ofPE hr.1 he) ?_
  intro r hr hne
  refine SPres.consume0 (Inv.failAt _ _ _ _) (fun hk => ?_)
  refine SPres.bind (hrec _ _) ?_
  intro r2 hr2
  obtain ⟨t2, n2, c2⟩ := r2
  obtain ⟨hg, hs⟩ := hr
  obtain ⟨hg2, hs2⟩ := hr2
  refine SPres.pure ⟨?_, ?_⟩
  · good_simp
    grind
  · intro hce
    simp only [collectErrors, List.append_nil, List.append_eq_nil_iff] at hce
    exact Seg.nonDependentPi (hs hce.1) hk (hs2 hce.2)

theorem SPres.parseApplication {start : Nat} :
    SPres toks (parseApplication rec start) (Inv toks .application start) := by
  unfold PModel.parseApplication
  refine SPres.tryEval (hrec _ _) (fun r hr he => Inv.ofPE hr.1 he) ?_
  intro r hr hne
  refine SPres.tryEval (hrec _ _) (fun r hr he => Inv.ofPE hr.1 he) ?_
  intro r2 hr2 hne2
  obtain ⟨hg, hs⟩ := hr
  obtain ⟨hg2, hs2⟩ := hr2
  refine SPres.pure ⟨?_, ?_⟩
  · good_simp
    grind
  · intro hce
    simp only [collectErrors, List.append_nil, List.append_eq_nil_iff] at hce
    exact Seg.application (hs hce.1) (hs2 hce.2)

omit hrec in
theorem Good.confident {r : PResult} (hg : Good r) (h : collectErrors r.term = []) :
    r.confident = true := by
  cases hc : r.confident
  · exact absurd h (hg.1 hc)
  · rfl

theorem SPres.parseGroup {start : Nat} :
    SPres toks (parseGroup toks rec start) (Inv toks .group start) := by
  unfold PModel.parseGroup
  refine SPres.consume0 (Inv.failAt _ _ _ _) (fun h0 => ?_)
  refine SPres.tryEval (hrec _ _) (fun r hr he => Inv.ofPE hr.1 he) ?_
  intro r hr hne
  obtain ⟨hg, hs⟩ := hr
  have hc := expectToken_clean toks r.next (· = .rightParen) r.confident
  generalize expectToken toks r.next (· = .rightParen) r.confident = e at hc
  obtain ⟨errs, found, nx⟩ := e
  dsimp only at hc ⊢
  refine SPres.pure ?_
  obtain ⟨X, hX1, hX2⟩ := collectErrors_mk_variant r.term
    (span (tokenRange toks start) (tokenRange toks (nx - 1))) true
    (if (!found) = true then (if found = true then r.term.errors ++ errs else r.term.errors) ++
      [neverClosed toks start nx] else if found = true then r.term.errors ++ errs else r.term.errors)
  refine ⟨?_, ?_⟩
  · unfold Good at hg ⊢
    dsimp only
    rw [hX2, NoPE_mk_variant]
    rw [hX1] at hg
    clear hc hs
    cases found <;> simp at hg ⊢ <;> grind
  · dsimp only
    rw [hX2]
    intro hce
    cases found
    · simp at hce
    · simp at hce
      have hne : collectErrors r.term = [] := by rw [hX1]; simp [hce]
      obtain ⟨hlt, ht, _, hnx⟩ := hc (hg.confident hne) hce.2.2
      subst hnx
      exact Seg.group h0 (hs hne) ⟨hlt, by simpa using ht⟩

theorem SPres.optTerm {next : Nat} {found : Bool} {jp : PResult → ParseM PResult}
    {post : PResult → Prop}
    (hk : ∀ r, (found = true → Inv toks .term next r) → (found = false → r.confident = false) →
      SPres toks (jp r) post) :
    SPres toks (if found = true then rec .term next >>= jp
          else (Pure.pure ⟨skippedTerm toks next, next, false⟩ : ParseM PResult) >>= jp) post := by
  refine SPres.ite (fun hf => SPres.bind (hrec _ _) (fun r hr => hk r (fun _ => hr) ?_))
    (fun hf => SPres.bind (SPres.pure rfl) (fun r hr => hk r ?_ ?_))
  · intro h; rw [hf] at h; cases h
  · intro h; exact absurd h hf
  · intro _; rw [← hr]

theorem SPres.parseIf {start : Nat} :
    SPres toks (parseIf toks rec start) (Inv toks .if_ start) := by
  unfold PModel.parseIf
  refine SPres.consume0 (Inv.failAt _ _ _ _) (fun h0 => ?_)
  refine SPres.bind (hrec _ _) ?_
  intro r1 hr1
  obtain ⟨t1, n1, c1⟩ := r1
  obtain ⟨hg1, hs1⟩ := hr1
  dsimp only at hs1 ⊢
  have he1 := expectToken_errs' toks n1 (· = .then_) c1
  have hc1 := expectToken_clean toks n1 (· = .then_) c1
  generalize expectToken toks n1 (· = .then_) c1 = e at he1 hc1
  obtain ⟨errs, found, nx⟩ := e
  dsimp only at he1 hc1 ⊢
  refine SPres.optTerm hrec ?_
  intro r2 hr2 hr2'
  obtain ⟨t2, n2, c2⟩ := r2
  have hg2 : found = true → Good ⟨t2, n2, c2⟩ := fun h => (hr2 h).1
  have hs2 : found = true → collectErrors t2 = [] → Seg toks .term nx n2 := fun h => (hr2 h).2
  clear hr2
  dsimp only at hr2' ⊢
  have he2 := expectToken_errs' toks n2 (· = .else_) c2
  have hc2 := expectToken_clean toks n2 (· = .else_) c2
  generalize expectToken toks n2 (· = .else_) c2 = e2 at he2 hc2
  obtain ⟨errs2, found2, nx2⟩ := e2
  dsimp only at he2 hc2 ⊢
  refine SPres.optTerm hrec ?_
  intro r3 hr3 hr3'
  obtain ⟨t3, n3, c3⟩ := r3
  have hg3 : found2 = true → Good ⟨t3, n3, c3⟩ := fun h => (hr3 h).1
  have hs3 : found2 = true → collectErrors t3 = [] → Seg toks .term nx2 n3 := fun h => (hr3 h).2
  clear hr3
  refine SPres.pure ⟨?_, ?_⟩
  · clear hs1 hs2 hs3 hc1 hc2
    good_simp
    grind
  · intro hce
    simp only [collectErrors, List.append_eq_nil_iff] at hce
    obtain ⟨⟨⟨e1, e2⟩, e3⟩, e4, e5⟩ := hce
    obtain ⟨hlt1, ht1, hf1, hn1⟩ := hc1 (hg1.confident e1) e4
    subst hn1
    obtain ⟨hlt2, ht2, hf2, hn2⟩ := hc2 ((hg2 hf1).confident e2) e5
    subst hn2
    exact Seg.ite h0 (hs1 e1) ⟨hlt1, by simpa using ht1⟩ (hs2 hf1 e2) ⟨hlt2, by simpa using ht2⟩
      (hs3 hf2 e3)

/-- What `parseLetRest` returns. -/
def LetRestPost (toks : Array PTok) (ann : OptSrc) (errors : List PErr) (ef : Bool) (next : Nat)
    (r : PResult) : Prop :=
  Good r ∧ (collectErrors r.term = [] → ef = true ∧ errors = [] ∧ collectErrorsOpt ann = [] ∧
    ∃ b t, Seg toks .term next b ∧ KAt toks b (.terminator t) ∧ Seg toks .term (b + 1) r.next)

omit hrec in
theorem isTerminator_eq {k : PKind} (h : k.isTerminator = true) : ∃ t, k = .terminator t := by
  cases k <;> first | exact ⟨_, rfl⟩ | cases h

theorem SPres.parseLetRest {next : Nat} {vr : SourceRange} {x : Name} {ann : OptSrc}
    {errors : List PErr} {ef : Bool}
    (h1 : ef = false → errors ≠ [] ∨ collectErrorsOpt ann ≠ [])
    (h2 : collectErrorsOpt ann = [] → NoPEOpt ann) :
    SPres toks (parseLetRest toks rec vr x ann next errors ef)
      (LetRestPost toks ann errors ef next) := by
  unfold PModel.parseLetRest
  refine SPres.optTerm hrec ?_
  intro r2 hr2 hr2'
  obtain ⟨t2, n2, c2⟩ := r2
  have hg2 : ef = true → Good ⟨t2, n2, c2⟩ := fun h => (hr2 h).1
  have hs2 : ef = true → collectErrors t2 = [] → Seg toks .term next n2 := fun h => (hr2 h).2
  clear hr2
  dsimp only at hr2' ⊢
  have he2 := expectToken_errs' toks n2 PKind.isTerminator c2
  have hc2 := expectToken_clean toks n2 PKind.isTerminator c2
  generalize expectToken toks n2 PKind.isTerminator c2 = e2 at he2 hc2
  obtain ⟨errs2, found2, nx2⟩ := e2
  dsimp only at he2 hc2 ⊢
  refine SPres.optTerm hrec ?_
  intro r3 hr3 hr3'
  obtain ⟨t3, n3, c3⟩ := r3
  have hg3 : found2 = true → Good ⟨t3, n3, c3⟩ := fun h => (hr3 h).1
  have hs3 : found2 = true → collectErrors t3 = [] → Seg toks .term nx2 n3 := fun h => (hr3 h).2
  clear hr3
  refine SPres.pure ⟨?_, ?_⟩
  · clear hs2 hs3 hc2
    good_simp
    grind
  · intro hce
    simp only [collectErrors, List.append_eq_nil_iff] at hce
    obtain ⟨⟨⟨e1, e2⟩, e3⟩, e4, e5⟩ := hce
    have hef : ef = true := by
      cases hef : ef
      · rcases h1 hef with h | h
        · exact absurd e4 h
        · exact absurd e1 h
      · rfl
    obtain ⟨hlt2, ht2, hf2, hn2⟩ := hc2 ((hg2 hef).confident e2) e5
    subst hn2
    obtain ⟨t, ht⟩ := isTerminator_eq ht2
    exact ⟨hef, e4, e1, n2, t, hs2 hef e2, ⟨hlt2, ht⟩, hs3 hf2 e3⟩

omit hrec in
theorem SPres.mono {α : Type} {m : ParseM α} {p q : α → Prop} (h : SPres toks m p)
    (hpq : ∀ a, p a → q a) : SPres toks m q := by
  intro st a st' hI e
  obtain ⟨h1, h2⟩ := h st a st' hI e
  exact ⟨h1, hpq a h2⟩

theorem SPres.parseLet {start : Nat} :
    SPres toks (parseLet toks rec start) (Inv toks .let_ start) := by
  rw [parseLet_eq]
  refine SPres.consumeIdent (Inv.failAt _ _ _ _) (fun x hx => ?_)
  split
  · split
    · refine SPres.consume0 (Inv.failAt _ _ _ _) (fun hcol => ?_)
      refine SPres.tryEval (hrec _ _) (fun r hr he => Inv.ofPE hr.1 he) ?_
      intro r hr hne
      obtain ⟨hg, hs⟩ := hr
      have he := expectToken_errs' toks r.next (· = .equals) r.confident
      have hc := expectToken_clean toks r.next (· = .equals) r.confident
      refine SPres.mono (SPres.parseLetRest hrec ?_ ?_) ?_
      · intro hf
        by_cases hcf : r.confident = true
        · exact Or.inl (he hcf hf)
        · exact Or.inr (hg.1 (by simpa using hcf))
      · exact hg.2
      · intro r' ⟨hg', hs'⟩
        refine ⟨hg', fun hce => ?_⟩
        obtain ⟨_, e1, e2, b, t, s1, ht, s2⟩ := hs' hce
        simp only [collectErrorsOpt] at e2
        obtain ⟨hlt, hte, _, hn⟩ := hc (hg.confident e2) e1
        rw [hn] at s1
        exact Seg.letAnn hx hcol (hs e2) ⟨hlt, by simpa using hte⟩ s1 ht s2
    · refine SPres.consume0 (Inv.failAt _ _ _ _) (fun heq => ?_)
      refine SPres.mono (SPres.parseLetRest hrec (by simp) (by simp [NoPEOpt])) ?_
      intro r' ⟨hg', hs'⟩
      refine ⟨hg', fun hce => ?_⟩
      obtain ⟨_, _, _, b, t, s1, ht, s2⟩ := hs' hce
      exact Seg.letPlain hx heq s1 ht s2
  · refine SPres.consume0 (Inv.failAt _ _ _ _) (fun heq => ?_)
    refine SPres.mono (SPres.parseLetRest hrec (by simp) (by simp [NoPEOpt])) ?_
    intro r' ⟨hg', hs'⟩
    refine ⟨hg', fun hce => ?_⟩
    obtain ⟨_, _, _, b, t, s1, ht, s2⟩ := hs' hce
    exact Seg.letPlain hx heq s1 ht s2

end Bodies

theorem Inv.unit {toks : Array PTok} {A B : NT} {s : Nat} {r : PResult} (hm : (A, B) ∈ unitProds)
    (h : Inv toks B s r) : Inv toks A s r :=
  ⟨h.1, fun hce => Seg.unit hm (h.2 hce)⟩

macro "salt_tac" hrec:ident : tactic => `(tactic|
  repeat (first
    | exact SPres.pure (Inv.failAt _ _ _ _)
    | refine SPres.tryReturn ($hrec _ _) (fun r hr => Inv.unit (by decide) hr) ?_))

theorem SPres.parseBody {toks : Array PTok} {rec : NT → Nat → ParseM PResult}
    (hrec : ∀ nt pos, SPres toks (rec nt pos) (Inv toks nt pos)) (nt : NT) (start : Nat) :
    SPres toks (parseBody toks rec nt start) (Inv toks nt start) := by
  cases nt <;> simp only [PModel.parseBody]
  case term => unfold parseTerm noParse; salt_tac hrec
  case type => exact SPres.parseLeaf (by decide) (by simp [collectErrors, NoPE])
  case «variable» =>
    unfold parseVariable
    refine SPres.consumeIdent (Inv.failAt _ _ _ _) (fun x hx => SPres.pure ⟨?_, fun _ => Seg.var hx⟩)
    simp [Good, collectErrors, NoPE]
  case lambda => exact SPres.parseLambda hrec
  case lambdaImplicit => exact SPres.parseLambdaImplicit hrec
  case annotatedLambda =>
    exact SPres.parseBinder hrec (by decide) (by simp [collectErrors, collectErrorsOpt])
      (by simp [NoPE, NoPEOpt])
  case annotatedLambdaImplicit =>
    exact SPres.parseBinder hrec (by decide) (by simp [collectErrors, collectErrorsOpt])
      (by simp [NoPE, NoPEOpt])
  case pi => exact SPres.parseBinder hrec (by decide) (by simp [collectErrors]) (by simp [NoPE])
  case piImplicit =>
    exact SPres.parseBinder hrec (by decide) (by simp [collectErrors]) (by simp [NoPE])
  case nonDependentPi => exact SPres.parseNonDependentPi hrec
  case application => exact SPres.parseApplication hrec
  case let_ => exact SPres.parseLet hrec
  case integer => exact SPres.parseLeaf (by decide) (by simp [collectErrors, NoPE])
  case integerLiteral =>
    unfold parseIntegerLiteral
    refine SPres.consumeLiteral (Inv.failAt _ _ _ _)
      (fun x hx => SPres.pure ⟨?_, fun _ => Seg.lit hx⟩)
    simp [Good, collectErrors, NoPE]
  case negation => exact SPres.parseNegation hrec
  case sum => exact SPres.parseBinary hrec (by decide)
  case difference => exact SPres.parseBinary hrec (by decide)
  case product => exact SPres.parseBinary hrec (by decide)
  case quotient => exact SPres.parseBinary hrec (by decide)
  case lessThan => exact SPres.parseBinary hrec (by decide)
  case lessThanOrEqualTo => exact SPres.parseBinary hrec (by decide)
  case equalTo => exact SPres.parseBinary hrec (by decide)
  case greaterThan => exact SPres.parseBinary hrec (by decide)
  case greaterThanOrEqualTo => exact SPres.parseBinary hrec (by decide)
  case boolean => exact SPres.parseLeaf (by decide) (by simp [collectErrors, NoPE])
  case true_ => exact SPres.parseLeaf (by decide) (by simp [collectErrors, NoPE])
  case false_ => exact SPres.parseLeaf (by decide) (by simp [collectErrors, NoPE])
  case if_ => exact SPres.parseIf hrec
  case group => exact SPres.parseGroup hrec
  case atom => unfold parseAtom noParse; salt_tac hrec
  case smallTerm => unfold parseSmallTerm noParse; salt_tac hrec
  case mediumTerm => unfold parseMediumTerm noParse; salt_tac hrec
  case largeTerm => unfold parseLargeTerm noParse; salt_tac hrec
  case hugeTerm => unfold parseHugeTerm noParse; salt_tac hrec
  case giantTerm => unfold parseGiantTerm noParse; salt_tac hrec
  case jumboTerm => unfold parseJumboTerm noParse; salt_tac hrec

theorem SPres.parseNT (toks : Array PTok) : ∀ (fuel : Nat) (nt : NT) (start : Nat),
    SPres toks (parseNT toks fuel nt start) (Inv toks nt start)
  | 0, _, _ => by unfold PModel.parseNT; exact SPres.fail
  | fuel + 1, nt, start => by
      unfold PModel.parseNT
      exact SPres.cacheCheck (SPres.parseBody (fun nt pos => SPres.parseNT toks fuel nt pos) nt start)

theorem CacheInv.init (toks : Array PTok) : CacheInv toks PState.init := by
  intro nt s r h
  simp [PState.init] at h

/-- **Soundness of the packrat functions**: from the empty memo table, any parsing function started
anywhere with any fuel returns a `Good` result that, if it carries no recorded error, spans a
segment derived from its nonterminal. -/
theorem parseNT_sound {toks : Array PTok} {fuel : Nat} {nt : NT} {start : Nat} {r : PResult}
    {st : PState} (h : parseNT toks fuel nt start PState.init = some (r, st)) :
    Inv toks nt start r :=
  (SPres.parseNT toks fuel nt start PState.init r st (CacheInv.init toks) h).2

end PModel
