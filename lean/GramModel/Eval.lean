import GramModel.DeBruijn

/-!
# Evaluator (model of `src/evaluator.rs`)

`step` follows the Rust arm by arm: try the left component, require a value, try the right
component, require a value, contract.  `isValue` is re-derived from the source on every run
(`Generated/IsValue.lean` must agree with it, see `Props/C02.lean`).  In this pure layer a hole is an
unresolved unifier: not a value, no step.
-/

def isValue : Tm → Bool
  | .type | .lam .. | .pi .. | .int | .lit _ | .bool | .tt | .ff => true
  | .hole .. | .var .. | .app .. | .letg .. | .neg .. | .bin .. | .ite .. => false

/-- The δ-rules.  `quot` is `BigInt::checked_div`: truncation toward zero, undefined on 0. -/
def delta (op : BinOp) (a b : Int) : Option Tm :=
  match op with
  | .sum => some (.lit (a + b))
  | .diff => some (.lit (a - b))
  | .prod => some (.lit (a * b))
  | .quot => if b = 0 then none else some (.lit (Int.tdiv a b))
  | .lt => some (if a < b then .tt else .ff)
  | .le => some (if a ≤ b then .tt else .ff)
  | .eq => some (if a = b then .tt else .ff)
  | .gt => some (if a > b then .tt else .ff)
  | .ge => some (if a ≥ b then .tt else .ff)

/-- The recursive unfolding `let x = d; x` that the evaluator and the normalizer substitute for a
group variable: `index` is the variable's index inside the group (`n - 1 - position`). -/
def unfoldDef (x : Name) (ann d : Tm) (index : Nat) : Tm :=
  let self := Tm.var x 0
  openT d index
    (.letg (.cons x (openT (ushift 0 1 ann) (index + 1) self 0)
                    (openT (ushift 0 1 d) (index + 1) self 0) .nil) self) 0

def step : Tm → Option Tm
  | .app f a =>
    match step f with
    | some f' => some (.app f' a)
    | none =>
      if !isValue f then none else
      match step a with
      | some a' => some (.app f a')
      | none =>
        if !isValue a then none else
        match f with
        | .lam _ _ _ body => some (openT body 0 a 0)
        | _ => none
  | .letg .nil body => some body
  | .letg (.cons x ann d rest) body =>
    match step d with
    | some d' => some (.letg (.cons x ann d' rest) body)
    | none =>
      if !isValue d then none else
      let index := rest.len
      let unfolded := unfoldDef x ann d index
      some (.letg (openDefs rest index unfolded 0) (openT body index unfolded 0))
  | .neg a =>
    match step a with
    | some a' => some (.neg a')
    | none =>
      if !isValue a then none else
      match a with
      | .lit n => some (.lit (-n))
      | _ => none
  | .bin op a b =>
    match step a with
    | some a' => some (.bin op a' b)
    | none =>
      if !isValue a then none else
      match step b with
      | some b' => some (.bin op a b')
      | none =>
        if !isValue b then none else
        match a, b with
        | .lit x, .lit y => delta op x y
        | _, _ => none
  | .ite c t e =>
    match step c with
    | some c' => some (.ite c' t e)
    | none =>
      if !isValue c then none else
      match c with
      | .tt => some t
      | .ff => some e
      | _ => none
  | .hole .. | .type | .int | .bool | .tt | .ff | .lit _ | .var .. | .lam .. | .pi .. => none

/-- `evalFuel n t`: at most `n` steps. -/
def evalFuel : Nat → Tm → Tm
  | 0, t => t
  | n+1, t => match step t with
    | some t' => evalFuel n t'
    | none => t

/-- The trace of at most `n` steps, starting with `t` itself. -/
def evalTrace : Nat → Tm → List Tm
  | 0, t => [t]
  | n+1, t => match step t with
    | some t' => t :: evalTrace n t'
    | none => [t]

/-- Why a term that neither steps nor is a value is stuck (C01's classification). -/
inductive StuckReason
  | variable      -- a variable in evaluation position (a definition not yet available)
  | notFunction   -- a call of a non-function
  | arithKind     -- arithmetic or comparison on a non-literal value
  | branchKind    -- branching on a non-boolean value
  | hole          -- an unfilled hole
  | divZero       -- integer division by zero
deriving DecidableEq, Repr

/-- Descend along the evaluation context to the stuck redex and classify it.  `none` = the term is
a value or can step. -/
def stuckReason : Tm → Option StuckReason
  | .hole .. => some .hole
  | .var .. => some .variable
  | .app f a =>
    match step f with
    | some _ => none
    | none =>
      if !isValue f then stuckReason f else
      match step a with
      | some _ => none
      | none =>
        if !isValue a then stuckReason a else
        match f with
        | .lam .. => none
        | _ => some .notFunction
  | .letg .nil _ => none
  | .letg (.cons _ _ d _) _ =>
    match step d with
    | some _ => none
    | none => if !isValue d then stuckReason d else none
  | .neg a =>
    match step a with
    | some _ => none
    | none =>
      if !isValue a then stuckReason a else
      match a with
      | .lit _ => none
      | _ => some .arithKind
  | .bin op a b =>
    match step a with
    | some _ => none
    | none =>
      if !isValue a then stuckReason a else
      match step b with
      | some _ => none
      | none =>
        if !isValue b then stuckReason b else
        match a, b with
        | .lit _, .lit y => if op = .quot ∧ y = 0 then some .divZero else none
        | _, _ => some .arithKind
  | .ite c _ _ =>
    match step c with
    | some _ => none
    | none =>
      if !isValue c then stuckReason c else
      match c with
      | .tt => none
      | .ff => none
      | _ => some .branchKind
  | .type | .int | .bool | .tt | .ff | .lit _ | .lam .. | .pi .. => none
