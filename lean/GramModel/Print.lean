import GramModel.DeBruijn
import GramModel.Store
import GramModel.Generated.Terms

/-!
# The printer (model of `impl Display for Variant`, `annotation`, `group` in `src/term.rs`)

Two layers, as everywhere in this model.

* The **pure** layer (`printTm`, `groupP`, `annotP`, `headP`) is structurally recursive on the term and
  treats a hole the way the Rust treats an *unresolved* unifier (it prints `_`, and `group` leaves
  it bare).  The theorems of C16 are about this layer.
* The **store** layer (`printS`, `groupS`, `annotS`, `headS`, `freeAtS`) follows resolved cells the
  way the Rust does: `Display`, `group` and `annotation` look *through* a resolved unifier (without
  applying its shift — only names are printed), while the dependent/non-dependent test of `Pi`
  goes through `free_variables`, which does shift the contents of a resolved cell.  It takes fuel
  (decremented at every call); the driver runs this layer.  On hole-free terms both layers agree
  (`Lemmas/Print.lean`).

Text is `List Char`; names are looked up in `nm : Name → List Char` (the harness ships the code
points of every name).  The text fragments are assembled by the `…Text` functions below, shared by
the two layers.
-/

/-! ## The bare / parenthesised partition of `group` -/

/-- the variants of `term::Variant`, in declaration order -/
inductive Former
  | unifier | type | variable | lambda | pi | application | letG | integer | integerLiteral
  | negation | sum | difference | product | quotient | lessThan | lessThanOrEqualTo | equalTo
  | greaterThan | greaterThanOrEqualTo | boolean | true_ | false_ | if_
deriving DecidableEq, Repr, Inhabited

def Former.all : List Former :=
  [.unifier, .type, .variable, .lambda, .pi, .application, .letG, .integer, .integerLiteral,
   .negation, .sum, .difference, .product, .quotient, .lessThan, .lessThanOrEqualTo, .equalTo,
   .greaterThan, .greaterThanOrEqualTo, .boolean, .true_, .false_, .if_]

/-- the Rust name of the variant (what `extract.py` reads off `term.rs`) -/
def Former.name : Former → String
  | .unifier => "Unifier" | .type => "Type" | .variable => "Variable" | .lambda => "Lambda"
  | .pi => "Pi" | .application => "Application" | .letG => "Let" | .integer => "Integer"
  | .integerLiteral => "IntegerLiteral" | .negation => "Negation" | .sum => "Sum"
  | .difference => "Difference" | .product => "Product" | .quotient => "Quotient"
  | .lessThan => "LessThan" | .lessThanOrEqualTo => "LessThanOrEqualTo" | .equalTo => "EqualTo"
  | .greaterThan => "GreaterThan" | .greaterThanOrEqualTo => "GreaterThanOrEqualTo"
  | .boolean => "Boolean" | .true_ => "True" | .false_ => "False" | .if_ => "If"

def Former.ofOp : BinOp → Former
  | .sum => .sum | .diff => .difference | .prod => .product | .quot => .quotient
  | .lt => .lessThan | .le => .lessThanOrEqualTo | .eq => .equalTo | .gt => .greaterThan
  | .ge => .greaterThanOrEqualTo

def Tm.former : Tm → Former
  | .hole _ _ => .unifier
  | .type => .type | .int => .integer | .bool => .boolean | .tt => .true_ | .ff => .false_
  | .lit _ => .integerLiteral
  | .var _ _ => .variable
  | .lam _ _ _ _ => .lambda
  | .pi _ _ _ _ => .pi
  | .app _ _ => .application
  | .letg _ _ => .letG
  | .neg _ => .negation
  | .bin op _ _ => Former.ofOp op
  | .ite _ _ _ => .if_

/-- Hand-written copy of the partition made by `group`: `true` = printed as is, `false` = printed
inside parentheses.  A unifier is *followed* by `group`; an unresolved one prints `_` as is.
`C16_atomic_table` checks this against the table regenerated from `term.rs`. -/
def Former.bare : Former → Bool
  | .unifier => true
  | .type | .variable | .integer | .integerLiteral | .boolean | .true_ | .false_ => true
  | .lambda | .pi | .application | .letG | .negation | .sum | .difference | .product | .quotient
  | .lessThan | .lessThanOrEqualTo | .equalTo | .greaterThan | .greaterThanOrEqualTo | .if_ => false

/-- `group` prints the term without parentheses -/
def atomic (t : Tm) : Bool := t.former.bare

/-! ## Text fragments -/

def kwType : List Char := "type".toList
def kwInt : List Char := "int".toList
def kwBool : List Char := "bool".toList
def kwTrue : List Char := "true".toList
def kwFalse : List Char := "false".toList
def holeText : List Char := ['_']

/-- `BigInt`'s `Display`: decimal, `-` for negative numbers -/
def intChars : Int → List Char
  | .ofNat n => Nat.toDigits 10 n
  | .negSucc n => '-' :: Nat.toDigits 10 (n + 1)

def opChars : BinOp → List Char
  | .sum => ['+'] | .diff => ['-'] | .prod => ['*'] | .quot => ['/']
  | .lt => ['<'] | .le => ['<', '='] | .eq => ['=', '='] | .gt => ['>'] | .ge => ['>', '=']

def parenC (s : List Char) : List Char := '(' :: s ++ [')']

/-- `group`, given the text of the term -/
def wrapGroup (t : Tm) (s : List Char) : List Char := if atomic t then s else parenC s

/-- the head of an application / the domain of a non-dependent explicit `->`:
an application is printed as is, anything else through `group` -/
def wrapHead (t : Tm) (s : List Char) : List Char :=
  match t with
  | .app _ _ => s
  | _ => wrapGroup t s

/-- `annotation`: a `let` is parenthesised, anything else printed as is -/
def wrapAnnot (t : Tm) (s : List Char) : List Char :=
  match t with
  | .letg _ _ => parenC s
  | _ => s

/-- `(x : A) => b` / `{x : A} => b` -/
def lamText (imp : Bool) (x ann body : List Char) : List Char :=
  if imp then '{' :: x ++ " : ".toList ++ ann ++ "} => ".toList ++ body
  else '(' :: x ++ " : ".toList ++ ann ++ ") => ".toList ++ body

/-- `(x : A) -> B` / `{x : A} -> B` -/
def piDepText (imp : Bool) (x ann cod : List Char) : List Char :=
  if imp then '{' :: x ++ " : ".toList ++ ann ++ "} -> ".toList ++ cod
  else '(' :: x ++ " : ".toList ++ ann ++ ") -> ".toList ++ cod

/-- `{A} -> B` -/
def piImpText (dom cod : List Char) : List Char := '{' :: dom ++ "} -> ".toList ++ cod

/-- `A -> B` -/
def arrowText (dom cod : List Char) : List Char := dom ++ " -> ".toList ++ cod

def appText (f a : List Char) : List Char := f ++ ' ' :: a
def negText (a : List Char) : List Char := '-' :: a
def binText (op : BinOp) (a b : List Char) : List Char := a ++ ' ' :: opChars op ++ ' ' :: b
def iteText (c a b : List Char) : List Char :=
  "if ".toList ++ c ++ " then ".toList ++ a ++ " else ".toList ++ b
/-- `x : A = d; ` -/
def defText (x ann d : List Char) : List Char :=
  x ++ " : ".toList ++ ann ++ " = ".toList ++ d ++ "; ".toList

/-! ## The pure layer -/

mutual
def printTm (nm : Name → List Char) : Tm → List Char
  | .hole _ _ => holeText
  | .type => kwType
  | .int => kwInt
  | .bool => kwBool
  | .tt => kwTrue
  | .ff => kwFalse
  | .lit n => intChars n
  | .var x _ => nm x
  | .lam x imp d b => lamText imp (nm x) (wrapAnnot d (printTm nm d)) (printTm nm b)
  | .pi x imp d c =>
      if freeAt c 0 then piDepText imp (nm x) (wrapAnnot d (printTm nm d)) (printTm nm c)
      else if imp then piImpText (printTm nm d) (printTm nm c)
      else arrowText (wrapHead d (printTm nm d)) (printTm nm c)
  | .app f a => appText (wrapHead f (printTm nm f)) (wrapGroup a (printTm nm a))
  | .letg ds b => printDefs nm ds ++ printTm nm b
  | .neg a => negText (wrapGroup a (printTm nm a))
  | .bin op a b => binText op (wrapGroup a (printTm nm a)) (wrapGroup b (printTm nm b))
  | .ite c a b => iteText (printTm nm c) (printTm nm a) (printTm nm b)
def printDefs (nm : Name → List Char) : Defs → List Char
  | .nil => []
  | .cons x a d r =>
      defText (nm x) (wrapGroup a (printTm nm a)) (wrapGroup d (printTm nm d)) ++ printDefs nm r
end

/-- `group(term)` -/
def groupP (nm : Name → List Char) (t : Tm) : List Char := wrapGroup t (printTm nm t)
/-- `annotation(term)` -/
def annotP (nm : Name → List Char) (t : Tm) : List Char := wrapAnnot t (printTm nm t)
/-- application head / explicit non-dependent domain -/
def headP (nm : Name → List Char) (t : Tm) : List Char := wrapHead t (printTm nm t)

/-! ## The store layer -/

def orO : Option Bool → Option Bool → Option Bool
  | some a, some b => some (a || b)
  | _, _ => none

/- `free_variables(t, i, ..).contains(0)`: a resolved cell is shifted by its shift
(`unsigned_shift(&subterm, 0, shift)`, which also substitutes every resolved cell inside) and
then traversed. -/
mutual
def freeAtS : Nat → List (Option Tm) → Tm → Nat → Option Bool
  | 0, _, _, _ => none
  | f+1, σ, t, i =>
    match t with
    | .hole id s =>
        match σ[id]? with
        | some (some sub) =>
            match sshiftS f 0 (s : Int) sub { store := σ } with
            | .ok (some sub') _ => freeAtS f σ sub' i
            | _ => none
        | _ => some false
    | .var _ j => some (j == i)
    | .lam _ _ d b => orO (freeAtS f σ d i) (freeAtS f σ b (i+1))
    | .pi _ _ d b => orO (freeAtS f σ d i) (freeAtS f σ b (i+1))
    | .app g a => orO (freeAtS f σ g i) (freeAtS f σ a i)
    | .letg ds b => orO (freeAtDefsS f σ ds (i + ds.len)) (freeAtS f σ b (i + ds.len))
    | .neg a => freeAtS f σ a i
    | .bin _ a b => orO (freeAtS f σ a i) (freeAtS f σ b i)
    | .ite a b d => orO (orO (freeAtS f σ a i) (freeAtS f σ b i)) (freeAtS f σ d i)
    | _ => some false
def freeAtDefsS : Nat → List (Option Tm) → Defs → Nat → Option Bool
  | 0, _, _, _ => none
  | f+1, σ, ds, i =>
    match ds with
    | .nil => some false
    | .cons _ a d r => orO (orO (freeAtS f σ a i) (freeAtS f σ d i)) (freeAtDefsS f σ r i)
end

def map2O (g : List Char → List Char → List Char) : Option (List Char) → Option (List Char) → Option (List Char)
  | some a, some b => some (g a b)
  | _, _ => none

def map3O (g : List Char → List Char → List Char → List Char) :
    Option (List Char) → Option (List Char) → Option (List Char) → Option (List Char)
  | some a, some b, some c => some (g a b c)
  | _, _, _ => none

mutual
/-- `impl Display for Variant` -/
def printS (nm : Name → List Char) (σ : List (Option Tm)) : Nat → Tm → Option (List Char)
  | 0, _ => none
  | f+1, t =>
    match t with
    | .hole id _ =>
        match σ[id]? with
        | some (some sub) => printS nm σ f sub
        | _ => some holeText
    | .type => some kwType
    | .int => some kwInt
    | .bool => some kwBool
    | .tt => some kwTrue
    | .ff => some kwFalse
    | .lit n => some (intChars n)
    | .var x _ => some (nm x)
    | .lam x imp d b => map2O (lamText imp (nm x)) (annotS nm σ f d) (printS nm σ f b)
    | .pi x imp d c =>
        match freeAtS f σ c 0 with
        | none => none
        | some true => map2O (piDepText imp (nm x)) (annotS nm σ f d) (printS nm σ f c)
        | some false =>
            if imp then map2O piImpText (printS nm σ f d) (printS nm σ f c)
            else map2O arrowText (headS nm σ f d) (printS nm σ f c)
    | .app g a => map2O appText (headS nm σ f g) (groupS nm σ f a)
    | .letg ds b => map2O (· ++ ·) (printDefsS nm σ f ds) (printS nm σ f b)
    | .neg a => (groupS nm σ f a).map negText
    | .bin op a b => map2O (binText op) (groupS nm σ f a) (groupS nm σ f b)
    | .ite c a b => map3O iteText (printS nm σ f c) (printS nm σ f a) (printS nm σ f b)
/-- `group` -/
def groupS (nm : Name → List Char) (σ : List (Option Tm)) : Nat → Tm → Option (List Char)
  | 0, _ => none
  | f+1, t =>
    match t with
    | .hole id _ =>
        match σ[id]? with
        | some (some sub) => groupS nm σ f sub
        | _ => printS nm σ f t
    | t => (printS nm σ f t).map (wrapGroup t)
/-- `annotation` -/
def annotS (nm : Name → List Char) (σ : List (Option Tm)) : Nat → Tm → Option (List Char)
  | 0, _ => none
  | f+1, t =>
    match t with
    | .hole id _ =>
        match σ[id]? with
        | some (some sub) => annotS nm σ f sub
        | _ => printS nm σ f t
    | t => (printS nm σ f t).map (wrapAnnot t)
/-- the `match applicand.variant` / `match domain.variant` of the `Application` and `Pi` arms: the
variant is inspected *without* following a cell -/
def headS (nm : Name → List Char) (σ : List (Option Tm)) : Nat → Tm → Option (List Char)
  | 0, _ => none
  | f+1, t =>
    match t with
    | .app _ _ => printS nm σ f t
    | t => groupS nm σ f t
def printDefsS (nm : Name → List Char) (σ : List (Option Tm)) : Nat → Defs → Option (List Char)
  | 0, _ => none
  | f+1, ds =>
    match ds with
    | .nil => some []
    | .cons x a d r =>
        map3O (fun a' d' r' => defText (nm x) a' d' ++ r')
          (groupS nm σ f a) (groupS nm σ f d) (printDefsS nm σ f r)
end

/-! ## Specification vocabulary for C16 -/

mutual
/-- forget every de Bruijn index (and the identity and shift of every hole); names, implicitness,
literals and the shape are kept -/
def eraseIdx : Tm → Tm
  | .hole _ _ => .hole 0 0
  | .var x _ => .var x 0
  | .lam x im d b => .lam x im (eraseIdx d) (eraseIdx b)
  | .pi x im d b => .pi x im (eraseIdx d) (eraseIdx b)
  | .app f a => .app (eraseIdx f) (eraseIdx a)
  | .letg ds b => .letg (eraseIdxDefs ds) (eraseIdx b)
  | .neg a => .neg (eraseIdx a)
  | .bin op a b => .bin op (eraseIdx a) (eraseIdx b)
  | .ite c a b => .ite (eraseIdx c) (eraseIdx a) (eraseIdx b)
  | .type => .type
  | .int => .int
  | .bool => .bool
  | .tt => .tt
  | .ff => .ff
  | .lit n => .lit n
def eraseIdxDefs : Defs → Defs
  | .nil => .nil
  | .cons x a d r => .cons x (eraseIdx a) (eraseIdx d) (eraseIdxDefs r)
end

mutual
/-- no function type occurs in the term -/
def noPi : Tm → Bool
  | .pi _ _ _ _ => false
  | .lam _ _ d b => noPi d && noPi b
  | .app f a => noPi f && noPi a
  | .letg ds b => noPiDefs ds && noPi b
  | .neg a => noPi a
  | .bin _ a b => noPi a && noPi b
  | .ite c a b => noPi c && noPi a && noPi b
  | _ => true
def noPiDefs : Defs → Bool
  | .nil => true
  | .cons _ a d r => noPi a && noPi d && noPiDefs r
end

mutual
/-- the dependent/non-dependent verdict of every function type of `t` is the same after erasing
the indices in `u` -- used to state what exactly the printer reads off the indices -/
def sameDeps : Tm → Tm → Bool
  | .pi _ _ d c, .pi _ _ d' c' => (freeAt c 0 == freeAt c' 0) && sameDeps d d' && sameDeps c c'
  | .lam _ _ d b, .lam _ _ d' b' => sameDeps d d' && sameDeps b b'
  | .app f a, .app f' a' => sameDeps f f' && sameDeps a a'
  | .letg ds b, .letg ds' b' => sameDepsDefs ds ds' && sameDeps b b'
  | .neg a, .neg a' => sameDeps a a'
  | .bin _ a b, .bin _ a' b' => sameDeps a a' && sameDeps b b'
  | .ite c a b, .ite c' a' b' => sameDeps c c' && sameDeps a a' && sameDeps b b'
  | _, _ => true
def sameDepsDefs : Defs → Defs → Bool
  | .cons _ a d r, .cons _ a' d' r' => sameDeps a a' && sameDeps d d' && sameDepsDefs r r'
  | _, _ => true
end
