/-!
# Syntax of gram terms (model of `src/term.rs`)

`Tm` mirrors `term::Variant`.  The nine binary operators of the Rust enum are one constructor
`bin op a b`; names are opaque identifiers (`Nat`, interned by the harness) because no semantic
function of the code ever compares them (that fact is itself a theorem, `C19`).  A unification hole
`Unifier(cell, shift)` is `hole id shift`, where `id` identifies the `Rc<RefCell<..>>` cell; the
contents of cells live in an explicit store (see `Store.lean`).  Source ranges are not part of the
semantic term; they are modelled separately where a property speaks about them.
-/

inductive BinOp
  | sum | diff | prod | quot | lt | le | eq | gt | ge
deriving DecidableEq, Repr, Inhabited

abbrev Name := Nat

mutual
inductive Tm : Type
  | hole (id : Nat) (shift : Nat)
  | type | int | bool | tt | ff
  | lit (n : Int)
  | var (name : Name) (i : Nat)
  | lam (name : Name) (imp : Bool) (dom body : Tm)
  | pi (name : Name) (imp : Bool) (dom cod : Tm)
  | app (f a : Tm)
  | letg (defs : Defs) (body : Tm)
  | neg (a : Tm)
  | bin (op : BinOp) (a b : Tm)
  | ite (c t e : Tm)
inductive Defs : Type
  | nil
  | cons (name : Name) (ann defn : Tm) (rest : Defs)
end

instance : Inhabited Tm := ⟨.type⟩
instance : Inhabited Defs := ⟨.nil⟩

mutual
def Tm.beq : Tm → Tm → Bool
  | .hole i s, .hole j r => i == j && s == r
  | .type, .type | .int, .int | .bool, .bool | .tt, .tt | .ff, .ff => true
  | .lit n, .lit m => n == m
  | .var x i, .var y j => x == y && i == j
  | .lam x im d b, .lam y jm e c => x == y && im == jm && Tm.beq d e && Tm.beq b c
  | .pi x im d b, .pi y jm e c => x == y && im == jm && Tm.beq d e && Tm.beq b c
  | .app f a, .app g b => Tm.beq f g && Tm.beq a b
  | .letg ds b, .letg es c => Defs.beq ds es && Tm.beq b c
  | .neg a, .neg b => Tm.beq a b
  | .bin o a b, .bin p c d => o == p && Tm.beq a c && Tm.beq b d
  | .ite a b c, .ite d e f => Tm.beq a d && Tm.beq b e && Tm.beq c f
  | _, _ => false
def Defs.beq : Defs → Defs → Bool
  | .nil, .nil => true
  | .cons x a d r, .cons y b e s => x == y && Tm.beq a b && Tm.beq d e && Defs.beq r s
  | _, _ => false
end

instance : BEq Tm := ⟨Tm.beq⟩
instance : BEq Defs := ⟨Defs.beq⟩

mutual
def Tm.size : Tm → Nat
  | .lam _ _ d b => d.size + b.size + 1
  | .pi _ _ d b => d.size + b.size + 1
  | .app f a => f.size + a.size + 1
  | .letg ds b => ds.size + b.size + 1
  | .neg a => a.size + 1
  | .bin _ a b => a.size + b.size + 1
  | .ite c t e => c.size + t.size + e.size + 1
  | _ => 1
def Defs.size : Defs → Nat
  | .nil => 0
  | .cons _ a d r => a.size + d.size + r.size + 1
end

def Defs.len : Defs → Nat
  | .nil => 0
  | .cons _ _ _ r => r.len + 1

def Defs.toList : Defs → List (Name × Tm × Tm)
  | .nil => []
  | .cons x a d r => (x, a, d) :: r.toList

def Defs.ofList : List (Name × Tm × Tm) → Defs
  | [] => .nil
  | (x, a, d) :: r => .cons x a d (Defs.ofList r)

def Defs.append : Defs → Defs → Defs
  | .nil, e => e
  | .cons x a d r, e => .cons x a d (r.append e)

@[simp] theorem Defs.len_nil : Defs.nil.len = 0 := rfl
@[simp] theorem Defs.len_cons (x a d r) : (Defs.cons x a d r).len = r.len + 1 := rfl

-- `holeFree`: no hole occurs in the term.
mutual
def Tm.holeFree : Tm → Bool
  | .hole _ _ => false
  | .lam _ _ d b => d.holeFree && b.holeFree
  | .pi _ _ d b => d.holeFree && b.holeFree
  | .app f a => f.holeFree && a.holeFree
  | .letg ds b => ds.holeFree && b.holeFree
  | .neg a => a.holeFree
  | .bin _ a b => a.holeFree && b.holeFree
  | .ite c t e => c.holeFree && t.holeFree && e.holeFree
  | _ => true
def Defs.holeFree : Defs → Bool
  | .nil => true
  | .cons _ a d r => a.holeFree && d.holeFree && r.holeFree
end
