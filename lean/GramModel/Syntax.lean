/-!
# Syntax of gram terms (model of `src/term.rs`)

`Tm` mirrors `term::Variant`.  The nine binary operators of the Rust enum are one constructor
`bin op a b`; names are opaque identifiers (`Nat`, interned by the harness) because no semantic
function of the code ever compares them (that fact is itself a theorem, `C19`).  A unification hole
`Unifier(cell, shift)` is `hole id shift`, where `id` identifies the `Rc<RefCell<..>>` cell; the
contents of cells live in an explicit store (see `Store.lean`).  Source ranges are not part of the
semantic term; they are modelled separately where a property speaks about them.
-/

inductive BinOp
  | sum | diff | prod | quot | lt | le | eq | gt | ge
deriving DecidableEq, Repr, Inhabited

abbrev Name := Nat

mutual
inductive Tm : Type
  | hole (id : Nat) (shift : Nat)
  | type | int | bool | tt | ff
  | lit (n : Int)
  | var (name : Name) (i : Nat)
  | lam (name : Name) (imp : Bool) (dom body : Tm)
  | pi (name : Name) (imp : Bool) (dom cod : Tm)
  | app (f a : Tm)
  | letg (defs : Defs) (body : Tm)
  | neg (a : Tm)
  | bin (op : BinOp) (a b : Tm)
  | ite (c t e : Tm)
inductive Defs : Type
  | nil
  | cons (name : Name) (ann defn : Tm) (rest : Defs)
end

instance : Inhabited Tm := ⟨.type⟩
instance : Inhabited Defs := ⟨.nil⟩

mutual
def Tm.beq : Tm → Tm → Bool
  | .hole i s, .hole j r => i == j && s == r
  | .type, .type | .int, .int | .bool, .bool | .tt, .tt | .ff, .ff => true
  | .lit n, .lit m => n == m
  | .var x i, .var y j => x == y && i == j
  | .lam x im d b, .lam y jm e c => x == y && im == jm && Tm.beq d e && Tm.beq b c
  | .pi x im d b, .pi y jm e c => x == y && im == jm && Tm.beq d e && Tm.beq b c
  | .app f a, .app g b => Tm.beq f g && Tm.beq a b
  | .letg ds b, .letg es c => Defs.beq ds es && Tm.beq b c
  | .neg a, .neg b => Tm.beq a b
  | .bin o a b, .bin p c d => o == p && Tm.beq a c && Tm.beq b d
  | .ite a b c, .ite d e f => Tm.beq a d && Tm.beq b e && Tm.beq c f
  | _, _ => false
def Defs.beq : Defs → Defs → Bool
  | .nil, .nil => true
  | .cons x a d r, .cons y b e s => x == y && Tm.beq a b && Tm.beq d e && Defs.beq r s
  | _, _ => false
end

instance : BEq Tm := ⟨Tm.beq⟩
instance : BEq Defs := ⟨Defs.beq⟩

mutual
def Tm.size : Tm → Nat
  | .lam _ _ d b => d.size + b.size + 1
  | .pi _ _ d b => d.size + b.size + 1
  | .app f a => f.size + a.size + 1
  | .letg ds b => ds.size + b.size + 1
  | .neg a => a.size + 1
  | .bin _ a b => a.size + b.size + 1
  | .ite c t e => c.size + t.size + e.size + 1
  | _ => 1
def Defs.size : Defs → Nat
  | .nil => 0
  | .cons _ a d r => a.size + d.size + r.size + 1
end

def Defs.len : Defs → Nat
  | .nil => 0
  | .cons _ _ _ r => r.len + 1

def Defs.toList : Defs → List (Name × Tm × Tm)
  | .nil => []
  | .cons x a d r => (x, a, d) :: r.toList

def Defs.ofList : List (Name × Tm × Tm) → Defs
  | [] => .nil
  | (x, a, d) :: r => .cons x a d (Defs.ofList r)

def Defs.append : Defs → Defs → Defs
  | .nil, e => e
  | .cons x a d r, e => .cons x a d (r.append e)

@[simp] theorem Defs.len_nil : Defs.nil.len = 0 := rfl
@[simp] theorem Defs.len_cons (x a d r) : (Defs.cons x a d r).len = r.len + 1 := rfl

-- `holeFree`: no hole occurs in the term.
mutual
def Tm.holeFree : Tm → Bool
  | .hole _ _ => false
  | .lam _ _ d b => d.holeFree && b.holeFree
  | .pi _ _ d b => d.holeFree && b.holeFree
  | .app f a => f.holeFree && a.holeFree
  | .letg ds b => ds.holeFree && b.holeFree
  | .neg a => a.holeFree
  | .bin _ a b => a.holeFree && b.holeFree
  | .ite c t e => c.holeFree && t.holeFree && e.holeFree
  | _ => true
def Defs.holeFree : Defs → Bool
  | .nil => true
  | .cons _ a d r => a.holeFree && d.holeFree && r.holeFree
end

mutual
theorem Tm.eq_of_beq : ∀ (a b : Tm), Tm.beq a b = true → a = b
  | .hole i s, .hole j r, h => by simp [Tm.beq] at h; simp [h]
  | .type, .type, _ | .int, .int, _ | .bool, .bool, _ | .tt, .tt, _ | .ff, .ff, _ => rfl
  | .lit n, .lit m, h => by simp [Tm.beq] at h; simp [h]
  | .var x i, .var y j, h => by simp [Tm.beq] at h; simp [h]
  | .lam x im d b, .lam y jm e c, h => by
      simp [Tm.beq] at h
      obtain ⟨⟨⟨h1, h2⟩, h3⟩, h4⟩ := h
      simp [h1, h2, Tm.eq_of_beq d e h3, Tm.eq_of_beq b c h4]
  | .pi x im d b, .pi y jm e c, h => by
      simp [Tm.beq] at h
      obtain ⟨⟨⟨h1, h2⟩, h3⟩, h4⟩ := h
      simp [h1, h2, Tm.eq_of_beq d e h3, Tm.eq_of_beq b c h4]
  | .app f a, .app g b, h => by
      simp [Tm.beq] at h
      simp [Tm.eq_of_beq f g h.1, Tm.eq_of_beq a b h.2]
  | .letg ds b, .letg es c, h => by
      simp [Tm.beq] at h
      simp [Defs.eq_of_beq ds es h.1, Tm.eq_of_beq b c h.2]
  | .neg a, .neg b, h => by
      simp [Tm.beq] at h
      simp [Tm.eq_of_beq a b h]
  | .bin o a b, .bin p c d, h => by
      simp [Tm.beq] at h
      obtain ⟨⟨h1, h2⟩, h3⟩ := h
      simp [h1, Tm.eq_of_beq a c h2, Tm.eq_of_beq b d h3]
  | .ite a b c, .ite d e f, h => by
      simp [Tm.beq] at h
      obtain ⟨⟨h1, h2⟩, h3⟩ := h
      simp [Tm.eq_of_beq a d h1, Tm.eq_of_beq b e h2, Tm.eq_of_beq c f h3]
  | .hole .., .type, h | .hole .., .int, h | .hole .., .bool, h | .hole .., .tt, h
  | .hole .., .ff, h | .hole .., .lit _, h | .hole .., .var .., h | .hole .., .lam .., h
  | .hole .., .pi .., h | .hole .., .app .., h | .hole .., .letg .., h | .hole .., .neg _, h
  | .hole .., .bin .., h | .hole .., .ite .., h => by simp [Tm.beq] at h
  | .type, .hole .., h | .type, .int, h | .type, .bool, h | .type, .tt, h
  | .type, .ff, h | .type, .lit _, h | .type, .var .., h | .type, .lam .., h
  | .type, .pi .., h | .type, .app .., h | .type, .letg .., h | .type, .neg _, h
  | .type, .bin .., h | .type, .ite .., h => by simp [Tm.beq] at h
  | .int, .hole .., h | .int, .type, h | .int, .bool, h | .int, .tt, h
  | .int, .ff, h | .int, .lit _, h | .int, .var .., h | .int, .lam .., h
  | .int, .pi .., h | .int, .app .., h | .int, .letg .., h | .int, .neg _, h
  | .int, .bin .., h | .int, .ite .., h => by simp [Tm.beq] at h
  | .bool, .hole .., h | .bool, .type, h | .bool, .int, h | .bool, .tt, h
  | .bool, .ff, h | .bool, .lit _, h | .bool, .var .., h | .bool, .lam .., h
  | .bool, .pi .., h | .bool, .app .., h | .bool, .letg .., h | .bool, .neg _, h
  | .bool, .bin .., h | .bool, .ite .., h => by simp [Tm.beq] at h
  | .tt, .hole .., h | .tt, .type, h | .tt, .int, h | .tt, .bool, h
  | .tt, .ff, h | .tt, .lit _, h | .tt, .var .., h | .tt, .lam .., h
  | .tt, .pi .., h | .tt, .app .., h | .tt, .letg .., h | .tt, .neg _, h
  | .tt, .bin .., h | .tt, .ite .., h => by simp [Tm.beq] at h
  | .ff, .hole .., h | .ff, .type, h | .ff, .int, h | .ff, .bool, h
  | .ff, .tt, h | .ff, .lit _, h | .ff, .var .., h | .ff, .lam .., h
  | .ff, .pi .., h | .ff, .app .., h | .ff, .letg .., h | .ff, .neg _, h
  | .ff, .bin .., h | .ff, .ite .., h => by simp [Tm.beq] at h
  | .lit _, .hole .., h | .lit _, .type, h | .lit _, .int, h | .lit _, .bool, h
  | .lit _, .tt, h | .lit _, .ff, h | .lit _, .var .., h | .lit _, .lam .., h
  | .lit _, .pi .., h | .lit _, .app .., h | .lit _, .letg .., h | .lit _, .neg _, h
  | .lit _, .bin .., h | .lit _, .ite .., h => by simp [Tm.beq] at h
  | .var .., .hole .., h | .var .., .type, h | .var .., .int, h | .var .., .bool, h
  | .var .., .tt, h | .var .., .ff, h | .var .., .lit _, h | .var .., .lam .., h
  | .var .., .pi .., h | .var .., .app .., h | .var .., .letg .., h | .var .., .neg _, h
  | .var .., .bin .., h | .var .., .ite .., h => by simp [Tm.beq] at h
  | .lam .., .hole .., h | .lam .., .type, h | .lam .., .int, h | .lam .., .bool, h
  | .lam .., .tt, h | .lam .., .ff, h | .lam .., .lit _, h | .lam .., .var .., h
  | .lam .., .pi .., h | .lam .., .app .., h | .lam .., .letg .., h | .lam .., .neg _, h
  | .lam .., .bin .., h | .lam .., .ite .., h => by simp [Tm.beq] at h
  | .pi .., .hole .., h | .pi .., .type, h | .pi .., .int, h | .pi .., .bool, h
  | .pi .., .tt, h | .pi .., .ff, h | .pi .., .lit _, h | .pi .., .var .., h
  | .pi .., .lam .., h | .pi .., .app .., h | .pi .., .letg .., h | .pi .., .neg _, h
  | .pi .., .bin .., h | .pi .., .ite .., h => by simp [Tm.beq] at h
  | .app .., .hole .., h | .app .., .type, h | .app .., .int, h | .app .., .bool, h
  | .app .., .tt, h | .app .., .ff, h | .app .., .lit _, h | .app .., .var .., h
  | .app .., .lam .., h | .app .., .pi .., h | .app .., .letg .., h | .app .., .neg _, h
  | .app .., .bin .., h | .app .., .ite .., h => by simp [Tm.beq] at h
  | .letg .., .hole .., h | .letg .., .type, h | .letg .., .int, h | .letg .., .bool, h
  | .letg .., .tt, h | .letg .., .ff, h | .letg .., .lit _, h | .letg .., .var .., h
  | .letg .., .lam .., h | .letg .., .pi .., h | .letg .., .app .., h | .letg .., .neg _, h
  | .letg .., .bin .., h | .letg .., .ite .., h => by simp [Tm.beq] at h
  | .neg _, .hole .., h | .neg _, .type, h | .neg _, .int, h | .neg _, .bool, h
  | .neg _, .tt, h | .neg _, .ff, h | .neg _, .lit _, h | .neg _, .var .., h
  | .neg _, .lam .., h | .neg _, .pi .., h | .neg _, .app .., h | .neg _, .letg .., h
  | .neg _, .bin .., h | .neg _, .ite .., h => by simp [Tm.beq] at h
  | .bin .., .hole .., h | .bin .., .type, h | .bin .., .int, h | .bin .., .bool, h
  | .bin .., .tt, h | .bin .., .ff, h | .bin .., .lit _, h | .bin .., .var .., h
  | .bin .., .lam .., h | .bin .., .pi .., h | .bin .., .app .., h | .bin .., .letg .., h
  | .bin .., .neg _, h | .bin .., .ite .., h => by simp [Tm.beq] at h
  | .ite .., .hole .., h | .ite .., .type, h | .ite .., .int, h | .ite .., .bool, h
  | .ite .., .tt, h | .ite .., .ff, h | .ite .., .lit _, h | .ite .., .var .., h
  | .ite .., .lam .., h | .ite .., .pi .., h | .ite .., .app .., h | .ite .., .letg .., h
  | .ite .., .neg _, h | .ite .., .bin .., h => by simp [Tm.beq] at h
theorem Defs.eq_of_beq : ∀ (a b : Defs), Defs.beq a b = true → a = b
  | .nil, .nil, _ => rfl
  | .cons x a d r, .cons y b e s, h => by
      simp [Defs.beq] at h
      obtain ⟨⟨⟨h1, h2⟩, h3⟩, h4⟩ := h
      simp [h1, Tm.eq_of_beq a b h2, Tm.eq_of_beq d e h3, Defs.eq_of_beq r s h4]
  | .nil, .cons .., h | .cons .., .nil, h => by simp [Defs.beq] at h
end

mutual
theorem Tm.beq_refl : ∀ (a : Tm), Tm.beq a a = true
  | .hole .. | .type | .int | .bool | .tt | .ff | .lit _ | .var .. => by simp [Tm.beq]
  | .lam _ _ d b => by simp [Tm.beq, Tm.beq_refl d, Tm.beq_refl b]
  | .pi _ _ d b => by simp [Tm.beq, Tm.beq_refl d, Tm.beq_refl b]
  | .app f a => by simp [Tm.beq, Tm.beq_refl f, Tm.beq_refl a]
  | .letg ds b => by simp [Tm.beq, Defs.beq_refl ds, Tm.beq_refl b]
  | .neg a => by simp [Tm.beq, Tm.beq_refl a]
  | .bin _ a b => by simp [Tm.beq, Tm.beq_refl a, Tm.beq_refl b]
  | .ite a b c => by simp [Tm.beq, Tm.beq_refl a, Tm.beq_refl b, Tm.beq_refl c]
theorem Defs.beq_refl : ∀ (a : Defs), Defs.beq a a = true
  | .nil => by simp [Defs.beq]
  | .cons _ a d r => by simp [Defs.beq, Tm.beq_refl a, Tm.beq_refl d, Defs.beq_refl r]
end

instance : DecidableEq Tm := fun a b =>
  if h : Tm.beq a b = true then isTrue (Tm.eq_of_beq a b h)
  else isFalse (fun e => h (e ▸ Tm.beq_refl a))

instance : DecidableEq Defs := fun a b =>
  if h : Defs.beq a b = true then isTrue (Defs.eq_of_beq a b h)
  else isFalse (fun e => h (e ▸ Defs.beq_refl a))
