import GramModel.Store

/-!
# `syntactically_equal`, `unify`, `type_check_rec` (models of `equality.rs`, `unifier.rs`,
`type_checker.rs`), in the store layer.
-/

/-- follow resolved cells at the head (`loop { if let Unifier(Some sub) ... }`) -/
def derefS : Nat → Tm → M Tm
  | 0, _ => outOfFuel
  | f+1, t =>
    match t with
    | .hole id s => do
        match ← cellGet id with
        | some sub => do
            let sub' ← ushiftS f 0 s sub
            derefS f sub'
        | none => pure t
    | t => pure t

mutual
def synEqS : Nat → Tm → Tm → M Bool
  | 0, _, _ => outOfFuel
  | f+1, t1, t2 => do
    let a ← derefS f t1
    let b ← derefS f t2
    match a, b with
    | .hole i s, .hole j r => pure (i == j && s == r)
    | .type, .type | .int, .int | .bool, .bool | .tt, .tt | .ff, .ff => pure true
    | .var _ i, .var _ j => pure (i == j)
    | .lam _ im _ b1, .lam _ jm _ b2 =>
        if im == jm then synEqS f b1 b2 else pure false
    | .pi _ im d1 c1, .pi _ jm d2 c2 =>
        if im == jm then do
          if ← synEqS f d1 d2 then synEqS f c1 c2 else pure false
        else pure false
    | .app f1 a1, .app f2 a2 => do
        if ← synEqS f f1 f2 then synEqS f a1 a2 else pure false
    | .letg ds1 b1, .letg ds2 b2 =>
        if ds1.len == ds2.len then do
          if ← synEqDefsS f ds1 ds2 then synEqS f b1 b2 else pure false
        else pure false
    | .lit n, .lit m => pure (n == m)
    | .neg a1, .neg a2 => synEqS f a1 a2
    | .bin o1 a1 b1, .bin o2 a2 b2 =>
        if o1 == o2 then do
          if ← synEqS f a1 a2 then synEqS f b1 b2 else pure false
        else pure false
    | .ite c1 a1 b1, .ite c2 a2 b2 => do
        if ← synEqS f c1 c2 then
          if ← synEqS f a1 a2 then synEqS f b1 b2 else pure false
        else pure false
    | _, _ => pure false
/-- definitions are compared pairwise (annotations are not) -/
def synEqDefsS : Nat → Defs → Defs → M Bool
  | 0, _, _ => outOfFuel
  | f+1, ds1, ds2 =>
    match ds1, ds2 with
    | .nil, .nil => pure true
    | .cons _ _ d1 r1, .cons _ _ d2 r2 => do
        if ← synEqS f d1 d2 then synEqDefsS f r1 r2 else pure false
    | _, _ => pure false
end

-- `collect_unifiers` as used by the occurs check: does the unresolved cell `id` occur in `t`,
-- following resolved cells (by identity only, no shifting)?
mutual
def occursS : Nat → Nat → Tm → M Bool
  | 0, _, _ => outOfFuel
  | f+1, id, t =>
    match t with
    | .hole j _ => do
        match ← cellGet j with
        | some sub => occursS f id sub
        | none => pure (j == id)
    | .lam _ _ d b => do
        if ← occursS f id d then pure true else occursS f id b
    | .pi _ _ d b => do
        if ← occursS f id d then pure true else occursS f id b
    | .app g a => do
        if ← occursS f id g then pure true else occursS f id a
    | .letg ds b => do
        if ← occursDefsS f id ds then pure true else occursS f id b
    | .neg a => occursS f id a
    | .bin _ a b => do
        if ← occursS f id a then pure true else occursS f id b
    | .ite c a b => do
        if ← occursS f id c then pure true
        else if ← occursS f id a then pure true else occursS f id b
    | _ => pure false
def occursDefsS : Nat → Nat → Defs → M Bool
  | 0, _, _ => outOfFuel
  | f+1, id, ds =>
    match ds with
    | .nil => pure false
    | .cons _ a d r => do
        if ← occursS f id a then pure true
        else if ← occursS f id d then pure true else occursDefsS f id r
end

/-- try to solve the unresolved cell `(id, shift)` with `other` (already in weak head normal form):
`none` = the guard `signed_shift(other, 0, -shift).is_some()` failed, so the arm is not taken. -/
def solveS (f : Nat) (id shift : Nat) (other : Tm) : M (Option Bool) := do
  match ← sshiftS f 0 (-(shift : Int)) other with
  | none => pure none
  | some _ =>
      if ← occursS f id other then pure (some false)
      else do
        -- the Rust recomputes the shifted term after the occurs check
        match ← sshiftS f 0 (-(shift : Int)) other with
        | some sol => do cellSet id sol; pure (some true)
        | none => pure (some true)

def unifyS : Nat → Tm → Tm → M Bool
  | 0, _, _ => outOfFuel
  | f+1, t1, t2 => do
    if ← synEqS f t1 t2 then pure true
    else do
      let w1 ← whnfS f t1
      let w2 ← whnfS f t2
      let structural : M Bool :=
        match w1, w2 with
        | .type, .type | .int, .int | .bool, .bool | .tt, .tt | .ff, .ff => pure true
        | .var _ i, .var _ j => pure (i == j)
        | .lam _ im _ b1, .lam _ jm _ b2 =>
            if im == jm then do
              pushD none
              let r ← unifyS f b1 b2
              popD
              pure r
            else pure false
        | .pi _ im d1 c1, .pi _ jm d2 c2 =>
            if im == jm then do
              if ← unifyS f d1 d2 then do
                pushD none
                let r ← unifyS f c1 c2
                popD
                pure r
              else pure false
            else pure false
        | .app f1 a1, .app f2 a2 => do
            if ← unifyS f f1 f2 then unifyS f a1 a2 else pure false
        | .lit n, .lit m => pure (n == m)
        | .neg a1, .neg a2 => unifyS f a1 a2
        | .bin o1 a1 b1, .bin o2 a2 b2 =>
            if o1 == o2 then do
              if ← unifyS f a1 a2 then unifyS f b1 b2 else pure false
            else pure false
        | .ite c1 a1 b1, .ite c2 a2 b2 => do
            if ← unifyS f c1 c2 then
              if ← unifyS f a1 a2 then unifyS f b1 b2 else pure false
            else pure false
        | .letg .., _ => panicAt "unify.let_after_whnf"
        | _, .letg .. => panicAt "unify.let_after_whnf"
        | _, _ => pure false
      let rightHole : M Bool :=
        match w2 with
        | .hole j r => do
            match ← solveS f j r w1 with
            | some b => pure b
            | none => structural
        | _ => structural
      match w1, w2 with
      | .hole i s, .hole j r =>
          if i == j && s == r then pure true
          else do
            match ← solveS f i s w2 with
            | some b => pure b
            | none => rightHole
      | .hole i s, _ => do
          match ← solveS f i s w2 with
          | some b => pure b
          | none => rightHole
      | _, _ => rightHole

/-- fold of the group rule: `acc := open(acc, 0, Let(defs shifted by n-1-i at cutoff n, x_{n-1-i}), 0)` -/
def letTypeS (f : Nat) (ds : Defs) : Nat → Nat → Tm → M Tm
  | 0, _, acc => pure acc
  | k+1, i, acc => do
      let n := ds.len
      let amount := n - 1 - i
      let shifted ← (do
        match ← sshiftDefsS f n (amount : Int) ds with
        | some d => pure d
        | none => panicAt "unsigned_shift.unwrap")
      let name := match (ds.toList[amount]?) with
        | some (x, _, _) => x
        | none => 0
      let acc' ← openS f acc 0 (.letg shifted (.var name i)) 0
      letTypeS f ds k (i + 1) acc'

def Defs.setDefs : Defs → List Tm → Defs
  | .cons x a _ r, d :: ds => .cons x a d (Defs.setDefs r ds)
  | ds, _ => ds

mutual
def inferS : Nat → Tm → M (Tm × Tm)
  | 0, _ => outOfFuel
  | f+1, t =>
    match t with
    | .hole .. | .type | .int | .bool => pure (t, .type)
    | .var _ i => do
        let st ← getSt
        match st.tctx[i]? with
        | none => panicAt "type_check.typing_context[index]"
        | some (ty, off) =>
            if i + 1 < off then panicAt "type_check.index+1-offset"
            else do
              let ty' ← ushiftS f 0 (i + 1 - off) ty
              pure (t, ty')
    | .lam x im d b => do
        let (d', dty) ← inferS f d
        if !(← unifyS f dty .type) then reportError
        pushCtx (d', 0) none
        let (b', cod) ← inferS f b
        popCtx
        pure (.lam x im d' b', .pi x im d' cod)
    | .pi x im d c => do
        let (d', dty) ← inferS f d
        if !(← unifyS f dty .type) then reportError
        pushCtx (d', 0) none
        let (c', cty) ← inferS f c
        if !(← unifyS f cty .type) then reportError
        popCtx
        pure (.pi x im d' c', .type)
    | .app g a => do
        let (g', gty) ← inferS f g
        let dom := Tm.hole (← cellFresh) 0
        let cod := Tm.hole (← cellFresh) 0
        if !(← unifyS f (.pi 0 false dom cod) gty) then reportError
        let (a', aty) ← inferS f a
        if !(← unifyS f dom aty) then reportError
        let ty ← openS f cod 0 a' 0
        pure (.app g' a', ty)
    | .letg ds body => do
        let n := ds.len
        pushDefsS ds n
        let ds' ← inferDefsS f ds
        let (body', bty) ← inferS f body
        let ds'' := Defs.setDefs ds ds'
        let ty ← letTypeS f ds'' n 0 bty
        popN n
        pure (.letg ds'' body', ty)
    | .lit _ => pure (t, .int)
    | .neg a => do
        let (a', aty) ← inferS f a
        if !(← unifyS f aty .int) then reportError
        pure (.neg a', .int)
    | .bin op a b => do
        let (a', aty) ← inferS f a
        if !(← unifyS f aty .int) then reportError
        let (b', bty) ← inferS f b
        if !(← unifyS f bty .int) then reportError
        let rty : Tm := match op with
          | .sum | .diff | .prod | .quot => .int
          | _ => .bool
        pure (.bin op a' b', rty)
    | .ite c a b => do
        let (c', cty) ← inferS f c
        if !(← unifyS f cty .bool) then reportError
        let (a', aty) ← inferS f a
        let (b', bty) ← inferS f b
        if !(← unifyS f aty bty) then reportError
        pure (.ite c' a' b', aty)
    | .tt | .ff => pure (t, .bool)
/-- check the definitions of a group in order: annotation must be a type, definition's type must
unify with the annotation; returns the elaborated definitions -/
def inferDefsS : Nat → Defs → M (List Tm)
  | 0, _ => outOfFuel
  | f+1, ds =>
    match ds with
    | .nil => pure []
    | .cons _ ann d r => do
        let (_, annTy) ← inferS f ann
        if !(← unifyS f annTy .type) then reportError
        let (d', dty) ← inferS f d
        if !(← unifyS f dty ann) then reportError
        let rest ← inferDefsS f r
        pure (d' :: rest)
/-- push the entries of a group: definition i gets `(annotation_i, n - i)` / `Some (definition_i, n - i)` -/
def pushDefsS : Defs → Nat → M Unit
  | .nil, _ => pure ()
  | .cons _ ann d r, k => do
      pushCtx (ann, k) (some (d, k))
      pushDefsS r (k - 1)
def popN : Nat → M Unit
  | 0 => pure ()
  | k+1 => do popCtx; popN k
end
