def hello := "world"
