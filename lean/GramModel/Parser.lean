import GramModel.Syntax
import GramModel.DeBruijn
import GramModel.Eval
import Std.Data.HashMap

/-!
# Parser (model of `src/parser.rs`)

An executable model of gram's packrat parser, function by function:

* §1  tokens (`token::Token`), source ranges, the private surface tree `parser::Term` (`Src`);
* §2  the memo table (`Cache`), the hit/miss hook of `cache_check!`, the parse monad;
* §3  the macros `consume_token_*!`, `expect_token_*!`, `try_return!`, `try_eval!`;
* §4  the 36 `parse_*` functions (non-recursive bodies, parameterised by the recursive call) and
      the fuel-indexed knot `parseNT`;
* §5  `collect_error_factories`;
* §6  the three re-association passes;
* §7  `resolve_variables` / `collect_definitions` (output `RTm`, a `term::Term` with ranges);
* §8  `check_definitions` / `check_definition`;
* §9  `parse` (`parseModel`).

An error is represented by the list of source ranges it passes to `error::listing` when its message
is rendered (one range, or two for "This parenthesis was never closed ... expected to be closed
before"); message texts are not modelled.  Where the Rust would `panic!` the model returns the
distinct outcome `Fail.panic`; running out of recursion fuel is the distinct outcome
`Fail.outOfFuel` (parse phase: `none` of `ParseM`).
-/

namespace PModel

/-! ## §1 Tokens, ranges, surface tree -/

/-- `error::SourceRange` (byte offsets, `end` exclusive). -/
structure SourceRange where
  start : Nat
  stop : Nat
deriving DecidableEq, Repr, Inhabited

/-- `span(x, y)`. -/
def span (x y : SourceRange) : SourceRange := ⟨x.start, y.stop⟩

/-- `token::TerminatorType`. -/
inductive TerminatorType
  | lineBreak | semicolon
deriving DecidableEq, Repr, Inhabited

/-- `token::Variant`; identifiers carry their interned name (`_` is name 0). -/
inductive PKind
  | asterisk | boolean | colon | doubleEquals | else_ | equals | false_ | greaterThan
  | greaterThanOrEqualTo | identifier (x : Name) | if_ | integer | integerLiteral (n : Nat)
  | leftCurly | leftParen | lessThan | lessThanOrEqualTo | minus | plus | rightCurly | rightParen
  | slash | terminator (t : TerminatorType) | then_ | thickArrow | thinArrow | true_ | type_
deriving DecidableEq, Repr, Inhabited

/-- Same numbering as `TokKind.tag` (`Token.lean`) and the harness. -/
def PKind.tag : PKind → Nat
  | .asterisk => 0 | .boolean => 1 | .colon => 2 | .doubleEquals => 3 | .else_ => 4 | .equals => 5
  | .false_ => 6 | .greaterThan => 7 | .greaterThanOrEqualTo => 8 | .identifier _ => 9 | .if_ => 10
  | .integer => 11 | .integerLiteral _ => 12 | .leftCurly => 13 | .leftParen => 14 | .lessThan => 15
  | .lessThanOrEqualTo => 16 | .minus => 17 | .plus => 18 | .rightCurly => 19 | .rightParen => 20
  | .slash => 21 | .terminator .lineBreak => 22 | .terminator .semicolon => 23 | .then_ => 24
  | .thickArrow => 25 | .thinArrow => 26 | .true_ => 27 | .type_ => 28

/-- `token::Token`. -/
structure PTok where
  kind : PKind
  range : SourceRange
deriving DecidableEq, Repr, Inhabited

/-- `PLACEHOLDER_VARIABLE` (`"_"`): the harness interns it as name 0. -/
def placeholder : Name := 0

/-- `token_source_range(tokens, position)`.  (The Rust indexes `tokens[position]` and would panic
for `position > tokens.len()`; no caller produces such a position, the model returns the
end-of-file range there too.) -/
def tokenRange (toks : Array PTok) (pos : Nat) : SourceRange :=
  if h : pos < toks.size then toks[pos].range
  else match toks.back? with
    | some t => ⟨t.range.stop, t.range.stop⟩
    | none => ⟨0, 0⟩

/-- `empty_source_range(tokens, position)`. -/
def emptyRange (toks : Array PTok) (pos : Nat) : SourceRange :=
  let r := tokenRange toks pos
  ⟨r.start, r.start⟩

/-- An `ErrorFactory`, reduced to the ranges it passes to `listing` (in order). -/
abbrev PErr := List SourceRange

/-- `error_factory(tokens, position, _)`: one listing, of `token_source_range`. -/
def errorFactory (toks : Array PTok) (pos : Nat) : PErr := [tokenRange toks pos]

/-- `SourceVariable`. -/
structure SrcVar where
  range : SourceRange
  name : Name
deriving DecidableEq, Repr, Inhabited

mutual
/-- The parser's private `Term` struct. -/
inductive Src : Type
  | mk (range : SourceRange) (group : Bool) (variant : SrcV) (errors : List PErr)
/-- The parser's private `Variant` enum (the nine binary operators are one constructor). -/
inductive SrcV : Type
  | parseError
  | type
  | var (x : Name)
  | lam (v : SrcVar) (imp : Bool) (dom : OptSrc) (body : Src)
  | pi (v : SrcVar) (imp : Bool) (dom : Src) (cod : Src)
  | app (f a : Src)
  | let_ (v : SrcVar) (ann : OptSrc) (defn : Src) (body : Src)
  | int
  | lit (n : Int)
  | neg (a : Src)
  | bin (op : BinOp) (a b : Src)
  | bool | tt | ff
  | ite (c t e : Src)
/-- `Option<Rc<Term>>`. -/
inductive OptSrc : Type
  | none
  | some (t : Src)
end

instance : Inhabited Src := ⟨.mk ⟨0, 0⟩ false .parseError []⟩

def Src.range : Src → SourceRange | .mk r _ _ _ => r
def Src.group : Src → Bool | .mk _ g _ _ => g
def Src.variant : Src → SrcV | .mk _ _ v _ => v
def Src.errors : Src → List PErr | .mk _ _ _ e => e

def SrcV.isParseError : SrcV → Bool
  | .parseError => true
  | _ => false

def Src.isParseError (t : Src) : Bool := t.variant.isParseError

def OptSrc.isSome : OptSrc → Bool
  | .none => false
  | .some _ => true

/-- `error_term(tokens, position, _)`. -/
def errorTerm (toks : Array PTok) (pos : Nat) : Src :=
  .mk (emptyRange toks pos) false .parseError [errorFactory toks pos]

/-- The error-less `ParseError` placeholder built by `parse_let` / `parse_if` when a branch is
skipped. -/
def skippedTerm (toks : Array PTok) (pos : Nat) : Src :=
  .mk (emptyRange toks pos) false .parseError []

/-! ## §2 Nonterminals, memo table, parse monad -/

/-- `enum Nonterminal`, in declaration order. -/
inductive NT
  | term | type | variable | lambda | lambdaImplicit | annotatedLambda | annotatedLambdaImplicit
  | pi | piImplicit | nonDependentPi | application | let_ | integer | integerLiteral | negation
  | sum | difference | product | quotient | lessThan | lessThanOrEqualTo | equalTo | greaterThan
  | greaterThanOrEqualTo | boolean | true_ | false_ | if_ | group | atom | smallTerm | mediumTerm
  | largeTerm | hugeTerm | giantTerm | jumboTerm
deriving DecidableEq, Repr, Inhabited

/-- `Nonterminal as usize`. -/
def NT.idx : NT → Nat
  | .term => 0 | .type => 1 | .variable => 2 | .lambda => 3 | .lambdaImplicit => 4
  | .annotatedLambda => 5 | .annotatedLambdaImplicit => 6 | .pi => 7 | .piImplicit => 8
  | .nonDependentPi => 9 | .application => 10 | .let_ => 11 | .integer => 12
  | .integerLiteral => 13 | .negation => 14 | .sum => 15 | .difference => 16 | .product => 17
  | .quotient => 18 | .lessThan => 19 | .lessThanOrEqualTo => 20 | .equalTo => 21
  | .greaterThan => 22 | .greaterThanOrEqualTo => 23 | .boolean => 24 | .true_ => 25
  | .false_ => 26 | .if_ => 27 | .group => 28 | .atom => 29 | .smallTerm => 30 | .mediumTerm => 31
  | .largeTerm => 32 | .hugeTerm => 33 | .giantTerm => 34 | .jumboTerm => 35

def NT.count : Nat := 36

/-- The value type of `Cache`: `(Term, usize, bool)`. -/
structure PResult where
  term : Src
  next : Nat
  confident : Bool
deriving Inhabited

/-- `Cache` plus the `verif-hooks` counters (`CACHE_STATS`). -/
structure PState where
  cache : Std.HashMap (Nat × Nat) PResult
  hits : Array Nat
  misses : Array Nat

def PState.init : PState :=
  { cache := {}, hits := Array.replicate NT.count 0, misses := Array.replicate NT.count 0 }

/-- State-passing parse computations; `none` = out of fuel. -/
abbrev ParseM := StateT PState Option

/-- `cache_check!` … `cache_return!`: every exit of a parsing function goes through
`cache_return!` with the function's own key, so a parsing function is `cacheCheck nt start body`
where `body` computes the value that is cached and returned. -/
def cacheCheck (nt : NT) (start : Nat) (body : ParseM PResult) : ParseM PResult := fun st =>
  match st.cache[(nt.idx, start)]? with
  | some r => some (r, { st with hits := st.hits.modify nt.idx (· + 1) })
  | none =>
    match body { st with misses := st.misses.modify nt.idx (· + 1) } with
    | none => none
    | some (r, st') => some (r, { st' with cache := st'.cache.insert (nt.idx, start) r })

/-! ## §3 The macros -/

/-- The failure value of `consume_token_*!`: `(error_term(tokens, next, _), next, false)`. -/
def failAt (toks : Array PTok) (next : Nat) : PResult := ⟨errorTerm toks next, next, false⟩

/-- `consume_token_0!`: `k` is the rest of the function, run with `next + 1`. -/
def consume0 (toks : Array PTok) (next : Nat) (kind : PKind) (k : Nat → ParseM PResult) :
    ParseM PResult :=
  if h : next < toks.size then
    if toks[next].kind = kind then k (next + 1) else pure (failAt toks next)
  else pure (failAt toks next)

/-- `consume_token_1!(…, Identifier, …)`. -/
def consumeIdent (toks : Array PTok) (next : Nat) (k : Name → Nat → ParseM PResult) :
    ParseM PResult :=
  if h : next < toks.size then
    match toks[next].kind with
    | .identifier x => k x (next + 1)
    | _ => pure (failAt toks next)
  else pure (failAt toks next)

/-- `consume_token_1!(…, IntegerLiteral, …)`. -/
def consumeLiteral (toks : Array PTok) (next : Nat) (k : Nat → Nat → ParseM PResult) :
    ParseM PResult :=
  if h : next < toks.size then
    match toks[next].kind with
    | .integerLiteral n => k n (next + 1)
    | _ => pure (failAt toks next)
  else pure (failAt toks next)

/-- `try_return!`: accept the alternative unless its variant is `ParseError`. -/
def tryReturn (p : ParseM PResult) (k : ParseM PResult) : ParseM PResult := do
  let r ← p
  if r.term.isParseError then k else pure r

/-- `try_eval!`: propagate a failing child unchanged. -/
def tryEval (p : ParseM PResult) (k : Src → Nat → Bool → ParseM PResult) : ParseM PResult := do
  let r ← p
  if r.term.isParseError then pure r else k r.term r.next r.confident

def PKind.isTerminator : PKind → Bool
  | .terminator _ => true
  | _ => false

/-- The scanning loop of `expect_token_*!`.  `target` recognises the expected token.  The first
argument bounds the number of iterations; it is always `tokens.len() - next`, so reaching 0
coincides with the loop condition `next < tokens.len()` failing. -/
def scanLoop (toks : Array PTok) (target : PKind → Bool) : Nat → Nat → Nat → Bool × Nat
  | 0, next, _ => (false, next)
  | n + 1, next, depth =>
    if h : next < toks.size then
      let k := toks[next].kind
      if target k && depth == 0 then (true, next + 1)
      else match k with
        | .leftParen => scanLoop toks target n (next + 1) (depth + 1)
        | .rightParen =>
          if depth > 0 then scanLoop toks target n (next + 1) (depth - 1) else (false, next)
        | .terminator _ =>
          if depth == 0 then (false, next) else scanLoop toks target n (next + 1) depth
        | _ => scanLoop toks target n (next + 1) depth
    else (false, next)

/-- `expect_token_0!` / `expect_token_1!`: returns the errors to push, whether the token was found
and the position after the scan. -/
def expectToken (toks : Array PTok) (next : Nat) (target : PKind → Bool) (reportError : Bool) :
    List PErr × Bool × Nat :=
  let errs :=
    if reportError then
      if h : next < toks.size then
        if target toks[next].kind then [] else [errorFactory toks next]
      else [errorFactory toks next]
    else []
  let (found, next') := scanLoop toks target (toks.size - next) next 0
  (errs, found, next')

/-! ## §4 The 36 parsing functions

Each `parseX toks rec start` is the body of the Rust `parse_x` *between* `cache_check!` and
`cache_return!`; `rec nt pos` stands for the call of `parse_nt(cache, tokens, pos)`.  The knot is
tied by `parseNT` below. -/

section Bodies
variable (toks : Array PTok) (rec : NT → Nat → ParseM PResult)

/-- A keyword-like atom: `consume_token_0!` then a leaf node. -/
def parseLeaf (kind : PKind) (v : SrcV) (start : Nat) : ParseM PResult :=
  consume0 toks start kind fun next =>
  pure ⟨.mk (tokenRange toks start) false v [], next, true⟩

/-- The common ending `(error_term(tokens, start, "an expression"), start, false)`. -/
def noParse (start : Nat) : ParseM PResult := pure (failAt toks start)

/-- `parse_term`. -/
def parseTerm (start : Nat) : ParseM PResult :=
  tryReturn (rec .let_ start) <|
  tryReturn (rec .jumboTerm start) <|
  noParse toks start

/-- `parse_type`. -/
def parseType (start : Nat) : ParseM PResult := parseLeaf toks .type_ .type start

/-- `parse_variable`. -/
def parseVariable (start : Nat) : ParseM PResult :=
  let variableRange := tokenRange toks start
  consumeIdent toks start fun x next =>
  pure ⟨.mk variableRange false (.var x) [], next, true⟩

/-- `parse_lambda`. -/
def parseLambda (start : Nat) : ParseM PResult :=
  consumeIdent toks start fun x next =>
  consume0 toks next .thickArrow fun next => do
  let ⟨body, next, confident⟩ ← rec .term next
  pure ⟨.mk (span (tokenRange toks start) body.range) false
          (.lam ⟨tokenRange toks start, x⟩ false .none body) [], next, confident⟩

/-- `parse_lambda_implicit`. -/
def parseLambdaImplicit (start : Nat) : ParseM PResult :=
  consume0 toks start .leftCurly fun next =>
  let variableRange := tokenRange toks next
  consumeIdent toks next fun x next =>
  consume0 toks next .rightCurly fun next =>
  consume0 toks next .thickArrow fun next => do
  let ⟨body, next, confident⟩ ← rec .term next
  pure ⟨.mk (span (tokenRange toks start) body.range) false
          (.lam ⟨variableRange, x⟩ true .none body) [], next, confident⟩

/-- The shared shape of `parse_annotated_lambda`, `parse_annotated_lambda_implicit`, `parse_pi`,
`parse_pi_implicit`: `OPEN x : jumbo_term CLOSE ARROW term`. -/
def parseBinder (openK closeK arrowK : PKind)
    (mk : SrcVar → Src → Src → SrcV) (start : Nat) : ParseM PResult :=
  consume0 toks start openK fun next =>
  let variableRange := tokenRange toks next
  consumeIdent toks next fun x next =>
  consume0 toks next .colon fun next =>
  tryEval (rec .jumboTerm next) fun domain next _ =>
  consume0 toks next closeK fun next =>
  consume0 toks next arrowK fun next => do
  let ⟨body, next, confident⟩ ← rec .term next
  pure ⟨.mk (span (tokenRange toks start) body.range) false
          (mk ⟨variableRange, x⟩ domain body) [], next, confident⟩

/-- `parse_annotated_lambda`. -/
def parseAnnotatedLambda (start : Nat) : ParseM PResult :=
  parseBinder toks rec .leftParen .rightParen .thickArrow
    (fun v d b => .lam v false (.some d) b) start

/-- `parse_annotated_lambda_implicit`. -/
def parseAnnotatedLambdaImplicit (start : Nat) : ParseM PResult :=
  parseBinder toks rec .leftCurly .rightCurly .thickArrow
    (fun v d b => .lam v true (.some d) b) start

/-- `parse_pi`. -/
def parsePi (start : Nat) : ParseM PResult :=
  parseBinder toks rec .leftParen .rightParen .thinArrow (fun v d b => .pi v false d b) start

/-- `parse_pi_implicit`. -/
def parsePiImplicit (start : Nat) : ParseM PResult :=
  parseBinder toks rec .leftCurly .rightCurly .thinArrow (fun v d b => .pi v true d b) start

/-- `parse_non_dependent_pi`. -/
def parseNonDependentPi (start : Nat) : ParseM PResult :=
  tryEval (rec .smallTerm start) fun domain next _ =>
  consume0 toks next .thinArrow fun next => do
  let ⟨codomain, next, confident⟩ ← rec .term next
  pure ⟨.mk (span domain.range codomain.range) false
          (.pi ⟨emptyRange toks start, placeholder⟩ false domain codomain) [], next, confident⟩

/-- `parse_application`. -/
def parseApplication (start : Nat) : ParseM PResult :=
  tryEval (rec .atom start) fun applicand next _ =>
  tryEval (rec .smallTerm next) fun argument next confident =>
  pure ⟨.mk (span applicand.range argument.range) false (.app applicand argument) [],
        next, confident⟩

/-- `parse_let` (with its two error-recovery scans). -/
def parseLet (start : Nat) : ParseM PResult :=
  let variableRange := tokenRange toks start
  consumeIdent toks start fun x next =>
  -- the rest of the function, once the optional annotation is known
  let rest (annotation : OptSrc) (next : Nat) (errors : List PErr)
      (equalsFound : Bool) : ParseM PResult := do
    -- Parse the definition, unless the equals sign is missing.
    let ⟨definition, next, definitionConfident⟩ ←
      if equalsFound then rec .term next
      else pure ⟨skippedTerm toks next, next, false⟩
    -- Consume the terminator.
    let (errs2, terminatorFound, next) :=
      expectToken toks next PKind.isTerminator definitionConfident
    let errors := errors ++ errs2
    -- Parse the body, unless the terminator is missing.
    let ⟨body, next, bodyConfident⟩ ←
      if terminatorFound then rec .term next
      else pure ⟨skippedTerm toks next, next, false⟩
    pure ⟨.mk (span variableRange body.range) false
            (.let_ ⟨variableRange, x⟩ annotation definition body) errors, next, bodyConfident⟩
  -- Parse the annotation, if there is one.
  if h : next < toks.size then
    if toks[next].kind = .colon then
      consume0 toks next .colon fun next =>
      tryEval (rec .smallTerm next) fun annotation next annotationConfident =>
      -- We have an annotation: scan for the equals sign.
      let (errs1, equalsFound, next) :=
        expectToken toks next (· = .equals) annotationConfident
      rest (.some annotation) next errs1 equalsFound
    else
      consume0 toks next .equals fun next => rest .none next [] true
  else
    consume0 toks next .equals fun next => rest .none next [] true

/-- `parse_integer`. -/
def parseInteger (start : Nat) : ParseM PResult := parseLeaf toks .integer .int start

/-- `parse_integer_literal`. -/
def parseIntegerLiteral (start : Nat) : ParseM PResult :=
  consumeLiteral toks start fun n next =>
  pure ⟨.mk (tokenRange toks start) false (.lit (Int.ofNat n)) [], next, true⟩

/-- `parse_negation`. -/
def parseNegation (start : Nat) : ParseM PResult :=
  consume0 toks start .minus fun next => do
  let ⟨subterm, next, confident⟩ ← rec .largeTerm next
  pure ⟨.mk (span (tokenRange toks start) subterm.range) false (.neg subterm) [],
        next, confident⟩

/-- The shared shape of the nine binary operator functions:
`try_eval!(left)`, `consume_token_0!(operator)`, right operand taken as is. -/
def parseBinary (left : NT) (opTok : PKind) (right : NT) (op : BinOp) (start : Nat) :
    ParseM PResult :=
  tryEval (rec left start) fun term1 next _ =>
  consume0 toks next opTok fun next => do
  let ⟨term2, next, confident⟩ ← rec right next
  pure ⟨.mk (span term1.range term2.range) false (.bin op term1 term2) [], next, confident⟩

/-- `parse_sum`. -/
def parseSum := parseBinary toks rec .largeTerm .plus .hugeTerm .sum
/-- `parse_difference`. -/
def parseDifference := parseBinary toks rec .largeTerm .minus .hugeTerm .diff
/-- `parse_product`. -/
def parseProduct := parseBinary toks rec .smallTerm .asterisk .largeTerm .prod
/-- `parse_quotient`. -/
def parseQuotient := parseBinary toks rec .smallTerm .slash .largeTerm .quot
/-- `parse_less_than`. -/
def parseLessThan := parseBinary toks rec .hugeTerm .lessThan .hugeTerm .lt
/-- `parse_less_than_or_equal_to`. -/
def parseLessThanOrEqualTo := parseBinary toks rec .hugeTerm .lessThanOrEqualTo .hugeTerm .le
/-- `parse_equal_to`. -/
def parseEqualTo := parseBinary toks rec .hugeTerm .doubleEquals .hugeTerm .eq
/-- `parse_greater_than`. -/
def parseGreaterThan := parseBinary toks rec .hugeTerm .greaterThan .hugeTerm .gt
/-- `parse_greater_than_or_equal_to`. -/
def parseGreaterThanOrEqualTo :=
  parseBinary toks rec .hugeTerm .greaterThanOrEqualTo .hugeTerm .ge

/-- `parse_boolean`. -/
def parseBoolean (start : Nat) : ParseM PResult := parseLeaf toks .boolean .bool start
/-- `parse_true`. -/
def parseTrue (start : Nat) : ParseM PResult := parseLeaf toks .true_ .tt start
/-- `parse_false`. -/
def parseFalse (start : Nat) : ParseM PResult := parseLeaf toks .false_ .ff start

/-- `parse_if` (with its two error-recovery scans). -/
def parseIf (start : Nat) : ParseM PResult :=
  consume0 toks start .if_ fun next => do
  let ⟨condition, next, conditionConfident⟩ ← rec .term next
  let (errs1, foundThen, next) := expectToken toks next (· = .then_) conditionConfident
  let ⟨thenBranch, next, thenConfident⟩ ←
    if foundThen then rec .term next else pure ⟨skippedTerm toks next, next, false⟩
  let (errs2, foundElse, next) := expectToken toks next (· = .else_) thenConfident
  let ⟨elseBranch, next, elseConfident⟩ ←
    if foundElse then rec .term next else pure ⟨skippedTerm toks next, next, false⟩
  pure ⟨.mk (span (tokenRange toks start) elseBranch.range) false
          (.ite condition thenBranch elseBranch) (errs1 ++ errs2), next, elseConfident⟩

/-- The "This parenthesis was never closed" error of `parse_group`: the left parenthesis, then
(unless at the end of the file) the unexpected token. -/
def neverClosed (start next : Nat) : PErr :=
  if next = toks.size then [tokenRange toks start]
  else [tokenRange toks start, tokenRange toks next]

/-- `parse_group`. -/
def parseGroup (start : Nat) : ParseM PResult :=
  consume0 toks start .leftParen fun next =>
  tryEval (rec .term next) fun term next confident =>
  let (phonyErrors, found, next) := expectToken toks next (· = .rightParen) confident
  let errors := term.errors
  let errors := if found then errors ++ phonyErrors else errors
  let errors := if !found then errors ++ [neverClosed toks start next] else errors
  pure ⟨.mk (span (tokenRange toks start) (tokenRange toks (next - 1))) true term.variant errors,
        next, found⟩

/-- `parse_atom`. -/
def parseAtom (start : Nat) : ParseM PResult :=
  tryReturn (rec .type start) <|
  tryReturn (rec .variable start) <|
  tryReturn (rec .integer start) <|
  tryReturn (rec .integerLiteral start) <|
  tryReturn (rec .boolean start) <|
  tryReturn (rec .true_ start) <|
  tryReturn (rec .false_ start) <|
  tryReturn (rec .group start) <|
  noParse toks start

/-- `parse_small_term`. -/
def parseSmallTerm (start : Nat) : ParseM PResult :=
  tryReturn (rec .application start) <|
  tryReturn (rec .atom start) <|
  noParse toks start

/-- `parse_medium_term`. -/
def parseMediumTerm (start : Nat) : ParseM PResult :=
  tryReturn (rec .product start) <|
  tryReturn (rec .quotient start) <|
  tryReturn (rec .smallTerm start) <|
  noParse toks start

/-- `parse_large_term`. -/
def parseLargeTerm (start : Nat) : ParseM PResult :=
  tryReturn (rec .negation start) <|
  tryReturn (rec .mediumTerm start) <|
  noParse toks start

/-- `parse_huge_term`. -/
def parseHugeTerm (start : Nat) : ParseM PResult :=
  tryReturn (rec .sum start) <|
  tryReturn (rec .difference start) <|
  tryReturn (rec .largeTerm start) <|
  noParse toks start

/-- `parse_giant_term`. -/
def parseGiantTerm (start : Nat) : ParseM PResult :=
  tryReturn (rec .lessThan start) <|
  tryReturn (rec .lessThanOrEqualTo start) <|
  tryReturn (rec .equalTo start) <|
  tryReturn (rec .greaterThan start) <|
  tryReturn (rec .greaterThanOrEqualTo start) <|
  tryReturn (rec .hugeTerm start) <|
  noParse toks start

/-- `parse_jumbo_term`. -/
def parseJumboTerm (start : Nat) : ParseM PResult :=
  tryReturn (rec .lambda start) <|
  tryReturn (rec .lambdaImplicit start) <|
  tryReturn (rec .annotatedLambda start) <|
  tryReturn (rec .annotatedLambdaImplicit start) <|
  tryReturn (rec .pi start) <|
  tryReturn (rec .piImplicit start) <|
  tryReturn (rec .nonDependentPi start) <|
  tryReturn (rec .if_ start) <|
  tryReturn (rec .giantTerm start) <|
  noParse toks start

/-- Dispatch from a nonterminal to the body of its parsing function. -/
def parseBody (nt : NT) (start : Nat) : ParseM PResult :=
  match nt with
  | .term => parseTerm toks rec start
  | .type => parseType toks start
  | .variable => parseVariable toks start
  | .lambda => parseLambda toks rec start
  | .lambdaImplicit => parseLambdaImplicit toks rec start
  | .annotatedLambda => parseAnnotatedLambda toks rec start
  | .annotatedLambdaImplicit => parseAnnotatedLambdaImplicit toks rec start
  | .pi => parsePi toks rec start
  | .piImplicit => parsePiImplicit toks rec start
  | .nonDependentPi => parseNonDependentPi toks rec start
  | .application => parseApplication rec start
  | .let_ => parseLet toks rec start
  | .integer => parseInteger toks start
  | .integerLiteral => parseIntegerLiteral toks start
  | .negation => parseNegation toks rec start
  | .sum => parseSum toks rec start
  | .difference => parseDifference toks rec start
  | .product => parseProduct toks rec start
  | .quotient => parseQuotient toks rec start
  | .lessThan => parseLessThan toks rec start
  | .lessThanOrEqualTo => parseLessThanOrEqualTo toks rec start
  | .equalTo => parseEqualTo toks rec start
  | .greaterThan => parseGreaterThan toks rec start
  | .greaterThanOrEqualTo => parseGreaterThanOrEqualTo toks rec start
  | .boolean => parseBoolean toks start
  | .true_ => parseTrue toks start
  | .false_ => parseFalse toks start
  | .if_ => parseIf toks rec start
  | .group => parseGroup toks rec start
  | .atom => parseAtom toks rec start
  | .smallTerm => parseSmallTerm toks rec start
  | .mediumTerm => parseMediumTerm toks rec start
  | .largeTerm => parseLargeTerm toks rec start
  | .hugeTerm => parseHugeTerm toks rec start
  | .giantTerm => parseGiantTerm toks rec start
  | .jumboTerm => parseJumboTerm toks rec start

end Bodies

/-- The memoised parsing functions.  Structural in the fuel: a chain of nested calls visits
positions in non-decreasing order and, at one position, pairwise different nonterminals (no left
recursion), so its length is at most `36 * (tokens.len() + 1)`.  Fuel 0 is the distinct outcome
`none`. -/
def parseNT (toks : Array PTok) : Nat → NT → Nat → ParseM PResult
  | 0, _, _ => fun _ => none
  | fuel + 1, nt, start => cacheCheck nt start (parseBody toks (parseNT toks fuel) nt start)

def parseFuel (toks : Array PTok) : Nat := 36 * (toks.size + 1) + 1

/-! ## §5 `collect_error_factories` -/

mutual
/-- `collect_error_factories`: children first (in field order), then the node's own errors. -/
def collectErrors (t : Src) : List PErr :=
  match t with
  | .mk _ _ v errors =>
    (match v with
      | .parseError | .type | .var _ | .int | .lit _ | .bool | .tt | .ff => []
      | .lam _ _ dom body => collectErrorsOpt dom ++ collectErrors body
      | .pi _ _ dom cod => collectErrors dom ++ collectErrors cod
      | .app f a => collectErrors f ++ collectErrors a
      | .let_ _ ann defn body => collectErrorsOpt ann ++ collectErrors defn ++ collectErrors body
      | .neg a => collectErrors a
      | .bin _ a b => collectErrors a ++ collectErrors b
      | .ite c a b => collectErrors c ++ collectErrors a ++ collectErrors b)
    ++ errors
termination_by structural t
def collectErrorsOpt (o : OptSrc) : List PErr :=
  match o with
  | .none => []
  | .some t => collectErrors t
termination_by structural o
end

/-! ## §6 Re-association

`reassociate_applications`, `reassociate_products_and_quotients`,
`reassociate_sums_and_differences` share one shape: a *chain operator family* (`app`; `*` `/`;
`+` `-`) is flipped from right- to left-nested, everything else is rebuilt with `acc = None`.
The model has one function `reassoc fam` instantiated three times; its arms follow the Rust arms.

`none` = the Rust `panic!` ("called on a ParseError").

The guard arm `Chain(_, _) if acc.is_some() && term.group => reassociate(None, term)` calls the
function on the *same* term with `acc = None`; that call necessarily lands in the chain arm (the
guard is false for `None`).  To stay structurally recursive the model inlines that one step: the
chain arm is the local function `arm`, and the guard arm is `arm none` followed by the common
tail. -/

/-- Which operator family a pass re-associates. -/
inductive Family
  | applications | productsAndQuotients | sumsAndDifferences
deriving DecidableEq, Repr

/-- A link of a chain: `Application`, or one of the family's two binary operators
(`ProductOrQuotient` / `SumOrDifference`). -/
inductive Link
  | app
  | op (o : BinOp)
deriving DecidableEq, Repr

/-- The variant a link builds. -/
def Link.build : Link → Src → Src → SrcV
  | .app, a, b => .app a b
  | .op o, a, b => .bin o a b

/-- The common tail: `if let Some((acc, operator)) = acc { acc OP reduced } else { reduced }`.
For applications the accumulator carries no operator; the model stores `Link.app`. -/
def reassocTail (acc : Option (Src × Link)) (reduced : Src) : Src :=
  match acc with
  | some (ac, l) => .mk (span ac.range reduced.range) true (l.build ac reduced) []
  | none => reduced

mutual
def reassoc (fam : Family) (acc : Option (Src × Link)) (t : Src) : Option Src :=
  match t with
  | .mk range group v _ =>
    match v with
    | .parseError => none
    | .type => some (reassocTail acc t)
    | .var _ => some (reassocTail acc t)
    | .int => some (reassocTail acc t)
    | .lit _ => some (reassocTail acc t)
    | .bool => some (reassocTail acc t)
    | .tt => some (reassocTail acc t)
    | .ff => some (reassocTail acc t)
    | .lam x imp dom body =>
      match reassocOpt fam dom, reassoc fam none body with
      | some dom', some body' =>
        some (reassocTail acc (.mk range group (.lam x imp dom' body') []))
      | _, _ => none
    | .pi x imp dom cod =>
      match reassoc fam none dom, reassoc fam none cod with
      | some dom', some cod' => some (reassocTail acc (.mk range group (.pi x imp dom' cod') []))
      | _, _ => none
    | .let_ x ann defn body =>
      match reassocOpt fam ann, reassoc fam none defn, reassoc fam none body with
      | some ann', some defn', some body' =>
        some (reassocTail acc (.mk range group (.let_ x ann' defn' body') []))
      | _, _, _ => none
    | .neg a =>
      match reassoc fam none a with
      | some a' => some (reassocTail acc (.mk range group (.neg a') []))
      | none => none
    | .ite c a b =>
      match reassoc fam none c, reassoc fam none a, reassoc fam none b with
      | some c', some a', some b' =>
        some (reassocTail acc (.mk range group (.ite c' a' b') []))
      | _, _, _ => none
    | .app f a =>
      if fam = .applications then
        -- the `Variant::Application(applicand, argument) => { return … }` arm
        let arm (acc : Option (Src × Link)) : Option Src :=
          if a.group then
            match acc with
            | some (ac, l) =>
              match reassoc fam (some (ac, l)) f, reassoc fam none a with
              | some f', some a' => some (.mk (span ac.range a.range) true (.app f' a') [])
              | _, _ => none
            | none =>
              match reassoc fam none f, reassoc fam none a with
              | some f', some a' => some (.mk range group (.app f' a') [])
              | _, _ => none
          else
            match reassoc fam none f with
            | some f' =>
              let acc' := match acc with
                | some (ac, l) => Src.mk (span ac.range f.range) true (l.build ac f') []
                | none => f'
              reassoc fam (some (acc', .app)) a
            | none => none
        if acc.isSome && group then
          -- `Variant::Application(_, _) if acc.is_some() && term.group`
          match arm none with
          | some reduced => some (reassocTail acc reduced)
          | none => none
        else arm acc
      else
        match reassoc fam none f, reassoc fam none a with
        | some f', some a' => some (reassocTail acc (.mk range group (.app f' a') []))
        | _, _ => none
    | .bin o a b =>
      if (fam = .productsAndQuotients ∧ (o = .prod ∨ o = .quot))
          ∨ (fam = .sumsAndDifferences ∧ (o = .sum ∨ o = .diff)) then
        -- the `Variant::Product(term1, term2) => { return … }` arm (resp. Quotient, Sum,
        -- Difference): `o` is both the rebuilt variant and the operator stored in the accumulator
        let arm (acc : Option (Src × Link)) : Option Src :=
          if b.group then
            match acc with
            | some (ac, l) =>
              match reassoc fam (some (ac, l)) a, reassoc fam none b with
              | some a', some b' => some (.mk (span ac.range b.range) true (.bin o a' b') [])
              | _, _ => none
            | none =>
              match reassoc fam none a, reassoc fam none b with
              | some a', some b' => some (.mk range group (.bin o a' b') [])
              | _, _ => none
          else
            match reassoc fam none a with
            | some a' =>
              let acc' := match acc with
                | some (ac, l) => Src.mk (span ac.range a.range) true (l.build ac a') []
                | none => a'
              reassoc fam (some (acc', .op o)) b
            | none => none
        if acc.isSome && group then
          -- `Variant::Product(_, _) | Variant::Quotient(_, _) if acc.is_some() && term.group`
          match arm none with
          | some reduced => some (reassocTail acc reduced)
          | none => none
        else arm acc
      else
        match reassoc fam none a, reassoc fam none b with
        | some a', some b' => some (reassocTail acc (.mk range group (.bin o a' b') []))
        | _, _ => none
termination_by structural t
def reassocOpt (fam : Family) (o : OptSrc) : Option OptSrc :=
  match o with
  | .none => some .none
  | .some t =>
    match reassoc fam none t with
    | some t' => some (.some t')
    | none => none
termination_by structural o
end

/-- `reassociate_applications(None, term)`. -/
def reassociateApplications (t : Src) : Option Src := reassoc .applications none t
/-- `reassociate_products_and_quotients(None, term)`. -/
def reassociateProductsAndQuotients (t : Src) : Option Src := reassoc .productsAndQuotients none t
/-- `reassociate_sums_and_differences(None, term)`. -/
def reassociateSumsAndDifferences (t : Src) : Option Src := reassoc .sumsAndDifferences none t

/-! ## §7 `resolve_variables`

Output: `RTm`, the public `term::Term` with its `source_range : Option<SourceRange>`.  Every
`Rc::new(RefCell::new(None))` is a fresh hole id. -/

mutual
/-- `term::Term` (with source range). -/
inductive RTm : Type
  | mk (range : Option SourceRange) (v : RTmV)
/-- `term::Variant`. -/
inductive RTmV : Type
  | hole (id : Nat) (shift : Nat)
  | type | int | bool | tt | ff
  | lit (n : Int)
  | var (x : Name) (i : Nat)
  | lam (x : Name) (imp : Bool) (dom body : RTm)
  | pi (x : Name) (imp : Bool) (dom cod : RTm)
  | app (f a : RTm)
  | letg (defs : RDefs) (body : RTm)
  | neg (a : RTm)
  | bin (op : BinOp) (a b : RTm)
  | ite (c t e : RTm)
/-- The definitions vector of `term::Variant::Let`. -/
inductive RDefs : Type
  | nil
  | cons (x : Name) (ann defn : RTm) (rest : RDefs)
end

instance : Inhabited RTm := ⟨.mk none .type⟩

def RTm.range : RTm → Option SourceRange | .mk r _ => r
def RTm.variant : RTm → RTmV | .mk _ v => v

mutual
/-- Forget the source ranges: the semantic term of `Syntax.lean`. -/
def RTm.erase (t : RTm) : Tm :=
  match t with
  | .mk _ v =>
    match v with
    | .hole id s => .hole id s
    | .type => .type | .int => .int | .bool => .bool | .tt => .tt | .ff => .ff
    | .lit n => .lit n
    | .var x i => .var x i
    | .lam x imp d b => .lam x imp d.erase b.erase
    | .pi x imp d b => .pi x imp d.erase b.erase
    | .app f a => .app f.erase a.erase
    | .letg ds b => .letg ds.erase b.erase
    | .neg a => .neg a.erase
    | .bin o a b => .bin o a.erase b.erase
    | .ite c a b => .ite c.erase a.erase b.erase
termination_by structural t
def RDefs.erase (ds : RDefs) : Defs :=
  match ds with
  | .nil => .nil
  | .cons x a d r => .cons x a.erase d.erase r.erase
termination_by structural ds
end

def RDefs.len : RDefs → Nat
  | .nil => 0
  | .cons _ _ _ r => r.len + 1

def RDefs.toList : RDefs → List (Name × RTm × RTm)
  | .nil => []
  | .cons x a d r => (x, a, d) :: r.toList

/-- `collect_definitions`: follow the body chain of nested lets (whatever their `group` flag). -/
def collectDefinitions (t : Src) : List (SrcVar × OptSrc × Src) × Src :=
  match t with
  | .mk _ _ (.let_ v ann defn body) _ =>
    let (ds, inner) := collectDefinitions body
    ((v, ann, defn) :: ds, inner)
  | _ => ([], t)

/-- The `HashMap<&str, usize>` context as an association list with unique keys. -/
abbrev Ctx := List (Name × Nat)

def Ctx.get (c : Ctx) (x : Name) : Option Nat := c.lookup x
def Ctx.containsKey (c : Ctx) (x : Name) : Bool := (c.lookup x).isSome
def Ctx.remove (c : Ctx) (x : Name) : Ctx := c.filter (fun p => p.1 != x)
def Ctx.insert (c : Ctx) (x : Name) (d : Nat) : Ctx := (x, d) :: Ctx.remove c x

/-- The mutable state of `resolve_variables`: `context`, `errors`, and the allocator of cells. -/
structure RState where
  ctx : Ctx
  errors : List PErr
  nextHole : Nat

/-- `none` = `panic!` ("called on a ParseError"). -/
abbrev ResolveM := StateT RState Option

def freshHole (range : Option SourceRange) (shift : Nat) : ResolveM RTm := fun st =>
  some (.mk range (.hole st.nextHole shift), { st with nextHole := st.nextHole + 1 })

def pushError (e : PErr) : ResolveM Unit := fun st =>
  some ((), { st with errors := st.errors ++ [e] })

/-- Binder entry shared by the `Lambda`, `Pi` and `Let` arms: unless the name is the placeholder,
report "already exists" if it is bound, then `insert` it anyway. -/
def bindName (v : SrcVar) (depth : Nat) : ResolveM Unit := fun st =>
  if v.name != placeholder then
    let errors := if st.ctx.containsKey v.name then st.errors ++ [[v.range]] else st.errors
    some ((), { st with errors := errors, ctx := st.ctx.insert v.name depth })
  else some ((), st)

/-- The `defer!` of the `Lambda` / `Pi` arms: `context.remove(variable.name)`. -/
def unbindName (x : Name) : ResolveM Unit := fun st =>
  some ((), { st with ctx := st.ctx.remove x })

/-- First loop of the `Let` arm: bind definition `i` at `depth + i`. -/
def bindDefinitions (depth : Nat) : List (SrcVar × OptSrc × Src) → Nat → ResolveM Unit
  | [], _ => pure ()
  | (v, _, _) :: rest, i => do
    bindName v (depth + i)
    bindDefinitions depth rest (i + 1)

/-- The `defer!` of the `Let` arm: remove every name in `variables_added`. -/
def unbindDefinitions : List (SrcVar × OptSrc × Src) → ResolveM Unit
  | [] => pure ()
  | (v, _, _) :: rest => do
    if v.name != placeholder then unbindName v.name
    unbindDefinitions rest

/-! The `Let` arm first calls `collect_definitions` and then resolves, in this order, annotation 0,
definition 0, annotation 1, definition 1, …, the innermost body — all at `new_depth`.  Iterating
over the collected vector is not structurally recursive, so the model walks the chain of nested
lets a second time instead: `resolveAux t (some (n, i)) newDepth` is "`t` is what follows
definition `i - 1` in a chain of `n` definitions": if `t` is a let it is definition `i` (resolve
its annotation and definition, continue with its body), otherwise it is the innermost body
(resolve it like any term).  `resolveAux t none depth` is `resolve_variables` proper; it returns
`(nil, term)`. -/

mutual
def resolveAux (t : Src) (chain : Option (Nat × Nat)) (depth : Nat) : ResolveM (RDefs × RTm) :=
  match t with
  | .mk range _ v _ =>
    match v with
    | .parseError => fun _ => none
    | .type => pure (.nil, .mk (some range) .type)
    | .var x => fun st =>
      match st.ctx.get x with
      | some variableDepth =>
        some ((.nil, .mk (some range) (.var x (depth - 1 - variableDepth))), st)
      | none =>
        -- not in scope: an error unless it is the placeholder; a fresh unifier either way
        let errors := if x != placeholder then st.errors ++ [[range]] else st.errors
        some ((.nil, .mk (some range) (.hole st.nextHole 0)),
              { st with errors := errors, nextHole := st.nextHole + 1 })
    | .lam x imp dom body => do
      let dom' ← resolveOpt dom depth
      bindName x depth
      let dom'' ← match dom' with
        | some d => pure d
        | none => freshHole none 0
      let (_, body') ← resolveAux body none (depth + 1)
      unbindName x.name
      pure (.nil, .mk (some range) (.lam x.name imp dom'' body'))
    | .pi x imp dom cod => do
      let (_, dom') ← resolveAux dom none depth
      bindName x depth
      let (_, cod') ← resolveAux cod none (depth + 1)
      unbindName x.name
      pure (.nil, .mk (some range) (.pi x.name imp dom' cod'))
    | .app f a => do
      let (_, f') ← resolveAux f none depth
      let (_, a') ← resolveAux a none depth
      pure (.nil, .mk (some range) (.app f' a'))
    | .let_ x ann defn body =>
      match chain with
      | some (n, i) => do
        -- definition `i` of an enclosing chain (`depth` is that chain's `new_depth`)
        let ann' ← resolveAnnotation ann n i depth
        let (_, defn') ← resolveAux defn none depth
        let (rest, body') ← resolveAux body (some (n, i + 1)) depth
        pure (.cons x.name ann' defn' rest, body')
      | none => do
        -- the `Variant::Let` arm
        let definitions := (x, ann, defn) :: (collectDefinitions body).1
        let n := definitions.length
        bindDefinitions depth definitions 0
        let newDepth := depth + n
        let ann' ← resolveAnnotation ann n 0 newDepth
        let (_, defn') ← resolveAux defn none newDepth
        let (rest, body') ← resolveAux body (some (n, 1)) newDepth
        unbindDefinitions definitions
        pure (.nil, .mk (some range) (.letg (.cons x.name ann' defn' rest) body'))
    | .int => pure (.nil, .mk (some range) .int)
    | .lit n => pure (.nil, .mk (some range) (.lit n))
    | .neg a => do
      let (_, a') ← resolveAux a none depth
      pure (.nil, .mk (some range) (.neg a'))
    | .bin o a b => do
      let (_, a') ← resolveAux a none depth
      let (_, b') ← resolveAux b none depth
      pure (.nil, .mk (some range) (.bin o a' b'))
    | .bool => pure (.nil, .mk (some range) .bool)
    | .tt => pure (.nil, .mk (some range) .tt)
    | .ff => pure (.nil, .mk (some range) .ff)
    | .ite c a b => do
      let (_, c') ← resolveAux c none depth
      let (_, a') ← resolveAux a none depth
      let (_, b') ← resolveAux b none depth
      pure (.nil, .mk (some range) (.ite c' a' b'))
termination_by structural t
/-- An optional lambda domain. -/
def resolveOpt (o : OptSrc) (depth : Nat) : ResolveM (Option RTm) :=
  match o with
  | .none => pure none
  | .some t => do
    let (_, t') ← resolveAux t none depth
    pure (some t')
termination_by structural o
/-- The annotation of definition `i` of `n`: resolved at `new_depth`, or a fresh hole shifted by
`definitions.len() - i`. -/
def resolveAnnotation (o : OptSrc) (n i newDepth : Nat) : ResolveM RTm :=
  match o with
  | .none => freshHole none (n - i)
  | .some t => do
    let (_, t') ← resolveAux t none newDepth
    pure t'
termination_by structural o
end

/-- `resolve_variables(…, term, depth, context, errors)`. -/
def resolve (t : Src) (depth : Nat) : ResolveM RTm := do
  let (_, t') ← resolveAux t none depth
  pure t'

/-! ## §8 `check_definitions` / `check_definition` -/

/-- The abnormal outcomes of the phases after parsing. -/
inductive Fail
  | panic       -- a Rust `panic!` / failed `assert_eq!`
  | outOfFuel   -- the model's recursion fuel ran out (never a default)
deriving DecidableEq, Repr

/-- Insert into an ascending duplicate-free list. -/
def insertSorted (x : Nat) : List Nat → List Nat
  | [] => [x]
  | y :: ys => if x < y then x :: y :: ys else if x = y then y :: ys else y :: insertSorted x ys

/-- `HashSet` → `Vec` → `sort_unstable`: the distinct elements in ascending order. -/
def sortDedup (xs : List Nat) : List Nat := xs.foldr insertSorted []

/-- The mutable state of `check_definition`: the `visited` set and the `errors` vector. -/
abbrev CheckSt := List Nat × List PErr

/-- The `for variable in variables` loop of `check_definition`; `rec` is the recursive call
`check_definition(…, start_index, definition_index, visited, errors)`. -/
def checkVariables (defs : Array (Name × RTm × RTm)) (start : Nat)
    (rec : Nat → CheckSt → Option CheckSt) : List Nat → CheckSt → Option CheckSt
  | [], st => some st
  | var :: rest, (visited, errors) =>
    if var < defs.size then
      let definitionIndex := defs.size - 1 - var
      if visited.contains definitionIndex then
        checkVariables defs start rec rest (visited, errors)
      else
        let visited := definitionIndex :: visited
        if isValue (defs[definitionIndex]!).2.2.erase then
          match rec definitionIndex (visited, errors) with
          | none => none
          | some st => checkVariables defs start rec rest st
        else if definitionIndex ≥ start then
          -- "The definition of … references … which will not be available in time":
          -- the listing is that of `definitions[start_index].2.source_range`, if any
          let e : PErr := match (defs[start]!).2.2.range with
            | some r => [r]
            | none => []
          checkVariables defs start rec rest (visited, errors ++ [e])
        else checkVariables defs start rec rest (visited, errors)
    else checkVariables defs start rec rest (visited, errors)

/-- `check_definition(…, definitions, start_index, current_index, visited, errors)`.  Every nested
call has inserted a new index `< definitions.len()` into `visited`, so the nesting depth is at
most `definitions.len()`; `none` = out of fuel. -/
def checkDefinition (defs : Array (Name × RTm × RTm)) (start : Nat) :
    Nat → Nat → CheckSt → Option CheckSt
  | 0, _, _ => none
  | fuel + 1, current, st =>
    let variables := sortDedup (freeVars (defs[current]!).2.2.erase 0)
    checkVariables defs start (checkDefinition defs start fuel) variables st

/-- First loop of the `Let` arm of `check_definitions`: for every non-value definition `i`,
`check_definition(definitions, i, i, {}, errors)`. -/
def checkEachDefinition (defs : Array (Name × RTm × RTm)) :
    List Nat → List PErr → Except Fail (List PErr)
  | [], errors => .ok errors
  | i :: rest, errors =>
    if !isValue (defs[i]!).2.2.erase then
      match checkDefinition defs i (defs.size + 1) i ([], errors) with
      | none => .error .outOfFuel
      | some (_, errors) => checkEachDefinition defs rest errors
    else checkEachDefinition defs rest errors

mutual
/-- `check_definitions(…, term, depth, errors)`.  All cells are unresolved at this point, so the
`Unifier` arm reduces to its `assert_eq!(*subterm_shift, 0)`. -/
def checkDefinitions (t : RTm) (depth : Nat) (errors : List PErr) : Except Fail (List PErr) :=
  match t with
  | .mk _ v =>
    match v with
    | .type | .var _ _ | .int | .lit _ | .bool | .tt | .ff => .ok errors
    | .hole _ shift => if shift = 0 then .ok errors else .error .panic
    | .lam _ _ dom body =>
      match checkDefinitions dom depth errors with
      | .ok errors => checkDefinitions body (depth + 1) errors
      | .error f => .error f
    | .pi _ _ dom cod =>
      match checkDefinitions dom depth errors with
      | .ok errors => checkDefinitions cod (depth + 1) errors
      | .error f => .error f
    | .app f a =>
      match checkDefinitions f depth errors with
      | .ok errors => checkDefinitions a depth errors
      | .error f => .error f
    | .letg defs body =>
      let newDepth := depth + defs.len
      let arr := defs.toList.toArray
      match checkEachDefinition arr (List.range arr.size) errors with
      | .error f => .error f
      | .ok errors =>
        match checkDefinitionsDefs defs newDepth errors with
        | .ok errors => checkDefinitions body newDepth errors
        | .error f => .error f
    | .neg a => checkDefinitions a depth errors
    | .bin _ a b =>
      match checkDefinitions a depth errors with
      | .ok errors => checkDefinitions b depth errors
      | .error f => .error f
    | .ite c a b =>
      match checkDefinitions c depth errors with
      | .ok errors =>
        match checkDefinitions a depth errors with
        | .ok errors => checkDefinitions b depth errors
        | .error f => .error f
      | .error f => .error f
termination_by structural t
/-- `for (_, _, definition) in definitions { check_definitions(definition, new_depth) }` — the
annotations are not visited. -/
def checkDefinitionsDefs (ds : RDefs) (newDepth : Nat) (errors : List PErr) :
    Except Fail (List PErr) :=
  match ds with
  | .nil => .ok errors
  | .cons _ _ defn rest =>
    match checkDefinitions defn newDepth errors with
    | .ok errors => checkDefinitionsDefs rest newDepth errors
    | .error f => .error f
termination_by structural ds
end

/-! ## §9 `parse` -/

/-- The result of `parse`, plus the model's two abnormal outcomes. -/
inductive ParseOutcome
  | ok (t : RTm)
  | errors (es : List PErr)
  | panic
  | outOfFuel

/-- The parse phase alone: `parse_term(&mut cache, tokens, 0)` from an empty cache. -/
def runParser (toks : Array PTok) : Option (PResult × PState) :=
  parseNT toks (parseFuel toks) .term 0 PState.init

/-- The initial `HashMap` built from the `context` slice (`(name, i)` pairs, later wins). -/
def initialContext (context : List Name) : Ctx :=
  (context.zipIdx).foldl (fun c p => Ctx.insert c p.1 p.2) []

/-- Everything in `parse` after the parse phase, given its result `(term, next, _)`. -/
def finishParse (toks : Array PTok) (context : List Name) (term : Src) (next : Nat) :
    ParseOutcome :=
  -- Collect the parsing errors; complain about the first unparsed token if there are none.
  let errorFactories := collectErrors term
  let errorFactories :=
    if errorFactories.isEmpty && next != toks.size then
      errorFactories ++ [errorFactory toks next]
    else errorFactories
  if !errorFactories.isEmpty then .errors errorFactories else
  -- Re-associate: applications, then products and quotients, then sums and differences.
  match reassociateApplications term with
  | none => .panic
  | some t1 =>
  match reassociateProductsAndQuotients t1 with
  | none => .panic
  | some t2 =>
  match reassociateSumsAndDifferences t2 with
  | none => .panic
  | some reassociated =>
  -- Resolve variables.
  let ctx := initialContext context
  match resolve reassociated ctx.length { ctx := ctx, errors := [], nextHole := 0 } with
  | none => .panic
  | some (resolved, st) =>
  -- Check that definitions will be evaluated before they are used (`context.len()` is taken
  -- from the context as `resolve_variables` left it).
  match checkDefinitions resolved st.ctx.length st.errors with
  | .error .panic => .panic
  | .error .outOfFuel => .outOfFuel
  | .ok errors => if errors.isEmpty then .ok resolved else .errors errors

/-- `parse(_, _, tokens, context)`. -/
def parseModel (toks : Array PTok) (context : List Name) : ParseOutcome :=
  match runParser toks with
  | none => .outOfFuel
  | some (r, _) => finishParse toks context r.term r.next

/-- The `CACHE_STATS` counters after the parse phase: `(hits, misses)` per nonterminal. -/
def parseStats (toks : Array PTok) : Option (Array Nat × Array Nat) :=
  match runParser toks with
  | none => none
  | some (_, st) => some (st.hits, st.misses)

end PModel
