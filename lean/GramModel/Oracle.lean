import GramModel.Eval

/-!
# An independent checker for explicitly typed terms (the oracle C03 / C04 name)

`inferX` works on hole-free (or: zonked) terms.  It shares no code with the model of gram's
checker (`Check.lean`): contexts are function arguments, there are no unification variables, and
conversion is decided by normalisation (`whnfX`) plus structural comparison (`convX`).  An
unresolved hole left in an elaboration is an unknown of type `type`, compatible with anything
(so the oracle never rejects a program merely because a hole stayed unsolved or lost its identity).

The typing rules implemented (type-in-type, as in gram): variables by shifted lookup; `λ` and `Π`
with the domain (and codomain) a type; application by weak-head normalising the function's type to
a `Π` whose domain must be convertible with the argument's type, result = codomain with the
argument substituted; a group `ds; b` types every annotation as a type and every definition at its
annotation, all under the whole group, and has type `ds; B` — the body's type **under the same
group**, the simplest possible formulation, deliberately different from the implementation's
unfolding construction; arithmetic, comparisons, conditionals (branches convertible) as usual.
-/

abbrev DCtxX := List (Option (Tm × Nat))
abbrev TCtxX := List (Tm × Nat)

/-- substitute the unfolded first definition of the remaining group into the rest and the body -/
def letStepX (x : Name) (a d : Tm) (rest : Defs) (body : Tm) : Defs × Tm :=
  let idx := rest.len
  let u := unfoldDef x a d idx
  (openDefs rest idx u 0, openT body idx u 0)

def letAllX : Nat → Defs → Tm → Option Tm
  | 0, _, _ => none
  | _, .nil, body => some body
  | f+1, .cons x a d rest, body =>
      let (rest', body') := letStepX x a d rest body
      letAllX f rest' body'

def whnfX : Nat → DCtxX → Tm → Option Tm
  | 0, _, _ => none
  | f+1, Δ, t =>
    match t with
    | .var _ i =>
        match Δ[i]? with
        | none => none
        | some none => some t
        | some (some (d, off)) => if i + 1 < off then none else whnfX f Δ (ushift 0 (i + 1 - off) d)
    | .app g a =>
        match whnfX f Δ g with
        | none => none
        | some (.lam _ _ _ body) => whnfX f Δ (openT body 0 a 0)
        | some g' => some (.app g' a)
    | .letg ds body =>
        match letAllX (f+1) ds body with
        | none => none
        | some b => whnfX f Δ b
    | .neg a =>
        match whnfX f Δ a with
        | none => none
        | some (.lit n) => some (.lit (-n))
        | some a' => some (.neg a')
    | .bin op a b =>
        match whnfX f Δ a, whnfX f Δ b with
        | some (.lit x), some (.lit y) =>
            match delta op x y with
            | some r => some r
            | none => some (.bin op (.lit x) (.lit y))
        | some a', some b' => some (.bin op a' b')
        | _, _ => none
    | .ite c a b =>
        match whnfX f Δ c with
        | none => none
        | some .tt => whnfX f Δ a
        | some .ff => whnfX f Δ b
        | some c' => some (.ite c' a b)
    | t => some t

-- structural equality up to names and parameter annotations (the shortcut that lets
-- non-normalising but identical terms be equal)
mutual
def sameX : Tm → Tm → Bool
  | .hole i s, .hole j r => i == j && s == r
  | .type, .type | .int, .int | .bool, .bool | .tt, .tt | .ff, .ff => true
  | .lit n, .lit m => n == m
  | .var _ i, .var _ j => i == j
  | .lam _ im _ b, .lam _ jm _ c => im == jm && sameX b c
  | .pi _ im d b, .pi _ jm e c => im == jm && sameX d e && sameX b c
  | .app f a, .app g b => sameX f g && sameX a b
  | .letg ds b, .letg es c => sameDefsX ds es && sameX b c
  | .neg a, .neg b => sameX a b
  | .bin o a b, .bin p c d => o == p && sameX a c && sameX b d
  | .ite a b c, .ite d e f => sameX a d && sameX b e && sameX c f
  | _, _ => false
def sameDefsX : Defs → Defs → Bool
  | .nil, .nil => true
  | .cons _ _ d r, .cons _ _ e s => sameX d e && sameDefsX r s
  | _, _ => false
end

def convX : Nat → DCtxX → Tm → Tm → Option Bool
  | 0, _, _, _ => none
  | f+1, Δ, a, b =>
    if sameX a b then some true else
    match whnfX f Δ a, whnfX f Δ b with
    | some wa, some wb =>
      match wa, wb with
      -- an unresolved hole stands for an unknown term: it is compatible with anything
      | .hole .., _ => some true
      | _, .hole .. => some true
      | .type, .type | .int, .int | .bool, .bool | .tt, .tt | .ff, .ff => some true
      | .lit n, .lit m => some (n == m)
      | .var _ i, .var _ j => some (i == j)
      | .lam _ im _ b1, .lam _ jm _ b2 => if im == jm then convX f (none :: Δ) b1 b2 else some false
      | .pi _ im d1 c1, .pi _ jm d2 c2 =>
          if im == jm then
            match convX f Δ d1 d2 with
            | some true => convX f (none :: Δ) c1 c2
            | r => r
          else some false
      | .app f1 a1, .app f2 a2 =>
          match convX f Δ f1 f2 with
          | some true => convX f Δ a1 a2
          | r => r
      | .neg a1, .neg a2 => convX f Δ a1 a2
      | .bin o1 a1 b1, .bin o2 a2 b2 =>
          if o1 == o2 then
            match convX f Δ a1 a2 with
            | some true => convX f Δ b1 b2
            | r => r
          else some false
      | .ite c1 a1 b1, .ite c2 a2 b2 =>
          match convX f Δ c1 c2 with
          | some true =>
            match convX f Δ a1 a2 with
            | some true => convX f Δ b1 b2
            | r => r
          | r => r
      | _, _ => some false
    | _, _ => none

inductive XErr
  | fuel | scope | notType | notFunction | argMismatch | defMismatch | notInt | notBool | branches
deriving Repr, DecidableEq

def pushGroupX (ds : Defs) : Nat → TCtxX × DCtxX → TCtxX × DCtxX
  | _, acc => go ds ds.len acc
where
  go : Defs → Nat → TCtxX × DCtxX → TCtxX × DCtxX
    | .nil, _, acc => acc
    | .cons _ a d r, k, (Γ, Δ) => go r (k - 1) ((a, k) :: Γ, some (d, k) :: Δ)

def isTypeX (f : Nat) (Δ : DCtxX) (ty : Tm) : Except XErr Unit :=
  match convX f Δ ty .type with
  | some true => .ok ()
  | some false => .error .notType
  | none => .error .fuel

def expectX (f : Nat) (Δ : DCtxX) (got want : Tm) (e : XErr) : Except XErr Unit :=
  match convX f Δ got want with
  | some true => .ok ()
  | some false => .error e
  | none => .error .fuel

mutual
def inferX : Nat → TCtxX → DCtxX → Tm → Except XErr Tm
  | 0, _, _, _ => .error .fuel
  | f+1, Γ, Δ, t =>
    match t with
    | .hole .. | .type | .int | .bool => .ok .type
    | .lit _ => .ok .int
    | .tt | .ff => .ok .bool
    | .var _ i =>
        match Γ[i]? with
        | none => .error .scope
        | some (ty, off) => if i + 1 < off then .error .scope else .ok (ushift 0 (i + 1 - off) ty)
    | .lam x im d b =>
        match inferX f Γ Δ d with
        | .error e => .error e
        | .ok dty =>
          match isTypeX f Δ dty with
          | .error e => .error e
          | .ok _ =>
            match inferX f ((d, 0) :: Γ) (none :: Δ) b with
            | .error e => .error e
            | .ok cod => .ok (.pi x im d cod)
    | .pi _ _ d c =>
        match inferX f Γ Δ d with
        | .error e => .error e
        | .ok dty =>
          match isTypeX f Δ dty with
          | .error e => .error e
          | .ok _ =>
            match inferX f ((d, 0) :: Γ) (none :: Δ) c with
            | .error e => .error e
            | .ok cty =>
              match isTypeX f (none :: Δ) cty with
              | .error e => .error e
              | .ok _ => .ok .type
    | .app g a =>
        match inferX f Γ Δ g with
        | .error e => .error e
        | .ok gty =>
          match whnfX f Δ gty with
          | none => .error .fuel
          | some (.pi _ _ dom cod) =>
            match inferX f Γ Δ a with
            | .error e => .error e
            | .ok aty =>
              match expectX f Δ aty dom .argMismatch with
              | .error e => .error e
              | .ok _ => .ok (openT cod 0 a 0)
          | some (.hole id sh) =>
            -- a function whose type is still unknown: the argument must be well typed, the result is unknown
            match inferX f Γ Δ a with
            | .error e => .error e
            | .ok _ => .ok (.hole id sh)
          | some _ => .error .notFunction
    | .letg ds body =>
        let (Γ', Δ') := pushGroupX ds 0 (Γ, Δ)
        match inferDefsX f Γ' Δ' ds with
        | .error e => .error e
        | .ok _ =>
          match inferX f Γ' Δ' body with
          | .error e => .error e
          | .ok bty => .ok (.letg ds bty)
    | .neg a =>
        match inferX f Γ Δ a with
        | .error e => .error e
        | .ok aty =>
          match expectX f Δ aty .int .notInt with
          | .error e => .error e
          | .ok _ => .ok .int
    | .bin op a b =>
        match inferX f Γ Δ a with
        | .error e => .error e
        | .ok aty =>
          match expectX f Δ aty .int .notInt with
          | .error e => .error e
          | .ok _ =>
            match inferX f Γ Δ b with
            | .error e => .error e
            | .ok bty =>
              match expectX f Δ bty .int .notInt with
              | .error e => .error e
              | .ok _ => .ok (match op with | .sum | .diff | .prod | .quot => .int | _ => .bool)
    | .ite c a b =>
        match inferX f Γ Δ c with
        | .error e => .error e
        | .ok cty =>
          match expectX f Δ cty .bool .notBool with
          | .error e => .error e
          | .ok _ =>
            match inferX f Γ Δ a with
            | .error e => .error e
            | .ok aty =>
              match inferX f Γ Δ b with
              | .error e => .error e
              | .ok bty =>
                match expectX f Δ aty bty .branches with
                | .error e => .error e
                | .ok _ => .ok aty
def inferDefsX : Nat → TCtxX → DCtxX → Defs → Except XErr Unit
  | 0, _, _, _ => .error .fuel
  | f+1, Γ, Δ, ds =>
    match ds with
    | .nil => .ok ()
    | .cons _ ann d r =>
        match inferX f Γ Δ ann with
        | .error e => .error e
        | .ok annTy =>
          match isTypeX f Δ annTy with
          | .error e => .error e
          | .ok _ =>
            match inferX f Γ Δ d with
            | .error e => .error e
            | .ok dty =>
              match expectX f Δ dty ann .defMismatch with
              | .error e => .error e
              | .ok _ => inferDefsX f Γ Δ r
end

/-- The whole judgement the oracle makes about one accepted program: the (zonked) elaboration is
well typed and its type is convertible with the (zonked) reported type. -/
def oracleAccepts (fuel : Nat) (elaborated reported : Tm) : Except XErr Bool :=
  match inferX fuel [] [] elaborated with
  | .error e => .error e
  | .ok ty =>
    match convX fuel [] ty reported with
    | some b => .ok b
    | none => .error .fuel

/-- The value of a program has the reported type. -/
def oracleValueHasType (fuel : Nat) (value reported : Tm) : Except XErr Bool :=
  oracleAccepts fuel value reported
