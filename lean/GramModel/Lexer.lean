import GramModel.Token
import GramModel.Generated.Tokenizer

/-!
# Tokenizer (model of `src/tokenizer.rs`)

Text is a `List Char`; positions are UTF-8 byte offsets (`Char.utf8Size`).  Unicode
classification and grapheme segmentation are *parameters* (`CharClass`): the theorems hold for
every classifier, and the harness supplies the real one (Rust std / unicode-segmentation) per
input.  The two line-break tables and the keyword table are the ones regenerated from the source
(`Generated/Tokenizer.lean`).
-/

structure CharClass where
  isAlpha : Char → Bool        -- `char::is_alphabetic`
  isAlnum : Char → Bool        -- `char::is_alphanumeric`
  isWs : Char → Bool           -- `char::is_whitespace`
  graphemeEnd : Nat → Nat      -- byte offset → next grapheme-cluster boundary after it

def bytesOf (cs : List Char) : Nat := cs.foldl (fun n c => n + c.utf8Size) 0

def isDigit (c : Char) : Bool := '0' ≤ c ∧ c ≤ '9'

def digitsValue (ds : List Char) : Nat := ds.foldl (fun n d => n * 10 + (d.toNat - 48)) 0

def identStart (cc : CharClass) (c : Char) : Bool := cc.isAlpha c || c == '_'
def identCont (cc : CharClass) (c : Char) : Bool := cc.isAlnum c || c == '_'

/-- the word token for an identifier-shaped lexeme: a keyword iff it *equals* a keyword -/
def wordKind (w : List Char) : TokKind :=
  match Generated.keywords.find? (fun p => p.2 == w) with
  | some p => p.1
  | none => .identifier w

def spanChars (p : Char → Bool) : List Char → List Char × List Char
  | [] => ([], [])
  | c :: cs => if p c then let (a, b) := spanChars p cs; (c :: a, b) else ([], c :: cs)

/-- a comment runs up to, not including, the next line feed -/
def skipComment : List Char → Nat → List Char × Nat
  | [], pos => ([], pos)
  | c :: cs, pos => if c == '\n' then (c :: cs, pos) else skipComment cs (pos + c.utf8Size)

structure LexState where
  toks : List Tok            -- reversed
  errs : List (Nat × Nat)    -- reversed ranges of unexpected symbols
  panic : Bool := false
deriving Repr

def LexState.push (s : LexState) (k : TokKind) (a b : Nat) : LexState :=
  { s with toks := ⟨k, a, b⟩ :: s.toks }

/-- Is the previous token one after which a line break ends an expression? (first table) -/
def lastCanEnd (s : LexState) : Option Bool :=
  match s.toks with
  | [] => some false
  | t :: _ => Generated.canEnd t.kind

/-- The scanning loop.  `fuel` bounds the number of iterations (each consumes ≥ 1 character, so
`cs.length` suffices — `scan_fuel_enough`). -/
def scan (cc : CharClass) : Nat → Nat → List Char → LexState → LexState
  | 0, _, _, s => s
  | _, _, [], s => s
  | fuel+1, pos, c :: cs, s =>
    let one (k : TokKind) := scan cc fuel (pos + 1) cs (s.push k pos (pos + 1))
    let two (k : TokKind) (rest : List Char) := scan cc fuel (pos + 2) rest (s.push k pos (pos + 2))
    if c == '*' then one .asterisk
    else if c == ':' then one .colon
    else if c == '{' then one .leftCurly
    else if c == '(' then one .leftParen
    else if c == '+' then one .plus
    else if c == '}' then one .rightCurly
    else if c == ')' then one .rightParen
    else if c == '/' then one .slash
    else if c == ';' then one .terminatorSemicolon
    else if c == '\n' then
      match lastCanEnd s with
      | none => { s with panic := true }
      | some true => one .terminatorLineBreak
      | some false => scan cc fuel (pos + 1) cs s
    else if c == '-' then
      match cs with
      | '>' :: r => two .thinArrow r
      | _ => one .minus
    else if c == '<' then
      match cs with
      | '=' :: r => two .lessThanOrEqualTo r
      | _ => one .lessThan
    else if c == '=' then
      match cs with
      | '=' :: r => two .doubleEquals r
      | '>' :: r => two .thickArrow r
      | _ => one .equals
    else if c == '>' then
      match cs with
      | '=' :: r => two .greaterThanOrEqualTo r
      | _ => one .greaterThan
    else if identStart cc c then
      let (w, rest) := spanChars (identCont cc) cs
      let stop := pos + c.utf8Size + bytesOf w
      scan cc fuel stop rest (s.push (wordKind (c :: w)) pos stop)
    else if isDigit c then
      let (w, rest) := spanChars isDigit cs
      let stop := pos + 1 + bytesOf w
      scan cc fuel stop rest (s.push (.integerLiteral (digitsValue (c :: w))) pos stop)
    else if cc.isWs c then scan cc fuel (pos + c.utf8Size) cs s
    else if c == '#' then
      let (rest, p) := skipComment cs (pos + 1)
      scan cc fuel p rest s
    else
      scan cc fuel (pos + c.utf8Size) cs { s with errs := (pos, cc.graphemeEnd pos) :: s.errs }

/-- Second pass: drop a line-break terminator that is last or whose successor cannot start an
expression; `none` = the panic arm (two consecutive line-break terminators). -/
def filterToks : List Tok → Option (List Tok)
  | [] => some []
  | t :: rest =>
    match filterToks rest with
    | none => none
    | some rest' =>
      if t.kind = .terminatorLineBreak then
        match rest with
        | [] => some rest'
        | n :: _ =>
          match Generated.canStart n.kind with
          | none => none
          | some true => some (t :: rest')
          | some false => some rest'
      else some (t :: rest')

inductive LexResult
  | ok (toks : List Tok)
  | err (ranges : List (Nat × Nat))
  | panic
deriving Repr, DecidableEq

def tokenize (cc : CharClass) (text : List Char) : LexResult :=
  let s := scan cc text.length 0 text { toks := [], errs := [] }
  if s.panic then .panic
  else if !s.errs.isEmpty then .err s.errs.reverse
  else match filterToks s.toks.reverse with
    | some ts => .ok ts
    | none => .panic

/-- The side conditions on the Unicode classifier under which the layout theorems hold: the ASCII
characters gram's syntax is made of are classified the way Rust's std classifies them. -/
structure CharClass.Sane (cc : CharClass) : Prop where
  hash_plain : identStart cc '#' = false ∧ cc.isWs '#' = false
  nl_plain : identStart cc '\n' = false
  space_ws : cc.isWs ' ' = true ∧ identStart cc ' ' = false
  tab_ws : cc.isWs '\t' = true ∧ identStart cc '\t' = false

/-- the characters that are tokens (or token prefixes) by themselves -/
def symbolChars : List Char := ['*', ':', '{', '(', '+', '}', ')', '/', ';', '\n', '-', '<', '=', '>']

/-- forward-ordered, disjoint, non-empty ranges between `lo` and `hi` -/
def orderedIn : List Tok → Nat → Nat → Prop
  | [], lo, hi => lo ≤ hi
  | t :: r, lo, hi => lo ≤ t.start ∧ t.start < t.stop ∧ orderedIn r t.stop hi

/-- no two adjacent line-break terminators -/
def noTwoLB : List Tok → Prop
  | a :: b :: r => ¬ (a.kind = .terminatorLineBreak ∧ b.kind = .terminatorLineBreak) ∧ noTwoLB (b :: r)
  | _ => True
