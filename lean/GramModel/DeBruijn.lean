import GramModel.Syntax

/-!
# De Bruijn operations (model of `src/de_bruijn.rs` and `term.rs::free_variables`)

This is the *pure* layer: a hole is treated the way the Rust treats an **unresolved** unifier
(`signed_shift` adjusts its shift like an index and fails below the cutoff; `open` decrements the
shift above the replaced index; `free_variables` ignores it).  On hole-free terms — the domain of
property C11 — this is exactly the Rust.  The store-aware layer (`Store.lean`) follows resolved
cells and allocates the fresh cell that `open` creates.
-/

mutual
def sshift (c : Nat) (amt : Int) : Tm → Option Tm
  | .var x i =>
      if i ≥ c then
        if (i : Int) + amt ≥ (c : Int) then some (.var x ((i : Int) + amt).toNat) else none
      else some (.var x i)
  | .hole id s =>
      if s ≥ c then
        if (s : Int) + amt ≥ (c : Int) then some (.hole id ((s : Int) + amt).toNat) else none
      else some (.hole id s)
  | .lam x im d b =>
      match sshift c amt d with
      | none => none
      | some d' => match sshift (c+1) amt b with
        | none => none
        | some b' => some (.lam x im d' b')
  | .pi x im d b =>
      match sshift c amt d with
      | none => none
      | some d' => match sshift (c+1) amt b with
        | none => none
        | some b' => some (.pi x im d' b')
  | .app f a =>
      match sshift c amt f with
      | none => none
      | some f' => match sshift c amt a with
        | none => none
        | some a' => some (.app f' a')
  | .letg ds b =>
      match sshiftDefs (c + ds.len) amt ds with
      | none => none
      | some ds' => match sshift (c + ds.len) amt b with
        | none => none
        | some b' => some (.letg ds' b')
  | .neg a =>
      match sshift c amt a with
      | none => none
      | some a' => some (.neg a')
  | .bin op a b =>
      match sshift c amt a with
      | none => none
      | some a' => match sshift c amt b with
        | none => none
        | some b' => some (.bin op a' b')
  | .ite a b d =>
      match sshift c amt a with
      | none => none
      | some a' => match sshift c amt b with
        | none => none
        | some b' => match sshift c amt d with
          | none => none
          | some d' => some (.ite a' b' d')
  | .type => some .type
  | .int => some .int
  | .bool => some .bool
  | .tt => some .tt
  | .ff => some .ff
  | .lit n => some (.lit n)
def sshiftDefs (c : Nat) (amt : Int) : Defs → Option Defs
  | .nil => some .nil
  | .cons x a d r =>
      match sshift c amt a with
      | none => none
      | some a' => match sshift c amt d with
        | none => none
        | some d' => match sshiftDefs c amt r with
          | none => none
          | some r' => some (.cons x a' d' r')
end

mutual
def ushift (c a : Nat) : Tm → Tm
  | .var x i => if i ≥ c then .var x (i + a) else .var x i
  | .hole id s => if s ≥ c then .hole id (s + a) else .hole id s
  | .lam x im d b => .lam x im (ushift c a d) (ushift (c+1) a b)
  | .pi x im d b => .pi x im (ushift c a d) (ushift (c+1) a b)
  | .app f g => .app (ushift c a f) (ushift c a g)
  | .letg ds b => .letg (ushiftDefs (c + ds.len) a ds) (ushift (c + ds.len) a b)
  | .neg t => .neg (ushift c a t)
  | .bin op t u => .bin op (ushift c a t) (ushift c a u)
  | .ite t u v => .ite (ushift c a t) (ushift c a u) (ushift c a v)
  | .type => .type
  | .int => .int
  | .bool => .bool
  | .tt => .tt
  | .ff => .ff
  | .lit n => .lit n
def ushiftDefs (c a : Nat) : Defs → Defs
  | .nil => .nil
  | .cons x t u r => .cons x (ushift c a t) (ushift c a u) (ushiftDefs c a r)
end

mutual
def openT (t : Tm) (i : Nat) (u : Tm) (s : Nat) : Tm :=
  match t with
  | .var x j => if j = i then ushift 0 s u else if j > i then .var x (j - 1) else .var x j
  | .hole id k => if k > i then .hole id (k - 1) else .hole id k
  | .lam x im d b => .lam x im (openT d i u s) (openT b (i+1) u (s+1))
  | .pi x im d b => .pi x im (openT d i u s) (openT b (i+1) u (s+1))
  | .app f a => .app (openT f i u s) (openT a i u s)
  | .letg ds b => .letg (openDefs ds (i + ds.len) u (s + ds.len)) (openT b (i + ds.len) u (s + ds.len))
  | .neg a => .neg (openT a i u s)
  | .bin op a b => .bin op (openT a i u s) (openT b i u s)
  | .ite a b c => .ite (openT a i u s) (openT b i u s) (openT c i u s)
  | .type => .type
  | .int => .int
  | .bool => .bool
  | .tt => .tt
  | .ff => .ff
  | .lit n => .lit n
def openDefs (ds : Defs) (i : Nat) (u : Tm) (s : Nat) : Defs :=
  match ds with
  | .nil => .nil
  | .cons x a d r => .cons x (openT a i u s) (openT d i u s) (openDefs r i u s)
end

-- `freeVars t c`: the list (with repetitions, in traversal order) of `index - c` for every
-- variable occurrence whose index is `≥ c`; the Rust collects the same numbers into a set.
mutual
def freeVars (t : Tm) (c : Nat) : List Nat :=
  match t with
  | .var _ i => if i ≥ c then [i - c] else []
  | .lam _ _ d b => freeVars d c ++ freeVars b (c+1)
  | .pi _ _ d b => freeVars d c ++ freeVars b (c+1)
  | .app f a => freeVars f c ++ freeVars a c
  | .letg ds b => freeVarsDefs ds (c + ds.len) ++ freeVars b (c + ds.len)
  | .neg a => freeVars a c
  | .bin _ a b => freeVars a c ++ freeVars b c
  | .ite a b d => freeVars a c ++ freeVars b c ++ freeVars d c
  | _ => []
def freeVarsDefs (ds : Defs) (c : Nat) : List Nat :=
  match ds with
  | .nil => []
  | .cons _ a d r => freeVars a c ++ freeVars d c ++ freeVarsDefs r c
end

-- `freeAt t i`: variable `i` occurs free in `t`.
mutual
def freeAt (t : Tm) (i : Nat) : Bool :=
  match t with
  | .var _ j => j == i
  | .lam _ _ d b => freeAt d i || freeAt b (i+1)
  | .pi _ _ d b => freeAt d i || freeAt b (i+1)
  | .app f a => freeAt f i || freeAt a i
  | .letg ds b => freeAtDefs ds (i + ds.len) || freeAt b (i + ds.len)
  | .neg a => freeAt a i
  | .bin _ a b => freeAt a i || freeAt b i
  | .ite a b d => freeAt a i || freeAt b i || freeAt d i
  | _ => false
def freeAtDefs (ds : Defs) (i : Nat) : Bool :=
  match ds with
  | .nil => false
  | .cons _ a d r => freeAt a i || freeAt d i || freeAtDefs r i
end

-- `wellScoped n t`: every free variable of `t` is `< n` (and every hole shift is `≤ n`, i.e. the
-- hole's home scope exists).
mutual
def wellScoped (n : Nat) : Tm → Bool
  | .var _ i => decide (i < n)
  | .hole _ s => decide (s ≤ n)
  | .lam _ _ d b => wellScoped n d && wellScoped (n+1) b
  | .pi _ _ d b => wellScoped n d && wellScoped (n+1) b
  | .app f a => wellScoped n f && wellScoped n a
  | .letg ds b => wellScopedDefs (n + ds.len) ds && wellScoped (n + ds.len) b
  | .neg a => wellScoped n a
  | .bin _ a b => wellScoped n a && wellScoped n b
  | .ite a b d => wellScoped n a && wellScoped n b && wellScoped n d
  | _ => true
def wellScopedDefs (n : Nat) : Defs → Bool
  | .nil => true
  | .cons _ a d r => wellScoped n a && wellScoped n d && wellScopedDefs n r
end

-- `lowFree t c k`: some variable (or hole shift) of `t` lies in `[c, c+k)` — exactly the
-- occurrences that would become unbound when shifting down by `k` at cutoff `c`.
mutual
def lowFree (t : Tm) (c k : Nat) : Bool :=
  match t with
  | .var _ i => decide (c ≤ i ∧ i < c + k)
  | .hole _ s => decide (c ≤ s ∧ s < c + k)
  | .lam _ _ d b => lowFree d c k || lowFree b (c+1) k
  | .pi _ _ d b => lowFree d c k || lowFree b (c+1) k
  | .app f a => lowFree f c k || lowFree a c k
  | .letg ds b => lowFreeDefs ds (c + ds.len) k || lowFree b (c + ds.len) k
  | .neg a => lowFree a c k
  | .bin _ a b => lowFree a c k || lowFree b c k
  | .ite a b d => lowFree a c k || lowFree b c k || lowFree d c k
  | _ => false
def lowFreeDefs (ds : Defs) (c k : Nat) : Bool :=
  match ds with
  | .nil => false
  | .cons _ a d r => lowFree a c k || lowFree d c k || lowFreeDefs r c k
end
