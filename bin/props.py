"""Per-property configuration of bin/check."""

TRUSTED_BASE = [
    "Lean 4.33.0 kernel (thorough tier: re-checked by leanchecker)",
    "axioms allowed: propext, Quot.sound, Classical.choice (audited with #print axioms on every claimed theorem); no sorry/admit/native_decide/bv_decide/implemented_by/unsafe/custom axioms (grep, comments stripped)",
    "the statements in lean/GramModel/Props/*.lean and the small specifications they mention",
    "correspondence harness (harness/: Rust serialiser, generators) and Lean line-protocol driver (lean/Driver): differential testing ties the hand-written model to /repo's current sources",
    "Lean's code generator for the compiled driver (correspondence only, not the theorems)",
]

PROPS = {
    "C11": {
        "suites": ["debruijn"],
        "assumptions": [
            "model functions sshift/ushift/openT/freeVars are tied to de_bruijn.rs / term.rs::free_variables by the op-level correspondence (exhaustive over all hole-free terms up to a size bound, random beyond), not by proof",
            "the pure model treats a hole as an unresolved unifier; resolved cells are covered by the store layer",
        ],
    },
    "C02": {
        "suites": ["eval"],
        "assumptions": [
            "model step/isValue are tied to evaluator.rs by comparing every intermediate term of every run",
            "BigInt arithmetic is Lean's Int (Int.tdiv for checked_div), tied by operands far beyond 64 bits",
            "recursion depth within the stack budget is not modelled",
        ],
    },
    "C09": {
        "suites": ["lexer"],
        "assumptions": [
            "Unicode classification (is_alphabetic / is_alphanumeric / is_whitespace) and grapheme boundaries are parameters of the model; the harness ships the real std / unicode-segmentation answers per input",
            "model scan/filterToks tied to tokenizer.rs by op `tok` on all strings up to a length bound over a class-representative alphabet and on random longer Unicode texts",
        ],
    },
    "C10": {
        "suites": ["lexer"],
        "assumptions": [
            "the two line-break tables and the keyword table are regenerated from tokenizer.rs / token.rs on every run and the table obligations re-decided",
            "the full render/tokenize law is evaluated on the implementation (search), its unbounded proof is pending",
        ],
    },
    "C01": {
        "suites": ["pipeline", "programs"],
        "assumptions": ["progress is decided per program on the implementation (search) and by the stuck-term classification theorem on the model; subject reduction is not proved"],
    },
}
