"""Per-property configuration of bin/check."""
from cli_checks import c13_step, c14_step, c17_step, c19_step, c05_step

TRUSTED_BASE = [
    "Lean 4.33.0 kernel (thorough tier: re-checked by leanchecker)",
    "axioms allowed: propext, Quot.sound, Classical.choice (audited with #print axioms on every claimed theorem); no sorry/admit/native_decide/bv_decide/implemented_by/unsafe/custom axioms (grep, comments stripped)",
    "the statements in lean/GramModel/Props/*.lean and the small specifications they mention",
    "correspondence harness (harness/: Rust serialiser, generators) and Lean line-protocol driver (lean/Driver): differential testing ties the hand-written model to /repo's current sources",
    "table extractor extract/extract.py and arm translator extract/arms.py (regenerate Generated/*.lean from /repo's sources on every run: keyword and line-break tables, is_value, printer partition, hash-iteration / panic / nondeterminism sites, grammar.y, and the match arms of signed_shift, open, free_variables, step, normalize_weak_head, type_check_rec, unify, syntactically_equal, Display, the tokenizer's symbol arms and the steps of the 36 parse functions); the interpretation of the arm tables is PROVED equal to the model functions, the extraction itself is trusted",
    "Lean's code generator for the compiled driver (correspondence only, not the theorems)",
]

PROPS = {
    "C11": {
        "suites": ["debruijn"],
        "assumptions": [
            "the congruence arms of sshift/openT/freeVars are tied to de_bruijn.rs / term.rs::free_variables by the arm translator extract/arms.py (tables regenerated every run, generic interpretation proved equal to the model: C11_*_arms_tie) and by the op-level correspondence (exhaustive over all hole-free terms up to a size bound, random beyond); the Variable/Unifier arms by CRC pin + correspondence only",
            "the pure model treats a hole as an unresolved unifier; resolved cells are covered by the store layer",
        ],
    },
    "C02": {
        "suites": ["eval", "programs", "pipeline"],
        "assumptions": [
            "model step/isValue are tied to evaluator.rs by comparing every intermediate term of every run",
            "BigInt arithmetic is Lean's Int (Int.tdiv for checked_div), tied by operands far beyond 64 bits",
            "recursion depth within the stack budget is not modelled",
        ],
    },
    "C09": {
        "suites": ["lexer"],
        "assumptions": [
            "Unicode classification (is_alphabetic / is_alphanumeric / is_whitespace) and grapheme boundaries are parameters of the model; the harness ships the real std / unicode-segmentation answers per input",
            "model scan/filterToks tied to tokenizer.rs by op `tok` on all strings up to a length bound over a class-representative alphabet and on random longer Unicode texts",
        ],
    },
    "C10": {
        "suites": ["lexer", "parser"],
        "assumptions": [
            "the two line-break tables and the keyword table are regenerated from tokenizer.rs / token.rs on every run and the table obligations re-decided",
            "the full render/tokenize law is proved for the model (C10_render_law) under two extra sanity conditions on the Unicode classifier (`#` and line feed are not identifier characters), which hold of Rust std; it is also evaluated on the implementation (search)",
        ],
    },
    "C01": {
        "suites": ["pipeline", "programs", "unify"],
        "assumptions": ["progress is decided per program on the implementation (search) and by the stuck-term classification theorem on the model; subject reduction is not proved"],
    },
    "C05": {"suites": ["programs", "unify", "pipeline"], "extra": [c05_step], "assumptions": ["completeness of the checker is decided per generated program (type-directed generator with its own expected type), not proved"]},
    "C12": {"suites": ["unify", "debruijn"], "assumptions": ["soundness of unification w.r.t. the declarative conversion is proved for the model when no hole is copied and every hole sits at least as deep as its shift (C12_unify_sound_fixed); outside these hypotheses it is false of the code (recorded findings) and the solutions are validated per run on the implementation"]},
    "C18": {"suites": ["unify", "programs", "pipeline"], "assumptions": ["agreement with the closed program is proved for the independent checker inferX / convX / whnfX over whole contexts (Lemmas/CtxWrap.lean) and for the model of gram's own checker over parameter contexts (Lemmas/CtxWrapS.lean); for groups in gram's own checker it is the one-step equation plus the oracle on the implementation; restoration is proved for the model and observed on the implementation for every call"]},
    "C13": {"suites": [], "extra": [c13_step],
            "rule": "launches of the real binary (fresh process, fresh hash seed) on corpus files and generated multi-diagnostic files; distinct = (file, mode) pairs",
            "assumptions": ["address-dependent behaviour (HashableRc hashes pointers, used for `contains` only) cannot be exhibited by the model; it is covered by repeated launches"]},
    "C14": {"suites": ["lexer", "parser", "pipeline"], "extra": [c14_step],
            "assumptions": ["stack exhaustion is outside the model (known finding KF-stack)", "clap argument parsing and file reading are not modelled"]},
    "C17": {"suites": ["parser"], "extra": [c17_step],
            "assumptions": ["a theorem bounds model bookkeeping, not wall-clock time; time is measured on the real code (release build) for 16 input families",
                            "the per-nonterminal cache hit/miss counters of the implementation (hook H1) are compared with the model's on every `parsestats` op"]},
    "C03": {"suites": ["pipeline", "programs", "unify"], "assumptions": ["every program the real checker accepts is re-checked by the independent Lean checker inferX on its zonked elaboration (translation validation per program); inferX is proved sound for the declarative rules of Typing.lean on hole-free terms, and the model of gram's checker is proved sound for them on hole-free programs (C03_checker_sound_holefree)", "an unresolved hole is an unknown compatible with anything"]},
    "C04": {"suites": ["programs", "pipeline", "unify"], "assumptions": ["the value of every terminating accepted program is typed by the independent checker and compared with the reported type; preservation is not proved"]},
    "C06": {"suites": ["programs", "unify", "pipeline"], "assumptions": ["coincidence of conversion with joinability, closure under reduction and agreement of normalizer and evaluator on ground results are proved for the model on hole-free terms (Lemmas/ConvCoherence.lean); termination is not, and programs with holes are decided per program on the implementation"]},
    "C15": {"suites": ["listing", "parser", "programs"], "assumptions": ["for type faults the range convention is pinned by experiment per kind of subexpression (programs suite: one generated subexpression of a wrong type at a position whose expected type is known; its byte span in the rendered text is compared with the ranges passed to `listing`, hook H3)", "Unicode whitespace classification is a parameter of the model, supplied per input", "ranges of scoping/type diagnostics are compared through hook H3 (ranges passed to listing) in the parser suite"]},
    "C16": {"suites": ["print", "programs"], "assumptions": ["the whole round trip print -> tokenize -> parse -> re-associate -> resolve is proved to return the term itself for hole-free printable well-scoped terms (C16_read_back) — about the five MODELS (printer, tokenizer, parser, passes, resolver); each model is tied to the Rust by its correspondence suite, and the printed text is re-read by the real tokenizer and parser on every run (oracle on the implementation)"]},
    "C19": {"suites": ["programs", "pipeline"], "extra": [c19_step], "assumptions": ["acceptance-invariance is proved for if-true, annotated identity, unused definition and names, result-invariance additionally for naming a subexpression, reordering independent non-recursive definitions and redundant parentheses; typing invariance of naming/reordering is not proved; all of it is also searched: every rewrite kind at random sites of every generated program, outcome compared through the real pipeline"]},
    "C07": {"suites": ["parser", "programs"], "assumptions": ["soundness, completeness and unambiguity are proved for the parser MODEL (C07_parse_sound, C07_parse_complete, C07_unambiguous); the model is tied to parser.rs by the steps translator and by correspondence, and the iff is additionally watched on the implementation by enumeration (Earley recogniser over the grammar file, every token sequence up to a length bound, every generated sentence)"]},
    "C08": {"suites": ["parser", "programs"], "assumptions": ["the specification toDB (binder stack) is part of the trusted statements; the reference resolver in the harness (resolve_ref.rs) is an independent third implementation"]},
}
