#!/usr/bin/env python3
"""Regenerates MANIFEST.json from bin/props.py (claimed properties) and properties.jsonl."""
import json, os, sys
VERIF = os.path.dirname(os.path.dirname(os.path.abspath(__file__)))
sys.path.insert(0, os.path.join(VERIF, "bin"))
from props import PROPS
from manifest_text import TEXT, NOT_CLAIMED_REASON
ids = [json.loads(l)["id"] for l in open(os.path.join(VERIF, "properties.jsonl"))]
checks = []
for pid in ids:
    if pid not in PROPS:
        continue
    t = TEXT[pid]
    checks.append({
        "property_id": pid,
        "quick_cmd": f"bin/check {pid} --tier quick",
        "thorough_cmd": f"bin/check {pid} --tier thorough",
        "evidence_file": f"/verif/evidence/{pid}.json",
        "replay_cmd_template": f"bin/check {pid} --replay {{path}}",
        "engine": "lean4-proof+correspondence",
        "level_claimed": {"category": "proof", "text": t["level"], "design_ref": t.get("ref", "DESIGN.md section 6")},
        "level_note": t["note"],
        "technique": t["technique"],
    })
hooks_commits = []
hc = os.path.join(VERIF, "hooks_commits.txt")
if os.path.exists(hc):
    hooks_commits = [l.strip() for l in open(hc) if l.strip()]
m = {
    "version": 1,
    "setup_cmd": "bin/setup",
    "hooks": {
        "guard": "cargo feature verif-hooks",
        "enable": "the harness crate (harness/) compiles /repo/src/*.rs in with its own feature verif-hooks on; the gram binary is built with --features verif-hooks where a hook is needed",
        "baseline_off_cmd": "cd /repo && cargo test --workspace --no-fail-fast --offline",
        "source_commits": hooks_commits,
        "add_only": True,
    },
    "engines": [
        {"name": "lean4-proof+correspondence", "path": "/verif/lean, /verif/harness, /verif/bin/check",
         "serves_properties": [c["property_id"] for c in checks],
         "kind_free_text": "Lean 4 theorems about a hand-written executable model; model tied to /repo by a differential correspondence harness (real Rust code in-process vs compiled Lean driver) and by tables regenerated from the sources; property oracles searched on the implementation"}
    ],
    "checks": checks,
    "notes": "See DESIGN.md. Known findings (genuine defects of the pinned tree that are recorded rather than repaired) are listed in known_findings.json.",
    "not_applicable": [{"property_id": pid, "reason": NOT_CLAIMED_REASON.get(pid, "not claimed yet: the model and check for this property are still being built (see DESIGN.md section 13)")} for pid in ids if pid not in PROPS],
}
json.dump(m, open(os.path.join(VERIF, "MANIFEST.json"), "w"), indent=1)
print("MANIFEST.json:", len(checks), "checks,", len(m["not_applicable"]), "unclaimed")
