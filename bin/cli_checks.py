"""Checks that run the real `gram` binary (built from /repo's working tree, hooks off):
C13 (byte-identical output across launches) and the CLI contract of C14."""
import os, subprocess, random, hashlib, itertools, glob, time, fcntl

VERIF = os.path.dirname(os.path.dirname(os.path.abspath(__file__)))
BUILD = os.path.join(VERIF, "build")
GRAM = os.path.join(BUILD, "gram-target", "release", "gram")


def build_gram(log):
    env = dict(os.environ, CARGO_NET_OFFLINE="true", CARGO_TARGET_DIR=os.path.join(BUILD, "gram-target"))
    lock = open(os.path.join(BUILD, "gram.lock"), "w")
    fcntl.flock(lock, fcntl.LOCK_EX)
    try:
        p = subprocess.run(["cargo", "build", "--release", "--offline"], cwd=os.environ.get("GRAM_REPO", "/repo"), env=env, stdout=subprocess.PIPE,
                           stderr=subprocess.STDOUT, text=True)
    finally:
        fcntl.flock(lock, fcntl.LOCK_UN)
    log.append(("cargo build gram", p.returncode, p.stdout[-1500:]))
    return p.returncode == 0, p.stdout


def launch(mode, path, timeout=20):
    env = dict(os.environ, NO_COLOR="1")
    try:
        p = subprocess.run([GRAM, mode, path], stdout=subprocess.PIPE, stderr=subprocess.PIPE, env=env, timeout=timeout)
        return p.returncode, p.stdout, p.stderr
    except subprocess.TimeoutExpired:
        return "timeout", b"", b""


def multi_diagnostic_programs(rng, n):
    """programs biased to produce several diagnostics at once"""
    names = ["a", "b", "c", "d", "e", "f", "g", "h", "k", "m"]
    out = []
    for _ in range(n):
        kind = rng.randrange(6)
        k = rng.randrange(2, 6)
        xs = rng.sample(names, k + 1)
        if kind == 0:  # one definition referring to several later non-value definitions
            first = f"{xs[0]} = " + " + ".join(xs[1:])
            rest = [f"{x} = {i} + {i}" for i, x in enumerate(xs[1:], 1)]
            rng.shuffle(rest)
            out.append("; ".join([first] + rest + [xs[0]]))
        elif kind == 1:  # several unbound variables
            out.append(" + ".join(f"u{rng.randrange(50)}" for _ in range(k)))
        elif kind == 2:  # several names redefined in one group
            defs = [f"{x} = {i}" for i, x in enumerate(xs)] + [f"{x} = {i + 10}" for i, x in enumerate(xs[:k])]
            rng.shuffle(defs)
            out.append("; ".join(defs + [xs[0]]))
        elif kind == 3:  # several type errors
            out.append(" + ".join(rng.choice(["true", "type", "(1 == 2)", "int", "false"]) for _ in range(k)))
        elif kind == 4:  # a definition reaching the same later definition along several paths
            base = xs[-1]
            fns = [f"{x} = (v{i} : int) => v{i} * {base}" for i, x in enumerate(xs[1:-1])]
            total = f"{xs[0]} = " + " + ".join([f"{x} 1" for x in xs[1:-1]] + [base])
            out.append("; ".join([total] + fns + [f"{base} = 2 + 3", xs[0]]))
        else:  # mixed: shadowing inside lambdas plus unbound
            out.append("; ".join([f"{x} = ({x} : int) => {x} + q{i}" for i, x in enumerate(xs[:k])] + [xs[0]]))
    return out


def syntax_error_programs(rng, n, corpus_files):
    """programs with ONE syntax error (plus a few hand-picked shapes): binder forms in operand position, leftover tokens,
    missing parts, stray tokens -- the inputs on which the parser's recovery and error selection are exercised"""
    shapes = ["f ({x : type} y)", "f ((x : type) y)", "f ({x} y)", "(x : type) y", "{x : type} y", "x : type", "a : = 1; a", "1 )", "f (x => ) y",
              "f (if a then b) c", "g (x : int) -> ) 1", "a = 1; b = ; a", "f ({x : type} -> ) y", "(a b : type) => a", "f 1 2 )) 3", "if a then b else",
              "x = (y : int) => ; x", "{x : type} => => x", "f ({x : int} 1) ({y : int} 2)", "a = f ({x : type} y); a"]
    stray = [")", "(", "=>", "->", ":", "=", "then", "else", "{x : type}", ";", "}", "{", "if"]
    out = list(shapes)
    srcs = []
    for f in corpus_files:
        try:
            t = "\n".join(l for l in open(f, errors="replace").read().split("\n") if not l.startswith("#"))
            if 0 < len(t) < 400: srcs.append(t)
        except Exception:
            pass
    while len(out) < n + len(shapes) and srcs:
        t = rng.choice(srcs)
        chunks = t.split(" ")
        if len(chunks) < 3: continue
        k = rng.randrange(len(chunks))
        kind = rng.randrange(4)
        if kind == 0: del chunks[k]
        elif kind == 1: chunks.insert(k, rng.choice(stray))
        elif kind == 2 and k + 1 < len(chunks): chunks[k], chunks[k + 1] = chunks[k + 1], chunks[k]
        else: chunks[k] = rng.choice(stray)
        out.append(" ".join(chunks))
    return out


def c13_step(tier, seed, rundir, log):
    hits, cov = [], {}
    ok, out = build_gram(log)
    if not ok:
        return [{"property": "C13", "kind": "gram-does-not-build", "input": "", "detail": out[-400:], "suite": "cli"}], cov
    rng = random.Random(seed * 7919 + 13)
    d = os.path.join(rundir, "cli13")
    os.makedirs(d, exist_ok=True)
    files = sorted(glob.glob(os.path.join(VERIF, "corpus", "*.g")))
    progs = multi_diagnostic_programs(rng, 120 if tier == "thorough" else 40)
    for i, src in enumerate(progs):
        p = os.path.join(d, f"multi{i}.g")
        open(p, "w").write(src)
        files.append(p)
    corpus_files = list(files)
    for i, src in enumerate(syntax_error_programs(rng, 150 if tier == "thorough" else 50, [f for f in corpus_files if "multi" not in os.path.basename(f)])):
        p = os.path.join(d, f"syntax{i}.g")
        open(p, "w").write(src)
        files.append(p)
    launches = 50 if tier == "thorough" else 8
    n_launch = 0
    distinct_inputs = set()
    samples = []
    for f in files:
        for mode in ("check", "run"):
            outs = {}
            for _ in range(launches):
                r = launch(mode, f)
                n_launch += 1
                key = hashlib.sha1(repr(r).encode()).hexdigest()
                outs.setdefault(key, r)
            distinct_inputs.add((f, mode))
            if len(outs) > 1:
                vs = list(outs.values())
                extra = ""
                if b"panicked at" in vs[0][2]:
                    # a crash report carries the OS thread id; say which crash it is (recorded finding or new)
                    extra = " in-process: " + inprocess_detail(f, d)
                hits.append({"property": "C13", "kind": "output-differs-between-launches", "input": open(f, errors="replace").read(),
                             "detail": f"gram {mode}: {len(outs)} distinct outputs in {launches} launches; e.g. stderr A: {vs[0][2][:300]!r} stderr B: {vs[1][2][:300]!r}{extra}",
                             "suite": "cli"})
            elif len(samples) < 4:
                r = next(iter(outs.values()))
                samples.append(f"gram {mode} {os.path.basename(f)}: {launches} launches identical (exit {r[0]}, {len(r[1])} bytes stdout, {len(r[2])} bytes stderr)")
    multi = sum(1 for f in files if "multi" in os.path.basename(f))
    cov["cli_syntax_error_files"] = sum(1 for f in files if os.path.basename(f).startswith("syntax"))
    cov.update({"evaluations": n_launch, "distinct_nontrivial": len(distinct_inputs), "samples": samples,
                "cli_files": len(files), "cli_multi_diagnostic_files": multi, "launches_per_file_and_mode": launches})
    return hits, cov


ALPHABET = [b"a", b"x", b"1", b"0", b"_", b" ", b"\n", b"\t", b"\r", b";", b"(", b")", b"{", b"}", b"+", b"-", b"*", b"/", b"<", b">",
            b"=", b":", b"#", b"$", b"@", b"\\", b"\"", b"\x00", b"\x7f", b"\xc3", b"\xa9", b"\xc3\xa9", b"\xe2\x80\xa8", b"\xf0\x9d\x90\x80",
            b"\xff", b"\xc0\x80", b"\xed\xa0\x80", b"if", b"then", b"type"]


def contract(rc, out, err):
    if rc == "timeout":
        return "timeout"
    if rc == 0:
        return None if err == b"" else "exit-0-with-diagnostics-on-stderr"
    if rc == 1:
        if out != b"":
            return "exit-1-with-output-on-stdout"
        if b"[Error]" not in err:
            return "exit-1-without-[Error]-diagnostic"
        if b"panicked" in err or b"Error joining thread" in err:
            return "panic"
        return None
    return f"abnormal-exit-{rc}"


def inprocess_detail(path, d):
    """The same input through the in-process pipeline (hooks on): what the harness says about the panic
    (stage, message, hook counters) -- used to tell a recorded finding from a new panic."""
    harness = os.path.join(BUILD, "harness-target", "release", "gram-verif-harness")
    out = os.path.join(d, "inproc")
    os.makedirs(out, exist_ok=True)
    try:
        subprocess.run([harness, "pipeline", "quick", "1", out], env=dict(os.environ, VERIF_ONLY_FILE=path, VERIF_ROOT=VERIF),
                       stdout=subprocess.PIPE, stderr=subprocess.PIPE, timeout=60)
        for line in open(os.path.join(out, "pipeline.hits"), errors="replace"):
            parts = line.rstrip("\n").split("\t")
            if len(parts) >= 4 and parts[0] == "C14":
                return f"{parts[1]}: {parts[3][:300]}"
    except Exception as ex:  # noqa: BLE001
        return f"(not available: {ex})"
    return "(no in-process hit)"


def c14_step(tier, seed, rundir, log):
    hits, cov = [], {}
    ok, out = build_gram(log)
    if not ok:
        return [{"property": "C14", "kind": "gram-does-not-build", "input": "", "detail": out[-400:], "suite": "cli"}], cov
    rng = random.Random(seed * 104729 + 14)
    d = os.path.join(rundir, "cli14")
    os.makedirs(d, exist_ok=True)
    inputs = []
    # all byte strings of length <= 2 over the alphabet, a sample (quick) or all (thorough) of length 3
    for n in (0, 1, 2):
        for combo in itertools.product(ALPHABET, repeat=n):
            inputs.append(b"".join(combo))
    triples = list(itertools.product(ALPHABET, repeat=3))
    if tier != "thorough":
        triples = rng.sample(triples, 1200)
    inputs += [b"".join(c) for c in triples]
    # token soup and truncated constructs
    soup = [b"x", b"=", b"1", b";", b"(", b")", b"if", b"then", b"else", b"=>", b"->", b":", b"+", b"-", b"*", b"/", b"{", b"}", b"type", b"int", b"\n"]
    for _ in range(3000 if tier == "thorough" else 600):
        inputs.append(b" ".join(rng.choice(soup) for _ in range(rng.randrange(1, 14))))
    for f in sorted(glob.glob(os.path.join(VERIF, "corpus", "*.g"))):
        data = open(f, "rb").read()
        inputs.append(data)
        for _ in range(3):  # truncations and single-byte corruptions
            k = rng.randrange(0, max(1, len(data)))
            inputs.append(data[:k])
            inputs.append(data[:k] + bytes([rng.randrange(256)]) + data[k + 1:])
    seen = set()
    n = 0
    kinds = {}
    samples = []
    path = os.path.join(d, "input.g")
    for data in inputs:
        if data in seen:
            continue
        seen.add(data)
        open(path, "wb").write(data)
        for mode in ("check", "run"):
            rc, o, e = launch(mode, path, timeout=15)
            n += 1
            bad = contract(rc, o, e)
            kinds[str(rc)] = kinds.get(str(rc), 0) + 1
            if bad == "timeout" and (b"=>" in data or b"=" in data):
                # possibly divergent computation written in the program itself: not a violation
                continue
            if bad:
                extra = ""
                if b"panicked at" in e:
                    extra = " in-process: " + inprocess_detail(path, d)
                hits.append({"property": "C14", "kind": f"cli-contract:{bad}", "input": repr(data), "detail": f"gram {mode}: exit {rc}, stdout {o[:200]!r}, stderr {e[:300]!r}{extra}", "suite": "cli"})
            elif len(samples) < 4 and len(data) > 2:
                samples.append(f"gram {mode} on {data[:40]!r}: exit {rc}, contract respected")
    # finite, non-divergent inputs whose nesting exhausts the 16 MiB stack (recorded finding KF-stack)
    for name, data in (("nested-parens-30000", b"(" * 30000 + b"1" + b")" * 30000),
                       ("plus-chain-60000", b" + ".join([b"1"] * 60000))):
        open(path, "wb").write(data)
        rc, o, e = launch("check", path, timeout=60)
        n += 1
        bad = contract(rc, o, e)
        if bad:
            hits.append({"property": "C14", "kind": f"cli-contract:{bad}", "input": f"family:{name}",
                         "detail": f"gram check: exit {rc}, stderr {e[:200]!r}", "suite": "cli"})
    cov.update({"evaluations": n, "distinct_nontrivial": len(seen), "samples": samples, "cli_exit_codes": kinds,
                "cli_inputs": len(seen)})
    return hits, cov


def c17_step(tier, seed, rundir, log):
    """scaling of tokenize + parse on input families (in-process, release build of the harness)"""
    import re
    hits, cov = [], {}
    harness = os.path.join(BUILD, "harness-target", "release", "gram-verif-harness")
    d = os.path.join(rundir, "scaling")
    os.makedirs(d, exist_ok=True)
    cur = os.path.join(d, "scaling.current")
    if os.path.exists(cur):
        os.remove(cur)
    limit = 900 if tier == "thorough" else 240
    t0 = time.time()
    try:
        p = subprocess.run([harness, "scaling", tier, str(seed), d], stdout=subprocess.PIPE, stderr=subprocess.STDOUT, timeout=limit)
        rc = p.returncode
    except subprocess.TimeoutExpired:
        rc = "timeout"
    log.append(("harness scaling", rc, ""))
    if rc != 0:
        label = "?"
        if os.path.exists(cur):
            raw = open(cur, "rb").read()
            n = int(raw[:10] or b"0")
            label = raw[11:11 + n].decode(errors="replace")
        hits.append({"property": "C17", "kind": "parse-does-not-finish" if rc == "timeout" else "abort-while-timing",
                     "input": label, "detail": f"tokenize+parse of this family did not finish within the {limit} s budget of the whole sweep" if rc == "timeout" else f"harness exit {rc}",
                     "suite": "scaling"})
        cov.update({"evaluations": 1, "distinct_nontrivial": 1, "samples": [label]})
        return hits, cov
    times, tokens, misses = {}, {}, {}
    for line in open(os.path.join(d, "scaling.stats"), errors="replace"):
        k, _, v = line.rstrip("\n").partition("\t")
        m = re.match(r"stat:(scale|tokens|memo-misses):([\w-]+):(\d+)$", k)
        if m:
            {"scale": times, "tokens": tokens, "memo-misses": misses}[m.group(1)].setdefault(m.group(2), {})[int(m.group(3))] = int(v)
    for line in open(os.path.join(d, "scaling.hits"), errors="replace"):
        parts = line.rstrip("\n").split("\t")
        if len(parts) >= 4:
            hits.append({"property": parts[0], "kind": parts[1], "input": parts[2], "detail": parts[3], "suite": "scaling"})
    samples, n_meas = [], 0
    import math

    def suspicious(ts):
        ns = sorted(ts)
        for a, b in zip(ns, ns[1:]):
            ta, tb = ts[a] / 1e6, ts[b] / 1e6
            if (tb > 0.25 and ta > 0 and math.log(tb / ta) / math.log(b / a) > 4.5) or tb > 30:
                return True
        return False

    def remeasure(fam, ts):
        # timing is noisy (load, and for the error families the allocator: n diagnostics with a listing of an
        # n-character line each are page-fault bound, fast while they fit the heap already mapped): before growth is
        # reported the family is measured twice more on its own and the MEDIAN of the three runs per size is kept
        runs = {n: [v] for n, v in ts.items()}
        for k in range(2):
            d2 = os.path.join(d, f"again{k}")
            os.makedirs(d2, exist_ok=True)
            try:
                subprocess.run([harness, "scaling", tier, str(seed), d2], stdout=subprocess.PIPE, stderr=subprocess.STDOUT, timeout=limit,
                               env=dict(os.environ, VERIF_SCALING_ONLY=fam))
                for line in open(os.path.join(d2, "scaling.stats"), errors="replace"):
                    k2, _, v = line.rstrip("\n").partition("\t")
                    m = re.match(r"stat:scale:([\w-]+):(\d+)$", k2)
                    if m and m.group(1) == fam:
                        runs.setdefault(int(m.group(2)), []).append(int(v))
            except (subprocess.TimeoutExpired, OSError):
                return ts
        return {n: sorted(vs)[len(vs) // 2] for n, vs in runs.items()}

    remeasured = []
    for fam, ts in sorted(times.items()):
        if suspicious(ts):
            ts = times[fam] = remeasure(fam, ts)
            remeasured.append(fam)
        ns = sorted(ts)
        n_meas += len(ns)
        worst = 0.0
        for a, b in zip(ns, ns[1:]):
            ta, tb = ts[a] / 1e6, ts[b] / 1e6
            if tb > 0.25 and ta > 0:
                expo = math.log(tb / ta) / math.log(b / a)
                worst = max(worst, expo)
                if expo > 4.5:
                    hits.append({"property": "C17", "kind": "super-polynomial-growth", "input": f"family:{fam} n={b}",
                                 "detail": f"time {ta:.3f}s at n={a}, {tb:.3f}s at n={b}: local exponent {expo:.1f}", "suite": "scaling"})
            if tb > 30:
                hits.append({"property": "C17", "kind": "too-slow", "input": f"family:{fam} n={b}", "detail": f"{tb:.1f}s", "suite": "scaling"})
        samples.append(f"{fam}: " + ", ".join(f"n={n}: {ts[n] / 1e6:.3f}s ({tokens.get(fam, {}).get(n, '?')} tokens, {misses.get(fam, {}).get(n, '?')} cache misses)" for n in ns))
    cov.update({"evaluations": n_meas, "distinct_nontrivial": n_meas, "samples": samples[:16], "scaling_wall_s": round(time.time() - t0, 1),
                "scaling_families_measured_three_times": remeasured})
    return hits, cov


F1_BASE = "B : (int -> type) = (n : int) => if n <= 0 then int else B (n - 1)\n"
F1_PROGRAMS = [
    ("original", F1_BASE + "((m : int) => (k : B m) => ((e : int) => (x : B e) => x) m k) 2 5\n"),
    ("unused definition added inside the index of the recursive family", F1_BASE + "((m : int) => (k : B m) => ((e : int) => (x : B (s : int = 20; e)) => x) m k) 2 5\n"),
    ("`if` with two equal branches around an argument", F1_BASE + "((m : int) => (k : B m) => ((e : int) => (x : B e) => x) (if 1 > 6 then m else m) k) 2 5\n"),
]


def c19_step(tier, seed, rundir, log):
    """C19 on the real binary for the one family the in-process search has to avoid: a rewrite next to the index
    of a recursive type family makes the conversion check unfold for ever (it would kill the harness process)."""
    hits, cov = [], {}
    ok, out = build_gram(log)
    if not ok:
        return [{"property": "C19", "kind": "gram-does-not-build", "input": "", "detail": out[-400:], "suite": "cli"}], cov
    d = os.path.join(rundir, "cli19")
    os.makedirs(d, exist_ok=True)
    outcomes = []
    for label, src in F1_PROGRAMS:
        path = os.path.join(d, "f1.g")
        open(path, "w").write(src)
        try:
            p = subprocess.run(["bash", "-c", f"ulimit -v 2000000; exec {GRAM} run {path}"], stdout=subprocess.PIPE, stderr=subprocess.PIPE,
                               timeout=20, env=dict(os.environ, NO_COLOR="1"))
            outcomes.append((label, src, f"exit {p.returncode}: {(p.stdout + p.stderr)[:120]!r}"))
        except subprocess.TimeoutExpired:
            outcomes.append((label, src, "no answer within 20 s"))
    base = outcomes[0][2]
    for label, src, o in outcomes[1:]:
        if o != base:
            hits.append({"property": "C19", "kind": "rewrite-changes-outcome-of-the-real-binary", "input": src,
                         "detail": f"{label}: original program -> {base}; rewritten -> {o}", "suite": "cli"})
    cov.update({"evaluations": len(outcomes), "distinct_nontrivial": len(outcomes), "samples": [f"{l}: {o}" for l, _, o in outcomes]})
    return hits, cov


C05_DIVERGENT = [
    ("control: the same definitions, body `0`", "T : (int -> type) = (n : int) => T n\nf : (T 0 -> int) = (x : T 0) => 0\n0\n", True),
    ("fully annotated, well typed by the rules (`T 0` is only ever compared with itself)", "T : (int -> type) = (n : int) => T n\nf : (T 0 -> int) = (x : T 0) => 0\n(y : T 0) => f y\n", False),
]


def c05_step(tier, seed, rundir, log):
    """C05 on the real binary for the one family the in-process search cannot contain: a fully annotated program
    whose types mention a type-level definition without weak head normal form (the checker's `unify` normalises the
    domain of the function type before it solves the fresh domain cell, and never returns)."""
    hits, cov = [], {}
    ok, out = build_gram(log)
    if not ok:
        return [{"property": "C05", "kind": "gram-does-not-build", "input": "", "detail": out[-400:], "suite": "cli"}], cov
    d = os.path.join(rundir, "cli05")
    os.makedirs(d, exist_ok=True)
    samples = []
    for label, src, _control in C05_DIVERGENT:
        path = os.path.join(d, "c05.g")
        open(path, "w").write(src)
        try:
            p = subprocess.run(["bash", "-c", f"ulimit -v 2000000; exec {GRAM} check {path}"], stdout=subprocess.PIPE, stderr=subprocess.PIPE,
                               timeout=20, env=dict(os.environ, NO_COLOR="1"))
            o = f"exit {p.returncode}: {(p.stderr or p.stdout)[:100]!r}"
            accepted = p.returncode == 0
        except subprocess.TimeoutExpired:
            o, accepted = "no answer within 20 s", False
        samples.append(f"{label}: {o}")
        if not accepted:
            hits.append({"property": "C05", "kind": "fully-annotated-well-typed-program-not-accepted-by-the-real-binary", "input": src,
                         "detail": f"{label}: gram check -> {o}", "suite": "cli"})
    cov.update({"evaluations": len(samples), "distinct_nontrivial": len(samples), "samples": samples})
    return hits, cov
