"""Per-property wording for MANIFEST.json."""
NOT_CLAIMED_REASON = {}
TEXT = {
 "C11": {
  "technique": "Lean 4 proof by mutual structural induction over the term model (all terms, cutoffs, amounts); model tied to de_bruijn.rs by exhaustive small-scope + random differential correspondence; algebraic laws and a named-substitution oracle searched on the implementation",
  "level": "The ten laws of C11 (shift by zero, additivity, unsigned = signed, down undoes up, failure exactly on unbinding, opening a non-occurring variable = lowering, predicted free variables of shift and open, open-after-lift, list/predicate agreement) are theorems for every term, cutoff, amount and group length, checked by Lean's kernel. They speak about the model; the model is tied to the Rust by running signed_shift/open/free_variables and the model on all hole-free terms up to a size bound with every operator, and on random larger terms. The substitution lemma is stated and pending.",
  "note": "Trusted: Lean kernel, axioms {propext, Quot.sound, Classical.choice}, the correspondence harness and driver. Modelled, not verified: de_bruijn.rs, term.rs::free_variables.",
 },
 "C02": {
  "technique": "Lean 4 proof that the model evaluator is sound, complete and deterministic w.r.t. an inductive CBV step relation (fun_induction / rule induction), plus arithmetic/comparison specifications; model tied to evaluator.rs by comparing every intermediate term of every run; reference big-step oracle on the implementation",
  "level": "step_sound, step_complete, determinism, irreducibility of values, evaluator-finds-the-prescribed-result, exact arithmetic, truncating division, comparison and conditional laws, evaluation order of applications are kernel-checked theorems about the model for all terms and all integers. The tie to evaluator.rs is differential: all closed arithmetic/conditional terms to depth 2 over boundary operands (0, ±1, ±2^64, ±10^40 ...), samples at depth 3, recursive and mutually recursive groups, random raw terms, each compared step by step.",
  "note": "Trusted: Lean kernel, the three standard axioms, harness and driver. Modelled, not verified: evaluator.rs, de_bruijn.rs. Not modelled: the 16 MiB stack.",
 },
}
