"""Per-property wording for MANIFEST.json."""
NOT_CLAIMED_REASON = {}
TEXT = {
 "C11": {
  "technique": "Lean 4 proof by mutual structural induction over the term model (all terms, cutoffs, amounts); model tied to de_bruijn.rs by exhaustive small-scope + random differential correspondence; algebraic laws and a named-substitution oracle searched on the implementation",
  "level": "The ten laws of C11 (shift by zero, additivity, unsigned = signed, down undoes up, failure exactly on unbinding, opening a non-occurring variable = lowering, predicted free variables of shift and open, open-after-lift, list/predicate agreement) are theorems for every term, cutoff, amount and group length, checked by Lean's kernel. They speak about the model; the model is tied to the Rust by running signed_shift/open/free_variables and the model on all hole-free terms up to a size bound with every operator, and on random larger terms. The substitution lemma is stated and pending.",
  "note": "Trusted: Lean kernel, axioms {propext, Quot.sound, Classical.choice}, the correspondence harness and driver. Modelled, not verified: de_bruijn.rs, term.rs::free_variables.",
 },
 "C02": {
  "technique": "Lean 4 proof that the model evaluator is sound, complete and deterministic w.r.t. an inductive CBV step relation (fun_induction / rule induction), plus arithmetic/comparison specifications; model tied to evaluator.rs by comparing every intermediate term of every run; reference big-step oracle on the implementation",
  "level": "step_sound, step_complete, determinism, irreducibility of values, evaluator-finds-the-prescribed-result, exact arithmetic, truncating division, comparison and conditional laws, evaluation order of applications are kernel-checked theorems about the model for all terms and all integers. The tie to evaluator.rs is differential: all closed arithmetic/conditional terms to depth 2 over boundary operands (0, ±1, ±2^64, ±10^40 ...), samples at depth 3, recursive and mutually recursive groups, random raw terms, each compared step by step.",
  "note": "Trusted: Lean kernel, the three standard axioms, harness and driver. Modelled, not verified: evaluator.rs, de_bruijn.rs. Not modelled: the 16 MiB stack.",
 },
 "C09": {
  "technique": "Lean 4 proof over a tokenizer model parametric in the Unicode classifier (invariants of the scanning loop by induction on fuel; keyword table regenerated from source and decided); tied to tokenizer.rs by exhaustive short strings over a class-representative alphabet + random Unicode texts; the partition predicate searched on the implementation",
  "level": "Kernel-checked for every text and every classifier: failures list at least one symbol, the keyword table is a bijection of whole words, literal values are positional in unbounded Nat; ordering/disjointness of ranges, totality (no panic arm), keyword-iff and lexeme=slice are stated and discharged as the proof work proceeds (pending ones are listed in the evidence). The model is tied to the code by op `tok` (token kinds, payloads, byte ranges, error ranges). The full partition predicate of C09 is evaluated on the implementation's output for every generated text.",
  "note": "Trusted: Lean kernel, standard axioms, harness/driver, the extractor (extract/extract.py). External, assumed: Rust std Unicode tables, unicode-segmentation, num-bigint decimal parsing (exercised by correspondence).",
 },
 "C10": {
  "technique": "Lean 4 proof of local scanner laws (comment = its line ending, blanks skipped, line break yields a terminator iff the regenerated can-end table says so) and `decide` over the two line-break tables regenerated from tokenizer.rs; the full render/tokenize law searched on the implementation over random token sequences and layouts",
  "level": "Kernel-checked: a comment is skipped up to and not including its line feed (also at end of file), table obligations over all 29 token shapes (operators/opening brackets cannot end, binary operators/closing brackets cannot start, `;` does both, line-break terminator never ends), payload independence; scanner-level comment/blank/newline laws and no-two-linebreaks are stated and discharged as proof work proceeds. The unbounded render/tokenize law is pending; it is evaluated on the implementation for random token lists with every gap filled by spaces, tabs, CR, NBSP, comments (empty, multi-byte, at EOF) and line breaks.",
  "note": "Trusted: as C09. The tables are regenerated from the source on every run, so a moved variant re-decides the obligations.",
 },
}
